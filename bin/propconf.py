"""Per-property configuration for bin/check."""

GLOBAL_TRUSTED = [
    "Coq 8.16.1 kernel and its vm_compute virtual machine (used for proofs by reflection on finite tables and to run the model on cases); native_compute is not used",
    "no extraction: the model is evaluated inside Coq; no Extract Constant / Extract Inductive directives",
    "the Go harness (generators, canonicalisers, printers of Coq terms: harness/internal/coq, harness/cmd/drive) and bin/check's parsing of Coq's printed `M = [...]` / `SV = [...]` lines",
    "the agreement between model and implementation is sampled by the correspondence check, not proved",
    "Go runtime semantics for everything not modelled (goroutine scheduling, channel FIFO behaviour, memory model)",
]

PROPS = {
    "C13": {
        "trusted_base": [
            "modelled, not verified: jobstorage/serializer.go MarshalStream/UnmarshalStream (feeder, n workers, round-robin merger as a transition system with per-channel capacity), gdbi/processor.go LookupBatcher (timeouts = nondeterministic flush) and DualProcessor, gripper/channel_mux.go (pipelines assumed 1:1 FIFO), engine/queue/queue.go (FIFO chain)",
            "encoding/json round trip of travelers is outside the model (item identity = element id)",
        ],
        "assumptions": [
            "every schedule = every schedule of the modelled transition systems; the Go scheduler itself is sampled (GOMAXPROCS 1/4/16, seeded per-item latencies)",
            "ChannelMux pipelines produce exactly one output per input, in order",
        ],
    },
    "C10": {
        "trusted_base": [
            "modelled: the ordered byte-string map Model/KV.v (the specification itself); the four adapters kvi/*/*_store.go and the Badger/Bolt/goleveldb/Pebble libraries are NOT modelled: they are compared with the map by the correspondence check on every run",
        ],
        "assumptions": [
            "keys are non-empty (Badger and Bolt reject empty keys; grip never writes one)",
            "Next() is only issued on a valid cursor; Key()/Value() are only compared while Valid()",
            "a callback that fails is modelled as 'nothing happened' (C10_failed_update_leaves_no_trace); Pebble's Update, which is documented as not transactional, is the known finding C10-K1 and is recognised by a second, 'leaky' run of the model (kv_run_leaky); atomicity under a process kill is C04's subject",
        ],
    },
    "C03": {
        "trusted_base": [
            "modelled, not verified: kvgraph/graph.go, graphdb.go, index.go, new.go, the part of kvindex/kvindex.go kvgraph uses (AddField/RemoveField/AddDocTx/GetTermMatch/FieldTerms), timestamp/timestamp.go, and the validation/existence guards of server/api.go, all at the level of structured keys (tuples of identifiers); the byte encoding of keys is Model/Keys.v (C16), the store below is Model/KV.v (C10)",
            "protobuf (de)serialisation of vertex/edge records is the identity in the model",
            "real-clock timestamps are compared only as changed/unchanged",
        ],
        "assumptions": ["identifiers contain no 0x00 byte (C16 decides that)", "universe of the correspondence: 2 graphs, 3 vertex ids, 3 edge ids, 2 labels, 3 data values + invalid variants"],
    },
    "C04": {
        "trusted_base": [
            "same model as C03 plus reopen (kvgraph.NewKVGraph over the persisted store: registry reloaded from the f| keys, every listed graph touched) and crash (only the first n top-level key-value calls of a mutation happen; each call is atomic in the store)",
            "crash injection in the correspondence check is a kvi.KVInterface wrapper in the harness that refuses top-level writes after a budget, followed by close and reopen; a kill -9 of a real process and fsync behaviour of the storage libraries are not exercised",
        ],
        "assumptions": ["each top-level key-value call (Set/Delete/DeletePrefix/Update/BulkWrite) is atomic and durable once it returns (true of Badger; Pebble and LevelDB Update is not transactional)"],
    },
    "C16": {
        "trusted_base": [
            "modelled: the 0x00-joined key encoding of kvgraph/keys.go and of kvindex/keys.go (string terms) and the validation rules of gripql/util.go (Model/Keys.v, hand-written); the key constructors and prefixes are compared byte for byte with the Go functions on 250 component tuples per run; the split parsers (*KeyParse) are modelled by split0 and exercised through read-back only; numeric index terms (8 raw bytes, which may contain 0x00) are C09's subject; the protobuf Struct round trip of property values is not modelled (checked by the harness only)",
            "which strings the code accepts is compared with the validation model on every run (accept/reject correspondence)",
        ],
        "assumptions": ["identifiers are valid UTF-8 (protobuf string fields: anything else cannot arrive over the wire)",
                        "the label literally named 'label' is refused by the index layer (modelled as a refusal); since fix 3371a42 the refused write leaves no trace on any store (the reserved words are written on Pebble in the quick tier too)"],
    },
    "C09": {
        "trusted_base": [
            "modelled, not verified: kvindex/kvindex.go and entries.go at the level of (field, term, doc) tuples; numeric terms are 64-bit patterns and a field's numeric entries are a list sorted by (pattern, doc id), standing for the key-ordered scan (C09_encoding_order + C10/C16 justify that reading; the byte-level scan itself is compared with the implementation on every run)",
            "'numeric order on finite doubles = sign-magnitude order on patterns' (fkey) is the standard IEEE-754 fact, assumed; NaN, infinities and -0.0 are outside the domain (finite excludes them)",
        ],
        "assumptions": ["documents carry at most one value per field; values are strings or numbers", "a live document contributes the terms of fields registered when it was inserted"],
    },
    "C08": {
        "trusted_base": [
            "modelled, not verified: engine/logic/match.go (MatchesCondition, MatchesHasExpression), the simple-path part of jsonpath/jsonpath.go (namespace, reserved fields, nested map lookup; array indexes are not modelled), spf13/cast ToFloat64E on JSON kinds and strconv.ParseFloat on the decimal grammar (sign, digits, fraction, exponent)",
            "numbers are exact rationals: the harness only emits doubles that are exactly representable, so float and rational comparison agree",
        ],
        "assumptions": ["numeric text = decimal floating-point literals; the special spellings ParseFloat also accepts (inf, infinity, nan, hex floats, digit-separating underscores) are outside the generator's alphabet and the model",
                        "map values are compared key-sorted (reflect.DeepEqual is order-insensitive on maps)"],
    },
    "C01": {
        "trusted_base": [
            "modelled, not verified: engine/core/compile.go (typing switch, Validate), every Process of engine/core/processors.go for the documented steps as list functions, gdbi/traveler.go (AddCurrent/AddMark), jsonpath (simple paths, fields on top-level keys, render), pipes.go Convert; goroutines/channels are abstracted to lists (their order/multiplicity behaviour is C13/C07)",
            "the graph of the model is the abstract graph; that kvgraph's reads denote it is C03_observe",
            "in/out from an edge ignore the label list (as the code does); the documentation does not say otherwise",
            "the null-producing moves are read as a left outer join (the traveler is kept, without a current element, exactly when the plain move yields nothing, an edge to an absent vertex counting as nothing): what kvgraph's GetInChannel, the Mongo pipeline's preserveNullAndEmptyArrays and, since fix b223fe4, kvgraph's GetOutChannel do; no document of the repository defines them",
        ],
        "assumptions": ["fields() is exercised on top-level property names only (nested include/exclude paths of jsonpath are not modelled); unwind() also on nested paths",
                        "programs whose window/distinct step is followed by anything but count are compared by size only (their rows depend on scan order)"],
    },
    "C02": {
        "trusted_base": [
            "modelled, not verified: engine/core/optimize.go IndexStartOptimize + extractHasVals + dedupStringSlice as Model/Optimize.v (hand-written; compared structurally with the Go function's output on ~1,400 programs per run); LookupVertsIndex is read as 'for every label, the vertices carrying it' (what kvgraph's VertexLabelScan + GetVertexChannel deliver, compared on every run through the production pipeline)",
            "modelled, not verified: engine/inspect PipelineSteps / PipelineAsSteps(all steps of a name) / PipelineStepOutputs / statementFields / hasExpressionFields / templateFields and pipeline.State.StepLoadData as Model/LoadPlan.v (hand-written; compared with the Go functions' tables on ~1,600 programs per run), for the statements of the C01 model",
            "NOT modelled: what a processor or backend does with the load flag (GetVertexList(load), lookups with load=false, Convert's lazy reload): compared, on every run, with the literal semantics of Model/Traversal.v on kvgraph and on a harness backend that honours the load hint for vertices",
            "same trusted base as C01 for the literal semantics",
        ],
        "assumptions": ["label index entries agree with vertex labels (C03; known findings 1 and 3 of C03 are the exceptions)", "vertex ids are unique within a graph (a key-value store holds one record per key; C03)"],
    },
    "C19": {
        "trusted_base": [
            "modelled, not verified: the finalisers of aggregate.Process (term / histogram / field / type / count) as functions of the list of field values; numbers are exact rationals (histogram arithmetic floor(min/i)*i, +i agrees with float64 on the generator's values)",
            "tdigest (percentile) is external: C19_pct is conditional on two stated hypotheses about the quantile function (monotone in p, bounded by min/max); the correspondence checks exactly those two facts on the values the implementation returns",
            "cast.ToFloat64E treats booleans as 1/0 and numeric text as numbers in histogram/percentile (modelled as the code does)",
        ],
        "assumptions": ["term buckets with equal frequency may be kept or dropped in any order by `size`"],
    },
    "C06": {
        "trusted_base": [
            "proved part: the C01 model (typing + step functions); see C01's trusted base",
            "NOT modelled, exercised only: set/increment, aggregations, mark/jump, server edit handlers, BulkAdd stream switching, the optimiser's value extraction; the hostile-request generator and the worker sub-process classification (rows / error / crash / hang, crash and hang re-confirmed by running the request alone) are the whole assurance there",
            "requests reach the handlers through the verif-tagged server constructor and fake gRPC streams: the gRPC/HTTP transport layers are not exercised",
        ],
        "assumptions": ["a loop program (mark/jump) whose counter bounds the iteration depth; unbounded loops over cyclic data do not terminate by construction and are not requests this check sends"],
    },
    "C05": {
        "translators": ["AuthTables"],
        "trusted_base": [
            "the translator harness/cmd/translate (go/ast): extraction of the ServiceDescs, MethodMap, the case lists of getUnaryRequestGraph, per stream case whether an access.Enforce(user, graph, op) call with an error return dominates the handler call, the defaults for unlisted streams, BulkWriteFilter.RecvMsg's shape, and the interceptor arguments of every New*DirectClient / grpc.NewServer call in server/server.go; unknown shapes are emitted as `unrecognised`, which fails C05_wiring (fail closed)",
            "Model/Auth.v: the control flow of unaryAuthInterceptor / streamAuthInterceptor over those tables (hand-written; compared with the real interceptors on every run through the verif-tagged constructor)",
            "Authenticate.Validate and Access.Enforce are parameters of the theorems (BasicAuth / ProxyAuth / casbin decide, their correctness is not the property)",
        ],
        "assumptions": ["the generated gRPC handlers pass every call through the registered interceptor (grpc-go)", "HTTP gateway requests reach the same handlers through the Direct clients (extracted wiring)"],
    },
    "C20": {
        "translators": ["SqlTemplates"],
        "trusted_base": [
            "the translator harness/cmd/translate (go/ast): every fmt.Sprintf of psql/*.go and existing-sql/*.go with its format and argument source texts, every element stored into a slice the function strings.Join's, every gripql.ValidateGraphName call; a non-literal format is emitted as `unrecognised`, which fails C20_sites_accounted (fail closed); statement text built WITHOUT Sprintf is invisible to the translator and is caught only by the correspondence (every observed statement that depends on the client value must instantiate a regenerated template)",
            "Model/Sql.v: the lexer (words, quoted identifiers, '..' and E'..' literals, numbers, -- and /* */ comments) is a model of how PostgreSQL tokenises with standard_conforming_strings=on; the classification lists schema_args / derived_at / carried_args (which argument expressions are configuration- or schema-derived) are hand-written and part of the trusted base",
            "pq_quote models lib/pq QuoteLiteral; compared with the library on every hostile value on every run",
            "the recording database/sql driver stands in for the server: what the server does with a statement is not modelled, only the statement text and its bound parameters",
        ],
        "assumptions": ["bound parameters ($1.. / ? placeholders) are transmitted out of band by database/sql drivers and cannot change statement structure", "table and column names taken from the driver configuration / the graphs table are trusted (operator-supplied, or derived from a validated graph name)"],
    },
    "C14": {
        "trusted_base": [
            "Model/Mongo.v core_kstep / mongo_kstep: hand-written mirrors of engine/core/compile.go:StatementProcessor and mongo/compile.go:Compile (lastType, markTypes), compared with both real compilers on every statement sequence of the run (the Mongo one through the verif hook, without a database)",
            "Model/Mongo.v convert: hand-written mirror of mongo/has_evaluator.go, compared structurally with the real bson output on every case",
            "meval: the semantics of $and/$or/$not/$eq/$ne/$gt/$gte/$lt/$lte/$in/$elemMatch on documents with scalar or absent fields, written from the MongoDB manual (type-bracketed comparisons, null matches absent, $in needs an array, empty $and/$or rejected); no MongoDB server exists in the sandbox, so this interpreter IS the reference and is trusted",
            "the stored document of an element is {_id,label,from,to,data}; hypothesis Hdoc of C14_filter (server path lookup = core lookup through convertPath) is checked per case, not proved in general",
        ],
        "assumptions": ["the aggregation stages around the $match fragment (projection, lookups, unwinds) are not modelled: C14 covers typing and the has-filter fragment only", "has() keys in a mark namespace ($m.field) are outside the generated domain: convertPath drops the namespace"],
    },
    "C07": {
        "trusted_base": [
            "Model/Pipeline.v is a hand-written abstraction of engine/pipeline/pipes.go:Start and of the processors' read-one / write-results / close-after-input shape: channel contents are rows, a step's effect per row is an upper bound on what it writes; graph-store scans and lookups are part of the step that calls them; the Go scheduler is any interleaving of enabled steps; a blocked channel send is a disabled step",
            "the fan-out model mirrors engine/core/processors.go:both.Process after the repair (feeder goroutine, first output forwarded, second held) and, with concurrent=false, the pinned design",
            "correspondence is by observable behaviour only (stream closes, row count, goroutines and temporary entries afterwards): the real runs sample schedules, the theorems cover all of them for the model",
        ],
        "assumptions": ["every processor other than both/bothE has the linear read-write-close shape (aggregate's internal fan-out consumes concurrently and is treated as one step writing at end of input)", "kvgraph scans stop on context cancellation (observed, not modelled beyond the cancel step)", "mark/jump cycles are excluded here (C12)"],
    },
    "C12": {
        "trusted_base": [
            "Model/Loop.v is a hand-written model of engine/logic/jump.go (JumpMark.Process closing phase, Jump.Process) with engine/queue/queue.go as an unbounded FIFO, ONE jump per mark; the loop body and the jump are one FIFO segment (a traveler popped at its end has gone through the body and the jump's test), justified by C13's chain theorem for order-preserving steps; the mark's decisions on silence are enabled at all times",
            "busy-polling iterations of the mark that change nothing are not steps of the model: termination of the real loop additionally needs the Go scheduler to run every runnable goroutine eventually",
            "correspondence by observable behaviour: real loops on real graphs under GOMAXPROCS 1 and 16 against loop_spec, and the executable protocol model under two schedulers against loop_spec on the same inputs",
        ],
        "assumptions": ["every step of the loop body forwards signals in FIFO order with the travelers (true of the linear steps; both()/bothE() forward signals ahead of buffered travelers and are outside this model)", "marks with several jumps, and nested loops, are outside the model"],
    },
    "C17": {
        "translators": ["LockTable"],
        "race": True,
        "trusted_base": [
            "the translator harness/cmd/translate (go/ast, lexical): every selector access to the guarded fields (server: dbs graphMap schemas mappings plugins sources under GripServer.mu; kvindex: Fields under KVIndex.fieldLock; jobstorage: Status under Job.lock) with the lock state at that statement (statement order within a block, deferred unlock = held to the end, function literals start unlocked, branches that disagree are emitted as unrecognised); WHICH fields are shared and which mutex guards them is a hand-written list; aliasing of the maps through local variables is not tracked (the accessor functions return copies)",
            "Model/Conc.v part 1 is an interleaving model with sequentially consistent memory and reader/writer mutexes; 'race' = two threads about to access the same variable, one writing",
            "Model/Conc.v part 2 treats each store operation as atomic (one store transaction); kvgraph/badger/pebble transactions are assumed atomic and are exercised, not modelled",
            "the Go race detector (happens-before, sampled schedules) is the dynamic oracle for everything the lock table does not list (store internals, engine, index)",
        ],
        "assumptions": ["shared state outside the three listed structs is found only by the race detector on the schedules that occur", "gRPC runs each request handler on its own goroutine; the harness calls the handlers directly from concurrent goroutines"],
    },
    "C11": {
        "trusted_base": [
            "Model/Jobs.v: resume = run_from of the extension from the stored type on the stored travelers; the serialisation of travelers to JSON and back is NOT modelled (identity in the model): it is exercised by every view/resume of the correspondence",
            "Model/Jobs.v deal_from / merge mirror the reader and merger loops of jobstorage/serializer.go MarshalStream and UnmarshalStream (hand-written; the worker goroutines between them are modelled as FIFO lists; compared with the Go pair on ~80 (workers, length) pairs per run)",
            "job_match mirrors jobstorage.JobMatch over abstract checksums; C11_search assumes checksum equality is exact (hashstructure collisions and its treatment of protobuf oneofs are exercised, not modelled)",
            "the traversal semantics is Model/Traversal.v (tied to the engine by C01); Eval_C11 reuses C01's row comparison (exact multiset / window / unordered modes)",
        ],
        "assumptions": ["the graph is unchanged between submit and resume", "job ids are compared through the index of the submit that created them"],
    },
    "C18": {
        "trusted_base": [
            "Model/Bulk.v bulk_step mirrors the loop of server/api.go:BulkAdd (schema-graph refusal, per-graph stream switching with wait, validation, counting); a stream's writes are applied when it is closed, in order, as kvgraph.BulkAdd does in one bulk write; seq_step is AddVertex/AddEdge one at a time",
            "validation is Model/Keys.v's (C16) lifted to elements; chunks/batched mirror util.StreamBatch's batching (used by the drivers that batch; kvgraph itself does not batch)",
            "the observable graph of a write log is last-write-per-id (table_of); re-adding an edge id with other endpoints (C03's known finding) is avoided by the generator",
        ],
        "assumptions": ["the authorization filter in front of BulkAdd is C05_bulk's subject", "errors raised by the store inside a bulk write are not modelled"],
    },
    "C15": {
        "trusted_base": [
            "Model/Gripper.v materialise is the hand-written statement of what gripper/graph.go synthesises (GetVertexList, GetEdgeList, GenID); the traversal semantics on that graph is Model/Traversal.v (C01)",
            "the table service is the repository's own SimpleTableServicer with preloaded drivers, reached over an in-memory gRPC connection (bufconn): the external plugin processes of a deployment are not exercised",
            "the second reference (the same graph in the embedded store) is built by the harness' own materialisation in Go, compared only where the store can hold the graph (no two link rows with equal endpoints)",
        ],
        "assumptions": ["vertex prefixes do not overlap and row ids contain no '-' (edge ids are split on '-')", "E(id) on an id shared by several link rows is not compared (which row it shows is unspecified)"],
    },
}
