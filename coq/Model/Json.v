(* JSON values as structpb.Value.AsInterface() yields them, field-path lookup (jsonpath/jsonpath.go),
   numeric text (strconv.ParseFloat on the decimal grammar). *)
From Coq Require Import List ZArith QArith String Ascii Bool.
Import ListNotations.
Local Close Scope Q_scope.
Local Open Scope nat_scope.
Local Open Scope string_scope.

Inductive jv :=
| JNull | JBool (b : bool) | JNum (q : Q) | JStr (s : string) | JList (l : list jv) | JMap (m : list (string * jv)).

(* reflect.DeepEqual on such values (maps are printed by the harness sorted by key, keys unique) *)
Fixpoint jeq (a b : jv) : bool :=
  match a, b with
  | JNull, JNull => true
  | JBool x, JBool y => Bool.eqb x y
  | JNum x, JNum y => Qeq_bool x y
  | JStr x, JStr y => String.eqb x y
  | JList x, JList y =>
      (fix go (x y : list jv) : bool :=
         match x, y with [], [] => true | a :: x', b :: y' => jeq a b && go x' y' | _, _ => false end) x y
  | JMap x, JMap y =>
      (fix go (x y : list (string * jv)) : bool :=
         match x, y with
         | [], [] => true
         | (k, a) :: x', (k', b) :: y' => String.eqb k k' && jeq a b && go x' y'
         | _, _ => false end) x y
  | _, _ => false
  end.

(* ---------- decimal floating point text: optional sign, digits with an optional fraction (or a bare
   fraction), optional exponent ---------- *)
Definition digit_of (c : ascii) : option Z :=
  let n := Z.of_nat (nat_of_ascii c) in
  if ((48 <=? n) && (n <=? 57))%Z then Some (n - 48)%Z else None.

Fixpoint chars (s : string) : list ascii := match s with EmptyString => [] | String c r => c :: chars r end.

(* read digits: returns (value accumulated onto acc, number of digits read, rest) *)
Fixpoint read_digits (l : list ascii) (acc : Z) (n : nat) : Z * nat * list ascii :=
  match l with
  | c :: r => match digit_of c with Some d => read_digits r (acc * 10 + d)%Z (S n) | None => (acc, n, l) end
  | [] => (acc, n, [])
  end.

Definition read_sign (l : list ascii) : bool * list ascii :=    (* true = negative *)
  match l with
  | c :: r => if Ascii.eqb c "-" then (true, r) else if Ascii.eqb c "+" then (false, r) else (false, l)
  | [] => (false, [])
  end.

Definition pow10 (n : nat) : positive := Pos.pow 10 (Pos.of_nat n).
Definition scale (m : Z) (e : Z) : Q :=
  if (0 <=? e)%Z then (m * Z.pow 10 e # 1) else (m # Pos.pow 10 (Z.to_pos (- e))).

Definition parse_float (s : string) : option Q :=
  let '(neg, l1) := read_sign (chars s) in
  let '(ip, ni, l2) := read_digits l1 0%Z 0 in
  let '(mant, nf, l3) :=
    match l2 with
    | c :: r => if Ascii.eqb c "." then let '(m, k, r') := read_digits r ip 0 in (m, k, r') else (ip, 0, l2)
    | [] => (ip, 0, [])
    end in
  if Nat.eqb (ni + nf) 0 then None else
  let finish (e : Z) := Some (scale (if neg then (- mant)%Z else mant) (e - Z.of_nat nf)%Z) in
  match l3 with
  | [] => finish 0%Z
  | c :: r =>
      if Ascii.eqb c "e" || Ascii.eqb c "E" then
        let '(eneg, r1) := read_sign r in
        let '(ev, ne, r2) := read_digits r1 0%Z 0 in
        match ne, r2 with
        | S _, [] => finish (if eneg then (- ev)%Z else ev)
        | _, _ => None
        end
      else None
  end.

(* ---------- field paths ---------- *)
Fixpoint split_on (sep : ascii) (l : list ascii) (cur : list ascii) : list (list ascii) :=
  match l with
  | [] => [rev cur]
  | c :: r => if Ascii.eqb c sep then rev cur :: split_on sep r [] else split_on sep r (c :: cur)
  end.
Fixpoint str_of (l : list ascii) : string := match l with [] => EmptyString | c :: r => String c (str_of r) end.
Definition split_dot (s : string) : list string := map str_of (split_on "." (chars s) []).

Definition starts_with_dollar (s : string) : bool := match s with String c _ => Ascii.eqb c "$" | _ => false end.
Definition drop1 (s : string) : string := match s with String _ r => r | EmptyString => EmptyString end.

(* GetNamespace: None = the current element ("$" and the reserved "$__current__"), Some m = mark m *)
Definition namespace (path : string) : option string :=
  match split_dot path with
  | p :: _ => if starts_with_dollar p
              then (if String.eqb (drop1 p) "" || String.eqb (drop1 p) "__current__" then None else Some (drop1 p))
              else None
  | [] => None
  end.

(* GetJSONPath: the component list below the element document (first component gid/label/from/to/data) *)
Definition reserved_field (p : string) : option string :=
  if String.eqb p "_gid" then Some "gid" else if String.eqb p "_label" then Some "label"
  else if String.eqb p "_to" then Some "to" else if String.eqb p "_from" then Some "from"
  else if String.eqb p "_data" then Some "data" else None.
Definition json_path (path : string) : list string :=
  let parts := split_dot path in
  let parts := match parts with p :: r => if starts_with_dollar p then r else parts | [] => [] end in
  match parts with
  | [] => []
  | p :: r => match reserved_field p with Some x => x :: r | None => "data" :: p :: r end
  end.

Fixpoint map_get (m : list (string * jv)) (k : string) : option jv :=
  match m with [] => None | (k', v) :: r => if String.eqb k k' then Some v else map_get r k end.
(* github.com/bmeg/jsonpath get_key: a key of a map; through a list, the values of that key in the items that
   have it (never an error); anything else (null, scalars) is an error *)
Fixpoint get_key (v : jv) (k : string) : option jv :=
  match v with
  | JMap m => map_get m k
  | JList l => Some (JList (flat_map (fun x => match get_key x k with Some y => [y] | None => [] end) l))
  | _ => None
  end.
Fixpoint dig (v : jv) (path : list string) : option jv :=
  match path with
  | [] => Some v
  | k :: r => match get_key v k with Some x => dig x r | None => None end
  end.
(* maps only (a document store's dotted paths as Model/Mongo.v reads them) *)
Fixpoint dig_map (v : jv) (path : list string) : option jv :=
  match path with
  | [] => Some v
  | k :: r => match v with JMap m => match map_get m k with Some x => dig_map x r | None => None end | _ => None end
  end.

(* an element as jsonpath sees it (DataElement.ToDict) *)
Record element := { e_gid : string; e_label : string; e_from : string; e_to : string; e_data : list (string * jv) }.
Definition to_dict (e : element) : jv :=
  JMap [("gid", JStr (e_gid e)); ("label", JStr (e_label e)); ("to", JStr (e_to e)); ("from", JStr (e_from e));
        ("data", JMap (e_data e))].
