(* Proofs for Model/KVIndex.v (C09). *)
From Coq Require Import List NArith Bool Arith Lia Sorted Permutation.
Import ListNotations.
From Grip Require Import Model.Bytes Model.KVIndex.

(* ---------- 1. big-endian fixed-width encoding preserves order (kvindex/entries.go:GetTermBytes) ---------- *)
Fixpoint be (k : nat) (n : N) : bytes :=           (* k bytes, most significant first *)
  match k with 0 => [] | S k' => (n / 256 ^ N.of_nat k')%N :: be k' (n mod 256 ^ N.of_nat k')%N end.

Lemma be_order k : forall a b, (a < 256 ^ N.of_nat k)%N -> (b < 256 ^ N.of_nat k)%N ->
  bcmp (be k a) (be k b) = N.compare a b.
Proof.
  induction k as [|k IH]; intros a b Ha Hb.
  - simpl in *. assert (a = 0%N) by lia. assert (b = 0%N) by lia. subst. reflexivity.
  - cbn [be bcmp]. set (B := (256 ^ N.of_nat k)%N) in *.
    assert (0 < B)%N as HB by (unfold B; pose proof (N.pow_nonzero 256 (N.of_nat k)); lia).
    assert (256 ^ N.of_nat (S k) = 256 * B)%N as HS.
    { unfold B. rewrite Nat2N.inj_succ, N.pow_succ_r'. reflexivity. }
    rewrite HS in Ha, Hb.
    pose proof (N.div_mod a B ltac:(lia)) as Ea. pose proof (N.div_mod b B ltac:(lia)) as Eb.
    pose proof (N.mod_lt a B ltac:(lia)) as La. pose proof (N.mod_lt b B ltac:(lia)) as Lb.
    specialize (IH (a mod B)%N (b mod B)%N La Lb). rewrite IH. clear IH.
    set (qa := (a / B)%N) in *. set (ra := (a mod B)%N) in *. set (qb := (b / B)%N) in *. set (rb := (b mod B)%N) in *.
    clearbody qa ra qb rb.
    destruct (N.compare_spec qa qb) as [E|E|E].
    + subst qb. destruct (N.compare_spec ra rb) as [H|H|H]; symmetry.
      * subst. apply N.compare_refl.
      * apply N.compare_lt_iff. lia.
      * apply N.compare_gt_iff. lia.
    + symmetry. apply N.compare_lt_iff.
      assert (B * (qa + 1) <= B * qb)%N by (apply N.mul_le_mono_l; lia). lia.
    + symmetry. apply N.compare_gt_iff.
      assert (B * (qb + 1) <= B * qa)%N by (apply N.mul_le_mono_l; lia). lia.
Qed.

(* ---------- 2. the sign-aware scans over a pattern-sorted entry list ---------- *)
Definition finite (p : N) : bool := (p <? PINF)%N || ((SIGN <? p)%N && (p <? NINF)%N).   (* finite, not -0 *)
Definition ple (a b : N * N) : Prop := (fst a <= fst b)%N.

Lemma take_while_app_all {X} (f : X -> bool) a b : forallb f a = true ->
  take_while f (a ++ b) = a ++ take_while f b.
Proof. induction a as [|x a IH]; simpl; auto. intros H. apply andb_true_iff in H as [H1 H2]. rewrite H1. f_equal. auto. Qed.
Lemma take_while_none {X} (f : X -> bool) b : match b with [] => True | x :: _ => f x = false end -> take_while f b = [].
Proof. destruct b; simpl; auto. intros ->. reflexivity. Qed.
Lemma take_while_all {X} (f : X -> bool) a : forallb f a = true -> take_while f a = a.
Proof. intros H. rewrite <- (app_nil_r a) at 1. rewrite take_while_app_all; auto. simpl. apply app_nil_r. Qed.
Lemma drop_while_none {X} (f : X -> bool) b : match b with [] => True | x :: _ => f x = false end -> drop_while f b = b.
Proof. destruct b; simpl; auto. intros ->. reflexivity. Qed.

(* a pattern-sorted list splits into its non-negative part followed by its negative part *)
Lemma sorted_split L : StronglySorted ple L -> exists poss negs, L = poss ++ negs /\
  Forall (fun x => (fst x < SIGN)%N) poss /\ Forall (fun x => (SIGN <= fst x)%N) negs.
Proof.
  induction 1 as [|x L HS IH Hall].
  - exists [], []. repeat split; constructor.
  - destruct IH as [poss [negs [-> [Hp Hn]]]].
    destruct (N.ltb_spec (fst x) SIGN) as [Hlt|Hge].
    + exists (x :: poss), negs. repeat split; auto.
    + exists [], (x :: poss ++ negs). repeat split; auto. constructor; auto.
      rewrite Forall_forall in *. intros y Hy. specialize (Hall y Hy). unfold ple in Hall. lia.
Qed.

Definition numbers_of (L : list (N * N)) : list N :=
  map fst (take_while (fun x => (PINF <=? fst x)%N) (seek_bwd L NINF)) ++
  map fst (take_while (fun x => (fst x <? PINF)%N) (seek_fwd L 0)).

Lemma forallb_Forall {X} (f : X -> bool) (P : X -> Prop) l : (forall x, P x -> f x = true) -> Forall P l -> forallb f l = true.
Proof. intros H. induction 1; simpl; auto. rewrite H; auto. Qed.

Lemma numbers_of_split poss negs :
  Forall (fun x => (fst x < SIGN)%N /\ finite (fst x) = true) poss ->
  Forall (fun x => (SIGN <= fst x)%N /\ finite (fst x) = true) negs ->
  numbers_of (poss ++ negs) = map fst (rev negs) ++ map fst poss.
Proof.
  intros Hp Hn. unfold numbers_of, seek_bwd, seek_fwd.
  assert (forallb (fun x : N * N => (fst x <? NINF)%N) (poss ++ negs) = true) as Hfin.
  { rewrite forallb_app. apply andb_true_iff; split.
    - eapply forallb_Forall; [|exact Hp]. intros x [H1 H2]. apply N.ltb_lt. unfold SIGN, NINF in *. lia.
    - eapply forallb_Forall; [|exact Hn]. intros x [H1 H2]. unfold finite in H2. apply orb_true_iff in H2 as [H2|H2].
      + apply N.ltb_lt in H2. apply N.ltb_lt. unfold PINF, NINF in *. lia.
      + apply andb_true_iff in H2 as [_ H2]. exact H2. }
  rewrite (take_while_all (fun x : N * N => (fst x <? NINF)%N) (poss ++ negs) Hfin). rewrite rev_app_distr.
  f_equal.
  - f_equal. rewrite take_while_app_all.
    + rewrite take_while_none. apply app_nil_r.
      destruct (rev poss) as [|y r] eqn:E; auto.
      assert (In y poss) as Hy by (apply in_rev; rewrite E; left; reflexivity).
      rewrite Forall_forall in Hp. destruct (Hp y Hy) as [H1 H2]. unfold finite in H2.
      apply N.leb_gt. apply orb_true_iff in H2 as [H2|H2]; [now apply N.ltb_lt in H2|].
      apply andb_true_iff in H2 as [H2 _]. apply N.ltb_lt in H2. lia.
    + apply forallb_forall. intros y Hy. apply in_rev in Hy. rewrite Forall_forall in Hn. destruct (Hn y Hy) as [H1 _].
      apply N.leb_le. unfold SIGN, PINF in *. lia.
  - f_equal. rewrite drop_while_none.
    + rewrite take_while_app_all.
      * rewrite take_while_none. apply app_nil_r.
        destruct negs as [|y r]; auto. inversion Hn; subst. destruct H1 as [H1 _]. apply N.ltb_ge. unfold SIGN, PINF in *. lia.
      * eapply forallb_Forall; [|exact Hp]. intros x [H1 H2]. unfold finite in H2.
        apply orb_true_iff in H2 as [H2|H2]; auto. apply andb_true_iff in H2 as [H2 _]. apply N.ltb_lt in H2. lia.
    + destruct (poss ++ negs); auto. apply N.ltb_ge. lia.
Qed.

Definition fle (a b : N) : Prop := (fkey a <= fkey b)%N.

Lemma sorted_rev_negs negs : StronglySorted ple negs -> Forall (fun x => (SIGN <= fst x)%N) negs ->
  StronglySorted fle (map fst (rev negs)).
Proof.
  induction 1 as [|x L HS IH Hall]; intros Hn; simpl; [constructor|].
  inversion Hn; subst. rewrite map_app. simpl.
  assert (forall A (R : A -> A -> Prop) l y, StronglySorted R l -> Forall (fun z => R z y) l -> StronglySorted R (l ++ [y])) as Hsnoc.
  { intros A R l y Hl. induction Hl; intros Hf; simpl. repeat constructor.
    inversion Hf; subst. constructor; auto. apply Forall_app; split; auto. }
  apply Hsnoc; auto. rewrite Forall_forall. intros z Hz. apply in_map_iff in Hz as [w [<- Hw]]. apply in_rev in Hw.
  rewrite Forall_forall in Hall, H2. specialize (Hall w Hw). specialize (H2 w Hw). unfold ple in Hall. unfold fle, fkey.
  assert ((fst w <? SIGN)%N = false) as -> by (apply N.ltb_ge; lia).
  assert ((fst x <? SIGN)%N = false) as -> by (apply N.ltb_ge; lia). lia.
Qed.

Lemma sorted_poss poss : StronglySorted ple poss -> Forall (fun x => (fst x < SIGN)%N) poss ->
  StronglySorted fle (map fst poss).
Proof.
  induction 1 as [|x L HS IH Hall]; intros Hp; simpl; [constructor|].
  inversion Hp; subst. constructor; auto. rewrite Forall_forall. intros z Hz. apply in_map_iff in Hz as [w [<- Hw]].
  rewrite Forall_forall in Hall, H2. specialize (Hall w Hw). specialize (H2 w Hw). unfold ple in Hall. unfold fle, fkey.
  assert ((fst w <? SIGN)%N = true) as -> by (apply N.ltb_lt; lia).
  assert ((fst x <? SIGN)%N = true) as -> by (apply N.ltb_lt; lia). lia.
Qed.

Lemma StronglySorted_app_inv {A} (R : A -> A -> Prop) a b : StronglySorted R (a ++ b) -> StronglySorted R a /\ StronglySorted R b.
Proof. induction a as [|x a IH]; simpl; intros H. split; [constructor|auto].
  inversion H; subst. destruct (IH H2) as [Ha Hb]. split; auto. constructor; auto.
  rewrite Forall_forall in *. intros y Hy. apply H3. apply in_or_app; auto. Qed.

Lemma StronglySorted_app {A} (R : A -> A -> Prop) a b : StronglySorted R a -> StronglySorted R b ->
  (forall x y, In x a -> In y b -> R x y) -> StronglySorted R (a ++ b).
Proof. induction 1 as [|x a Ha IH Hall]; simpl; intros Hb Hab; auto. constructor.
  - apply IH; auto; intros x0 y0 Hx0 Hy0; apply Hab; auto; right; exact Hx0.
  - apply Forall_app; split; auto. rewrite Forall_forall. intros y Hy. apply Hab; auto; left; reflexivity. Qed.

(* FieldNumbers lists every numeric term exactly once per entry, in ascending numeric order *)
Theorem numbers_of_sorted L : StronglySorted ple L -> Forall (fun x => finite (fst x) = true) L ->
  StronglySorted fle (numbers_of L) /\ Permutation (numbers_of L) (map fst L).
Proof.
  intros HS Hfin. destruct (sorted_split L HS) as [poss [negs [-> [Hp Hn]]]].
  apply Forall_app in Hfin as [Hfp Hfn].
  assert (Forall (fun x => (fst x < SIGN)%N /\ finite (fst x) = true) poss) as Hp2.
  { rewrite Forall_forall in *. intros x Hx. split; auto. }
  assert (Forall (fun x => (SIGN <= fst x)%N /\ finite (fst x) = true) negs) as Hn2.
  { rewrite Forall_forall in *. intros x Hx. split; auto. }
  rewrite numbers_of_split by assumption.
  destruct (StronglySorted_app_inv _ _ _ HS) as [HSp HSn]. split.
  - apply StronglySorted_app.
    + now apply sorted_rev_negs.
    + now apply sorted_poss.
    + intros x y Hx Hy. apply in_map_iff in Hx as [a [<- Ha]]. apply in_map_iff in Hy as [b [<- Hb]]. apply in_rev in Ha.
      rewrite Forall_forall in Hp, Hn. specialize (Hp b Hb). specialize (Hn a Ha). unfold fle, fkey.
      assert ((fst a <? SIGN)%N = false) as -> by (apply N.ltb_ge; lia).
      assert ((fst b <? SIGN)%N = true) as -> by (apply N.ltb_lt; lia). unfold SIGN in *. lia.
  - rewrite map_app. rewrite map_rev. eapply Permutation_trans; [apply Permutation_app_comm|].
    apply Permutation_app_head. symmetry. apply Permutation_rev.
Qed.

(* minimum and maximum scans *)
Definition min_of (L : list (N * N)) : N :=
  match seek_bwd L NINF with
  | x :: _ => if f_neg (fst x) then fst x else
                match seek_fwd L 0 with y :: _ => if f_nonneg (fst y) then fst y else 0%N | [] => 0%N end
  | [] => match seek_fwd L 0 with y :: _ => if f_nonneg (fst y) then fst y else 0%N | [] => 0%N end
  end.
Definition max_of (L : list (N * N)) : N :=
  let neg := match seek_fwd L PINF with y :: _ => if f_neg (fst y) then fst y else 0%N | [] => 0%N end in
  match seek_bwd L PINF with
  | x :: _ => if f_nonneg (fst x) then fst x else neg
  | [] => neg
  end.

Lemma seek_bwd_all L p : forallb (fun x : N * N => (fst x <? p)%N) L = true -> seek_bwd L p = rev L.
Proof. intros H. unfold seek_bwd. now rewrite take_while_all. Qed.

Lemma fin_lt_NINF p : finite p = true -> (p <? NINF)%N = true.
Proof. unfold finite. intros H. apply orb_true_iff in H as [H|H].
  - apply N.ltb_lt in H. apply N.ltb_lt. unfold PINF, NINF in *. lia.
  - now apply andb_true_iff in H as [_ H]. Qed.

Theorem min_of_least L : L <> [] -> StronglySorted ple L -> Forall (fun x => finite (fst x) = true) L ->
  In (min_of L) (map fst L) /\ forall p, In p (map fst L) -> fle (min_of L) p.
Proof.
  intros Hne HS Hfin. destruct (sorted_split L HS) as [poss [negs [-> [Hp Hn]]]].
  apply Forall_app in Hfin as [Hfp Hfn].
  destruct (StronglySorted_app_inv _ _ _ HS) as [HSp HSn].
  unfold min_of. rewrite seek_bwd_all.
  2:{ apply forallb_forall. intros x Hx. apply fin_lt_NINF. apply in_app_or in Hx as [Hx|Hx];
      [rewrite Forall_forall in Hfp; now apply Hfp | rewrite Forall_forall in Hfn; now apply Hfn]. }
  rewrite rev_app_distr. unfold seek_fwd. rewrite drop_while_none by (destruct (poss ++ negs); auto; apply N.ltb_ge; lia).
  destruct (rev negs) as [|x rn] eqn:En.
  - (* no negatives *)
    assert (negs = []) as -> by (destruct negs; auto; simpl in En; destruct (rev negs); discriminate).
    simpl. rewrite app_nil_r in *. destruct poss as [|y ps]; [congruence|].
    simpl. inversion Hp; subst. inversion HSp; subst.
    assert (f_neg (fst y) = false) as Hng by (unfold f_neg; apply N.ltb_ge; lia).
    assert (f_nonneg (fst y) = true) as Hnn by (unfold f_nonneg; apply N.leb_le; lia).
    destruct (rev ps ++ [y]) as [|z zs] eqn:Ez; [destruct (rev ps); discriminate|].
    assert (In z (y :: ps)) as Hz.
    { apply in_rev. simpl. rewrite Ez. now left. }
    assert (f_neg (fst z) = false) as ->.
    { rewrite Forall_forall in Hp. specialize (Hp z Hz). unfold f_neg. apply N.ltb_ge. lia. }
    rewrite Hnn. split; [now left|]. intros p [<-|Hin]; [unfold fle; lia|].
    apply in_map_iff in Hin as [w [<- Hw]]. rewrite Forall_forall in H4, H2. specialize (H4 w Hw). specialize (H2 w Hw).
    unfold ple in H4. unfold fle, fkey.
    assert ((fst w <? SIGN)%N = true) as -> by (apply N.ltb_lt; lia).
    assert ((fst y <? SIGN)%N = true) as -> by (apply N.ltb_lt; lia). lia.
  - (* x = the largest negative pattern = the most negative value *)
    assert (In x negs) as Hx by (apply in_rev; rewrite En; now left).
    simpl. rewrite Forall_forall in Hn, Hfn. pose proof (Hn x Hx) as Hxs. pose proof (Hfn x Hx) as Hxf.
    assert (f_neg (fst x) = true) as ->.
    { unfold f_neg. apply N.ltb_lt. unfold finite in Hxf. apply orb_true_iff in Hxf as [H|H].
      - apply N.ltb_lt in H. unfold PINF, SIGN in *. lia.
      - apply andb_true_iff in H as [H _]. now apply N.ltb_lt in H. }
    split. { rewrite map_app. apply in_or_app. right. now apply in_map. }
    intros p Hin. rewrite map_app in Hin. apply in_app_or in Hin as [Hin|Hin]; apply in_map_iff in Hin as [w [<- Hw]].
    + rewrite Forall_forall in Hp. specialize (Hp w Hw). unfold fle, fkey.
      assert ((fst w <? SIGN)%N = true) as -> by (apply N.ltb_lt; lia).
      assert ((fst x <? SIGN)%N = false) as -> by (apply N.ltb_ge; lia). unfold SIGN in *. lia.
    + (* w in negs: pattern <= pattern of x (x is last) *)
      assert (fst w <= fst x)%N as Hle.
      { assert (negs = rev rn ++ [x]) as E2 by (rewrite <- (rev_involutive negs), En; reflexivity).
        rewrite E2 in HSn, Hw. apply in_app_or in Hw as [Hw|[<-|[]]]; [|lia].
        clear - HSn Hw. induction (rev rn) as [|a r IH]; [destruct Hw|]. simpl in HSn. inversion HSn; subst.
        destruct Hw as [<-|Hw]; [|auto]. rewrite Forall_forall in H2. apply (H2 x). apply in_or_app. right. now left. }
      pose proof (Hn w Hw). unfold fle, fkey.
      assert ((fst w <? SIGN)%N = false) as -> by (apply N.ltb_ge; lia).
      assert ((fst x <? SIGN)%N = false) as -> by (apply N.ltb_ge; lia). lia.
Qed.

Lemma last_ge_sorted (l : list (N * N)) x : StronglySorted ple (l ++ [x]) -> forall w, In w l -> (fst w <= fst x)%N.
Proof. induction l as [|a r IH]; simpl; intros HS w Hw; [destruct Hw|]. inversion HS; subst.
  destruct Hw as [<-|Hw]; [|auto]. rewrite Forall_forall in H2. apply (H2 x). apply in_or_app. right. now left. Qed.

Theorem max_of_greatest L : L <> [] -> StronglySorted ple L -> Forall (fun x => finite (fst x) = true) L ->
  In (max_of L) (map fst L) /\ forall p, In p (map fst L) -> fle p (max_of L).
Proof.
  intros Hne HS Hfin. destruct (sorted_split L HS) as [poss [negs [-> [Hp Hn]]]].
  apply Forall_app in Hfin as [Hfp Hfn].
  destruct (StronglySorted_app_inv _ _ _ HS) as [HSp HSn].
  assert (forallb (fun x : N * N => (fst x <? PINF)%N) poss = true) as Hpp.
  { apply forallb_forall. intros x Hx. rewrite Forall_forall in Hp, Hfp. specialize (Hp x Hx). specialize (Hfp x Hx).
    unfold finite in Hfp. apply orb_true_iff in Hfp as [H|H]; auto. apply andb_true_iff in H as [H _]. apply N.ltb_lt in H. lia. }
  assert (match negs with [] => True | x :: _ => (fst x <? PINF)%N = false end) as Hnn.
  { destruct negs as [|y r]; auto. inversion Hn; subst. apply N.ltb_ge. unfold SIGN, PINF in *. lia. }
  unfold max_of, seek_bwd, seek_fwd. rewrite take_while_app_all by exact Hpp. rewrite (take_while_none _ negs Hnn), app_nil_r.
  assert (drop_while (fun x : N * N => (fst x <? PINF)%N) (poss ++ negs) = negs) as ->.
  { clear - Hpp Hnn. induction poss as [|a r IH]; simpl in *.
    - now apply drop_while_none.
    - apply andb_true_iff in Hpp as [-> H]. auto. }
  destruct (rev poss) as [|x rp] eqn:Ep.
  - assert (poss = []) as -> by (destruct poss; auto; simpl in Ep; destruct (rev poss); discriminate).
    simpl in *. destruct negs as [|y ng]; [congruence|].
    inversion Hn as [|? ? Hy1 Hn']; subst. inversion Hfn as [|? ? Hyf Hfn']; subst. inversion HSn as [|? ? HSn' Hall]; subst.
    assert (f_neg (fst y) = true) as ->.
    { unfold f_neg. apply N.ltb_lt. unfold finite in Hyf. apply orb_true_iff in Hyf as [H|H].
      - apply N.ltb_lt in H. unfold PINF, SIGN in *. lia.
      - apply andb_true_iff in H as [H _]. now apply N.ltb_lt in H. }
    split; [now left|]. intros p [<-|Hin]; [unfold fle; lia|].
    apply in_map_iff in Hin as [w [<- Hw]]. rewrite Forall_forall in Hall, Hn'. specialize (Hall w Hw). specialize (Hn' w Hw).
    unfold ple in Hall. unfold fle, fkey.
    assert ((fst w <? SIGN)%N = false) as -> by (apply N.ltb_ge; lia).
    assert ((fst y <? SIGN)%N = false) as -> by (apply N.ltb_ge; lia). lia.
  - assert (In x poss) as Hx by (apply in_rev; rewrite Ep; now left).
    rewrite Forall_forall in Hp. pose proof (Hp x Hx) as Hxs.
    assert (f_nonneg (fst x) = true) as -> by (unfold f_nonneg; apply N.leb_le; lia).
    split. { rewrite map_app. apply in_or_app. left. now apply in_map. }
    intros p Hin. rewrite map_app in Hin. apply in_app_or in Hin as [Hin|Hin]; apply in_map_iff in Hin as [w [<- Hw]].
    + assert (fst w <= fst x)%N as Hle.
      { assert (poss = rev rp ++ [x]) as E2 by (rewrite <- (rev_involutive poss), Ep; reflexivity).
        rewrite E2 in HSp, Hw. apply in_app_or in Hw as [Hw|[<-|[]]]; [|lia]. eapply last_ge_sorted; eauto. }
      pose proof (Hp w Hw). unfold fle, fkey.
      assert ((fst w <? SIGN)%N = true) as -> by (apply N.ltb_lt; lia).
      assert ((fst x <? SIGN)%N = true) as -> by (apply N.ltb_lt; lia). lia.
    + rewrite Forall_forall in Hn. specialize (Hn w Hw). unfold fle, fkey.
      assert ((fst w <? SIGN)%N = false) as -> by (apply N.ltb_ge; lia).
      assert ((fst x <? SIGN)%N = true) as -> by (apply N.ltb_lt; lia). unfold SIGN in *. lia.
Qed.

(* the sorted entry list the queries run on *)
Lemma pd_ins_sorted x l : StronglySorted ple l -> StronglySorted ple (pd_ins x l).
Proof.
  induction 1 as [|y l HS IH Hall]; simpl; [repeat constructor|].
  destruct (pd_leb x y) eqn:E.
  - constructor; [constructor; auto|]. unfold pd_leb in E. constructor.
    + unfold ple. apply orb_true_iff in E as [E|E]; [apply N.ltb_lt in E; lia|].
      apply andb_true_iff in E as [E _]. apply N.eqb_eq in E. lia.
    + rewrite Forall_forall in *. intros z Hz. specialize (Hall z Hz). unfold ple in *.
      apply orb_true_iff in E as [E|E]; [apply N.ltb_lt in E; lia|].
      apply andb_true_iff in E as [E _]. apply N.eqb_eq in E. lia.
  - constructor; auto. unfold pd_leb in E. apply orb_false_iff in E as [E1 E2]. apply N.ltb_ge in E1.
    assert (forall z, In z (pd_ins x l) -> z = x \/ In z l) as Hin.
    { clear. induction l as [|a r IHr]; simpl; intros z Hz. destruct Hz as [<-|[]]; auto.
      destruct (pd_leb x a); simpl in Hz.
      - destruct Hz as [<-|Hz]; auto.
      - destruct Hz as [<-|Hz]; auto. destruct (IHr z Hz); auto. }
    rewrite Forall_forall in *. intros z Hz. destruct (Hin z Hz) as [->|Hz2]; auto; unfold ple; lia.
Qed.
Lemma pd_sort_sorted l : StronglySorted ple (pd_sort l).
Proof. induction l; simpl; [constructor|]. now apply pd_ins_sorted. Qed.

Lemma pd_ins_perm x l : Permutation (pd_ins x l) (x :: l).
Proof. induction l as [|y l IH]; simpl; auto. destruct (pd_leb x y); auto.
  eapply Permutation_trans; [apply perm_skip, IH|]. apply perm_swap. Qed.
Lemma pd_sort_perm l : Permutation (pd_sort l) l.
Proof. induction l; simpl; auto. eapply Permutation_trans; [apply pd_ins_perm|]. now apply perm_skip. Qed.
