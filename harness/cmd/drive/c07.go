package main

import (
	"context"
	"encoding/json"
	"fmt"
	"os"
	"runtime"
	"sync/atomic"
	"time"

	"github.com/bmeg/grip/config"
	"github.com/bmeg/grip/engine/pipeline"
	"github.com/bmeg/grip/gdbi"
	"github.com/bmeg/grip/gripql"
	"github.com/bmeg/grip/kvgraph"
	"github.com/bmeg/grip/kvi"
	"github.com/bmeg/grip/server"
	"google.golang.org/protobuf/types/known/structpb"

	"gripverif/internal/coq"
)

func init() {
	props["C07"] = runC07
	workers["pipe"] = func(args []string) { workerLoop(pipeWorker) }
}

type c07Graph struct {
	Kind string `json:"kind"` // circ: N vertices, i -> i+1..i+d (mod N); star: hub h with N leaves
	N    int    `json:"n"`
	D    int    `json:"d"`
}
type c07Stage struct {
	K string `json:"k"` // fan limit count exactly
	N int64  `json:"n"`
}
type c07Input struct {
	DeadlineS int `json:"deadline_s,omitempty"` // seconds to wait for the stream to close (default 25)
	// "server": the program runs through the server's Traversal handler; Cancel = the client goes away after that many rows
	// (Send fails from then on and the stream's context is cancelled, as gRPC does)
	Via    string     `json:"via,omitempty"`
	Graph  c07Graph   `json:"graph"`
	Prog   []tStmt    `json:"prog"`
	Scan   int64      `json:"scan"`   // rows the first statement yields
	Stages []c07Stage `json:"stages"` // abstract shape of the remaining statements on this graph family
	Cancel int64      `json:"cancel"` // cancel the context after this many rows; -1: never
	// upper bound on the cursor advances (Next calls on store iterators) the run may cause: a satisfied limit must stop the
	// scan behind it after at most what the channels between them hold; 0 = not bounded
	NextBound int64 `json:"next_bound,omitempty"`
}
type c07Obs struct {
	Closed   bool   `json:"closed"`
	Rows     int64  `json:"rows"`
	Leak     int    `json:"goroutines_leaked"`
	Tmp      int    `json:"temp_entries_left"`
	Millis   int64  `json:"ms"`
	Nexts    int64  `json:"cursor_advances"`
	Err      string `json:"err,omitempty"`
	Isolated string `json:"isolated,omitempty"`
}

// a store wrapper that counts cursor advances
type countKV struct {
	kvi.KVInterface
	n *int64
}
type countIt struct {
	kvi.KVIterator
	n *int64
}

func (c countIt) Next() error { atomic.AddInt64(c.n, 1); return c.KVIterator.Next() }
func (c countKV) View(f func(it kvi.KVIterator) error) error {
	return c.KVInterface.View(func(it kvi.KVIterator) error { return f(countIt{it, c.n}) })
}

var cursorAdvances int64

var pipeEnv struct {
	spec c07Graph
	dir  string
	db   gdbi.GraphDB
	gi   gdbi.GraphInterface
}

func pipeGraph(spec c07Graph) (gdbi.GraphInterface, error) {
	if pipeEnv.gi != nil && pipeEnv.spec == spec {
		return pipeEnv.gi, nil
	}
	// the previous store is left open: goroutines of a pipeline that never finished may still read it
	pipeEnv.gi = nil
	dir, _ := os.MkdirTemp(os.Getenv("C07ROOT"), "c07g")
	kv0, err := kvi.NewKVInterface("badger", dir+"/db", nil)
	if err != nil {
		return nil, err
	}
	kv := countKV{kv0, &cursorAdvances}
	db := kvgraph.NewKVGraph(kv)
	db.AddGraph("g")
	gi, err := db.Graph("g")
	if err != nil {
		return nil, err
	}
	vs := []*gdbi.Vertex{}
	es := []*gdbi.Edge{}
	mk := func(id string, c int) *gdbi.Vertex {
		// "age": numeric, except one vertex in 997 (and vertex 1) whose value is text: aggregations must skip it and go on
		var age interface{} = float64(c % 90)
		if c%997 == 1 {
			age = "unknown"
		}
		s, _ := structpb.NewStruct(map[string]interface{}{"c": float64(c % 7), "age": age})
		return gdbi.NewElementFromVertex(&gripql.Vertex{Gid: id, Label: "N", Data: s})
	}
	switch spec.Kind {
	case "circ":
		for i := 0; i < spec.N; i++ {
			vs = append(vs, mk(fmt.Sprintf("v%d", i), i))
			for k := 1; k <= spec.D; k++ {
				es = append(es, gdbi.NewElementFromEdge(&gripql.Edge{Gid: fmt.Sprintf("e%d_%d", i, k), Label: "e", From: fmt.Sprintf("v%d", i), To: fmt.Sprintf("v%d", (i+k)%spec.N)}))
			}
		}
	case "star":
		vs = append(vs, mk("h", 0))
		for i := 0; i < spec.N; i++ {
			vs = append(vs, mk(fmt.Sprintf("l%d", i), i))
			es = append(es, gdbi.NewElementFromEdge(&gripql.Edge{Gid: fmt.Sprintf("e%d", i), Label: "e", From: "h", To: fmt.Sprintf("l%d", i)}))
		}
	}
	for i := 0; i < len(vs); i += 500 {
		j := i + 500
		if j > len(vs) {
			j = len(vs)
		}
		if err := gi.AddVertex(vs[i:j]); err != nil {
			return nil, err
		}
	}
	for i := 0; i < len(es); i += 500 {
		j := i + 500
		if j > len(es) {
			j = len(es)
		}
		if err := gi.AddEdge(es[i:j]); err != nil {
			return nil, err
		}
	}
	pipeEnv.spec, pipeEnv.dir, pipeEnv.db, pipeEnv.gi = spec, dir, db, gi
	return gi, nil
}

func settle(base int, d time.Duration) int {
	end := time.Now().Add(d)
	for {
		n := runtime.NumGoroutine()
		if n <= base || time.Now().After(end) {
			return n - base
		}
		time.Sleep(20 * time.Millisecond)
	}
}

func pipeWorker(req json.RawMessage) interface{} {
	var in c07Input
	if err := json.Unmarshal(req, &in); err != nil {
		return c07Obs{Err: err.Error()}
	}
	gi, err := pipeGraph(in.Graph)
	if err != nil {
		return c07Obs{Err: err.Error()}
	}
	pipe, err := gi.Compiler().Compile(progProto(in.Prog), nil)
	if err != nil {
		return c07Obs{Err: "compile: " + err.Error()}
	}
	wd, _ := os.MkdirTemp(os.Getenv("C07ROOT"), "c07wd")
	defer os.RemoveAll(wd)
	time.Sleep(30 * time.Millisecond)
	base := runtime.NumGoroutine()
	ctx, cancel := context.WithCancel(context.Background())
	defer cancel()
	start := time.Now()
	atomic.StoreInt64(&cursorAdvances, 0)
	if in.Via == "server" || in.Via == "server-keepctx" {
		return serverRun(in, wd, base)
	}
	res := pipeline.Run(ctx, pipe, wd)
	ob := c07Obs{}
	dl := 25
	if in.DeadlineS > 0 {
		dl = in.DeadlineS
	}
	deadline := time.After(time.Duration(dl) * time.Second)
loop:
	for {
		select {
		case _, ok := <-res:
			if !ok {
				ob.Closed = true
				break loop
			}
			ob.Rows++
			if in.Cancel >= 0 && ob.Rows == in.Cancel {
				cancel()
			}
		case <-deadline:
			break loop
		}
		if in.Cancel == 0 && ob.Rows == 0 {
			cancel()
			in.Cancel = -2
		}
	}
	ob.Millis = time.Since(start).Milliseconds()
	if ob.Closed {
		ob.Nexts = atomic.LoadInt64(&cursorAdvances)
		ob.Leak = settle(base, 3*time.Second)
		if ob.Leak < 0 {
			ob.Leak = 0
		}
		ents, _ := os.ReadDir(wd)
		ob.Tmp = len(ents)
	}
	return ob
}

// a client that goes away: Send fails from then on and the context of the stream is cancelled
type dropStream struct {
	fakeStream
	after  int64
	sent   int64
	cancel context.CancelFunc
	// the send error reaches the handler while the stream's context is still alive (the cancellation follows later):
	// the handler has to drain, or stop, the pipeline itself
	keepCtx bool
}

func (d *dropStream) Send(r *gripql.QueryResult) error {
	if d.after >= 0 && atomic.LoadInt64(&d.sent) >= d.after {
		if !d.keepCtx {
			d.cancel()
		}
		return fmt.Errorf("rpc error: code = Unavailable desc = transport is closing")
	}
	atomic.AddInt64(&d.sent, 1)
	return nil
}

func serverRun(in c07Input, wd string, base int) c07Obs {
	conf := config.DefaultConfig()
	conf.Server.WorkDir = wd
	conf.Default = "d"
	sdir, _ := os.MkdirTemp(os.Getenv("C07ROOT"), "c07srv")
	defer os.RemoveAll(sdir)
	srv, err := server.NewVerifServer(conf, sdir, map[string]gdbi.GraphDB{"d": pipeEnv.db}, sdir+"/jobs")
	if err != nil {
		return c07Obs{Err: "server: " + err.Error()}
	}
	ctx, cancel := context.WithCancel(context.Background())
	defer cancel()
	st := &dropStream{fakeStream: fakeStream{ctx}, after: in.Cancel, cancel: cancel, keepCtx: in.Via == "server-keepctx"}
	done := make(chan error, 1)
	start := time.Now()
	go func() { done <- srv.Traversal(&gripql.GraphQuery{Graph: "g", Query: progProto(in.Prog)}, st) }()
	ob := c07Obs{}
	dl := 25
	if in.DeadlineS > 0 {
		dl = in.DeadlineS
	}
	select {
	case <-done:
		ob.Closed = true
	case <-time.After(time.Duration(dl) * time.Second):
	}
	ob.Rows = atomic.LoadInt64(&st.sent)
	ob.Millis = time.Since(start).Milliseconds()
	if ob.Closed {
		ob.Nexts = atomic.LoadInt64(&cursorAdvances)
		ob.Leak = settle(base, 3*time.Second)
		if ob.Leak < 0 {
			ob.Leak = 0
		}
		ents, _ := os.ReadDir(wd)
		ob.Tmp = len(ents)
	}
	return ob
}

func c07Inputs(ctx *Ctx) []c07Input {
	V := tStmt{Op: "V"}
	hub := tStmt{Op: "V", Strs: []string{"h"}}
	st := func(op string) tStmt { return tStmt{Op: op} }
	fan := func(n int) c07Stage { return c07Stage{"fan", int64(n)} }
	out := []c07Input{}
	sizes := []int{0, 1, 99, 101, 1001, 2300, 5001}
	if ctx.Thorough() {
		sizes = append(sizes, 100, 999, 1000, 2001, 5000, 12000, 26000)
	}
	for _, n := range sizes {
		for _, d := range []int{1, 3} {
			if n == 0 && d == 3 {
				continue
			}
			g := c07Graph{"circ", n, d}
			N := int64(n)
			add := func(prog []tStmt, scan int64, stages []c07Stage) {
				out = append(out, c07Input{Graph: g, Prog: prog, Scan: scan, Stages: stages, Cancel: -1})
			}
			add([]tStmt{V}, N, nil)
			add([]tStmt{V, st("out")}, N, []c07Stage{fan(d)})
			add([]tStmt{V, st("both")}, N, []c07Stage{fan(2 * d)})
			add([]tStmt{V, st("bothE")}, N, []c07Stage{fan(2 * d)})
			add([]tStmt{{Op: "E"}, st("both")}, N*int64(d), []c07Stage{fan(2)})
			add([]tStmt{V, st("outE"), st("out")}, N, []c07Stage{fan(d), fan(1)})
			add([]tStmt{V, st("both"), {Op: "limit", N: 10}}, N, []c07Stage{fan(2 * d), {"limit", 10}})
			if n >= 5001 {
				// the scan must stop soon after the limit is satisfied: what it may still read is bounded by the channels
				// between the steps (100 rows each), far below the size of the graph
				out[len(out)-1].NextBound = 25000 // a scan that does not stop costs > 40000 here (5001 vertices, each looked up in both directions)
				out = append(out, c07Input{Graph: g, Prog: []tStmt{V, {Op: "limit", N: 10}}, Scan: N, Stages: []c07Stage{{"limit", 10}}, Cancel: -1, NextBound: 1500},
					c07Input{Graph: g, Prog: []tStmt{{Op: "E"}, {Op: "limit", N: 7}}, Scan: N * int64(d), Stages: []c07Stage{{"limit", 7}}, Cancel: -1, NextBound: 1500})
			}
			add([]tStmt{V, st("both"), st("count")}, N, []c07Stage{fan(2 * d), {"count", 0}})
			add([]tStmt{V, st("both"), st("distinct")}, N, []c07Stage{fan(2 * d), {"exactly", N}})
			terms := int64(7)
			if N < 7 {
				terms = N
			}
			add([]tStmt{V, st("both"), {Op: "aggregate", Aggs: []tAgg{{Name: "t", Kind: "term", Field: "c"}}}}, N, []c07Stage{fan(2 * d), {"exactly", terms}})
			if n >= 99 {
				// aggregations that meet a value they cannot use long before the end of their input (1000-slot fan-out)
				add([]tStmt{V, st("both"), {Op: "aggregate", Aggs: []tAgg{{Name: "p", Kind: "percentile", Field: "age", Percents: []float64{50}}}}}, N, []c07Stage{fan(2 * d), {"exactly", 1}})
				add([]tStmt{V, st("both"), {Op: "aggregate", Aggs: []tAgg{{Name: "p", Kind: "percentile", Field: "age", Percents: []float64{10, 90}}, {Name: "t", Kind: "term", Field: "c"}}}}, N, []c07Stage{fan(2 * d), {"exactly", 2 + terms}})
				add([]tStmt{V, st("both"), {Op: "aggregate", Aggs: []tAgg{{Name: "h", Kind: "histogram", Field: "age", Interval: 30}}}}, N, []c07Stage{fan(2 * d), {"exactly", 3}})
				// more aggregations in one step than any worker pool is likely to have slots
				many := []tAgg{}
				for k := 0; k < 12; k++ {
					many = append(many, tAgg{Name: fmt.Sprintf("c%d", k), Kind: "count"})
				}
				add([]tStmt{V, st("both"), {Op: "aggregate", Aggs: many}}, N, []c07Stage{fan(2 * d), {"exactly", 12}})
			}
			if n <= 2300 {
				add([]tStmt{V, st("both"), st("both")}, N, []c07Stage{fan(2 * d), fan(2 * d)})
				add([]tStmt{V, st("bothE"), st("both"), st("bothE")}, N, []c07Stage{fan(2 * d), fan(2), fan(2 * d)})
			}
			if n >= 1001 {
				for _, c := range []int64{0, 1, 150, 5001} {
					out = append(out, c07Input{Graph: g, Prog: []tStmt{V, st("both")}, Scan: N, Stages: []c07Stage{fan(2 * d)}, Cancel: c})
					out = append(out, c07Input{Graph: g, Prog: []tStmt{V, st("out"), st("outE")}, Scan: N, Stages: []c07Stage{fan(d), fan(d)}, Cancel: c})
				}
				// the same through the server's Traversal handler with a client that goes away (and one that stays)
				for _, c := range []int64{10, 150, -1} {
					out = append(out, c07Input{Graph: g, Prog: []tStmt{V, st("both")}, Scan: N, Stages: []c07Stage{fan(2 * d)}, Cancel: c, Via: "server"})
				}
				out = append(out, c07Input{Graph: g, Prog: []tStmt{V, st("out"), st("outE")}, Scan: N, Stages: []c07Stage{fan(d), fan(d)}, Cancel: 1, Via: "server"})
				// ... and with a send error that arrives while the stream's context is still alive
				out = append(out, c07Input{Graph: g, Prog: []tStmt{V, st("both")}, Scan: N, Stages: []c07Stage{fan(2 * d)}, Cancel: 10, Via: "server-keepctx"})
			}
		}
	}
	stars := []int{1, 300, 999, 1001, 2300, 5001, 7500}
	if ctx.Thorough() {
		stars = append(stars, 1000, 2001, 12000, 30000)
	}
	for _, m := range stars {
		g := c07Graph{"star", m, 0}
		add := func(prog []tStmt, scan int64, stages []c07Stage, cancel int64) {
			out = append(out, c07Input{Graph: g, Prog: prog, Scan: scan, Stages: stages, Cancel: cancel})
		}
		add([]tStmt{hub, st("out")}, 1, []c07Stage{fan(m)}, -1)
		add([]tStmt{hub, st("both")}, 1, []c07Stage{fan(m)}, -1)
		add([]tStmt{hub, st("bothE")}, 1, []c07Stage{fan(m)}, -1)
		add([]tStmt{hub, st("out"), st("in")}, 1, []c07Stage{fan(m), fan(1)}, -1)
		add([]tStmt{hub, st("both"), st("both")}, 1, []c07Stage{fan(m), fan(1)}, -1)
		add([]tStmt{hub, st("outE"), st("both")}, 1, []c07Stage{fan(m), fan(2)}, -1)
		// a limit behind ONE traveler that fans out beyond every buffer: nothing upstream looks at the context,
		// the steps stop only because the limit keeps draining its input
		add([]tStmt{hub, st("out"), {Op: "limit", N: 1}}, 1, []c07Stage{fan(m), {"limit", 1}}, -1)
		add([]tStmt{hub, st("outE"), {Op: "limit", N: 3}}, 1, []c07Stage{fan(m), {"limit", 3}}, -1)
		if m <= 300 {
			add([]tStmt{hub, st("both"), st("both"), st("both")}, 1, []c07Stage{fan(m), fan(1), fan(m)}, -1)
			add([]tStmt{hub, st("both"), st("both"), st("both")}, 1, []c07Stage{fan(m), fan(1), fan(m)}, 10)
		}
	}
	return out
}

func runC07(ctx *Ctx) error {
	ctx.EvalMod = "Eval_C07"
	ctx.CaseTy = "c07_case"
	ctx.Shard = 400
	ctx.Scope = "N_scope"
	ctx.Exhaustive = true
	ctx.Rule = "grid: circulant graphs (N vertices, out-degree d in {1,3}) with N in {0,1,99,101,1001,2300,5001} (thorough adds 100,999,1000,2001,5000,12000,26000: below, at and several multiples above every internal capacity 100/1000/5000) x 15 cycle-free programs (scan, out, both, bothE, E.both, outE.out, both.limit, both.count, both.distinct, both.aggregate(term), both.aggregate(percentile / percentile+term / histogram over a field that holds text on one vertex in 997; twelve aggregations in one step), both.both, bothE.both.bothE) and star graphs (hub with M leaves, M in {1,300,999,1001,2300,5001,7500}; thorough 1000,2001,12000,30000) x 9 programs that fan one traveler out into M (two of them with a limit behind the fan-out); cancellation after 0/1/150/5001/10 rows on the large ones, also through the server's Traversal handler with a client that goes away after 1/10/150 rows (Send fails, the stream's context is cancelled at once or stays alive); each run through the production compiler and pipeline.Run on badger in a worker sub-process with a 25 s deadline; observed: stream closed, rows, goroutines above the pre-run baseline after settling, entries left in the work directory, cursor advances on the store (bounded for limit programs on the large graphs: a satisfied limit stops the scan behind it); non-trivial = more rows than the smallest internal buffer (100); distinct by input"
	var inputs []c07Input
	if ctx.Replay != nil {
		var in c07Input
		if err := json.Unmarshal(ctx.Replay, &in); err != nil {
			return err
		}
		inputs = []c07Input{in}
	} else {
		inputs = c07Inputs(ctx)
	}
	reqs := make([]json.RawMessage, len(inputs))
	for i, in := range inputs {
		reqs[i], _ = json.Marshal(in)
	}
	// one worker per graph would rebuild graphs less often, but isolation matters more: a hung pipeline
	// poisons the goroutine baseline of its process
	root, _ := os.MkdirTemp("", "c07root")
	os.Setenv("C07ROOT", root)
	defer os.RemoveAll(root)
	res := runIsolated("pipe", reqs, 6, 90*time.Second)
	rerunFailed("pipe", reqs, res, 90*time.Second)
	// a stream that did not close in time is only believed after the same request, alone, had 120 s
	confirmedStuck := false
	for i, in := range inputs {
		var ob c07Obs
		if res[i].Crashed || res[i].Timeout {
			continue
		}
		json.Unmarshal(res[i].Out, &ob)
		if !ob.Closed && ob.Err == "" && !confirmedStuck {
			in.DeadlineS = 120
			b, _ := json.Marshal(in)
			if again := runIsolated("pipe", []json.RawMessage{b}, 1, 200*time.Second); len(again) == 1 {
				res[i] = again[0]
				var ob2 c07Obs
				if !again[0].Crashed && !again[0].Timeout {
					json.Unmarshal(again[0].Out, &ob2)
				}
				if !ob2.Closed {
					confirmedStuck = true // one confirmed failure decides the run; the others keep their first observation
				}
			}
		}
	}
	for i, in := range inputs {
		var ob c07Obs
		r := res[i]
		switch {
		case r.Crashed:
			ob = c07Obs{Isolated: "crash", Err: r.Stderr}
		case r.Timeout:
			ob = c07Obs{Isolated: "worker-timeout"}
		default:
			json.Unmarshal(r.Out, &ob)
		}
		if ob.Err != "" && ob.Isolated == "" {
			return fmt.Errorf("worker: %s", ob.Err)
		}
		stages := make([]string, len(in.Stages))
		for j, s := range in.Stages {
			switch s.K {
			case "fan":
				stages[j] = fmt.Sprintf("(Fan %d)", s.N)
			case "limit":
				stages[j] = fmt.Sprintf("(Limit %d)", s.N)
			case "count":
				stages[j] = "Count"
			default:
				stages[j] = fmt.Sprintf("(Exactly %d)", s.N)
			}
		}
		cancel := "None"
		if in.Cancel >= 0 {
			cancel = fmt.Sprintf("(Some %d)", in.Cancel)
		}
		nb := "None"
		if in.NextBound > 0 {
			nb = fmt.Sprintf("(Some %d)", in.NextBound)
		}
		cc := coq.Record("c_scan", fmt.Sprint(in.Scan), "c_stages", coq.List(stages), "c_cancel", cancel,
			"o_closed", coq.Bool(ob.Closed), "o_rows", fmt.Sprint(ob.Rows), "o_leak", fmt.Sprint(ob.Leak), "o_tmp", fmt.Sprint(ob.Tmp),
			"o_nexts", fmt.Sprint(ob.Nexts), "c_next_bound", nb)
		key, _ := json.Marshal(in)
		tags := []string{"graph=" + in.Graph.Kind, fmt.Sprintf("closed=%v", ob.Closed), fmt.Sprintf("cancel=%v", in.Cancel >= 0)}
		ctx.Add(Case{Input: in, Observed: ob, Coq: cc, Nontrivial: ob.Rows > 100 || in.Scan > 100, Key: string(key), Tags: tags})
	}
	return nil
}
