// Package coq prints Go values as Coq (Gallina) terms for the cases_*.v files.
package coq

import (
	"fmt"
	"strings"
)

// N prints a binary natural number literal.
func N(n uint64) string { return fmt.Sprintf("%d%%N", n) }

// Nat prints a nat literal (keep small).
func Nat(n int) string { return fmt.Sprintf("%d", n) }

// Z prints an integer literal.
func Z(n int64) string {
	if n < 0 {
		return fmt.Sprintf("(%d)%%Z", n)
	}
	return fmt.Sprintf("%d%%Z", n)
}

func Bool(b bool) string {
	if b {
		return "true"
	}
	return "false"
}

// List prints a Coq list.
func List(items []string) string {
	if len(items) == 0 {
		return "[]"
	}
	return "[" + strings.Join(items, "; ") + "]"
}

func Pair(a, b string) string { return "(" + a + ", " + b + ")" }

func Some(a string) string { return "(Some " + a + ")" }

// Str prints a byte string as a Coq [string]. Printable ASCII is written as a literal,
// anything else through [bs] (list of byte values -> string, defined in Model/Bytes.v).
func Str(s string) string {
	ok := true
	for i := 0; i < len(s); i++ {
		c := s[i]
		if c < 32 || c > 126 {
			ok = false
			break
		}
	}
	if ok {
		return "\"" + strings.ReplaceAll(s, "\"", "\"\"") + "\"%string"
	}
	parts := make([]string, len(s))
	for i := 0; i < len(s); i++ {
		parts[i] = fmt.Sprintf("%d", s[i])
	}
	return "(bs [" + strings.Join(parts, ";") + "]%N)"
}

func StrList(ss []string) string {
	out := make([]string, len(ss))
	for i, s := range ss {
		out[i] = Str(s)
	}
	return List(out)
}

func NList(ns []uint64) string {
	out := make([]string, len(ns))
	for i, n := range ns {
		out[i] = N(n)
	}
	return List(out)
}

// Record prints {| f1 := v1; ... |}.
func Record(fields ...string) string {
	if len(fields)%2 != 0 {
		panic("Record: odd")
	}
	parts := []string{}
	for i := 0; i < len(fields); i += 2 {
		parts = append(parts, fields[i]+" := "+fields[i+1])
	}
	return "{| " + strings.Join(parts, "; ") + " |}"
}

// App prints (f a b c).
func App(f string, args ...string) string {
	return "(" + f + " " + strings.Join(args, " ") + ")"
}
