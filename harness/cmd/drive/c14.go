package main

import (
	"encoding/json"
	"fmt"
	"math/rand"
	"sort"

	"github.com/bmeg/grip/engine/core"
	"github.com/bmeg/grip/engine/logic"
	"github.com/bmeg/grip/gdbi"
	"github.com/bmeg/grip/mongo"
	"go.mongodb.org/mongo-driver/bson"

	"gripverif/internal/coq"
)

func init() { props["C14"] = runC14 }

// ---------- typing ----------
func c14Alphabet() []tStmt {
	eq := &hExpr{Kind: "cond", Key: "x", Op: "eq", Arg: 1.0}
	return []tStmt{
		{Op: "V"}, {Op: "V", Strs: []string{"a"}}, {Op: "E"}, {Op: "in"}, {Op: "out", Strs: []string{"l"}}, {Op: "both"},
		{Op: "inE"}, {Op: "outE"}, {Op: "bothE"},
		{Op: "has", Has: eq}, {Op: "hasLabel"}, {Op: "hasLabel", Strs: []string{"L"}}, {Op: "hasId"}, {Op: "hasId", Strs: []string{"a"}},
		{Op: "hasKey"}, {Op: "hasKey", Strs: []string{"k"}},
		{Op: "as", Str: "m"}, {Op: "as", Str: "n"}, {Op: "as", Str: ""}, {Op: "as", Str: "_gid"}, {Op: "as", Str: "a.b"}, {Op: "as", Str: "__current__"},
		{Op: "select", Strs: []string{"m"}}, {Op: "select", Strs: []string{"m", "n"}}, {Op: "select", Strs: []string{"n"}}, {Op: "select"}, {Op: "select", Strs: []string{"m", "m"}},
		{Op: "fields", Strs: []string{"x"}}, {Op: "render", Tpl: "$.x"}, {Op: "path"}, {Op: "unwind", Str: "x"},
		{Op: "distinct"}, {Op: "count"}, {Op: "limit", N: 2}, {Op: "skip", N: 1}, {Op: "range", N: 0, M: 2},
		{Op: "aggregate", Aggs: []tAgg{{Name: "a1", Kind: "count"}}},
		{Op: "aggregate", Aggs: []tAgg{{Name: "a1", Kind: "count"}, {Name: "a1", Kind: "count"}}},
		{Op: "aggregate", Aggs: []tAgg{}}, // no aggregations: core accepts the step
	}
}

func kindCoq(s tStmt) string {
	switch s.Op {
	case "V":
		return "KV"
	case "E":
		return "KE"
	case "in", "out", "both", "inNull", "outNull":
		return "KToVertex"
	case "inE", "outE", "bothE", "inENull", "outENull":
		return "KToEdge"
	case "has":
		return "KHas"
	case "hasLabel", "hasId", "hasKey":
		return "(KHasList " + coq.Bool(len(s.Strs) == 0) + ")"
	case "as":
		return "(KAs " + coq.Str(s.Str) + ")"
	case "select":
		return "(KSelect " + coq.StrList(s.Strs) + ")"
	case "fields":
		return "KFields"
	case "render":
		return "KRender"
	case "path":
		return "KPath"
	case "unwind":
		return "KUnwind"
	case "distinct":
		return "KDistinct"
	case "count":
		return "KCount"
	case "limit", "skip", "range":
		return "KWindow"
	case "aggregate":
		seen := map[string]bool{}
		dup := false
		for _, a := range s.Aggs {
			if seen[a.Name] {
				dup = true
			}
			seen[a.Name] = true
		}
		return "(KAggregate " + coq.Bool(dup) + ")"
	}
	panic("kindCoq " + s.Op)
}

var dtCoq = map[gdbi.DataType]string{gdbi.NoData: "DNone", gdbi.VertexData: "DVertex", gdbi.EdgeData: "DEdge", gdbi.CountData: "DCount",
	gdbi.AggregationData: "DAgg", gdbi.SelectionData: "DSel", gdbi.RenderData: "DRender", gdbi.PathData: "DPath"}

type c14TypeObs struct {
	Accepted bool              `json:"accepted"`
	Type     string            `json:"type,omitempty"`
	Marks    map[string]string `json:"marks,omitempty"`
	Err      string            `json:"err,omitempty"`
}

func typeObs(p gdbi.Pipeline, err error) (c14TypeObs, string) {
	if err != nil {
		return c14TypeObs{Err: err.Error()}, "None"
	}
	ob := c14TypeObs{Accepted: true, Type: dtCoq[p.DataType()], Marks: map[string]string{}}
	names := []string{}
	for k, v := range p.MarkTypes() {
		ob.Marks[k] = dtCoq[v]
		names = append(names, k)
	}
	sort.Strings(names)
	items := []string{}
	for _, k := range names {
		items = append(items, fmt.Sprintf("(%s, %s)", coq.Str(k), ob.Marks[k]))
	}
	return ob, fmt.Sprintf("(Some (%s, %s))", ob.Type, coq.List(items))
}

// ---------- filters ----------
func mopCoq(v interface{}) string {
	m, ok := v.(bson.M)
	if !ok || len(m) != 1 {
		return "MOpUnknown"
	}
	for op, a := range m {
		switch op {
		case "$eq":
			return "(MEq " + jvCoq(normArg(a)) + ")"
		case "$ne":
			return "(MNe " + jvCoq(normArg(a)) + ")"
		case "$gt":
			return "(MGt " + jvCoq(normArg(a)) + ")"
		case "$gte":
			return "(MGte " + jvCoq(normArg(a)) + ")"
		case "$lt":
			return "(MLt " + jvCoq(normArg(a)) + ")"
		case "$lte":
			return "(MLte " + jvCoq(normArg(a)) + ")"
		case "$in":
			return "(MIn " + jvCoq(normArg(a)) + ")"
		case "$not":
			return "(MNot " + mopCoq(a) + ")"
		case "$elemMatch":
			if em, ok := a.(bson.M); ok && len(em) == 1 {
				if x, ok := em["$eq"]; ok {
					return "(MElemEq " + jvCoq(normArg(x)) + ")"
				}
			}
		}
	}
	return "MOpUnknown"
}
func mfilterCoq(m bson.M) string {
	if len(m) == 0 {
		return "MAll"
	}
	if len(m) != 1 {
		return "MUnknown"
	}
	for k, v := range m {
		if k == "$and" || k == "$or" {
			l, ok := v.([]bson.M)
			if !ok {
				return "MUnknown"
			}
			items := make([]string, len(l))
			for i, x := range l {
				items[i] = mfilterCoq(x)
			}
			if k == "$and" {
				return "(MAnd " + coq.List(items) + ")"
			}
			return "(MOr " + coq.List(items) + ")"
		}
		return "(MField " + coq.Str(k) + " " + mopCoq(v) + ")"
	}
	return "MUnknown"
}

var c14Scalars = []interface{}{nil, true, false, -1.0, 0.0, 1.0, 2.0, 2.5, 30.0, 45.0, "", "7", "2.5", "abc", "b", "30", "x"}
var c14Args = []interface{}{nil, true, false, -1.0, 0.0, 1.0, 2.0, 2.5, 30.0, 45.0, "", "7", "abc", "b", "x",
	[]interface{}{}, []interface{}{1.0, 2.0}, []interface{}{"abc", 1.0, nil}, []interface{}{30.0, 45.0}, []interface{}{"30", "45"},
	[]interface{}{30.0}, []interface{}{30.0, 45.0, 50.0}, []interface{}{45.0, 30.0}, []interface{}{"x", 45.0}, []interface{}{0.0, 2.5},
	map[string]interface{}{"k": 1.0}}

func c14Cond(rng *rand.Rand) hExpr {
	keys := []string{"x", "x", "x", "y", "missing", "_label", "_gid", "n.k", "$.x"}
	return hExpr{Kind: "cond", Key: keys[rng.Intn(len(keys))], Op: copList[rng.Intn(len(copList))], Arg: c14Args[rng.Intn(len(c14Args))]}
}
func c14Expr(rng *rand.Rand, depth int) hExpr {
	if depth == 0 || rng.Intn(3) == 0 {
		if rng.Intn(25) == 0 {
			return hExpr{Kind: "unset"}
		}
		return c14Cond(rng)
	}
	mk := func() []hExpr {
		n := rng.Intn(4)
		es := make([]hExpr, n)
		for i := range es {
			es[i] = c14Expr(rng, depth-1)
		}
		return es
	}
	switch rng.Intn(3) {
	case 0:
		return hExpr{Kind: "not", Es: []hExpr{c14Expr(rng, depth-1)}}
	case 1:
		return hExpr{Kind: "and", Es: mk()}
	default:
		return hExpr{Kind: "or", Es: mk()}
	}
}

type c14Input struct {
	Kind string                 `json:"kind"` // type | filter
	Prog []tStmt                `json:"prog,omitempty"`
	Data map[string]interface{} `json:"data,omitempty"`
	Expr *hExpr                 `json:"expr,omitempty"`
}
type c14Obs struct {
	Core   *c14TypeObs `json:"core,omitempty"`
	Mongo  *c14TypeObs `json:"mongo,omitempty"`
	Filter interface{} `json:"filter,omitempty"`
	Keeps  *bool       `json:"core_keeps,omitempty"`
	Panic  string      `json:"panic,omitempty"`
}

func runC14(ctx *Ctx) error {
	ctx.EvalMod = "Eval_C14"
	ctx.CaseTy = "c14_case"
	ctx.Shard = 600
	ctx.HasKF = true
	ctx.Rule = "typing: EVERY statement sequence of length <= 3 (quick; 4 thorough over a reduced alphabet) over a 38-statement alphabet (every supported step; empty and non-empty id/label/key lists; valid, empty, reserved, dotted and __current__ mark names; selects of one / two / zero marks, defined and undefined; unique and duplicate aggregation names) plus the sequences that take one mark name twice with a type change in between (also followed by selects), plus random sequences up to length 8, compiled by core.NewCompiler and by the Mongo compiler (verif hook, no database); observed accept/reject, result type, mark types. filters: 12 operators x 17 scalar field values (absent, null, booleans, numbers, numeric and plain text) x 26 arguments (scalars, lists of every arity incl. wrong-typed bounds, a map) exhaustively, plus random and/or/not/unset nestings with empty lists to depth 3 (quick) / 5 (thorough) over keys x, y, missing, _label, _gid, n.k, $.x; observed: the bson filter document of convertHasExpression read back into the filter AST, and logic.MatchesHasExpression on the element; non-trivial = well-typed program of >= 2 statements / condition on a present value; distinct by input"
	var inputs []c14Input
	if ctx.Replay != nil {
		var in c14Input
		if err := json.Unmarshal(ctx.Replay, &in); err != nil {
			return err
		}
		inputs = []c14Input{in}
	} else {
		al := c14Alphabet()
		var rec func(p []tStmt, d int)
		rec = func(p []tStmt, d int) {
			if len(p) > 0 {
				inputs = append(inputs, c14Input{Kind: "type", Prog: append([]tStmt{}, p...)})
			}
			if d == 0 {
				return
			}
			for _, s := range al {
				if len(p) >= 1 && p[0].Op != "V" && p[0].Op != "E" && len(p) >= 2 {
					continue // programs not starting with V/E: length <= 2 is enough (rejected by Validate)
				}
				rec(append(append([]tStmt{}, p...), s), d-1)
			}
		}
		rec(nil, 3)
		// a mark name taken again after the type of the traveler has changed (the later type must win), with and without a select
		for _, st := range []tStmt{{Op: "V"}, {Op: "E"}} {
			for _, mv1 := range []tStmt{{Op: "outE"}, {Op: "out"}, {Op: "both"}, {Op: "inE"}, {Op: "count"}, {Op: "render", Tpl: "$.x"}} {
				for _, name := range []string{"m", "n"} {
					base := []tStmt{st, {Op: "as", Str: name}, mv1, {Op: "as", Str: name}}
					inputs = append(inputs, c14Input{Kind: "type", Prog: base},
						c14Input{Kind: "type", Prog: append(append([]tStmt{}, base...), tStmt{Op: "select", Strs: []string{name}})},
						c14Input{Kind: "type", Prog: append(append([]tStmt{}, base...), tStmt{Op: "out"}, tStmt{Op: "as", Str: "m"}, tStmt{Op: "select", Strs: []string{"m", "n"}})})
				}
			}
		}
		n := ctx.Pick(1500, 20000)
		for i := 0; i < n; i++ {
			l := 4 + ctx.Rng.Intn(5)
			p := []tStmt{al[ctx.Rng.Intn(3)]}
			for j := 1; j < l; j++ {
				p = append(p, al[3+ctx.Rng.Intn(len(al)-3)])
			}
			inputs = append(inputs, c14Input{Kind: "type", Prog: p})
		}
		for _, op := range copList {
			for _, v := range c14Scalars {
				for _, a := range c14Args {
					inputs = append(inputs, c14Input{Kind: "filter", Data: map[string]interface{}{"x": v}, Expr: &hExpr{Kind: "cond", Key: "x", Op: op, Arg: a}})
				}
			}
			for _, a := range c14Args {
				inputs = append(inputs, c14Input{Kind: "filter", Data: map[string]interface{}{}, Expr: &hExpr{Kind: "cond", Key: "x", Op: op, Arg: a}})
			}
		}
		m := ctx.Pick(1500, 20000)
		depth := 3
		if ctx.Thorough() {
			depth = 5
		}
		for i := 0; i < m; i++ {
			data := map[string]interface{}{"x": c14Scalars[ctx.Rng.Intn(len(c14Scalars))], "y": c14Scalars[ctx.Rng.Intn(len(c14Scalars))],
				"n": map[string]interface{}{"k": c14Scalars[ctx.Rng.Intn(len(c14Scalars))]}}
			e := c14Expr(ctx.Rng, depth)
			inputs = append(inputs, c14Input{Kind: "filter", Data: data, Expr: &e})
		}
	}
	env, err := openGraph("badger", tGraph{})
	if err != nil {
		return err
	}
	defer env.close()
	for _, in := range inputs {
		key, _ := json.Marshal(in)
		switch in.Kind {
		case "type":
			stmts := progProto(in.Prog)
			var co, mo c14TypeObs
			var cc, mc string
			var pan string
			func() {
				defer func() {
					if r := recover(); r != nil {
						pan = fmt.Sprint(r)
					}
				}()
				cp, cerr := core.NewCompiler(env.gi).Compile(stmts, nil)
				co, cc = typeObs(cp, cerr)
				mp, _, merr := mongo.VerifCompile("g", stmts, nil)
				mo, mc = typeObs(mp, merr)
			}()
			if pan != "" {
				cc, mc = "None", "(Some (DNone, [(\"PANIC\"%string, DNone)]))"
			}
			kinds := make([]string, len(in.Prog))
			for i, s := range in.Prog {
				kinds[i] = kindCoq(s)
			}
			tags := []string{"kind=type", fmt.Sprintf("len=%d", len(in.Prog)), fmt.Sprintf("core_accepts=%v", co.Accepted), fmt.Sprintf("mongo_accepts=%v", mo.Accepted)}
			ctx.Add(Case{Input: in, Observed: c14Obs{Core: &co, Mongo: &mo, Panic: pan},
				Coq:        fmt.Sprintf("(CType %s %s %s)", coq.List(kinds), cc, mc),
				Nontrivial: co.Accepted && len(in.Prog) >= 2, Key: string(key), Tags: tags})
		case "filter":
			data := normArg(in.Data).(map[string]interface{})
			tr := &gdbi.BaseTraveler{Current: &gdbi.DataElement{ID: "v1", Label: "L", Data: data, Loaded: true}}
			var f bson.M
			var pan string
			keeps := false
			func() {
				defer func() {
					if r := recover(); r != nil {
						pan = fmt.Sprint(r)
					}
				}()
				keeps = logic.MatchesHasExpression(tr, in.Expr.proto())
				f = mongo.VerifConvertHas(in.Expr.proto())
			}()
			fc := "MUnknown"
			if pan == "" {
				fc = mfilterCoq(f)
			}
			js, _ := bson.MarshalExtJSON(f, false, false)
			var fj interface{}
			json.Unmarshal(js, &fj)
			tags := []string{"kind=filter", "expr=" + in.Expr.Kind, fmt.Sprintf("keeps=%v", keeps)}
			if in.Expr.Kind == "cond" {
				tags = append(tags, "op="+in.Expr.Op)
			}
			ctx.Add(Case{Input: in, Observed: c14Obs{Filter: fj, Keeps: &keeps, Panic: pan},
				Coq:        fmt.Sprintf("(CFilter %s %s %s %s)", jmapCoq(data), in.Expr.coq(), fc, coq.Bool(keeps)),
				Nontrivial: in.Expr.Kind != "cond" || data["x"] != nil, Key: string(key), Tags: tags})
		}
	}
	return nil
}
