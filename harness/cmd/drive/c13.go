package main

import (
	"context"
	"encoding/json"
	"fmt"
	"reflect"
	"runtime"
	"strings"
	"time"

	"github.com/bmeg/grip/engine/queue"
	"github.com/bmeg/grip/gdbi"
	"github.com/bmeg/grip/gripper"
	"github.com/bmeg/grip/jobstorage"

	"gripverif/internal/coq"
)

func init() { props["C13"] = runC13 }

type c13Input struct {
	Kind      string   `json:"kind"`
	N         int      `json:"n"`
	Fan       []int    `json:"fan"` // per item: pipeline number (mux) or fan-out (dual)
	Items     []uint64 `json:"items"`
	Procs     int      `json:"gomaxprocs"`
	DelaySeed int64    `json:"delay_seed"`
	DelayPct  int      `json:"delay_pct"` // percentage of items given a latency
	// queue / batch: the stage is run up to Reps times on the same input and the first run whose flattened output is not
	// the input is the one reported (schedules that show only once in a few hundred runs)
	Reps int `json:"reps,omitempty"`
	// batch: the 1 microsecond timeout the remote backends pass, instead of 2 ms
	ProdTimeout bool `json:"prod_timeout,omitempty"`
}

type c13Obs struct {
	Out    [][]uint64 `json:"out"`
	Closed bool       `json:"closed"`
	Note   string     `json:"note,omitempty"`
}

// small deterministic per-item delay source
type delayer struct {
	seed int64
	pct  int
}

func (d delayer) wait(site int, k int) {
	if d.pct == 0 {
		return
	}
	h := uint64(d.seed)*0x9E3779B97F4A7C15 + uint64(site)*0xBF58476D1CE4E5B9 + uint64(k)*0x94D049BB133111EB
	h ^= h >> 31
	h *= 0xD6E8FEB86659FD93
	h ^= h >> 29
	if int(h%100) < d.pct {
		switch (h / 100) % 3 {
		case 0:
			runtime.Gosched()
		case 1:
			time.Sleep(time.Duration((h/300)%200) * time.Microsecond)
		default:
			time.Sleep(time.Duration((h/300)%3) * time.Millisecond)
		}
	}
}

func idTrav(x uint64, pad int) gdbi.Traveler {
	d := map[string]interface{}{}
	if pad > 0 {
		d["pad"] = strings.Repeat("x", pad)
	}
	return &gdbi.BaseTraveler{Current: &gdbi.DataElement{ID: fmt.Sprintf("%d", x), Label: "L", Data: d, Loaded: true}}
}

func travID(t gdbi.Traveler) uint64 {
	var x uint64
	fmt.Sscanf(t.GetCurrentID(), "%d", &x)
	return x
}

const c13Deadline = 20 * time.Second

// collect reads ch until closed or deadline; reports closure.
func collectTrav(ch <-chan gdbi.Traveler, d delayer) ([][]uint64, bool) {
	out := [][]uint64{}
	timer := time.After(c13Deadline)
	k := 0
	for {
		select {
		case t, ok := <-ch:
			if !ok {
				return out, true
			}
			out = append(out, []uint64{travID(t)})
			d.wait(9, k)
			k++
		case <-timer:
			return out, false
		}
	}
}

func execC13(in c13Input) c13Obs {
	old := runtime.GOMAXPROCS(in.Procs)
	defer runtime.GOMAXPROCS(old)
	d := delayer{in.DelaySeed, in.DelayPct}
	switch in.Kind {
	case "marshal":
		src := make(chan gdbi.Traveler, 3)
		go func() {
			for k, x := range in.Items {
				pad := 0
				if in.DelayPct > 0 && (x*7+uint64(in.DelaySeed))%5 == 0 {
					pad = 20000 // a slow item for its worker
				}
				src <- idTrav(x, pad)
				d.wait(1, k)
			}
			close(src)
		}()
		res := jobstorage.MarshalStream(src, in.N)
		out := [][]uint64{}
		timer := time.After(c13Deadline)
		k := 0
		for {
			select {
			case b, ok := <-res:
				if !ok {
					return c13Obs{Out: out, Closed: true}
				}
				t := &gdbi.BaseTraveler{}
				json.Unmarshal(b, t)
				out = append(out, []uint64{travID(t)})
				d.wait(2, k)
				k++
			case <-timer:
				return c13Obs{Out: out, Closed: false}
			}
		}
	case "unmarshal":
		src := make(chan []byte, 3)
		go func() {
			for k, x := range in.Items {
				pad := 0
				if in.DelayPct > 0 && (x*7+uint64(in.DelaySeed))%5 == 0 {
					pad = 20000
				}
				b, _ := json.Marshal(idTrav(x, pad))
				src <- b
				d.wait(1, k)
			}
			close(src)
		}()
		res := jobstorage.UnmarshalStream(src, in.N)
		out, closed := collectTrav(res, d)
		return c13Obs{Out: out, Closed: closed}
	case "queue":
		q := queue.New()
		go func() {
			for k, x := range in.Items {
				q.GetInput() <- idTrav(x, 0)
				d.wait(1, k)
			}
			close(q.GetInput())
		}()
		out, closed := collectTrav(q.GetOutput(), d)
		return c13Obs{Out: out, Closed: closed}
	case "dual":
		req := make(chan gdbi.ElementLookup, 3)
		go func() {
			for k, x := range in.Items {
				if in.Fan[k] == 99 {
					// a signal: nothing to load, it must keep its place among the items
					req <- gdbi.ElementLookup{ID: fmt.Sprintf("%d", k), Ref: &gdbi.BaseTraveler{Signal: &gdbi.Signal{ID: int(x)}}}
				} else {
					req <- gdbi.ElementLookup{ID: fmt.Sprintf("%d", k), Ref: idTrav(x, 0)}
				}
				d.wait(1, k)
			}
			close(req)
		}()
		loader := func(r gdbi.ElementLookup, load bool) chan interface{} {
			var k int
			fmt.Sscanf(r.ID, "%d", &k)
			ch := make(chan interface{}, 2)
			go func() {
				x := travID(r.Ref)
				for j := 0; j < in.Fan[k]; j++ {
					d.wait(3, k*16+j)
					ch <- x*10 + uint64(j)
				}
				close(ch)
			}()
			return ch
		}
		deser := func(r gdbi.ElementLookup, data interface{}) gdbi.ElementLookup {
			r.Vertex = &gdbi.Vertex{ID: fmt.Sprintf("%d", data.(uint64)+1)}
			return r
		}
		res := gdbi.DualProcessor(context.Background(), req, true, loader, deser)
		out := [][]uint64{}
		timer := time.After(c13Deadline)
		for {
			select {
			case r, ok := <-res:
				if !ok {
					return c13Obs{Out: out, Closed: true}
				}
				var y uint64
				if r.Vertex == nil && r.IsSignal() {
					y = uint64(r.Ref.GetSignal().ID)*10 + 99
				} else {
					fmt.Sscanf(r.Vertex.ID, "%d", &y)
				}
				out = append(out, []uint64{y})
			case <-timer:
				return c13Obs{Out: out, Closed: false}
			}
		}
	case "mux":
		m := gripper.NewChannelMux()
		for i := 0; i < in.N; i++ {
			pin := make(chan interface{}, 10)
			pout := make(chan interface{}, 10)
			go func(i int, pin, pout chan interface{}) {
				k := 0
				for v := range pin {
					d.wait(4+i, k)
					pout <- v.(uint64)*10 + uint64(i)
					k++
				}
				close(pout)
			}(i, pin, pout)
			m.AddPipeline(pin, pout)
		}
		go func() {
			for k, x := range in.Items {
				m.Put(in.Fan[k], x)
				d.wait(1, k)
			}
			m.Close()
		}()
		out := [][]uint64{}
		timer := time.After(c13Deadline)
		k := 0
		for {
			select {
			case v, ok := <-m.GetOutChannel():
				if !ok {
					return c13Obs{Out: out, Closed: true}
				}
				out = append(out, []uint64{v.(uint64)})
				d.wait(2, k)
				k++
			case <-timer:
				return c13Obs{Out: out, Closed: false}
			}
		}
	case "batch":
		req := make(chan gdbi.ElementLookup, 3)
		go func() {
			for k, x := range in.Items {
				req <- gdbi.ElementLookup{ID: fmt.Sprintf("%d", x)}
				d.wait(1, k)
			}
			close(req)
		}()
		to := 2 * time.Millisecond
		if in.ProdTimeout {
			to = time.Microsecond
		}
		res := gdbi.LookupBatcher(req, in.N, to)
		out := [][]uint64{}
		timer := time.After(c13Deadline)
		for {
			select {
			case b, ok := <-res:
				if !ok {
					return c13Obs{Out: out, Closed: true}
				}
				row := []uint64{}
				for _, e := range b {
					var y uint64
					fmt.Sscanf(e.ID, "%d", &y)
					row = append(row, y)
				}
				out = append(out, row)
			case <-timer:
				return c13Obs{Out: out, Closed: false}
			}
		}
	}
	return c13Obs{Note: "unknown kind"}
}

func c13Coq(in c13Input, ob c13Obs) string {
	kind := map[string]string{"marshal": "KMarshal", "unmarshal": "KUnmarshal", "queue": "KQueue",
		"dual": "KDual", "mux": "KMux", "batch": "KBatch"}[in.Kind]
	ins := make([]string, len(in.Items))
	for i, x := range in.Items {
		f := 0
		if in.Fan != nil {
			f = in.Fan[i]
		}
		ins[i] = coq.Pair(coq.Nat(f), coq.N(x))
	}
	outs := make([]string, len(ob.Out))
	for i, r := range ob.Out {
		outs[i] = coq.NList(r)
	}
	return coq.Record("ck", kind, "cn", coq.Nat(in.N), "cin", coq.List(ins), "cout", coq.List(outs), "cclosed", coq.Bool(ob.Closed))
}

func runC13(ctx *Ctx) error {
	ctx.EvalMod = "Eval_C13"
	ctx.CaseTy = "c13_case"
	ctx.Rule = "kinds {marshal,unmarshal,queue,dual,mux,batch} x worker/batch/pipeline counts x lengths around n, 10n, buffer sizes x seeded latency patterns x GOMAXPROCS {1,4,16}; plus a 2000-item burst through the jump queue (3000 runs) and a 1003-item input through the lookup batcher with batch size 100 and the 1 microsecond timeout of the remote backends (400 runs), the first run whose output is not the input being the one judged; non-trivial = at least 2 items and (for pools) more items than workers; distinct by (kind,n,items,fan)"
	var inputs []c13Input
	if ctx.Replay != nil {
		var in c13Input
		if err := json.Unmarshal(ctx.Replay, &in); err != nil {
			return err
		}
		inputs = []c13Input{in}
	} else {
		rng := ctx.Rng
		mk := func(kind string, n, length int) c13Input {
			items := make([]uint64, length)
			for i := range items {
				items[i] = uint64(rng.Intn(100000))
			}
			in := c13Input{Kind: kind, N: n, Items: items, Procs: []int{1, 4, 16}[rng.Intn(3)],
				DelaySeed: rng.Int63n(1 << 30), DelayPct: []int{0, 5, 30}[rng.Intn(3)]}
			if kind == "mux" {
				in.Fan = make([]int, length)
				for i := range in.Fan {
					in.Fan[i] = rng.Intn(n)
				}
			}
			if kind == "dual" {
				in.Fan = make([]int, length)
				for i := range in.Fan {
					in.Fan[i] = rng.Intn(4)
					if rng.Intn(5) == 0 {
						in.Fan[i] = 99 // a signal
					}
				}
			}
			return in
		}
		big := ctx.Pick(600, 5000)
		for _, kind := range []string{"marshal", "unmarshal"} {
			for _, n := range []int{1, 2, 3, 4, 7} {
				for _, l := range []int{0, 1, n - 1, n, n + 1, 2*n + 1, 10*n - 1, 10 * n, 10*n + 1, 23*n + 2} {
					if l >= 0 {
						inputs = append(inputs, mk(kind, n, l))
					}
				}
			}
			inputs = append(inputs, mk(kind, 4, big), mk(kind, 3, big/2+1))
		}
		for _, l := range []int{0, 1, 2, 49, 50, 51, 101, big} {
			inputs = append(inputs, mk("queue", 1, l))
		}
		for _, l := range []int{0, 1, 2, 7, 99, 100, 101, 250} {
			inputs = append(inputs, mk("dual", 1, l))
		}
		for _, n := range []int{1, 2, 3} {
			for _, l := range []int{0, 1, 5, 49, 50, 51, 249, 250, 251, 300} {
				inputs = append(inputs, mk("mux", n, l))
			}
		}
		// a multiplexer that never gets a pipeline (an empty request stream): it must still close its output
		inputs = append(inputs, mk("mux", 0, 0))
		for _, k := range []int{1, 2, 5, 50} {
			for _, l := range []int{0, 1, k - 1, k, k + 1, 3*k + 1, 120} {
				if l >= 0 {
					inputs = append(inputs, mk("batch", k, l))
				}
			}
		}
		// schedules that show once in a few hundred runs: a long burst through the queue, and a batcher input that is not a
		// multiple of the batch size under the timeout the remote backends use
		{
			q := mk("queue", 1, 2000)
			q.Procs, q.DelayPct, q.Reps = 16, 0, ctx.Pick(3000, 20000)
			b := mk("batch", 100, 1003)
			b.Procs, b.DelayPct, b.Reps, b.ProdTimeout = 16, 0, ctx.Pick(400, 2000), true
			inputs = append(inputs, q, b)
		}
		extra := ctx.Pick(40, 400)
		kinds := []string{"marshal", "unmarshal", "queue", "dual", "mux", "batch"}
		for i := 0; i < extra; i++ {
			inputs = append(inputs, mk(kinds[rng.Intn(len(kinds))], 1+rng.Intn(5), rng.Intn(80)))
		}
	}
	type res struct {
		i  int
		ob c13Obs
	}
	// run sequentially: GOMAXPROCS is process-wide
	for _, in := range inputs {
		ob := execC13(in)
		for r := 1; r < in.Reps; r++ {
			flat := []uint64{}
			for _, b := range ob.Out {
				flat = append(flat, b...)
			}
			if !ob.Closed || !reflect.DeepEqual(flat, in.Items) {
				break
			}
			ob = execC13(in)
		}
		nt := len(in.Items) >= 2
		if in.Kind == "marshal" || in.Kind == "unmarshal" {
			nt = len(in.Items) > in.N
		}
		key, _ := json.Marshal([]interface{}{in.Kind, in.N, in.Items, in.Fan})
		ctx.Add(Case{Input: in, Observed: ob, Coq: c13Coq(in, ob), Nontrivial: nt, Key: string(key),
			Tags: []string{"kind=" + in.Kind, fmt.Sprintf("procs=%d", in.Procs), fmt.Sprintf("delaypct=%d", in.DelayPct),
				"len=" + bucket(len(in.Items))}})
	}
	return nil
}

func bucket(n int) string {
	switch {
	case n == 0:
		return "0"
	case n == 1:
		return "1"
	case n < 10:
		return "2-9"
	case n < 100:
		return "10-99"
	case n < 1000:
		return "100-999"
	}
	return "1000+"
}
