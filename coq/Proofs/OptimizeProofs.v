(* C02: equivalent spellings of label / id filters, count = number of rows. *)
From Coq Require Import List ZArith QArith String Bool NArith Lia.
Import ListNotations.
From Grip Require Import Model.Json Model.Has Model.Traversal Proofs.TraversalProofs.
Local Close Scope Q_scope.
Local Open Scope string_scope.
Local Open Scope list_scope.

Lemma look_label t c : t_cur t = Some c -> look t "_label" = Some (JStr (e_label c)).
Proof. intros H. unfold look, lookup_raw, doc_of. simpl. rewrite H. reflexivity. Qed.
Lemma look_gid t c : t_cur t = Some c -> look t "_gid" = Some (JStr (e_gid c)).
Proof. intros H. unfold look, lookup_raw, doc_of. simpl. rewrite H. reflexivity. Qed.

Lemma existsb_jstr x xs : existsb (jeq (JStr x)) (map JStr xs) = mem_str x xs.
Proof. induction xs as [|y r IH]; cbn [map existsb mem_str]; auto. rewrite IH. reflexivity. Qed.

(* on a traveler that has a current element, the spellings of a label filter decide alike *)
Theorem label_spellings t c x xs : t_cur t = Some c ->
  match_expr (look t) (HCond "_label" CEq (JStr x)) = mem_str (e_label c) [x] /\
  match_expr (look t) (HCond "_label" CWithin (JList (map JStr xs))) = mem_str (e_label c) xs /\
  match_expr (look t) (HAnd [HCond "_label" CEq (JStr x)]) = mem_str (e_label c) [x] /\
  match_expr (look t) (HAnd [HCond "_label" CWithin (JList (map JStr xs))]) = mem_str (e_label c) xs.
Proof.
  intros H. cbn [match_expr forallb]. rewrite (look_label t c H). cbn [match_cond goval].
  rewrite existsb_jstr. cbn [jeq mem_str existsb]. rewrite ?orb_false_r, ?andb_true_r. auto.
Qed.

Theorem id_spellings t c x xs : t_cur t = Some c ->
  match_expr (look t) (HCond "_gid" CEq (JStr x)) = mem_str (e_gid c) [x] /\
  match_expr (look t) (HCond "_gid" CWithin (JList (map JStr xs))) = mem_str (e_gid c) xs /\
  match_expr (look t) (HAnd [HCond "_gid" CEq (JStr x)]) = mem_str (e_gid c) [x].
Proof.
  intros H. cbn [match_expr forallb]. rewrite (look_gid t c H). cbn [match_cond goval].
  rewrite existsb_jstr. cbn [jeq mem_str existsb]. rewrite ?orb_false_r, ?andb_true_r. auto.
Qed.

Lemma filter_ext_in' {X} (f h : X -> bool) l : (forall x, In x l -> f x = h x) -> filter f l = filter h l.
Proof. induction l as [|x r IH]; simpl; intros H; auto. rewrite (H x) by now left. rewrite IH; auto. Qed.

(* as steps over any rows that carry a current element (which C01_sound guarantees in well-typed programs) *)
Theorem step_label_spellings g d ts x xs : Forall (fun t => t_cur t <> None) ts ->
  step g d (SHas (HCond "_label" CEq (JStr x))) ts = step g d (SHasLabel [x]) ts /\
  step g d (SHas (HCond "_label" CWithin (JList (map JStr xs)))) ts = step g d (SHasLabel xs) ts /\
  step g d (SHas (HAnd [HCond "_label" CEq (JStr x)])) ts = step g d (SHasLabel [x]) ts /\
  step g d (SHas (HCond "_gid" CEq (JStr x))) ts = step g d (SHasId [x]) ts /\
  step g d (SHas (HCond "_gid" CWithin (JList (map JStr xs)))) ts = step g d (SHasId xs) ts.
Proof.
  intros H. rewrite Forall_forall in H.
  repeat split; cbn [step]; apply filter_ext_in'; intros t Ht; specialize (H t Ht);
    destruct (t_cur t) as [c|] eqn:Ec; try congruence.
  - apply (label_spellings t c x xs Ec).
  - apply (label_spellings t c x xs Ec).
  - apply (label_spellings t c x xs Ec).
  - apply (id_spellings t c x xs Ec).
  - apply (id_spellings t c x xs Ec).
Qed.

(* appending statements *)
Lemma run_from_app g p1 : forall p2 ts travs,
  run_from g ts (p1 ++ p2) travs =
  match run_from g ts p1 travs with Some (ts1, out1) => run_from g ts1 p2 out1 | None => None end.
Proof. induction p1 as [|s p IH]; intros p2 ts travs; cbn [run_from app]; auto.
  destruct (type_step ts s); auto. Qed.

(* count() returns the number of rows the uncounted traversal returns *)
Theorem count_is_length g p ty out : run_from g (DNone, []) p [t0] = Some (ty, out) ->
  exists ty' c, run_from g (DNone, []) (p ++ [SCount]) [t0] = Some (ty', [c]) /\ fst ty' = DCount /\
                t_count c = N.of_nat (List.length out).
Proof.
  intros H. rewrite run_from_app, H. cbn [run_from type_step step]. destruct ty as [d mt].
  eexists; eexists; split; [reflexivity|]. split; reflexivity.
Qed.
