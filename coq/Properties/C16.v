(* C16  Accepted identifiers and values are stored verbatim or rejected.
   Byte-level statement about the 0x00-joined keys of kvgraph/keys.go: for every graph name / id / label /
   endpoint that validation accepts (Model/Keys.v: valid_name_b, valid_id_b, i.e. NUL-free), keys parse back
   to their components, distinct elements have distinct keys, and the prefix used to address one element or
   one graph matches exactly the keys of that element / graph -- for ALL byte strings, not a sample. *)
From Coq Require Import List NArith Bool.
Import ListNotations.
From Grip Require Import Model.Bytes Model.Keys Proofs.KeysProofs.

Definition ok_id (x : bytes) := valid_id_b x = true.
Definition ok_name (x : bytes) := valid_name_b x = true.

Ltac nn := repeat match goal with
  | H : ok_id _ |- _ => apply valid_id_nonul in H
  | H : ok_name _ |- _ => apply valid_name_nonul in H end.

Theorem C16_roundtrip : forall g v e s d l, ok_name g -> ok_id v -> ok_id e -> ok_id s -> ok_id d -> ok_id l ->
  split0 (graph_key g) = [tag_g; g] /\
  split0 (vertex_key g v) = [tag_v; g; v] /\
  split0 (edge_key g e s d l) = [tag_e; g; e; s; d; l; etype1] /\
  split0 (src_key g s d e l) = [tag_s; g; s; d; e; l; etype1] /\
  split0 (dst_key g s d e l) = [tag_d; g; d; s; e; l; etype1].
Proof.
  intros g v e s d l Hg Hv He Hs Hd Hl. nn.
  repeat split; apply split_join; try discriminate; simpl; rewrite ?Hg, ?Hv, ?He, ?Hs, ?Hd, ?Hl; reflexivity.
Qed.
Print Assumptions C16_roundtrip.

Theorem C16_distinct : forall g v g' v', ok_name g -> ok_name g' -> ok_id v -> ok_id v' ->
  vertex_key g v = vertex_key g' v' -> g = g' /\ v = v'.
Proof.
  intros g v g' v' Hg Hg' Hv Hv' H. nn.
  apply join_inj in H; try discriminate; simpl; rewrite ?Hg, ?Hv, ?Hg', ?Hv'; auto. inversion H; auto.
Qed.
Print Assumptions C16_distinct.

Theorem C16_distinct_edges : forall g e s d l g' e' s' d' l',
  ok_name g -> ok_name g' -> ok_id e -> ok_id e' -> ok_id s -> ok_id s' -> ok_id d -> ok_id d' -> ok_id l -> ok_id l' ->
  (edge_key g e s d l = edge_key g' e' s' d' l' \/ src_key g s d e l = src_key g' s' d' e' l' \/ dst_key g s d e l = dst_key g' s' d' e' l') ->
  (g, e, s, d, l) = (g', e', s', d', l').
Proof.
  intros g e s d l g' e' s' d' l' Hg Hg' He He' Hs Hs' Hd Hd' Hl Hl' H. nn.
  destruct H as [H|[H|H]]; apply join_inj in H; try discriminate; simpl;
    rewrite ?Hg, ?He, ?Hs, ?Hd, ?Hl, ?Hg', ?He', ?Hs', ?Hd', ?Hl'; auto; inversion H; auto.
Qed.
Print Assumptions C16_distinct_edges.

(* prefix-exactness: what a prefix scan / prefix delete addressed to (g, v) or to g touches *)
Ltac side := try discriminate; simpl; repeat match goal with H : nonul _ = true |- _ => rewrite H end; auto.
Ltac fw P ps := let H := fresh "Hf" in intros H; apply (P ps) in H;
  [destruct H as [? [_ H]]; inversion H; auto | side | side | side | side].
Ltac bw P ps rest := apply (P ps); [side | side | side | side | exists rest; split; [discriminate | reflexivity]].
Theorem C16_prefix_exact : forall g v g' e s d l, ok_name g -> ok_name g' -> ok_id v -> ok_id e -> ok_id s -> ok_id d -> ok_id l ->
  (is_prefix (src_edge_prefix g v) (src_key g' s d e l) = true <-> (g = g' /\ v = s)) /\
  (is_prefix (dst_edge_prefix g v) (dst_key g' s d e l) = true <-> (g = g' /\ v = d)) /\
  (is_prefix (edge_key_prefix g v) (edge_key g' e s d l) = true <-> (g = g' /\ v = e)) /\
  (is_prefix (edge_list_prefix g) (edge_key g' e s d l) = true <-> g = g') /\
  (is_prefix (vertex_list_prefix g) (vertex_key g' s) = true <-> g = g') /\
  is_prefix (vertex_list_prefix g) (edge_key g' e s d l) = false /\
  is_prefix (src_edge_prefix g v) (dst_key g' s d e l) = false.
Proof.
  intros g v g' e s d l Hg Hg' Hv He Hs Hd Hl. nn.
  assert (forall ps qs, ps <> [] -> forallb nonul ps = true -> qs <> [] -> forallb nonul qs = true ->
     (is_prefix (join (ps ++ [[]])) (join qs) = true <-> exists rest, rest <> [] /\ qs = ps ++ rest)) as P
    by (intros; now apply prefix_components).
  split; [|split; [|split; [|split; [|split; [|split]]]]].
  - split; [fw P [tag_s; g; v] | intros [-> ->]; bw P [tag_s; g'; s] [d; e; l; etype1]].
  - split; [fw P [tag_d; g; v] | intros [-> ->]; bw P [tag_d; g'; d] [s; e; l; etype1]].
  - split; [fw P [tag_e; g; v] | intros [-> ->]; bw P [tag_e; g'; e] [s; d; l; etype1]].
  - split; [fw P [tag_e; g] | intros ->; bw P [tag_e; g'] [e; s; d; l; etype1]].
  - split; [fw P [tag_v; g] | intros ->; bw P [tag_v; g'] [s]].
  - reflexivity.
  - reflexivity.
Qed.
Print Assumptions C16_prefix_exact.

(* the label index (kvindex/keys.go, string terms): the scan of one label's entries meets exactly the entries of that field
   and that label -- in particular not those of a label that merely extends it --, the scan of a field's entries or terms
   exactly those of the field; and an entry key determines (field, term, document) *)
Theorem C16_index_prefix_exact : forall f t f' t' d, ok_id f -> ok_id t -> ok_id f' -> ok_id t' -> ok_id d ->
  (is_prefix (entry_value_prefix f t) (entry_key f' t' d) = true <-> (f = f' /\ t = t')) /\
  (is_prefix (entry_prefix f) (entry_key f' t' d) = true <-> f = f') /\
  (is_prefix (term_prefix f) (term_key f' t') = true <-> f = f') /\
  is_prefix (entry_prefix f) (term_key f' t') = false.
Proof.
  intros f t f' t' d Hf Ht Hf' Ht' Hd. nn.
  assert (forall ps qs, ps <> [] -> forallb nonul ps = true -> qs <> [] -> forallb nonul qs = true ->
     (is_prefix (join (ps ++ [[]])) (join qs) = true <-> exists rest, rest <> [] /\ qs = ps ++ rest)) as P
    by (intros; now apply prefix_components).
  split; [|split; [|split]].
  - split; [fw P [tag_i; f; ttype_string; t] | intros [-> ->]; bw P [tag_i; f'; ttype_string; t'] [d]].
  - split; [fw P [tag_i; f] | intros ->; bw P [tag_i; f'] [ttype_string; t'; d]].
  - split; [fw P [tag_t; f] | intros ->; bw P [tag_t; f'] [ttype_string; t']].
  - reflexivity.
Qed.
Print Assumptions C16_index_prefix_exact.

Theorem C16_index_distinct : forall f t d f' t' d', ok_id f -> ok_id t -> ok_id d -> ok_id f' -> ok_id t' -> ok_id d' ->
  entry_key f t d = entry_key f' t' d' -> (f, t, d) = (f', t', d').
Proof.
  intros f t d f' t' d' Hf Ht Hd Hf' Ht' Hd' H. nn.
  apply join_inj in H; try discriminate; simpl; rewrite ?Hf, ?Ht, ?Hd, ?Hf', ?Ht', ?Hd'; auto. inversion H; auto.
Qed.
Print Assumptions C16_index_distinct.

(* without the trailing separator the scan of label "L" would also meet the entries of "LL" *)
Example C16_index_separator_needed :
  is_prefix (join [tag_i; [102]; ttype_string; [76]])%N (entry_key [102] [76; 76] [100])%N = true /\
  is_prefix (entry_value_prefix [102] [76])%N (entry_key [102] [76; 76] [100])%N = false.
Proof. vm_compute. auto. Qed.

(* the guard is necessary: with a NUL inside an id the parse is wrong and two vertices collide in scans
   (this was the behaviour of the pinned tree before the validation fix) *)
Example C16_nul_breaks_parse :
  split0 (vertex_key [103] [112; 0; 113])%N = [tag_v; [103]; [112]; [113]]%N /\ valid_id_b [112; 0; 113]%N = false.
Proof. vm_compute. auto. Qed.

Example C16_nonvacuous : ok_name [103; 49]%N /\ ok_id [97; 124; 98]%N /\ ok_id [195; 169; 1]%N.
Proof. repeat split; vm_compute; reflexivity. Qed.
