(* Correspondence evaluator for C09: index histories, a fixed battery of queries after every step. *)
From Coq Require Import List NArith Bool Arith.
Import ListNotations.
From Grip Require Export Model.Bytes Model.KVIndex.

Definition item := list N.
Definition query := list item.
Fixpoint ins (x : item) (l : list item) : list item :=
  match l with [] => [x] | y :: r => if bleb x y then x :: y :: r else y :: ins x r end.
Definition sort_items (l : list item) : list item := fold_right ins [] l.

Definition titem (t : term) : item := match t with TS s => [1; s]%N | TN p => [2; p]%N end.

Record c09_universe := { u_fields : list N; u_terms : list term; u_ranges : list (N * N) }.

Inductive qk := QMatch | QTerms | QMin | QMax | QNumbers | QRange (lo_neg : bool) | QCounts.

Definition battery (u : c09_universe) (s : ixst) : list (qk * query) :=
  flat_map (fun f =>
    map (fun t => (QMatch, sort_items (map (fun d => [d]) (q_match s f t)))) (u_terms u)
    ++ [(QTerms, sort_items (map titem (q_terms s f)));
        (QMin, [[q_min s f]]); (QMax, [[q_max s f]]);
        (QNumbers, map (fun p => [p]) (q_numbers s f))]
    ++ map (fun r => (QRange (f_neg (fst r)), sort_items (map (fun x => [fst x; N.of_nat (snd x)]) (q_range s f (fst r) (snd r))))) (u_ranges u))
    (u_fields u).

Definition oitem (o : option N) : query := match o with Some p => [[p]] | None => [] end.
Definition sbattery (u : c09_universe) (s : sspec) : list (qk * query) :=
  flat_map (fun f =>
    map (fun t => (QMatch, sort_items (map (fun d => [d]) (b_match s f t)))) (u_terms u)
    ++ [(QTerms, sort_items (map titem (b_terms s f)));
        (QMin, oitem (b_min s f)); (QMax, oitem (b_max s f));
        (QNumbers, map (fun p => [p]) (b_numbers s f))]
    ++ map (fun r => (QRange (f_neg (fst r)), sort_items (map (fun x => [fst x; N.of_nat (snd x)]) (b_range s f (fst r) (snd r))))) (u_ranges u))
    (u_fields u).

Definition counts_q (l : list (term * nat)) : query := sort_items (map (fun x => titem (fst x) ++ [N.of_nat (snd x)]) l).

Record c09_case := { cu : c09_universe; cops : list iop; cobs : list (list query) }.

Fixpoint list_eqb {X} (e : X -> X -> bool) (a b : list X) : bool :=
  match a, b with [], [] => true | x :: r, y :: r' => e x y && list_eqb e r r' | _, _ => false end.
Definition query_eqb := list_eqb beqb.

(* the complement of the guard of C09_scan_guarded (Model/KVIndex.v: fresh) *)
Definition is_replace (s : sspec) (o : iop) : bool := negb (fresh s o).

(* min/max of an empty field: the specification says nothing (None): not compared *)
Definition spec_q_ok (k : qk) (sp ob : query) : bool :=
  match k with
  | QMin | QMax => match sp with [] => true | _ => query_eqb sp ob end
  | _ => query_eqb sp ob
  end.

(* known-finding regions: 5 = a live document id was added again (old entries stay);
   6 = numeric range whose lower bound is negative *)
Definition masked (replaced : bool) (k : qk) : option nat :=
  if replaced then Some 5 else match k with QRange true => Some 6 | _ => None end.

Fixpoint zip3 {A B C} (a : list A) (b : list B) (c : list C) : list (A * B * C) :=
  match a, b, c with x :: a', y :: b', z :: c' => (x, y, z) :: zip3 a' b' c' | _, _, _ => [] end.

Fixpoint walk (u : c09_universe) (s : ixst) (sp : sspec) (replaced : bool) (ops : list iop) (obs : list (list query))
  : bool * bool * list nat :=
  match ops, obs with
  | o :: ops', ob :: obs' =>
      let rep := replaced || is_replace sp o in
      let s' := istep s o in
      let sp' := sp_step sp o in
      let extra_m := match o with ICounts f => [(QCounts, counts_q (q_counts s f))] | _ => [] end in
      let extra_s := match o with ICounts f => [(QCounts, counts_q (b_counts sp f))] | _ => [] end in
      let mq := battery u s' ++ extra_m in
      let sq := sbattery u sp' ++ extra_s in
      let '(mm, sv, kf) := walk u s' sp' rep ops' obs' in
      let z := zip3 (map fst mq) (map snd mq) ob in
      let zs := zip3 (map fst sq) (map snd sq) ob in
      (mm || negb ((length mq =? length ob) && forallb (fun t => let '(k, m, x) := t in query_eqb m x) z),
       sv || negb (forallb (fun t => let '(k, q, x) := t in match masked rep k with Some _ => true | None => spec_q_ok k q x end) zs),
       flat_map (fun t => let '(k, q, x) := t in match masked rep k with Some c => if spec_q_ok k q x then [] else [c] | None => [] end) zs ++ kf)
  | [], [] => (false, false, [])
  | _, _ => (true, true, [])
  end.

Definition eval_case (c : c09_case) := walk (cu c) xinit spinit false (cops c) (cobs c).

Fixpoint idx_where {X} (p : X -> bool) (i : nat) (l : list X) : list nat :=
  match l with [] => [] | x :: r => if p x then i :: idx_where p (S i) r else idx_where p (S i) r end.
Fixpoint nodup_nat (l : list nat) : list nat :=
  match l with [] => [] | x :: r => if existsb (Nat.eqb x) r then nodup_nat r else x :: nodup_nat r end.
Definition mismatches (cs : list c09_case) := idx_where (fun c => fst (fst (eval_case c))) 0 cs.
Definition spec_violations (cs : list c09_case) := idx_where (fun c => snd (fst (eval_case c))) 0 cs.
Definition known_classes (cs : list c09_case) : list nat := nodup_nat (flat_map (fun c => snd (eval_case c)) cs).

Fixpoint explain_from (u : c09_universe) (s : ixst) (sp : sspec) (ops : list iop) :=
  match ops with
  | [] => []
  | o :: r => let s' := istep s o in let sp' := sp_step sp o in
              (map snd (battery u s'), map snd (sbattery u sp')) :: explain_from u s' sp' r
  end.
Definition explain (c : c09_case) := explain_from (cu c) xinit spinit (cops c).
