(* Correspondence evaluator for C12: real mark/jump traversals (production compiler, pipeline.Run) against
   the iterative definition loop_spec and against the executable protocol model under two schedulers. *)
From Coq Require Import List NArith Arith Bool.
Import ListNotations.
From Grip Require Export Model.Loop.
Local Open Scope N_scope.

Inductive gspec :=
| GAdj (l : list (N * list N)) | GCycle (n : N) | GChain (n : N) | GStar (m : N) | GComplete (n : N).
Record c12_case := {
  c_graph : gspec;                  (* successors of each vertex along the body's direction *)
  c_hops : nat;                     (* body = that many out() steps *)
  c_start : list N;
  c_bound : nat;                    (* jump while counter < bound *)
  c_emit : bool;
  c_limit : nat;                    (* > 0: the loop is followed by limit(c_limit) *)
  o_closed : bool;
  o_rows : list N;                  (* vertex ids delivered, sorted *)
  o_leak : N }.

Definition upto (n : N) : list N := map N.of_nat (seq 0 (N.to_nat n)).
Definition succs (c : c12_case) (v : N) : list N :=
  match c_graph c with
  | GAdj l => match find (fun p => fst p =? v) l with Some p => snd p | None => [] end
  | GCycle n => if v <? n then [(v + 1) mod n] else []
  | GChain n => if v + 1 <? n then [v + 1] else []
  | GStar m => if v =? 0 then map N.succ (upto m) else if v <=? m then [0] else []
  | GComplete n => if v <? n then filter (fun w => negb (w =? v)) (upto n) else []
  end.
Fixpoint iter_succ (c : c12_case) (k : nat) (vs : list N) : list N :=
  match k with O => vs | S k' => iter_succ c k' (flat_map (succs c) vs) end.
Definition body_of (c : c12_case) (t : N * nat) : list (N * nat) :=
  map (fun w => (w, S (snd t))) (iter_succ c (c_hops c) [fst t]).
Definition cond_of (c : c12_case) (t : N * nat) : bool := (snd t <? c_bound c)%nat.
Definition rank_of (c : c12_case) (t : N * nat) : nat := (c_bound c - snd t)%nat.
Definition input_of (c : c12_case) : list (N * nat) := map (fun v => (v, O)) (c_start c).

Fixpoint insert (x : N) (l : list N) : list N :=
  match l with [] => [x] | y :: r => if x <=? y then x :: l else y :: insert x r end.
Definition sortN (l : list N) : list N := fold_right insert [] l.
Fixpoint listN_eqb (a b : list N) : bool :=
  match a, b with [], [] => true | x :: r, y :: r' => (x =? y) && listN_eqb r r' | _, _ => false end.

(* a, b sorted: a is a sub-multiset of b *)
Fixpoint sub_sorted (b a : list N) : bool :=
  match b with
  | [] => match a with [] => true | _ => false end
  | y :: r' => match a with
               | [] => true
               | x :: r => if x =? y then sub_sorted r' r else if y <? x then sub_sorted r' a else false
               end
  end.

Definition spec_rows (c : c12_case) : list N :=
  sortN (map fst (loop_spec (body_of c) (cond_of c) (c_emit c) (rank_of c) (input_of c))).
(* the protocol model itself, run on the same input under two schedulers *)
Definition model_rows (c : c12_case) (pick : nat -> nat) : option (list N) :=
  let s := lrun (body_of c) (cond_of c) (c_emit c) pick 400000 0 (lstart (input_of c)) in
  match l_phase s with PClosed => Some (sortN (map fst (l_out s))) | _ => None end.
Definition small (c : c12_case) : bool := (length (spec_rows c) <? 1500)%nat.

(* the rows the property allows: all of the loop's rows, or, behind a limit, any c_limit of them (which ones depends on the
   schedule) -- and the stream closes *)
Definition rows_ok (c : c12_case) : bool :=
  match c_limit c with
  | O => listN_eqb (o_rows c) (spec_rows c)
  | l => Nat.eqb (length (o_rows c)) (Nat.min l (length (spec_rows c))) && sub_sorted (spec_rows c) (o_rows c)
  end.
Definition agrees (c : c12_case) : bool :=
  o_closed c && rows_ok c
  && (if small c then
        match model_rows c (fun i => i mod 4)%nat, model_rows c (fun i => (i * 7 + i / 3) mod 4)%nat with
        | Some a, Some b => listN_eqb a (spec_rows c) && listN_eqb b (spec_rows c)
        | _, _ => false
        end
      else true).
Definition spec_ok (c : c12_case) : bool := o_closed c && rows_ok c && (o_leak c =? 0).

Fixpoint idx_filter {A} (f : A -> bool) (l : list A) (i : nat) : list nat :=
  match l with [] => [] | x :: r => if f x then i :: idx_filter f r (S i) else idx_filter f r (S i) end.
Definition mismatches (cs : list c12_case) : list nat := idx_filter (fun c => negb (agrees c)) cs 0%nat.
Definition spec_violations (cs : list c12_case) : list nat := idx_filter (fun c => negb (spec_ok c)) cs 0%nat.
Definition explain (c : c12_case) := (spec_rows c, o_rows c, o_closed c, o_leak c).
