(* C09, history level, second part: multiplicities and the numeric queries.
   On histories that (a) never add a live document id again and (b) give every document at most one value
   per field, the entry keys are a permutation of the live (field, term, doc) triples; hence the reported
   counts are the brute-force counts, and FieldNumbers / Min / Max over finite values return exactly the
   ascending list / least / greatest value of the live documents. *)
From Coq Require Import List NArith Bool Arith Lia Sorted Permutation.
Import ListNotations.
From Grip Require Import Model.KVIndex Proofs.KVIndexProofs Proofs.KVIndexRefine.

(* ---------- well-formed documents: at most one value per field ---------- *)
Lemma memN_In x l : memN x l = true <-> In x l.
Proof.
  unfold memN. rewrite existsb_exists. split.
  - intros [y [H1 H2]]. apply N.eqb_eq in H2. subst. exact H1.
  - intros H. exists x. split; [exact H | apply N.eqb_refl].
Qed.
Lemma nodupN_NoDup l : nodupN l = true -> NoDup l.
Proof.
  induction l as [|x l IH]; simpl; intros H; [constructor |]. apply andb_true_iff in H as [H1 H2].
  constructor; [| exact (IH H2)]. intros HI. apply memN_In in HI. rewrite HI in H1. discriminate H1.
Qed.
Lemma NoDup_map_fst_inv {A B} (l : list (A * B)) : NoDup (map fst l) -> NoDup l.
Proof.
  induction l as [|x l IH]; simpl; intros H; [constructor |]. inversion H as [|a b Hx HN]; subst.
  constructor; [| exact (IH HN)]. intros HI. apply Hx. apply in_map. exact HI.
Qed.
Lemma NoDup_map_fst_filter {A B} (p : A * B -> bool) (l : list (A * B)) : NoDup (map fst l) -> NoDup (map fst (filter p l)).
Proof.
  induction l as [|x l IH]; simpl; intros H; [constructor |]. inversion H as [|a b Hx HN]; subst.
  destruct (p x); [| exact (IH HN)]. simpl. constructor; [| exact (IH HN)].
  intros HI. apply Hx. apply in_map_iff in HI as [y [H1 H2]]. apply filter_In in H2 as [H2 _]. apply in_map_iff. exists y. auto.
Qed.

(* ---------- the specification state stays duplicate free ---------- *)
Definition SPwf (sp : sspec) : Prop :=
  NoDup (map fst (sp_live sp)) /\ forall d vs, In (d, vs) (sp_live sp) -> NoDup vs.

Lemma SPwf_init : SPwf spinit.
Proof. split; [constructor | intros d vs []]. Qed.

Lemma SPwf_step sp o : SPwf sp -> wf_op o = true -> SPwf (sp_step sp o).
Proof.
  intros [H1 H2] HW. destruct o as [f | f | d vals | d | f]; simpl.
  - split; [exact H1 | exact H2].
  - split; simpl.
    + rewrite map_map. simpl. exact H1.
    + intros d vs H. apply in_map_iff in H as [[d0 vs0] [E H]]. simpl in E. injection E as E1 E2. subst d vs.
      apply NoDup_filter. exact (H2 d0 vs0 H).
  - split; simpl.
    + constructor.
      * intros HI. apply in_map_iff in HI as [y [E HI]]. apply filter_In in HI as [_ HI]. rewrite <- E, N.eqb_refl in HI. discriminate HI.
      * apply NoDup_map_fst_filter. exact H1.
    + intros d' vs [H | H].
      * injection H as E1 E2. subst d' vs. apply NoDup_filter. simpl in HW. apply NoDup_map_fst_inv. apply nodupN_NoDup. exact HW.
      * apply filter_In in H as [H _]. exact (H2 d' vs H).
  - split; simpl.
    + apply NoDup_map_fst_filter. exact H1.
    + intros d' vs H. apply filter_In in H as [H _]. exact (H2 d' vs H).
  - split; [exact H1 | exact H2].
Qed.

Lemma SPwf_run ops : forall sp, SPwf sp -> forallb wf_op ops = true -> SPwf (fold_left sp_step ops sp).
Proof.
  induction ops as [|o ops IH]; intros sp H HW; simpl; [exact H |].
  simpl in HW. apply andb_true_iff in HW as [W1 W2]. apply IH; [apply SPwf_step; assumption | exact W2].
Qed.

Lemma NoDup_app_disjoint {A} (a b : list A) : NoDup a -> NoDup b -> (forall x, In x a -> ~ In x b) -> NoDup (a ++ b).
Proof.
  induction a as [|x a IH]; simpl; intros Ha Hb Hd; [exact Hb |]. inversion Ha as [|x' a' Hx Ha']; subst.
  constructor.
  - rewrite in_app_iff. intros [H | H]; [exact (Hx H) | exact (Hd x (or_introl eq_refl) H)].
  - apply IH; [exact Ha' | exact Hb |]. intros y Hy. apply Hd. right. exact Hy.
Qed.

Lemma b_all_NoDup sp : SPwf sp -> NoDup (b_all sp).
Proof.
  intros [H1 H2]. unfold b_all. induction (sp_live sp) as [|[d vs] l IH]; simpl; [constructor |].
  simpl in H1. inversion H1 as [|a b Hd HN]; subst. apply NoDup_app_disjoint.
  - assert (NoDup vs) as Hv by (apply (H2 d vs); left; reflexivity). clear - Hv.
    induction Hv as [|v vs Hv HN IH]; simpl; constructor; [| exact IH].
    intros H. apply in_map_iff in H as [v' [E H]]. injection E as E. subst v'. exact (Hv H).
  - apply IH; [exact HN |]. intros d' vs' H. apply (H2 d' vs'). right. exact H.
  - intros e He Hf. apply in_map_iff in He as [v [E _]]. subst e. apply in_flat_map in Hf as [[d' vs'] [Hl Hf]].
    simpl in Hf. apply in_map_iff in Hf as [v' [E _]]. injection E as _ E. subst d'.
    apply Hd. apply in_map_iff. exists (d, vs'). auto.
Qed.

Lemma entries_perm s sp : R s sp -> SPwf sp -> Permutation (x_entries s) (b_all sp).
Proof.
  intros [_ [HE [_ [HN _]]]] HW. apply NoDup_Permutation; [exact HN | apply b_all_NoDup; exact HW | exact HE].
Qed.

Lemma count_perm k a b : Permutation a b -> count_entries k a = count_entries k b.
Proof.
  induction 1 as [| x a b _ IH | x y a | a b c _ IH1 _ IH2].
  - reflexivity.
  - rewrite !count_cons, IH. reflexivity.
  - rewrite !count_cons. lia.
  - rewrite IH1. exact IH2.
Qed.

(* FieldTermCounts: exactly the brute-force (term, count) pairs *)
Lemma counts_exact s sp f : R s sp -> SPwf sp -> same_set (q_counts s f) (b_counts sp f).
Proof.
  intros HR HW [t n]. pose proof (entries_perm s sp HR HW) as HP. split.
  - intros H. destruct (counts_refines s sp f HR t n H) as [E Ht]. unfold b_counts. apply in_map_iff. exists t.
    split; [| exact Ht]. rewrite E, (count_perm _ _ _ HP). reflexivity.
  - intros H. unfold b_counts in H. apply in_map_iff in H as [t' [E Ht]]. injection E as E1 E2. subst t' n.
    apply (terms_refines s sp f HR) in Ht. unfold q_terms in Ht. apply in_map_iff in Ht as [[k c] [E Hk]]. simpl in E.
    unfold q_counts. apply in_map_iff. exists (k, c). split; [| exact Hk]. simpl.
    pose proof Hk as Hk'. apply filter_In in Hk' as [Hk' Hf]. simpl in Hf. apply N.eqb_eq in Hf.
    assert (k = (f, t)) as Ek by (destruct k; simpl in *; subst; reflexivity).
    rewrite E. f_equal. rewrite <- (count_perm _ _ _ HP), <- Ek.
    destruct HR as [_ [_ [_ [_ [_ [_ H4]]]]]]. destruct (H4 k c Hk') as [Ec | Ec].
    + subst c. reflexivity.
    + destruct (Nat.eqb c 0); [reflexivity | exact Ec].
Qed.

(* ---------- numeric entries ---------- *)
Definition num_pd (f : N) (e : entry) : list (N * N) :=
  match e with (f', TN p, d) => if N.eqb f f' then [(p, d)] else [] | _ => [] end.
Definition num_p (f : N) (e : entry) : list N :=
  match e with (f', TN p, _) => if N.eqb f f' then [p] else [] | _ => [] end.
Lemma nums_unfold s f : nums s f = pd_sort (flat_map (num_pd f) (x_entries s)).
Proof. reflexivity. Qed.
Lemma b_nums_unfold sp f : b_nums sp f = flat_map (num_p f) (b_all sp).
Proof. reflexivity. Qed.
Lemma map_fst_num f l : map fst (flat_map (num_pd f) l) = flat_map (num_p f) l.
Proof.
  induction l as [|[[f' t] d] l IH]; [reflexivity |]. simpl. rewrite map_app, IH. f_equal.
  destruct t as [x | p]; [reflexivity |]. destruct (N.eqb f f'); reflexivity.
Qed.

Lemma nums_perm s sp f : R s sp -> SPwf sp -> Permutation (map fst (nums s f)) (b_nums sp f).
Proof.
  intros HR HW. rewrite nums_unfold, b_nums_unfold.
  eapply Permutation_trans; [apply Permutation_map; apply pd_sort_perm |].
  rewrite map_fst_num. apply Permutation_flat_map. apply entries_perm; assumption.
Qed.

(* ---------- ascending lists are unique ---------- *)
Lemma fkey_inj a b : finite a = true -> finite b = true -> fkey a = fkey b -> a = b.
Proof.
  unfold finite, fkey, PINF, SIGN, NINF. intros Ha Hb.
  destruct (N.ltb_spec a 9223372036854775808), (N.ltb_spec b 9223372036854775808); intros HK; try lia.
  apply orb_true_iff in Ha as [Ha | Ha]; [apply N.ltb_lt in Ha; lia |].
    apply andb_true_iff in Ha as [_ Ha]. apply N.ltb_lt in Ha.
    apply orb_true_iff in Hb as [Hb | Hb]; [apply N.ltb_lt in Hb; lia |].
    apply andb_true_iff in Hb as [_ Hb]. apply N.ltb_lt in Hb. lia.
Qed.

Lemma sorted_perm_unique (l1 : list N) : forall l2, StronglySorted fle l1 -> StronglySorted fle l2 -> Permutation l1 l2 ->
  Forall (fun p => finite p = true) l1 -> l1 = l2.
Proof.
  induction l1 as [|a l1 IH]; intros l2 H1 H2 HP HF.
  - apply Permutation_nil in HP. symmetry. exact HP.
  - destruct l2 as [|b l2]; [apply Permutation_sym, Permutation_nil in HP; discriminate HP |].
    inversion H1 as [|a' l1' S1 A1]; subst. inversion H2 as [|b' l2' S2 A2]; subst. inversion HF as [|a' l1' Fa F1]; subst.
    assert (a = b) as E.
    { assert (In a (b :: l2)) as Ia by (apply (Permutation_in _ HP); left; reflexivity).
      assert (In b (a :: l1)) as Ib by (apply (Permutation_in _ (Permutation_sym HP)); left; reflexivity).
      destruct Ia as [Ia | Ia]; [symmetry; exact Ia |]. destruct Ib as [Ib | Ib]; [exact Ib |].
      rewrite Forall_forall in A1, A2, F1. pose proof (A1 b Ib) as L1. pose proof (A2 a Ia) as L2. unfold fle in L1, L2.
      apply fkey_inj; [exact Fa | apply F1; exact Ib | lia]. }
    subst b. f_equal. apply IH; [exact S1 | exact S2 | apply Permutation_cons_inv with a; exact HP | exact F1].
Qed.

Lemma f_ins_perm x l : Permutation (f_ins x l) (x :: l).
Proof.
  induction l as [|y l IH]; simpl; [apply Permutation_refl |]. destruct (fkey x <=? fkey y)%N; [apply Permutation_refl |].
  eapply Permutation_trans; [apply perm_skip; exact IH | apply perm_swap].
Qed.
Lemma f_sort_perm l : Permutation (f_sort l) l.
Proof.
  induction l as [|x l IH]; simpl; [constructor |]. eapply Permutation_trans; [apply f_ins_perm | apply perm_skip; exact IH].
Qed.
Lemma f_ins_sorted x l : StronglySorted fle l -> StronglySorted fle (f_ins x l).
Proof.
  induction 1 as [|y l HS IH Hall]; simpl; [constructor; constructor |].
  destruct (N.leb_spec (fkey x) (fkey y)) as [L | L].
  - constructor; [constructor; assumption |]. constructor; [exact L |].
    rewrite Forall_forall in *. intros z Hz. specialize (Hall z Hz). unfold fle in *. lia.
  - constructor; [exact IH |]. rewrite Forall_forall in *. intros z Hz.
    apply (Permutation_in _ (f_ins_perm x l)) in Hz. destruct Hz as [<- | Hz]; [unfold fle; lia | exact (Hall z Hz)].
Qed.
Lemma f_sort_sorted l : StronglySorted fle (f_sort l).
Proof. induction l as [|x l IH]; simpl; [constructor | apply f_ins_sorted; exact IH]. Qed.

Lemma q_numbers_unfold s f : q_numbers s f = numbers_of (nums s f).
Proof. reflexivity. Qed.
Lemma q_min_unfold s f : q_min s f = min_of (nums s f).  Proof. reflexivity. Qed.
Lemma q_max_unfold s f : q_max s f = max_of (nums s f).  Proof. reflexivity. Qed.

Lemma nums_finite s sp f : R s sp -> SPwf sp -> Forall (fun p => finite p = true) (b_nums sp f) ->
  Forall (fun x => finite (fst x) = true) (nums s f).
Proof.
  intros HR HW HF. rewrite Forall_forall in *. intros x Hx. apply HF.
  apply (Permutation_in _ (nums_perm s sp f HR HW)). apply in_map. exact Hx.
Qed.

(* FieldNumbers: the live values of the field in ascending numeric order *)
Lemma numbers_exact s sp f : R s sp -> SPwf sp -> Forall (fun p => finite p = true) (b_nums sp f) ->
  q_numbers s f = b_numbers sp f.
Proof.
  intros HR HW HF. rewrite q_numbers_unfold. unfold b_numbers.
  destruct (numbers_of_sorted (nums s f) (pd_sort_sorted _) (nums_finite s sp f HR HW HF)) as [HS HP].
  apply sorted_perm_unique.
  - exact HS.
  - apply f_sort_sorted.
  - eapply Permutation_trans; [exact HP |]. eapply Permutation_trans; [apply (nums_perm s sp f HR HW) |]. apply Permutation_sym, f_sort_perm.
  - rewrite Forall_forall in *. intros p Hp. apply HF. apply (Permutation_in _ (nums_perm s sp f HR HW)). apply (Permutation_in _ HP). exact Hp.
Qed.

Lemma sorted_hd_least (l : list N) m : StronglySorted fle l -> hd_error l = Some m -> In m l /\ forall p, In p l -> fle m p.
Proof.
  intros HS H. destruct l as [|x l]; [discriminate H |]. simpl in H. injection H as ->.
  inversion HS as [|x' l' _ A]; subst. split; [left; reflexivity |]. intros p [<- | Hp]; [unfold fle; lia |].
  rewrite Forall_forall in A. exact (A p Hp).
Qed.
Lemma sorted_last_greatest (l : list N) m : StronglySorted fle l -> hd_error (rev l) = Some m -> In m l /\ forall p, In p l -> fle p m.
Proof.
  intros HS H. destruct (rev l) as [|x r] eqn:E; [discriminate H |]. simpl in H. injection H as ->.
  assert (l = rev r ++ [m]) as El by (rewrite <- (rev_involutive l), E; reflexivity). subst l. clear E.
  split; [apply in_app_iff; right; left; reflexivity |]. intros p Hp. apply in_app_iff in Hp as [Hp | [<- | []]]; [| unfold fle; lia].
  clear - HS Hp. induction (rev r) as [|y l IH]; [destruct Hp |]. simpl in HS. inversion HS as [|y' l' S A]; subst.
  destruct Hp as [<- | Hp]; [| exact (IH S Hp)]. rewrite Forall_forall in A. apply A. apply in_app_iff. right. left. reflexivity.
Qed.

(* FieldTermNumberMin / Max: the least / greatest live value *)
Lemma min_exact s sp f m : R s sp -> SPwf sp -> Forall (fun p => finite p = true) (b_nums sp f) ->
  b_min sp f = Some m -> q_min s f = m.
Proof.
  intros HR HW HF Hm. unfold b_min, b_numbers in Hm.
  destruct (sorted_hd_least _ m (f_sort_sorted _) Hm) as [Im Lm].
  assert (nums s f <> []) as HN.
  { intros E. pose proof (nums_perm s sp f HR HW) as HP. rewrite E in HP. simpl in HP. apply Permutation_nil in HP.
    apply (Permutation_in _ (f_sort_perm _)) in Im. rewrite HP in Im. destruct Im. }
  destruct (min_of_least (nums s f) HN (pd_sort_sorted _) (nums_finite s sp f HR HW HF)) as [Iq Lq].
  rewrite q_min_unfold. pose proof (nums_perm s sp f HR HW) as HP.
  assert (In (min_of (nums s f)) (f_sort (b_nums sp f))) as I1.
  { apply (Permutation_in _ (Permutation_sym (f_sort_perm _))). apply (Permutation_in _ HP). exact Iq. }
  assert (In m (map fst (nums s f))) as I2.
  { apply (Permutation_in _ (Permutation_sym HP)). apply (Permutation_in _ (f_sort_perm _)). exact Im. }
  pose proof (Lm _ I1) as A. pose proof (Lq _ I2) as B. unfold fle in A, B. rewrite Forall_forall in HF.
  apply fkey_inj; [apply HF; apply (Permutation_in _ HP); exact Iq | apply HF; apply (Permutation_in _ (f_sort_perm _)); exact Im | lia].
Qed.
Lemma max_exact s sp f m : R s sp -> SPwf sp -> Forall (fun p => finite p = true) (b_nums sp f) ->
  b_max sp f = Some m -> q_max s f = m.
Proof.
  intros HR HW HF Hm. unfold b_max, b_numbers in Hm.
  destruct (sorted_last_greatest _ m (f_sort_sorted _) Hm) as [Im Lm].
  assert (nums s f <> []) as HN.
  { intros E. pose proof (nums_perm s sp f HR HW) as HP. rewrite E in HP. simpl in HP. apply Permutation_nil in HP.
    apply (Permutation_in _ (f_sort_perm _)) in Im. rewrite HP in Im. destruct Im. }
  destruct (max_of_greatest (nums s f) HN (pd_sort_sorted _) (nums_finite s sp f HR HW HF)) as [Iq Lq].
  rewrite q_max_unfold. pose proof (nums_perm s sp f HR HW) as HP.
  assert (In (max_of (nums s f)) (f_sort (b_nums sp f))) as I1.
  { apply (Permutation_in _ (Permutation_sym (f_sort_perm _))). apply (Permutation_in _ HP). exact Iq. }
  assert (In m (map fst (nums s f))) as I2.
  { apply (Permutation_in _ (Permutation_sym HP)). apply (Permutation_in _ (f_sort_perm _)). exact Im. }
  pose proof (Lm _ I1) as A. pose proof (Lq _ I2) as B. unfold fle in A, B. rewrite Forall_forall in HF.
  apply fkey_inj; [apply HF; apply (Permutation_in _ HP); exact Iq | apply HF; apply (Permutation_in _ (f_sort_perm _)); exact Im | lia].
Qed.

Theorem refinement_wf ops : fresh_adds ops = true -> wf_ops ops = true -> R (irun ops) (sp_run ops) /\ SPwf (sp_run ops).
Proof. intros H1 H2. split; [apply refinement; exact H1 | apply SPwf_run; [exact SPwf_init | exact H2]]. Qed.

(* ---------- numeric ranges with a non-negative lower bound (the region outside known finding 6) ---------- *)
Lemma drop_while_sorted (L : list (N * N)) lo : StronglySorted ple L ->
  drop_while (fun x => (fst x <? lo)%N) L = filter (fun x => negb (fst x <? lo)%N) L.
Proof.
  induction 1 as [|x r HS IH Hall]; [reflexivity |]. cbn [drop_while filter]. destruct (N.ltb_spec (fst x) lo) as [Hlt | Hge]; cbn [negb].
  - exact IH.
  - f_equal. symmetry. apply filter_all. apply forallb_forall. intros y Hy. rewrite Forall_forall in Hall. specialize (Hall y Hy).
    unfold ple in Hall. apply negb_true_iff. apply N.ltb_ge. lia.
Qed.
Lemma take_while_sorted (L : list (N * N)) hi : StronglySorted ple L ->
  take_while (fun x => (fst x <? hi)%N) L = filter (fun x => (fst x <? hi)%N) L.
Proof.
  induction 1 as [|x r HS IH Hall]; [reflexivity |]. cbn [take_while filter]. destruct (N.ltb_spec (fst x) hi) as [Hlt | Hge].
  - f_equal. exact IH.
  - symmetry. clear IH. induction r as [|y r IHr]; [reflexivity |]. cbn [filter].
    inversion Hall as [|y' r' Hy Hr]; subst. inversion HS as [|y' r' HS' Hall']; subst.
    unfold ple in Hy. assert ((fst y <? hi)%N = false) as -> by (apply N.ltb_ge; lia). apply IHr; assumption.
Qed.
Lemma filter_sorted {A} (R : A -> A -> Prop) (p : A -> bool) l : StronglySorted R l -> StronglySorted R (filter p l).
Proof.
  induction 1 as [|x r HS IH Hall]; [constructor |]. cbn [filter]. destruct (p x); [| exact IH]. constructor; [exact IH |].
  rewrite Forall_forall in *. intros y Hy. apply filter_In in Hy as [Hy _]. exact (Hall y Hy).
Qed.
Lemma filter_perm' {X} (f : X -> bool) a b : Permutation a b -> Permutation (filter f a) (filter f b).
Proof. induction 1; simpl; auto.
  - destruct (f x); auto.
  - destruct (f x), (f y); auto. apply perm_swap.
  - eapply Permutation_trans; eauto. Qed.
Lemma filter_map_swap {X Y} (g : X -> Y) (p : Y -> bool) l : filter p (map g l) = map g (filter (fun x => p (g x)) l).
Proof. induction l as [|x l IH]; simpl; [reflexivity |]. destruct (p (g x)); simpl; rewrite IH; reflexivity. Qed.

Lemma filter_filter_comm {X} (p q : X -> bool) l : filter q (filter p l) = filter (fun x => p x && q x) l.
Proof. induction l as [|x l IH]; simpl; [reflexivity |]. destruct (p x); simpl; [destruct (q x); rewrite IH; reflexivity | exact IH]. Qed.

Lemma fkey_nonneg_mono a b : (a < SIGN)%N -> (b < SIGN)%N -> ((fkey a <= fkey b)%N <-> (a <= b)%N).
Proof. unfold fkey, SIGN. intros Ha Hb. apply N.ltb_lt in Ha, Hb. unfold SIGN in *. rewrite Ha, Hb. lia. Qed.

Lemma range_cond p lo hi : finite p = true -> (lo < PINF)%N -> (hi < PINF)%N ->
  negb (f_lt p lo) && f_lt p hi = negb (p <? lo)%N && (p <? hi)%N.
Proof.
  unfold finite, f_lt, fkey, PINF, SIGN, NINF. intros Hp Hlo Hhi.
  assert ((lo <? 9223372036854775808)%N = true) as -> by (apply N.ltb_lt; lia).
  assert ((hi <? 9223372036854775808)%N = true) as -> by (apply N.ltb_lt; lia).
  destruct (N.ltb_spec p 9223372036854775808) as [Hs | Hs].
  - destruct (N.ltb_spec (9223372036854775808 + p) (9223372036854775808 + lo)), (N.ltb_spec p lo); try lia;
    destruct (N.ltb_spec (9223372036854775808 + p) (9223372036854775808 + hi)), (N.ltb_spec p hi); try lia; reflexivity.
  - apply orb_true_iff in Hp as [Hp | Hp]; [apply N.ltb_lt in Hp; lia |]. apply andb_true_iff in Hp as [_ Hp]. apply N.ltb_lt in Hp.
    assert ((18446744073709551615 - p <? 9223372036854775808 + lo)%N = true) as -> by (apply N.ltb_lt; lia).
    assert ((p <? hi)%N = false) as -> by (apply N.ltb_ge; lia). cbn. rewrite andb_false_r. reflexivity.
Qed.

Lemma lo_bound lo : finite lo = true -> f_neg lo = false -> (lo < PINF)%N.
Proof.
  unfold finite, f_neg, PINF, SIGN, NINF. intros Flo Hneg. apply N.ltb_ge in Hneg.
  apply orb_true_iff in Flo as [H | H]; [apply N.ltb_lt in H; exact H |].
  apply andb_true_iff in H as [H _]. apply N.ltb_lt in H. lia.
Qed.
Lemma hi_bound lo hi : (lo < PINF)%N -> finite hi = true -> f_lt hi lo = false -> (hi < PINF)%N.
Proof.
  unfold f_lt, finite, fkey, PINF, SIGN, NINF. intros Hlo Fhi Ehl. apply N.ltb_ge in Ehl.
  assert ((lo <? 9223372036854775808)%N = true) as El by (apply N.ltb_lt; lia). rewrite El in Ehl.
  apply orb_true_iff in Fhi as [H | H]; [apply N.ltb_lt in H; exact H |]. apply andb_true_iff in H as [H1 H2].
  apply N.ltb_lt in H1, H2. assert ((hi <? 9223372036854775808)%N = false) as Eh by (apply N.ltb_ge; lia). rewrite Eh in Ehl. lia.
Qed.
Lemma empty_range (l : list N) lo hi : f_lt hi lo = true -> filter (fun p => negb (f_lt p lo) && f_lt p hi) l = [].
Proof.
  intros Ehl. induction l as [|p l IH]; [reflexivity |]. cbn [filter].
  assert (negb (f_lt p lo) && f_lt p hi = false) as ->; [| exact IH].
  unfold f_lt in *. apply N.ltb_lt in Ehl. destruct (N.ltb_spec (fkey p) (fkey lo)); cbn [negb andb]; [reflexivity |]. apply N.ltb_ge. lia.
Qed.
Lemma nonneg_sorted (l : list (N * N)) : StronglySorted ple l -> Forall (fun x => (fst x < SIGN)%N) l -> StronglySorted fle (map fst l).
Proof.
  intros HS2. induction HS2 as [|x r HSr IH Hall]; intros HB; [constructor |]. inversion HB as [|x' r' Hx Hr]; subst. cbn [map]. constructor; [apply IH; exact Hr |].
  apply Forall_forall. intros q Hq. apply in_map_iff in Hq as [y [<- Hy]]. rewrite Forall_forall in Hall, Hr.
  unfold fle. apply fkey_nonneg_mono; [exact Hx | apply Hr; exact Hy | apply (Hall y Hy)].
Qed.

Lemma range_exact s sp f lo hi : R s sp -> SPwf sp -> Forall (fun p => finite p = true) (b_nums sp f) ->
  finite lo = true -> finite hi = true -> f_neg lo = false -> q_range s f lo hi = b_range sp f lo hi.
Proof.
  intros HR HW HF Flo Fhi Hneg. unfold q_range, b_range, b_numbers, seek_fwd. rewrite Hneg. cbn [app].
  pose proof (lo_bound lo Flo Hneg) as Hlo.
  destruct (f_lt hi lo) eqn:Ehl.
  - rewrite (empty_range _ lo hi Ehl). reflexivity.
  - pose proof (hi_bound lo hi Hlo Fhi Ehl) as Hhi.
    assert (f_nonneg hi = true) as Hnn by (unfold f_nonneg; apply N.leb_le; unfold PINF, SIGN in *; lia).
    rewrite Hnn. f_equal.
    pose proof (pd_sort_sorted (flat_map (num_pd f) (x_entries s))) as HS. rewrite <- nums_unfold in HS.
    rewrite (drop_while_sorted _ lo HS), (take_while_sorted _ hi (filter_sorted _ _ _ HS)), filter_filter_comm.
    pose proof (nums_perm s sp f HR HW) as HP. pose proof (nums_finite s sp f HR HW HF) as HFn.
    apply sorted_perm_unique.
    + apply nonneg_sorted; [apply filter_sorted; exact HS |].
      apply Forall_forall. intros x Hx. apply filter_In in Hx as [_ Hx]. apply andb_true_iff in Hx as [_ Hx]. apply N.ltb_lt in Hx.
      unfold PINF, SIGN in *. lia.
    + apply filter_sorted. apply f_sort_sorted.
    + rewrite <- filter_map_swap with (p := fun p => negb (p <? lo)%N && (p <? hi)%N).
      eapply Permutation_trans; [apply filter_perm'; exact HP |].
      eapply Permutation_trans; [apply filter_perm'; apply Permutation_sym; apply f_sort_perm |].
      erewrite filter_ext_in; [apply Permutation_refl |]. intros p Hp. symmetry. apply range_cond; [| exact Hlo | exact Hhi].
      rewrite Forall_forall in HF. apply HF. apply (Permutation_in _ (f_sort_perm _)). exact Hp.
    + apply Forall_forall. intros p Hp. apply in_map_iff in Hp as [x [<- Hx]]. apply filter_In in Hx as [Hx _].
      rewrite Forall_forall in HFn. exact (HFn x Hx).
Qed.
