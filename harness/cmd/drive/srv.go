package main

// an in-process GripServer (verif hook server.NewVerifServer) with fake gRPC streams

import (
	"context"
	"io"
	"os"
	"strings"

	"github.com/bmeg/grip/config"
	"github.com/bmeg/grip/gdbi"
	"github.com/bmeg/grip/gripql"
	"github.com/bmeg/grip/kvgraph"
	"github.com/bmeg/grip/kvi"
	"github.com/bmeg/grip/server"
	"github.com/bmeg/grip/util"
	"google.golang.org/grpc/metadata"
)

type srvEnv struct {
	dir string
	db  gdbi.GraphDB
	srv *server.GripServer
}

// a graph database whose bulk load goes through util.StreamBatch, as in the mongo, psql and elastic drivers (which
// cannot run here): the batching writer checks the graph named in every element
type batchDB struct{ gdbi.GraphDB }

func (b batchDB) Graph(name string) (gdbi.GraphInterface, error) {
	g, err := b.GraphDB.Graph(name)
	if err != nil {
		return nil, err
	}
	return batchGraph{g, name}, nil
}

type batchGraph struct {
	gdbi.GraphInterface
	name string
}

func (g batchGraph) BulkAdd(stream <-chan *gdbi.GraphElement) error {
	return util.StreamBatch(stream, 50, g.name, g.GraphInterface.AddVertex, g.GraphInterface.AddEdge)
}

func newSrvEnv(driver string) (*srvEnv, error) {
	dir, _ := os.MkdirTemp("", "srv")
	batched := strings.HasSuffix(driver, "+batch")
	driver = strings.TrimSuffix(driver, "+batch")
	kv, err := kvi.NewKVInterface(driver, dir+"/db", nil)
	if err != nil {
		return nil, err
	}
	var db gdbi.GraphDB = kvgraph.NewKVGraph(kv)
	if batched {
		db = batchDB{db}
	}
	conf := config.DefaultConfig()
	conf.Server.WorkDir = dir + "/work"
	conf.Default = "d"
	s, err := server.NewVerifServer(conf, dir, map[string]gdbi.GraphDB{"d": db}, dir+"/jobs")
	if err != nil {
		return nil, err
	}
	return &srvEnv{dir: dir, db: db, srv: s}, nil
}
func (e *srvEnv) close() {
	e.db.Close()
	os.RemoveAll(e.dir)
}

type fakeStream struct{ ctx context.Context }

func (f fakeStream) SetHeader(metadata.MD) error  { return nil }
func (f fakeStream) SendHeader(metadata.MD) error { return nil }
func (f fakeStream) SetTrailer(metadata.MD)       {}
func (f fakeStream) Context() context.Context     { return f.ctx }
func (f fakeStream) SendMsg(m interface{}) error  { return nil }
func (f fakeStream) RecvMsg(m interface{}) error  { return io.EOF }

type travStream struct {
	fakeStream
	rows []*gripql.QueryResult
}

func (t *travStream) Send(r *gripql.QueryResult) error {
	if r == nil {
		// what gRPC does with a nil message: an error back to the handler, no crash
		return io.ErrUnexpectedEOF
	}
	t.rows = append(t.rows, r)
	return nil
}

type bulkStream struct {
	fakeStream
	elems []*gripql.GraphElement
	pos   int
	res   *gripql.BulkEditResult
}

func (b *bulkStream) Recv() (*gripql.GraphElement, error) {
	if b.pos >= len(b.elems) {
		return nil, io.EOF
	}
	e := b.elems[b.pos]
	b.pos++
	return e, nil
}
func (b *bulkStream) SendAndClose(r *gripql.BulkEditResult) error { b.res = r; return nil }
