(* The places of existing-sql/ that, on the pinned tree, splice a client-supplied string (the table part and the
   primary-key part of an element id "<table>:<key>") into SQL text without binding, quoting or checking it
   against the configured schema. Committed list = the known findings of C20 (mirrored in known_findings.json):
   any OTHER site, or another client argument at one of these sites, breaks C20_sites_accounted. *)
From Coq Require Import List String.
Import ListNotations.
Local Open Scope string_scope.
Definition known_unsafe : list (string * list string) :=
  [("existing-sql/graph.go:GetVertex#0", ["table"; "gidField"; "id"]);
   ("existing-sql/graph.go:getTableBackedEdge#0", ["table"; "gidField"; "id"]);
   ("existing-sql/graph.go:GetVertexChannel#0", ["table"; "gidField"]);
   ("existing-sql/graph.go:GetVertexChannel#join:idBatch", ["parts[1]"]);
   ("existing-sql/graph.go:GetOutChannel#join:idBatch", ["parts[1]"]);
   ("existing-sql/graph.go:GetInChannel#join:idBatch", ["parts[1]"]);
   ("existing-sql/graph.go:GetOutEdgeChannel#join:idBatch", ["parts[1]"]);
   ("existing-sql/graph.go:GetInEdgeChannel#join:idBatch", ["parts[1]"])].
