(* Correspondence evaluator for C20: statement texts recorded at the database/sql driver boundary (benign vs
   hostile client value at one entry point) against the lexer model and the regenerated template table;
   lib/pq QuoteLiteral against the model pq_quote. *)
From Coq Require Import List String Ascii Bool Arith.
Import ListNotations.
From Grip Require Export Model.Bytes Model.Sql Model.SqlKnown Gen.SqlTemplates.
Local Open Scope string_scope.
Local Open Scope list_scope.
Local Open Scope nat_scope.

Inductive c20_case :=
| CQuote (s observed : string)
| CStmt (entry value : string) (benign hostile : list string).

(* ---- does a statement text instantiate a Sprintf template? ---- *)
Definition is_verb (v : ascii) : bool := (n v =? 115) || (n v =? 118) || (n v =? 100).
Fixpoint segments (fmt cur : list ascii) : list (list ascii) :=
  match fmt with
  | [] => [rev cur]
  | c :: r =>
      if n c =? 37
      then match r with
           | v :: r2 => if is_verb v then rev cur :: segments r2 [] else segments r (c :: cur)
           | [] => [rev (c :: cur)]
           end
      else segments r (c :: cur)
  end.
Fixpoint lprefix (p l : list ascii) : option (list ascii) :=
  match p, l with
  | [], _ => Some l
  | a :: p', b :: l' => if Ascii.eqb a b then lprefix p' l' else None
  | _, [] => None
  end.
Fixpoint find_after (seg l : list ascii) : option (list ascii) :=
  match lprefix seg l with
  | Some r => Some r
  | None => match l with [] => None | _ :: t => find_after seg t end
  end.
Definition is_suffix (s l : list ascii) : bool := match lprefix (rev s) (rev l) with Some _ => true | None => false end.
Fixpoint match_mid (segs : list (list ascii)) (l : list ascii) : bool :=
  match segs with
  | [] => false
  | [last] => is_suffix last l
  | s :: more => match find_after s l with Some r => match_mid more r | None => false end
  end.
Definition matches_fmt (fmt stmt : string) : bool :=
  match segments (chars fmt) [] with
  | [] => false
  | [only] => String.eqb fmt stmt
  | s0 :: rest => match lprefix s0 (chars stmt) with Some r => match_mid rest r | None => false end
  end.
Definition sql_sites : list (string * string * list string) :=
  filter (fun t => negb (mem_s (snd (fst t)) not_sql_formats)) sprintf_sites.
Definition from_template (a b : string) : bool :=
  existsb (fun t => matches_fmt (snd (fst t)) a && matches_fmt (snd (fst t)) b) sql_sites.

(* ---- the property on the observation ---- *)
Definition has_bad (t : list tok) : bool := existsb (fun x => match x with TBad => true | _ => false end) t.
(* statements may be issued by concurrent goroutines (BuildSchema): compare as multisets of structures *)
Fixpoint remove_first (t : list tok) (l : list (list tok)) : option (list (list tok)) :=
  match l with
  | [] => None
  | x :: r => if toks_eqb t x then Some r else match remove_first t r with Some r' => Some (x :: r') | None => None end
  end.
Fixpoint multiset_eqb (a b : list (list tok)) : bool :=
  match a with
  | [] => match b with [] => true | _ => false end
  | x :: r => match remove_first x b with Some b' => multiset_eqb r b' | None => false end
  end.
Definition structs_eqb (a b : list string) : bool := multiset_eqb (map structure a) (map structure b).
(* treated as data: same statements up to literal contents; or rejected before any statement is issued *)
Definition as_data (benign hostile : list string) : bool :=
  match hostile with
  | [] => true
  | _ => structs_eqb benign hostile && negb (existsb (fun s => has_bad (structure s)) hostile)
  end.

(* entry points that DERIVE IDENTIFIERS from the client value by design (the per-graph table names of psql.AddGraph,
   after gripql.ValidateGraphName): the value may only consist of identifier characters, and the statements may
   differ from the benign run only in the contents of words *)
Definition ident_entries : list string := ["psql.AddGraph"].
Definition ident_char (c : ascii) : bool := is_alpha c || is_digit c || (n c =? 45).
Definition erase_words (t : list tok) : list tok := map (fun x => match x with TWord _ => TWord "" | y => y end) t.
Definition as_ident (v : string) (benign hostile : list string) : bool :=
  match hostile with
  | [] => true
  | _ => forallb ident_char (chars v)
         && multiset_eqb (map (fun s => erase_words (structure s)) benign) (map (fun s => erase_words (structure s)) hostile)
         && negb (existsb (fun s => has_bad (structure s)) hostile)
  end.

(* entry points whose statements are built at a known-unsafe site (Model/SqlKnown.v) -> known-finding class *)
Definition known_entries : list (string * nat) :=
  [("esql.GetVertex.key", 1); ("esql.GetVertex.table", 1); ("esql.GetEdge.key", 2);
   ("esql.GetVertexChannel.key", 3); ("esql.GetVertexChannel.table", 3);
   ("esql.GetOutChannel.key", 4); ("esql.GetInChannel.key", 5);
   ("esql.GetOutEdgeChannel.key", 6); ("esql.GetInEdgeChannel.key", 7)].
Definition known_class (e : string) : option nat :=
  match filter (fun p => String.eqb (fst p) e) known_entries with p :: _ => Some (snd p) | [] => None end.

Definition pairs_ok (a b : list string) : bool :=
  forallb (fun y => existsb (fun x => String.eqb x y || from_template x y) a) b.

(* model vs code: QuoteLiteral is pq_quote; every statement whose text depends on the client value
   instantiates one of the regenerated Sprintf templates (so the static classification saw it) *)
Definition agrees (c : c20_case) : bool :=
  match c with
  | CQuote s o => String.eqb (str_of (pq_quote (chars s))) o
  | CStmt e v b h => match h with [] => true | _ => pairs_ok b h end
  end.
Definition spec_ok (c : c20_case) : bool :=
  match c with
  | CQuote s o => toks_eqb (structure o) [TLit]
  | CStmt e v b h => (if mem_s e ident_entries then as_ident v b h else as_data b h)
                     || match known_class e with Some _ => true | None => false end
  end.

Fixpoint idx_filter {A} (f : A -> bool) (l : list A) (i : nat) : list nat :=
  match l with [] => [] | x :: r => if f x then i :: idx_filter f r (S i) else idx_filter f r (S i) end.
Definition mismatches (cs : list c20_case) : list nat := idx_filter (fun c => negb (agrees c)) cs 0.
Definition spec_violations (cs : list c20_case) : list nat := idx_filter (fun c => negb (spec_ok c)) cs 0.
Definition known_classes (cs : list c20_case) : list nat :=
  nodup Nat.eq_dec (flat_map (fun c => match c with
     | CStmt e v b h => if as_data b h then [] else match known_class e with Some k => [k] | None => [] end
     | _ => [] end) cs).

Definition explain (c : c20_case) :=
  match c with
  | CQuote s o => (str_of (pq_quote (chars s)), [structure o], [@nil tok])
  | CStmt e v b h => (e, map structure b, map structure h)
  end.
