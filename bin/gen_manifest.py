#!/usr/bin/env python3
"""Regenerates MANIFEST.json from bin/manifest_data.py (keeps the file valid and in one place)."""
import json, os, sys
sys.path.insert(0, os.path.dirname(os.path.abspath(__file__)))
import manifest_data as md
V = os.path.dirname(os.path.dirname(os.path.abspath(__file__)))
props = [json.loads(l)["id"] for l in open(os.path.join(V, "properties.jsonl"))]
checks = []
for pid in props:
    if pid not in md.CLAIMED: continue
    c = md.CLAIMED[pid]
    checks.append({
        "property_id": pid,
        "quick_cmd": "bin/check %s --tier quick" % pid,
        "thorough_cmd": "bin/check %s --tier thorough" % pid,
        "evidence_file": "/verif/evidence/%s.json" % pid,
        "replay_cmd_template": "bin/check %s --replay {path}" % pid,
        "engine": "coq-model+correspondence",
        "level_claimed": {"category": "proof", "text": c["text"], "design_ref": c.get("design_ref", "DESIGN.md section 6, " + pid)},
        "level_note": c["note"],
        "technique": c["technique"],
    })
na = [{"property_id": pid, "reason": md.NOT_APPLICABLE.get(pid, "check not built yet in this session (work in progress; see DESIGN.md section 9 build order)")}
      for pid in props if pid not in md.CLAIMED]
m = {
    "version": 1,
    "setup_cmd": "bin/setup",
    "hooks": {"guard": "verif", "enable": "go build -tags verif (harness module replaces github.com/bmeg/grip => /repo)",
              "baseline_off_cmd": md.BASELINE_OFF, "source_commits": md.HOOK_COMMITS, "add_only": True},
    "engines": [{"name": "coq-model+correspondence", "path": "/verif/coq + /verif/harness + /verif/bin/check",
                 "serves_properties": [c["property_id"] for c in checks],
                 "kind_free_text": "Coq 8.16.1 models and theorems (coq/Model, coq/Proofs, coq/Properties), go/ast translators regenerating coq/Gen, Go differential harness writing cases_*.v evaluated with vm_compute"}],
    "checks": checks,
    "not_applicable": na,
    "notes": md.NOTES,
}
json.dump(m, open(os.path.join(V, "MANIFEST.json"), "w"), indent=1)
print("MANIFEST.json: %d checks, %d not_applicable" % (len(checks), len(na)))
