(* Pipelines of goroutines connected by bounded channels (property C07): engine/pipeline/pipes.go:Start builds
   one goroutine per step, joined by channels of capacity bufsize; each step reads a traveler, writes its
   outputs downstream one at a time (blocking while the channel is full), and closes its output when its input
   is closed and drained. Second model: the fan-out / fan-in inside both() / bothE(). *)
From Coq Require Import List Arith Bool Lia.
Import ListNotations.

Section Pipe.
  Variable A : Type.
  Variable cap : nat.                       (* capacity of every inter-step channel *)

  (* a step: per input row an upper bound on what it writes (a filter writes a sublist), and the rows it writes
     once its input has ended (count, aggregate) *)
  Record stage := { s_f : A -> list A; s_fin : list A }.

  Inductive sub : list A -> list A -> Prop :=
  | sub_nil : sub [] []
  | sub_keep x l l' : sub l l' -> sub (x :: l) (x :: l')
  | sub_drop x l l' : sub l l' -> sub l (x :: l').

  (* ch = the channel the step reads (head = oldest); the first step's channel is the scan of the store *)
  Inductive pipe :=
  | PSink (ch : list A) (closed : bool) (got : nat)
  | PStage (ch : list A) (closed : bool) (backlog : list A) (flushed : bool) (st : stage) (rest : pipe).

  Definition head_ch (p : pipe) : list A := match p with PSink ch _ _ | PStage ch _ _ _ _ _ => ch end.
  Definition head_closed (p : pipe) : bool := match p with PSink _ c _ | PStage _ c _ _ _ _ => c end.
  Definition push (p : pipe) (y : A) : pipe :=
    match p with
    | PSink ch c g => PSink (ch ++ [y]) c g
    | PStage ch c b fl st r => PStage (ch ++ [y]) c b fl st r
    end.
  Definition close (p : pipe) : pipe :=
    match p with
    | PSink ch _ g => PSink ch true g
    | PStage ch _ b fl st r => PStage ch true b fl st r
    end.
  Definition can_push (p : pipe) : Prop := length (head_ch p) < cap /\ head_closed p = false.

  Inductive step : pipe -> pipe -> Prop :=
  | st_pop x q c fl st r ys : sub ys (s_f st x) ->
      step (PStage (x :: q) c [] fl st r) (PStage q c ys fl st r)
  | st_push q c y b fl st r : can_push r ->
      step (PStage q c (y :: b) fl st r) (PStage q c b fl st (push r y))
  | st_flush st r :
      step (PStage [] true [] false st r) (PStage [] true (s_fin st) true st r)
  | st_close st r : head_closed r = false ->
      step (PStage [] true [] true st r) (PStage [] true [] true st (close r))
  | st_rest q c b fl st r r' : step r r' ->
      step (PStage q c b fl st r) (PStage q c b fl st r')
  | st_sink x q c g :
      step (PSink (x :: q) c g) (PSink q c (S g)).

  (* the client cancels / a limit is satisfied: the scan feeding the first step stops *)
  Definition cancel (p : pipe) : pipe :=
    match p with
    | PSink _ c g => PSink [] c g
    | PStage _ c b fl st r => PStage [] c b fl st r
    end.
  Inductive tstep : pipe -> pipe -> Prop :=
  | t_step p p' : step p p' -> tstep p p'
  | t_cancel p : head_ch p <> [] -> tstep p (cancel p).

  (* the result stream is closed and everything upstream has stopped *)
  Fixpoint done (p : pipe) : Prop :=
    match p with
    | PSink ch c _ => ch = [] /\ c = true
    | PStage ch c b fl _ r => ch = [] /\ c = true /\ b = [] /\ fl = true /\ done r
    end.

  (* a step closes its output only when it has finished *)
  Fixpoint wf (p : pipe) : Prop :=
    match p with
    | PSink _ _ _ => True
    | PStage ch c b fl _ r =>
        (head_closed r = true -> ch = [] /\ c = true /\ b = [] /\ fl = true) /\ wf r
    end.

  (* ---- the number of steps still to be taken, at most ---- *)
  Definition funs := list stage.
  Fixpoint shape (p : pipe) : funs := match p with PSink _ _ _ => [] | PStage _ _ _ _ st r => st :: shape r end.
  Fixpoint sum (l : list nat) : nat := match l with [] => 0 | x :: r => x + sum r end.
  (* cost of a row sitting in the channel read by the first step of [fs] *)
  Fixpoint witem (fs : funs) (x : A) : nat :=
    match fs with
    | [] => 1
    | st :: r => 1 + sum (map (fun y => 1 + witem r y) (s_f st x))
    end.
  Definition wback (fs : funs) (b : list A) : nat := sum (map (fun y => 1 + witem fs y) b).
  Definition b2n (b : bool) : nat := if b then 0 else 1.
  Fixpoint weight (p : pipe) : nat :=
    match p with
    | PSink ch c _ => length ch + b2n c
    | PStage ch c b fl st r =>
        sum (map (witem (st :: shape r)) ch) + wback (shape r) b
        + (if fl then 0 else 1 + wback (shape r) (s_fin st)) + b2n c + weight r
    end.

  (* a pipeline as Start builds it: the scan holds all rows of the store, nothing else has happened *)
  Fixpoint fresh (sts : list stage) : pipe :=
    match sts with
    | [] => PSink [] false 0
    | st :: r => PStage [] false [] false st (fresh r)
    end.
  Definition start (rows : list A) (sts : list stage) : pipe :=
    match fresh sts with
    | PSink _ _ g => PSink rows true g
    | PStage _ _ b fl st r => PStage rows true b fl st r
    end.
End Pipe.

Arguments PSink {A}. Arguments PStage {A}. Arguments step {A}. Arguments tstep {A}. Arguments done {A}. Arguments wf {A}.
Arguments weight {A}. Arguments start {A}. Arguments fresh {A}. Arguments cancel {A}. Arguments head_ch {A}. Arguments head_closed {A}.
Arguments shape {A}. Arguments witem {A}. Arguments wback {A}. Arguments push {A}. Arguments close {A}. Arguments can_push {A}.
Arguments sub {A}. Arguments s_f {A}. Arguments s_fin {A}. Arguments Build_stage {A}.

(* ---------- an executable scheduler over the same state (first enabled step, deepest stage first) ---------- *)
Section Sched.
  Variable A : Type.
  Variable cap : nat.
  (* filters are resolved by a choice function: which sublist a step really writes *)
  Variable choose : stage A -> A -> list A.
  Fixpoint sched (p : pipe A) : option (pipe A) :=
    match p with
    | PSink (x :: q) c g => Some (PSink q c (S g))
    | PSink [] _ _ => None
    | PStage ch c b fl st r =>
        match sched r with
        | Some r' => Some (PStage ch c b fl st r')
        | None =>
            match b with
            | y :: b' => if (length (head_ch r) <? cap) && negb (head_closed r) then Some (PStage ch c b' fl st (push r y)) else None
            | [] =>
                match ch with
                | x :: q => Some (PStage q c (choose st x) fl st r)
                | [] => if c then
                          if fl then (if head_closed r then None else Some (PStage ch c b fl st (close r)))
                          else Some (PStage ch c (s_fin st) true st r)
                        else None
                end
            end
        end
    end.
  Fixpoint run_sched (fuel : nat) (p : pipe A) : pipe A * nat :=
    match fuel with
    | 0 => (p, 0)
    | S f => match sched p with Some p' => let (q, n) := run_sched f p' in (q, S n) | None => (p, 0) end
    end.
  Fixpoint got (p : pipe A) : nat := match p with PSink _ _ g => g | PStage _ _ _ _ _ r => got r end.
  Fixpoint doneb (p : pipe A) : bool :=
    match p with
    | PSink ch c _ => match ch with [] => c | _ => false end
    | PStage ch c b fl _ r => match ch, b with [], [] => c && fl && doneb r | _, _ => false end
    end.
End Sched.
Arguments sched {A}. Arguments run_sched {A}. Arguments got {A}. Arguments doneb {A}.

(* ---------- the functional meaning: how many rows a pipeline delivers ---------- *)
Section Fun.
  Variable A : Type.
  Fixpoint pipe_fun (sts : list (stage A)) (rows : list A) : list A :=
    match sts with
    | [] => rows
    | st :: r => pipe_fun r (flat_map (s_f st) rows ++ s_fin st)
    end.
End Fun.
Arguments pipe_fun {A}.

(* ================= the fan-out / fan-in inside both() and bothE() =================
   engine/core/processors.go:both.Process runs two sub-steps (in-direction, out-direction), each between a
   cap-slot input channel and a cap-slot output channel. Every input traveler goes to both sub-steps; the
   output is all results of the first sub-step followed by all results of the second.
   [concurrent = false] is the design of the pinned tree: one goroutine feeds all input, closes the input
   channels and only then reads the outputs. [concurrent = true] is the repaired design: a feeder goroutine,
   the first output forwarded as it comes, the second collected into a slice until the first has ended. *)
Record fstate := {
  f_inp : list (nat * nat);     (* input travelers still to come: results each yields in sub-step 0 / 1 *)
  f_half : option nat;          (* traveler handed to sub-step 0 but not yet to sub-step 1 *)
  f_cin0 : list nat; f_cin1 : list nat;     (* input channels of the sub-steps *)
  f_b0 : nat; f_b1 : nat;       (* results the sub-step still has to write for the traveler in hand *)
  f_cout0 : nat; f_cout1 : nat; (* occupancy of the output channels *)
  f_inclosed : bool; f_c0closed : bool; f_c1closed : bool;
  f_held : nat;                 (* second-stream results collected in the slice *)
  f_emitted : nat }.

Section Fan.
  Variable cap : nat.
  Variable concurrent : bool.

  Definition fcands (s : fstate) : list (bool * fstate) :=
    let '(Build_fstate inp half cin0 cin1 b0 b1 cout0 cout1 incl c0 c1 held em) := s in
    let fed := match inp, half with [], None => true | _, _ => false end in
    let may_read := concurrent || incl in       (* the old design reads outputs only after the input has ended *)
    [ (* feeder *)
      (match inp, half with (k0, k1) :: r, None => length cin0 <? cap | _, _ => false end,
       match inp with (k0, k1) :: r => Build_fstate r (Some k1) (cin0 ++ [k0]) cin1 b0 b1 cout0 cout1 incl c0 c1 held em | [] => s end);
      (match half with Some k1 => length cin1 <? cap | None => false end,
       match half with Some k1 => Build_fstate inp None cin0 (cin1 ++ [k1]) b0 b1 cout0 cout1 incl c0 c1 held em | None => s end);
      (fed && negb incl, Build_fstate inp half cin0 cin1 b0 b1 cout0 cout1 true c0 c1 held em);
      (* sub-step 0 *)
      ((b0 =? 0) && match cin0 with _ :: _ => true | [] => false end,
       match cin0 with k :: q => Build_fstate inp half q cin1 k b1 cout0 cout1 incl c0 c1 held em | [] => s end);
      (negb (b0 =? 0) && (cout0 <? cap), Build_fstate inp half cin0 cin1 (pred b0) b1 (S cout0) cout1 incl c0 c1 held em);
      ((b0 =? 0) && match cin0 with [] => true | _ => false end && incl && negb c0,
       Build_fstate inp half cin0 cin1 b0 b1 cout0 cout1 incl true c1 held em);
      (* sub-step 1 *)
      ((b1 =? 0) && match cin1 with _ :: _ => true | [] => false end,
       match cin1 with k :: q => Build_fstate inp half cin0 q b0 k cout0 cout1 incl c0 c1 held em | [] => s end);
      (negb (b1 =? 0) && (cout1 <? cap), Build_fstate inp half cin0 cin1 b0 (pred b1) cout0 (S cout1) incl c0 c1 held em);
      ((b1 =? 0) && match cin1 with [] => true | _ => false end && incl && negb c1,
       Build_fstate inp half cin0 cin1 b0 b1 cout0 cout1 incl c0 true held em);
      (* reading the outputs *)
      (may_read && negb (cout0 =? 0), Build_fstate inp half cin0 cin1 b0 b1 (pred cout0) cout1 incl c0 c1 held (S em));
      ((if concurrent then true else incl && c0 && (cout0 =? 0)) && negb (cout1 =? 0),
       Build_fstate inp half cin0 cin1 b0 b1 cout0 (pred cout1) incl c0 c1 (S held) em);
      (c0 && (cout0 =? 0) && c1 && (cout1 =? 0) && negb (held =? 0),
       Build_fstate inp half cin0 cin1 b0 b1 cout0 cout1 incl c0 c1 (pred held) (S em)) ].
  Definition fnext (s : fstate) : list fstate := map snd (filter fst (fcands s)).

  Definition ffinal (s : fstate) : bool :=
    match f_inp s, f_half s, f_cin0 s, f_cin1 s with
    | [], None, [], [] => (f_b0 s =? 0) && (f_b1 s =? 0) && (f_cout0 s =? 0) && (f_cout1 s =? 0)
                          && f_inclosed s && f_c0closed s && f_c1closed s && (f_held s =? 0)
    | _, _, _, _ => false
    end.

  (* work left *)
  Definition fweight (s : fstate) : nat :=
    sum (map (fun p => 2 + (1 + 2 * fst p) + (1 + 3 * snd p)) (f_inp s))
    + match f_half s with Some k1 => 1 + (1 + 3 * k1) | None => 0 end
    + sum (map (fun k => 1 + 2 * k) (f_cin0 s)) + sum (map (fun k => 1 + 3 * k) (f_cin1 s))
    + 2 * f_b0 s + 3 * f_b1 s + f_cout0 s + 2 * f_cout1 s + f_held s
    + b2n (f_inclosed s) + b2n (f_c0closed s) + b2n (f_c1closed s).

  Definition fstart (inp : list (nat * nat)) : fstate :=
    Build_fstate inp None [] [] 0 0 0 0 false false false 0 0.

  (* executable exploration: follow the first enabled step *)
  Fixpoint frun (fuel : nat) (s : fstate) : fstate :=
    match fuel with 0 => s | S f => match fnext s with s' :: _ => frun f s' | [] => s end end.
End Fan.
