From Coq Require Import List Arith Bool String Lia.
Import ListNotations.
From Grip Require Import Model.Json Model.Has Model.Traversal Model.Jobs.

(* running p1 ++ p2 is running p1, then p2 from the type and travelers p1 ends with *)
Theorem run_from_app g p1 : forall ts travs p2,
  run_from g ts (p1 ++ p2) travs =
  match run_from g ts p1 travs with
  | Some (ts', out) => run_from g ts' p2 out
  | None => None
  end.
Proof.
  induction p1 as [|s r IH]; intros ts travs p2; [reflexivity|].
  cbn [app run_from]. destruct (type_step ts s) as [ts'|]; [apply IH|reflexivity].
Qed.

Corollary resume_is_concatenation g p1 p2 ty stored :
  run_from g (DNone, []) p1 [t0] = Some (ty, stored) ->
  resume g ty stored p2 = run_from g (DNone, []) (p1 ++ p2) [t0].
Proof. intros H. unfold resume. rewrite run_from_app, H. reflexivity. Qed.

Section MatchProofs.
  Variable H : Type.
  Variable heq : H -> H -> bool.
  Hypothesis heq_spec : forall a b, heq a b = true <-> a = b.

  Lemma all_match_prefix (job : list H) : forall query, all_match heq query job = true <-> exists rest, query = job ++ rest.
  Proof.
    induction job as [|j jr IH]; intros query.
    - destruct query; (split; [intros _; eexists; reflexivity|reflexivity]).
    - destruct query as [|q qr]; cbn [all_match].
      + split; [discriminate|intros [rest E]; discriminate].
      + rewrite andb_true_iff, heq_spec, IH. split.
        * intros [-> [rest ->]]. exists rest. reflexivity.
        * intros [rest E]. inversion E; subst. split; [reflexivity|exists rest; reflexivity].
  Qed.

  (* a job is found exactly when it has at least two statements and they are a prefix of the searched query *)
  Theorem job_match_spec (query job : list H) :
    job_match heq query job = true <-> 2 <= List.length job /\ exists rest, query = job ++ rest.
  Proof.
    unfold job_match. rewrite !andb_true_iff, Nat.leb_le, Nat.ltb_lt, all_match_prefix. split.
    - intros [[_ H1] H2]. split; [lia|exact H2].
    - intros [H1 [rest ->]]. split; [split; [rewrite app_length; lia|lia]|exists rest; reflexivity].
  Qed.
End MatchProofs.

(* the job table after any history: a job is listed iff it was submitted and not deleted afterwards;
   restarts change nothing *)
Lemma jstep_in t a id p : In (id, p) (jstep t a) <->
  match a with
  | ASubmit i q => In (id, p) t \/ (i = id /\ q = p)
  | ADelete i => In (id, p) t /\ i <> id
  | ARestart => In (id, p) t
  end.
Proof.
  destruct a as [i q|i|]; cbn [jstep].
  - rewrite in_app_iff. cbn. split; intros [H|H]; auto.
    + destruct H as [H|[]]. inversion H; auto.
    + destruct H as [-> ->]. auto.
  - rewrite filter_In. cbn. rewrite negb_true_iff, Nat.eqb_neq. split; intros [H1 H2]; split; auto.
  - tauto.
Qed.

Theorem restart_transparent l1 l2 : jrun (l1 ++ ARestart :: l2) = jrun (l1 ++ l2).
Proof. unfold jrun. rewrite !fold_left_app. reflexivity. Qed.
