(* C02: the start rewrite of the production planner (Model/Optimize.v) feeds the rest of the program with the
   same multiset of rows, under the same static type, as the literal program does. *)
From Coq Require Import List ZArith String Bool NArith Permutation Lia.
Import ListNotations.
From Grip Require Import Model.Json Model.Has Model.Traversal Model.Optimize Proofs.TraversalProofs Proofs.OptimizeProofs.
Local Open Scope string_scope.
Local Open Scope list_scope.

(* ---------- filters as predicates ---------- *)
Definition fpred (s : stmt) (t : trav) : bool :=
  match s with
  | SHas e => match_expr (look t) e
  | SHasLabel ls => match t_cur t with Some c => mem_str (e_label c) ls | None => false end
  | SHasId ids => match t_cur t with Some c => mem_str (e_gid c) ids | None => false end
  | _ => true
  end.
Definition ftype (s : stmt) : bool := match s with SHasLabel [] | SHasId [] => false | _ => true end.
Definition allp (fs : list stmt) (t : trav) : bool := forallb (fun s => fpred s t) fs.

Lemma filter_step g d s ts : is_filter s = true -> step g d s ts = filter (fpred s) ts.
Proof. destruct s; intros H; try discriminate H; reflexivity. Qed.

Lemma filter_type d mt s : is_filter s = true -> is_elem d = true ->
  type_step (d, mt) s = if ftype s then Some (d, mt) else None.
Proof.
  intros H Hd. destruct s; try discriminate H; cbn [type_step ftype]; rewrite Hd; try reflexivity.
  - destruct ls; reflexivity.
  - destruct ids; reflexivity.
Qed.

Lemma filter_true {X} (l : list X) : filter (fun _ => true) l = l.
Proof. induction l as [|x l IH]; simpl; [reflexivity | rewrite IH; reflexivity]. Qed.
Lemma filter_filter {X} (p q : X -> bool) l : filter q (filter p l) = filter (fun x => p x && q x) l.
Proof.
  induction l as [|x l IH]; simpl; [reflexivity |]. destruct (p x); simpl; [destruct (q x); rewrite IH; reflexivity | exact IH].
Qed.

Lemma run_filters g d mt fs : Forall (fun s => is_filter s = true) fs -> is_elem d = true -> forall post rows,
  run_from g (d, mt) (fs ++ post) rows =
  if forallb ftype fs then run_from g (d, mt) post (filter (allp fs) rows) else None.
Proof.
  intros HF Hd. induction HF as [|s fs Hs HF IH]; intros post rows.
  - cbn [app forallb]. unfold allp. cbn [forallb]. rewrite filter_true. reflexivity.
  - cbn [app run_from forallb]. rewrite (filter_type d mt s Hs Hd). destruct (ftype s); [| reflexivity].
    cbn [fst andb]. rewrite IH. destruct (forallb ftype fs); [| reflexivity].
    rewrite (filter_step g d s rows Hs), filter_filter. reflexivity.
Qed.

(* ---------- and() flattening ---------- *)
Lemma flat_match look : forall e, forallb (match_expr look) (flat e) = match_expr look e.
Proof.
  fix IH 1. intros [k op a | es | es | x |]; try (cbn [flat forallb]; rewrite andb_true_r; reflexivity).
  cbn [flat match_expr]. induction es as [|x r IHr]; [reflexivity |].
  cbn [forallb]. rewrite forallb_app, IH, IHr. reflexivity.
Qed.

Lemma flat_stmt_filters s : is_filter s = true -> Forall (fun x => is_filter x = true) (flat_stmt s).
Proof.
  intros H. destruct s; try discriminate H; cbn [flat_stmt]; try (constructor; [exact H | constructor]).
  apply Forall_forall. intros x Hx. apply in_map_iff in Hx as [e' [<- _]]. destruct e'; reflexivity.
Qed.
Lemma flat_stmts_filters fs : Forall (fun s => is_filter s = true) fs -> Forall (fun s => is_filter s = true) (flat_map flat_stmt fs).
Proof.
  induction 1 as [|s fs Hs _ IH]; cbn [flat_map]; [constructor |]. apply Forall_app. split; [apply flat_stmt_filters; exact Hs | exact IH].
Qed.
Lemma flat_stmt_type s : forallb ftype (flat_stmt s) = ftype s.
Proof.
  destruct s; cbn [flat_stmt forallb]; try (rewrite andb_true_r; reflexivity).
  induction (flat e) as [|x l IH]; [reflexivity | exact IH].
Qed.
Lemma flat_stmts_type fs : forallb ftype (flat_map flat_stmt fs) = forallb ftype fs.
Proof. induction fs as [|s fs IH]; cbn [flat_map forallb]; [reflexivity |]. rewrite forallb_app, flat_stmt_type, IH. reflexivity. Qed.
Lemma forallb_map' {X Y} (f : X -> Y) (p : Y -> bool) l : forallb p (map f l) = forallb (fun x => p (f x)) l.
Proof. induction l as [|x l IH]; simpl; [reflexivity | rewrite IH; reflexivity]. Qed.
Lemma flat_stmt_pred s t : allp (flat_stmt s) t = fpred s t.
Proof.
  unfold allp. destruct s; cbn [flat_stmt forallb]; try (rewrite andb_true_r; reflexivity).
  rewrite forallb_map'. cbn [fpred]. apply flat_match.
Qed.
Lemma flat_stmts_pred fs t : allp (flat_map flat_stmt fs) t = allp fs t.
Proof.
  unfold allp. induction fs as [|s fs IH]; cbn [flat_map forallb]; [reflexivity |].
  rewrite forallb_app, IH. f_equal. apply (flat_stmt_pred s t).
Qed.

(* ---------- decompositions ---------- *)
Lemma span_filters_spec p : forall pre post, span_filters p = (pre, post) ->
  p = pre ++ post /\ Forall (fun s => is_filter s = true) pre.
Proof.
  induction p as [|s r IH]; intros pre post H; cbn [span_filters] in H.
  - injection H as <- <-. split; [reflexivity | constructor].
  - destruct (is_filter s) eqn:Hs.
    + destruct (span_filters r) as [a b]. injection H as <- <-. destruct (IH a b eq_refl) as [-> HF].
      split; [reflexivity | constructor; assumption].
    + injection H as <- <-. split; [reflexivity | constructor].
Qed.

Lemma split_first_spec k fs : forall a s b, split_first k fs = Some (a, s, b) -> fs = a ++ s :: b /\ kind_of s = Some k.
Proof.
  induction fs as [|x r IH]; intros a s b H; cbn [split_first] in H; [discriminate H |].
  destruct (kind_of x) as [k'|] eqn:Hk.
  - destruct (fkind_eqb k k') eqn:E.
    + injection H as <- <- <-. split; [reflexivity |]. rewrite Hk. destruct k, k'; try discriminate E; reflexivity.
    + destruct (split_first k r) as [[[a' x'] b']|]; [| discriminate H]. injection H as <- <- <-.
      destruct (IH a' x' b' eq_refl) as [-> Hs]. split; [reflexivity | exact Hs].
  - destruct (split_first k r) as [[[a' x'] b']|]; [| discriminate H]. injection H as <- <- <-.
    destruct (IH a' x' b' eq_refl) as [-> Hs]. split; [reflexivity | exact Hs].
Qed.

Fixpoint strip_map (l : list stmt) : strip (map OS l) = Some l.
Proof. destruct l as [|s l]; [reflexivity |]. cbn [map strip]. rewrite strip_map. reflexivity. Qed.

Lemma run_plan_plain g l : run_plan g (map OS l) = run_from g (DNone, []) l [t0].
Proof. destruct l as [|s r]; [reflexivity |]. cbn [map run_plan]. change (OS s :: map OS r) with (map OS (s :: r)). rewrite strip_map. reflexivity. Qed.

(* ---------- string sets ---------- *)
Lemma mem_str_In x l : mem_str x l = true <-> In x l.
Proof.
  unfold mem_str. rewrite existsb_exists. split.
  - intros [y [H1 H2]]. apply String.eqb_eq in H2. subst. exact H1.
  - intros H. exists x. split; [exact H | apply String.eqb_refl].
Qed.
Lemma mem_str_ext x a b : (forall y, In y a <-> In y b) -> mem_str x a = mem_str x b.
Proof.
  intros H. destruct (mem_str x a) eqn:Ea; symmetry.
  - apply mem_str_In. apply H. apply mem_str_In. exact Ea.
  - destruct (mem_str x b) eqn:Eb; [| reflexivity]. apply mem_str_In, H, mem_str_In in Eb. rewrite Eb in Ea. discriminate Ea.
Qed.
Lemma dedup_first_In l : forall seen x, In x (dedup_first seen l) <-> In x l /\ ~ In x seen.
Proof.
  induction l as [|y l IH]; intros seen x; cbn [dedup_first].
  - split; [intros [] | intros [[] _]].
  - destruct (mem_str y seen) eqn:E.
    + rewrite IH. apply mem_str_In in E. split.
      * intros [H1 H2]. split; [right; exact H1 | exact H2].
      * intros [[-> | H1] H2]; [contradiction | split; assumption].
    + assert (~ In y seen) as Hy by (intros H; apply mem_str_In in H; rewrite H in E; discriminate E).
      cbn [In]. rewrite IH. cbn [In]. split.
      * intros [-> | [H1 H2]]; [split; [left; reflexivity | exact Hy] |]. split; [right; exact H1 | intros H; apply H2; right; exact H].
      * intros [[-> | H1] H2]; [left; reflexivity |]. destruct (string_dec y x) as [-> | Hn]; [left; reflexivity |].
        right. split; [exact H1 |]. intros [H | H]; [exact (Hn H) | exact (H2 H)].
Qed.
Lemma dedup_first_NoDup l : forall seen, NoDup (dedup_first seen l).
Proof.
  induction l as [|y l IH]; intros seen; cbn [dedup_first]; [constructor |].
  destruct (mem_str y seen); [apply IH |]. constructor; [| apply IH].
  rewrite dedup_first_In. intros [_ H]. apply H. left. reflexivity.
Qed.
Lemma dedup_first_nonempty l : l <> [] -> dedup_first [] l <> [].
Proof. destruct l as [|y l]; [intros H; contradiction |]. intros _. cbn [dedup_first mem_str existsb]. discriminate. Qed.
Lemma dedup_first_same x l : mem_str x (dedup_first [] l) = mem_str x l.
Proof. apply mem_str_ext. intros y. rewrite dedup_first_In. split; [intros [H _]; exact H | intros H; split; [exact H | intros []]]. Qed.

(* ---------- what an id / label filter decides on a row that has a current element ---------- *)
Lemma all_strs_map xs l : all_strs xs = Some l -> xs = map JStr l.
Proof.
  revert l. induction xs as [|x xs IH]; intros l H; cbn [all_strs] in H.
  - injection H as <-. reflexivity.
  - destruct x; try discriminate H. destruct (all_strs xs) as [r|]; [| discriminate H]. injection H as <-.
    cbn [map]. rewrite (IH r eq_refl). reflexivity.
Qed.

Lemma look_field_gid t c k : key_field k = Some "gid" -> t_cur t = Some c -> look t k = Some (JStr (e_gid c)).
Proof.
  unfold key_field. destruct (namespace k) eqn:Hn; [discriminate |]. destruct (json_path k) as [|f [|f2 r]] eqn:Hp; try discriminate.
  intros H Hc. injection H as ->. unfold look, lookup_raw, doc_of. rewrite Hp, Hn, Hc. reflexivity.
Qed.
Lemma look_field_label t c k : key_field k = Some "label" -> t_cur t = Some c -> look t k = Some (JStr (e_label c)).
Proof.
  unfold key_field. destruct (namespace k) eqn:Hn; [discriminate |]. destruct (json_path k) as [|f [|f2 r]] eqn:Hp; try discriminate.
  intros H Hc. injection H as ->. unfold look, lookup_raw, doc_of. rewrite Hp, Hn, Hc. reflexivity.
Qed.

Lemma cond_vals_decides v op a ids : cond_vals op a = ids -> ids <> [] ->
  match_cond (Some (JStr v)) op a = mem_str v ids.
Proof.
  intros H Hne. destruct op; cbn [cond_vals] in H; try (subst ids; contradiction).
  - destruct a; try (subst ids; contradiction). subst ids. cbn [match_cond goval jeq mem_str existsb]. rewrite orb_false_r. reflexivity.
  - destruct a; try (subst ids; contradiction). destruct (all_strs l) as [r|] eqn:E; [| subst ids; contradiction]. subst r.
    cbn [match_cond goval]. rewrite (all_strs_map l ids E). apply existsb_jstr.
Qed.

Lemma id_filter_decides s ids : kind_of s = Some FK_Id -> stmt_vals s = ids -> ids <> [] ->
  ftype s = true /\ forall t c, t_cur t = Some c -> fpred s t = mem_str (e_gid c) ids.
Proof.
  intros Hk Hv Hne. destruct s; try discriminate Hk.
  - destruct e as [k op a | | | |]; try discriminate Hk. split; [reflexivity |]. intros t c Hc.
    cbn [kind_of] in Hk. destruct (key_field k) as [f|] eqn:Ef; [| discriminate Hk].
    destruct (String.eqb f "gid") eqn:Eg; [| destruct (String.eqb f "label"); discriminate Hk].
    apply String.eqb_eq in Eg. subst f. cbn [fpred match_expr]. rewrite (look_field_gid t c k Ef Hc).
    apply cond_vals_decides; assumption.
  - cbn [stmt_vals] in Hv. subst ids0. split; [destruct ids; [contradiction | reflexivity] |].
    intros t c Hc. cbn [fpred]. rewrite Hc. reflexivity.
Qed.
Lemma label_filter_decides s ls : kind_of s = Some FK_Label -> stmt_vals s = ls -> ls <> [] ->
  ftype s = true /\ forall t c, t_cur t = Some c -> fpred s t = mem_str (e_label c) ls.
Proof.
  intros Hk Hv Hne. destruct s; try discriminate Hk.
  - destruct e as [k op a | | | |]; try discriminate Hk. split; [reflexivity |]. intros t c Hc.
    cbn [kind_of] in Hk. destruct (key_field k) as [f|] eqn:Ef; [| discriminate Hk].
    destruct (String.eqb f "gid") eqn:Eg; [discriminate Hk |]. destruct (String.eqb f "label") eqn:El; [| discriminate Hk].
    apply String.eqb_eq in El. subst f. cbn [fpred match_expr]. rewrite (look_field_label t c k Ef Hc).
    apply cond_vals_decides; assumption.
  - cbn [stmt_vals] in Hv. subst ls0. split; [destruct ls; [contradiction | reflexivity] |].
    intros t c Hc. cbn [fpred]. rewrite Hc. reflexivity.
Qed.

(* ---------- the start rows ---------- *)
Definition mk (v : vrec) : trav := add_current t0 (Some (velem v)).
Lemma mk_cur v : t_cur (mk v) = Some (velem v).  Proof. reflexivity. Qed.

Lemma scan_rows g : step g DNone (SV []) [t0] = map mk (gv g).
Proof. cbn [step flat_map]. rewrite app_nil_r. reflexivity. Qed.

Lemma filter_map_comm {X Y} (f : X -> Y) (p : Y -> bool) l : filter p (map f l) = map f (filter (fun x => p (f x)) l).
Proof. induction l as [|x l IH]; simpl; [reflexivity |]. destruct (p (f x)); simpl; rewrite IH; reflexivity. Qed.
Lemma map_flat_map_comm {X Y Z} (f : Y -> Z) (h : X -> list Y) l : map f (flat_map h l) = flat_map (fun x => map f (h x)) l.
Proof. induction l as [|x l IH]; simpl; [reflexivity |]. rewrite map_app, IH. reflexivity. Qed.

Lemma NoDup_app_disj {A} (a b : list A) : NoDup a -> NoDup b -> (forall x, In x a -> ~ In x b) -> NoDup (a ++ b).
Proof.
  induction a as [|x a IH]; simpl; intros Ha Hb Hd; [exact Hb |]. inversion Ha as [|x' a' Hx Ha']; subst.
  constructor.
  - rewrite in_app_iff. intros [H | H]; [exact (Hx H) | exact (Hd x (or_introl eq_refl) H)].
  - apply IH; [exact Ha' | exact Hb |]. intros y Hy. apply Hd. right. exact Hy.
Qed.

Definition found (g : graph) (i : string) : list vrec := match find_vertex g i with Some v => [v] | None => [] end.

Lemma find_vertex_some g i v : find_vertex g i = Some v -> In v (gv g) /\ v_id v = i.
Proof. unfold find_vertex. intros H. apply find_some in H as [H1 H2]. apply String.eqb_eq in H2. auto. Qed.
Lemma find_vertex_unique g v : NoDup (map v_id (gv g)) -> In v (gv g) -> find_vertex g (v_id v) = Some v.
Proof.
  unfold find_vertex. induction (gv g) as [|x l IH]; intros HN HI; [destruct HI |]. cbn [map] in HN. inversion HN as [|a b Hx HN']; subst.
  cbn [find]. destruct HI as [-> | HI]; [rewrite String.eqb_refl; reflexivity |].
  destruct (String.eqb (v_id v) (v_id x)) eqn:E; [| exact (IH HN' HI)].
  exfalso. apply String.eqb_eq in E. apply Hx. rewrite <- E. apply in_map. exact HI.
Qed.

Lemma id_rows_perm g ids ids' : NoDup (map v_id (gv g)) -> NoDup ids' -> (forall x, In x ids' <-> In x ids) ->
  Permutation (flat_map (found g) ids') (filter (fun v => mem_str (v_id v) ids) (gv g)).
Proof.
  intros HN HD HI. apply NoDup_Permutation.
  - clear HI. induction HD as [|i r Hi HD IH]; cbn [flat_map]; [constructor |]. apply NoDup_app_disj; [| exact IH |].
    + unfold found. destruct (find_vertex g i); constructor; [intros [] | constructor].
    + intros v Hv Hr. unfold found in Hv. destruct (find_vertex g i) as [w|] eqn:F; [| destruct Hv]. destruct Hv as [<- | []].
      apply find_vertex_some in F as [_ F]. apply in_flat_map in Hr as [j [Hj Hw]]. unfold found in Hw.
      destruct (find_vertex g j) as [w'|] eqn:F'; [| destruct Hw]. destruct Hw as [<- | []].
      apply find_vertex_some in F' as [_ F']. apply Hi. rewrite <- F, F'. exact Hj.
  - apply NoDup_filter. apply NoDup_map_inv with (f := v_id). exact HN.
  - intros v. rewrite in_flat_map, filter_In. split.
    + intros [i [Hi Hv]]. unfold found in Hv. destruct (find_vertex g i) as [w|] eqn:F; [| destruct Hv]. destruct Hv as [<- | []].
      apply find_vertex_some in F as [F1 F2]. split; [exact F1 |]. apply mem_str_In. apply HI. rewrite F2. exact Hi.
    + intros [Hv Hm]. apply mem_str_In in Hm. exists (v_id v). split; [apply HI; exact Hm |].
      unfold found. rewrite (find_vertex_unique g v HN Hv). left. reflexivity.
Qed.

Lemma id_start_rows g ids : NoDup (map v_id (gv g)) -> ids <> [] ->
  Permutation (step g DNone (SV (dedup_first [] ids)) [t0])
              (filter (fun t => match t_cur t with Some c => mem_str (e_gid c) ids | None => false end) (map mk (gv g))).
Proof.
  intros HN Hne. pose proof (dedup_first_nonempty ids Hne) as Hd.
  assert (step g DNone (SV (dedup_first [] ids)) [t0] = map mk (flat_map (found g) (dedup_first [] ids))) as ->.
  { destruct (dedup_first [] ids) as [|i r] eqn:E; [contradiction |]. cbn [step]. cbn [flat_map]. rewrite app_nil_r.
    rewrite map_app, map_flat_map_comm. f_equal; [unfold found, mk; destruct (find_vertex g i); reflexivity |].
    apply flat_map_ext. intros j. unfold found, mk. destruct (find_vertex g j); reflexivity. }
  rewrite filter_map_comm. apply Permutation_map. cbn [mk_cur t_cur mk add_current velem e_gid].
  apply id_rows_perm; [exact HN | apply dedup_first_NoDup |].
  intros x. rewrite dedup_first_In. split; [intros [H _]; exact H | intros H; split; [exact H | intros []]].
Qed.

Lemma filter_or_disjoint {X} (p q : X -> bool) l : (forall x, p x = true -> q x = true -> False) ->
  Permutation (filter (fun x => p x || q x) l) (filter p l ++ filter q l).
Proof.
  intros H. induction l as [|x l IH]; simpl; [constructor |].
  destruct (p x) eqn:P, (q x) eqn:Q; simpl.
  - exfalso. exact (H x P Q).
  - apply perm_skip. exact IH.
  - eapply Permutation_trans; [apply perm_skip; exact IH |]. apply Permutation_middle.
  - exact IH.
Qed.

Lemma label_rows_perm g ls : NoDup ls ->
  Permutation (flat_map (fun l => filter (fun v => String.eqb (v_label v) l) (gv g)) ls)
              (filter (fun v => mem_str (v_label v) ls) (gv g)).
Proof.
  induction 1 as [|l r Hl HD IH]; cbn [flat_map].
  - unfold mem_str. cbn [existsb]. induction (gv g) as [|x xs IHx]; [constructor | exact IHx].
  - eapply Permutation_trans; [apply Permutation_app_head; exact IH |].
    apply Permutation_sym. unfold mem_str at 1. cbn [existsb]. fold (mem_str).
    apply (filter_or_disjoint (fun v => String.eqb (v_label v) l) (fun v => mem_str (v_label v) r)).
    intros v P Q. apply String.eqb_eq in P. apply mem_str_In in Q. apply Hl. rewrite <- P. exact Q.
Qed.

Lemma label_start_rows g ls :
  Permutation (lookup_rows g (dedup_first [] ls))
              (filter (fun t => match t_cur t with Some c => mem_str (e_label c) ls | None => false end) (map mk (gv g))).
Proof.
  unfold lookup_rows. fold mk. rewrite <- (map_flat_map_comm mk (fun l => filter (fun v => String.eqb (v_label v) l) (gv g))).
  rewrite filter_map_comm. apply Permutation_map. cbn [t_cur mk add_current velem e_label].
  eapply Permutation_trans; [apply label_rows_perm; apply dedup_first_NoDup |].
  erewrite filter_ext; [apply Permutation_refl |]. intros v. cbn. apply dedup_first_same.
Qed.

(* ---------- the rewrite of a flattened filter run ---------- *)
Lemma allp_split a s b t : allp (a ++ s :: b) t = fpred s t && allp (a ++ b) t.
Proof. unfold allp. rewrite !forallb_app. cbn [forallb]. destruct (forallb (fun s0 => fpred s0 t) a), (fpred s t); reflexivity. Qed.
Lemma ftype_split a s b : ftype s = true -> forallb ftype (a ++ s :: b) = forallb ftype (a ++ b).
Proof. intros H. rewrite !forallb_app. cbn [forallb]. rewrite H. reflexivity. Qed.

Lemma rows_have_current g t : In t (map mk (gv g)) -> exists c, t_cur t = Some c.
Proof. intros H. apply in_map_iff in H as [v [<- _]]. eexists. reflexivity. Qed.

Definition result := option (tstate * list trav).
Definition feeds (ok : bool) (ty : tstate) (post : list stmt) (rows : list trav) (g : graph) : result :=
  if ok then run_from g ty post rows else None.

Lemma literal_start g fs post : Forall (fun s => is_filter s = true) fs ->
  run_from g (DNone, []) (SV [] :: fs ++ post) [t0] = feeds (forallb ftype fs) (DVertex, []) post (filter (allp fs) (map mk (gv g))) g.
Proof.
  intros HF. cbn [run_from type_step dtype_eqb fst]. rewrite scan_rows. unfold feeds. apply run_filters; [exact HF | reflexivity].
Qed.

Lemma filter_ext_in2 {X} (f h : X -> bool) l : (forall x, In x l -> f x = h x) -> filter f l = filter h l.
Proof. induction l as [|x r IH]; simpl; intros H; auto. rewrite (H x) by now left. rewrite IH; auto. Qed.

Lemma opt_start_equiv g fs post : NoDup (map v_id (gv g)) -> Forall (fun s => is_filter s = true) fs ->
  exists rows, Permutation rows (filter (allp fs) (map mk (gv g))) /\
    run_plan g (opt_start fs ++ map OS post) = feeds (forallb ftype fs) (DVertex, []) post rows g.
Proof.
  intros HN HF.
  assert (run_plan g (map OS (SV [] :: fs) ++ map OS post) = feeds (forallb ftype fs) (DVertex, []) post (filter (allp fs) (map mk (gv g))) g) as Hraw.
  { rewrite <- map_app, run_plan_plain. cbn [app]. apply literal_start. exact HF. }
  assert (exists rows, Permutation rows (filter (allp fs) (map mk (gv g))) /\
            run_plan g (opt_label fs ++ map OS post) = feeds (forallb ftype fs) (DVertex, []) post rows g) as Hlabel.
  { unfold opt_label. destruct (split_first FK_Label fs) as [[[a s] b]|] eqn:Sp; [| eexists; split; [apply Permutation_refl | exact Hraw]].
    destruct (stmt_vals s) as [|l0 lr] eqn:Vs; [eexists; split; [apply Permutation_refl | exact Hraw] |].
    apply split_first_spec in Sp as [-> Hk].
    destruct (label_filter_decides s (l0 :: lr) Hk Vs ltac:(discriminate)) as [Ht Hp].
    assert (Forall (fun s => is_filter s = true) (a ++ b)) as HF'.
    { apply Forall_app in HF as [Ha Hb]. inversion Hb; subst. apply Forall_app. split; assumption. }
    exists (filter (allp (a ++ b)) (lookup_rows g (dedup_first [] (l0 :: lr)))). split.
    - eapply Permutation_trans; [apply filter_perm; apply label_start_rows |]. rewrite filter_filter.
      erewrite filter_ext_in2; [apply Permutation_refl |]. intros t Ht'. rewrite allp_split.
      destruct (rows_have_current g t Ht') as [c Hc]. rewrite (Hp t c Hc), Hc. reflexivity.
    - cbn [app run_plan]. rewrite <- map_app, strip_map, ftype_split by exact Ht. unfold feeds.
      apply run_filters; [exact HF' | reflexivity]. }
  unfold opt_start. destruct (split_first FK_Id fs) as [[[a s] b]|] eqn:Sp; [| exact Hlabel].
  destruct (stmt_vals s) as [|i0 ir] eqn:Vs; [exact Hlabel |].
  apply split_first_spec in Sp as [-> Hk].
  destruct (id_filter_decides s (i0 :: ir) Hk Vs ltac:(discriminate)) as [Ht Hp].
  assert (Forall (fun s => is_filter s = true) (a ++ b)) as HF'.
  { apply Forall_app in HF as [Ha Hb]. inversion Hb; subst. apply Forall_app. split; assumption. }
  exists (filter (allp (a ++ b)) (step g DNone (SV (dedup_first [] (i0 :: ir))) [t0])). split.
  - eapply Permutation_trans; [apply filter_perm; apply id_start_rows; [exact HN | discriminate] |]. rewrite filter_filter.
    erewrite filter_ext_in2; [apply Permutation_refl |]. intros t Ht'. rewrite allp_split.
    destruct (rows_have_current g t Ht') as [c Hc]. rewrite (Hp t c Hc), Hc. reflexivity.
  - cbn [app]. rewrite <- map_app. change (OS (SV (dedup_first [] (i0 :: ir))) :: map OS ((a ++ b) ++ post)) with (map OS (SV (dedup_first [] (i0 :: ir)) :: (a ++ b) ++ post)).
    rewrite run_plan_plain. cbn [run_from type_step dtype_eqb fst]. rewrite ftype_split by exact Ht. unfold feeds.
    apply run_filters; [exact HF' | reflexivity].
Qed.

(* ---------- the whole rewrite ---------- *)
Theorem optimize_feeds_same_rows g p : NoDup (map v_id (gv g)) ->
  exists pre post ok ty rows1 rows2,
    p = pre ++ post /\ Permutation rows1 rows2 /\
    run_from g (DNone, []) p [t0] = feeds ok ty post rows1 g /\
    run_plan g (optimize p) = feeds ok ty post rows2 g.
Proof.
  intros HN.
  assert (exists pre post ok ty rows1 rows2, p = pre ++ post /\ Permutation rows1 rows2 /\
            run_from g (DNone, []) p [t0] = feeds ok ty post rows1 g /\
            run_plan g (map OS p) = feeds ok ty post rows2 g) as Hsame.
  { exists [], p, true, (DNone, []), [t0], [t0]. split; [reflexivity |]. split; [apply Permutation_refl |]. split; [reflexivity |].
    unfold feeds. apply run_plan_plain. }
  destruct p as [|s rest]; [exact Hsame |]. destruct s; try exact Hsame. destruct ids as [|i r]; [| exact Hsame].
  cbn [optimize]. destruct (span_filters rest) as [pre post] eqn:Sp. apply span_filters_spec in Sp as [-> HF].
  pose proof (flat_stmts_filters pre HF) as HF2.
  destruct (opt_start_equiv g (flat_map flat_stmt pre) post HN HF2) as [rows [HP HR]].
  exists (SV [] :: pre), post, (forallb ftype pre), (DVertex, []), (filter (allp pre) (map mk (gv g))), rows.
  split; [reflexivity |]. split; [| split].
  - apply Permutation_sym. erewrite filter_ext; [exact HP |]. intros t. symmetry. apply flat_stmts_pred.
  - apply literal_start. exact HF.
  - rewrite HR, flat_stmts_type. reflexivity.
Qed.

Definition same_answers (a b : result) : Prop :=
  match a, b with
  | Some (t1, o1), Some (t2, o2) => t1 = t2 /\ Permutation o1 o2
  | None, None => True
  | _, _ => False
  end.

(* a program without windows and distinct: the plan returns the same multiset of rows, or both are rejected *)
Theorem optimize_equiv g p : NoDup (map v_id (gv g)) -> forallb order_free p = true ->
  same_answers (run_from g (DNone, []) p [t0]) (run_plan g (optimize p)).
Proof.
  intros HN Ho. destruct (optimize_feeds_same_rows g p HN) as [pre [post [ok [ty [r1 [r2 [-> [HP [-> ->]]]]]]]]].
  rewrite forallb_app in Ho. apply andb_true_iff in Ho as [_ Ho]. unfold feeds, same_answers. destruct ok; [| exact I].
  exact (run_perm g post Ho ty r1 r2 HP).
Qed.
