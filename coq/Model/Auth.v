(* The authentication / authorization interceptors (accounts/util.go) as decision functions over the
   generated tables (Gen/AuthTables.v), for arbitrary credential validators and policies. *)
From Coq Require Import List String Ascii Bool.
Import ListNotations.
From Grip Require Import Model.AuthTypes Gen.AuthTables.
Local Open Scope string_scope.

Definition op_eqb (a b : op) : bool :=
  match a, b with OpQuery, OpQuery | OpWrite, OpWrite | OpRead, OpRead | OpExec, OpExec | OpAdmin, OpAdmin
  | OpQueryRepeat, OpQueryRepeat => true | _, _ => false end.
Fixpoint lookup {V} (k : string) (l : list (string * V)) : option V :=
  match l with [] => None | (k', v) :: r => if String.eqb k k' then Some v else lookup k r end.

Inductive verdict :=
| Unauthenticated            (* credentials do not validate *)
| Denied                     (* policy refuses (user, graph, op) *)
| Refused                    (* unknown method / graph not extractable *)
| RunsHandler                (* the wrapped handler is invoked *)
| RunsHandlerFiltered.       (* BulkAdd: handler invoked on the per-element filtered stream *)

Section Interceptors.
  Variable user metadata : Type.
  Variable validate : metadata -> option user.              (* Authenticate.Validate *)
  Variable grants : user -> string -> op -> bool.            (* Access.Enforce = nil *)

  Definition graph_of (g : gsrc) (req_graph : string) : option string :=
    match g with GRequest => Some req_graph | GStar => Some "*" | GUnknown => None end.
  Definition op_of (o : osrc) (m : string) : option op :=
    match o with OFromMap => lookup m method_map | OLit x => Some x | OUnknown => None end.

  Definition unary_intercept (m : string) (md : metadata) (req_graph : string) : verdict :=
    match validate md with
    | None => Unauthenticated
    | Some u =>
        match lookup m method_map with
        | None => Refused
        | Some o =>
            match lookup m unary_graph with
            | None => Refused
            | Some gs => match graph_of gs req_graph with
                         | None => Refused
                         | Some g => if grants u g o then RunsHandler else Denied
                         end
            end
        end
    end.

  Definition default_verdict (d : sdefault) : verdict := match d with DRunsHandler => RunsHandler | _ => Refused end.

  Definition stream_intercept (m : string) (k : mkind) (md : metadata) (req_graph : string) : verdict :=
    match validate md with
    | None => Unauthenticated
    | Some u =>
        match k with
        | ServerStream =>
            match lookup m stream_cases with
            | None => default_verdict server_stream_default
            | Some c =>
                if sc_enforced c then
                  match graph_of (sc_graph c) req_graph, op_of (sc_op c) m with
                  | Some g, Some o => if grants u g o then RunsHandler else Denied
                  | _, _ => RunsHandler          (* an Enforce call we cannot read: treated as not enforcing *)
                  end
                else RunsHandler
            end
        | ClientStream =>
            if String.eqb m "/gripql.Edit/BulkAdd" then (if bulk_add_filtered then RunsHandlerFiltered else RunsHandler)
            else default_verdict client_stream_default
        | _ => Refused
        end
    end.

  Definition serve (m : string) (k : mkind) (md : metadata) (req_graph : string) : verdict :=
    match k with Unary => unary_intercept m md req_graph | _ => stream_intercept m k md req_graph end.

  (* BulkWriteFilter.RecvMsg: what the handler receives from a stream of (graph, element) *)
  Definition bulk_filter {E} (u : user) (stream : list (string * E)) : list (string * E) :=
    if bulk_filter_enforces then filter (fun x => grants u (fst x) OpWrite) stream else stream.
End Interceptors.

(* ---------- the per-method table facts, decided by computation on the generated tables ---------- *)
Definition expected_graph (m : string) : option gsrc := lookup m unary_graph.

Definition method_ok (mk : string * mkind) : bool :=
  let '(m, k) := mk in
  match lookup m method_map with
  | None => false
  | Some o =>
      match k with
      | Unary => match lookup m unary_graph with Some GRequest | Some GStar => true | _ => false end
      | ServerStream =>
          match lookup m stream_cases with
          | Some c => sc_enforced c
                      && match sc_graph c with GRequest | GStar => true | GUnknown => false end
                      && match sc_op c with OFromMap => true | OLit x => op_eqb x o | OUnknown => false end
                      (* the stream case and the unary table name the same graph source *)
                      && match lookup m unary_graph, sc_graph c with
                         | Some GStar, GStar | Some GRequest, GRequest | None, _ => true | _, _ => false end
          | None => false
          end
      | ClientStream => String.eqb m "/gripql.Edit/BulkAdd" && bulk_add_filtered && bulk_filter_enforces
      | BidiStream => false
      end
  end.

Definition tables_ok : bool :=
  forallb method_ok exposed && unary_shape_ok && stream_validates_first
  && match server_stream_default with DRefuses => true | _ => false end
  && match client_stream_default with DRefuses => true | _ => false end
  && forallb snd gateway_clients && grpc_server_chained
  && match unrecognised with [] => true | _ => false end.

(* ---------- operation classes by what a method does ---------- *)
(* the name of a method says what it does to a graph: Add*/Delete*/Bulk* change stored data and need the write class,
   Get*/List*/Search*/View* only read and need the read class; everything of the Configure service is administration *)
Fixpoint after_last_slash (s acc : string) : string :=
  match s with
  | EmptyString => acc
  | String c r => if Ascii.eqb c "/"%char then after_last_slash r r else after_last_slash r acc
  end.
Definition verb_of (m : string) : string := after_last_slash m m.
Definition class_rule (mo : string * op) : bool :=
  let v := verb_of (fst mo) in
  if prefix "/gripql.Configure/" (fst mo) then op_eqb (snd mo) OpAdmin
  else if prefix "Add" v || prefix "Delete" v || prefix "Bulk" v then op_eqb (snd mo) OpWrite
  else if prefix "Get" v || prefix "List" v || prefix "Search" v || prefix "View" v then op_eqb (snd mo) OpRead
  else true.
Definition classes_ok : bool := forallb class_rule method_map.

(* ---------- accounts/basic.go BasicAuth.Validate ---------- *)
(* hdr = the (user, password) pair a well-formed "Basic ..." authorization header decodes to; None = no header,
   or one that does not decode. Only a configured account presented with its own password validates. *)
Definition basic_validate (accounts : list (string * string)) (hdr : option (string * string)) : option string :=
  match hdr with
  | Some (u, p) => if existsb (fun c => String.eqb (fst c) u && String.eqb (snd c) p) accounts then Some u else None
  | None => None
  end.

(* ---------- accounts/casbin.go with the matcher of the repository's model file ----------
   m = r.sub == p.sub && (r.obj == p.obj || p.obj == "*") && (r.act == p.act || p.act == "*") || r.sub == "root"
   A policy is a list of (user, graph, operation) lines.  The verdict is a function of the policy and the request alone:
   a sequence of calls on one enforcer is judged call by call. *)
Definition casbin_line_ok (req line : string * string * string) : bool :=
  let '(ru, rg, ro) := req in let '(pu, pg, po) := line in
  String.eqb ru pu && (String.eqb rg pg || String.eqb pg "*") && (String.eqb ro po || String.eqb po "*").
Definition casbin_allows (policy : list (string * string * string)) (req : string * string * string) : bool :=
  existsb (casbin_line_ok req) policy || String.eqb (fst (fst req)) "root".
