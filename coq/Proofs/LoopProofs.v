From Coq Require Import List Arith Bool Permutation Lia.
Import ListNotations.
From Grip Require Import Model.Loop.

Section LP.
  Variable T : Type.
  Variable body : T -> list T.
  Variable cond : T -> bool.
  Variable emit : bool.
  Variable rank : T -> nat.
  Hypothesis Hrank : forall x y, In y (body x) -> cond y = true -> rank y < rank x.

  Notation msg := (msg T).
  Notation lst := (lst T).
  Notation step := (lstep body cond emit).
  Notation F := (F body cond emit rank).
  Notation HH := (Loop.H body cond rank).
  Notation requeue := (requeue cond).
  Notation emitted := (emitted emit).

  (* ---------- the iterative definition does not depend on the fuel ---------- *)
  Lemma flat_map_ext_in' {A B} (f g : A -> list B) l : (forall y, In y l -> f y = g y) -> flat_map f l = flat_map g l.
  Proof. induction l as [|x r IH]; intros E; [reflexivity|]. cbn. rewrite (E x (or_introl eq_refl)), IH; [reflexivity|]. intros y Hy; apply E; right; exact Hy. Qed.

  Lemma fut_stable n : forall m t, rank t < n -> rank t < m -> fut body cond emit n t = fut body cond emit m t.
  Proof.
    induction n as [|n IH]; intros m t Hn Hm; [lia|]. destruct m as [|m]; [lia|]. cbn [fut]. f_equal.
    apply flat_map_ext_in'. intros y Hy. apply filter_In in Hy as [Hy Hc]. pose proof (Hrank t y Hy Hc) as Hlt. apply IH; lia.
  Qed.
  Lemma F_unfold t : F t = emitted (body t) ++ flat_map F (filter cond (body t)).
  Proof.
    unfold Loop.F at 1. cbn [fut]. f_equal. apply flat_map_ext_in'. intros y Hy. apply filter_In in Hy as [Hy Hc].
    pose proof (Hrank t y Hy Hc) as Hlt. unfold Loop.F. apply fut_stable; lia.
  Qed.

  Lemma fold_ext_in (f g : T -> nat) l : (forall y, In y l -> f y = g y) ->
    fold_right (fun y acc => f y + acc) 0 l = fold_right (fun y acc => g y + acc) 0 l.
  Proof. induction l as [|x r IH]; intros E; [reflexivity|]. cbn. rewrite (E x (or_introl eq_refl)), IH; [reflexivity|]. intros y Hy; apply E; right; exact Hy. Qed.
  Lemma hops_stable n : forall m t, rank t < n -> rank t < m -> hops body cond n t = hops body cond m t.
  Proof.
    induction n as [|n IH]; intros m t Hn Hm; [lia|]. destruct m as [|m]; [lia|]. cbn [hops]. f_equal.
    apply fold_ext_in. intros y Hy. apply filter_In in Hy as [Hy Hc]. pose proof (Hrank t y Hy Hc) as Hlt. apply IH; lia.
  Qed.
  Definition sumH (l : list T) : nat := fold_right (fun y acc => HH y + acc) 0 l.
  Lemma H_unfold t : HH t = 2 + sumH (filter cond (body t)).
  Proof.
    unfold Loop.H at 1. unfold sumH. cbn [hops]. f_equal. apply fold_ext_in. intros y Hy. apply filter_In in Hy as [Hy Hc].
    pose proof (Hrank t y Hy Hc) as Hlt. unfold Loop.H. apply hops_stable; lia.
  Qed.
  Lemma sumH_app a b : sumH (a ++ b) = sumH a + sumH b.
  Proof. unfold sumH. induction a as [|x r IH]; cbn [app fold_right]; [reflexivity|rewrite IH; lia]. Qed.

  (* ---------- small facts about message lists ---------- *)
  Lemma nsig_app (a b : list msg) : nsig (a ++ b) = nsig a + nsig b.
  Proof. unfold nsig. rewrite filter_app, app_length. reflexivity. Qed.
  Lemma nsig_requeue ys : nsig (requeue ys) = 0.
  Proof. unfold Loop.requeue, nsig. induction (filter cond ys); [reflexivity|exact IHl]. Qed.
  Lemma travs_app (a b : list msg) : travs (a ++ b) = travs a ++ travs b.
  Proof. unfold travs. apply flat_map_app. Qed.
  Lemma travs_requeue ys : travs (requeue ys) = filter cond ys.
  Proof. unfold Loop.requeue, travs. induction (filter cond ys) as [|x r IH]; [reflexivity|]. cbn. f_equal. exact IH. Qed.
  Lemma nsig_zero_no_sig (l : list msg) : nsig l = 0 -> forall pre, l <> pre ++ [MSig].
  Proof. intros Hn pre E. subst l. rewrite nsig_app in Hn. cbn in Hn. lia. Qed.
  Lemma app_eq_last_sig (l1 l2 pre : list msg) :
    l1 ++ MSig :: l2 = pre ++ [MSig] -> nsig l2 = 0 -> l2 = [].
  Proof.
    intros E Hn. destruct l2 as [|x r] using rev_ind; [reflexivity|]. exfalso.
    replace (l1 ++ MSig :: r ++ [x]) with ((l1 ++ MSig :: r) ++ [x]) in E by (rewrite <- app_assoc; reflexivity).
    apply app_inj_tail in E as [_ E]. subst x. rewrite nsig_app in Hn. cbn in Hn. lia.
  Qed.

  (* ---------- the invariant ---------- *)
  Definition Inv (input : list T) (s : lst) : Prop :=
    nsig (l_chA s) + nsig (l_Q s) = (if l_active s && negb (l_rc s) then 1 else 0)
    /\ (l_phase s = P1 -> l_active s = false)
    /\ (l_active s = false -> l_outdated s = false /\ l_rc s = false)
    /\ (l_phase s <> P1 -> l_inp s = [])
    /\ (l_active s = true -> l_outdated s = false -> l_rc s = false -> exists pre, l_Q s ++ l_chA s = pre ++ [MSig])
    /\ (l_active s = true -> l_outdated s = false -> l_rc s = true -> l_Q s = [] /\ l_chA s = [])
    /\ (l_phase s = PClosed -> l_Q s = [] /\ l_chA s = [] /\ l_active s = true /\ l_outdated s = false /\ l_rc s = true)
    /\ Permutation (l_out s ++ flat_map F (l_inp s ++ travs (l_Q s) ++ travs (l_chA s))) (flat_map F input).

  Lemma inv_start input : Inv input (lstart input).
  Proof.
    unfold Inv, lstart; cbn. repeat split; try discriminate; try congruence.
    rewrite app_nil_r. apply Permutation_refl.
  Qed.

  Lemma perm_move (a i q x : list T) t :
    Permutation (a ++ flat_map F ((t :: i) ++ q ++ x)) (a ++ flat_map F (i ++ q ++ x ++ [t])).
  Proof.
    apply Permutation_app_head, Permutation_flat_map. cbn [app].
    replace (i ++ q ++ x ++ [t]) with ((i ++ q ++ x) ++ [t]) by (rewrite <- !app_assoc; reflexivity).
    apply Permutation_cons_append.
  Qed.
  Lemma perm_recv (a i q x : list T) t :
    Permutation (a ++ flat_map F (i ++ (t :: q) ++ x)) (a ++ flat_map F (i ++ q ++ x ++ [t])).
  Proof.
    apply Permutation_app_head, Permutation_flat_map.
    replace (i ++ q ++ x ++ [t]) with (i ++ (q ++ x) ++ [t]) by (rewrite <- !app_assoc; reflexivity).
    apply Permutation_app_head. cbn [app]. apply Permutation_cons_append.
  Qed.
  Lemma perm_jump (a i q x : list T) t :
    Permutation ((a ++ emitted (body t)) ++ flat_map F (i ++ (q ++ filter cond (body t)) ++ x))
                (a ++ flat_map F (i ++ q ++ t :: x)).
  Proof.
    rewrite !flat_map_app. cbn [flat_map]. rewrite (F_unfold t). rewrite <- !app_assoc.
    apply Permutation_app_head.
    set (E := emitted (body t)). set (R := flat_map F (filter cond (body t))).
    set (FI := flat_map F i). set (FQ := flat_map F q). set (FX := flat_map F x).
    (* E ++ FI ++ FQ ++ R ++ FX  ~  FI ++ FQ ++ E ++ R ++ FX *)
    transitivity ((FI ++ FQ) ++ E ++ R ++ FX).
    - rewrite (app_assoc FI FQ). apply Permutation_app_swap_app.
    - rewrite <- app_assoc. apply Permutation_refl.
  Qed.

  Ltac split8 := refine (conj _ (conj _ (conj _ (conj _ (conj _ (conj _ (conj _ _))))))).

  Lemma inv_step input s s' : Inv input s -> step s s' -> Inv input s'.
  Proof.
    intros (I1 & I2 & I3 & I4 & I5 & I6 & I7 & I8) St.
    destruct St as [t r ph chA Q a o rc out Hph | chA Q a o rc out | inp ph t q chA a o rc out Hph | inp q chA a o rc out
                   | inp chA Q a o rc out Hs | inp chA Q out | inp ph t r Q a o rc out | inp ph r Q a o rc out];
      cbn [l_inp l_phase l_chA l_Q l_active l_outdated l_rc l_out] in *; unfold Inv;
      cbn [l_inp l_phase l_chA l_Q l_active l_outdated l_rc l_out].
    - (* M_in *) subst ph. specialize (I2 eq_refl). subst a. destruct (I3 eq_refl) as [-> ->]. split8.
      + rewrite nsig_app. cbn. cbn in I1. lia.
      + reflexivity.
      + auto.
      + congruence.
      + discriminate.
      + discriminate.
      + discriminate.
      + rewrite travs_app. cbn [travs flat_map app]. eapply Permutation_trans; [|exact I8]. apply Permutation_sym, perm_move.
    - (* M_inclose *) specialize (I2 eq_refl). subst a. destruct (I3 eq_refl) as [-> ->]. split8.
      + exact I1.
      + reflexivity.
      + auto.
      + reflexivity.
      + discriminate.
      + discriminate.
      + discriminate.
      + exact I8.
    - (* M_recvT *)
      assert (I8' : Permutation (out ++ flat_map F (inp ++ travs q ++ travs (chA ++ [MT t]))) (flat_map F input)).
      { rewrite travs_app. cbn [travs flat_map app]. eapply Permutation_trans; [|exact I8]. apply Permutation_sym. cbn [travs flat_map]. apply perm_recv. }
      assert (I1' : nsig (chA ++ [MT t]) + nsig q = (if a && negb rc then 1 else 0)).
      { rewrite nsig_app. unfold nsig in *. cbn in *. lia. }
      destruct ph; [| |congruence].
      + specialize (I2 eq_refl). subst a. destruct (I3 eq_refl) as [-> ->]. split8; auto; discriminate.
      + split8.
        * exact I1'.
        * discriminate.
        * intros ->. destruct (I3 eq_refl) as [-> ->]. split; reflexivity.
        * exact I4.
        * intros Ha Ho. subst a. rewrite orb_true_r in Ho. discriminate.
        * intros Ha Ho. subst a. rewrite orb_true_r in Ho. discriminate.
        * discriminate.
        * exact I8'.
    - (* M_recvS *)
      assert (Hact : a = true /\ rc = false).
      { destruct a, rc; cbn in I1; try (split; reflexivity); unfold nsig in I1; cbn in I1; lia. }
      destruct Hact as [-> ->]. cbn in I1.
      assert (Hq : nsig q = 0 /\ nsig chA = 0) by (unfold nsig in *; cbn in I1; lia). destruct Hq as [Hq Hc].
      assert (Hempty : o = false -> q = [] /\ chA = []).
      { intros ->. destruct (I5 eq_refl eq_refl eq_refl) as [pre E]. cbn [app] in E.
        assert (E0 : q ++ chA = []).
        { apply (app_eq_last_sig [] (q ++ chA) pre); [exact E|rewrite nsig_app; lia]. }
        apply app_eq_nil in E0. exact E0. }
      split8.
      + cbn. lia.
      + discriminate.
      + discriminate.
      + exact I4.
      + discriminate.
      + intros _ Ho _. apply Hempty, Ho.
      + discriminate.
      + exact I8.
    - (* M_send *)
      assert (Hn : nsig chA + nsig Q = 0).
      { destruct Hs as [[-> ->]|[-> ->]]; [cbn in I1; exact I1|]. destruct a; cbn in I1; exact I1. }
      split8.
      + rewrite nsig_app. cbn. lia.
      + discriminate.
      + discriminate.
      + exact I4.
      + intros _ _ _. exists (Q ++ chA). rewrite app_assoc. reflexivity.
      + discriminate.
      + discriminate.
      + rewrite travs_app. cbn [travs flat_map]. rewrite app_nil_r. exact I8.
    - (* M_close *)
      destruct (I6 eq_refl eq_refl eq_refl) as [-> ->]. split8.
      + exact I1.
      + discriminate.
      + discriminate.
      + intros _. apply I4. discriminate.
      + discriminate.
      + auto.
      + auto.
      + exact I8.
    - (* J_T *)
      assert (Hnc : ph <> PClosed) by (intros Hp; destruct (I7 Hp) as (_ & E & _); discriminate).
      split8.
      + rewrite nsig_app, nsig_requeue. unfold nsig in *. cbn in I1. lia.
      + exact I2.
      + exact I3.
      + exact I4.
      + intros Ha Ho Hr. destruct (I5 Ha Ho Hr) as [pre E].
        destruct r as [|x r' _] using rev_ind.
        * exfalso. apply app_inj_tail in E as [_ E]. discriminate.
        * replace (Q ++ MT t :: r' ++ [x]) with ((Q ++ MT t :: r') ++ [x]) in E by (rewrite <- app_assoc; reflexivity).
          apply app_inj_tail in E as [_ E]. subst x. exists ((Q ++ requeue (body t)) ++ r'). rewrite <- !app_assoc. reflexivity.
      + intros Ha Ho Hr. destruct (I6 Ha Ho Hr) as [_ E]. discriminate.
      + intros Hp. contradiction.
      + rewrite travs_app, travs_requeue. cbn [travs flat_map app] in I8. eapply Permutation_trans; [|exact I8]. apply perm_jump.
    - (* J_S *)
      assert (Hnc : ph <> PClosed) by (intros Hp; destruct (I7 Hp) as (_ & E & _); discriminate).
      split8.
      + rewrite nsig_app. unfold nsig in *. cbn in *. lia.
      + exact I2.
      + exact I3.
      + exact I4.
      + intros Ha Ho Hr. destruct (I5 Ha Ho Hr) as [pre E].
        assert (Hr0 : nsig r = 0) by (subst a rc; cbn in I1; unfold nsig in *; cbn in I1; lia).
        apply app_eq_last_sig in E; [|exact Hr0]. subst r. exists Q. rewrite app_nil_r. reflexivity.
      + intros Ha Ho Hr. destruct (I6 Ha Ho Hr) as [_ E]. discriminate.
      + intros Hp. contradiction.
      + rewrite travs_app. cbn [travs flat_map app] in *. rewrite app_nil_r. exact I8.
  Qed.

  Lemma inv_reach input s : lreach body cond emit input s -> Inv input s.
  Proof. induction 1; [apply inv_start|eapply inv_step; eauto]. Qed.

  (* ---------- exactness: when the mark closes its output nothing is left in the loop and the rows emitted
     downstream are exactly those of the iterative definition ---------- *)
  Theorem loop_exact input s : lreach body cond emit input s -> l_phase s = PClosed ->
    l_Q s = [] /\ l_chA s = [] /\ l_inp s = [] /\ Permutation (l_out s) (loop_spec body cond emit rank input).
  Proof.
    intros R Hc. destruct (inv_reach _ _ R) as (_ & _ & _ & I4 & _ & _ & I7 & I8).
    destruct (I7 Hc) as (EQ & EA & _). assert (EI : l_inp s = []) by (apply I4; congruence).
    repeat split; try assumption. rewrite EQ, EA, EI in I8. cbn in I8. rewrite app_nil_r in I8. exact I8.
  Qed.

  (* ---------- no deadlock ---------- *)
  Theorem loop_progress input s : lreach body cond emit input s -> l_phase s <> PClosed -> exists s', step s s'.
  Proof.
    intros R Hn. destruct (inv_reach _ _ R) as (I1 & I2 & I3 & I4 & I5 & I6 & I7 & I8).
    destruct s as [inp ph chA Q a o rc out]. cbn [l_inp l_phase l_chA l_Q l_active l_outdated l_rc l_out] in *.
    destruct ph; [| |congruence].
    - destruct inp as [|t r]; eexists; [apply M_inclose|apply M_in; reflexivity].
    - destruct chA as [|[t|] r]; [|eexists; apply J_T|eexists; apply J_S].
      destruct Q as [|[t|] q]; [|eexists; apply M_recvT; discriminate|eexists; apply M_recvS].
      destruct a.
      + destruct o.
        * destruct rc; [eexists; apply M_send; right; auto|]. cbn in I1. discriminate.
        * destruct rc; [eexists; apply M_close|]. cbn in I1. discriminate.
      + destruct (I3 eq_refl) as [-> ->]. eexists; apply M_send; left; auto.
  Qed.

  (* ---------- every step uses up work: no schedule is longer than the measure of the start state ---------- *)
  Definition sigpos (chA Q : list msg) : nat := if has_sig chA then 2 else if has_sig Q then 1 else 0.
  Definition ctl (s : lst) : nat :=
    match l_phase s with
    | P1 => 5
    | PClosed => 0
    | P2 => if l_active s
            then (if l_outdated s then 4 else 1) + (if l_rc s then 0 else sigpos (l_chA s) (l_Q s))
            else 4
    end.
  Definition sumH1 (l : list T) : nat := fold_right (fun y acc => (HH y - 1) + acc) 0 l.
  Definition work (s : lst) : nat := sumH (l_inp s) + sumH (travs (l_Q s)) + sumH1 (travs (l_chA s)).
  Definition measure (s : lst) : nat := 4 * work s + ctl s.

  Lemma travs_cons_T t (q : list msg) : travs (MT t :: q) = t :: travs q. Proof. reflexivity. Qed.
  Lemma travs_cons_S (q : list msg) : travs (MSig :: q) = travs q. Proof. reflexivity. Qed.
  Lemma travs_nil : travs (@nil msg) = []. Proof. reflexivity. Qed.
  Lemma has_sig_cons_T t (q : list msg) : has_sig (MT t :: q) = has_sig q. Proof. reflexivity. Qed.
  Lemma sumH_cons t l : sumH (t :: l) = HH t + sumH l. Proof. reflexivity. Qed.
  Lemma sumH1_cons t l : sumH1 (t :: l) = (HH t - 1) + sumH1 l. Proof. reflexivity. Qed.
  Lemma sumH1_nil : sumH1 [] = 0. Proof. reflexivity. Qed.
  Lemma sumH_nil : sumH [] = 0. Proof. reflexivity. Qed.
  Lemma H_ge2 t : 2 <= HH t. Proof. rewrite H_unfold. lia. Qed.
  Lemma sumH1_app a b : sumH1 (a ++ b) = sumH1 a + sumH1 b.
  Proof. unfold sumH1. induction a as [|x r IH]; cbn [app fold_right]; [reflexivity|rewrite IH; lia]. Qed.
  Lemma has_sig_app (a b : list msg) : has_sig (a ++ b) = has_sig a || has_sig b.
  Proof. unfold has_sig. apply existsb_app. Qed.
  Lemma has_sig_nsig (l : list msg) : has_sig l = false <-> nsig l = 0.
  Proof. unfold has_sig, nsig. induction l as [|[t|] r IH]; cbn; [tauto|exact IH|split; [discriminate|lia]]. Qed.
  Lemma has_sig_requeue ys : has_sig (requeue ys) = false.
  Proof. apply has_sig_nsig, nsig_requeue. Qed.

  Theorem loop_measure input s s' : lreach body cond emit input s -> step s s' -> measure s' < measure s.
  Proof.
    intros R St. destruct (inv_reach _ _ R) as (I1 & I2 & I3 & I4 & I5 & I6 & I7 & I8).
    destruct St as [t r ph chA Q a o rc out Hph | chA Q a o rc out | inp ph t q chA a o rc out Hph | inp q chA a o rc out
                   | inp chA Q a o rc out Hs | inp chA Q out | inp ph t r Q a o rc out | inp ph r Q a o rc out];
      cbn [l_inp l_phase l_chA l_Q l_active l_outdated l_rc l_out] in *;
      unfold measure, work, ctl; cbn [l_inp l_phase l_chA l_Q l_active l_outdated l_rc l_out].
    - subst ph. rewrite travs_app, sumH1_app. rewrite ?travs_cons_T, ?travs_cons_S, ?travs_nil; cbn [app]; rewrite ?sumH_cons, ?sumH1_cons, ?sumH1_nil, ?sumH_nil. pose proof (H_ge2 t). lia.
    - specialize (I2 eq_refl). subst a. lia.
    - rewrite travs_app, sumH1_app. rewrite ?travs_cons_T, ?travs_cons_S, ?travs_nil; cbn [app]; rewrite ?sumH_cons, ?sumH1_cons, ?sumH1_nil, ?sumH_nil. pose proof (H_ge2 t).
      destruct ph; [lia| |congruence].
      destruct a; [|destruct (I3 eq_refl) as [-> _]; cbn; lia].
      rewrite orb_true_r. unfold sigpos. rewrite has_sig_app, !has_sig_cons_T. change (has_sig [@MT T t]) with false. rewrite orb_false_r.
      destruct o, rc; destruct (has_sig chA), (has_sig q); lia.
    - assert (Hact : a = true /\ rc = false).
      { destruct a, rc; cbn in I1; try (split; reflexivity); unfold nsig in I1; cbn in I1; lia. }
      destruct Hact as [-> ->]. cbn in I1.
      assert (Hc : has_sig chA = false) by (apply has_sig_nsig; unfold nsig in *; cbn in I1; lia).
      unfold sigpos. rewrite Hc. cbn [has_sig existsb orb]. rewrite ?travs_cons_S. destruct o; lia.
    - assert (Hn : nsig chA + nsig Q = 0).
      { destruct Hs as [[-> ->]|[-> ->]]; [cbn in I1; exact I1|]. destruct a; cbn in I1; exact I1. }
      rewrite travs_app, sumH1_app. rewrite ?travs_cons_T, ?travs_cons_S, ?travs_nil; rewrite ?sumH1_nil. unfold sigpos. rewrite has_sig_app. cbn [has_sig existsb orb].
      rewrite orb_true_r. destruct Hs as [[-> ->]|[-> ->]]; [lia|]. destruct a; [lia|]. destruct (I3 eq_refl) as [E _]. discriminate.
    - lia.
    - rewrite travs_app, travs_requeue, sumH_app. rewrite ?travs_cons_T, ?travs_cons_S, ?travs_nil; cbn [app]; rewrite ?sumH_cons, ?sumH1_cons, ?sumH1_nil, ?sumH_nil. rewrite (H_unfold t).
      assert (Hsp : sigpos r (Q ++ requeue (body t)) = sigpos (MT t :: r) Q).
      { unfold sigpos. rewrite has_sig_app, has_sig_requeue, orb_false_r. reflexivity. }
      destruct ph; [lia| |lia]. rewrite Hsp. lia.
    - rewrite travs_app. rewrite ?travs_cons_T, ?travs_cons_S, ?travs_nil. rewrite app_nil_r.
      assert (Hr0 : has_sig r = false /\ has_sig Q = false /\ a = true /\ rc = false).
      { destruct a, rc; cbn in I1; unfold nsig in I1; cbn in I1; try lia.
        repeat split; apply has_sig_nsig; unfold nsig; lia. }
      destruct Hr0 as (Hr0 & HQ & -> & ->).
      unfold sigpos. rewrite has_sig_app, Hr0. cbn [has_sig existsb orb]. rewrite orb_true_r.
      destruct ph; [specialize (I2 eq_refl); discriminate| |destruct (I7 eq_refl) as (_ & E & _); discriminate].
      destruct o; lia.
  Qed.

  Inductive lrun_n (input : list T) : nat -> lst -> Prop :=
  | ln_0 : lrun_n input 0 (lstart input)
  | ln_S n s s' : lrun_n input n s -> step s s' -> lrun_n input (S n) s'.
  Lemma lrun_n_reach input n s : lrun_n input n s -> lreach body cond emit input s.
  Proof. induction 1; [constructor|econstructor; eauto]. Qed.
  Theorem loop_bounded input n s : lrun_n input n s -> n + measure s <= measure (lstart input).
  Proof.
    induction 1 as [|n s s' R IH St]; [lia|]. apply lrun_n_reach in R. pose proof (loop_measure _ _ _ R St). lia.
  Qed.
End LP.
