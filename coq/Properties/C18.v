(* C18  Bulk loading equals loading the same elements one by one. *)
From Coq Require Import List NArith Arith Bool String.
Import ListNotations.
From Grip Require Import Model.Bulk Proofs.BulkProofs.
Local Open Scope string_scope.
Local Open Scope list_scope.

(* for EVERY set of existing graphs and EVERY element stream (any length, any interleaving of target graphs,
   missing and schema graphs, valid and invalid elements, elements with both or neither of vertex/edge):
   the server's BulkAdd loop leaves in every graph the writes, in order, that adding the elements one at a time
   leaves, and reports the same insert and error counts *)
Theorem C18_bulk_is_sequential : forall (exists_graph : string -> bool) (es : list belem),
  bulk_run exists_graph es = seq_run exists_graph es.
Proof. exact bulk_is_sequential. Qed.
Print Assumptions C18_bulk_is_sequential.

(* batching (util.StreamBatch) with any batch size >= 1 applies the same elements in the same order *)
Theorem C18_batching : forall (X S : Type) (add1 : S -> X -> S) (k : nat) (l : list X) (s : S),
  0 < k -> batched add1 k l s = fold_left add1 l s.
Proof. exact batched_is_sequential. Qed.
Print Assumptions C18_batching.

(* the reported insert count is the number of writes stored: every counted element is in exactly one log *)
Example C18_instance :
  let ex g := String.eqb g "g1" || String.eqb g "g2" in
  let v g id l := {| b_graph := g; b_is_vertex := true; b_is_edge := false; b_gid := id; b_label := l; b_from := ""; b_to := ""; b_keys := ["k"]; b_val := 1 |} in
  let r := bulk_run ex [v "g1" "a" "L"; v "g2" "b" "L"; v "g1" "" "L"; v "nope" "c" "L"; v "g1__schema__" "d" "L"; v "g1" "a" "M"] in
  r_ins r = 3%N /\ r_err r = 3%N /\ List.length (log_of (r_logs r) "g1") = 2 /\ List.length (log_of (r_logs r) "g2") = 1.
Proof. vm_compute. auto. Qed.
