package main

import "fmt"

func sqlTemplates(repo string) { fmt.Println("(* not generated yet *)") }
