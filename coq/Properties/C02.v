(* C02  Query planning (index rewrite, load elision) never changes answers.
   What is proved here: the model-level facts the planner relies on -- equivalent spellings of a leading label
   or id filter select exactly the same rows (C02_spellings), count() equals the number of rows of the
   uncounted traversal (C02_count), reordering of rows by a different access path cannot change the result
   multiset of a window-free program (C01_order_free, re-exported as C02_order_free).
   What is sampled (correspondence, not proved): that the production compiler -- IndexStartOptimize plus
   the load-elision analysis of engine/inspect -- computes the literal semantics; the check runs every
   generated program through the production compiler on kvgraph AND on a backend that honours the
   "do not load" hint, and compares the rows with Model/Traversal.v.  A Coq model of the rewrite itself
   (with its equivalence proof) is future work recorded in DESIGN.md. *)
From Coq Require Import List ZArith String Bool NArith Permutation.
Import ListNotations.
From Grip Require Import Model.Json Model.Has Model.Traversal Proofs.TraversalProofs Proofs.OptimizeProofs.
Local Open Scope string_scope.
Local Open Scope list_scope.

Theorem C02_spellings : forall g d ts x xs, Forall (fun t => t_cur t <> None) ts ->
  step g d (SHas (HCond "_label" CEq (JStr x))) ts = step g d (SHasLabel [x]) ts /\
  step g d (SHas (HCond "_label" CWithin (JList (map JStr xs)))) ts = step g d (SHasLabel xs) ts /\
  step g d (SHas (HAnd [HCond "_label" CEq (JStr x)])) ts = step g d (SHasLabel [x]) ts /\
  step g d (SHas (HCond "_gid" CEq (JStr x))) ts = step g d (SHasId [x]) ts /\
  step g d (SHas (HCond "_gid" CWithin (JList (map JStr xs)))) ts = step g d (SHasId xs) ts.
Proof. exact step_label_spellings. Qed.
Print Assumptions C02_spellings.

Theorem C02_count : forall g p ty out, run_from g (DNone, []) p [t0] = Some (ty, out) ->
  exists ty' c, run_from g (DNone, []) (p ++ [SCount]) [t0] = Some (ty', [c]) /\ fst ty' = DCount /\
                t_count c = N.of_nat (List.length out).
Proof. exact count_is_length. Qed.
Print Assumptions C02_count.

Theorem C02_order_free : forall g p ts a b, forallb order_free p = true -> Permutation a b ->
  match run_from g ts p a, run_from g ts p b with
  | Some (t1, o1), Some (t2, o2) => t1 = t2 /\ Permutation o1 o2
  | None, None => True
  | _, _ => False
  end.
Proof. intros g p ts a b Hp Hab. now apply run_perm. Qed.
Print Assumptions C02_order_free.
