package main

import (
	"context"
	"encoding/json"
	"fmt"
	"math/rand"
	"net"
	"sort"
	"time"

	"github.com/bmeg/grip/gdbi"
	"github.com/bmeg/grip/gripper"
	"google.golang.org/grpc"
	"google.golang.org/grpc/credentials/insecure"
	"google.golang.org/grpc/test/bufconn"

	"gripverif/internal/coq"
)

func init() {
	props["C15"] = runC15
	workers["gripper"] = func(args []string) { workerLoop(gripperWorker) }
}

type c15Row struct {
	ID     string                 `json:"id"`
	Fields map[string]interface{} `json:"fields"`
}
type c15VMap struct {
	Prefix string `json:"prefix"`
	Label  string `json:"label"`
	Table  string `json:"table"`
}
type c15EMap struct {
	Name      string `json:"name"`
	From      string `json:"from"` // vertex prefix
	To        string `json:"to"`
	Label     string `json:"label"`
	Table     string `json:"table"`
	FromField string `json:"from_field"`
	ToField   string `json:"to_field"`
}
type c15Spec struct {
	Tables   map[string][]c15Row `json:"tables"`
	Vertices []c15VMap           `json:"vertices"`
	Edges    []c15EMap           `json:"edges"`
}
type c15Req struct {
	DeadlineS int `json:"deadline_s,omitempty"`
	Spec  c15Spec   `json:"spec"`
	Progs [][]tStmt `json:"progs"`
}
type c15Resp struct {
	Gripper []tOutcome `json:"gripper"`
	Store   []tOutcome `json:"store"`
	Writes  []string   `json:"writes"` // which write calls were NOT refused
	Err     string     `json:"err,omitempty"`
}

// the graph the mapping describes, materialised (Go side: what is loaded into the embedded store)
func (s c15Spec) materialise() tGraph {
	g := tGraph{V: []tVertex{}, E: []tEdge{}}
	vs := append([]c15VMap{}, s.Vertices...)
	sort.Slice(vs, func(i, j int) bool { return vs[i].Prefix < vs[j].Prefix })
	for _, v := range vs {
		for _, r := range s.Tables[v.Table] {
			g.V = append(g.V, tVertex{ID: v.Prefix + r.ID, Label: v.Label, Data: r.Fields})
		}
	}
	for _, e := range s.Edges {
		for _, r := range s.Tables[e.Table] {
			f, ok1 := r.Fields[e.FromField].(string)
			t, ok2 := r.Fields[e.ToField].(string)
			if ok1 && ok2 && f != "" && t != "" {
				g.E = append(g.E, tEdge{ID: e.From + f + "-" + e.Label + "-" + e.To + t, Label: e.Label, From: e.From + f, To: e.To + t, Data: r.Fields})
			}
		}
	}
	return g
}

func startTables(spec c15Spec) (gripper.GRIPSourceClient, func(), error) {
	drivers := map[string]gripper.Driver{}
	for name, rows := range spec.Tables {
		data := map[string]*gripper.BaseRow{}
		for _, r := range rows {
			data[r.ID] = &gripper.BaseRow{Key: r.ID, Value: normArg(r.Fields).(map[string]interface{})}
		}
		drivers[name] = gripper.NewDriverPreload(data, map[string]string{})
	}
	lis := bufconn.Listen(1 << 20)
	gs := grpc.NewServer()
	gripper.RegisterGRIPSourceServer(gs, gripper.NewSimpleTableServer(drivers))
	go gs.Serve(lis)
	conn, err := grpc.DialContext(context.Background(), "bufnet",
		grpc.WithContextDialer(func(ctx context.Context, s string) (net.Conn, error) { return lis.Dial() }),
		grpc.WithTransportCredentials(insecure.NewCredentials()))
	if err != nil {
		gs.Stop()
		return nil, nil, err
	}
	return gripper.NewGRIPSourceClient(conn), func() { conn.Close(); gs.Stop() }, nil
}

func gripperWorker(raw json.RawMessage) interface{} {
	var req c15Req
	if err := json.Unmarshal(raw, &req); err != nil {
		return c15Resp{Err: err.Error()}
	}
	cli, stop, err := startTables(req.Spec)
	if err != nil {
		return c15Resp{Err: err.Error()}
	}
	defer stop()
	conf := gripper.GraphConfig{Vertices: map[string]gripper.VertexConfig{}, Edges: map[string]gripper.EdgeConfig{}}
	for _, v := range req.Spec.Vertices {
		conf.Vertices[v.Prefix] = gripper.VertexConfig{Gid: v.Prefix, Label: v.Label, Data: gripper.ElementConfig{Source: "src", Collection: v.Table}}
	}
	for _, e := range req.Spec.Edges {
		conf.Edges[e.Name] = gripper.EdgeConfig{Gid: e.Name, From: e.From, To: e.To, Label: e.Label,
			Data: gripper.ElementConfig{Source: "src", Collection: e.Table, FromField: e.FromField, ToField: e.ToField}}
	}
	tg, err := gripper.NewTabularGraph(conf, map[string]gripper.GRIPSourceClient{"src": cli})
	if err != nil {
		return c15Resp{Err: "NewTabularGraph: " + err.Error()}
	}
	env, err := openGraph("badger", req.Spec.materialise())
	if err != nil {
		return c15Resp{Err: err.Error()}
	}
	defer env.close()
	resp := c15Resp{Gripper: make([]tOutcome, len(req.Progs)), Store: make([]tOutcome, len(req.Progs)), Writes: []string{}}
	dl := 20 * time.Second
	if req.DeadlineS > 0 {
		dl = time.Duration(req.DeadlineS) * time.Second
	}
	for i, p := range req.Progs {
		resp.Gripper[i] = runProduction(tg, p, dl)
		resp.Store[i] = runProduction(env.gi, p, dl)
	}
	if tg.AddVertex([]*gdbi.Vertex{{ID: "x", Label: "L"}}) == nil {
		resp.Writes = append(resp.Writes, "AddVertex")
	}
	if tg.AddEdge([]*gdbi.Edge{{ID: "e", Label: "L", From: "a", To: "b"}}) == nil {
		resp.Writes = append(resp.Writes, "AddEdge")
	}
	ch := make(chan *gdbi.GraphElement)
	close(ch)
	if tg.BulkAdd(ch) == nil {
		resp.Writes = append(resp.Writes, "BulkAdd")
	}
	if tg.DelVertex("x") == nil {
		resp.Writes = append(resp.Writes, "DelVertex")
	}
	if tg.DelEdge("e") == nil {
		resp.Writes = append(resp.Writes, "DelEdge")
	}
	return resp
}

func c15RandSpec(rng *rand.Rand) c15Spec {
	s := c15Spec{Tables: map[string][]c15Row{}}
	ids := []string{"1", "2", "3", "4", "x"}
	if rng.Intn(3) == 0 {
		// row ids that begin with characters of the vertex prefixes, or with a whole prefix
		ids = []string{"1", "P", ":2", "P:1", "x"}
	}
	nvt := 1 + rng.Intn(3)
	prefixes := []string{"P:", "Q:", "R:"}
	labels := []string{"P", "Q", "P"} // two vertex tables may share a label
	for i := 0; i < nvt; i++ {
		name := fmt.Sprintf("vt%d", i)
		rows := []c15Row{}
		for _, id := range ids[:rng.Intn(len(ids)+1)] {
			f := map[string]interface{}{"name": []interface{}{"x", "y", "z"}[rng.Intn(3)]}
			if rng.Intn(2) == 0 {
				f["w"] = []interface{}{1.0, 2.0, 2.5}[rng.Intn(3)]
			}
			rows = append(rows, c15Row{ID: id, Fields: f})
		}
		s.Tables[name] = rows
		s.Vertices = append(s.Vertices, c15VMap{Prefix: prefixes[i], Label: labels[i], Table: name})
	}
	net := rng.Intn(3)
	elabels := []string{"knows", "likes", "P"}
	for i := 0; i < net; i++ {
		name := fmt.Sprintf("lt%d", i)
		rows := []c15Row{}
		n := rng.Intn(6)
		for k := 0; k < n; k++ {
			f := map[string]interface{}{}
			pick := func() interface{} {
				switch rng.Intn(8) {
				case 0:
					return ""
				case 1:
					return nil // field missing
				case 2:
					return "zz" // no such row
				}
				return ids[rng.Intn(len(ids))]
			}
			if v := pick(); v != nil {
				f["src"] = v
			}
			if v := pick(); v != nil {
				f["dst"] = v
			}
			f["n"] = float64(k)
			rows = append(rows, c15Row{ID: fmt.Sprintf("r%d", k), Fields: f})
		}
		// every link table has at least one row with both fields, so that the fields are searchable
		rows = append(rows, c15Row{ID: "rz", Fields: map[string]interface{}{"src": ids[rng.Intn(len(ids))], "dst": ids[rng.Intn(len(ids))], "n": 9.0}})
		s.Tables[name] = rows
		from, to := s.Vertices[rng.Intn(nvt)].Prefix, s.Vertices[rng.Intn(nvt)].Prefix
		em := c15EMap{Name: fmt.Sprintf("E%d", i), From: from, To: to, Label: elabels[i], Table: name, FromField: "src", ToField: "dst"}
		if rng.Intn(3) == 0 { // the link table read the other way round
			em.FromField, em.ToField = "dst", "src"
		}
		s.Edges = append(s.Edges, em)
	}
	return s
}

func c15Programs(rng *rand.Rand, s c15Spec, n int) [][]tStmt {
	g := s.materialise()
	vids, eids := []string{"P:1", "Q:2", "nope"}, []string{"nope"}
	for _, v := range g.V {
		vids = append(vids, v.ID)
	}
	seen := map[string]int{}
	for _, e := range g.E {
		seen[e.ID]++
	}
	for _, e := range g.E {
		if seen[e.ID] == 1 { // two link rows with the same endpoints share an id: which row E(id) shows is not fixed
			eids = append(eids, e.ID)
		}
	}
	out := [][]tStmt{
		{{Op: "V"}}, {{Op: "E"}}, {{Op: "V"}, {Op: "hasLabel", Strs: []string{"P"}}}, {{Op: "V"}, {Op: "hasLabel", Strs: []string{"Q", "P"}}},
		{{Op: "V"}, {Op: "hasLabel", Strs: []string{"P"}}, {Op: "out"}}, {{Op: "E"}, {Op: "hasLabel", Strs: []string{"knows"}}},
		{{Op: "E"}, {Op: "hasLabel", Strs: []string{"knows", "likes"}}, {Op: "out"}}, {{Op: "V"}, {Op: "both"}}, {{Op: "V"}, {Op: "bothE"}},
		{{Op: "V"}, {Op: "outE"}, {Op: "in"}}, {{Op: "V"}, {Op: "inE"}, {Op: "out"}}, {{Op: "V"}, {Op: "out", Strs: []string{"knows"}}, {Op: "count"}},
	}
	for _, id := range vids {
		out = append(out, []tStmt{{Op: "V", Strs: []string{id}}}, []tStmt{{Op: "V", Strs: []string{id}}, {Op: "out"}}, []tStmt{{Op: "V", Strs: []string{id}}, {Op: "inE"}})
	}
	for _, id := range eids {
		out = append(out, []tStmt{{Op: "E", Strs: []string{id}}})
	}
	for i := 0; i < n; i++ {
		out = append(out, randProgram(rng, 5, progOpts{markType: genType}))
	}
	// null-producing moves: besides the model, compared with the embedded store as exact multisets
	for _, op := range []string{"outNull", "inNull", "outENull", "inENull"} {
		out = append(out, []tStmt{{Op: "V"}, {Op: op}}, []tStmt{{Op: "V"}, {Op: op, Strs: []string{"knows"}}}, []tStmt{{Op: "V"}, {Op: op}, {Op: "count"}},
			[]tStmt{{Op: "V", Strs: vids}, {Op: op, Strs: []string{"likes"}}}, []tStmt{{Op: "V"}, {Op: "hasLabel", Strs: []string{"P"}}, {Op: op}, {Op: "count"}})
	}
	return out
}

// a vertex whose first link names an absent row of one table and whose other 300 links lead into another table: more
// lookups behind the unanswered one than the channel multiplexer queues (gripper/channel_mux.go: QueueSize*5)
func c15FanSpec() (c15Spec, [][]tStmt) {
	vt0 := []c15Row{}
	lt1 := []c15Row{}
	for i := 1; i <= 300; i++ {
		vt0 = append(vt0, c15Row{ID: fmt.Sprint(i), Fields: map[string]interface{}{"name": "x"}})
		lt1 = append(lt1, c15Row{ID: fmt.Sprintf("r%03d", i), Fields: map[string]interface{}{"src": "1", "dst": fmt.Sprint(i)}})
	}
	s := c15Spec{
		Tables: map[string][]c15Row{"vt0": vt0, "vt1": {{ID: "1", Fields: map[string]interface{}{"name": "q"}}}, "lt1": lt1,
			"lt0": {{ID: "d0", Fields: map[string]interface{}{"src": "1", "dst": "zz"}}}},
		Vertices: []c15VMap{{Prefix: "P:", Label: "P", Table: "vt0"}, {Prefix: "Q:", Label: "Q", Table: "vt1"}},
		Edges: []c15EMap{{Name: "A0", From: "P:", To: "Q:", Label: "likes", Table: "lt0", FromField: "src", ToField: "dst"},
			{Name: "E1", From: "P:", To: "P:", Label: "knows", Table: "lt1", FromField: "src", ToField: "dst"}},
	}
	one := tStmt{Op: "V", Strs: []string{"P:1"}}
	return s, [][]tStmt{{one, {Op: "out"}, {Op: "count"}}, {one, {Op: "outE"}, {Op: "out"}, {Op: "count"}}, {{Op: "V"}, {Op: "out"}, {Op: "count"}},
		{one, {Op: "outNull"}, {Op: "count"}}, {{Op: "E"}, {Op: "out"}, {Op: "count"}}, {one, {Op: "both"}, {Op: "count"}}}
}

func c15Extra(p []tStmt) bool {
	for _, s := range p {
		switch s.Op {
		case "outNull", "inNull", "outENull", "inENull":
			return true
		}
	}
	return false
}

type c15Input struct {
	Spec c15Spec `json:"spec"`
	Prog []tStmt `json:"prog"`
}

func (s c15Spec) coq() string {
	tabs := []string{}
	names := []string{}
	for n := range s.Tables {
		names = append(names, n)
	}
	sort.Strings(names)
	for _, n := range names {
		rows := []string{}
		for _, r := range s.Tables[n] {
			rows = append(rows, fmt.Sprintf("(%s, %s)", coq.Str(r.ID), jmapCoq(normArg(r.Fields).(map[string]interface{}))))
		}
		tabs = append(tabs, fmt.Sprintf("(%s, %s)", coq.Str(n), coq.List(rows)))
	}
	vs := []string{}
	for _, v := range s.Vertices {
		vs = append(vs, coq.Record("vm_prefix", coq.Str(v.Prefix), "vm_label", coq.Str(v.Label), "vm_table", coq.Str(v.Table)))
	}
	es := []string{}
	for _, e := range s.Edges {
		es = append(es, coq.Record("em_from", coq.Str(e.From), "em_to", coq.Str(e.To), "em_label", coq.Str(e.Label), "em_table", coq.Str(e.Table),
			"em_from_field", coq.Str(e.FromField), "em_to_field", coq.Str(e.ToField)))
	}
	return coq.Record("m_tables", coq.List(tabs), "m_vertices", coq.List(vs), "m_edges", coq.List(es))
}

func runC15(ctx *Ctx) error {
	ctx.EvalMod = "Eval_C15"
	ctx.CaseTy = "c15_case"
	ctx.Shard = 250
	ctx.Rule = "random table sets served by gripper.SimpleTableServicer over an in-memory gRPC connection (bufconn): 1..3 vertex tables of 0..5 rows (two tables may share a label; in a third of the table sets the row ids begin with characters of the vertex prefixes or with a whole prefix), 0..2 link tables of 1..6 rows with empty, missing and dangling endpoint fields, repeated links, link tables read in either direction, mapped through gripper.NewTabularGraph; per table set: V, E, hasLabel starts (the driver plans these itself), V(id)/E(id) for every id and some absent ones, neighbourhood steps, random C01-space programs, null-producing moves (outNull/inNull/outENull/inENull, with and without labels, after V(), V(ids) and a label start; compared with the embedded store as exact multisets), and one table set with a vertex whose first link names an absent row of one table and whose 300 other links lead into another table (more lookups behind the unanswered one than the channel multiplexer queues); each program runs through the production compiler on the gripper graph and on the same graph materialised in badger; write calls are tried on the gripper graph; observed: rows of both, which writes were not refused; non-trivial = a program with at least two statements on a table set with at least one edge; distinct by (tables, mapping, program)"
	type job struct {
		spec  c15Spec
		progs [][]tStmt
	}
	var jobs []job
	if ctx.Replay != nil {
		var in c15Input
		if err := json.Unmarshal(ctx.Replay, &in); err != nil {
			return err
		}
		jobs = []job{{in.Spec, [][]tStmt{in.Prog}}}
	} else {
		n := ctx.Pick(40, 400)
		for i := 0; i < n; i++ {
			s := c15RandSpec(ctx.Rng)
			jobs = append(jobs, job{s, c15Programs(ctx.Rng, s, ctx.Pick(12, 30))})
		}
		fs, fp := c15FanSpec()
		jobs = append(jobs, job{fs, fp})
	}
	reqs := make([]json.RawMessage, len(jobs))
	for i, j := range jobs {
		reqs[i], _ = json.Marshal(c15Req{Spec: j.spec, Progs: j.progs})
	}
	res := runIsolated("gripper", reqs, 8, 240*time.Second)
	rerunFailed("gripper", reqs, res, 240*time.Second)
	reruns := 0
	for i, j := range jobs {
		var resp c15Resp
		r := res[i]
		switch {
		case r.Crashed:
			resp.Err = "crash: " + tailStr(r.Stderr, 1500)
		case r.Timeout:
			resp.Err = "worker timeout"
		default:
			json.Unmarshal(r.Out, &resp)
		}
		g := j.spec.materialise()
		for k, p := range j.progs {
			var og, os tOutcome
			if resp.Err != "" || k >= len(resp.Gripper) {
				og, os = tOutcome{Rejected: true, Err: resp.Err, Rows: []interface{}{}}, tOutcome{Rejected: true, Rows: []interface{}{}}
			} else {
				og, os = resp.Gripper[k], resp.Store[k]
			}
			if ctx.Replay == nil && resp.Err == "" && k < len(resp.Gripper) && (!og.Closed || !os.Closed) && !og.Rejected && reruns < 40 {
				// a stream not closed within the deadline while the whole batch was running: the program is run again alone
				// with a long deadline; only a stream that stays open then is reported
				reruns++
				one, _ := json.Marshal(c15Req{Spec: j.spec, Progs: [][]tStmt{p}, DeadlineS: 120})
				rr := runIsolated("gripper", []json.RawMessage{one}, 1, 300*time.Second)
				var r1 c15Resp
				if !rr[0].Crashed && !rr[0].Timeout && json.Unmarshal(rr[0].Out, &r1) == nil && r1.Err == "" && len(r1.Gripper) == 1 {
					og, os = r1.Gripper[0], r1.Store[0]
				}
			}
			in := c15Input{Spec: j.spec, Prog: p}
			key, _ := json.Marshal(in)
			pc := progCoq(p)
			cc := coq.Record("c_mapping", j.spec.coq(), "c_prog", pc, "o_gripper", outcomeCoq(og), "o_store", outcomeCoq(os),
				"o_writes", coq.StrList(resp.Writes), "o_failed", coq.Bool(resp.Err != ""), "c_extra", coq.Bool(c15Extra(p)))
			ctx.Add(Case{Input: in, Observed: map[string]interface{}{"gripper": og, "store": os, "writes_not_refused": resp.Writes, "err": resp.Err},
				Coq: cc, Nontrivial: len(p) >= 2 && len(g.E) > 0, Key: string(key), Tags: []string{fmt.Sprintf("len=%d", len(p))}})
		}
	}
	return nil
}
