package main

// an in-process GripServer (verif hook server.NewVerifServer) with fake gRPC streams

import (
	"context"
	"io"
	"os"

	"github.com/bmeg/grip/config"
	"github.com/bmeg/grip/gdbi"
	"github.com/bmeg/grip/gripql"
	"github.com/bmeg/grip/kvgraph"
	"github.com/bmeg/grip/kvi"
	"github.com/bmeg/grip/server"
	"google.golang.org/grpc/metadata"
)

type srvEnv struct {
	dir string
	db  gdbi.GraphDB
	srv *server.GripServer
}

func newSrvEnv(driver string) (*srvEnv, error) {
	dir, _ := os.MkdirTemp("", "srv")
	kv, err := kvi.NewKVInterface(driver, dir+"/db", nil)
	if err != nil {
		return nil, err
	}
	db := kvgraph.NewKVGraph(kv)
	conf := config.DefaultConfig()
	conf.Server.WorkDir = dir + "/work"
	conf.Default = "d"
	s, err := server.NewVerifServer(conf, dir, map[string]gdbi.GraphDB{"d": db}, dir+"/jobs")
	if err != nil {
		return nil, err
	}
	return &srvEnv{dir: dir, db: db, srv: s}, nil
}
func (e *srvEnv) close() {
	e.db.Close()
	os.RemoveAll(e.dir)
}

type fakeStream struct{ ctx context.Context }

func (f fakeStream) SetHeader(metadata.MD) error  { return nil }
func (f fakeStream) SendHeader(metadata.MD) error { return nil }
func (f fakeStream) SetTrailer(metadata.MD)       {}
func (f fakeStream) Context() context.Context     { return f.ctx }
func (f fakeStream) SendMsg(m interface{}) error  { return nil }
func (f fakeStream) RecvMsg(m interface{}) error  { return io.EOF }

type travStream struct {
	fakeStream
	rows []*gripql.QueryResult
}

func (t *travStream) Send(r *gripql.QueryResult) error {
	if r == nil {
		// what gRPC does with a nil message: an error back to the handler, no crash
		return io.ErrUnexpectedEOF
	}
	t.rows = append(t.rows, r)
	return nil
}

type bulkStream struct {
	fakeStream
	elems []*gripql.GraphElement
	pos   int
	res   *gripql.BulkEditResult
}

func (b *bulkStream) Recv() (*gripql.GraphElement, error) {
	if b.pos >= len(b.elems) {
		return nil, io.EOF
	}
	e := b.elems[b.pos]
	b.pos++
	return e, nil
}
func (b *bulkStream) SendAndClose(r *gripql.BulkEditResult) error { b.res = r; return nil }
