package main

import (
	"encoding/json"
	"fmt"
	"os"
	"time"

	"gripverif/internal/coq"
)

func init() {
	props["C01"] = runC01
	workers["trav"] = func(args []string) { workerLoop(travWorker) }
}

type travReq struct {
	Mode   string  `json:"mode"` // literal | production
	DeadlineS int  `json:"deadline_s,omitempty"`
	Driver string  `json:"driver"`
	Graph  tGraph  `json:"graph"`
	Progs  [][]tStmt `json:"progs"`
}

// one worker request = one graph with many programs (the store is built once)
func travWorker(raw json.RawMessage) interface{} {
	var req travReq
	if err := json.Unmarshal(raw, &req); err != nil {
		return map[string]string{"error": err.Error()}
	}
	env, err := openGraph(req.Driver, req.Graph)
	if err != nil {
		return map[string]string{"error": err.Error()}
	}
	defer env.close()
	outs := make([]tOutcome, len(req.Progs))
	dl := 20 * time.Second
	if req.DeadlineS > 0 {
		dl = time.Duration(req.DeadlineS) * time.Second
	}
	for i, p := range req.Progs {
		if req.Mode == "production" {
			outs[i] = runProduction(env.gi, p, dl)
		} else if req.Mode == "production-honour" {
			outs[i] = runProduction(honourLoad{env.gi}, p, dl)
		} else {
			outs[i] = runLiteral(env.gi, p, dl)
		}
	}
	return outs
}

type c01Input struct {
	Driver string  `json:"driver"`
	Graph  tGraph  `json:"graph"`
	Prog   []tStmt `json:"prog"`
}

// fixed graph exercising self loop, parallel edges, dangling endpoints, isolated vertex, nested data
func fixedGraph() tGraph {
	return tGraph{
		V: []tVertex{
			{ID: "a", Label: "P", Data: map[string]interface{}{"name": "x", "w": 1.0, "tags": []interface{}{"a", "b"}, "n": map[string]interface{}{"k": 1.0}}},
			{ID: "b", Label: "Q", Data: map[string]interface{}{"name": "y", "w": 2.0, "tags": []interface{}{}}},
			{ID: "c", Label: "P", Data: map[string]interface{}{"name": "x", "w": "2"}},
			{ID: "d", Label: "R", Data: map[string]interface{}{}},
		},
		E: []tEdge{
			{ID: "e0", Label: "knows", From: "a", To: "b", Data: map[string]interface{}{"w": 1.0}},
			{ID: "e1", Label: "knows", From: "a", To: "b", Data: map[string]interface{}{"w": 2.0}},
			{ID: "e2", Label: "likes", From: "b", To: "b", Data: map[string]interface{}{}},
			{ID: "e3", Label: "likes", From: "c", To: "zz", Data: map[string]interface{}{"name": "dangling"}},
			{ID: "e4", Label: "P", From: "zz", To: "a", Data: map[string]interface{}{}},
		},
	}
}

// r -> x1..x3 -> y11..y33 -> z111..z333 (edges labelled by depth), every vertex with a name
func treeGraph() tGraph {
	g := tGraph{V: []tVertex{{ID: "r", Label: "P", Data: map[string]interface{}{"name": "r"}}}, E: []tEdge{}}
	level := []string{"r"}
	for d := 1; d <= 3; d++ {
		next := []string{}
		for _, p := range level {
			for k := 1; k <= 3; k++ {
				id := fmt.Sprintf("n%d_%s%d", d, p, k)
				g.V = append(g.V, tVertex{ID: id, Label: []string{"P", "Q"}[k%2], Data: map[string]interface{}{"name": id, "w": float64(k)}})
				g.E = append(g.E, tEdge{ID: "e_" + id, Label: fmt.Sprintf("d%d", d), From: p, To: id, Data: map[string]interface{}{"w": float64(d)}})
				next = append(next, id)
			}
		}
		level = next
	}
	return g
}

// the step alphabet for exhaustive enumeration
func stepAlphabet() []tStmt {
	h1 := hExpr{Kind: "cond", Key: "name", Op: "eq", Arg: "x"}
	h2 := hExpr{Kind: "cond", Key: "w", Op: "gt", Arg: 1.0}
	return []tStmt{
		{Op: "out"}, {Op: "in"}, {Op: "both"}, {Op: "out", Strs: []string{"knows"}}, {Op: "in", Strs: []string{"likes", "P"}},
		{Op: "outE"}, {Op: "inE"}, {Op: "bothE", Strs: []string{"knows"}},
		{Op: "has", Has: &h1}, {Op: "has", Has: &h2}, {Op: "hasLabel", Strs: []string{"P"}}, {Op: "hasId", Strs: []string{"a", "b", "e0"}},
		{Op: "hasKey", Strs: []string{"w"}}, {Op: "as", Str: "m1"}, {Op: "select", Strs: []string{"m1"}},
		{Op: "fields", Strs: []string{"name"}}, {Op: "unwind", Str: "tags"}, {Op: "count"},
		{Op: "distinct", Strs: []string{"name"}}, {Op: "distinct", Strs: []string{"w"}}, {Op: "limit", N: 2}, {Op: "skip", N: 1}, {Op: "range", N: 1, M: 3}, {Op: "range", N: 1, M: -1}, {Op: "range", N: 0, M: 0},
		{Op: "render", Tpl: map[string]interface{}{"i": "_gid", "n": "name"}}, {Op: "path"},
	}
}

func usesUndefinedMark(p []tStmt) bool {
	def := map[string]bool{}
	for _, s := range p {
		if s.Op == "as" {
			def[s.Str] = true
		}
		if s.Op == "select" {
			for _, m := range s.Strs {
				if !def[m] {
					return true
				}
			}
		}
	}
	return false
}

func windowOK(p []tStmt) bool {
	for i, s := range p {
		if isWindow(s.Op) {
			rest := p[i+1:]
			if len(rest) == 0 {
				return true
			}
			if len(rest) == 1 && rest[0].Op == "count" {
				return true
			}
			return false
		}
	}
	return true
}

func genC01Cases(ctx *Ctx) []c01Input {
	rng := ctx.Rng
	inputs := []c01Input{}
	fg := fixedGraph()
	alpha := stepAlphabet()
	starts := []tStmt{{Op: "V"}, {Op: "V", Strs: []string{"a", "zz", "a"}}, {Op: "E"}, {Op: "E", Strs: []string{"e1", "e9"}}}
	depth := 2
	if ctx.Thorough() {
		depth = 3
	}
	var rec func(p []tStmt, d int)
	rec = func(p []tStmt, d int) {
		if !usesUndefinedMark(p) && windowOK(p) {
			inputs = append(inputs, c01Input{Driver: "badger", Graph: fg, Prog: append([]tStmt{}, p...)})
		}
		if d == 0 {
			return
		}
		for _, s := range alpha {
			rec(append(append([]tStmt{}, p...), s), d-1)
		}
	}
	for _, st := range starts {
		if os.Getenv("C01_RANDOM_ONLY") != "" { // development knob: only the random part
			break
		}
		rec([]tStmt{st}, depth)
	}
	// the same element reaching one has() step several times with different values (after unwind) or different marks
	{
		hTag := func(v string) *hExpr { return &hExpr{Kind: "cond", Key: "tags", Op: "eq", Arg: v} }
		hM := &hExpr{Kind: "cond", Key: "$m1.name", Op: "eq", Arg: "x"}
		for _, p := range [][]tStmt{
			{{Op: "V"}, {Op: "unwind", Str: "tags"}, {Op: "has", Has: hTag("a")}},
			{{Op: "V"}, {Op: "unwind", Str: "tags"}, {Op: "has", Has: &hExpr{Kind: "not", Es: []hExpr{*hTag("a")}}}},
			{{Op: "V"}, {Op: "unwind", Str: "tags"}, {Op: "has", Has: hTag("b")}, {Op: "count"}},
			{{Op: "V"}, {Op: "as", Str: "m1"}, {Op: "out"}, {Op: "has", Has: hM}},
			{{Op: "V"}, {Op: "as", Str: "m1"}, {Op: "both"}, {Op: "has", Has: &hExpr{Kind: "not", Es: []hExpr{*hM}}}},
			{{Op: "E"}, {Op: "as", Str: "m1"}, {Op: "out"}, {Op: "has", Has: &hExpr{Kind: "cond", Key: "$m1.w", Op: "eq", Arg: 2.0}}},
			{{Op: "V"}, {Op: "as", Str: "m1"}, {Op: "out"}, {Op: "hasKey", Strs: []string{"$m1.tags"}}},
			{{Op: "V"}, {Op: "as", Str: "m1"}, {Op: "out"}, {Op: "distinct", Strs: []string{"$m1.name"}}},
		} {
			inputs = append(inputs, c01Input{Driver: "badger", Graph: fg, Prog: p})
		}
	}
	// unwind of a nested list: every row gets its own copy of the inner map, and a mark taken before keeps the list
	{
		ng := tGraph{V: []tVertex{
			{ID: "a", Label: "P", Data: map[string]interface{}{"name": "x", "n": map[string]interface{}{"j": []interface{}{1.0, 2.0, 3.0}, "k": "x"}}},
			{ID: "b", Label: "P", Data: map[string]interface{}{"n": map[string]interface{}{"j": []interface{}{}, "k": []interface{}{"u", "v"}}}},
			{ID: "c", Label: "Q", Data: map[string]interface{}{"n": "text"}},
			{ID: "d", Label: "Q", Data: map[string]interface{}{"n": map[string]interface{}{"j": map[string]interface{}{"deep": []interface{}{"p", "q"}}}}}},
			E: []tEdge{{ID: "e0", Label: "knows", From: "a", To: "b", Data: map[string]interface{}{"n": map[string]interface{}{"j": []interface{}{7.0, 8.0}}}}}}
		for _, f := range []string{"n.j", "n.k", "n", "n.j.deep", "n.missing", "n.j.x"} {
			for _, st := range []tStmt{{Op: "V"}, {Op: "E"}} {
				inputs = append(inputs, c01Input{Driver: "badger", Graph: ng, Prog: []tStmt{st, {Op: "unwind", Str: f}}},
					c01Input{Driver: "badger", Graph: ng, Prog: []tStmt{st, {Op: "as", Str: "m1"}, {Op: "unwind", Str: f}, {Op: "select", Strs: []string{"m1"}}}},
					c01Input{Driver: "badger", Graph: ng, Prog: []tStmt{st, {Op: "unwind", Str: f}, {Op: "as", Str: "m1"}, {Op: "unwind", Str: "n.k"}, {Op: "select", Strs: []string{"m1"}}}},
					c01Input{Driver: "badger", Graph: ng, Prog: []tStmt{st, {Op: "unwind", Str: f}, {Op: "render", Tpl: map[string]interface{}{"j": "n.j", "k": "n.k"}}}})
			}
		}
	}
	// a mark name bound again to an element of the other kind: its static type is the type of the last binding
	for _, p := range [][]tStmt{
		{{Op: "V"}, {Op: "as", Str: "m1"}, {Op: "outE"}, {Op: "as", Str: "m1"}, {Op: "out"}, {Op: "select", Strs: []string{"m1"}}},
		{{Op: "V"}, {Op: "as", Str: "m1"}, {Op: "outE"}, {Op: "as", Str: "m1"}, {Op: "out"}, {Op: "select", Strs: []string{"m1"}}, {Op: "out"}},
		{{Op: "V"}, {Op: "as", Str: "m1"}, {Op: "outE"}, {Op: "as", Str: "m1"}, {Op: "out"}, {Op: "select", Strs: []string{"m1"}}, {Op: "outE"}},
		{{Op: "V"}, {Op: "as", Str: "m1"}, {Op: "outE"}, {Op: "as", Str: "m1"}, {Op: "select", Strs: []string{"m1"}}, {Op: "count"}},
		{{Op: "E"}, {Op: "as", Str: "m1"}, {Op: "out"}, {Op: "as", Str: "m1"}, {Op: "select", Strs: []string{"m1"}}, {Op: "outE"}},
		{{Op: "E"}, {Op: "as", Str: "m1"}, {Op: "in"}, {Op: "as", Str: "m1"}, {Op: "inE"}, {Op: "select", Strs: []string{"m1"}}},
		{{Op: "V"}, {Op: "as", Str: "m1"}, {Op: "as", Str: "m2"}, {Op: "outE"}, {Op: "as", Str: "m1"}, {Op: "select", Strs: []string{"m1", "m2"}}},
		{{Op: "V"}, {Op: "as", Str: "m1"}, {Op: "outE"}, {Op: "as", Str: "m1"}, {Op: "in"}, {Op: "as", Str: "m1"}, {Op: "select", Strs: []string{"m1"}}, {Op: "outE"}},
	} {
		inputs = append(inputs, c01Input{Driver: "badger", Graph: fg, Prog: p})
	}
	// null-producing moves: a traveler without a current element reaching every step of the alphabet, marked and selected
	for _, st := range starts[:2] {
		for _, nm := range []tStmt{{Op: "outNull"}, {Op: "inNull", Strs: []string{"likes"}}, {Op: "outENull", Strs: []string{"knows"}}, {Op: "inENull"}} {
			for _, a := range alpha {
				for _, p := range [][]tStmt{{st, nm, a}, {st, nm, {Op: "as", Str: "m1"}, a, {Op: "select", Strs: []string{"m1"}}}, {st, {Op: "as", Str: "m1"}, nm, a, {Op: "path"}}} {
					if windowOK(p) {
						inputs = append(inputs, c01Input{Driver: "badger", Graph: fg, Prog: p})
					}
				}
			}
		}
	}
	// a mark bound on a traveler that has an element and bound again after a null-producing move took it away
	for _, nm := range []tStmt{{Op: "outNull", Strs: []string{"nolabel"}}, {Op: "inENull"}, {Op: "outENull", Strs: []string{"knows"}}} {
		for _, end := range [][]tStmt{{{Op: "select", Strs: []string{"m1"}}}, {{Op: "select", Strs: []string{"m1"}}, {Op: "render", Tpl: map[string]interface{}{"c": "_gid", "m": "$m1._gid"}}},
			{{Op: "has", Has: &hExpr{Kind: "cond", Key: "$m1.name", Op: "eq", Arg: "x"}}}, {{Op: "select", Strs: []string{"m1", "m2"}}}} {
			p := append([]tStmt{{Op: "V"}, {Op: "as", Str: "m1"}, {Op: "as", Str: "m2"}, nm, {Op: "as", Str: "m1"}}, end...)
			inputs = append(inputs, c01Input{Driver: "badger", Graph: fg, Prog: p})
		}
	}
	// a tree with fan-out 3 below every vertex down to depth 3: sibling travelers with long paths (traveler copies must not
	// share state), walked with every mix of moves, marks and path() / select() at the end
	tg := treeGraph()
	for _, mv := range [][]string{{"out", "out", "out"}, {"outE", "out", "outE", "out"}, {"out", "out", "both"}, {"outE", "out", "out", "inE"}, {"out", "out", "out", "in", "out"}, {"both", "both", "both"}, {"out", "bothE", "both", "bothE"}} {
		for _, start := range []tStmt{{Op: "V", Strs: []string{"r"}}, {Op: "V"}} {
			p := []tStmt{start}
			for _, m := range mv {
				p = append(p, tStmt{Op: m})
			}
			inputs = append(inputs, c01Input{Driver: "badger", Graph: tg, Prog: append(append([]tStmt{}, p...), tStmt{Op: "path"})},
				c01Input{Driver: "badger", Graph: tg, Prog: append(append([]tStmt{}, p...), tStmt{Op: "as", Str: "m1"}, tStmt{Op: "path"})})
			q := []tStmt{start, {Op: "as", Str: "m1"}}
			for _, m := range mv {
				q = append(q, tStmt{Op: m})
			}
			inputs = append(inputs, c01Input{Driver: "badger", Graph: tg, Prog: append(append([]tStmt{}, q...), tStmt{Op: "as", Str: "m2"}, tStmt{Op: "select", Strs: []string{"m1", "m2"}})})
		}
	}
	ctx.Notes["exhaustive_prefix"] = fmt.Sprintf("%d programs: 4 starts x all sequences of <= %d steps over a %d-step alphabet on the fixed graph", len(inputs), depth, len(alpha))
	n := ctx.Pick(40, 300)
	for i := 0; i < n; i++ {
		g := randGraph(rng)
		for j := 0; j < 12; j++ {
			p := randProgram(rng, ctx.Pick(7, 10), progOpts{illTyped: true, markType: genType})
			if usesUndefinedMark(p) || !windowOK(p) {
				continue
			}
			inputs = append(inputs, c01Input{Driver: "badger", Graph: g, Prog: p})
		}
	}
	return inputs
}

func runTravCases(ctx *Ctx, inputs []c01Input, mode string) []tOutcome {
	// group by graph
	type grp struct {
		req travReq
		idx []int
	}
	groups := []*grp{}
	byKey := map[string]*grp{}
	for i, in := range inputs {
		k, _ := json.Marshal(in.Graph)
		key := in.Driver + string(k)
		g, ok := byKey[key]
		if !ok || len(g.idx) >= 200 {
			drv := in.Driver
			if len(drv) > 7 && drv[len(drv)-7:] == "+honour" {
				drv = drv[:len(drv)-7]
			}
			g = &grp{req: travReq{Mode: mode, Driver: drv, Graph: in.Graph}}
			byKey[key] = g
			groups = append(groups, g)
		}
		g.req.Progs = append(g.req.Progs, in.Prog)
		g.idx = append(g.idx, i)
	}
	reqs := make([]json.RawMessage, len(groups))
	for i, g := range groups {
		reqs[i], _ = json.Marshal(g.req)
	}
	res := runIsolated("trav", reqs, 12, 10*time.Minute)
	outs := make([]tOutcome, len(inputs))
	for gi, r := range res {
		g := groups[gi]
		var os []tOutcome
		if r.Crashed || r.Timeout || json.Unmarshal(r.Out, &os) != nil || len(os) != len(g.idx) {
			// re-run the group's programs one by one to find the culprit
			single := make([]json.RawMessage, len(g.idx))
			for k := range g.idx {
				rq := travReq{Mode: mode, Driver: g.req.Driver, Graph: g.req.Graph, Progs: [][]tStmt{g.req.Progs[k]}}
				single[k], _ = json.Marshal(rq)
			}
			sres := runIsolated("trav", single, 12, 60*time.Second)
			for k, sr := range sres {
				var o []tOutcome
				if sr.Crashed || sr.Timeout || json.Unmarshal(sr.Out, &o) != nil || len(o) != 1 {
					msg := "crash"
					if sr.Timeout {
						msg = "timeout"
					}
					outs[g.idx[k]] = tOutcome{Err: msg + ": " + lastLines(sr.Stderr, 12), Rows: []interface{}{"WORKER-" + msg}}
				} else {
					outs[g.idx[k]] = o[0]
				}
			}
			continue
		}
		for k, o := range os {
			outs[g.idx[k]] = o
		}
	}
	// a stream that did not close while twelve workers were loading every core is slow, not stuck: it is believed
	// only after the same program, alone in a fresh worker, had 120 s (at most 40 such re-runs; the rest stay as observed)
	again := 0
	for i, o := range outs {
		if o.Rejected || o.Closed || o.Err != "" || again >= 40 {
			continue
		}
		again++
		in := inputs[i]
		drv := in.Driver
		if len(drv) > 7 && drv[len(drv)-7:] == "+honour" {
			drv = drv[:len(drv)-7]
		}
		rq, _ := json.Marshal(travReq{Mode: mode, DeadlineS: 120, Driver: drv, Graph: in.Graph, Progs: [][]tStmt{in.Prog}})
		r := runIsolated("trav", []json.RawMessage{rq}, 1, 4*time.Minute)
		var o2 []tOutcome
		if len(r) == 1 && !r[0].Crashed && !r[0].Timeout && json.Unmarshal(r[0].Out, &o2) == nil && len(o2) == 1 {
			outs[i] = o2[0]
		}
		ctx.Notes["rerun_alone"] = fmt.Sprintf("%d programs whose stream had not closed under load were re-run alone", again)
	}
	return outs
}

func lastLines(s string, n int) string {
	lines := []string{}
	cur := ""
	for _, c := range s {
		if c == '\n' {
			lines = append(lines, cur)
			cur = ""
		} else {
			cur += string(c)
		}
	}
	if cur != "" {
		lines = append(lines, cur)
	}
	// the panic header is what matters
	for i, l := range lines {
		if len(l) > 6 && (l[:6] == "panic:" || l[:6] == "fatal ") {
			end := i + n
			if end > len(lines) {
				end = len(lines)
			}
			out := ""
			for _, x := range lines[i:end] {
				out += x + "\n"
			}
			return out
		}
	}
	if len(lines) > n {
		lines = lines[len(lines)-n:]
	}
	out := ""
	for _, x := range lines {
		out += x + "\n"
	}
	return out
}

func runC01(ctx *Ctx) error {
	ctx.EvalMod = "Eval_C01"
	ctx.CaseTy = "c01_case"
	ctx.Shard = 150
	ctx.Rule = "programs = start (V / V(ids incl. missing and repeated) / E / E(ids)) followed by every sequence of <= 2 (thorough: 3) steps over a 27-step alphabet on a fixed graph with a self loop, parallel edges, dangling endpoints, an isolated vertex and nested data (exhaustive), plus random graphs x random programs up to 8-11 steps (has-expressions over marks, fields, unwind, render, path, select, distinct, windows last or followed by count only; ~4% deliberately ill-typed); executed literally (core.StatementProcessor for every statement, all loads forced) on kvgraph/Badger; non-trivial = well typed, >= 1 row, >= 2 steps after the start; distinct by (graph, program)"
	var inputs []c01Input
	if ctx.Replay != nil {
		var in c01Input
		if err := json.Unmarshal(ctx.Replay, &in); err != nil {
			return err
		}
		inputs = []c01Input{in}
	} else {
		inputs = genC01Cases(ctx)
	}
	outs := runTravCases(ctx, inputs, "literal")
	for i, in := range inputs {
		o := outs[i]
		c := coq.Record("cgraph", in.Graph.coq(), "cprog", progCoq(in.Prog), "cobs", outcomeCoq(o))
		key, _ := json.Marshal(in)
		tags := []string{"len=" + bucket(len(in.Prog))}
		if o.Rejected {
			tags = append(tags, "rejected")
		} else {
			tags = append(tags, "rows="+bucket(len(o.Rows)))
		}
		seen := map[string]bool{}
		for _, s := range in.Prog {
			if !seen[s.Op] {
				seen[s.Op] = true
				tags = append(tags, "op="+s.Op)
			}
		}
		ctx.Add(Case{Input: in, Observed: o, Coq: c, Nontrivial: !o.Rejected && len(o.Rows) >= 1 && len(in.Prog) >= 3, Key: string(key), Tags: tags})
	}
	return nil
}
