(* C01  Traversal results equal the documented step-by-step semantics.
   Model/Traversal.v gives every documented step its meaning over the abstract graph (which by C03_observe is
   what the store's adjacency/lookups denote) and replays compile.go's typing. Proved here:
     - C01_reject / C01_typed: an ill-typed traversal is rejected before any row exists; a well-typed one runs
       every step (typing and execution are interleaved exactly as one fold);
     - C01_window: row count of limit/skip/range by the arithmetic of the bounds; the rows are a sub-sequence of
       the input; and for a window at ANY position followed by row-wise steps, the final rows are a sub-sequence
       (hence sub-multiset) of the rows of the same program without the window;
     - C01_null_moves: outNull/inNull/outENull/inENull are the plain move plus one null row per traveler the plain move
       drops, nothing else;
     - C01_sound: in a well-typed program without null-producing moves no step meets a traveler lacking the current element or mark it
       needs (this is what makes the per-step meanings total: no nil dereference, for every graph and program);
     - C01_order_free: for programs without windows/distinct the result multiset does not depend on the order
       in which any step delivers its rows (scan order, goroutine interleaving of both()).
   The correspondence check ties step meanings and typing to the implementation on every run. *)
From Coq Require Import List ZArith String Bool NArith Permutation.
Import ListNotations.
From Grip Require Import Model.Json Model.Has Model.Traversal Proofs.TraversalProofs.
Local Open Scope list_scope.

Theorem C01_reject : forall g p, type_of p = None -> run g p = Rejected.
Proof. intros g p H. unfold run. now rewrite H. Qed.
Print Assumptions C01_reject.

Theorem C01_typed : forall g p ty, type_of p = Some ty -> exists rows, run g p = Rows rows.
Proof. intros g p ty H. unfold run. rewrite H. destruct p; eauto. Qed.
Print Assumptions C01_typed.

Theorem C01_window : forall g d ts,
  (forall n, List.length (step g d (SLimit n) ts) = Nat.min (N.to_nat n) (List.length ts)) /\
  (forall n, List.length (step g d (SSkip n) ts) = List.length ts - N.to_nat n) /\
  (forall a b, Z.of_nat (List.length (step g d (SRange a b) ts)) =
               Z.max 0 ((if (b =? -1)%Z then Z.of_nat (List.length ts) else Z.min b (Z.of_nat (List.length ts))) - Z.max a 0)) /\
  (forall w, is_window w = true -> sublist (step g d w ts) ts).
Proof.
  intros g d ts. destruct (window_count g d ts) as [H1 [H2 H3]]. repeat split; auto.
  intros w Hw. now apply window_sublist.
Qed.
Print Assumptions C01_window.

Theorem C01_window_anywhere : forall g w p2 d mt travs, is_window w = true -> forallb rowwise p2 = true ->
  match run_from g (d, mt) p2 (step g d w travs), run_from g (d, mt) p2 travs with
  | Some (t1, o1), Some (t2, o2) => t1 = t2 /\ sublist o1 o2
  | None, None => True
  | _, _ => False
  end.
Proof.
  intros g w p2 d mt travs Hw Hp. apply (window_anywhere g w Hw p2 Hp mt d).
  now apply window_sublist.
Qed.
Print Assumptions C01_window_anywhere.

Theorem C01_sound : forall g p ty out, null_free p = true -> run_from g (DNone, []) p [t0] = Some (ty, out) ->
  Forall (fun t => (is_elem (fst ty) = true -> t_cur t <> None) /\
                   (revivable (fst ty) = true -> forall m d, get_assoc m (snd ty) = Some d -> is_elem d = true ->
                                                  get_assoc m (t_marks t) <> None)) out.
Proof.
  intros g p ty out Hnf H. apply (run_sound g p (DNone, []) [t0] ty out Hnf H). constructor; [apply wk_t0|constructor].
Qed.
Print Assumptions C01_sound.

(* the null-producing moves (outNull, inNull, outENull, inENull), from vertices: exactly the rows of the plain move, in the
   same order, plus one row without a current element for every traveler the plain move leads nowhere from; from an edge
   they are the plain moves *)
Theorem C01_null_moves : forall g ls ts,
  let nulls (l : list trav) := List.length (filter (fun x => negb (has_cur x)) l) in
  (filter has_cur (step g DVertex (SOutNull ls) ts) = step g DVertex (SOut ls) ts /\
   nulls (step g DVertex (SOutNull ls) ts) = List.length (filter (nowhere (out_of g ls)) ts)) /\
  (filter has_cur (step g DVertex (SInNull ls) ts) = step g DVertex (SIn ls) ts /\
   nulls (step g DVertex (SInNull ls) ts) = List.length (filter (nowhere (in_of g ls)) ts)) /\
  (filter has_cur (step g DVertex (SOutENull ls) ts) = step g DVertex (SOutE ls) ts /\
   nulls (step g DVertex (SOutENull ls) ts) = List.length (filter (nowhere (oute_of g ls)) ts)) /\
  (filter has_cur (step g DVertex (SInENull ls) ts) = step g DVertex (SInE ls) ts /\
   nulls (step g DVertex (SInENull ls) ts) = List.length (filter (nowhere (ine_of g ls)) ts)).
Proof. exact null_moves. Qed.
Print Assumptions C01_null_moves.

(* unwind (any path, nested ones included): as many rows as the list under the path has items (one row otherwise), each
   keeping the marks of the traveler and the identity of the element *)
Theorem C01_unwind_shape : forall f t c, t_cur t = Some c ->
  List.length (unwind_of f t) = match look t f with Some (JList (x :: r)) => S (List.length r) | _ => 1 end /\
  Forall (fun t' => t_marks t' = t_marks t /\
                    exists c', t_cur t' = Some c' /\ e_gid c' = e_gid c /\ e_label c' = e_label c /\ e_from c' = e_from c /\ e_to c' = e_to c)
         (unwind_of f t).
Proof. exact unwind_shape. Qed.
Print Assumptions C01_unwind_shape.

Theorem C01_order_free : forall g p ts a b, forallb order_free p = true -> Permutation a b ->
  match run_from g ts p a, run_from g ts p b with
  | Some (t1, o1), Some (t2, o2) => t1 = t2 /\ Permutation o1 o2
  | None, None => True
  | _, _ => False
  end.
Proof. intros g p ts a b Hp Hab. now apply run_perm. Qed.
Print Assumptions C01_order_free.

Example C01_nonvacuous :
  let g := {| gv := [{| v_id := "a"; v_label := "P"; v_data := [("w", JNum (QArith_base.Qmake 1 1))] |}; {| v_id := "b"; v_label := "Q"; v_data := [] |}];
              ge := [{| ed_id := "e0"; ed_label := "knows"; ed_from := "a"; ed_to := "b"; ed_data := [] |};
                     {| ed_id := "e1"; ed_label := "knows"; ed_from := "a"; ed_to := "b"; ed_data := [] |};
                     {| ed_id := "e2"; ed_label := "likes"; ed_from := "b"; ed_to := "b"; ed_data := [] |};
                     {| ed_id := "e3"; ed_label := "likes"; ed_from := "b"; ed_to := "zz"; ed_data := [] |}] |}%string in
  run g [SV []; SAs "m"; SOut []; SBoth ["likes"]; SSelect ["m"]; SCount]%string = Rows [JMap [("count", JNum (QArith_base.Qmake 6 1))]]%string
  /\ run g [SV []; SCount; SOut []]%string = Rejected
  /\ run g [SV []; SOutNull ["knows"]; SCount]%string = Rows [JMap [("count", JNum (QArith_base.Qmake 3 1))]]%string
  /\ run g [SV ["b"]; SOutNull ["knows"]]%string = Rows [JMap [("type", JStr "vertex")]]%string.
Proof. vm_compute. auto. Qed.
