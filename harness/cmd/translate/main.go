// translate: regenerates coq/Gen/*.v from /repo's current source (go/ast).
//
//	translate <Table> -repo /repo      prints the Coq file on stdout
//
// Anything that does not match a known shape is emitted as an `Unrecognised "<pos>"` entry,
// which makes the dependent theorem fail to check (fail closed).
package main

import (
	"flag"
	"fmt"
	"go/ast"
	"go/parser"
	"go/token"
	"os"
	"path/filepath"
	"sort"
	"strconv"
	"strings"
)

var fset = token.NewFileSet()

func parse(repo, rel string) *ast.File {
	f, err := parser.ParseFile(fset, filepath.Join(repo, rel), nil, parser.ParseComments)
	if err != nil {
		fmt.Fprintln(os.Stderr, "parse:", err)
		os.Exit(1)
	}
	return f
}

func cstr(s string) string { return "\"" + strings.ReplaceAll(s, "\"", "\"\"") + "\"" }
func clist(items []string) string {
	if len(items) == 0 {
		return "[]"
	}
	return "[" + strings.Join(items, ";\n   ") + "]"
}
func cbool(b bool) string {
	if b {
		return "true"
	}
	return "false"
}
func lit(e ast.Expr) (string, bool) {
	if b, ok := e.(*ast.BasicLit); ok && b.Kind == token.STRING {
		s, err := strconv.Unquote(b.Value)
		return s, err == nil
	}
	return "", false
}
func pos(n ast.Node) string { return fset.Position(n.Pos()).String() }

func main() {
	if len(os.Args) < 2 {
		fmt.Fprintln(os.Stderr, "usage: translate <Table> -repo DIR")
		os.Exit(2)
	}
	table := os.Args[1]
	fs := flag.NewFlagSet("translate", flag.ExitOnError)
	repo := fs.String("repo", "/repo", "repository root")
	fs.Parse(os.Args[2:])
	switch table {
	case "AuthTables":
		authTables(*repo)
	case "SqlTemplates":
		sqlTemplates(*repo)
	case "LockTable":
		lockTable(*repo)
	case "TypingTables":
		typingTables(*repo)
	case "Consts":
		consts(*repo)
	default:
		fmt.Fprintln(os.Stderr, "unknown table", table)
		os.Exit(2)
	}
}

// ---------------------------------------------------------------------------------------------
// AuthTables
// ---------------------------------------------------------------------------------------------

type exposedM struct {
	name string
	kind string // Unary ServerStream ClientStream BidiStream
}

func serviceDescs(repo string) []exposedM {
	f := parse(repo, "gripql/gripql_grpc.pb.go")
	out := []exposedM{}
	ast.Inspect(f, func(n ast.Node) bool {
		vs, ok := n.(*ast.ValueSpec)
		if !ok || len(vs.Names) != 1 || !strings.HasSuffix(vs.Names[0].Name, "_ServiceDesc") || len(vs.Values) != 1 {
			return true
		}
		cl, ok := vs.Values[0].(*ast.CompositeLit)
		if !ok {
			return true
		}
		svc := ""
		for _, el := range cl.Elts {
			kv := el.(*ast.KeyValueExpr)
			k := kv.Key.(*ast.Ident).Name
			switch k {
			case "ServiceName":
				svc, _ = lit(kv.Value)
			case "Methods", "Streams":
				for _, m := range kv.Value.(*ast.CompositeLit).Elts {
					ml := m.(*ast.CompositeLit)
					name := ""
					server, client := false, false
					for _, f := range ml.Elts {
						fkv := f.(*ast.KeyValueExpr)
						switch fkv.Key.(*ast.Ident).Name {
						case "MethodName", "StreamName":
							name, _ = lit(fkv.Value)
						case "ServerStreams":
							server = fkv.Value.(*ast.Ident).Name == "true"
						case "ClientStreams":
							client = fkv.Value.(*ast.Ident).Name == "true"
						}
					}
					kind := "Unary"
					if k == "Streams" {
						switch {
						case server && client:
							kind = "BidiStream"
						case server:
							kind = "ServerStream"
						case client:
							kind = "ClientStream"
						default:
							kind = "BidiStream"
						}
					}
					out = append(out, exposedM{name: "/" + svc + "/" + name, kind: kind})
				}
			}
		}
		return true
	})
	sort.Slice(out, func(i, j int) bool { return out[i].name < out[j].name })
	return out
}

func methodMap(repo string) ([][2]string, []string) {
	f := parse(repo, "accounts/interface.go")
	out := [][2]string{}
	unrec := []string{}
	ast.Inspect(f, func(n ast.Node) bool {
		vs, ok := n.(*ast.ValueSpec)
		if !ok || len(vs.Names) != 1 || vs.Names[0].Name != "MethodMap" {
			return true
		}
		cl, ok := vs.Values[0].(*ast.CompositeLit)
		if !ok {
			unrec = append(unrec, pos(vs))
			return false
		}
		for _, el := range cl.Elts {
			kv, ok := el.(*ast.KeyValueExpr)
			if !ok {
				unrec = append(unrec, pos(el))
				continue
			}
			k, ok1 := lit(kv.Key)
			v, ok2 := kv.Value.(*ast.Ident)
			if !ok1 || !ok2 {
				unrec = append(unrec, pos(el))
				continue
			}
			out = append(out, [2]string{k, "Op" + v.Name})
		}
		return false
	})
	return out, unrec
}

func findFunc(f *ast.File, name string) *ast.FuncDecl {
	for _, d := range f.Decls {
		if fd, ok := d.(*ast.FuncDecl); ok && fd.Name.Name == name {
			return fd
		}
	}
	return nil
}

func isCall(e ast.Expr, recv, fn string) bool {
	c, ok := e.(*ast.CallExpr)
	if !ok {
		return false
	}
	if recv == "" {
		id, ok := c.Fun.(*ast.Ident)
		return ok && id.Name == fn
	}
	sel, ok := c.Fun.(*ast.SelectorExpr)
	if !ok || sel.Sel.Name != fn {
		return false
	}
	id, ok := sel.X.(*ast.Ident)
	return ok && id.Name == recv
}

// firstCallPos returns the source offset of the first call recv.fn( inside the statements, or -1
func firstCall(stmts []ast.Stmt, recv, fn string) (token.Pos, *ast.CallExpr) {
	var p token.Pos = -1
	var call *ast.CallExpr
	for _, s := range stmts {
		ast.Inspect(s, func(n ast.Node) bool {
			if e, ok := n.(ast.Expr); ok && isCall(e, recv, fn) && (p == -1 || n.Pos() < p) {
				p = n.Pos()
				call = n.(*ast.CallExpr)
			}
			return true
		})
	}
	return p, call
}

// guarded: the statements contain  err = X.Enforce(...) ; if err != nil { return <error> }  before any handler( call
func enforceGuards(stmts []ast.Stmt, recv string) (bool, *ast.CallExpr) {
	ep, ecall := firstCall(stmts, recv, "Enforce")
	hp, _ := firstCall(stmts, "", "handler")
	if ep == -1 || hp == -1 || ep > hp {
		return false, ecall
	}
	// an `if err != nil { return ... }` must sit between them at the top level of the clause
	for _, s := range stmts {
		ifs, ok := s.(*ast.IfStmt)
		if !ok || s.Pos() < ep || s.Pos() > hp {
			continue
		}
		be, ok := ifs.Cond.(*ast.BinaryExpr)
		if !ok || be.Op != token.NEQ {
			continue
		}
		if id, ok := be.X.(*ast.Ident); !ok || id.Name != "err" {
			continue
		}
		if len(ifs.Body.List) > 0 {
			if r, ok := ifs.Body.List[len(ifs.Body.List)-1].(*ast.ReturnStmt); ok && len(r.Results) > 0 && !isCall(r.Results[len(r.Results)-1], "", "handler") {
				return true, ecall
			}
		}
	}
	return false, ecall
}

func exprString(e ast.Expr) string {
	switch x := e.(type) {
	case *ast.Ident:
		return x.Name
	case *ast.SelectorExpr:
		return exprString(x.X) + "." + x.Sel.Name
	case *ast.BasicLit:
		return x.Value
	case *ast.IndexExpr:
		return exprString(x.X) + "[" + exprString(x.Index) + "]"
	case *ast.StarExpr:
		return "*" + exprString(x.X)
	case *ast.UnaryExpr:
		return x.Op.String() + exprString(x.X)
	}
	return "?"
}

func graphArg(e ast.Expr) string {
	s := exprString(e)
	switch {
	case s == "\"*\"":
		return "GStar"
	case strings.HasSuffix(s, ".Graph"):
		return "GRequest"
	case s == "graph":
		return "GRequest"
	}
	return "GUnknown"
}
func opArg(e ast.Expr) string {
	s := exprString(e)
	switch {
	case s == "MethodMap[info.FullMethod]" || s == "op":
		return "OFromMap"
	case s == "Query" || s == "Write" || s == "Read" || s == "Exec" || s == "Admin":
		return "(OLit Op" + s + ")"
	}
	return "OUnknown"
}

func authTables(repo string) {
	var b strings.Builder
	b.WriteString("(* GENERATED by harness/cmd/translate from /repo on every check run. Do not edit. *)\n")
	b.WriteString("From Coq Require Import List String Bool.\nImport ListNotations.\nFrom Grip Require Import Model.AuthTypes.\nLocal Open Scope string_scope.\n\n")
	unrec := []string{}

	// 1. exposed methods
	ex := serviceDescs(repo)
	items := []string{}
	for _, m := range ex {
		items = append(items, fmt.Sprintf("(%s, %s)", cstr(m.name), m.kind))
	}
	b.WriteString("Definition exposed : list (string * mkind) :=\n  " + clist(items) + ".\n\n")

	// 2. method map
	mm, u := methodMap(repo)
	unrec = append(unrec, u...)
	items = nil
	for _, kv := range mm {
		items = append(items, fmt.Sprintf("(%s, %s)", cstr(kv[0]), kv[1]))
	}
	b.WriteString("Definition method_map : list (string * op) :=\n  " + clist(items) + ".\n\n")

	// 3. getUnaryRequestGraph
	uf := parse(repo, "accounts/util.go")
	items = nil
	if fd := findFunc(uf, "getUnaryRequestGraph"); fd != nil {
		for _, s := range fd.Body.List {
			sw, ok := s.(*ast.SwitchStmt)
			if !ok {
				continue
			}
			if exprString(sw.Tag) != "info.FullMethod" {
				unrec = append(unrec, pos(sw))
				continue
			}
			for _, c := range sw.Body.List {
				cc := c.(*ast.CaseClause)
				kind := "GUnknown"
				for _, st := range cc.Body {
					if r, ok := st.(*ast.ReturnStmt); ok && len(r.Results) == 2 {
						kind = graphArg(r.Results[0])
					}
				}
				for _, e := range cc.List {
					name, ok := lit(e)
					if !ok {
						unrec = append(unrec, pos(e))
						continue
					}
					items = append(items, fmt.Sprintf("(%s, %s)", cstr(name), kind))
				}
			}
		}
	} else {
		unrec = append(unrec, "accounts/util.go: getUnaryRequestGraph not found")
	}
	b.WriteString("Definition unary_graph : list (string * gsrc) :=\n  " + clist(items) + ".\n\n")

	// 4. unary interceptor shape
	unaryOK := false
	if fd := findFunc(uf, "unaryAuthInterceptor"); fd != nil {
		ast.Inspect(fd, func(n ast.Node) bool {
			fl, ok := n.(*ast.FuncLit)
			if !ok {
				return true
			}
			stmts := fl.Body.List
			vp, _ := firstCall(stmts, "auth", "Validate")
			hp, _ := firstCall(stmts, "", "handler")
			// validate first, with an error return, and Enforce guarding the handler inside the MethodMap branch
			validateGuard := false
			for _, s := range stmts {
				if ifs, ok := s.(*ast.IfStmt); ok && s.Pos() > vp && s.Pos() < hp {
					if be, ok := ifs.Cond.(*ast.BinaryExpr); ok && be.Op == token.NEQ && exprString(be.X) == "err" {
						if _, ok := ifs.Body.List[len(ifs.Body.List)-1].(*ast.ReturnStmt); ok {
							validateGuard = true
						}
					}
				}
			}
			enf := false
			lastRefuses := false
			for _, s := range stmts {
				if ifs, ok := s.(*ast.IfStmt); ok && ifs.Init != nil && strings.Contains(exprString(ifs.Init.(*ast.AssignStmt).Rhs[0]), "MethodMap[") {
					g, call := enforceGuards(ifs.Body.List, "access")
					enf = g && call != nil && len(call.Args) == 3 && exprString(call.Args[0]) == "user" && graphArg(call.Args[1]) == "GRequest" && opArg(call.Args[2]) == "OFromMap"
					// graph extraction error returns before Enforce
				}
			}
			if r, ok := stmts[len(stmts)-1].(*ast.ReturnStmt); ok && len(r.Results) == 2 && !isCall(r.Results[0], "", "handler") && exprString(r.Results[0]) == "nil" {
				lastRefuses = true
			}
			unaryOK = vp != -1 && vp < hp && validateGuard && enf && lastRefuses
			return false
		})
	}
	b.WriteString("Definition unary_shape_ok : bool := " + cbool(unaryOK) + ".\n\n")

	// 5. stream interceptor
	items = nil
	sdefault, cdefault, bulkFiltered, svalidate := "DUnknown", "DUnknown", false, false
	if fd := findFunc(uf, "streamAuthInterceptor"); fd != nil {
		ast.Inspect(fd, func(n ast.Node) bool {
			fl, ok := n.(*ast.FuncLit)
			if !ok {
				return true
			}
			stmts := fl.Body.List
			vp, _ := firstCall(stmts, "auth", "Validate")
			for _, s := range stmts {
				if ifs, ok := s.(*ast.IfStmt); ok && s.Pos() > vp {
					if be, ok := ifs.Cond.(*ast.BinaryExpr); ok && be.Op == token.NEQ && exprString(be.X) == "err" {
						if _, ok := ifs.Body.List[len(ifs.Body.List)-1].(*ast.ReturnStmt); ok {
							svalidate = vp != -1
						}
					}
				}
				ifs, ok := s.(*ast.IfStmt)
				if !ok || exprString(ifs.Cond) != "info.IsServerStream" {
					continue
				}
				// server-stream branch
				for _, st := range ifs.Body.List {
					if sw, ok := st.(*ast.SwitchStmt); ok && exprString(sw.Tag) == "info.FullMethod" {
						for _, c := range sw.Body.List {
							cc := c.(*ast.CaseClause)
							g, call := enforceGuards(cc.Body, "access")
							gs, os := "GUnknown", "OUnknown"
							if call != nil && len(call.Args) == 3 && exprString(call.Args[0]) == "user" {
								gs, os = graphArg(call.Args[1]), opArg(call.Args[2])
							}
							for _, e := range cc.List {
								name, ok := lit(e)
								if !ok {
									unrec = append(unrec, pos(e))
									continue
								}
								items = append(items, fmt.Sprintf("(%s, {| sc_enforced := %s; sc_graph := %s; sc_op := %s |})", cstr(name), cbool(g), gs, os))
							}
						}
					}
				}
				if r, ok := ifs.Body.List[len(ifs.Body.List)-1].(*ast.ReturnStmt); ok && len(r.Results) == 1 {
					if isCall(r.Results[0], "", "handler") {
						sdefault = "DRunsHandler"
					} else {
						sdefault = "DRefuses"
					}
				}
				// client-stream branch
				if eb, ok := ifs.Else.(*ast.IfStmt); ok && exprString(eb.Cond) == "info.IsClientStream" {
					for _, st := range eb.Body.List {
						inner, ok := st.(*ast.IfStmt)
						if !ok {
							continue
						}
						if be, ok := inner.Cond.(*ast.BinaryExpr); ok && be.Op == token.EQL && exprString(be.X) == "info.FullMethod" {
							if name, _ := lit(be.Y); name == "/gripql.Edit/BulkAdd" {
								for _, x := range inner.Body.List {
									if r, ok := x.(*ast.ReturnStmt); ok && len(r.Results) == 1 && isCall(r.Results[0], "", "handler") {
										c := r.Results[0].(*ast.CallExpr)
										if len(c.Args) == 2 && strings.Contains(exprString(c.Args[1]), "&") {
											if ue, ok := c.Args[1].(*ast.UnaryExpr); ok {
												if cl, ok := ue.X.(*ast.CompositeLit); ok && exprString(cl.Type) == "BulkWriteFilter" {
													bulkFiltered = true
												}
											}
										}
									}
								}
							}
							if els, ok := inner.Else.(*ast.BlockStmt); ok {
								if r, ok := els.List[len(els.List)-1].(*ast.ReturnStmt); ok && len(r.Results) == 1 {
									if isCall(r.Results[0], "", "handler") {
										cdefault = "DRunsHandler"
									} else {
										cdefault = "DRefuses"
									}
								}
							}
						}
					}
				}
			}
			return false
		})
	}
	b.WriteString("Definition stream_cases : list (string * stream_case) :=\n  " + clist(items) + ".\n")
	b.WriteString("Definition stream_validates_first : bool := " + cbool(svalidate) + ".\n")
	b.WriteString("Definition server_stream_default : sdefault := " + sdefault + ".\n")
	b.WriteString("Definition client_stream_default : sdefault := " + cdefault + ".\n")
	b.WriteString("Definition bulk_add_filtered : bool := " + cbool(bulkFiltered) + ".\n\n")

	// 6. BulkWriteFilter.RecvMsg: Enforce(bw.User, ge.Graph, Write) guards the copy-out
	bf := parse(repo, "accounts/bulk_write_filter.go")
	filterOK := false
	for _, d := range bf.Decls {
		fd, ok := d.(*ast.FuncDecl)
		if !ok || fd.Name.Name != "RecvMsg" {
			continue
		}
		ast.Inspect(fd, func(n ast.Node) bool {
			fs, ok := n.(*ast.ForStmt)
			if !ok {
				return true
			}
			ep, call := firstCall(fs.Body.List, "bw.Access", "Enforce")
			if call == nil {
				// selector receiver bw.Access
				ast.Inspect(fs, func(m ast.Node) bool {
					if c, ok := m.(*ast.CallExpr); ok {
						if sel, ok := c.Fun.(*ast.SelectorExpr); ok && sel.Sel.Name == "Enforce" && exprString(sel.X) == "bw.Access" {
							call, ep = c, c.Pos()
						}
					}
					return true
				})
			}
			if call == nil || len(call.Args) != 3 || exprString(call.Args[0]) != "bw.User" || exprString(call.Args[1]) != "ge.Graph" || exprString(call.Args[2]) != "Write" {
				return false
			}
			// the element is handed out only under `if err == nil`
			for _, s := range fs.Body.List {
				if ifs, ok := s.(*ast.IfStmt); ok && s.Pos() > ep {
					if be, ok := ifs.Cond.(*ast.BinaryExpr); ok && be.Op == token.EQL && exprString(be.X) == "err" && exprString(be.Y) == "nil" {
						hasReturn := false
						for _, x := range ifs.Body.List {
							if _, ok := x.(*ast.ReturnStmt); ok {
								hasReturn = true
							}
						}
						// and nothing returns the element in the else branch
						elseReturns := false
						if eb, ok := ifs.Else.(*ast.BlockStmt); ok {
							for _, x := range eb.List {
								if _, ok := x.(*ast.ReturnStmt); ok {
									elseReturns = true
								}
							}
						}
						filterOK = hasReturn && !elseReturns
					}
				}
			}
			return false
		})
	}
	b.WriteString("Definition bulk_filter_enforces : bool := " + cbool(filterOK) + ".\n\n")

	// 7. wiring in server/server.go
	sf := parse(repo, "server/server.go")
	items = nil
	grpcOK := false
	chainU, chainS := false, false
	ast.Inspect(sf, func(n ast.Node) bool {
		c, ok := n.(*ast.CallExpr)
		if !ok {
			return true
		}
		fn := exprString(c.Fun)
		if strings.HasPrefix(fn, "gripql.New") && strings.HasSuffix(fn, "DirectClient") {
			u, s := false, false
			for _, a := range c.Args {
				if ac, ok := a.(*ast.CallExpr); ok {
					if exprString(ac.Fun) == "gripql.DirectUnaryInterceptor" && len(ac.Args) == 1 && exprString(ac.Args[0]) == "unaryAuthInt" {
						u = true
					}
					if exprString(ac.Fun) == "gripql.DirectStreamInterceptor" && len(ac.Args) == 1 && exprString(ac.Args[0]) == "streamAuthInt" {
						s = true
					}
				}
			}
			items = append(items, fmt.Sprintf("(%s, %s)", cstr(strings.TrimPrefix(fn, "gripql.")+"@"+fmt.Sprint(fset.Position(c.Pos()).Line)), cbool(u && s)))
		}
		if fn == "grpc_middleware.ChainUnaryServer" {
			for _, a := range c.Args {
				if exprString(a) == "unaryAuthInt" {
					chainU = true
				}
			}
		}
		if fn == "grpc_middleware.ChainStreamServer" {
			for _, a := range c.Args {
				if exprString(a) == "streamAuthInt" {
					chainS = true
				}
			}
		}
		if fn == "grpc.NewServer" {
			hu, hs := false, false
			for _, a := range c.Args {
				if exprString(a) == "chainUnaryInt" {
					hu = true
				}
				if exprString(a) == "chainStreamInt" {
					hs = true
				}
			}
			grpcOK = hu && hs
		}
		return true
	})
	b.WriteString("Definition gateway_clients : list (string * bool) :=\n  " + clist(items) + ".\n")
	b.WriteString("Definition grpc_server_chained : bool := " + cbool(grpcOK && chainU && chainS) + ".\n\n")

	items = nil
	for _, u := range unrec {
		items = append(items, cstr(u))
	}
	b.WriteString("Definition unrecognised : list string :=\n  " + clist(items) + ".\n")
	fmt.Print(b.String())
}
