(* C10  All embedded key-value drivers behave as the same ordered map.
   The ordered map is Model/KV.v; these theorems say that it IS an ordered byte-string map
   (so a driver that agrees with it on a script agrees with the property), for every store,
   key, prefix and script.  The drivers themselves are tied to it by the correspondence check. *)
From Coq Require Import List NArith Bool.
Import ListNotations.
From Grip Require Import Model.Bytes Model.KV Proofs.KVProofs.

Theorem C10_scripts_keep_sorted : forall ops, ksorted (fst (kv_run [] ops)).
Proof. intros ops. exact (kv_run_sorted ops [] ksorted_nil). Qed.
Print Assumptions C10_scripts_keep_sorted.

Theorem C10_map_laws : forall s k v k' p, ksorted s ->
  kv_get (kv_set s k v) k' = (if beqb k' k then Some v else kv_get s k') /\
  kv_get (kv_del s k) k' = (if beqb k' k then None else kv_get s k') /\
  kv_get (kv_del_prefix s p) k' = (if is_prefix p k' then None else kv_get s k') /\
  (kv_get s k = Some v <-> In (k, v) s).
Proof. intros s k v k' p H. split; [|split; [|split]].
  - exact (kv_get_set s k v k' H).
  - exact (kv_get_del s k k' H).
  - exact (kv_get_del_prefix s p k' H).
  - exact (kv_get_in s k v H).
Qed.
Print Assumptions C10_map_laws.

Theorem C10_seek_least : forall s k, ksorted s ->
  match seek s k with
  | Some (k', v) => In (k', v) s /\ bleb k k' = true /\ forall k2 v2, In (k2, v2) s -> bleb k k2 = true -> bleb k' k2 = true
  | None => forall k2 v2, In (k2, v2) s -> bleb k k2 = false
  end.
Proof. exact seek_spec. Qed.
Print Assumptions C10_seek_least.

(* the Seek / Valid && HasPrefix / Next loop returns exactly the entries carrying the prefix, in key order *)
Theorem C10_prefix_scan : forall s p, ksorted s ->
  prefix_scan s p = filter (fun kv => is_prefix p (fst kv)) s.
Proof. exact prefix_scan_filter. Qed.
Print Assumptions C10_prefix_scan.

(* a sorted store is determined by its lookups: two backends related to the same abstract map hold the
   same store, hence answer every script (and every model built on KV.v: C03, C09) identically *)
Theorem C10_same : forall s1 s2, ksorted s1 -> ksorted s2 -> (forall k, kv_get s1 k = kv_get s2 k) ->
  forall ops, kv_run s1 ops = kv_run s2 ops.
Proof. intros s1 s2 H1 H2 He ops. rewrite (ksorted_ext s1 s2 H1 H2 He). reflexivity. Qed.
Print Assumptions C10_same.

(* a transactional or bulk update whose callback fails leaves the map exactly as it was, whatever it did before failing *)
Theorem C10_failed_update_leaves_no_trace : forall s ops kvs,
  kv_step s (OUpdateFail ops) = (s, RErr) /\ kv_step s (OBulkFail kvs) = (s, RErr).
Proof. intros s ops kvs. split; reflexivity. Qed.
Print Assumptions C10_failed_update_leaves_no_trace.

Example C10_nonvacuous :
  let s := fst (kv_run [] [OSet [2;1] [9]; OSet [1] []; OSet [2] [7]; OSet [3]%N [8]; ODel [3]])%N in
  s = [([1],[]); ([2],[7]); ([2;1],[9])]%N /\ prefix_scan s [2]%N = [([2],[7]); ([2;1],[9])]%N
  /\ seek_rev s [2;0]%N = Some ([2],[7])%N.
Proof. vm_compute. auto. Qed.
