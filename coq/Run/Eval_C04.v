(* C04 uses the evaluator of C03 (histories with restart and crash markers). *)
From Grip Require Export Run.Eval_C03.
