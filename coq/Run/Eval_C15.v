(* Correspondence evaluator for C15: traversals on the gripper graph vs Model/Traversal.v on the materialised
   graph of Model/Gripper.v (C01's row comparison), and vs the same graph loaded into the embedded store. *)
From Coq Require Import List String Bool Arith.
Import ListNotations.
From Grip Require Export Run.Eval_C01 Model.Gripper.
Local Open Scope string_scope.

Record c15_case := {
  c_mapping : mapping; c_prog : list stmt;
  o_gripper : outcome; o_store : outcome;
  o_writes : list string;          (* write calls that were NOT refused *)
  o_failed : bool;
  c_extra : bool }.                (* the program has a null-producing move (a tag for the evidence; judged like every other program) *)

Definition dup_edge_ids (m : mapping) : bool :=
  let ids := map ed_id (ge (materialise m)) in
  negb (Nat.eqb (List.length (nodup string_dec ids)) (List.length ids)).

(* the property on the observations: the gripper graph answers like the embedded store holding the materialised
   graph (where the store can hold it: no two link rows with the same endpoints), and refuses writes *)
Definition same_rows (a b : outcome) (p : list stmt) : bool :=
  match a, b with
  | Rejected, Rejected => true
  | Rows x, Rows y => match mode_of p with Exact => multiset_eqb x y | _ => Nat.eqb (List.length x) (List.length y) end
  | _, _ => false
  end.
Definition spec_ok (c : c15_case) : bool :=
  negb (o_failed c) && match o_writes c with [] => true | _ => false end
  && (dup_edge_ids (c_mapping c) || same_rows (o_gripper c) (o_store c) (c_prog c)).

Definition model_case (c : c15_case) : c01_case := {| cgraph := materialise (c_mapping c); cprog := c_prog c; cobs := o_gripper c |}.
Definition agrees15 (c : c15_case) : bool := negb (o_failed c) && agrees (model_case c).
Definition mismatches (cs : list c15_case) := idx_where (fun c => negb (agrees15 c)) 0 cs.
Definition spec_violations (cs : list c15_case) := idx_where (fun c => negb (spec_ok c)) 0 cs.
Definition explain (c : c15_case) :=
  (run (materialise (c_mapping c)) (c_prog c), mode_of (c_prog c), dup_edge_ids (c_mapping c), o_writes c).
