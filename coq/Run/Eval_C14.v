(* Correspondence evaluator for C14: the two real compilers' typing verdicts against core_ktype / mongo_ktype,
   the real convertHasExpression output against Model/Mongo.v's convert, and the property on the observations. *)
From Coq Require Import List ZArith QArith String Bool.
Import ListNotations.
From Grip Require Export Model.Bytes Model.Json Model.Has Model.Traversal Model.Mongo.
Local Close Scope Q_scope.
Local Open Scope string_scope.
Local Open Scope list_scope.
Local Open Scope nat_scope.

Inductive c14_case :=
| CType (ks : list skind) (core_obs mongo_obs : option tstate)
| CFilter (data : list (string * jv)) (e : hexpr) (observed : mfilter) (core_keeps : bool).

(* mark tables as finite maps *)
Definition marks_eqb (a b : list (string * dtype)) : bool :=
  let sub x y := forallb (fun p => match get_assoc (fst p) y with Some t => dtype_eqb t (snd p) | None => false end) x in
  sub a b && sub b a.
Definition ts_eqb (a b : option tstate) : bool :=
  match a, b with
  | None, None => true
  | Some (d, m), Some (d', m') => dtype_eqb d d' && marks_eqb m m'
  | _, _ => false
  end.

Fixpoint mop_eqb (a b : mop) : bool :=
  match a, b with
  | MEq x, MEq y | MNe x, MNe y | MGt x, MGt y | MGte x, MGte y | MLt x, MLt y | MLte x, MLte y
  | MIn x, MIn y | MElemEq x, MElemEq y => jeq x y
  | MNot x, MNot y => mop_eqb x y
  | _, _ => false
  end.
Fixpoint mf_eqb (a b : mfilter) : bool :=
  match a, b with
  | MAll, MAll => true
  | MField k o, MField k' o' => String.eqb k k' && mop_eqb o o'
  | MAnd l, MAnd l' | MOr l, MOr l' =>
      (fix go (x y : list mfilter) : bool :=
         match x, y with [], [] => true | p :: x', q :: y' => mf_eqb p q && go x' y' | _, _ => false end) l l'
  | _, _ => false
  end.

Definition elem_of (data : list (string * jv)) : element :=
  {| e_gid := "v1"; e_label := "L"; e_from := ""; e_to := ""; e_data := data |}.
(* the core engine's lookup (a JSON null reads back as Go nil, like a missing field) *)
Definition look_in (e : element) (k : string) : option jv :=
  match dig (to_dict e) (json_path k) with Some JNull => None | x => x end.

Definition agrees (c : c14_case) : bool :=
  match c with
  | CType ks co mo => ts_eqb (core_ktype ks) co && ts_eqb (mongo_ktype ks) mo
  | CFilter d e f keeps =>
      mf_eqb (convert e false) f
      && Bool.eqb (match_expr (look_in (elem_of d)) e) keeps
      (* the document correspondence assumed by convert_equiv, on the keys of this case *)
      && (fix keys (x : hexpr) : bool :=
            match x with
            | HCond k _ _ => match mget_doc (elem_of d) (convert_path k), look_in (elem_of d) k with
                             | Some JNull, None | None, None => true
                             | Some a, Some b => jeq a b
                             | _, _ => false
                             end
            | HAnd es | HOr es => forallb keys es
            | HNot y => keys y
            | HUnset => true
            end) e
  end.

(* the property, on the observations only *)
Definition filter_ok (d : list (string * jv)) (f : mfilter) (keeps : bool) : bool :=
  match meval (mget_doc (elem_of d)) f with Some b => Bool.eqb b keeps | None => false end.
Definition spec_ok (c : c14_case) : bool :=
  match c with
  | CType ks co mo => negb (defined_use ks) || ts_eqb co mo
  | CFilter d e f keeps => filter_ok d f keeps || negb (guard (look_in (elem_of d)) e)
  end.

Fixpoint idx_filter {A} (f : A -> bool) (l : list A) (i : nat) : list nat :=
  match l with [] => [] | x :: r => if f x then i :: idx_filter f r (S i) else idx_filter f r (S i) end.
Definition mismatches (cs : list c14_case) : list nat := idx_filter (fun c => negb (agrees c)) cs 0.
Definition spec_violations (cs : list c14_case) : list nat := idx_filter (fun c => negb (spec_ok c)) cs 0.
(* class 1: an ordering test (gt gte lt lte inside outside between) whose operand is not a number, or on a field
   holding numeric text: outside the guard, and the emitted filter selects differently from the core engine *)
Definition known_classes (cs : list c14_case) : list nat :=
  nodup Nat.eq_dec (flat_map (fun c => match c with
     | CFilter d e f keeps => if negb (guard (look_in (elem_of d)) e) && negb (filter_ok d f keeps) then [1] else []
     | _ => [] end) cs).

Definition explain (c : c14_case) :=
  match c with
  | CType ks co mo => (core_ktype ks, mongo_ktype ks, defined_use ks, MAll, @None bool, true)
  | CFilter d e f keeps => (None, None, guard (look_in (elem_of d)) e, convert e false,
                            meval (mget_doc (elem_of d)) f, match_expr (look_in (elem_of d)) e)
  end.
