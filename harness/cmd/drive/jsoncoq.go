package main

import (
	"fmt"
	"math/big"
	"sort"

	"github.com/bmeg/grip/gripql"
	"google.golang.org/protobuf/types/known/structpb"

	"gripverif/internal/coq"
)

// jvCoq prints a Go JSON value (as structpb.AsInterface yields it) as a Coq jv term.
func jvCoq(v interface{}) string {
	switch x := v.(type) {
	case nil:
		return "JNull"
	case bool:
		return "(JBool " + coq.Bool(x) + ")"
	case float64:
		r := new(big.Rat)
		r.SetFloat64(x)
		return fmt.Sprintf("(JNum (Qmake (%s)%%Z %s%%positive))", r.Num().String(), r.Denom().String())
	case int:
		return fmt.Sprintf("(JNum (Qmake (%d)%%Z 1%%positive))", x)
	case string:
		return "(JStr " + coq.Str(x) + ")"
	case []interface{}:
		items := make([]string, len(x))
		for i, e := range x {
			items[i] = jvCoq(e)
		}
		return "(JList " + coq.List(items) + ")"
	case map[string]interface{}:
		return "(JMap " + jmapCoq(x) + ")"
	}
	panic(fmt.Sprintf("jvCoq: %T", v))
}

func jmapCoq(m map[string]interface{}) string {
	keys := []string{}
	for k := range m {
		keys = append(keys, k)
	}
	sort.Strings(keys)
	items := make([]string, len(keys))
	for i, k := range keys {
		items[i] = coq.Pair(coq.Str(k), jvCoq(m[k]))
	}
	return coq.List(items)
}

// has-expression AST shared by several properties
type hExpr struct {
	Kind string      `json:"kind"` // cond and or not unset
	Key  string      `json:"key,omitempty"`
	Op   string      `json:"op,omitempty"`
	Arg  interface{} `json:"arg,omitempty"`
	Es   []hExpr     `json:"es,omitempty"`
}

var copNames = map[string]gripql.Condition{"eq": gripql.Condition_EQ, "neq": gripql.Condition_NEQ, "gt": gripql.Condition_GT,
	"gte": gripql.Condition_GTE, "lt": gripql.Condition_LT, "lte": gripql.Condition_LTE, "inside": gripql.Condition_INSIDE,
	"outside": gripql.Condition_OUTSIDE, "between": gripql.Condition_BETWEEN, "within": gripql.Condition_WITHIN,
	"without": gripql.Condition_WITHOUT, "contains": gripql.Condition_CONTAINS}
var copCoq = map[string]string{"eq": "CEq", "neq": "CNeq", "gt": "CGt", "gte": "CGte", "lt": "CLt", "lte": "CLte", "inside": "CInside",
	"outside": "COutside", "between": "CBetween", "within": "CWithin", "without": "CWithout", "contains": "CContains"}
var copList = []string{"eq", "neq", "gt", "gte", "lt", "lte", "inside", "outside", "between", "within", "without", "contains"}

func (h hExpr) proto() *gripql.HasExpression {
	switch h.Kind {
	case "cond":
		v, err := structpb.NewValue(h.Arg)
		if err != nil {
			panic(err)
		}
		return &gripql.HasExpression{Expression: &gripql.HasExpression_Condition{Condition: &gripql.HasCondition{Key: h.Key, Value: v, Condition: copNames[h.Op]}}}
	case "and":
		l := &gripql.HasExpressionList{}
		for _, e := range h.Es {
			l.Expressions = append(l.Expressions, e.proto())
		}
		return &gripql.HasExpression{Expression: &gripql.HasExpression_And{And: l}}
	case "or":
		l := &gripql.HasExpressionList{}
		for _, e := range h.Es {
			l.Expressions = append(l.Expressions, e.proto())
		}
		return &gripql.HasExpression{Expression: &gripql.HasExpression_Or{Or: l}}
	case "not":
		return &gripql.HasExpression{Expression: &gripql.HasExpression_Not{Not: h.Es[0].proto()}}
	}
	return &gripql.HasExpression{}
}

func (h hExpr) coq() string {
	switch h.Kind {
	case "cond":
		return fmt.Sprintf("(HCond %s %s %s)", coq.Str(h.Key), copCoq[h.Op], jvCoq(normArg(h.Arg)))
	case "and", "or":
		items := make([]string, len(h.Es))
		for i, e := range h.Es {
			items[i] = e.coq()
		}
		if h.Kind == "and" {
			return "(HAnd " + coq.List(items) + ")"
		}
		return "(HOr " + coq.List(items) + ")"
	case "not":
		return "(HNot " + h.Es[0].coq() + ")"
	}
	return "HUnset"
}

// normArg: JSON numbers decoded from replay files are float64 already; ints in generator literals become float64
func normArg(v interface{}) interface{} {
	switch x := v.(type) {
	case int:
		return float64(x)
	case []interface{}:
		out := make([]interface{}, len(x))
		for i, e := range x {
			out[i] = normArg(e)
		}
		return out
	case map[string]interface{}:
		out := map[string]interface{}{}
		for k, e := range x {
			out[k] = normArg(e)
		}
		return out
	}
	return v
}
