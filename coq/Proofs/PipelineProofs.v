From Coq Require Import List Arith Bool Lia.
Import ListNotations.
From Grip Require Import Model.Pipeline.

Section P.
  Variable A : Type.
  Variable cap : nat.
  Hypothesis cap_pos : 0 < cap.
  Notation pipe := (pipe A).
  Notation step := (step cap).
  Notation tstep := (tstep cap).

  (* ---------- shape and simple facts ---------- *)
  Lemma shape_push (p : pipe) y : shape (push p y) = shape p. Proof. destruct p; reflexivity. Qed.
  Lemma shape_close (p : pipe) : shape (close p) = shape p. Proof. destruct p; reflexivity. Qed.
  Lemma shape_cancel (p : pipe) : shape (cancel p) = shape p. Proof. destruct p; reflexivity. Qed.
  Lemma step_shape (p p' : pipe) : step p p' -> shape p' = shape p.
  Proof. induction 1; cbn [shape]; rewrite ?shape_push, ?shape_close, ?IHstep; reflexivity. Qed.

  Lemma head_closed_push (p : pipe) y : head_closed (push p y) = head_closed p. Proof. destruct p; reflexivity. Qed.
  Lemma head_closed_close (p : pipe) : head_closed (close p) = true. Proof. destruct p; reflexivity. Qed.
  Lemma step_head_closed (p p' : pipe) : step p p' -> head_closed p' = head_closed p.
  Proof. destruct 1; reflexivity. Qed.
  Lemma tstep_head_closed (p p' : pipe) : tstep p p' -> head_closed p' = head_closed p.
  Proof. destruct 1; [apply step_head_closed; assumption | destruct p; reflexivity]. Qed.

  (* ---------- well-formedness is invariant ---------- *)
  Lemma wf_push (p : pipe) y : wf p -> head_closed p = false -> wf (push p y).
  Proof.
    destruct p as [ch c g|ch c b fl st r]; cbn; [trivial|]. intros [H W] Hc. split; [|exact W].
    intros Hr. destruct (H Hr) as (_ & E & _). congruence.
  Qed.
  Lemma wf_close (p : pipe) : wf p -> wf (close p).
  Proof.
    destruct p as [ch c g|ch c b fl st r]; cbn; [trivial|]. intros [H W]. split; [|exact W].
    intros Hr. destruct (H Hr) as (E1 & _ & E3 & E4). auto.
  Qed.
  Lemma step_wf (p p' : pipe) : step p p' -> wf p -> wf p'.
  Proof.
    intros S. induction S as [x q c fl st r ys Hs | q c y b fl st r Hp | st r | st r Hc | q c b fl st r r' S IH | x q c g];
      cbn [wf]; try (intros [H W]).
    - split; [|exact W]. intros Hr. destruct (H Hr) as (E & _). discriminate.
    - destruct Hp as [_ Hc]. split; [|apply wf_push; assumption]. rewrite head_closed_push. intros Hr. congruence.
    - split; [|exact W]. intros Hr. destruct (H Hr) as (_ & _ & _ & E). discriminate.
    - split; [|apply wf_close; exact W]. intros _. auto.
    - split; [|apply IH; exact W]. rewrite (step_head_closed _ _ S). exact H.
    - trivial.
  Qed.
  Lemma cancel_wf (p : pipe) : wf p -> wf (cancel p).
  Proof. destruct p as [ch c g|ch c b fl st r]; cbn; [trivial|]. intros [H W]. split; [|exact W].
    intros Hr. destruct (H Hr) as (_ & E2 & E3 & E4). auto. Qed.
  Lemma tstep_wf (p p' : pipe) : tstep p p' -> wf p -> wf p'.
  Proof. destruct 1; [apply step_wf; assumption | apply cancel_wf]. Qed.

  Lemma wf_fresh (sts : list (stage A)) : wf (fresh sts) /\ head_closed (fresh sts) = false.
  Proof. induction sts as [|st r [IH1 IH2]]; cbn; [auto|]. split; [split; [rewrite IH2; discriminate|exact IH1]|reflexivity]. Qed.
  Lemma wf_start (rows : list A) (sts : list (stage A)) : wf (start rows sts) /\ head_closed (start rows sts) = true.
  Proof.
    unfold start. destruct sts as [|st r]; cbn; [auto|].
    destruct (wf_fresh r) as [W C]. split; [split; [rewrite C; discriminate|exact W]|reflexivity].
  Qed.

  (* ---------- no deadlock ---------- *)
  Definition ready (p : pipe) : Prop :=
    match p with
    | PSink ch c _ => ch <> [] \/ c = true
    | PStage ch c b _ _ _ => ch <> [] \/ c = true \/ b <> []
    end.

  Lemma done_dec (p : pipe) : done p \/ ~ done p.
  Proof.
    induction p as [ch c g|ch c b fl st r IH]; cbn.
    - destruct ch; [destruct c; [left; auto|right; intros [_ E]; discriminate]|right; intros [E _]; discriminate].
    - destruct ch; [|right; intros [E _]; discriminate]. destruct c; [|right; intros (_ & E & _); discriminate].
      destruct b; [|right; intros (_ & _ & E & _); discriminate]. destruct fl; [|right; intros (_ & _ & _ & E & _); discriminate].
      destruct IH as [D|D]; [left; auto|right; intros (_ & _ & _ & _ & D'); auto].
  Qed.

  Lemma progress (p : pipe) : wf p -> ready p -> ~ done p -> exists p', step p p'.
  Proof.
    induction p as [ch c g|ch c b fl st r IH]; intros W R ND.
    - destruct ch as [|x q]; [|eexists; constructor]. cbn in R, ND. destruct R as [R|R]; [congruence|]. exfalso; apply ND; auto.
    - cbn [wf] in W. destruct W as [H W].
      destruct b as [|y b'].
      + destruct ch as [|x q].
        * destruct c.
          -- destruct fl; [|eexists; apply st_flush].
             destruct (head_closed r) eqn:Hc; [|eexists; apply st_close; exact Hc].
             (* this step has finished: something downstream is still running *)
             assert (NDr : ~ done r) by (intros D; apply ND; cbn; auto).
             assert (Rr : ready r) by (destruct r; cbn in *; auto).
             destruct (IH W Rr NDr) as [r' S]. eexists; apply st_rest; exact S.
          -- cbn in R. destruct R as [R|[R|R]]; congruence.
        * eexists. apply st_pop with (ys := s_f st x). clear. induction (s_f st x); constructor; assumption.
      + destruct (head_closed r) eqn:Hc; [destruct (H eq_refl) as (_ & _ & E & _); discriminate|].
        destruct (Nat.lt_ge_cases (length (head_ch r)) cap) as [Hl|Hl].
        * eexists; apply st_push; split; assumption.
        * (* the channel is full, hence non-empty: the reader downstream can move *)
          assert (Hne : head_ch r <> []) by (destruct (head_ch r); cbn in Hl; [lia|discriminate]).
          assert (NDr : ~ done r) by (destruct r; cbn in *; intros D; apply Hne; apply D).
          assert (Rr : ready r) by (destruct r; cbn in *; auto).
          destruct (IH W Rr NDr) as [r' S]. eexists; apply st_rest; exact S.
  Qed.

  (* ---------- every step uses up at least one unit of the remaining work ---------- *)
  Lemma sum_app l l' : sum (l ++ l') = sum l + sum l'.
  Proof. induction l; cbn; lia. Qed.
  Lemma witem_pos fs (x : A) : 1 <= witem fs x. Proof. destruct fs; cbn; lia. Qed.
  Lemma wback_sub fs (ys l : list A) : sub ys l -> wback fs ys <= wback fs l.
  Proof. unfold wback. induction 1; cbn [map sum] in *; lia. Qed.

  Lemma weight_push (p : pipe) y : weight (push p y) = weight p + witem (shape p) y.
  Proof.
    destruct p as [ch c g|ch c b fl st r]; cbn [push weight shape].
    - rewrite app_length. cbn. lia.
    - rewrite map_app, sum_app. cbn [map sum]. lia.
  Qed.
  Lemma weight_close (p : pipe) : head_closed p = false -> weight p = S (weight (close p)).
  Proof. destruct p as [ch c g|ch c b fl st r]; cbn; intros ->; cbn; lia. Qed.

  Lemma step_weight (p p' : pipe) : step p p' -> weight p' < weight p.
  Proof.
    intros S. induction S as [x q c fl st r ys Hs | q c y b fl st r Hp | st r | st r Hc | q c b fl st r r' S IH | x q c g];
      cbn [weight].
    - apply (wback_sub (shape r)) in Hs. cbn [map sum witem]. unfold wback in *. cbn [map sum].
      destruct fl; lia.
    - rewrite weight_push, shape_push. unfold wback. cbn [map sum]. destruct fl; lia.
    - unfold wback. cbn [map sum]. lia.
    - rewrite shape_close. rewrite (weight_close r Hc). lia.
    - rewrite (step_shape _ _ S). destruct fl; lia.
    - cbn. lia.
  Qed.
  Lemma cancel_weight (p : pipe) : head_ch p <> [] -> weight (cancel p) < weight p.
  Proof.
    destruct p as [ch c g|ch c b fl st r]; cbn; intros H; destruct ch as [|x q]; try congruence; cbn [map sum length].
    - lia.
    - pose proof (witem_pos (st :: shape r) x). cbn [witem] in *. lia.
  Qed.
  Lemma tstep_weight (p p' : pipe) : tstep p p' -> weight p' < weight p.
  Proof. destruct 1; [apply step_weight; assumption | apply cancel_weight; assumption]. Qed.

  (* ---------- runs ---------- *)
  Inductive run : nat -> pipe -> pipe -> Prop :=
  | run_0 p : run 0 p p
  | run_S n p p' p'' : tstep p p' -> run n p' p'' -> run (S n) p p''.

  Lemma run_bound n (p p' : pipe) : run n p p' -> n + weight p' <= weight p.
  Proof. induction 1; [lia|]. apply tstep_weight in H. lia. Qed.
  Lemma run_inv n (p p' : pipe) : run n p p' -> wf p -> wf p' /\ head_closed p' = head_closed p.
  Proof. induction 1; intros W; [auto|]. destruct (IHrun (tstep_wf _ _ H W)) as [W' C]. split; [exact W'|].
    rewrite C. apply tstep_head_closed; exact H. Qed.

  (* From the state Start builds, under EVERY schedule (any interleaving of the steps' goroutines, with the
     client cancelling at any point or never): at most [weight] steps can be taken, and whenever no step is
     enabled the result stream is closed and every step has stopped. *)
  Theorem pipeline_terminates (rows : list A) (sts : list (stage A)) n p :
    run n (start rows sts) p ->
    n <= weight (start rows sts) /\ ((forall p', ~ step p p') -> done p).
  Proof.
    intros R. split; [apply run_bound in R; lia|]. intros Stuck.
    destruct (wf_start rows sts) as [W C]. destruct (run_inv _ _ _ R W) as [W' C'].
    destruct (done_dec p) as [D|ND]; [exact D|]. exfalso.
    assert (Rd : ready p) by (rewrite C in C'; destruct p; cbn in *; auto).
    destruct (progress p W' Rd ND) as [p' S]. exact (Stuck p' S).
  Qed.

  (* cancellation releases the scan at once and leaves a pipeline that still drains *)
  Theorem cancel_drains (rows : list A) (sts : list (stage A)) n p :
    run n (start rows sts) p -> head_ch (cancel p) = [] /\ wf (cancel p) /\ weight (cancel p) <= weight p.
  Proof.
    intros R. destruct (wf_start rows sts) as [W _]. destruct (run_inv _ _ _ R W) as [W' _].
    split; [destruct p; reflexivity|]. split; [apply cancel_wf; exact W'|].
    destruct p as [ch c g|ch c b fl st r]; cbn; lia.
  Qed.
End P.

(* ================= fan-out / fan-in ================= *)
Section FanProofs.
  Variable cap : nat.
  Hypothesis cap_pos : 0 < cap.

  Lemma filter_nil_all {X} (l : list (bool * X)) : map snd (filter fst l) = [] -> forall c, In c l -> fst c = false.
  Proof.
    induction l as [|[g x] r IH]; intros H c Hin; [destruct Hin|].
    cbn in H. destruct g; [discriminate|]. destruct Hin as [<-|Hin]; [reflexivity|apply IH; assumption].
  Qed.

  Lemma len_ltb_false (l : list nat) : (length l <? cap) = false -> l <> [].
  Proof. intros H ->. apply Nat.ltb_ge in H. cbn in H. lia. Qed.

  (* the repaired design never deadlocks: whatever the sizes, a state without an enabled step is final *)
  Theorem fan_progress (s : fstate) : fnext cap true s = [] -> ffinal s = true.
  Proof.
    intros H. pose proof (filter_nil_all _ H) as G. clear H.
    destruct s as [inp half cin0 cin1 b0 b1 cout0 cout1 incl c0 c1 held em]. cbn [fcands] in G.
    pose proof (G _ (or_introl eq_refl)) as G1.
    pose proof (G _ (or_intror (or_introl eq_refl))) as G2.
    pose proof (G _ (or_intror (or_intror (or_introl eq_refl)))) as G3.
    pose proof (G _ (or_intror (or_intror (or_intror (or_introl eq_refl))))) as G4.
    pose proof (G _ (or_intror (or_intror (or_intror (or_intror (or_introl eq_refl)))))) as G5.
    pose proof (G _ (or_intror (or_intror (or_intror (or_intror (or_intror (or_introl eq_refl))))))) as G6.
    pose proof (G _ (or_intror (or_intror (or_intror (or_intror (or_intror (or_intror (or_introl eq_refl)))))))) as G7.
    pose proof (G _ (or_intror (or_intror (or_intror (or_intror (or_intror (or_intror (or_intror (or_introl eq_refl))))))))) as G8.
    pose proof (G _ (or_intror (or_intror (or_intror (or_intror (or_intror (or_intror (or_intror (or_intror (or_introl eq_refl)))))))))) as G9.
    pose proof (G _ (or_intror (or_intror (or_intror (or_intror (or_intror (or_intror (or_intror (or_intror (or_intror (or_introl eq_refl))))))))))) as G10.
    pose proof (G _ (or_intror (or_intror (or_intror (or_intror (or_intror (or_intror (or_intror (or_intror (or_intror (or_intror (or_introl eq_refl)))))))))))) as G11.
    pose proof (G _ (or_intror (or_intror (or_intror (or_intror (or_intror (or_intror (or_intror (or_intror (or_intror (or_intror (or_intror (or_introl eq_refl))))))))))))) as G12.
    clear G. cbn [fst] in *. cbn [orb andb] in G10, G11.
    (* the readers always take what is there *)
    assert (E0 : cout0 = 0) by (destruct cout0; [reflexivity|discriminate]).
    assert (E1 : cout1 = 0) by (destruct cout1; [reflexivity|discriminate]).
    subst cout0 cout1.
    assert (Hc : (0 <? cap) = true) by (apply Nat.ltb_lt; exact cap_pos).
    rewrite Hc in G5, G8. rewrite andb_true_r in G5, G8.
    assert (B0 : b0 = 0) by (destruct b0; [reflexivity|discriminate]).
    assert (B1 : b1 = 0) by (destruct b1; [reflexivity|discriminate]).
    subst b0 b1. cbn [Nat.eqb andb] in *.
    assert (C0 : cin0 = []) by (destruct cin0; [reflexivity|discriminate]).
    assert (C1 : cin1 = []) by (destruct cin1; [reflexivity|discriminate]).
    subst cin0 cin1. cbn [length] in *. rewrite Hc in *.
    destruct half; [discriminate|]. destruct inp as [|[k0 k1] r]; [|discriminate].
    cbn [andb negb] in *. destruct incl; [|discriminate]. cbn [andb negb] in *.
    destruct c0; [|discriminate]. destruct c1; [|discriminate]. cbn [andb negb] in *.
    destruct held; [reflexivity|discriminate].
  Qed.

  (* in both designs every step uses up exactly one unit of work: no schedule is longer than fweight *)
  Theorem fan_weight conc (s s' : fstate) : In s' (fnext cap conc s) -> S (fweight s') = fweight s.
  Proof.
    unfold fnext. intros H. apply in_map_iff in H as [[g x] [E H]]. cbn in E; subst x.
    apply filter_In in H as [Hin Hg]. cbn in Hg; subst g.
    destruct s as [inp half cin0 cin1 b0 b1 cout0 cout1 incl c0 c1 held em]. cbn [fcands] in Hin.
    repeat (destruct Hin as [Hin|Hin]; [injection Hin as Hg Hs; rewrite <- Hs; clear Hs|]); try destruct Hin.
    - destruct inp as [|[k0 k1] r]; [discriminate|]. destruct half; [discriminate|].
      unfold fweight; cbn [f_inp f_half f_cin0 f_cin1 f_b0 f_b1 f_cout0 f_cout1 f_held f_inclosed f_c0closed f_c1closed map sum fst snd].
      rewrite map_app, (sum_app _ cap_pos). cbn [map sum]. lia.
    - destruct half as [k1|]; [|discriminate].
      unfold fweight; cbn [f_inp f_half f_cin0 f_cin1 f_b0 f_b1 f_cout0 f_cout1 f_held f_inclosed f_c0closed f_c1closed map sum fst snd].
      rewrite map_app, (sum_app _ cap_pos). cbn [map sum]. lia.
    - apply andb_true_iff in Hg as [_ Hg]. apply negb_true_iff in Hg. subst incl. unfold fweight; cbn [f_inp f_half f_cin0 f_cin1 f_b0 f_b1 f_cout0 f_cout1 f_held f_inclosed f_c0closed f_c1closed b2n]. lia.
    - destruct cin0 as [|k q]; [rewrite andb_false_r in Hg; discriminate|]. apply andb_true_iff in Hg as [Hg _]. apply Nat.eqb_eq in Hg. subst b0.
      unfold fweight; cbn [f_inp f_half f_cin0 f_cin1 f_b0 f_b1 f_cout0 f_cout1 f_held f_inclosed f_c0closed f_c1closed map sum]. lia.
    - apply andb_true_iff in Hg as [Hg _]. apply negb_true_iff, Nat.eqb_neq in Hg. unfold fweight; cbn [f_inp f_half f_cin0 f_cin1 f_b0 f_b1 f_cout0 f_cout1 f_held f_inclosed f_c0closed f_c1closed]. lia.
    - apply andb_true_iff in Hg as [_ Hg]. apply negb_true_iff in Hg. subst c0. unfold fweight; cbn [f_inp f_half f_cin0 f_cin1 f_b0 f_b1 f_cout0 f_cout1 f_held f_inclosed f_c0closed f_c1closed b2n]. lia.
    - destruct cin1 as [|k q]; [rewrite andb_false_r in Hg; discriminate|]. apply andb_true_iff in Hg as [Hg _]. apply Nat.eqb_eq in Hg. subst b1.
      unfold fweight; cbn [f_inp f_half f_cin0 f_cin1 f_b0 f_b1 f_cout0 f_cout1 f_held f_inclosed f_c0closed f_c1closed map sum]. lia.
    - apply andb_true_iff in Hg as [Hg _]. apply negb_true_iff, Nat.eqb_neq in Hg. unfold fweight; cbn [f_inp f_half f_cin0 f_cin1 f_b0 f_b1 f_cout0 f_cout1 f_held f_inclosed f_c0closed f_c1closed]. lia.
    - apply andb_true_iff in Hg as [_ Hg]. apply negb_true_iff in Hg. subst c1. unfold fweight; cbn [f_inp f_half f_cin0 f_cin1 f_b0 f_b1 f_cout0 f_cout1 f_held f_inclosed f_c0closed f_c1closed b2n]. lia.
    - apply andb_true_iff in Hg as [_ Hg]. apply negb_true_iff, Nat.eqb_neq in Hg. unfold fweight; cbn [f_inp f_half f_cin0 f_cin1 f_b0 f_b1 f_cout0 f_cout1 f_held f_inclosed f_c0closed f_c1closed]. lia.
    - apply andb_true_iff in Hg as [_ Hg]. apply negb_true_iff, Nat.eqb_neq in Hg. unfold fweight; cbn [f_inp f_half f_cin0 f_cin1 f_b0 f_b1 f_cout0 f_cout1 f_held f_inclosed f_c0closed f_c1closed]. lia.
    - apply andb_true_iff in Hg as [_ Hg]. apply negb_true_iff, Nat.eqb_neq in Hg. unfold fweight; cbn [f_inp f_half f_cin0 f_cin1 f_b0 f_b1 f_cout0 f_cout1 f_held f_inclosed f_c0closed f_c1closed]. lia.
  Qed.

  (* nothing is lost or duplicated: results delivered + results still inside = results owed *)
  Definition ftotal (s : fstate) : nat :=
    sum (map (fun p => fst p + snd p) (f_inp s)) + match f_half s with Some k => k | None => 0 end
    + sum (f_cin0 s) + sum (f_cin1 s) + f_b0 s + f_b1 s + f_cout0 s + f_cout1 s + f_held s + f_emitted s.
  Theorem fan_conserves conc (s s' : fstate) : In s' (fnext cap conc s) -> ftotal s' = ftotal s.
  Proof.
    unfold fnext. intros H. apply in_map_iff in H as [[g x] [E H]]. cbn in E; subst x.
    apply filter_In in H as [Hin Hg]. cbn in Hg; subst g.
    destruct s as [inp half cin0 cin1 b0 b1 cout0 cout1 incl c0 c1 held em]. cbn [fcands] in Hin.
    repeat (destruct Hin as [Hin|Hin]; [injection Hin as Hg Hs; rewrite <- Hs; clear Hs|]); try destruct Hin.
    - destruct inp as [|[k0 k1] r]; [discriminate|]. destruct half; [discriminate|].
      unfold ftotal; cbn [f_inp f_half f_cin0 f_cin1 f_b0 f_b1 f_cout0 f_cout1 f_held f_emitted map sum fst snd]. rewrite (sum_app _ cap_pos). cbn [sum]. lia.
    - destruct half as [k1|]; [|discriminate].
      unfold ftotal; cbn [f_inp f_half f_cin0 f_cin1 f_b0 f_b1 f_cout0 f_cout1 f_held f_emitted map sum fst snd]. rewrite (sum_app _ cap_pos). cbn [sum]. lia.
    - reflexivity.
    - destruct cin0 as [|k q]; [rewrite andb_false_r in Hg; discriminate|]. apply andb_true_iff in Hg as [Hg _]. apply Nat.eqb_eq in Hg. subst b0.
      unfold ftotal; cbn [f_inp f_half f_cin0 f_cin1 f_b0 f_b1 f_cout0 f_cout1 f_held f_emitted sum]. lia.
    - apply andb_true_iff in Hg as [Hg _]. apply negb_true_iff, Nat.eqb_neq in Hg. unfold ftotal; cbn [f_inp f_half f_cin0 f_cin1 f_b0 f_b1 f_cout0 f_cout1 f_held f_emitted]. lia.
    - reflexivity.
    - destruct cin1 as [|k q]; [rewrite andb_false_r in Hg; discriminate|]. apply andb_true_iff in Hg as [Hg _]. apply Nat.eqb_eq in Hg. subst b1.
      unfold ftotal; cbn [f_inp f_half f_cin0 f_cin1 f_b0 f_b1 f_cout0 f_cout1 f_held f_emitted sum]. lia.
    - apply andb_true_iff in Hg as [Hg _]. apply negb_true_iff, Nat.eqb_neq in Hg. unfold ftotal; cbn [f_inp f_half f_cin0 f_cin1 f_b0 f_b1 f_cout0 f_cout1 f_held f_emitted]. lia.
    - reflexivity.
    - apply andb_true_iff in Hg as [_ Hg]. apply negb_true_iff, Nat.eqb_neq in Hg. unfold ftotal; cbn [f_inp f_half f_cin0 f_cin1 f_b0 f_b1 f_cout0 f_cout1 f_held f_emitted]. lia.
    - apply andb_true_iff in Hg as [_ Hg]. apply negb_true_iff, Nat.eqb_neq in Hg. unfold ftotal; cbn [f_inp f_half f_cin0 f_cin1 f_b0 f_b1 f_cout0 f_cout1 f_held f_emitted]. lia.
    - apply andb_true_iff in Hg as [_ Hg]. apply negb_true_iff, Nat.eqb_neq in Hg. unfold ftotal; cbn [f_inp f_half f_cin0 f_cin1 f_b0 f_b1 f_cout0 f_cout1 f_held f_emitted]. lia.
  Qed.

  Inductive freach (conc : bool) : fstate -> fstate -> Prop :=
  | fr_refl s : freach conc s s
  | fr_step s s' s'' : In s' (fnext cap conc s) -> freach conc s' s'' -> freach conc s s''.

  Lemma frun_reach conc fuel s : freach conc s (frun cap conc fuel s).
  Proof.
    revert s. induction fuel as [|f IH]; intros s; cbn [frun]; [constructor|].
    destruct (fnext cap conc s) as [|s' r] eqn:E; [constructor|].
    apply fr_step with s'; [rewrite E; left; reflexivity|apply IH].
  Qed.

  (* every schedule of the repaired design ends, with the stream complete *)
  Theorem fan_terminates inp s : freach true (fstart inp) s ->
    fweight s <= fweight (fstart inp) /\ ftotal s = ftotal (fstart inp) /\
    (fnext cap true s = [] -> ffinal s = true /\ f_emitted s = sum (map (fun p => fst p + snd p) inp)).
  Proof.
    intros R. assert (HW : fweight s <= fweight (fstart inp) /\ ftotal s = ftotal (fstart inp)).
    { induction R as [s|s s' s'' Hin R IH]; [split; [lia|reflexivity]|].
      destruct IH as [IH1 IH2]. apply fan_weight in Hin as Hw. apply fan_conserves in Hin as Ht. split; [lia|congruence]. }
    destruct HW as [HW HT]. split; [exact HW|]. split; [exact HT|]. intros Hn.
    pose proof (fan_progress s Hn) as Hf. split; [exact Hf|].
    unfold ffinal in Hf. unfold ftotal in HT. cbn [fstart f_inp f_half f_cin0 f_cin1 f_b0 f_b1 f_cout0 f_cout1 f_held f_emitted sum] in HT.
    destruct (f_inp s); [|discriminate]. destruct (f_half s); [discriminate|]. destruct (f_cin0 s); [|discriminate]. destruct (f_cin1 s); [|discriminate].
    repeat (apply andb_true_iff in Hf as [Hf ?]).
    repeat match goal with H : (_ =? 0) = true |- _ => apply Nat.eqb_eq in H end.
    cbn [map sum] in HT. lia.
  Qed.
End FanProofs.

(* ---------- the functional row count of uniform fan-out pipelines ---------- *)
Definition fan_stage {A} (k : nat) : stage A := {| s_f := fun x => repeat x k; s_fin := [] |}.
Lemma flat_map_repeat_length {A} (k : nat) (rows : list A) : length (flat_map (fun x => repeat x k) rows) = length rows * k.
Proof. induction rows as [|x r IH]; [reflexivity|]. cbn [flat_map length]. rewrite app_length, repeat_length, IH. lia. Qed.
Lemma fan_count {A} (ks : list nat) : forall rows : list A,
  length (pipe_fun (map fan_stage ks) rows) = fold_left Nat.mul ks (length rows).
Proof.
  induction ks as [|k r IH]; intros rows; [reflexivity|].
  cbn [map pipe_fun fold_left fan_stage s_f s_fin]. rewrite app_nil_r, IH, flat_map_repeat_length. reflexivity.
Qed.
