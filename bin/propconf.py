"""Per-property configuration for bin/check."""

GLOBAL_TRUSTED = [
    "Coq 8.16.1 kernel and its vm_compute virtual machine (used for proofs by reflection on finite tables and to run the model on cases); native_compute is not used",
    "no extraction: the model is evaluated inside Coq; no Extract Constant / Extract Inductive directives",
    "the Go harness (generators, canonicalisers, printers of Coq terms: harness/internal/coq, harness/cmd/drive) and bin/check's parsing of Coq's printed `M = [...]` / `SV = [...]` lines",
    "the agreement between model and implementation is sampled by the correspondence check, not proved",
    "Go runtime semantics for everything not modelled (goroutine scheduling, channel FIFO behaviour, memory model)",
]

PROPS = {
    "C13": {
        "trusted_base": [
            "modelled, not verified: jobstorage/serializer.go MarshalStream/UnmarshalStream (feeder, n workers, round-robin merger as a transition system with per-channel capacity), gdbi/processor.go LookupBatcher (timeouts = nondeterministic flush) and DualProcessor, gripper/channel_mux.go (pipelines assumed 1:1 FIFO), engine/queue/queue.go (FIFO chain)",
            "encoding/json round trip of travelers is outside the model (item identity = element id)",
        ],
        "assumptions": [
            "every schedule = every schedule of the modelled transition systems; the Go scheduler itself is sampled (GOMAXPROCS 1/4/16, seeded per-item latencies)",
            "ChannelMux pipelines produce exactly one output per input, in order",
        ],
    },
    "C10": {
        "trusted_base": [
            "modelled: the ordered byte-string map Model/KV.v (the specification itself); the four adapters kvi/*/*_store.go and the Badger/Bolt/goleveldb/Pebble libraries are NOT modelled: they are compared with the map by the correspondence check on every run",
        ],
        "assumptions": [
            "keys are non-empty (Badger and Bolt reject empty keys; grip never writes one)",
            "Next() is only issued on a valid cursor; Key()/Value() are only compared while Valid()",
            "atomicity/rollback of Update on drivers without transactions (Pebble, LevelDB) is outside the ordered-map statement",
        ],
    },
}
