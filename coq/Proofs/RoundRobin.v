(* C11: the job spool keeps the order of the rows it stores.
   jobstorage/serializer.go MarshalStream / UnmarshalStream hand items to n workers in turn (a counter that wraps)
   and merge the workers' outputs by reading one item from every still-open worker in turn until a whole turn
   finds nothing. Whatever n >= 1 and whatever the sequence: what comes out is the sequence that went in. *)
From Coq Require Import List Arith Bool Lia.
Import ListNotations.
From Grip Require Import Model.Jobs.

Section RoundRobin.
  Context {X : Type}.

  Lemma flat_map_ext_in {A B} (f g : A -> list B) l : (forall a, In a l -> f a = g a) -> flat_map f l = flat_map g l.
  Proof. induction l as [|a l IH]; intros H; [reflexivity |]. cbn [flat_map]. rewrite (H a (or_introl eq_refl)), IH; [reflexivity |]. intros b Hb. apply H. right. exact Hb. Qed.

  (* ---------- the workers' lists as the columns of a matrix of turns ---------- *)
  Definition cell (r : list X) (k : nat) : list X := match nth_error r k with Some x => [x] | None => [] end.
  Definition col (rows : list (list X)) (k : nat) : list X := flat_map (fun r => cell r k) rows.
  Definition cols (n : nat) (rows : list (list X)) : list (list X) := map (col rows) (seq 0 n).

  Lemma cells_row (r : list X) : forall n a, length r <= n -> flat_map (fun k => cell r (k - a)) (seq a n) = r.
  Proof.
    induction r as [|x r IH]; intros n a H.
    - induction (seq a n) as [|k l IHl]; [reflexivity |]. cbn [flat_map]. unfold cell at 1. destruct (k - a); exact IHl.
    - destruct n as [|n]; [cbn in H; lia |]. cbn [seq flat_map]. rewrite Nat.sub_diag. cbn [cell nth_error app]. f_equal.
      transitivity (flat_map (fun k => cell r (k - S a)) (seq (S a) n)); [| apply IH; cbn in H; lia].
      apply flat_map_ext_in. intros k Hk. apply in_seq in Hk.
      unfold cell. replace (k - a) with (S (k - S a)) by lia. reflexivity.
  Qed.
  Lemma cells_row0 (r : list X) n : length r <= n -> flat_map (cell r) (seq 0 n) = r.
  Proof.
    intros H. transitivity (flat_map (fun k => cell r (k - 0)) (seq 0 n)); [| apply cells_row; exact H].
    apply flat_map_ext. intros k. rewrite Nat.sub_0_r. reflexivity.
  Qed.

  Lemma col_cons r rows k : col (r :: rows) k = cell r k ++ col rows k.
  Proof. reflexivity. Qed.
  Lemma col_app a b k : col (a ++ b) k = col a k ++ col b k.
  Proof. unfold col. apply flat_map_app. Qed.

  (* a turn of the merger on full rows followed by at most one short row *)
  Definition full (n : nat) (rows : list (list X)) : Prop := Forall (fun r => length r = n) rows.

  Lemma heads_full n r rows : 0 < n -> length r = n -> flat_map head_list (cols n (r :: rows)) = r /\ map (@tl X) (cols n (r :: rows)) = cols n rows.
  Proof.
    intros Hn Hr. unfold cols. split.
    - rewrite flat_map_concat_map, map_map, <- flat_map_concat_map.
      transitivity (flat_map (cell r) (seq 0 n)); [| apply cells_row0; lia].
      apply flat_map_ext_in. intros k Hk. apply in_seq in Hk. rewrite col_cons. unfold cell.
      destruct (nth_error r k) as [x|] eqn:E; [reflexivity |]. apply nth_error_None in E. lia.
    - rewrite map_map. apply map_ext_in. intros k Hk. apply in_seq in Hk. rewrite col_cons. unfold cell.
      destruct (nth_error r k) as [x|] eqn:E; [reflexivity |]. apply nth_error_None in E. lia.
  Qed.
  Lemma heads_last n r : length r <= n -> flat_map head_list (cols n [r]) = r /\ flat_map head_list (map (@tl X) (cols n [r])) = [].
  Proof.
    intros Hr. unfold cols. split.
    - rewrite flat_map_concat_map, map_map, <- flat_map_concat_map.
      transitivity (flat_map (cell r) (seq 0 n)); [| apply cells_row0; exact Hr].
      apply flat_map_ext. intros k. unfold col. cbn [flat_map]. rewrite app_nil_r. unfold cell. destruct (nth_error r k); reflexivity.
    - rewrite map_map. induction (seq 0 n) as [|k l IH]; [reflexivity |]. cbn [map flat_map]. rewrite IH, app_nil_r.
      unfold col. cbn [flat_map]. rewrite app_nil_r. unfold cell. destruct (nth_error r k); reflexivity.
  Qed.

  Lemma merge_cols n : 0 < n -> forall rows last fuel, full n rows -> length last <= n -> length rows + 2 <= fuel ->
    merge fuel (cols n (rows ++ [last])) = concat rows ++ last.
  Proof.
    intros Hn rows. induction rows as [|r rows IH]; intros last fuel HF HL Hfuel.
    - destruct fuel as [|fuel]; [cbn in Hfuel; lia |]. cbn [app concat merge]. destruct (heads_last n last HL) as [H1 H2]. rewrite H1.
      destruct last as [|x last]; [reflexivity |]. destruct fuel as [|fuel]; [cbn in Hfuel; lia |]. cbn [merge]. rewrite H2, app_nil_r. reflexivity.
    - apply Forall_cons_iff in HF as [Hr HF']. destruct fuel as [|fuel]; [cbn in Hfuel; lia |]. cbn [app concat merge].
      destruct (heads_full n r (rows ++ [last]) Hn Hr) as [H1 H2]. rewrite H1, H2.
      destruct r as [|x r]; [cbn in Hr; lia |]. rewrite (IH last fuel HF' HL) by (cbn in Hfuel; lia). rewrite app_assoc. reflexivity.
  Qed.

  (* ---------- the reader fills the matrix row by row ---------- *)
  Lemma app_at_map (f : nat -> list X) c x n :
    app_at c x (map f (seq 0 n)) = map (fun k => if Nat.eqb k c then f k ++ [x] else f k) (seq 0 n).
  Proof.
    unfold app_at. rewrite map_length, seq_length.
    assert (forall a, map (fun kw : nat * list X => if Nat.eqb (fst kw) c then snd kw ++ [x] else snd kw) (combine (seq a n) (map f (seq a n)))
                      = map (fun k => if Nat.eqb k c then f k ++ [x] else f k) (seq a n)) as H.
    { induction n as [|n IH]; intros a; [reflexivity |]. cbn [seq map combine fst snd]. rewrite IH. reflexivity. }
    apply H.
  Qed.
  Lemma cell_snoc (r : list X) x k : cell (r ++ [x]) k = cell r k ++ (if Nat.eqb k (length r) then [x] else []).
  Proof.
    unfold cell. destruct (Nat.lt_ge_cases k (length r)) as [Hlt | Hge].
    - rewrite nth_error_app1 by exact Hlt. assert (Nat.eqb k (length r) = false) as -> by (apply Nat.eqb_neq; lia). rewrite app_nil_r. reflexivity.
    - rewrite nth_error_app2 by exact Hge. assert (nth_error r k = None) as -> by (apply nth_error_None; exact Hge).
      destruct (Nat.eqb_spec k (length r)) as [-> | Hn]; [rewrite Nat.sub_diag; reflexivity |].
      destruct (k - length r) as [|d] eqn:E; [lia |]. cbn. destruct d; reflexivity.
  Qed.
  Lemma app_at_cols n rows last x : app_at (length last) x (cols n (rows ++ [last])) = cols n (rows ++ [last ++ [x]]).
  Proof.
    unfold cols. rewrite app_at_map. apply map_ext. intros k. rewrite !col_app. unfold col at 2 4. cbn [flat_map]. rewrite !app_nil_r. replace (col [last ++ [x]] k) with (cell (last ++ [x]) k) by (unfold col; cbn [flat_map]; rewrite app_nil_r; reflexivity). rewrite cell_snoc.
    destruct (Nat.eqb k (length last)); [rewrite app_assoc; reflexivity | rewrite app_nil_r; reflexivity].
  Qed.
  Lemma cols_trailing_empty n rows : cols n (rows ++ [[]]) = cols n rows.
  Proof.
    unfold cols. apply map_ext. intros k. rewrite col_app. unfold col at 2. cbn [flat_map]. unfold cell. destruct k; cbn; rewrite app_nil_r; reflexivity.
  Qed.

  Lemma deal_from_cols n : 0 < n -> forall l rows last, full n rows -> length last < n ->
    exists rows' last', full n rows' /\ length last' < n /\
      deal_from n (length last) l (cols n (rows ++ [last])) = cols n (rows' ++ [last']) /\
      concat rows' ++ last' = concat rows ++ last ++ l.
  Proof.
    intros Hn l. induction l as [|x l IH]; intros rows last HF HL.
    - exists rows, last. rewrite app_nil_r. auto.
    - cbn [deal_from]. rewrite app_at_cols. destruct (Nat.eqb_spec (S (length last)) n) as [E | E].
      + (* the row is full: the next item starts a new one *)
        assert (full n (rows ++ [last ++ [x]])) as HF2.
        { apply Forall_app. split; [exact HF |]. constructor; [| constructor]. rewrite app_length. cbn. lia. }
        rewrite <- (cols_trailing_empty n (rows ++ [last ++ [x]])).
        destruct (IH (rows ++ [last ++ [x]]) [] HF2 Hn) as [rows' [last' [H1 [H2 [H3 H4]]]]].
        exists rows', last'. split; [exact H1 |]. split; [exact H2 |]. split; [exact H3 |].
        rewrite H4, concat_app. cbn [concat]. rewrite !app_nil_r, <- !app_assoc. reflexivity.
      + assert (length (last ++ [x]) < n) as HL2 by (rewrite app_length; cbn; lia).
        replace (S (length last)) with (length (last ++ [x])) by (rewrite app_length; cbn; lia).
        destruct (IH rows (last ++ [x]) HF HL2) as [rows' [last' [H1 [H2 [H3 H4]]]]].
        exists rows', last'. split; [exact H1 |]. split; [exact H2 |]. split; [exact H3 |]. rewrite H4, <- !app_assoc. reflexivity.
  Qed.

  Lemma full_length n rows : full n rows -> length (concat rows) = length rows * n.
  Proof. induction 1 as [|r rows Hr _ IH]; [reflexivity |]. cbn [concat length]. rewrite app_length, IH, Hr. cbn. lia. Qed.

  Theorem merge_deal n (l : list X) : 0 < n -> merge (length l + 2) (deal n l) = l.
  Proof.
    intros Hn. unfold deal.
    assert (repeat [] n = cols n ([] ++ [[]])) as ->.
    { unfold cols. cbn [app]. induction n as [|m IHm]; [reflexivity |]. clear IHm Hn.
      assert (forall a, repeat (@nil X) (S m) = map (col [[]]) (seq a (S m))) as H.
      { induction (S m) as [|j IHj]; intros a; [reflexivity |]. cbn [repeat seq map]. rewrite <- IHj. f_equal. unfold col, cell. cbn. destruct a; reflexivity. }
      apply H. }
    destruct (deal_from_cols n Hn l [] [] (Forall_nil _) Hn) as [rows [last [H1 [H2 [H3 H4]]]]].
    cbn [length] in H3. rewrite H3. cbn [concat app] in H4. rewrite <- H4.
    apply merge_cols; [exact Hn | exact H1 | lia |].
    rewrite app_length, (full_length n rows H1). nia.
  Qed.
End RoundRobin.
