package main

import (
	"context"
	"encoding/json"
	"fmt"
	"os"
	"runtime"
	"sort"
	"strconv"
	"strings"
	"time"

	"github.com/bmeg/grip/engine/pipeline"
	"github.com/bmeg/grip/gdbi"
	"github.com/bmeg/grip/gripql"
	"github.com/bmeg/grip/kvgraph"
	"github.com/bmeg/grip/kvi"

	"gripverif/internal/coq"
)

func init() {
	props["C12"] = runC12
	workers["loop"] = func(args []string) { workerLoop(loopWorker) }
}

type c12Input struct {
	DeadlineS int `json:"deadline_s,omitempty"` // seconds to wait for the stream to close (default 25)
	Graph string  `json:"graph"` // name of the family
	Spec  string  `json:"spec"`  // the family as a Coq term (generator), so that large graphs stay small in the cases file
	Adj   [][]int `json:"adj"`   // adj[v] = successors of v
	Hops  int     `json:"hops"`  // body: that many moves (out() unless Move says otherwise)
	Start []int   `json:"start"` // V(ids); empty = V()
	Bound int     `json:"bound"`
	Emit  bool    `json:"emit"`
	Procs int     `json:"gomaxprocs"`
	Jumps int     `json:"jumps,omitempty"` // 2: a second jump to the same mark follows, with a condition that never holds
	// how the body moves along adj: "" = out(); "in" = in() over a store that holds every edge reversed; "eout" = outE().out()
	Move string `json:"move,omitempty"`
	// > 0: the loop is followed by limit(Limit), reached before the loop is exhausted: the rows are some Limit of the loop's
	// rows and the stream closes
	Limit int `json:"limit,omitempty"`
}
type c12Obs struct {
	Closed   bool   `json:"closed"`
	Rows     []int  `json:"rows"`
	Leak     int    `json:"goroutines_leaked"`
	Millis   int64  `json:"ms"`
	Err      string `json:"err,omitempty"`
	Isolated string `json:"isolated,omitempty"`
}

var loopEnv struct {
	key string
	gi  gdbi.GraphInterface
}

func loopGraph(adj [][]int) (gdbi.GraphInterface, error) {
	kb, _ := json.Marshal(adj)
	if loopEnv.gi != nil && loopEnv.key == string(kb) {
		return loopEnv.gi, nil
	}
	dir, _ := os.MkdirTemp(os.Getenv("C12ROOT"), "c12g")
	kv, err := kvi.NewKVInterface("badger", dir+"/db", nil)
	if err != nil {
		return nil, err
	}
	db := kvgraph.NewKVGraph(kv)
	db.AddGraph("g")
	gi, err := db.Graph("g")
	if err != nil {
		return nil, err
	}
	vs := []*gdbi.Vertex{}
	es := []*gdbi.Edge{}
	for v, ws := range adj {
		vs = append(vs, gdbi.NewElementFromVertex(&gripql.Vertex{Gid: fmt.Sprintf("n%d", v), Label: "N"}))
		for k, w := range ws {
			es = append(es, gdbi.NewElementFromEdge(&gripql.Edge{Gid: fmt.Sprintf("e%d_%d", v, k), Label: "e", From: fmt.Sprintf("n%d", v), To: fmt.Sprintf("n%d", w)}))
		}
	}
	for i := 0; i < len(vs); i += 500 {
		j := i + 500
		if j > len(vs) {
			j = len(vs)
		}
		if err := gi.AddVertex(vs[i:j]); err != nil {
			return nil, err
		}
	}
	for i := 0; i < len(es); i += 500 {
		j := i + 500
		if j > len(es) {
			j = len(es)
		}
		if err := gi.AddEdge(es[i:j]); err != nil {
			return nil, err
		}
	}
	loopEnv.key, loopEnv.gi = string(kb), gi
	return gi, nil
}

func loopProg(in c12Input) []tStmt {
	ids := []string{}
	for _, v := range in.Start {
		ids = append(ids, fmt.Sprintf("n%d", v))
	}
	p := []tStmt{{Op: "V", Strs: ids}, {Op: "as", Str: "m"}, {Op: "set", Str: "$m.c", Tpl: 0.0}, {Op: "mark", Str: "s"}}
	for i := 0; i < in.Hops; i++ {
		switch in.Move {
		case "in":
			p = append(p, tStmt{Op: "in"})
		case "eout":
			p = append(p, tStmt{Op: "outE"}, tStmt{Op: "out"})
		default:
			p = append(p, tStmt{Op: "out"})
		}
	}
	emit := int64(0)
	if in.Emit {
		emit = 1
	}
	p = append(p, tStmt{Op: "increment", Str: "$m.c", N: 1},
		tStmt{Op: "jump", Str: "s", Has: &hExpr{Kind: "cond", Key: "$m.c", Op: "lt", Arg: float64(in.Bound)}, N: emit})
	if in.Jumps == 2 {
		// the mark now waits for its signal to come back from both jumps; rows are those the first jump emits
		p = append(p, tStmt{Op: "jump", Str: "s", Has: &hExpr{Kind: "cond", Key: "$m.c", Op: "lt", Arg: -1.0}, N: 1})
	}
	if in.Limit > 0 {
		p = append(p, tStmt{Op: "limit", N: int64(in.Limit)})
	}
	return p
}

func loopWorker(req json.RawMessage) interface{} {
	var in c12Input
	if err := json.Unmarshal(req, &in); err != nil {
		return c12Obs{Err: err.Error()}
	}
	adj := in.Adj
	if in.Move == "in" {
		// the store holds w -> v for every successor w of v: in() from v then yields exactly adj[v]
		adj = make([][]int, len(in.Adj))
		for v, ws := range in.Adj {
			for _, w := range ws {
				adj[w] = append(adj[w], v)
			}
		}
	}
	gi, err := loopGraph(adj)
	if err != nil {
		return c12Obs{Err: err.Error()}
	}
	if in.Procs > 0 {
		runtime.GOMAXPROCS(in.Procs)
	}
	pipe, err := gi.Compiler().Compile(progProto(loopProg(in)), nil)
	if err != nil {
		return c12Obs{Err: "compile: " + err.Error()}
	}
	wd, _ := os.MkdirTemp(os.Getenv("C12ROOT"), "c12wd")
	defer os.RemoveAll(wd)
	time.Sleep(30 * time.Millisecond)
	base := runtime.NumGoroutine()
	ctx, cancel := context.WithCancel(context.Background())
	defer cancel()
	start := time.Now()
	res := pipeline.Run(ctx, pipe, wd)
	ob := c12Obs{Rows: []int{}}
	dl := 25
	if in.DeadlineS > 0 {
		dl = in.DeadlineS
	}
	deadline := time.After(time.Duration(dl) * time.Second)
loop:
	for {
		select {
		case r, ok := <-res:
			if !ok {
				ob.Closed = true
				break loop
			}
			id := -1
			if v := r.GetVertex(); v != nil {
				id, _ = strconv.Atoi(strings.TrimPrefix(v.Gid, "n"))
			}
			ob.Rows = append(ob.Rows, id)
		case <-deadline:
			break loop
		}
	}
	ob.Millis = time.Since(start).Milliseconds()
	sort.Ints(ob.Rows)
	if ob.Closed {
		ob.Leak = settle(base, 3*time.Second)
		if ob.Leak < 0 {
			ob.Leak = 0
		}
	}
	return ob
}

func c12Inputs(ctx *Ctx) []c12Input {
	type fam struct {
		name string
		adj  [][]int
		spec string
	}
	fams := []fam{}
	chain := func(n int) [][]int {
		a := make([][]int, n)
		for i := 0; i+1 < n; i++ {
			a[i] = []int{i + 1}
		}
		return a
	}
	cycle := func(n int) [][]int {
		a := make([][]int, n)
		for i := 0; i < n; i++ {
			a[i] = []int{(i + 1) % n}
		}
		return a
	}
	complete := func(n int) [][]int {
		a := make([][]int, n)
		for i := 0; i < n; i++ {
			for j := 0; j < n; j++ {
				if i != j {
					a[i] = append(a[i], j)
				}
			}
		}
		return a
	}
	star := func(m int) [][]int { // hub 0 -> leaves -> hub
		a := make([][]int, m+1)
		for i := 1; i <= m; i++ {
			a[0] = append(a[0], i)
			a[i] = []int{0}
		}
		return a
	}
	fams = append(fams, fam{"empty", [][]int{}, "(GAdj [])"}, fam{"single", [][]int{{}}, "(GChain 1)"}, fam{"selfloop", [][]int{{0}}, "(GCycle 1)"},
		fam{"chain6", chain(6), "(GChain 6)"}, fam{"cycle5", cycle(5), "(GCycle 5)"}, fam{"k4", complete(4), "(GComplete 4)"}, fam{"star60", star(60), "(GStar 60)"},
		fam{"cycle120", cycle(120), "(GCycle 120)"}, fam{"cycle1300", cycle(1300), "(GCycle 1300)"}, fam{"star700", star(700), "(GStar 700)"})
	if ctx.Thorough() {
		fams = append(fams, fam{"k6", complete(6), "(GComplete 6)"}, fam{"cycle5200", cycle(5200), "(GCycle 5200)"}, fam{"star2600", star(2600), "(GStar 2600)"}, fam{"chain40", chain(40), "(GChain 40)"})
		for i := 0; i < 12; i++ {
			n := 3 + ctx.Rng.Intn(8)
			a := make([][]int, n)
			for v := range a {
				for k := ctx.Rng.Intn(4); k > 0; k-- {
					a[v] = append(a[v], ctx.Rng.Intn(n))
				}
			}
			fams = append(fams, fam{fmt.Sprintf("rand%d", i), a, ""})
		}
	}
	out := []c12Input{}
	for _, f := range fams {
		big := len(f.adj) > 200
		for _, bound := range []int{0, 1, 2, 3, 5} {
			if big && bound > 3 {
				continue
			}
			if (f.name == "k4" || f.name == "k6") && bound > 3 {
				continue
			}
			for _, emit := range []bool{true, false} {
				for _, hops := range []int{1, 2} {
					if hops == 2 && (big || bound > 2) {
						continue
					}
					for _, procs := range []int{1, 16} {
						starts := [][]int{nil}
						if len(f.adj) > 0 && !big {
							starts = append(starts, []int{0})
						}
						for _, st := range starts {
							in := c12Input{Graph: f.name, Spec: f.spec, Adj: f.adj, Hops: hops, Start: st, Bound: bound, Emit: emit, Procs: procs}
							if c12Size(in) <= ctx.Pick(6000, 60000) {
								out = append(out, in)
								if !big && hops == 1 && procs == 16 && bound >= 1 {
									in.Jumps = 2
									out = append(out, in)
									in.Jumps = 0
								}
								// a limit behind the loop, reached while travelers are still in the cycle
								if emit && hops == 1 && procs == 16 && bound >= 2 && len(f.adj) >= 5 && len(st) == 0 {
									in4 := in
									in4.Limit = 3
									out = append(out, in4)
								}
								// the same loop with a body that moves with in() (over the reversed store) / outE().out()
								if hops == 1 && bound >= 1 && procs == 16 {
									in2 := in
									in2.Move = "in"
									out = append(out, in2)
									if !big && emit {
										in3 := in
										in3.Move = "eout"
										out = append(out, in3)
									}
								}
							}
						}
					}
				}
			}
		}
	}
	return out
}

// c12Size: travelers that pass the jump in total (to keep the grid within what a run can deliver in seconds)
func c12Size(in c12Input) int {
	n := len(in.Adj)
	cnt := make([]int, n)
	if len(in.Start) == 0 {
		for v := range cnt {
			cnt[v] = 1
		}
	} else {
		for _, v := range in.Start {
			cnt[v]++
		}
	}
	total := 0
	for pass := 0; pass <= in.Bound; pass++ {
		for h := 0; h < in.Hops; h++ {
			nx := make([]int, n)
			for v, c := range cnt {
				if c > 0 {
					for _, w := range in.Adj[v] {
						nx[w] += c
						if nx[w] > 1<<40 {
							return 1 << 40
						}
					}
				}
			}
			cnt = nx
		}
		s := 0
		for _, c := range cnt {
			s += c
		}
		total += s
		if total > 1<<40 {
			return total
		}
		if pass+1 >= in.Bound {
			break
		}
	}
	return total
}

func runC12(ctx *Ctx) error {
	ctx.EvalMod = "Eval_C12"
	ctx.CaseTy = "c12_case"
	ctx.Shard = 60
	ctx.Scope = "N_scope"
	ctx.Exhaustive = true
	ctx.Rule = "grid: graph families (empty, single vertex, self-loop, chain, cycles of 5/120/1300, complete K4, stars of 60/700 leaves pointing back at the hub; thorough adds K6, cycle 5200, star 2600, chain 40 and 12 random digraphs) x loop V(start).as(m).set($m.c,0).mark(s).out(){1,2} [also in() over the reversed store, and outE().out()].increment($m.c).jump(s, $m.c < bound, emit) [optionally followed by a second jump to s whose condition never holds] with bound in {0,1,2,3,5}, emit on/off, start = all vertices or one vertex, a limit behind the loop that is reached before the loop is exhausted, GOMAXPROCS 1 and 16; travelers in flight range from 0 to several times the 50-slot queue channels and the 1000-slot slice; production compiler + pipeline.Run on badger in worker sub-processes, 25 s deadline; observed: stream closed, multiset of vertex ids delivered, goroutines left; non-trivial = at least one traveler jumps back; distinct by input"
	var inputs []c12Input
	if ctx.Replay != nil {
		var in c12Input
		if err := json.Unmarshal(ctx.Replay, &in); err != nil {
			return err
		}
		inputs = []c12Input{in}
	} else {
		inputs = c12Inputs(ctx)
	}
	reqs := make([]json.RawMessage, len(inputs))
	for i, in := range inputs {
		reqs[i], _ = json.Marshal(in)
	}
	root, _ := os.MkdirTemp("", "c12root")
	os.Setenv("C12ROOT", root)
	defer os.RemoveAll(root)
	res := runIsolated("loop", reqs, 6, 90*time.Second)
	rerunFailed("loop", reqs, res, 90*time.Second)
	// a stream that did not close in time is only believed after the same request, alone, had 120 s
	confirmedStuck := false
	for i, in := range inputs {
		var ob c12Obs
		if res[i].Crashed || res[i].Timeout {
			continue
		}
		json.Unmarshal(res[i].Out, &ob)
		if !ob.Closed && ob.Err == "" && !confirmedStuck {
			in.DeadlineS = 120
			b, _ := json.Marshal(in)
			if again := runIsolated("loop", []json.RawMessage{b}, 1, 200*time.Second); len(again) == 1 {
				res[i] = again[0]
				var ob2 c12Obs
				if !again[0].Crashed && !again[0].Timeout {
					json.Unmarshal(again[0].Out, &ob2)
				}
				if !ob2.Closed {
					confirmedStuck = true // one confirmed failure decides the run; the others keep their first observation
				}
			}
		}
	}
	for i, in := range inputs {
		var ob c12Obs
		r := res[i]
		switch {
		case r.Crashed:
			ob = c12Obs{Isolated: "crash", Err: r.Stderr, Rows: []int{}}
		case r.Timeout:
			ob = c12Obs{Isolated: "worker-timeout", Rows: []int{}}
		default:
			json.Unmarshal(r.Out, &ob)
		}
		if ob.Err != "" && ob.Isolated == "" {
			return fmt.Errorf("worker: %s", ob.Err)
		}
		adj := make([]string, len(in.Adj))
		for v, ws := range in.Adj {
			s := make([]string, len(ws))
			for k, w := range ws {
				s[k] = fmt.Sprint(w)
			}
			adj[v] = fmt.Sprintf("(%d, %s)", v, coq.List(s))
		}
		start := in.Start
		if len(start) == 0 {
			start = make([]int, len(in.Adj))
			for v := range start {
				start[v] = v
			}
		}
		ss := make([]string, len(start))
		for k, v := range start {
			ss[k] = fmt.Sprint(v)
		}
		rows := make([]string, len(ob.Rows))
		for k, v := range ob.Rows {
			if v < 0 {
				rows[k] = "999999999"
			} else {
				rows[k] = fmt.Sprint(v)
			}
		}
		gspec := in.Spec
		if gspec == "" {
			gspec = "(GAdj " + coq.List(adj) + ")"
		}
		cc := coq.Record("c_graph", gspec, "c_hops", fmt.Sprintf("%d%%nat", in.Hops), "c_start", coq.List(ss),
			"c_bound", fmt.Sprintf("%d%%nat", in.Bound), "c_emit", coq.Bool(in.Emit), "c_limit", fmt.Sprintf("%d%%nat", in.Limit),
			"o_closed", coq.Bool(ob.Closed), "o_rows", coq.List(rows), "o_leak", fmt.Sprint(ob.Leak))
		key, _ := json.Marshal(in)
		obsOut := ob
		if len(obsOut.Rows) > 50 {
			obsOut.Rows = append(append([]int{}, ob.Rows[:50]...), -len(ob.Rows))
		}
		ctx.Add(Case{Input: in, Observed: obsOut, Coq: cc, Nontrivial: in.Bound >= 2 && len(in.Adj) > 1, Key: string(key),
			Tags: []string{"graph=" + in.Graph, fmt.Sprintf("emit=%v", in.Emit), fmt.Sprintf("closed=%v", ob.Closed), fmt.Sprintf("procs=%d", in.Procs)}})
	}
	return nil
}
