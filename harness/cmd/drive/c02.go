package main

import (
	"encoding/json"

	"gripverif/internal/coq"
)

func init() { props["C02"] = runC02 }

// programs that stress the planner: leading label/id filters in every spelling, duplicated labels/ids,
// filters/projections reading properties of earlier steps and marks
func c02Programs(ctx *Ctx) [][]tStmt {
	eqL := func(l string) *hExpr { return &hExpr{Kind: "cond", Key: "_label", Op: "eq", Arg: l} }
	inL := func(ls ...interface{}) *hExpr { return &hExpr{Kind: "cond", Key: "_label", Op: "within", Arg: ls} }
	eqI := func(i string) *hExpr { return &hExpr{Kind: "cond", Key: "_gid", Op: "eq", Arg: i} }
	inI := func(ls ...interface{}) *hExpr { return &hExpr{Kind: "cond", Key: "_gid", Op: "within", Arg: ls} }
	and := func(es ...*hExpr) *hExpr {
		h := &hExpr{Kind: "and"}
		for _, e := range es {
			h.Es = append(h.Es, *e)
		}
		return h
	}
	nameX := &hExpr{Kind: "cond", Key: "name", Op: "eq", Arg: "x"}
	starts := [][]tStmt{
		{{Op: "V"}, {Op: "hasLabel", Strs: []string{"P"}}},
		{{Op: "V"}, {Op: "hasLabel", Strs: []string{"P", "P"}}},
		{{Op: "V"}, {Op: "hasLabel", Strs: []string{"P", "Q"}}},
		{{Op: "V"}, {Op: "has", Has: eqL("P")}},
		{{Op: "V"}, {Op: "has", Has: inL("P")}},
		{{Op: "V"}, {Op: "has", Has: inL("P", "Q", "P")}},
		{{Op: "V"}, {Op: "has", Has: and(eqL("P"))}},
		{{Op: "V"}, {Op: "has", Has: and(eqL("P"), nameX)}},
		{{Op: "V"}, {Op: "has", Has: and(nameX, eqL("P"))}},
		{{Op: "V"}, {Op: "hasLabel", Strs: []string{"P"}}, {Op: "hasLabel", Strs: []string{"Q"}}},
		{{Op: "V"}, {Op: "hasId", Strs: []string{"a"}}},
		{{Op: "V"}, {Op: "hasId", Strs: []string{"a", "a", "zz"}}},
		{{Op: "V"}, {Op: "has", Has: eqI("a")}},
		{{Op: "V"}, {Op: "has", Has: inI("a", "b", "a")}},
		{{Op: "V"}, {Op: "hasId", Strs: []string{"a"}}, {Op: "hasLabel", Strs: []string{"Q"}}},
		{{Op: "V"}, {Op: "hasLabel", Strs: []string{"P"}}, {Op: "hasId", Strs: []string{"b"}}},
		{{Op: "V"}, {Op: "has", Has: &hExpr{Kind: "cond", Key: "_label", Op: "neq", Arg: "P"}}},
		{{Op: "V"}, {Op: "has", Has: &hExpr{Kind: "not", Es: []hExpr{*eqL("P")}}}},
		{{Op: "V"}, {Op: "out"}, {Op: "hasLabel", Strs: []string{"Q"}}},
		{{Op: "V", Strs: []string{"a", "b"}}, {Op: "hasLabel", Strs: []string{"P"}}},
		{{Op: "E"}, {Op: "hasLabel", Strs: []string{"knows"}}},
		// vertices reached through an edge's endpoint lookup or through the label index, then filtered by label only
		{{Op: "E"}, {Op: "out"}, {Op: "hasLabel", Strs: []string{"Q"}}},
		{{Op: "E"}, {Op: "in"}, {Op: "hasLabel", Strs: []string{"P"}}},
		{{Op: "E"}, {Op: "both"}, {Op: "hasLabel", Strs: []string{"P", "R"}}},
		{{Op: "V"}, {Op: "hasLabel", Strs: []string{"P", "Q"}}, {Op: "hasLabel", Strs: []string{"P"}}},
		{{Op: "V"}, {Op: "hasId", Strs: []string{"a", "b", "c"}}, {Op: "hasLabel", Strs: []string{"P"}}},
		{{Op: "V"}},
		// a window or a mark between the scan and the filter: the filter must not be moved in front of it
		// (the model graph lists elements in the store's scan order, so the window cuts the same rows)
		{{Op: "V"}, {Op: "limit", N: 2}, {Op: "hasLabel", Strs: []string{"P"}}},
		{{Op: "V"}, {Op: "limit", N: 1}, {Op: "hasId", Strs: []string{"b"}}},
		{{Op: "V"}, {Op: "skip", N: 1}, {Op: "hasLabel", Strs: []string{"P"}}},
		{{Op: "V"}, {Op: "range", N: 1, M: 3}, {Op: "has", Has: eqL("Q")}},
		{{Op: "V"}, {Op: "as", Str: "s"}, {Op: "hasLabel", Strs: []string{"P"}}},
		{{Op: "E"}, {Op: "limit", N: 1}, {Op: "hasLabel", Strs: []string{"knows"}}},
	}
	w2 := &hExpr{Kind: "cond", Key: "$e.w", Op: "eq", Arg: 2.0}
	mname := &hExpr{Kind: "cond", Key: "$m.name", Op: "eq", Arg: "x"}
	tails := [][]tStmt{
		{}, {{Op: "count"}}, {{Op: "out"}}, {{Op: "out"}, {Op: "count"}}, {{Op: "outE"}}, {{Op: "outE"}, {Op: "count"}},
		{{Op: "outE"}, {Op: "as", Str: "e"}, {Op: "out"}, {Op: "has", Has: w2}},
		{{Op: "outE"}, {Op: "as", Str: "e"}, {Op: "out"}, {Op: "render", Tpl: map[string]interface{}{"w": "$e.w", "n": "name"}}},
		{{Op: "as", Str: "m"}, {Op: "out"}, {Op: "has", Has: mname}},
		{{Op: "as", Str: "m"}, {Op: "out"}, {Op: "render", Tpl: map[string]interface{}{"n": "$m.name"}}},
		{{Op: "as", Str: "m"}, {Op: "outE"}, {Op: "in"}, {Op: "select", Strs: []string{"m"}}},
		{{Op: "as", Str: "m"}, {Op: "outE"}, {Op: "as", Str: "e"}, {Op: "in"}, {Op: "select", Strs: []string{"m", "e"}}},
		{{Op: "outE"}, {Op: "as", Str: "e"}, {Op: "out"}, {Op: "select", Strs: []string{"e"}}},
		{{Op: "outE"}, {Op: "fields", Strs: []string{"w"}}},
		{{Op: "outE"}, {Op: "unwind", Str: "tags"}},
		{{Op: "outE"}, {Op: "distinct", Strs: []string{"w"}}},
		{{Op: "outE"}, {Op: "as", Str: "e"}, {Op: "out"}, {Op: "distinct", Strs: []string{"$e.w"}}},
		{{Op: "outE"}, {Op: "hasKey", Strs: []string{"w"}}},
		{{Op: "outE"}, {Op: "out"}, {Op: "path"}},
		{{Op: "outE"}, {Op: "hasLabel", Strs: []string{"knows"}}, {Op: "out"}},
		{{Op: "both"}, {Op: "count"}}, {{Op: "bothE"}},
		// in-edges and both-edges followed by a move (their endpoints are read without their data)
		{{Op: "inE"}, {Op: "out"}}, {{Op: "inE"}, {Op: "in"}, {Op: "count"}}, {{Op: "bothE"}, {Op: "out"}}, {{Op: "bothE"}, {Op: "in"}, {Op: "hasLabel", Strs: []string{"P"}}, {Op: "count"}},
		{{Op: "inE"}, {Op: "as", Str: "e"}, {Op: "out"}, {Op: "render", Tpl: map[string]interface{}{"f": "$e._from", "t": "$e._to", "d": "$e._data", "w": "$e._data.w"}}},
		// a mark read only under not() / inside or()
		{{Op: "as", Str: "m"}, {Op: "out"}, {Op: "has", Has: &hExpr{Kind: "not", Es: []hExpr{*mname}}}},
		{{Op: "as", Str: "m"}, {Op: "outE"}, {Op: "has", Has: &hExpr{Kind: "or", Es: []hExpr{{Kind: "not", Es: []hExpr{*mname}}, *w2}}}, {Op: "count"}},
		// a mark name taken twice, read in between and afterwards
		{{Op: "as", Str: "m"}, {Op: "out"}, {Op: "has", Has: mname}, {Op: "out"}, {Op: "as", Str: "m"}, {Op: "count"}},
		{{Op: "as", Str: "m"}, {Op: "out"}, {Op: "render", Tpl: map[string]interface{}{"n": "$m.name"}}, {Op: "as", Str: "m"}},
		{{Op: "as", Str: "m"}, {Op: "out"}, {Op: "as", Str: "m"}, {Op: "out"}, {Op: "has", Has: mname}},
	}
	// every edge move followed by every kind of reader of the edge's own properties (each half of bothE loads its edges)
	wcur := &hExpr{Kind: "cond", Key: "w", Op: "eq", Arg: 2.0}
	for _, mv := range []string{"inE", "bothE", "outE"} {
		for _, rd := range [][]tStmt{
			{{Op: "has", Has: wcur}}, {{Op: "has", Has: wcur}, {Op: "count"}}, {{Op: "hasKey", Strs: []string{"w"}}, {Op: "count"}},
			{{Op: "unwind", Str: "tags"}}, {{Op: "distinct", Strs: []string{"w"}}, {Op: "count"}}, {{Op: "fields", Strs: []string{"w"}}},
			{{Op: "render", Tpl: map[string]interface{}{"w": "w", "n": "name"}}},
			{{Op: "as", Str: "e"}, {Op: "out"}, {Op: "has", Has: w2}, {Op: "count"}},
			{{Op: "as", Str: "e"}, {Op: "in"}, {Op: "select", Strs: []string{"e"}}, {Op: "has", Has: wcur}, {Op: "count"}},
			{{Op: "as", Str: "e"}, {Op: "in"}, {Op: "select", Strs: []string{"e"}}, {Op: "out"}},
			{{Op: "as", Str: "e"}, {Op: "out"}, {Op: "select", Strs: []string{"e"}}, {Op: "distinct", Strs: []string{"w"}}, {Op: "count"}},
		} {
			tails = append(tails, append([]tStmt{{Op: mv}}, rd...))
		}
	}
	nOld := len(tails) - 33
	out := [][]tStmt{}
	for si, s := range starts {
		for ti, t := range tails {
			if ti >= nOld && si%5 != 0 { // the edge-reader tails behind every fifth start shape
				continue
			}
			p := append(append([]tStmt{}, s...), t...)
			if genType(s) == "edge" && len(t) > 0 && (t[0].Op == "outE" || t[0].Op == "bothE" || t[0].Op == "inE") {
				continue
			}
			out = append(out, p)
		}
	}
	return out
}

func runC02(ctx *Ctx) error {
	ctx.EvalMod = "Eval_C02"
	ctx.CaseTy = "c02_case"
	ctx.Shard = 150
	ctx.HasKF = true
	ctx.Rule = "(a0) inspect.PipelineSteps / PipelineStepOutputs on ~500 random programs of <= 8 statements that read properties directly, through marks (also one name marked twice, undefined names, $__current__), in has/hasKey/distinct/unwind/fields/render, behind moves, counts, selects and windows, against Model/LoadPlan.v, and the observed outputs against the covering predicate of C02_loads_cover; non-trivial = some step is elided; (a1) the same tables for ~400 programs with aggregate (fields of term / histogram / percentile / field / type aggregations, also through marks), set, increment, jump with and without a condition, mark and the null-producing moves, against the extension of the model to those statements (C02_x_loads_cover); (a) the statement list core.IndexStartOptimize returns for filter runs in every shape the rewrite distinguishes (hasId/hasLabel with duplicates and empty lists, has() on _gid/_label under every key spelling, operator and argument type, nested/empty and(), or(), not(), unset; every single filter in four positions plus random runs of <= 4 after V()/V(ids)/E()) against the list Model/Optimize.v computes, and the plan's meaning in the model on a graph with unique vertex ids; non-trivial = the plan differs from the program; (b) production compiler (index-start rewrite + load elision) vs the literal semantics: 28 start shapes (every spelling of a leading label / id filter, duplicated labels and ids, and()-wrapped forms, negated forms, filters after a move, after a window and after a mark) x 22 tails that read properties of the current element, of earlier steps and of marks (has/render/select/fields/unwind/distinct/hasKey/path over vertex and edge marks), on the fixed graph and on random graphs, plus the C01 random program space; non-trivial = well typed with >= 1 row; distinct by (graph, program)"
	var inputs []c01Input
	if ctx.Replay != nil {
		var in c01Input
		if err := json.Unmarshal(ctx.Replay, &in); err != nil {
			return err
		}
		if in.Driver == "plan" {
			addPlanCases(ctx, []tGraph{in.Graph}, [][]tStmt{in.Prog})
			return nil
		}
		if in.Driver == "load" {
			addLoadCases(ctx, [][]tStmt{in.Prog})
			return nil
		}
		if in.Driver == "loadx" {
			addLoadXCases(ctx, [][]tStmt{in.Prog})
			return nil
		}
		inputs = []c01Input{in}
	} else {
		fg := fixedGraph()
		progs := c02Programs(ctx)
		planGraphs := []tGraph{fg}
		for len(planGraphs) < 4 {
			if g := randGraph(ctx.Rng); uniqueVertexIDs(g) {
				planGraphs = append(planGraphs, g)
			}
		}
		addPlanCases(ctx, planGraphs, append(c02PlanPrograms(ctx), progs...))
		addLoadCases(ctx, append(c02LoadPrograms(ctx), progs...))
		addLoadXCases(ctx, c02LoadXPrograms(ctx))
		for _, p := range progs {
			inputs = append(inputs, c01Input{Driver: "badger", Graph: fg, Prog: p})
		}
		for i := 0; i < ctx.Pick(3, 20); i++ {
			g := randGraph(ctx.Rng)
			for _, p := range progs {
				if ctx.Rng.Intn(3) == 0 {
					inputs = append(inputs, c01Input{Driver: "badger", Graph: g, Prog: p})
				}
			}
		}
		for i := 0; i < ctx.Pick(30, 200); i++ {
			g := randGraph(ctx.Rng)
			for j := 0; j < 10; j++ {
				p := randProgram(ctx.Rng, 7, progOpts{markType: genType})
				if usesUndefinedMark(p) || !windowOK(p) {
					continue
				}
				inputs = append(inputs, c01Input{Driver: "badger", Graph: g, Prog: p})
			}
		}
	}
	var outs []tOutcome
	n0 := len(inputs)
	if ctx.Replay != nil {
		mode := "production"
		if inputs[0].Driver == "badger+honour" {
			mode = "production-honour"
			n0 = 0
		}
		outs = runTravCases(ctx, inputs, mode)
	} else {
		outsA := runTravCases(ctx, inputs, "production")
		outsB := runTravCases(ctx, inputs, "production-honour")
		inputs = append(inputs, inputs...)
		outs = append(outsA, outsB...)
	}
	for i, in := range inputs {
		o := outs[i]
		backend := "backend=kvgraph(ignores the vertex load hint)"
		if i >= n0 {
			backend = "backend=wrapper honouring the load hint"
			in.Driver = "badger+honour"
		}
		c := "(CRows " + coq.Record("cgraph", in.Graph.coq(), "cprog", progCoq(in.Prog), "cobs", outcomeCoq(o)) + ")"
		key, _ := json.Marshal(in)
		tags := []string{"len=" + bucket(len(in.Prog)), backend}
		if o.Rejected {
			tags = append(tags, "rejected")
		} else {
			tags = append(tags, "rows="+bucket(len(o.Rows)))
		}
		ctx.Add(Case{Input: in, Observed: o, Coq: c, Nontrivial: !o.Rejected && len(o.Rows) >= 1, Key: string(key), Tags: tags})
	}
	return nil
}
