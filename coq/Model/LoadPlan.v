(* Model of the load-elision analysis (property C02): engine/inspect PipelineSteps, PipelineStepOutputs and
   pipeline.State.StepLoadData, over the statements of Model/Traversal.v.

   Every statement lives on a "step" (a counter that advances whenever the traveler moves to another element).
   Walking the program backwards, the analysis records per step which outputs later statements need: ["*"] when
   some statement reads a field of the element of that step (directly, or through a mark taken at that step),
   ["_label"] when only hasLabel looks at it; a step loads its element's data unless its entry is missing or is
   exactly ["_label"]. *)
From Coq Require Import List String Bool Arith.
Import ListNotations.
From Grip Require Import Model.Json Model.Has Model.Traversal Model.Optimize.
Local Open Scope string_scope.
Local Open Scope list_scope.

(* PipelineSteps *)
Definition moves (s : stmt) : bool :=
  match s with
  | SV _ | SE _ | SIn _ | SOut _ | SBoth _ | SInE _ | SOutE _ | SBothE _ | SSelect _
  | SInNull _ | SOutNull _ | SInENull _ | SOutENull _ => true
  | _ => false
  end.
Fixpoint step_ids_from (cur : nat) (p : list stmt) : list nat :=
  match p with
  | [] => []
  | s :: r => let c := if moves s then S cur else cur in c :: step_ids_from c r
  end.
Definition step_ids (p : list stmt) : list nat := step_ids_from 0 p.

(* statementFields *)
Fixpoint hexpr_fields (e : hexpr) : list string :=
  match e with
  | HCond k _ _ => [k]
  | HAnd es | HOr es => (fix go (l : list hexpr) : list string := match l with [] => [] | x :: r => hexpr_fields x ++ go r end) es
  | HNot x => hexpr_fields x
  | HUnset => []
  end.
Fixpoint template_fields (t : jv) : list string :=
  match t with
  | JStr s => [s]
  | JList l => (fix go (l : list jv) : list string := match l with [] => [] | x :: r => template_fields x ++ go r end) l
  | JMap m => (fix go (l : list (string * jv)) : list string := match l with [] => [] | (_, x) :: r => template_fields x ++ go r end) m
  | _ => []
  end.
Definition stmt_fields (s : stmt) : list string :=
  match s with
  | SHas e => hexpr_fields e
  | SHasKey ks => ks
  | SDistinct fs => fs
  | SFields _ => ["_data"]
  | SUnwind f => [f]
  | SRender t => template_fields t
  | _ => []
  end.

(* every (name, step) at which a name is marked *)
Fixpoint as_steps (l : list (nat * stmt)) : list (string * nat) :=
  match l with
  | [] => []
  | (k, SAs m) :: r => (m, k) :: as_steps r
  | _ :: r => as_steps r
  end.
Definition steps_of (am : list (string * nat)) (m : string) : list nat :=
  map snd (filter (fun x => String.eqb m (fst x)) am).

(* the outputs map *)
Definition outmap := list (nat * list string).
Definition get_out (k : nat) (o : outmap) : option (list string) :=
  option_map snd (find (fun x => Nat.eqb k (fst x)) o).
Definition set_out (k : nat) (v : list string) (o : outmap) : outmap :=
  (k, v) :: filter (fun x => negb (Nat.eqb k (fst x))) o.
Definition star (k : nat) (o : outmap) : outmap := set_out k ["*"] o.
Definition star_all (ks : list nat) (o : outmap) : outmap := fold_left (fun o k => star k o) ks o.

(* the reads of one field path *)
Definition read_field (am : list (string * nat)) (k : nat) (o : outmap) (f : string) : outmap :=
  match namespace f with
  | None => star k o
  | Some m => star_all (steps_of am m) o
  end.
(* the distinct case of the Go switch repeats the reads of its fields (and looks a mark called "__current__" up) *)
Definition read_distinct (am : list (string * nat)) (k : nat) (o : outmap) (f : string) : outmap :=
  match namespace f with
  | None => star_all (steps_of am "__current__") (star k o)
  | Some m => star_all (steps_of am m) o
  end.

Definition scans (s : stmt) : bool :=
  match s with SV _ | SE _ | SIn _ | SOut _ | SBoth _ | SInE _ | SOutE _ | SBothE _ => true | _ => false end.

(* one statement of the backward walk: (outputs, onLast) after the statements behind it -> after it *)
Definition effect (am : list (string * nat)) (k : nat) (s : stmt) (st : outmap * bool) : outmap * bool :=
  let '(o, onl) := st in
  let o1 := fold_left (read_field am k) (stmt_fields s) o in
  match s with
  | SCount => (o1, false)
  | SSelect ms => (fold_left (fun o m => star_all (steps_of am m) o) ms o1, false)
  | SDistinct fs => (fold_left (read_distinct am k) fs o1, onl)
  | SHasLabel _ => (match get_out k o1 with Some x => set_out k (x ++ ["_label"]) o1 | None => set_out k ["_label"] o1 end, onl)
  | SHas _ => (star k o1, onl)
  | _ => if scans s then ((if onl then star k o1 else o1), false) else (o1, onl)
  end.

Fixpoint analyse (am : list (string * nat)) (l : list (nat * stmt)) : outmap * bool :=
  match l with
  | [] => ([], true)
  | (k, s) :: r => effect am k s (analyse am r)
  end.

Definition indexed (p : list stmt) : list (nat * stmt) := combine (step_ids p) p.
(* PipelineStepOutputs *)
Definition outputs (p : list stmt) : outmap := fst (analyse (as_steps (indexed p)) (indexed p)).

(* StepLoadData *)
Definition loads (o : outmap) (k : nat) : bool :=
  match get_out k o with
  | Some [l] => negb (String.eqb l "_label")
  | Some _ => true
  | None => false
  end.

(* ---------- what the analysis must guarantee ---------- *)
Definition has_star (o : outmap) (k : nat) : bool :=
  match get_out k o with Some x => existsb (String.eqb "*") x | None => false end.

(* the reads of one statement are covered by the outputs *)
Definition field_covered (am : list (string * nat)) (o : outmap) (k : nat) (f : string) : bool :=
  match namespace f with
  | None => has_star o k
  | Some m => forallb (has_star o) (steps_of am m)
  end.
Definition stmt_covered (am : list (string * nat)) (o : outmap) (ks : nat * stmt) : bool :=
  forallb (field_covered am o (fst ks)) (stmt_fields (snd ks)) &&
  match snd ks with
  | SSelect ms => forallb (fun m => forallb (has_star o) (steps_of am m)) ms
  | SHas _ => has_star o (fst ks)
  | _ => true
  end.
(* the element a traversal returns is loaded: the last scanning statement, when neither count nor select follows *)
Fixpoint last_scan_covered (o : outmap) (l : list (nat * stmt)) : bool :=
  match l with
  | [] => true
  | (k, s) :: r =>
      last_scan_covered o r &&
      (if scans s && negb (existsb (fun x => match snd x with SCount | SSelect _ => true | _ => scans (snd x) end) r)
       then has_star o k else true)
  end.
Definition reads_covered (p : list stmt) (o : outmap) : bool :=
  let l := indexed p in
  forallb (stmt_covered (as_steps l) o) l && last_scan_covered o l.

(* ---------- the analysis as the production compiler runs it: on the rewritten statement list ---------- *)
(* LookupVertsIndex does not advance the step counter and is a scan without fields *)
Definition ostmt_as_stmt (o : ostmt) : stmt := match o with OS s => s | OLookup _ => SV [] end.
Fixpoint plan_step_ids_from (cur : nat) (p : list ostmt) : list nat :=
  match p with
  | [] => []
  | o :: r => let c := match o with OS s => if moves s then S cur else cur | OLookup _ => cur end in
              c :: plan_step_ids_from c r
  end.
Definition plan_step_ids (p : list ostmt) : list nat := plan_step_ids_from 0 p.
Definition indexed_plan (p : list ostmt) : list (nat * stmt) := combine (plan_step_ids p) (map ostmt_as_stmt p).
Definition plan_outputs (p : list ostmt) : outmap := fst (analyse (as_steps (indexed_plan p)) (indexed_plan p)).
Definition plan_reads_covered (p : list ostmt) (o : outmap) : bool :=
  let l := indexed_plan p in
  forallb (stmt_covered (as_steps l) o) l && last_scan_covered o l.

(* ---------- statements outside the alphabet of Model/Traversal.v, as the analysis sees them ---------- *)
(* aggregate reads the fields of its aggregations, set / increment their key, jump the fields of its condition; mark reads
   nothing; the null-producing moves (outNull, inNull, outENull, inENull) advance the step counter but are not among the
   scanning statements of PipelineStepOutputs. For the analysis each is equivalent to a statement of the model that reads
   the same fields and has no case of its own in the switch (hasKey / path). *)
Inductive xstmt :=
| XS (s : stmt) | XAggregate (fields : list string) | XSet (key : string) | XIncrement (key : string)
| XJump (cond : option hexpr) | XMark | XNullMove.
Definition x_moves (x : xstmt) : bool := match x with XS s => moves s | XNullMove => true | _ => false end.
Definition x_repr (x : xstmt) : stmt :=
  match x with
  | XS s => s
  | XAggregate fs => SHasKey fs
  | XSet k | XIncrement k => SHasKey [k]
  | XJump (Some e) => SHasKey (hexpr_fields e)
  | XJump None | XMark | XNullMove => SPath
  end.
Fixpoint x_step_ids_from (cur : nat) (p : list xstmt) : list nat :=
  match p with
  | [] => []
  | x :: r => let c := if x_moves x then S cur else cur in c :: x_step_ids_from c r
  end.
Definition x_step_ids (p : list xstmt) : list nat := x_step_ids_from 0 p.
Definition x_indexed (p : list xstmt) : list (nat * stmt) := combine (x_step_ids p) (map x_repr p).
Definition x_outputs (p : list xstmt) : outmap := fst (analyse (as_steps (x_indexed p)) (x_indexed p)).
Definition x_reads_covered (p : list xstmt) (o : outmap) : bool :=
  let l := x_indexed p in
  forallb (stmt_covered (as_steps l) o) l && last_scan_covered o l.
