From Coq Require Import List ZArith QArith String Bool Permutation.
Import ListNotations.
From Grip Require Import Model.Json Model.Has.

Theorem match_cond_doc v op a : match_cond v op a = doc_cond v op a.
Proof.
  unfold match_cond, doc_cond, numeric, to_number.
  destruct op; try reflexivity;
    try (destruct (goval v) as [| | q | s | |]; try reflexivity;
         try (destruct a as [| | q' | s' | |]; try reflexivity; destruct (parse_float s'); reflexivity);
         destruct (parse_float s); try reflexivity;
         destruct a as [| | q' | s' | |]; try reflexivity; destruct (parse_float s'); reflexivity).
  all: destruct a as [| | | | l |]; try (destruct (goval v) as [| | ? | s0 | |]; try reflexivity; destruct (parse_float s0); reflexivity).
  all: destruct l as [|lo [|hi [|x r]]]; try (destruct (goval v) as [| | ? | s0 | |]; try reflexivity; destruct (parse_float s0); reflexivity).
  all: destruct lo as [| | ql | sl | |]; try (destruct (goval v) as [| | ? | s0 | |]; try reflexivity; destruct (parse_float s0); reflexivity).
  all: try (destruct (parse_float sl); [|destruct (goval v) as [| | ? | s0 | |]; try reflexivity; destruct (parse_float s0); reflexivity]).
  all: destruct hi as [| | qh | sh | |]; try (destruct (goval v) as [| | ? | s0 | |]; try reflexivity; destruct (parse_float s0); reflexivity).
  all: try (destruct (parse_float sh); [|destruct (goval v) as [| | ? | s0 | |]; try reflexivity; destruct (parse_float s0); reflexivity]).
  all: destruct (goval v) as [| | ? | s0 | |]; try reflexivity; destruct (parse_float s0); reflexivity.
Qed.

Section Bool.
  Variable look : string -> option jv.
  Notation ev := (match_expr look).

  Theorem de_morgan_and es : ev (HNot (HAnd es)) = ev (HOr (map HNot es)).
  Proof. simpl. induction es as [|e es IH]; simpl; auto. rewrite negb_andb. now rewrite IH. Qed.

  Theorem de_morgan_or es : ev (HNot (HOr es)) = ev (HAnd (map HNot es)).
  Proof. simpl. induction es as [|e es IH]; simpl; auto. rewrite negb_orb. now rewrite IH. Qed.

  Theorem double_negation e : ev (HNot (HNot e)) = ev e.
  Proof. simpl. apply negb_involutive. Qed.

  Lemma forallb_perm {X} (f : X -> bool) a b : Permutation a b -> forallb f a = forallb f b.
  Proof. induction 1; simpl; auto.
    - now rewrite IHPermutation.
    - destruct (f x), (f y); reflexivity.
    - congruence. Qed.
  Lemma existsb_perm {X} (f : X -> bool) a b : Permutation a b -> existsb f a = existsb f b.
  Proof. induction 1; simpl; auto.
    - now rewrite IHPermutation.
    - destruct (f x), (f y); reflexivity.
    - congruence. Qed.

  Theorem and_reorder es es' : Permutation es es' -> ev (HAnd es) = ev (HAnd es').
  Proof. simpl. apply forallb_perm. Qed.
  Theorem or_reorder es es' : Permutation es es' -> ev (HOr es) = ev (HOr es').
  Proof. simpl. apply existsb_perm. Qed.

  (* congruence: replacing a sub-expression by an equivalent one anywhere, at any depth *)
  Inductive equiv : hexpr -> hexpr -> Prop :=
  | Q_refl : forall e, equiv e e
  | Q_sym : forall a b, equiv a b -> equiv b a
  | Q_trans : forall a b c, equiv a b -> equiv b c -> equiv a c
  | Q_dm_and : forall es, equiv (HNot (HAnd es)) (HOr (map HNot es))
  | Q_dm_or : forall es, equiv (HNot (HOr es)) (HAnd (map HNot es))
  | Q_nn : forall e, equiv (HNot (HNot e)) e
  | Q_and_perm : forall es es', Permutation es es' -> equiv (HAnd es) (HAnd es')
  | Q_or_perm : forall es es', Permutation es es' -> equiv (HOr es) (HOr es')
  | Q_not : forall a b, equiv a b -> equiv (HNot a) (HNot b)
  | Q_and_cons : forall a b es, equiv a b -> equiv (HAnd (a :: es)) (HAnd (b :: es))
  | Q_or_cons : forall a b es, equiv a b -> equiv (HOr (a :: es)) (HOr (b :: es))
  | Q_and_tail : forall a es es', equiv (HAnd es) (HAnd es') -> equiv (HAnd (a :: es)) (HAnd (a :: es'))
  | Q_or_tail : forall a es es', equiv (HOr es) (HOr es') -> equiv (HOr (a :: es)) (HOr (a :: es')).

  Theorem equiv_sound a b : equiv a b -> ev a = ev b.
  Proof.
    induction 1; auto; try congruence.
    - apply de_morgan_and.
    - apply de_morgan_or.
    - apply double_negation.
    - now apply and_reorder.
    - now apply or_reorder.
    - simpl. now rewrite IHequiv.
    - simpl. now rewrite IHequiv.
    - simpl. now rewrite IHequiv.
    - simpl in *. now rewrite IHequiv.
    - simpl in *. now rewrite IHequiv.
  Qed.
End Bool.
