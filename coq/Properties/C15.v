(* C15  A gripper-mapped graph is exactly the graph its mapping describes. *)
From Coq Require Import List String Bool.
Import ListNotations.
From Grip Require Import Model.Json Model.Has Model.Traversal Model.Gripper Proofs.GripperProofs.
Local Open Scope string_scope.

(* for EVERY table set and mapping: one vertex per row of every mapped vertex table (id = prefix + row id, the
   mapped label, the row as properties) *)
Theorem C15_vertices : forall m,
  List.length (gv (materialise m)) = fold_right (fun vm acc => List.length (table_rows m (vm_table vm)) + acc) 0 (m_vertices m) /\
  (forall v, In v (gv (materialise m)) -> exists vm r, In vm (m_vertices m) /\ In r (table_rows m (vm_table vm)) /\
      v_id v = vm_prefix vm ++ fst r /\ v_label v = vm_label vm /\ v_data v = snd r).
Proof. intros m. destruct (vertices_exact m) as (_ & H1 & H2). split; assumption. Qed.
Print Assumptions C15_vertices.

(* ... and one edge per link row with two non-empty string endpoints *)
Theorem C15_edges : forall m,
  List.length (ge (materialise m)) =
  fold_right (fun em acc => List.length (filter (valid_link em) (table_rows m (em_table em))) + acc) 0 (m_edges m) /\
  (forall e, In e (ge (materialise m)) -> exists em r f t, In em (m_edges m) /\ In r (table_rows m (em_table em)) /\
      field_string r (em_from_field em) = Some f /\ field_string r (em_to_field em) = Some t /\ f <> "" /\ t <> "" /\
      ed_from e = em_from em ++ f /\ ed_to e = em_to em ++ t /\ ed_label e = em_label em /\ ed_data e = snd r).
Proof. exact edges_exact. Qed.
Print Assumptions C15_edges.

(* the start plans this driver makes itself (read only the tables mapped to the labels) select exactly what a
   full scan followed by hasLabel selects; every traversal after that is Model/Traversal.v's (C01) *)
Theorem C15_label_plans : forall m ls,
  label_scan m ls = filter (fun v => mem_str (v_label v) ls) (gv (materialise m)) /\
  edge_label_scan m ls = filter (fun e => mem_str (ed_label e) ls) (ge (materialise m)).
Proof. intros; split; [apply label_scan_is_filter|apply edge_label_scan_is_filter]. Qed.
Print Assumptions C15_label_plans.

Example C15_instance :
  let m := {| m_tables := [("people", [("1", [("name", JStr "a")]); ("2", [("name", JStr "b")])]);
                           ("links", [("r0", [("src", JStr "1"); ("dst", JStr "2")]); ("r1", [("src", JStr ""); ("dst", JStr "2")]);
                                      ("r2", [("dst", JStr "1")]); ("r3", [("src", JStr "1"); ("dst", JStr "2")])])];
               m_vertices := [{| vm_prefix := "P:"; vm_label := "Person"; vm_table := "people" |}];
               m_edges := [{| em_from := "P:"; em_to := "P:"; em_label := "knows"; em_table := "links"; em_from_field := "src"; em_to_field := "dst" |}] |} in
  List.length (gv (materialise m)) = 2 /\ List.length (ge (materialise m)) = 2 /\
  map ed_id (ge (materialise m)) = ["P:1-knows-P:2"; "P:1-knows-P:2"].
Proof. vm_compute. auto. Qed.
