(* has() conditions: engine/logic/match.go MatchesCondition / MatchesHasExpression (property C08),
   and the documented meaning they must have. *)
From Coq Require Import List ZArith QArith String Bool.
Import ListNotations.
From Grip Require Import Model.Json.

Inductive cop := CEq | CNeq | CGt | CGte | CLt | CLte | CInside | COutside | CBetween | CWithin | CWithout | CContains.

(* the value a key resolves to: None = no such field (Go nil), JNull is also Go nil *)
Definition goval (v : option jv) : jv := match v with Some x => x | None => JNull end.

(* toNumber: numbers and numeric text only *)
Definition to_number (v : jv) : option Q :=
  match v with JNum q => Some q | JStr s => parse_float s | _ => None end.

Definition qlt (a b : Q) : bool := match Qcompare a b with Lt => true | _ => false end.
Definition qle (a b : Q) : bool := match Qcompare a b with Gt => false | _ => true end.

(* the code, case by case, with its early returns *)
Definition match_cond (v0 : option jv) (op : cop) (a : jv) : bool :=
  let v := goval v0 in
  let ord (f : Q -> Q -> bool) :=
    match to_number v with
    | None => false
    | Some x => match to_number a with None => false | Some y => f x y end
    end in
  let bounds (f : Q -> Q -> Q -> bool) :=
    match a with
    | JList [lo; hi] =>
        match to_number lo with
        | None => false
        | Some l => match to_number hi with
                    | None => false
                    | Some h => match to_number v with None => false | Some x => f x l h end
                    end
        end
    | _ => false
    end in
  match op with
  | CEq => jeq v a
  | CNeq => negb (jeq v a)
  | CGt => ord (fun x y => qlt y x)
  | CGte => ord (fun x y => qle y x)
  | CLt => ord qlt
  | CLte => ord qle
  | CInside => bounds (fun x l h => qlt l x && qlt x h)
  | COutside => bounds (fun x l h => qlt x l || qlt h x)
  | CBetween => bounds (fun x l h => qle l x && qlt x h)
  | CWithin => match a with JList l => existsb (jeq v) l | _ => false end
  | CWithout => negb (match a with JList l => existsb (jeq v) l | _ => false end)
  | CContains => match v with JList l => existsb (fun x => jeq x a) l | _ => false end
  end.

Inductive hexpr :=
| HCond (key : string) (op : cop) (arg : jv)
| HAnd (es : list hexpr) | HOr (es : list hexpr) | HNot (e : hexpr)
| HUnset.                                     (* a HasExpression with no branch set *)

Section Eval.
  Variable look : string -> option jv.        (* TravelerPathLookup on the traveler at hand *)
  Fixpoint match_expr (e : hexpr) : bool :=
    match e with
    | HCond k op a => match_cond (look k) op a
    | HAnd es => forallb match_expr es
    | HOr es => existsb match_expr es
    | HNot x => negb (match_expr x)
    | HUnset => false
    end.
End Eval.

(* ---------- the documented meaning (website/content/docs/queries/operations.md) ---------- *)
(* an operand of an ordering test has a numeric reading only if it is a number or numeric text *)
Definition numeric (v : jv) : option Q := match v with JNum q => Some q | JStr s => parse_float s | _ => None end.

Definition doc_cond (v0 : option jv) (op : cop) (a : jv) : bool :=
  let v := goval v0 in
  let two := match a with JList [lo; hi] => match numeric lo, numeric hi with Some l, Some h => Some (l, h) | _, _ => None end | _ => None end in
  match op with
  | CEq => jeq v a
  | CNeq => negb (jeq v a)
  | CGt => match numeric v, numeric a with Some x, Some y => qlt y x | _, _ => false end          (* variable > value *)
  | CGte => match numeric v, numeric a with Some x, Some y => qle y x | _, _ => false end
  | CLt => match numeric v, numeric a with Some x, Some y => qlt x y | _, _ => false end
  | CLte => match numeric v, numeric a with Some x, Some y => qle x y | _, _ => false end
  | CInside => match numeric v, two with Some x, Some (l, h) => qlt l x && qlt x h | _, _ => false end    (* > lower && < upper *)
  | COutside => match numeric v, two with Some x, Some (l, h) => qlt x l || qlt h x | _, _ => false end   (* < lower || > upper *)
  | CBetween => match numeric v, two with Some x, Some (l, h) => qle l x && qlt x h | _, _ => false end   (* >= lower && < upper *)
  | CWithin => match a with JList l => existsb (jeq v) l | _ => false end                                (* variable is within the values *)
  | CWithout => negb (match a with JList l => existsb (jeq v) l | _ => false end)                        (* not within *)
  | CContains => match v with JList l => existsb (fun x => jeq x a) l | _ => false end                   (* variable contains value *)
  end.
