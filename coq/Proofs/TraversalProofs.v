(* Proofs for Model/Traversal.v (C01, C02, C06). *)
From Coq Require Import List ZArith QArith String Bool NArith Lia Permutation Arith.
Import ListNotations.
From Grip Require Import Model.Json Model.Has Model.Traversal.
Local Close Scope Q_scope.
Local Open Scope list_scope.

(* ---------- 1. window arithmetic ---------- *)
Inductive sublist {X} : list X -> list X -> Prop :=
| sl_nil : sublist [] []
| sl_keep : forall x a b, sublist a b -> sublist (x :: a) (x :: b)
| sl_skip : forall x a b, sublist a b -> sublist a (x :: b).

Lemma sublist_refl {X} (l : list X) : sublist l l.
Proof. induction l; constructor; auto. Qed.
Lemma sublist_nil {X} (l : list X) : sublist [] l.
Proof. induction l; constructor; auto. Qed.
Lemma sublist_app {X} (a a' b b' : list X) : sublist a a' -> sublist b b' -> sublist (a ++ b) (a' ++ b').
Proof. induction 1; simpl; intros Hb; auto; constructor; auto. Qed.
Lemma sublist_length {X} (a b : list X) : sublist a b -> List.length a <= List.length b.
Proof. induction 1; simpl; lia. Qed.
Lemma sublist_trans {X} (a b c : list X) : sublist a b -> sublist b c -> sublist a c.
Proof. intros H1 H2. revert a H1. induction H2; intros a' H1; auto.
  - inversion H1; subst; constructor; auto.
  - constructor; auto. Qed.
Lemma sublist_firstn {X} n (l : list X) : sublist (firstn n l) l.
Proof. revert n; induction l as [|x l IH]; intros [|n]; simpl; try constructor; auto. apply sublist_nil. Qed.
Lemma sublist_skipn {X} n (l : list X) : sublist (skipn n l) l.
Proof. revert n; induction l as [|x l IH]; intros [|n]; simpl; try constructor; auto. apply sublist_refl. Qed.
Lemma sublist_filter {X} (f : X -> bool) l : sublist (filter f l) l.
Proof. induction l as [|x l IH]; simpl; [constructor|]. destruct (f x); constructor; auto. Qed.
Lemma sublist_map {X Y} (f : X -> Y) a b : sublist a b -> sublist (map f a) (map f b).
Proof. induction 1; simpl; constructor; auto. Qed.
Lemma sublist_flat_map {X Y} (f : X -> list Y) a b : sublist a b -> sublist (flat_map f a) (flat_map f b).
Proof. induction 1; simpl; [constructor| |].
  - apply sublist_app; auto. apply sublist_refl.
  - rewrite <- (app_nil_l (flat_map f a)). apply sublist_app; auto. apply sublist_nil. Qed.
Lemma sublist_filter_mono {X} (f : X -> bool) a b : sublist a b -> sublist (filter f a) (filter f b).
Proof. induction 1; simpl; [constructor| |]; destruct (f x); try constructor; auto. Qed.

Lemma range_go_sublist a b l : forall i, sublist (range_go a b i l) l.
Proof. induction l as [|x l IH]; intros i; simpl; [constructor|].
  destruct ((a <=? i) && ((i <? b) || (b =? -1)))%Z; constructor; auto. Qed.

Lemma range_go_length a b l : forall i, (0 <= i)%Z ->
  Z.of_nat (List.length (range_go a b i l)) =
  let hi := if (b =? -1)%Z then (i + Z.of_nat (List.length l))%Z else Z.min b (i + Z.of_nat (List.length l))%Z in
  Z.max 0 (hi - Z.max a i).
Proof.
  induction l as [|x l IH]; intros i Hi; cbn [range_go List.length].
  - destruct (b =? -1)%Z; simpl; lia.
  - specialize (IH (i + 1)%Z ltac:(lia)). cbv zeta in *.
    destruct (b =? -1)%Z eqn:Eb.
    + rewrite orb_true_r, andb_true_r. destruct (a <=? i)%Z eqn:Ea; cbn [List.length]; rewrite ?Nat2Z.inj_succ, IH; lia.
    + rewrite orb_false_r. destruct (a <=? i)%Z eqn:Ea; destruct (i <? b)%Z eqn:Ei; cbn [andb List.length];
        rewrite ?Nat2Z.inj_succ, IH; lia.
Qed.

(* the three window steps: row count by the arithmetic of the bounds, rows a sub-sequence of the input *)
Theorem window_count g d ts :
  (forall n, List.length (step g d (SLimit n) ts) = Nat.min (N.to_nat n) (List.length ts)) /\
  (forall n, List.length (step g d (SSkip n) ts) = List.length ts - N.to_nat n) /\
  (forall a b, Z.of_nat (List.length (step g d (SRange a b) ts)) =
               Z.max 0 ((if (b =? -1)%Z then Z.of_nat (List.length ts) else Z.min b (Z.of_nat (List.length ts))) - Z.max a 0)).
Proof.
  repeat split; intros; simpl.
  - apply firstn_length.
  - apply skipn_length.
  - rewrite range_go_length by lia. simpl. reflexivity.
Qed.

Definition is_window (s : stmt) : bool := match s with SLimit _ | SSkip _ | SRange _ _ => true | _ => false end.
Theorem window_sublist g d s ts : is_window s = true -> sublist (step g d s ts) ts.
Proof. destruct s; simpl; try discriminate; intros _.
  - apply sublist_firstn.
  - apply sublist_skipn.
  - apply range_go_sublist. Qed.

(* steps that act row by row: everything except count, distinct and the windows *)
Definition rowwise (s : stmt) : bool :=
  match s with SCount | SDistinct _ | SLimit _ | SSkip _ | SRange _ _ => false | _ => true end.

Lemma step_rowwise_sublist g d s a b : rowwise s = true -> sublist a b -> sublist (step g d s a) (step g d s b).
Proof.
  intros Hr H. destruct s; simpl in Hr; try discriminate; simpl;
    try (destruct ids; apply sublist_flat_map; exact H);
    try (destruct d; apply sublist_flat_map; exact H);
    try (apply sublist_flat_map; exact H);
    try (apply sublist_filter_mono; exact H);
    try (apply sublist_map; exact H);
    try exact H.
  - destruct names as [|m [|m2 r]]; apply sublist_map; exact H.
Qed.

(* a window at ANY position, followed by row-wise steps only: the result is a sub-sequence of the result of
   the same program without the window (so its rows are a sub-multiset and never more numerous) *)
Theorem window_anywhere g w : is_window w = true -> forall p2, forallb rowwise p2 = true ->
  forall ts d a b, sublist a b ->
  match run_from g (d, ts) p2 a, run_from g (d, ts) p2 b with
  | Some (t1, o1), Some (t2, o2) => t1 = t2 /\ sublist o1 o2
  | None, None => True
  | _, _ => False
  end.
Proof.
  intros _ p2. induction p2 as [|s p IH]; intros Hp ts d a b Hab; cbn [run_from].
  - split; auto.
  - cbn [forallb] in Hp. apply andb_true_iff in Hp as [Hs Hp]. destruct (type_step (d, ts) s) as [[d' ts']|]; auto.
    cbn [fst]. apply IH; auto. apply step_rowwise_sublist; auto.
Qed.

(* ---------- 2. type soundness: in a well-typed program no step ever meets a traveler without a current
   element where it needs one (no nil dereference), and single-mark selects always find their mark ---------- *)
Definition marks_ok (mt : list (string * dtype)) (t : trav) : Prop :=
  forall m d, get_assoc m mt = Some d -> is_elem d = true -> get_assoc m (t_marks t) <> None.
Definition revivable (d : dtype) : bool := is_elem d || dtype_eqb d DNone.
Definition wk (ts : tstate) (t : trav) : Prop :=
  (is_elem (fst ts) = true -> t_cur t <> None) /\ (revivable (fst ts) = true -> marks_ok (snd ts) t).

Lemma get_assoc_set_same {V} k (v : V) l : get_assoc k (set_assoc k v l) = Some v.
Proof. unfold get_assoc, set_assoc. simpl. rewrite String.eqb_refl. reflexivity. Qed.
Lemma get_assoc_set_other {V} k k' (v : V) l : k <> k' -> get_assoc k' (set_assoc k v l) = get_assoc k' l.
Proof. intros Hne. unfold get_assoc, set_assoc. simpl.
  assert (String.eqb k' k = false) as -> by (apply String.eqb_neq; congruence).
  f_equal. induction l as [|[a b] r IH]; simpl; auto.
  destruct (String.eqb k a) eqn:E; simpl.
  - apply String.eqb_eq in E; subst a. assert (String.eqb k' k = false) as E2 by (apply String.eqb_neq; congruence).
    rewrite IH. simpl. now rewrite E2.
  - destruct (String.eqb k' a); auto. Qed.

Lemma get_assoc_del_other {V} k k' (l : list (string * V)) : k <> k' -> get_assoc k' (del_assoc k l) = get_assoc k' l.
Proof. intros Hne. unfold get_assoc, del_assoc. f_equal. induction l as [|[a b] r IH]; simpl; auto.
  destruct (String.eqb k a) eqn:E; simpl.
  - apply String.eqb_eq in E; subst a. assert (String.eqb k' k = false) as E2 by (apply String.eqb_neq; congruence).
    rewrite IH. now rewrite E2.
  - destruct (String.eqb k' a); auto. Qed.

Ltac adj :=
  match goal with
  | H : In _ (match ?x with Some _ => _ | None => [] end) |- _ => destruct x eqn:?; [|destruct H]
  | H : In _ (if ?x then _ else _) |- _ => destruct x eqn:?; [|try destruct H]
  | H : In _ [_] |- _ => destruct H as [<-|[]]
  | H : In _ [] |- _ => destruct H
  | H : In _ (flat_map _ _) |- _ => apply in_flat_map in H as [? [? H]]
  | H : In _ (map _ _) |- _ => apply in_map_iff in H as [? [<- H]]
  | H : In _ (_ ++ _) |- _ => apply in_app_or in H as [H|H]
  end.

(* t was produced from src by moving the current element: it has one, and carries src's marks *)
Definition from_src (t src : trav) : Prop := t_cur t <> None /\ t_marks t = t_marks src.

Lemma out_of_src g ls src t : In t (out_of g ls src) -> from_src t src.
Proof. unfold out_of. intros H. repeat adj; split; simpl; auto; discriminate. Qed.
Lemma in_of_src g ls src t : In t (in_of g ls src) -> from_src t src.
Proof. unfold in_of. intros H. repeat adj; split; simpl; auto; discriminate. Qed.
Lemma oute_of_src g ls src t : In t (oute_of g ls src) -> from_src t src.
Proof. unfold oute_of. intros H. repeat adj; split; simpl; auto; discriminate. Qed.
Lemma ine_of_src g ls src t : In t (ine_of g ls src) -> from_src t src.
Proof. unfold ine_of. intros H. repeat adj; split; simpl; auto; discriminate. Qed.
Lemma edge_to_src g src t : In t (edge_to g src) -> from_src t src.
Proof. unfold edge_to. intros H. repeat adj; split; simpl; auto; discriminate. Qed.
Lemma edge_from_src g src t : In t (edge_from g src) -> from_src t src.
Proof. unfold edge_from. intros H. repeat adj; split; simpl; auto; discriminate. Qed.
Lemma unwind_of_src f src t : t_cur src <> None -> In t (unwind_of f src) -> from_src t src.
Proof.
  unfold unwind_of. intros Hsrc H. destruct (t_cur src) eqn:Ec; [|congruence].
  assert (exists v, t = unwind_set src e (unwind_key f) v) as [v ->].
  { destruct (look src f) as [[| | | | [|x r] |]|]; simpl in H;
    repeat match goal with
    | H : _ \/ _ |- _ => destruct H as [H|H]
    | H : False |- _ => destruct H
    | H : In _ (map _ _) |- _ => apply in_map_iff in H as [? [<- H]]
    end; eauto. }
  split; simpl; auto. discriminate.
Qed.

Lemma sublist_In {X} (a b : list X) x : sublist a b -> In x a -> In x b.
Proof. induction 1; simpl; intros Hx; auto. destruct Hx; auto. Qed.

Lemma distinct_go_sublist fs l : forall seen, sublist (distinct_go fs seen l) l.
Proof. induction l as [|t l IH]; intros seen; simpl; [constructor|].
  destruct (dkey fs t); [destruct (existsb _ seen)|]; constructor; auto. Qed.

Lemma wk_moved ts d' t src : wk ts src -> revivable (fst ts) = true -> from_src t src -> wk (d', snd ts) t.
Proof. intros [_ Hm] Hr [Hc Hmk]. split; auto. intros _ m d Hg Hd. rewrite Hmk. eapply Hm; eauto. Qed.

Lemma elem_revivable d : is_elem d = true -> revivable d = true.
Proof. unfold revivable. intros ->. reflexivity. Qed.

Lemma wk_nonrev d mt t : is_elem d = false -> revivable d = false -> wk (d, mt) t.
Proof. intros H1 H2. split; simpl; intros; congruence. Qed.

Theorem step_sound g ts s ts' travs : is_null_move s = false ->
  type_step ts s = Some ts' -> Forall (wk ts) travs -> Forall (wk ts') (step g (fst ts) s travs).
Proof.
  destruct ts as [d mt]. intros Hnn Hty Hwk. rewrite Forall_forall in *. intros t Hin.
  assert (forall src, In src travs -> wk (d, mt) src) as Hsrc by auto.
  destruct s; cbn [type_step] in Hty; cbn [step fst] in Hin.
  - (* V *) destruct (dtype_eqb d DNone) eqn:Ed; inversion Hty; subst. destruct d; try discriminate.
    assert (exists src, In src travs /\ from_src t src) as [src [Hs Hf]].
    { destruct ids; apply in_flat_map in Hin as [src [Hs Hin]]; exists src; split; auto; repeat adj; split; simpl; auto; discriminate. }
    apply (wk_moved (DNone, mt) DVertex t src); auto.
  - (* E *) destruct (dtype_eqb d DNone) eqn:Ed; inversion Hty; subst. destruct d; try discriminate.
    assert (exists src, In src travs /\ from_src t src) as [src [Hs Hf]].
    { destruct ids; apply in_flat_map in Hin as [src [Hs Hin]]; exists src; split; auto; repeat adj; split; simpl; auto; discriminate. }
    apply (wk_moved (DNone, mt) DEdge t src); auto.
  - (* in *) destruct (is_elem d) eqn:Ed; inversion Hty; subst.
    assert (exists src, In src travs /\ from_src t src) as [src [Hs Hf]].
    { destruct d; try discriminate; apply in_flat_map in Hin as [src [Hs Hin]]; exists src; split; auto;
      eauto using in_of_src, edge_from_src. }
    apply (wk_moved (d, mt) DVertex t src); auto. now apply elem_revivable.
  - (* out *) destruct (is_elem d) eqn:Ed; inversion Hty; subst.
    assert (exists src, In src travs /\ from_src t src) as [src [Hs Hf]].
    { destruct d; try discriminate; apply in_flat_map in Hin as [src [Hs Hin]]; exists src; split; auto;
      eauto using out_of_src, edge_to_src. }
    apply (wk_moved (d, mt) DVertex t src); auto. now apply elem_revivable.
  - (* both *) destruct (is_elem d) eqn:Ed; inversion Hty; subst.
    assert (exists src, In src travs /\ from_src t src) as [src [Hs Hf]].
    { destruct d; try discriminate; apply in_flat_map in Hin as [src [Hs Hin]]; exists src; split; auto;
      apply in_app_or in Hin as [Hin|Hin]; eauto using in_of_src, out_of_src, edge_from_src, edge_to_src. }
    apply (wk_moved (d, mt) DVertex t src); auto. now apply elem_revivable.
  - (* inE *) destruct (dtype_eqb d DVertex) eqn:Ed; inversion Hty; subst. destruct d; try discriminate.
    apply in_flat_map in Hin as [src [Hs Hin]]. apply (wk_moved (DVertex, mt) DEdge t src); auto. eauto using ine_of_src.
  - (* outE *) destruct (dtype_eqb d DVertex) eqn:Ed; inversion Hty; subst. destruct d; try discriminate.
    apply in_flat_map in Hin as [src [Hs Hin]]. apply (wk_moved (DVertex, mt) DEdge t src); auto. eauto using oute_of_src.
  - (* bothE *) destruct (dtype_eqb d DVertex) eqn:Ed; inversion Hty; subst. destruct d; try discriminate.
    apply in_flat_map in Hin as [src [Hs Hin]]. apply (wk_moved (DVertex, mt) DEdge t src); auto.
    apply in_app_or in Hin as [Hin|Hin]; eauto using ine_of_src, oute_of_src.
  - discriminate Hnn.
  - discriminate Hnn.
  - discriminate Hnn.
  - discriminate Hnn.
  - (* has *) destruct (is_elem d); inversion Hty; subst. apply filter_In in Hin as [Hin _]. auto.
  - destruct (is_elem d && _); inversion Hty; subst. apply filter_In in Hin as [Hin _]. auto.
  - destruct (is_elem d && _); inversion Hty; subst. apply filter_In in Hin as [Hin _]. auto.
  - destruct (is_elem d && _); inversion Hty; subst. apply filter_In in Hin as [Hin _]. auto.
  - (* as *) destruct (negb (dtype_eqb d DNone) && valid_mark name) eqn:Ec; inversion Hty; subst.
    apply in_map_iff in Hin as [src [<- Hs]]. destruct (Hsrc src Hs) as [Hc Hm]. split; cbn [fst snd t_cur t_marks].
    + exact Hc.
    + intros Hr m dd Hg Hd. destruct (string_dec name m) as [<-|Hne].
      * rewrite get_assoc_set_same in Hg. inversion Hg; subst dd.
        destruct (t_cur src) eqn:Ecur; [|exfalso; now apply (Hc Hd)].
        cbn [t_marks]. rewrite get_assoc_set_same. discriminate.
      * rewrite get_assoc_set_other in Hg by auto.
        destruct (t_cur src); cbn [t_marks]; [rewrite get_assoc_set_other by auto | rewrite get_assoc_del_other by auto]; eapply Hm; eauto.
  - (* select *) destruct (is_elem d) eqn:Ed; [|discriminate].
    destruct names as [|m [|m2 r]]; inversion Hty; subst.
    + apply in_map_iff in Hin as [src [<- Hs]]. destruct (Hsrc src Hs) as [Hc Hm]. specialize (Hm (elem_revivable _ Ed)).
      split; cbn [fst snd t_cur t_marks add_current].
      * intros He. destruct (get_assoc m mt) as [dm|] eqn:Eg; [|discriminate]. eapply Hm; eauto.
      * intros _. exact Hm.
    + apply wk_nonrev; reflexivity.
  - (* fields *) destruct (is_elem d) eqn:Ed; inversion Hty; subst.
    apply in_map_iff in Hin as [src [<- Hs]]. destruct (Hsrc src Hs) as [Hc Hm].
    destruct (t_cur src) eqn:Ecur; [|split; auto; now rewrite Ecur].
    split; cbn [fst snd t_cur t_marks]; [discriminate | exact Hm].
  - (* render *) destruct (is_elem d); inversion Hty; subst. apply wk_nonrev; reflexivity.
  - (* path *) destruct (is_elem d); inversion Hty; subst. apply wk_nonrev; reflexivity.
  - (* unwind *) destruct (is_elem d) eqn:Ed; inversion Hty; subst.
    apply in_flat_map in Hin as [src [Hs Hin]]. apply (wk_moved (d, mt) d t src); auto. now apply elem_revivable.
    eapply unwind_of_src; eauto. now apply (Hsrc src Hs).
  - (* distinct *) destruct (is_elem d); inversion Hty; subst. eapply Hsrc, sublist_In; [apply distinct_go_sublist|exact Hin].
  - (* count *) inversion Hty; subst. apply wk_nonrev; reflexivity.
  - inversion Hty; subst. eapply Hsrc, sublist_In; [apply sublist_firstn|exact Hin].
  - inversion Hty; subst. eapply Hsrc, sublist_In; [apply sublist_skipn|exact Hin].
  - inversion Hty; subst. eapply Hsrc, sublist_In; [apply range_go_sublist|exact Hin].
Qed.

(* whole programs: every intermediate and final traveler of a well-typed program is well-kinded *)
Definition null_free (p : list stmt) : bool := forallb (fun s => negb (is_null_move s)) p.
Theorem run_sound g : forall p ts travs ts' out, null_free p = true ->
  run_from g ts p travs = Some (ts', out) -> Forall (wk ts) travs -> Forall (wk ts') out.
Proof.
  induction p as [|s p IH]; intros ts travs ts' out Hnf H Hwk; cbn [run_from] in H.
  - inversion H; subst. exact Hwk.
  - cbn [null_free forallb] in Hnf. apply andb_true_iff in Hnf as [Hs Hnf].
    destruct (type_step ts s) as [ts1|] eqn:E; [|discriminate].
    eapply IH; eauto. eapply step_sound; eauto. now apply negb_true_iff in Hs.
Qed.

(* the null-producing moves: the rows of the plain move, plus the traveler itself without a current element for every
   traveler the plain move leads nowhere from -- nothing else, and no traveler is lost *)
Definition has_cur (t : trav) : bool := match t_cur t with Some _ => true | None => false end.
Lemma filter_app {X} (f : X -> bool) a b : filter f (a ++ b) = filter f a ++ filter f b.
Proof. induction a as [|x a IH]; simpl; auto. destruct (f x); simpl; now rewrite IH. Qed.
Lemma or_null_split (f : trav -> list trav) ts :
  (forall t x, In x (f t) -> has_cur x = true) ->
  filter has_cur (flat_map (fun t => or_null t (f t)) ts) = flat_map f ts /\
  (List.length (filter (fun x => negb (has_cur x)) (flat_map (fun t => or_null t (f t)) ts))
    = List.length (filter (fun t => match f t with [] => true | _ => false end) ts)).
Proof.
  intros Hf. induction ts as [|t ts [IH1 IH2]]; [split; reflexivity|]. cbn [flat_map]. rewrite !filter_app, app_length, IH1, IH2.
  assert (forall l, (forall x, In x l -> has_cur x = true) -> filter has_cur l = l /\ filter (fun x => negb (has_cur x)) l = []) as Hall.
  { induction l as [|x l IHl]; intros Hl; [split; reflexivity|]. simpl. rewrite (Hl x (or_introl eq_refl)). simpl.
    destruct IHl as [-> ->]; [intros y Hy; apply Hl; now right|]. split; reflexivity. }
  unfold or_null at 1 2. destruct (f t) as [|x l] eqn:Ef.
  - cbn [filter]. rewrite Ef. split; reflexivity.
  - destruct (Hall (x :: l)) as [-> ->]; [intros y Hy; apply (Hf t); now rewrite Ef|]. cbn [filter]. rewrite Ef. split; reflexivity.
Qed.

Lemma wk_t0 : wk (DNone, []) t0.
Proof. split; simpl; [discriminate|]. intros _ m d H. discriminate. Qed.

Lemma from_src_has_cur t src : from_src t src -> has_cur t = true.
Proof. intros [H _]. unfold has_cur. destruct (t_cur t); congruence. Qed.
Definition nowhere (f : trav -> list trav) (t : trav) : bool := match f t with [] => true | _ => false end.
Theorem null_moves g ls ts :
  let nulls (l : list trav) := List.length (filter (fun x => negb (has_cur x)) l) in
  (filter has_cur (step g DVertex (SOutNull ls) ts) = step g DVertex (SOut ls) ts /\
   nulls (step g DVertex (SOutNull ls) ts) = List.length (filter (nowhere (out_of g ls)) ts)) /\
  (filter has_cur (step g DVertex (SInNull ls) ts) = step g DVertex (SIn ls) ts /\
   nulls (step g DVertex (SInNull ls) ts) = List.length (filter (nowhere (in_of g ls)) ts)) /\
  (filter has_cur (step g DVertex (SOutENull ls) ts) = step g DVertex (SOutE ls) ts /\
   nulls (step g DVertex (SOutENull ls) ts) = List.length (filter (nowhere (oute_of g ls)) ts)) /\
  (filter has_cur (step g DVertex (SInENull ls) ts) = step g DVertex (SInE ls) ts /\
   nulls (step g DVertex (SInENull ls) ts) = List.length (filter (nowhere (ine_of g ls)) ts)).
Proof.
  cbn [step]. unfold nowhere. repeat split;
    apply (or_null_split _ ts); intros t x Hx;
    eauto using from_src_has_cur, out_of_src, in_of_src, oute_of_src, ine_of_src.
Qed.
(* from an edge the null-producing moves are the plain ones (compile.go gives them the same processor) *)
Lemma null_moves_from_edge g ls ts :
  step g DEdge (SOutNull ls) ts = step g DEdge (SOut ls) ts /\ step g DEdge (SInNull ls) ts = step g DEdge (SIn ls) ts.
Proof. split; reflexivity. Qed.

(* unwind: one row per item of the list the path leads to (one row when it leads to no non-empty list); every row keeps the
   traveler's marks and the element's id, label and endpoints -- only the data under the path differs *)
Theorem unwind_shape f t c : t_cur t = Some c ->
  List.length (unwind_of f t) = match look t f with Some (JList (x :: r)) => S (List.length r) | _ => 1 end /\
  Forall (fun t' => t_marks t' = t_marks t /\
                    exists c', t_cur t' = Some c' /\ e_gid c' = e_gid c /\ e_label c' = e_label c /\ e_from c' = e_from c /\ e_to c' = e_to c)
         (unwind_of f t).
Proof.
  intros Hc. unfold unwind_of. rewrite Hc.
  assert (forall v, (fun t' => t_marks t' = t_marks t /\
            exists c', t_cur t' = Some c' /\ e_gid c' = e_gid c /\ e_label c' = e_label c /\ e_from c' = e_from c /\ e_to c' = e_to c)
            (unwind_set t c (unwind_key f) v)) as Hrow.
  { intros v. unfold unwind_set, add_current. cbn [t_marks t_cur]. split; [reflexivity|].
    destruct (unwind_key f); eexists; split; try reflexivity; repeat split; reflexivity. }
  destruct (look t f) as [[| | | | [|x r] |]|]; cbn [List.length map];
    try (split; [reflexivity | constructor; [apply Hrow | constructor]]).
  split; [now rewrite map_length|].
  constructor; [apply Hrow|]. apply Forall_forall. intros t' Hin. apply in_map_iff in Hin as [v [<- _]]. apply Hrow.
Qed.

(* ---------- 3. order independence: row-wise steps and count map permuted inputs to permuted outputs ---------- *)
Lemma flat_map_perm {X Y} (f : X -> list Y) a b : Permutation a b -> Permutation (flat_map f a) (flat_map f b).
Proof. induction 1; simpl; auto.
  - now apply Permutation_app_head.
  - rewrite !app_assoc. apply Permutation_app_tail, Permutation_app_comm.
  - eapply Permutation_trans; eauto. Qed.
Lemma filter_perm {X} (f : X -> bool) a b : Permutation a b -> Permutation (filter f a) (filter f b).
Proof. induction 1; simpl; auto.
  - destruct (f x); auto.
  - destruct (f x), (f y); auto. apply perm_swap.
  - eapply Permutation_trans; eauto. Qed.

Definition order_free (s : stmt) : bool := rowwise s || match s with SCount => true | _ => false end.

Theorem step_perm g d s a b : order_free s = true -> Permutation a b -> Permutation (step g d s a) (step g d s b).
Proof.
  intros Ho H. destruct s; simpl in Ho; try discriminate; simpl;
    try (destruct ids; apply flat_map_perm; exact H);
    try (destruct d; apply flat_map_perm; exact H);
    try (apply flat_map_perm; exact H);
    try (apply filter_perm; exact H);
    try (apply Permutation_map; exact H);
    try exact H.
  - destruct names as [|m [|m2 r]]; apply Permutation_map; exact H.
  - rewrite (Permutation_length H). apply Permutation_refl.
Qed.

Theorem run_perm g : forall p, forallb order_free p = true -> forall ts a b, Permutation a b ->
  match run_from g ts p a, run_from g ts p b with
  | Some (t1, o1), Some (t2, o2) => t1 = t2 /\ Permutation o1 o2
  | None, None => True
  | _, _ => False
  end.
Proof.
  induction p as [|s p IH]; intros Hp ts a b Hab; cbn [run_from].
  - auto.
  - cbn [forallb] in Hp. apply andb_true_iff in Hp as [Hs Hp]. destruct (type_step ts s) as [ts1|]; auto.
    apply IH; auto. apply step_perm; auto.
Qed.
