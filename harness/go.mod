module gripverif

go 1.18

require (
	github.com/bmeg/grip v0.0.0
	github.com/jmoiron/sqlx v1.2.0
	github.com/lib/pq v1.2.0
	go.mongodb.org/mongo-driver v1.12.0
	google.golang.org/grpc v1.53.0
	google.golang.org/protobuf v1.28.2-0.20230222093303-bc1253ad3743
)

require (
	github.com/DataDog/zstd v1.4.5 // indirect
	github.com/Knetic/govaluate v3.0.1-0.20171022003610-9aa49832a739+incompatible // indirect
	github.com/Workiva/go-datastructures v1.0.52 // indirect
	github.com/akrylysov/pogreb v0.8.1 // indirect
	github.com/akuity/grpc-gateway-client v0.0.0-20230321170839-38ca1b4b439c // indirect
	github.com/alevinval/sse v1.0.1 // indirect
	github.com/beorn7/perks v1.0.1 // indirect
	github.com/bmeg/jsonpath v0.0.0-20210207014051-cca5355553ad // indirect
	github.com/boltdb/bolt v1.3.1 // indirect
	github.com/casbin/casbin/v2 v2.40.6 // indirect
	github.com/cespare/xxhash v1.1.0 // indirect
	github.com/cespare/xxhash/v2 v2.2.0 // indirect
	github.com/cockroachdb/errors v1.8.1 // indirect
	github.com/cockroachdb/logtags v0.0.0-20190617123548-eb05cc24525f // indirect
	github.com/cockroachdb/pebble v0.0.0-20230701135918-609ae80aea41 // indirect
	github.com/cockroachdb/redact v1.0.8 // indirect
	github.com/cockroachdb/sentry-go v0.6.1-cockroachdb.2 // indirect
	github.com/cockroachdb/tokenbucket v0.0.0-20230613231145-182959a1fad6 // indirect
	github.com/dgraph-io/badger/v2 v2.0.1 // indirect
	github.com/dgraph-io/ristretto v0.0.0-20191025175511-c1f00be0418e // indirect
	github.com/dgryski/go-farm v0.0.0-20190423205320-6a90982ecee2 // indirect
	github.com/dustin/go-humanize v1.0.1 // indirect
	github.com/fatih/color v1.7.0 // indirect
	github.com/felixge/httpsnoop v1.0.1 // indirect
	github.com/go-resty/resty/v2 v2.7.0 // indirect
	github.com/gogo/protobuf v1.3.2 // indirect
	github.com/golang/protobuf v1.5.2 // indirect
	github.com/golang/snappy v0.0.4 // indirect
	github.com/google/uuid v1.3.0 // indirect
	github.com/grpc-ecosystem/go-grpc-middleware v1.0.0 // indirect
	github.com/grpc-ecosystem/grpc-gateway/v2 v2.15.2 // indirect
	github.com/hashicorp/errwrap v1.0.0 // indirect
	github.com/hashicorp/go-hclog v0.14.1 // indirect
	github.com/hashicorp/go-multierror v1.0.0 // indirect
	github.com/hashicorp/go-plugin v1.4.2 // indirect
	github.com/hashicorp/yamux v0.0.0-20180604194846-3520598351bb // indirect
	github.com/influxdata/tdigest v0.0.1 // indirect
	github.com/json-iterator/go v1.1.12 // indirect
	github.com/kennygrant/sanitize v1.2.4 // indirect
	github.com/klauspost/compress v1.16.0 // indirect
	github.com/klauspost/cpuid/v2 v2.2.4 // indirect
	github.com/kr/pretty v0.2.1 // indirect
	github.com/kr/text v0.2.0 // indirect
	github.com/logrusorgru/aurora v0.0.0-20190428105938-cea283e61946 // indirect
	github.com/mailru/easyjson v0.0.0-20180730094502-03f2033d19d5 // indirect
	github.com/mattn/go-colorable v0.1.7 // indirect
	github.com/mattn/go-isatty v0.0.12 // indirect
	github.com/matttproud/golang_protobuf_extensions v1.0.2-0.20181231171920-c182affec369 // indirect
	github.com/minio/md5-simd v1.1.2 // indirect
	github.com/minio/minio-go/v7 v7.0.50 // indirect
	github.com/minio/sha256-simd v1.0.0 // indirect
	github.com/mitchellh/go-testing-interface v1.0.0 // indirect
	github.com/mitchellh/hashstructure/v2 v2.0.1 // indirect
	github.com/modern-go/concurrent v0.0.0-20180306012644-bacd9c7ef1dd // indirect
	github.com/modern-go/reflect2 v1.0.2 // indirect
	github.com/montanaflynn/stats v0.0.0-20171201202039-1bf9dbcd8cbe // indirect
	github.com/oklog/run v1.0.0 // indirect
	github.com/pkg/errors v0.9.1 // indirect
	github.com/prometheus/client_golang v1.12.0 // indirect
	github.com/prometheus/client_model v0.2.1-0.20210607210712-147c58e9608a // indirect
	github.com/prometheus/common v0.32.1 // indirect
	github.com/prometheus/procfs v0.7.3 // indirect
	github.com/rs/xid v1.4.0 // indirect
	github.com/segmentio/ksuid v1.0.2 // indirect
	github.com/sirupsen/logrus v1.9.0 // indirect
	github.com/spf13/cast v1.3.0 // indirect
	github.com/syndtr/goleveldb v1.0.0 // indirect
	github.com/xdg-go/pbkdf2 v1.0.0 // indirect
	github.com/xdg-go/scram v1.1.2 // indirect
	github.com/xdg-go/stringprep v1.0.4 // indirect
	github.com/youmark/pkcs8 v0.0.0-20201027041543-1326539a0a0a // indirect
	golang.org/x/crypto v0.6.0 // indirect
	golang.org/x/exp v0.0.0-20200513190911-00229845015e // indirect
	golang.org/x/net v0.7.0 // indirect
	golang.org/x/sync v0.1.0 // indirect
	golang.org/x/sys v0.5.0 // indirect
	golang.org/x/term v0.5.0 // indirect
	golang.org/x/text v0.7.0 // indirect
	google.golang.org/genproto v0.0.0-20230303212802-e74f57abe488 // indirect
	gopkg.in/ini.v1 v1.67.0 // indirect
	gopkg.in/olivere/elastic.v5 v5.0.80 // indirect
	gopkg.in/yaml.v2 v2.4.0 // indirect
	sigs.k8s.io/yaml v1.3.0 // indirect
)

replace github.com/bmeg/grip => /repo
