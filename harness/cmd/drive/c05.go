package main

import (
	"context"
	"encoding/base64"
	"encoding/json"
	"fmt"
	"math/rand"
	"os"
	"io"
	"sort"

	"github.com/bmeg/grip/accounts"
	"github.com/bmeg/grip/gripql"
	"google.golang.org/grpc"
	"google.golang.org/grpc/codes"
	"google.golang.org/grpc/metadata"
	"google.golang.org/grpc/status"
	"google.golang.org/protobuf/proto"
	"google.golang.org/protobuf/reflect/protoreflect"

	"gripverif/internal/coq"
)

func init() { props["C05"] = runC05 }

// ---------- doubles ----------
type recAuth struct{}

func (recAuth) Validate(md accounts.MetaData) (string, error) {
	if u, ok := md["user"]; ok && len(u) == 1 && (u[0] == "A" || u[0] == "B") {
		return u[0], nil
	}
	return "", fmt.Errorf("bad credentials")
}

type enforceCall struct {
	User, Graph, Op string
}
type recAccess struct {
	policy int // bit k of the policy decides grant for combination k
	calls  []enforceCall
}

var c05Ops = []accounts.Operation{accounts.Query, accounts.Write, accounts.Read, accounts.Exec, accounts.Admin}

func polIndex(user, graph string, op accounts.Operation) int {
	u := 0
	if user == "B" {
		u = 1
	}
	g := map[string]int{"g": 0, "h": 1, "*": 2}[graph]
	o := 0
	for i, x := range c05Ops {
		if x == op {
			o = i
		}
	}
	return (u*3+g)*5 + o
}
func (a *recAccess) grants(user, graph string, op accounts.Operation) bool {
	switch a.policy {
	case -1:
		return true
	case -2:
		return false
	}
	// pseudo-random but fixed grid
	h := uint64(a.policy)*0x9E3779B97F4A7C15 + uint64(polIndex(user, graph, op))*0xBF58476D1CE4E5B9
	h ^= h >> 29
	h *= 0x94D049BB133111EB
	h ^= h >> 32
	return h%2 == 0
}
func (a *recAccess) Enforce(user string, graph string, op accounts.Operation) error {
	a.calls = append(a.calls, enforceCall{user, graph, string(op)})
	if a.grants(user, graph, op) {
		return nil
	}
	return fmt.Errorf("denied")
}

type allServers struct {
	gripql.UnimplementedQueryServer
	gripql.UnimplementedEditServer
	gripql.UnimplementedJobServer
	gripql.UnimplementedConfigureServer
}

func setGraph(m interface{}, g string) {
	pm, ok := m.(proto.Message)
	if !ok {
		return
	}
	r := pm.ProtoReflect()
	if fd := r.Descriptor().Fields().ByName("graph"); fd != nil && fd.Kind() == protoreflect.StringKind {
		r.Set(fd, protoreflect.ValueOfString(g))
	}
}

type authStream struct {
	ctx    context.Context
	graph  string
	elems  []string // BulkAdd: graphs of the streamed elements
	pos    int
	served bool
}

func (s *authStream) SetHeader(metadata.MD) error  { return nil }
func (s *authStream) SendHeader(metadata.MD) error { return nil }
func (s *authStream) SetTrailer(metadata.MD)       {}
func (s *authStream) Context() context.Context     { return s.ctx }
func (s *authStream) SendMsg(m interface{}) error  { return nil }
func (s *authStream) RecvMsg(m interface{}) error {
	if ge, ok := m.(*gripql.GraphElement); ok && s.elems != nil {
		if s.pos >= len(s.elems) {
			return io.EOF
		}
		ge.Graph = s.elems[s.pos]
		ge.Vertex = &gripql.Vertex{Gid: fmt.Sprintf("v%d", s.pos), Label: "L"}
		s.pos++
		return nil
	}
	if s.served {
		return io.EOF
	}
	s.served = true
	setGraph(m, s.graph)
	return nil
}

type c05Casbin struct {
	Policy [][3]string `json:"policy"`
	Calls  [][3]string `json:"calls"`
}
type c05Input struct {
	Basic  *c05Basic `json:"basic,omitempty"` // a case of the credential check itself
	Casbin *c05Casbin `json:"casbin,omitempty"` // a sequence of Enforce calls on one accounts.CasbinAccess
	Method string   `json:"method"`
	Kind   string   `json:"kind"`
	Cred   string   `json:"cred"` // none bad A B
	Graph  string   `json:"graph"`
	Policy int      `json:"policy"`
	Elems  []string `json:"elems,omitempty"`
}
type c05Obs struct {
	Verdict  string        `json:"verdict"` // unauthenticated denied refused handler
	Enforce  []enforceCall `json:"enforce"`
	Received []string      `json:"received,omitempty"`
	Code     string        `json:"code"`
}

// ---------- the credential check itself: accounts.BasicAuth.Validate ----------
type c05Basic struct {
	Accounts [][2]string `json:"accounts"`
	Key      string      `json:"key"`    // metadata key the header is sent under
	Header   string      `json:"header"` // raw header value ("" = none)
	User     string      `json:"user"`   // what a well-formed header decodes to (Decodes = true)
	Pass     string      `json:"pass"`
	Decodes  bool        `json:"decodes"`
}

func basicCases() []c05Basic {
	accts := [][][2]string{{}, {{"A", "pa"}}, {{"A", "pa"}, {"B", ""}}, {{"A", "pa"}, {"A", "pb"}, {"", "x"}}}
	users := []string{"A", "B", "C", "", "a", "A "}
	passes := []string{"pa", "pb", "", "x", "pa ", "p:a"}
	out := []c05Basic{}
	for _, ac := range accts {
		for _, u := range users {
			for _, p := range passes {
				h := "Basic " + base64.StdEncoding.EncodeToString([]byte(u+":"+p))
				out = append(out, c05Basic{Accounts: ac, Key: "authorization", Header: h, User: u, Pass: p, Decodes: true})
			}
		}
		out = append(out,
			c05Basic{Accounts: ac, Key: "Authorization", Header: "Basic " + base64.StdEncoding.EncodeToString([]byte("A:pa")), User: "A", Pass: "pa", Decodes: true},
			c05Basic{Accounts: ac, Key: "authorization", Header: ""},
			c05Basic{Accounts: ac, Key: "other", Header: "Basic " + base64.StdEncoding.EncodeToString([]byte("A:pa"))},
			c05Basic{Accounts: ac, Key: "authorization", Header: "Bearer " + base64.StdEncoding.EncodeToString([]byte("A:pa"))},
			c05Basic{Accounts: ac, Key: "authorization", Header: "Basic !!!not-base64"},
			c05Basic{Accounts: ac, Key: "authorization", Header: "Basic " + base64.StdEncoding.EncodeToString([]byte("Apa"))},
			c05Basic{Accounts: ac, Key: "authorization", Header: "A:pa"})
	}
	return out
}

// the matcher of the repository's model file (test/model.conf)
const casbinModel = `[request_definition]
r = sub, obj, act

[policy_definition]
p = sub, obj, act

[policy_effect]
e = some(where (p.eft == allow))

[matchers]
m = r.sub == p.sub && (r.obj == p.obj || p.obj ==  "*") && (r.act == p.act || p.act == "*") || r.sub == "root"
`

func casbinCases(rng *rand.Rand, n int) []c05Casbin {
	users := []string{"alice", "bob", "root", "eve"}
	graphs := []string{"g", "h", "*"}
	ops := []string{string(accounts.Query), string(accounts.Read), string(accounts.Write), string(accounts.Exec), string(accounts.Admin)}
	out := []c05Casbin{{
		// the repository's own policy, and a denied write followed by a granted read and the same write again
		Policy: [][3]string{{"alice", "*", "*"}, {"bob", "test1", "read"}, {"bob", "test1", "query"}, {"bob", "test2", "write"}, {"bob", "test3", "query"}},
		Calls: [][3]string{{"bob", "test1", "write"}, {"bob", "test1", "read"}, {"bob", "test1", "write"}, {"bob", "test2", "write"}, {"bob", "test2", "read"},
			{"alice", "test9", "admin"}, {"eve", "test1", "read"}, {"root", "x", "write"}, {"bob", "test1", "write"}},
	}}
	for i := 0; i < n; i++ {
		c := c05Casbin{}
		for k := rng.Intn(6); k > 0; k-- {
			op := ops[rng.Intn(len(ops))]
			if rng.Intn(6) == 0 {
				op = "*"
			}
			c.Policy = append(c.Policy, [3]string{users[rng.Intn(len(users))], graphs[rng.Intn(len(graphs))], op})
		}
		for k := 4 + rng.Intn(12); k > 0; k-- {
			c.Calls = append(c.Calls, [3]string{users[rng.Intn(len(users))], graphs[rng.Intn(len(graphs))], ops[rng.Intn(len(ops))]})
		}
		out = append(out, c)
	}
	return out
}

func addCasbinCase(ctx *Ctx, c c05Casbin) {
	dir, _ := os.MkdirTemp("", "c05casbin")
	defer os.RemoveAll(dir)
	os.WriteFile(dir+"/model.conf", []byte(casbinModel), 0o644)
	lines := ""
	for _, p := range c.Policy {
		lines += fmt.Sprintf("p, %s, %s, %s\n", p[0], p[1], p[2])
	}
	os.WriteFile(dir+"/policy.csv", []byte(lines), 0o644)
	ca := &accounts.CasbinAccess{Model: dir + "/model.conf", Policy: dir + "/policy.csv"}
	got := make([]string, len(c.Calls))
	obs := make([]bool, len(c.Calls))
	allowed := 0
	for i, q := range c.Calls {
		ok := ca.Enforce(q[0], q[1], accounts.Operation(q[2])) == nil
		got[i], obs[i] = coq.Bool(ok), ok
		if ok {
			allowed++
		}
	}
	trip := func(l [][3]string) string {
		out := make([]string, len(l))
		for i, x := range l {
			out[i] = coq.Pair(coq.Pair(coq.Str(x[0]), coq.Str(x[1])), coq.Str(x[2]))
		}
		return coq.List(out)
	}
	key, _ := json.Marshal(c)
	ctx.Add(Case{Input: c05Input{Casbin: &c}, Observed: obs, Coq: "(CCasbin " + trip(c.Policy) + " " + trip(c.Calls) + " " + coq.List(got) + ")",
		Nontrivial: allowed > 0 && allowed < len(c.Calls), Key: "casbin:" + string(key), Tags: []string{"kind=CasbinAccess.Enforce"}})
}

func addBasicCase(ctx *Ctx, b c05Basic) {
	ba := accounts.BasicAuth{}
	for _, a := range b.Accounts {
		ba = append(ba, accounts.BasicCredential{User: a[0], Password: a[1]})
	}
	md := accounts.MetaData{}
	if b.Header != "" {
		md[b.Key] = []string{b.Header}
	}
	got, err := ba.Validate(md)
	acs := make([]string, len(b.Accounts))
	for i, a := range b.Accounts {
		acs[i] = coq.Pair(coq.Str(a[0]), coq.Str(a[1]))
	}
	hdr := "None"
	if b.Decodes && b.Header != "" && (b.Key == "authorization" || b.Key == "Authorization") {
		hdr = "(Some " + coq.Pair(coq.Str(b.User), coq.Str(b.Pass)) + ")"
	}
	g := "None"
	obs := "refused"
	if err == nil {
		g = "(Some " + coq.Str(got) + ")"
		obs = "validates as " + got
	}
	key, _ := json.Marshal(b)
	ctx.Add(Case{Input: c05Input{Basic: &b}, Observed: obs, Coq: "(CBasic " + coq.List(acs) + " " + hdr + " " + g + ")", Nontrivial: err == nil,
		Key: "basic:" + string(key), Tags: []string{"kind=BasicAuth.Validate", "verdict=" + map[bool]string{true: "validates", false: "refused"}[err == nil]}})
}

func runC05(ctx *Ctx) error {
	ctx.EvalMod = "Eval_C05"
	ctx.CaseTy = "c05_any"
	ctx.Shard = 500
	ctx.Exhaustive = true
	ctx.Rule = "CasbinAccess.Enforce: the repository's policy and random policies of 0-5 lines over 4 users (incl. root) x graphs {g, h, *} x the five operation classes (and *), each with a sequence of 4-15 Enforce calls on ONE CasbinAccess value (a denied call followed by a granted one and the denied one again), every verdict against Model/Auth.v casbin_allows; BasicAuth.Validate on 4 account lists (empty, one, two incl. an empty password, duplicate name and empty name) x 36 (user, password) pairs incl. unknown users, empty and near-miss values, plus missing / misplaced / non-Basic / undecodable headers; and exhaustive (each observed call preceded by an authenticated unary and streamed call on the same interceptor pair): every method of the four generated ServiceDescs (driven through its generated handler, so the request message has its real type) x credentials {none, bad, user A, user B} x request graph {g, h} x policies {allow-all, deny-all, 6 pseudo-random allow/deny grids over user x graph (incl. the wildcard '*') x operation class}; BulkAdd additionally with element streams over graphs g/h; observed: was the handler reached (codes.Unimplemented from the Unimplemented*Server), which Enforce calls were made, error code; non-trivial = credentials validate; distinct by input"
	descs := []grpc.ServiceDesc{gripql.Query_ServiceDesc, gripql.Edit_ServiceDesc, gripql.Job_ServiceDesc, gripql.Configure_ServiceDesc}
	type meth struct {
		name, kind string
		u          *grpc.MethodDesc
		s          *grpc.StreamDesc
	}
	meths := []meth{}
	for di := range descs {
		d := &descs[di]
		for i := range d.Methods {
			meths = append(meths, meth{name: "/" + d.ServiceName + "/" + d.Methods[i].MethodName, kind: "Unary", u: &d.Methods[i]})
		}
		for i := range d.Streams {
			k := "ServerStream"
			if d.Streams[i].ClientStreams && !d.Streams[i].ServerStreams {
				k = "ClientStream"
			} else if d.Streams[i].ClientStreams {
				k = "BidiStream"
			}
			meths = append(meths, meth{name: "/" + d.ServiceName + "/" + d.Streams[i].StreamName, kind: k, s: &d.Streams[i]})
		}
	}
	sort.Slice(meths, func(i, j int) bool { return meths[i].name < meths[j].name })
	var inputs []c05Input
	if ctx.Replay != nil {
		var in c05Input
		if err := json.Unmarshal(ctx.Replay, &in); err != nil {
			return err
		}
		if in.Basic != nil {
			addBasicCase(ctx, *in.Basic)
			return nil
		}
		if in.Casbin != nil {
			addCasbinCase(ctx, *in.Casbin)
			return nil
		}
		inputs = []c05Input{in}
	} else {
		for _, b := range basicCases() {
			addBasicCase(ctx, b)
		}
		for _, c := range casbinCases(ctx.Rng, ctx.Pick(40, 400)) {
			addCasbinCase(ctx, c)
		}
		policies := []int{-1, -2, 1, 2, 3, 4, 5, 6}
		if ctx.Thorough() {
			for p := 7; p < 40; p++ {
				policies = append(policies, p)
			}
		}
		for _, m := range meths {
			for _, cred := range []string{"none", "bad", "A", "B"} {
				for _, g := range []string{"g", "h"} {
					for _, p := range policies {
						in := c05Input{Method: m.name, Kind: m.kind, Cred: cred, Graph: g, Policy: p}
						if m.kind == "ClientStream" {
							in.Elems = [][]string{{"g", "h", "g", "g", "h"}, {"h", "h"}, {}}[(p+2+len(cred))%3]
							if in.Elems == nil {
								in.Elems = []string{}
							}
						}
						inputs = append(inputs, in)
					}
				}
			}
		}
		// a method that no service exposes
		inputs = append(inputs, c05Input{Method: "/gripql.Query/NoSuchMethod", Kind: "Unary", Cred: "A", Graph: "g", Policy: -1},
			c05Input{Method: "/gripql.Query/NoSuchStream", Kind: "ServerStream", Cred: "A", Graph: "g", Policy: -1},
			c05Input{Method: "/gripql.Edit/NoSuchUpload", Kind: "ClientStream", Cred: "A", Graph: "g", Policy: -1, Elems: []string{"g"}})
	}
	srv := &allServers{}
	byName := map[string]meth{}
	for _, m := range meths {
		byName[m.name] = m
	}
	for _, in := range inputs {
		acc := &recAccess{policy: in.Policy}
		ui, si := accounts.VerifInterceptors(recAuth{}, acc)
		// the interceptors serve many callers: an earlier, properly authenticated call (unary and streamed) on the same
		// interceptor pair must leave nothing behind for the observed one
		{
			pc := metadata.NewIncomingContext(context.Background(), metadata.MD{"user": []string{"A"}, "authorization": []string{"Basic QTpwYQ=="}})
			ui(pc, &gripql.ElementID{Graph: "g", Id: "x"}, &grpc.UnaryServerInfo{FullMethod: "/gripql.Query/GetVertex"},
				func(ctx context.Context, req interface{}) (interface{}, error) { return nil, nil })
			si(srv, &authStream{ctx: pc, graph: "g"}, &grpc.StreamServerInfo{FullMethod: "/gripql.Query/Traversal", IsServerStream: true},
				func(s interface{}, st grpc.ServerStream) error { return nil })
			acc.calls = nil
		}
		md := metadata.MD{}
		switch in.Cred {
		case "bad":
			md["user"] = []string{"Z"}
		case "A", "B":
			md["user"] = []string{in.Cred}
		}
		c := metadata.NewIncomingContext(context.Background(), md)
		var err error
		received := []string(nil)
		m, known := byName[in.Method]
		switch in.Kind {
		case "Unary":
			if known {
				_, err = m.u.Handler(srv, c, func(x interface{}) error { setGraph(x, in.Graph); return nil }, ui)
			} else {
				_, err = ui(c, &gripql.GraphID{Graph: in.Graph}, &grpc.UnaryServerInfo{FullMethod: in.Method},
					func(ctx context.Context, req interface{}) (interface{}, error) {
						return nil, status.Error(codes.Unimplemented, "reached")
					})
			}
		default:
			ss := &authStream{ctx: c, graph: in.Graph}
			info := &grpc.StreamServerInfo{FullMethod: in.Method, IsServerStream: in.Kind == "ServerStream" || in.Kind == "BidiStream", IsClientStream: in.Kind == "ClientStream" || in.Kind == "BidiStream"}
			if in.Kind == "ClientStream" {
				ss.elems = in.Elems
				if ss.elems == nil {
					ss.elems = []string{}
				}
				received = []string{}
				err = si(srv, ss, info, func(s interface{}, st grpc.ServerStream) error {
					for {
						var ge gripql.GraphElement
						if e := st.RecvMsg(&ge); e != nil {
							break
						}
						received = append(received, ge.Graph)
					}
					return status.Error(codes.Unimplemented, "reached")
				})
			} else if known {
				err = si(srv, ss, info, m.s.Handler)
			} else {
				err = si(srv, ss, info, func(s interface{}, st grpc.ServerStream) error { return status.Error(codes.Unimplemented, "reached") })
			}
		}
		code := status.Code(err)
		verdict := map[codes.Code]string{codes.Unimplemented: "handler", codes.Unauthenticated: "unauthenticated", codes.PermissionDenied: "denied", codes.Unknown: "refused"}[code]
		if verdict == "" {
			verdict = "other:" + code.String()
		}
		ob := c05Obs{Verdict: verdict, Enforce: acc.calls, Received: received, Code: code.String()}
		// Coq case
		opName := map[string]string{"query": "OpQuery", "write": "OpWrite", "read": "OpRead", "exec": "OpExec", "admin": "OpAdmin"}
		calls := []string{}
		for _, e := range acc.calls {
			calls = append(calls, fmt.Sprintf("(%s, %s, %s)", coq.Str(e.User), coq.Str(e.Graph), opName[e.Op]))
		}
		grants := []string{}
		for _, u := range []string{"A", "B"} {
			for _, g := range []string{"g", "h", "*"} {
				for _, o := range c05Ops {
					if acc.grants(u, g, o) {
						grants = append(grants, fmt.Sprintf("(%s, %s, %s)", coq.Str(u), coq.Str(g), opName[string(o)]))
					}
				}
			}
		}
		vcoq := map[string]string{"handler": "RunsHandler", "unauthenticated": "Unauthenticated", "denied": "Denied", "refused": "Refused"}[verdict]
		if vcoq == "" {
			vcoq = "Refused"
		}
		cred := "None"
		if in.Cred == "A" || in.Cred == "B" {
			cred = "(Some " + coq.Str(in.Cred) + ")"
		}
		recv := "None"
		if received != nil {
			recv = "(Some " + coq.StrList(received) + ")"
		}
		elems := coq.StrList(in.Elems)
		cc := "(CServe " + coq.Record("cmethod", coq.Str(in.Method), "ckind", in.Kind, "ccred", cred, "cgraph", coq.Str(in.Graph), "cgrants", coq.List(grants),
			"celems", elems, "cverdict", vcoq, "cenforce", coq.List(calls), "creceived", recv) + ")"
		key, _ := json.Marshal(in)
		ctx.Add(Case{Input: in, Observed: ob, Coq: cc, Nontrivial: in.Cred == "A" || in.Cred == "B", Key: string(key),
			Tags: []string{"kind=" + in.Kind, "cred=" + in.Cred, "verdict=" + verdict}})
	}
	return nil
}
