(* Model of kvindex (property C09): fields, documents, string and numeric terms.
   Numeric terms are IEEE-754 bit patterns (N < 2^64); the entry keys of one field are scanned in key
   order = (term type, pattern, doc id), which is what the sorted lists below stand for
   (Proofs/KVIndexProofs.v: the 8-byte big-endian encoding is order preserving; C10/C16: prefix scans).

   Anchors: kvindex/kvindex.go AddField, RemoveField, AddDocTx, RemoveDoc, termGetCount, GetTermMatch,
   FieldTerms, fieldTermCounts, FieldTermNumberMin/Max/Range, FieldNumbers; kvindex/entries.go. *)
From Coq Require Import List NArith Bool Arith.
Import ListNotations.

Inductive term := TS (s : N) | TN (p : N).
Definition term_eqb (a b : term) : bool :=
  match a, b with TS x, TS y => N.eqb x y | TN x, TN y => N.eqb x y | _, _ => false end.

Definition fterm := (N * term)%type.                 (* field, term *)
Definition ft_eqb (a b : fterm) := N.eqb (fst a) (fst b) && term_eqb (snd a) (snd b).
Definition entry := (N * term * N)%type.             (* field, term, doc *)
Definition en_eqb (a b : entry) := ft_eqb (fst a) (fst b) && N.eqb (snd a) (snd b).

Record ixst := {
  x_reg : list N;                          (* KVIndex.Fields (memory) *)
  x_fields : list N;                       (* f|field keys *)
  x_entries : list entry;                  (* i|field|type|term|doc keys *)
  x_terms : list (fterm * nat);            (* t|field|type|term -> stored count, 0 = must recount *)
  x_docs : list (N * list fterm)           (* D|doc -> list of its entry keys *)
}.
Definition xinit : ixst := {| x_reg := []; x_fields := []; x_entries := []; x_terms := []; x_docs := [] |}.

Definition rmN (x : N) (l : list N) := filter (fun y => negb (N.eqb x y)) l.
Definition memN (x : N) (l : list N) := existsb (N.eqb x) l.
Definition set_entry (e : entry) (l : list entry) := e :: filter (fun y => negb (en_eqb e y)) l.
Definition del_entry (e : entry) (l : list entry) := filter (fun y => negb (en_eqb e y)) l.
Definition has_entry (e : entry) (l : list entry) := existsb (en_eqb e) l.
Definition set_term (k : fterm) (n : nat) (l : list (fterm * nat)) := (k, n) :: filter (fun y => negb (ft_eqb k (fst y))) l.
Definition del_term (k : fterm) (l : list (fterm * nat)) := filter (fun y => negb (ft_eqb k (fst y))) l.
Definition get_term (k : fterm) (l : list (fterm * nat)) : option nat :=
  option_map snd (find (fun y => ft_eqb k (fst y)) l).
Definition count_entries (k : fterm) (l : list entry) : nat := length (filter (fun e => ft_eqb k (fst e)) l).

Inductive iop :=
| IAddField (f : N) | IRemoveField (f : N)
| IAddDoc (d : N) (vals : list fterm)          (* at most one value per field *)
| IRemoveDoc (d : N)
| ICounts (f : N).                             (* FieldTermCounts: a query that repairs invalidated counts *)

Definition add_doc (s : ixst) (d : N) (vals : list fterm) : ixst :=
  let es := filter (fun v => memN (fst v) (x_reg s)) vals in
  {| x_reg := x_reg s; x_fields := x_fields s;
     x_entries := fold_left (fun l v => set_entry (v, d) l) es (x_entries s);
     x_terms := fold_left (fun l v => set_term v 0 l) es (x_terms s);
     x_docs := (d, es) :: filter (fun y => negb (N.eqb d (fst y))) (x_docs s) |}.

(* termGetCount: the stored count, recounted (and stored) when it is 0 *)
Definition term_count (ents : list entry) (terms : list (fterm * nat)) (k : fterm) : option (nat * list (fterm * nat)) :=
  match get_term k terms with
  | None => None
  | Some 0 => let c := count_entries k ents in Some (c, set_term k c terms)
  | Some c => Some (c, terms)
  end.

Definition remove_doc_entry (d : N) (st : list entry * list (fterm * nat)) (k : fterm) : list entry * list (fterm * nat) :=
  let '(ents, terms) := st in
  if has_entry (k, d) ents then
    match term_count ents terms k with
    | None => st                     (* unreachable under the invariant: an entry without its term key *)
    | Some (c, terms1) =>
        let c' := pred c in
        (del_entry (k, d) ents, if Nat.eqb c' 0 then del_term k terms1 else set_term k c' terms1)
    end
  else st.

Definition remove_doc (s : ixst) (d : N) : ixst :=
  match find (fun y => N.eqb d (fst y)) (x_docs s) with
  | None => s
  | Some (_, es) =>
      let '(ents, terms) := fold_left (remove_doc_entry d) es (x_entries s, x_terms s) in
      {| x_reg := x_reg s; x_fields := x_fields s; x_entries := ents; x_terms := terms;
         x_docs := filter (fun y => negb (N.eqb d (fst y))) (x_docs s) |}
  end.

Definition fix_counts (s : ixst) (f : N) : ixst :=
  {| x_reg := x_reg s; x_fields := x_fields s; x_entries := x_entries s;
     x_terms := map (fun y => if N.eqb f (fst (fst y)) && Nat.eqb (snd y) 0
                              then (fst y, count_entries (fst y) (x_entries s)) else y) (x_terms s);
     x_docs := x_docs s |}.

Definition istep (s : ixst) (o : iop) : ixst :=
  match o with
  | IAddField f => {| x_reg := f :: rmN f (x_reg s); x_fields := f :: rmN f (x_fields s);
                      x_entries := x_entries s; x_terms := x_terms s; x_docs := x_docs s |}
  | IRemoveField f => {| x_reg := rmN f (x_reg s); x_fields := rmN f (x_fields s);
                         x_entries := filter (fun e => negb (N.eqb f (fst (fst e)))) (x_entries s);
                         x_terms := filter (fun t => negb (N.eqb f (fst (fst t)))) (x_terms s);
                         x_docs := x_docs s |}
  | IAddDoc d vals => add_doc s d vals
  | IRemoveDoc d => remove_doc s d
  | ICounts f => fix_counts s f
  end.
Definition irun (ops : list iop) : ixst := fold_left istep ops xinit.

(* ---------- queries ---------- *)
Definition q_match (s : ixst) (f : N) (t : term) : list N :=
  map snd (filter (fun e => ft_eqb (f, t) (fst e)) (x_entries s)).
Definition q_terms (s : ixst) (f : N) : list term :=
  map (fun y => snd (fst y)) (filter (fun y => N.eqb f (fst (fst y))) (x_terms s)).
(* what FieldTermCounts reports (after repairing): *)
Definition q_counts (s : ixst) (f : N) : list (term * nat) :=
  map (fun y => (snd (fst y), if Nat.eqb (snd y) 0 then count_entries (fst y) (x_entries s) else snd y))
      (filter (fun y => N.eqb f (fst (fst y))) (x_terms s)).

(* numeric entries of a field in key order: (pattern, doc) sorted lexicographically *)
Definition pd_leb (a b : N * N) : bool := (fst a <? fst b)%N || (N.eqb (fst a) (fst b) && (snd a <=? snd b)%N).
Fixpoint pd_ins (x : N * N) (l : list (N * N)) : list (N * N) :=
  match l with [] => [x] | y :: r => if pd_leb x y then x :: y :: r else y :: pd_ins x r end.
Definition pd_sort (l : list (N * N)) : list (N * N) := fold_right pd_ins [] l.
Definition nums (s : ixst) (f : N) : list (N * N) :=
  pd_sort (flat_map (fun e => match e with (f', TN p, d) => if N.eqb f f' then [(p, d)] else [] | _ => [] end) (x_entries s)).

Definition SIGN : N := 9223372036854775808.      (* 2^63 *)
Definition PINF : N := 9218868437227405312.      (* 0x7FF0000000000000 *)
Definition NINF : N := 18442240474082181120.     (* 0xFFF0000000000000 *)
Definition f_neg (p : N) : bool := (SIGN <? p)%N.          (* val < 0  (finite, not -0) *)
Definition f_nonneg (p : N) : bool := (p <=? SIGN)%N.       (* val >= 0 (incl. -0) *)
Definition f_pos (p : N) : bool := (0 <? p)%N && (p <? SIGN)%N.   (* val > 0 *)

Fixpoint take_while {X} (f : X -> bool) (l : list X) : list X :=
  match l with [] => [] | x :: r => if f x then x :: take_while f r else [] end.
Fixpoint drop_while {X} (f : X -> bool) (l : list X) : list X :=
  match l with [] => [] | x :: r => if f x then drop_while f r else l end.
(* it.Seek(prefix of p): forward from the first entry with pattern >= p *)
Definition seek_fwd (L : list (N * N)) (p : N) := drop_while (fun x => (fst x <? p)%N) L.
(* it.SeekReverse(prefix of p): backward from the last entry with pattern < p *)
Definition seek_bwd (L : list (N * N)) (p : N) := rev (take_while (fun x => (fst x <? p)%N) L).

Definition q_min (s : ixst) (f : N) : N :=
  let L := nums s f in
  match seek_bwd L NINF with
  | x :: _ => if f_neg (fst x) then fst x else
                match seek_fwd L 0 with y :: _ => if f_nonneg (fst y) then fst y else 0%N | [] => 0%N end
  | [] => match seek_fwd L 0 with y :: _ => if f_nonneg (fst y) then fst y else 0%N | [] => 0%N end
  end.
Definition q_max (s : ixst) (f : N) : N :=
  let L := nums s f in
  let neg := match seek_fwd L PINF with y :: _ => if f_neg (fst y) then fst y else 0%N | [] => 0%N end in
  match seek_bwd L PINF with
  | x :: _ => if f_nonneg (fst x) then fst x else neg
  | [] => neg
  end.
Definition q_numbers (s : ixst) (f : N) : list N :=
  let L := nums s f in
  map fst (take_while (fun x => (PINF <=? fst x)%N) (seek_bwd L NINF)) ++
  map fst (take_while (fun x => (fst x <? PINF)%N) (seek_fwd L 0)).

(* numeric order on patterns of finite doubles *)
Definition fkey (p : N) : N := if (p <? SIGN)%N then (SIGN + p)%N else (18446744073709551615 - p)%N.
Definition f_lt (a b : N) : bool := (fkey a <? fkey b)%N.

Fixpoint group_counts (l : list N) : list (N * nat) :=
  match l with
  | [] => []
  | x :: r => match group_counts r with
              | (y, c) :: g => if N.eqb x y then (y, S c) :: g else (x, 1) :: (y, c) :: g
              | [] => [(x, 1)]
              end
  end.
Definition q_range (s : ixst) (f : N) (lo hi : N) : list (N * nat) :=
  let L := nums s f in
  if f_lt hi lo then [] else
  (if f_neg lo then
     let maxp := if f_pos hi then PINF else hi in
     group_counts (map fst (take_while (fun x => (maxp <=? fst x)%N) (seek_bwd L lo)))
   else []) ++
  (if f_nonneg hi then
     let minp := if f_neg lo then 0%N else lo in
     group_counts (map fst (take_while (fun x => (fst x <? hi)%N) (seek_fwd L minp)))
   else []).

(* ---------- specification: brute force over the live documents ---------- *)
(* a live document contributes the terms of the fields that were registered when it was inserted
   and have not been removed since *)
Definition live := list (N * list fterm).
Record sspec := { sp_reg : list N; sp_live : live }.
Definition spinit := {| sp_reg := []; sp_live := [] |}.
Definition sp_step (s : sspec) (o : iop) : sspec :=
  match o with
  | IAddField f => {| sp_reg := f :: rmN f (sp_reg s); sp_live := sp_live s |}
  | IRemoveField f => {| sp_reg := rmN f (sp_reg s);
                         sp_live := map (fun d => (fst d, filter (fun v => negb (N.eqb f (fst v))) (snd d))) (sp_live s) |}
  | IAddDoc d vals => {| sp_reg := sp_reg s;
                         sp_live := (d, filter (fun v => memN (fst v) (sp_reg s)) vals)
                                    :: filter (fun y => negb (N.eqb d (fst y))) (sp_live s) |}
  | IRemoveDoc d => {| sp_reg := sp_reg s; sp_live := filter (fun y => negb (N.eqb d (fst y))) (sp_live s) |}
  | ICounts _ => s
  end.
Definition sp_run (ops : list iop) := fold_left sp_step ops spinit.

Definition b_all (s : sspec) : list entry := flat_map (fun d => map (fun v => (v, fst d)) (snd d)) (sp_live s).
Definition b_match (s : sspec) (f : N) (t : term) : list N :=
  map snd (filter (fun e => ft_eqb (f, t) (fst e)) (b_all s)).
Fixpoint dedup_t (l : list term) : list term :=
  match l with [] => [] | x :: r => if existsb (term_eqb x) r then dedup_t r else x :: dedup_t r end.
Definition b_terms (s : sspec) (f : N) : list term :=
  dedup_t (map (fun e => snd (fst e)) (filter (fun e => N.eqb f (fst (fst e))) (b_all s))).
Definition b_counts (s : sspec) (f : N) : list (term * nat) :=
  map (fun t => (t, count_entries (f, t) (b_all s))) (b_terms s f).
Definition b_nums (s : sspec) (f : N) : list N :=
  flat_map (fun e => match e with (f', TN p, _) => if N.eqb f f' then [p] else [] | _ => [] end) (b_all s).
Fixpoint f_ins (x : N) (l : list N) : list N :=
  match l with [] => [x] | y :: r => if (fkey x <=? fkey y)%N then x :: y :: r else y :: f_ins x r end.
Definition f_sort (l : list N) : list N := fold_right f_ins [] l.
Definition b_numbers (s : sspec) (f : N) : list N := f_sort (b_nums s f).
Definition b_min (s : sspec) (f : N) : option N := hd_error (b_numbers s f).
Definition b_max (s : sspec) (f : N) : option N := hd_error (rev (b_numbers s f)).
Definition b_range (s : sspec) (f : N) (lo hi : N) : list (N * nat) :=
  group_counts (filter (fun p => negb (f_lt p lo) && f_lt p hi) (b_numbers s f)).

(* ---------- the region of histories outside known finding 5, and well-formed documents ---------- *)
Definition fresh (sp : sspec) (o : iop) : bool :=
  match o with IAddDoc d _ => negb (existsb (fun y => N.eqb d (fst y)) (sp_live sp)) | _ => true end.
Fixpoint fresh_from (sp : sspec) (ops : list iop) : bool :=
  match ops with [] => true | o :: r => fresh sp o && fresh_from (sp_step sp o) r end.
(* no IAddDoc names a document that is live at that moment *)
Definition fresh_adds (ops : list iop) : bool := fresh_from spinit ops.
(* a document has at most one value per field (it is a map in the implementation) *)
Fixpoint nodupN (l : list N) : bool :=
  match l with [] => true | x :: r => negb (memN x r) && nodupN r end.
Definition wf_op (o : iop) : bool := match o with IAddDoc _ vals => nodupN (map fst vals) | _ => true end.
Definition wf_ops (ops : list iop) : bool := forallb wf_op ops.
