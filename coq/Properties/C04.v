(* C04  Reopening a database (cleanly or after a crash) preserves a consistent graph. *)
From Coq Require Import List NArith Bool Arith.
Import ListNotations.
From Grip Require Import Model.KVGraph Proofs.KVGraphProofs.
From Grip Require Model.Bytes Model.Keys Proofs.KeysProofs.

(* a reopened database is indistinguishable, on every later history, from one that never stopped
   (this is where the reload of the indexed-field registry matters: elem_writes consults it) *)
Theorem C04_reopen : forall ops1 ops2,
  kv (run_from (reopen (kv (run ops1))) ops2) = kv (run (ops1 ++ ops2)).
Proof. exact reopen_transparent. Qed.
Print Assumptions C04_reopen.

(* a crash before any of the top-level writes of a single-write call leaves a store in which adjacency
   keys and edge records agree exactly (for every history before it and every crash point) *)
Theorem C04_crash_consistent : forall ops o n, single_call o = true -> Cons (kv (crash (run ops) o n)).
Proof. intros ops o n H. exact (crash_Cons (run ops) o n (run_Cons ops) H). Qed.
Print Assumptions C04_crash_consistent.

(* a call whose writes all happened before the crash (= acknowledged) is fully present *)
Theorem C04_acknowledged_present : forall m o cs, op_calls m o = Some cs ->
  kv (crash m o (length cs)) = kv (fst (step m o)).
Proof. exact crash_after_all. Qed.
Print Assumptions C04_acknowledged_present.

(* full statement including the multi-write calls ... *)
Definition C04_crash_full : Prop := forall ops o n, Cons (kv (crash (run ops) o n)).
(* ... refuted by DeleteGraph, which issues its prefix deletes as separate writes (known finding 4) *)
Theorem C04_crash_full_refuted : ~ C04_crash_full.
Proof.
  intros H. specialize (H [OAddGraph 1; OAddEdge 1 1 1 2 1 0]%N (ODeleteGraph 1%N) 1).
  destruct H as [H _ _ _]. vm_compute in H. discriminate.
Qed.
Print Assumptions C04_crash_full_refuted.

(* The same consistency, on the bytes of a real store (graphs beyond the small universe of the histories): the check the
   correspondence runs on every key of a store reopened after a crash, Model/Keys.v keys_consistent, means for NUL-free
   components (all that validation admits) that every edge record has both adjacency entries and every entry its record *)
Theorem C04_key_check_edge : forall ks g e s d l, Keys.nonul g && Keys.nonul e && Keys.nonul s && Keys.nonul d && Keys.nonul l = true ->
  Keys.keys_consistent ks = true -> In (Keys.edge_key g e s d l) ks ->
  In (Keys.src_key g s d e l) ks /\ In (Keys.dst_key g s d e l) ks.
Proof. exact KeysProofs.key_check_edge. Qed.
Print Assumptions C04_key_check_edge.
Theorem C04_key_check_entry : forall ks g e s d l, Keys.nonul g && Keys.nonul s && Keys.nonul d && Keys.nonul e && Keys.nonul l = true ->
  Keys.keys_consistent ks = true ->
  (In (Keys.src_key g s d e l) ks -> In (Keys.edge_key g e s d l) ks) /\ (In (Keys.dst_key g s d e l) ks -> In (Keys.edge_key g e s d l) ks).
Proof. exact KeysProofs.key_check_entry. Qed.
Print Assumptions C04_key_check_entry.

Example C04_nonvacuous :
  kv (crash (run [OAddGraph 1; OAddEdge 1 1 1 2 1 0]%N) (ODelEdge 1 1)%N 0) = kv (run [OAddGraph 1; OAddEdge 1 1 1 2 1 0]%N)
  /\ edges (kv (crash (run [OAddGraph 1; OAddEdge 1 1 1 2 1 0]%N) (ODelEdge 1 1)%N 1)) = [].
Proof. vm_compute. auto. Qed.
