(* C07  Traversals terminate for any data volume and stop when cancelled.
   Model/Pipeline.v: (1) a pipeline as engine/pipeline/pipes.go:Start builds it - one goroutine per step,
   channels of capacity cap between them, each step writing its results one at a time and closing its output
   when its input is closed and drained; (2) the fan-out / fan-in inside both() and bothE(). *)
From Coq Require Import List Arith Bool.
Import ListNotations.
From Grip Require Import Model.Pipeline Proofs.PipelineProofs.

(* For EVERY channel capacity >= 1, every number of steps, every per-row fan-out (filters may write any
   sublist; count/aggregate-like steps write their rows at end of input), every number of rows in the store
   and EVERY schedule of the goroutines, with the client cancelling at any point or never: a run has at most
   [weight] steps, and whenever no goroutine can move the result stream is closed and every step has stopped. *)
Theorem C07_pipeline_terminates : forall (A : Type) (cap : nat), 0 < cap ->
  forall (rows : list A) (sts : list (stage A)) (n : nat) (p : pipe A),
  run A cap n (start rows sts) p ->
  n <= weight (start rows sts) /\ ((forall p', ~ step cap p p') -> done p).
Proof. exact pipeline_terminates. Qed.
Print Assumptions C07_pipeline_terminates.

(* cancellation empties the scan at once and leaves a well-formed pipeline with no more work than before:
   by the theorem above it drains and closes *)
Theorem C07_cancel_drains : forall (A : Type) (cap : nat), 0 < cap ->
  forall (rows : list A) (sts : list (stage A)) (n : nat) (p : pipe A),
  run A cap n (start rows sts) p -> head_ch (cancel p) = [] /\ wf (cancel p) /\ weight (cancel p) <= weight p.
Proof. exact cancel_drains. Qed.
Print Assumptions C07_cancel_drains.

(* both()/bothE(), repaired design: for every capacity >= 1, every input and every fan-out per traveler in
   either direction, every schedule ends; at the end nothing is left inside and exactly the owed results have
   been delivered *)
Theorem C07_fan_terminates : forall cap, 0 < cap -> forall inp s, freach cap true (fstart inp) s ->
  fweight s <= fweight (fstart inp) /\ ftotal s = ftotal (fstart inp) /\
  (fnext cap true s = [] -> ffinal s = true /\ f_emitted s = sum (map (fun p => fst p + snd p) inp)).
Proof. exact fan_terminates. Qed.
Print Assumptions C07_fan_terminates.

(* the design of the pinned tree (outputs read only after all input has been fed) deadlocks as soon as one
   direction produces more than the buffers hold: capacity 2, six travelers with one result each *)
Theorem C07_old_fan_deadlocks : exists inp s,
  freach 2 false (fstart inp) s /\ fnext 2 false s = [] /\ ffinal s = false.
Proof.
  exists (repeat (1, 0) 6), (frun 2 false 100 (fstart (repeat (1, 0) 6))).
  split; [apply frun_reach|]. split; vm_compute; reflexivity.
Qed.
Print Assumptions C07_old_fan_deadlocks.

(* the same input under the repaired design runs to the end *)
Example C07_new_fan_runs : let s := frun 2 true 200 (fstart (repeat (1, 0) 6)) in ffinal s = true /\ f_emitted s = 6.
Proof. vm_compute. split; reflexivity. Qed.

(* uniform fan-out pipelines deliver the product of the fan-outs (the expectation the correspondence uses) *)
Theorem C07_fan_count : forall (A : Type) (ks : list nat) (rows : list A),
  length (pipe_fun (map fan_stage ks) rows) = fold_left Nat.mul ks (length rows).
Proof. exact @fan_count. Qed.
Print Assumptions C07_fan_count.

(* non-vacuity: a three-step pipeline with capacity 2 and fan-outs 3, 0-or-1 (filter), 2 under the
   deepest-first scheduler reaches the closed state having delivered pipe_fun's rows *)
Example C07_sched_instance :
  let sts := [fan_stage 3; {| s_f := fun x => [x]; s_fin := [] |}; fan_stage 2] in
  let p := start [1; 2; 3; 4; 5] sts in
  let '(q, n) := run_sched 2 (fun st x => s_f st x) 1000 p in
  doneb q = true /\ got q = length (pipe_fun sts [1; 2; 3; 4; 5]) /\ n <= weight p.
Proof. vm_compute. repeat split. repeat constructor. Qed.
