// drive: runs the real bmeg/grip code on generated inputs and writes the cases as Coq terms.
//
//	drive <Cxx> -seed N -tier quick|thorough -out DIR [-replay FILE] [-wide]
package main

import (
	"encoding/json"
	"flag"
	"fmt"
	"math/rand"
	"os"
	"path/filepath"
	"sort"
	"strings"
)

type Case struct {
	Input      interface{} `json:"input"`
	Observed   interface{} `json:"observed"`
	Coq        string      `json:"-"`
	Nontrivial bool        `json:"nontrivial"`
	Tags       []string    `json:"tags,omitempty"`
	Key        string      `json:"-"` // distinctness key (defaults to Coq term)
}

type Ctx struct {
	Prop    string
	Seed    int64
	Tier    string
	Out     string
	Wide    bool // widened failing-input search
	Rng     *rand.Rand
	Replay  json.RawMessage
	cases   []Case
	Header  string // extra Require lines
	EvalMod string // Run module name, e.g. Eval_C13
	CaseTy  string
	Shard   int
	Notes   map[string]interface{}
	Exhaustive bool
	Rule    string
	Scope   string // numeral scope of the cases file (default nat_scope)
	WideFactor int // multiplier of the random budget in the widened search (default 10)
	HasKF   bool // the Eval module defines known_classes (known-finding regions re-observed)
}

func (c *Ctx) Thorough() bool { return c.Tier == "thorough" }

// Pick returns q in quick tier, t in thorough tier (x10 when widened).
func (c *Ctx) Pick(q, t int) int {
	n := q
	if c.Thorough() {
		n = t
	}
	if c.Wide {
		f := c.WideFactor
		if f == 0 {
			f = 10
		}
		n *= f
	}
	return n
}

func (c *Ctx) Add(cs Case) { c.cases = append(c.cases, cs) }

type propFn func(*Ctx) error

var props = map[string]propFn{}

func main() {
	if len(os.Args) < 2 {
		fmt.Fprintln(os.Stderr, "usage: drive <Cxx> [flags]")
		os.Exit(2)
	}
	prop := os.Args[1]
	if prop == "worker" { // sub-process entry for crash-prone requests
		workerMain(os.Args[2:])
		return
	}
	fs := flag.NewFlagSet("drive", flag.ExitOnError)
	seed := fs.Int64("seed", 1, "seed")
	tier := fs.String("tier", "quick", "tier")
	out := fs.String("out", "", "output dir")
	replay := fs.String("replay", "", "replay file")
	wide := fs.Bool("wide", false, "widened search")
	fs.Parse(os.Args[2:])
	fn, ok := props[prop]
	if !ok {
		fmt.Fprintln(os.Stderr, "unknown property", prop)
		os.Exit(2)
	}
	ctx := &Ctx{Prop: prop, Seed: *seed, Tier: *tier, Out: *out, Wide: *wide,
		Rng: rand.New(rand.NewSource(*seed)), Shard: 250, Notes: map[string]interface{}{}}
	if *replay != "" {
		b, err := os.ReadFile(*replay)
		if err != nil {
			panic(err)
		}
		var r struct {
			Input json.RawMessage `json:"input"`
		}
		if err := json.Unmarshal(b, &r); err != nil {
			panic(err)
		}
		ctx.Replay = r.Input
	}
	os.MkdirAll(ctx.Out, 0o755)
	old, _ := filepath.Glob(filepath.Join(ctx.Out, "cases_*.v"))
	for _, f := range old {
		os.Remove(f)
	}
	if err := fn(ctx); err != nil {
		fmt.Fprintln(os.Stderr, "drive error:", err)
		os.Exit(3)
	}
	ctx.flush()
}

func (c *Ctx) flush() {
	// shards
	nsh := 0
	for i := 0; i < len(c.cases); i += c.Shard {
		j := i + c.Shard
		if j > len(c.cases) {
			j = len(c.cases)
		}
		var sb strings.Builder
		sb.WriteString("From Coq Require Import List NArith ZArith QArith String Ascii Bool.\nImport ListNotations.\n")
		sb.WriteString(c.Header)
		scope := c.Scope
		if scope == "" {
			scope = "nat_scope"
		}
		sb.WriteString(fmt.Sprintf("From Grip Require Import Run.%s.\nLocal Open Scope %s.\n", c.EvalMod, scope))
		sb.WriteString(fmt.Sprintf("Definition cases : list %s := [\n", c.CaseTy))
		for k := i; k < j; k++ {
			sb.WriteString("  " + c.cases[k].Coq)
			if k+1 < j {
				sb.WriteString(";\n")
			}
		}
		sb.WriteString("\n].\n")
		sb.WriteString("Definition M := Eval vm_compute in mismatches cases.\nPrint M.\n")
		sb.WriteString("Definition SV := Eval vm_compute in spec_violations cases.\nPrint SV.\n")
		if c.HasKF {
			sb.WriteString("Definition KF := Eval vm_compute in known_classes cases.\nPrint KF.\n")
		}
		os.WriteFile(filepath.Join(c.Out, fmt.Sprintf("cases_%d.v", nsh)), []byte(sb.String()), 0o644)
		nsh++
	}
	// json + meta
	f, _ := os.Create(filepath.Join(c.Out, "cases.json"))
	enc := json.NewEncoder(f)
	for i := range c.cases {
		enc.Encode(&c.cases[i])
	}
	f.Close()
	tags := map[string]int{}
	distinct := map[string]bool{}
	for _, cs := range c.cases {
		for _, t := range cs.Tags {
			tags[t]++
		}
		if cs.Nontrivial {
			k := cs.Key
			if k == "" {
				k = cs.Coq
			}
			distinct[k] = true
		}
	}
	samples := []Case{}
	step := len(c.cases)/6 + 1
	for i := 0; i < len(c.cases) && len(samples) < 4; i += step {
		for k := i; k < len(c.cases) && k < i+step; k++ {
			if b, _ := json.Marshal(c.cases[k]); len(b) < 1500 {
				samples = append(samples, c.cases[k])
				break
			}
		}
	}
	if len(samples) == 0 && len(c.cases) > 0 {
		samples = append(samples, Case{Input: "first case too large to inline; see out/<id>/cases.json", Tags: c.cases[0].Tags})
	}
	keys := []string{}
	for k := range tags {
		keys = append(keys, k)
	}
	sort.Strings(keys)
	meta := map[string]interface{}{
		"property": c.Prop, "seed": c.Seed, "tier": c.Tier, "evaluations": len(c.cases),
		"distinct_nontrivial": len(distinct), "distribution": tags, "samples": samples,
		"shards": nsh, "shard_size": c.Shard, "notes": c.Notes, "exhaustive": c.Exhaustive, "rule": c.Rule,
	}
	b, _ := json.MarshalIndent(meta, "", " ")
	os.WriteFile(filepath.Join(c.Out, "meta.json"), b, 0o644)
}

func workerMain(args []string) {
	if len(args) < 1 {
		os.Exit(2)
	}
	if fn, ok := workers[args[0]]; ok {
		fn(args[1:])
		return
	}
	os.Exit(2)
}

var workers = map[string]func([]string){}
