package main

import (
	"fmt"
	"math/rand"

	"github.com/bmeg/grip/engine/core"
	"github.com/bmeg/grip/gripql"
	"github.com/bmeg/grip/util/protoutil"
	"gripverif/internal/coq"
)

// ---------- the planner's start rewrite, observed directly: core.IndexStartOptimize ----------

func hExprFromProto(h *gripql.HasExpression) hExpr {
	if h == nil {
		return hExpr{Kind: "unset"}
	}
	if c := h.GetCondition(); c != nil {
		op := "?"
		for n, v := range copNames {
			if v == c.Condition {
				op = n
			}
		}
		var arg interface{}
		if c.Value != nil {
			arg = c.Value.AsInterface()
		}
		return hExpr{Kind: "cond", Key: c.Key, Op: op, Arg: arg}
	}
	list := func(kind string, l *gripql.HasExpressionList) hExpr {
		out := hExpr{Kind: kind}
		for _, e := range l.GetExpressions() {
			out.Es = append(out.Es, hExprFromProto(e))
		}
		return out
	}
	if a := h.GetAnd(); a != nil {
		return list("and", a)
	}
	if o := h.GetOr(); o != nil {
		return list("or", o)
	}
	if n := h.GetNot(); n != nil {
		return hExpr{Kind: "not", Es: []hExpr{hExprFromProto(n)}}
	}
	return hExpr{Kind: "unset"}
}

// the optimised statement list in the model's syntax: statements the optimiser passed through are recognised by
// identity, the ones it builds (V, has, LookupVertsIndex) are decoded
func planOf(prog []tStmt) ([]string, []string) {
	orig := progProto(prog)
	byPtr := map[*gripql.GraphStatement]int{}
	for i, s := range orig {
		byPtr[s] = i
	}
	opt := core.IndexStartOptimize(orig)
	coqItems := []string{}
	plain := []string{}
	for _, s := range opt {
		if i, ok := byPtr[s]; ok {
			coqItems = append(coqItems, "(OS "+prog[i].coq()+")")
			plain = append(plain, prog[i].Op)
			continue
		}
		switch st := s.GetStatement().(type) {
		case *gripql.GraphStatement_V:
			t := tStmt{Op: "V", Strs: protoutil.AsStringList(st.V)}
			coqItems = append(coqItems, "(OS "+t.coq()+")")
			plain = append(plain, fmt.Sprintf("V%v", t.Strs))
		case *gripql.GraphStatement_Has:
			h := hExprFromProto(st.Has)
			t := tStmt{Op: "has", Has: &h}
			coqItems = append(coqItems, "(OS "+t.coq()+")")
			plain = append(plain, "has*")
		case *gripql.GraphStatement_LookupVertsIndex:
			coqItems = append(coqItems, "(OLookup "+coq.StrList(st.Labels)+")")
			plain = append(plain, fmt.Sprintf("lookup%v", st.Labels))
		default:
			coqItems = append(coqItems, `(OLookup ["<statement the harness cannot decode>"])`)
			plain = append(plain, fmt.Sprintf("?%T", st))
		}
	}
	return coqItems, plain
}

func uniqueVertexIDs(g tGraph) bool {
	seen := map[string]bool{}
	for _, v := range g.V {
		if seen[v.ID] {
			return false
		}
		seen[v.ID] = true
	}
	return true
}

// filter runs in every shape the rewrite distinguishes
func c02PlanPrograms(ctx *Ctx) [][]tStmt {
	rng := rand.New(rand.NewSource(ctx.Rng.Int63()))
	cond := func(k, op string, arg interface{}) hExpr { return hExpr{Kind: "cond", Key: k, Op: op, Arg: arg} }
	and := func(es ...hExpr) hExpr { return hExpr{Kind: "and", Es: es} }
	has := func(h hExpr) tStmt { return tStmt{Op: "has", Has: &h} }
	idKeys := []string{"_gid", "$._gid", "$._gid.x", "gid", "$m._gid", "$__current__._gid", "_label", "$._label", "label", "name", "_gid._gid"}
	args := []interface{}{"a", "P", 1.0, nil, true, []interface{}{"a", "b", "a"}, []interface{}{"P", "Q"}, []interface{}{"a", 1.0}, []interface{}{}, []interface{}{[]interface{}{"a"}}, map[string]interface{}{"a": "b"}}
	filters := []tStmt{
		{Op: "hasId", Strs: []string{"a"}}, {Op: "hasId", Strs: []string{"b", "a", "b", "zz"}}, {Op: "hasId"},
		{Op: "hasLabel", Strs: []string{"P"}}, {Op: "hasLabel", Strs: []string{"Q", "P", "Q"}}, {Op: "hasLabel"},
		has(and()), has(and(and(and()))), has(hExpr{Kind: "or", Es: []hExpr{cond("_gid", "eq", "a")}}), has(hExpr{Kind: "not", Es: []hExpr{cond("_label", "eq", "P")}}),
		has(hExpr{Kind: "unset"}),
		has(and(cond("name", "eq", "x"), and(cond("_label", "within", []interface{}{"P", "P"})))),
		has(and(and(cond("_gid", "eq", "a"), cond("w", "gt", 0.0)), cond("_label", "eq", "P"))),
		has(and(hExpr{Kind: "or", Es: []hExpr{and(cond("_gid", "eq", "a"))}}, cond("_gid", "neq", "b"))),
	}
	for _, k := range idKeys {
		for _, op := range []string{"eq", "within", "neq", "without", "contains", "gt"} {
			filters = append(filters, has(cond(k, op, args[rng.Intn(len(args))])))
		}
		filters = append(filters, has(cond(k, "eq", "a")), has(cond(k, "within", []interface{}{"a", "b", "a"})), has(cond(k, "within", []interface{}{"P"})))
	}
	tails := [][]tStmt{{}, {{Op: "count"}}, {{Op: "out"}, {Op: "hasId", Strs: []string{"b"}}}, {{Op: "as", Str: "m"}, {Op: "out"}, {Op: "has", Has: &hExpr{Kind: "cond", Key: "$m._gid", Op: "eq", Arg: "a"}}},
		{{Op: "limit", N: 1}, {Op: "hasLabel", Strs: []string{"P"}}}, {{Op: "has", Has: &hExpr{Kind: "and", Es: []hExpr{cond("_gid", "eq", "a")}}}, {Op: "outE"}}}
	starts := []tStmt{{Op: "V"}, {Op: "V"}, {Op: "V"}, {Op: "V"}, {Op: "V", Strs: []string{"a", "b"}}, {Op: "E"}}
	out := [][]tStmt{{{Op: "V"}}, {{Op: "E"}}, {{Op: "V", Strs: []string{"a"}}}, {{Op: "count"}}, {{Op: "hasId", Strs: []string{"a"}}, {Op: "V"}}}
	// every single filter, then random runs of up to four
	for _, f := range filters {
		out = append(out, []tStmt{{Op: "V"}, f}, []tStmt{{Op: "V"}, f, {Op: "out"}}, []tStmt{{Op: "V"}, {Op: "hasLabel", Strs: []string{"P"}}, f}, []tStmt{{Op: "V"}, has(cond("name", "eq", "x")), f, {Op: "hasId", Strs: []string{"a"}}})
	}
	n := ctx.Pick(400, 4000)
	for i := 0; i < n; i++ {
		p := []tStmt{starts[rng.Intn(len(starts))]}
		for k := rng.Intn(5); k > 0; k-- {
			p = append(p, filters[rng.Intn(len(filters))])
		}
		p = append(p, tails[rng.Intn(len(tails))]...)
		out = append(out, p)
	}
	return out
}

func addPlanCases(ctx *Ctx, graphs []tGraph, progs [][]tStmt) {
	for i, p := range progs {
		g := graphs[i%len(graphs)]
		items, plain := planOf(p)
		c := "(CPlan " + g.coq() + " " + progCoq(p) + " " + coq.List(items) + ")"
		in := c01Input{Driver: "plan", Graph: g, Prog: p}
		tags := []string{"plan", "len=" + bucket(len(p))}
		changed := len(items) != len(p)
		for _, x := range plain {
			if len(x) > 5 && x[:6] == "lookup" {
				tags = append(tags, "plan=label-lookup")
				changed = true
			}
			if len(x) > 1 && x[0] == 'V' && x != "V[]" && p[0].Op == "V" && len(p[0].Strs) == 0 {
				tags = append(tags, "plan=id-start")
				changed = true
			}
			if x == "has*" {
				tags = append(tags, "plan=flattened")
			}
		}
		if !changed {
			tags = append(tags, "plan=unchanged")
		}
		ctx.Add(Case{Input: in, Observed: plain, Coq: c, Nontrivial: changed, Key: "plan:" + progCoq(p) + fmt.Sprint(i%len(graphs)), Tags: tags})
	}
}
