From Coq Require Import List ZArith QArith String Ascii Bool Lia.
Import ListNotations.
From Grip Require Import Model.Json Model.Has Model.Traversal Model.Mongo Proofs.TraversalProofs.
Local Close Scope Q_scope.
Local Open Scope string_scope.
Local Open Scope list_scope.

(* ================= typing ================= *)
Lemma core_kind s ts : type_step ts s = core_kstep ts (kind_of s).
Proof.
  destruct ts as [d mt]. destruct s; cbn [type_step core_kstep kind_of]; try reflexivity;
  try (destruct ls; reflexivity); try (destruct ids; reflexivity); try (destruct ks; reflexivity).
Qed.

Definition tinv (ts : tstate) : Prop :=
  (fst ts = DNone -> snd ts = []) /\
  (is_elem (fst ts) = true -> forall m t, get_assoc m (snd ts) = Some t -> is_elem t = true).

Lemma tinv_init : tinv (DNone, []).
Proof. split; [reflexivity|]. cbn. discriminate. Qed.

Lemma dtype_eqb_eq a b : dtype_eqb a b = true <-> a = b.
Proof. destruct a, b; cbn; split; intros H; try reflexivity; try discriminate. Qed.

Lemma get_assoc_set_inv {V} k k' (v w : V) l : get_assoc k' (set_assoc k v l) = Some w -> (k = k' /\ v = w) \/ get_assoc k' l = Some w.
Proof.
  destruct (String.eqb_spec k k') as [->|Hne].
  - rewrite get_assoc_set_same. intros H; inversion H. left; auto.
  - rewrite get_assoc_set_other by exact Hne. right; assumption.
Qed.

(* one step: same verdict and same state, when marks are defined before use and the invariant holds *)
Lemma kstep_agree ts k : tinv ts -> use_ok ts k = true -> mongo_kstep ts k = core_kstep ts k.
Proof.
  intros [Hn He] Hu. destruct ts as [d mt]. cbn [fst snd] in *.
  destruct k; cbn [mongo_kstep core_kstep]; try reflexivity.
  - destruct (is_elem d); [destruct empty|]; reflexivity.
  - destruct (dtype_eqb d DNone); reflexivity.
  - destruct (is_elem d) eqn:Ed; [|reflexivity]. destruct names as [|m [|m2 r]]; try reflexivity.
    cbn [use_ok snd] in Hu. destruct (get_assoc m mt) as [t|] eqn:Eg; [|discriminate].
    specialize (He eq_refl _ _ Eg). destruct t; try discriminate; reflexivity.
  - destruct (is_elem d); [destruct dup|]; reflexivity.
Qed.

Lemma kstep_inv ts k ts' : tinv ts -> use_ok ts k = true -> core_kstep ts k = Some ts' -> tinv ts'.
Proof.
  intros [Hn He] Hu Hs. destruct ts as [d mt]. cbn [fst snd] in *.
  assert (Hkeep : forall d', (d' = DNone -> d = DNone) -> (is_elem d' = true -> is_elem d = true \/ d = DNone) -> tinv (d', mt)).
  { intros d' H1 H2. split; cbn [fst snd].
    - intros E. apply Hn, H1, E.
    - intros E m t Hg. destruct (H2 E) as [Hd|Hd]; [eapply He; eauto|]. rewrite (Hn Hd) in Hg. discriminate. }
  destruct k; cbn [core_kstep] in Hs.
  - destruct (dtype_eqb d DNone) eqn:E; inversion Hs; subst. apply dtype_eqb_eq in E. apply Hkeep; [discriminate|auto].
  - destruct (dtype_eqb d DNone) eqn:E; inversion Hs; subst. apply dtype_eqb_eq in E. apply Hkeep; [discriminate|auto].
  - destruct (is_elem d) eqn:E; inversion Hs; subst. apply Hkeep; [discriminate|auto].
  - destruct (dtype_eqb d DVertex) eqn:E; inversion Hs; subst. apply dtype_eqb_eq in E. subst. apply Hkeep; [discriminate|auto].
  - destruct (is_elem d) eqn:E; inversion Hs; subst. apply Hkeep; auto.
  - destruct (is_elem d && negb empty) eqn:E; inversion Hs; subst. apply Hkeep; auto.
  - destruct (negb (dtype_eqb d DNone) && valid_mark name) eqn:E; inversion Hs; subst. apply andb_true_iff in E as [E _].
    split; cbn [fst snd].
    + intros Ed. subst d. discriminate.
    + intros Ed m t Hg. apply get_assoc_set_inv in Hg as [[_ <-]|Hg]; [exact Ed|eapply He; eauto].
  - destruct (is_elem d) eqn:E; [|discriminate]. destruct names as [|m [|m2 r]]; [discriminate| |].
    + inversion Hs; subst. cbn [use_ok snd] in Hu. destruct (get_assoc m mt) as [t|] eqn:Eg; [|discriminate].
      pose proof (He eq_refl _ _ Eg) as Ht. apply Hkeep; [intros ->; discriminate|auto].
    + inversion Hs; subst. apply Hkeep; [discriminate|cbn; discriminate].
  - destruct (is_elem d) eqn:E; inversion Hs; subst. apply Hkeep; auto.
  - destruct (is_elem d) eqn:E; inversion Hs; subst. apply Hkeep; [discriminate|cbn; discriminate].
  - destruct (is_elem d) eqn:E; inversion Hs; subst. apply Hkeep; [discriminate|cbn; discriminate].
  - destruct (is_elem d) eqn:E; inversion Hs; subst. apply Hkeep; auto.
  - destruct (is_elem d) eqn:E; inversion Hs; subst. apply Hkeep; auto.
  - inversion Hs; subst. apply Hkeep; [discriminate|cbn; discriminate].
  - inversion Hs; subst. apply Hkeep; auto.
  - destruct (is_elem d && negb dup) eqn:E; inversion Hs; subst. apply Hkeep; [discriminate|cbn; discriminate].
Qed.

Lemma krun_agree ks : forall ts, tinv ts -> defined_use_from ts ks = true -> krun mongo_kstep ts ks = krun core_kstep ts ks.
Proof.
  induction ks as [|k r IH]; intros ts Hi Hd; [reflexivity|].
  cbn [defined_use_from] in Hd. apply andb_true_iff in Hd as [Hu Hd]. cbn [krun].
  rewrite (kstep_agree ts k Hi Hu). destruct (core_kstep ts k) as [ts'|] eqn:E; [|reflexivity].
  apply IH; [eapply kstep_inv; eauto|exact Hd].
Qed.

Theorem typing_agree ks : defined_use ks = true -> mongo_ktype ks = core_ktype ks.
Proof.
  intros Hd. unfold mongo_ktype, core_ktype, ktype. destruct ks as [|k r]; [reflexivity|].
  destruct k; try reflexivity; apply krun_agree; auto using tinv_init.
Qed.

(* the kinds of a core-model program type exactly as the program does (ties Model/Traversal.v's type_of) *)
Lemma type_from_kinds p : forall ts, type_from ts p = krun core_kstep ts (map kind_of p).
Proof. induction p as [|s r IH]; intros ts; [reflexivity|]. cbn [type_from map krun]. rewrite core_kind.
  destruct (core_kstep ts (kind_of s)); [apply IH|reflexivity]. Qed.
Theorem type_of_kinds p : type_of p = core_ktype (map kind_of p).
Proof. unfold type_of, core_ktype, ktype. destruct p as [|s r]; [reflexivity|].
  destruct s; try reflexivity; apply type_from_kinds. Qed.

(* ================= filters ================= *)
Section Filters.
  Variable look : string -> option jv.          (* the core engine's field lookup on the element *)
  Variable mget : string -> option jv.          (* the server's dotted-path lookup in the stored document *)
  Hypothesis Hdoc : forall k, mget (convert_path k) = look k.

  Notation ev := (match_expr look).

  Lemma const_filter_eval b : meval mget (const_filter b) = Some b.
  Proof. destruct b; reflexivity. Qed.

  Lemma wrap_eval k n o b : mop_eval (look k) o = Some b -> meval mget (wrap k n o) = Some (xorb n b).
  Proof. intros H. unfold wrap. cbn [meval]. rewrite Hdoc. destruct n; cbn [mop_eval]; rewrite H; destruct b; reflexivity. Qed.

  (* ordering tests under the guard *)
  Lemma ord_num v a (f : Q -> Q -> bool) (g : option comparison -> bool) :
    is_num a = true -> numeric_text v = false -> scalar v = true ->
    (forall x y, g (Some (Qcompare x y)) = f x y) -> g None = false ->
    g (mcmp (goval v) a) =
    match to_number (goval v) with None => false | Some x => match to_number a with None => false | Some y => f x y end end.
  Proof.
    intros Ha Hv Hs Hg Hn. destruct a; try discriminate. cbn [to_number].
    destruct v as [[| | |s| |]|]; cbn [goval mcmp to_number scalar numeric_text] in *; try discriminate; try exact Hn.
    - apply Hg.
    - destruct (parse_float s); [discriminate|exact Hn].
  Qed.

  Lemma cond_ord k op a n : (op = CGt \/ op = CGte \/ op = CLt \/ op = CLte) ->
    ord_ok look k a = true -> scalar (look k) = true ->
    meval mget (convert_cond k op a n) = Some (xorb n (match_cond (look k) op a)).
  Proof.
    intros Hop Ho Hs. unfold ord_ok in Ho. apply andb_true_iff in Ho as [Ha Hv]. apply negb_true_iff in Hv.
    destruct Hop as [-> | [-> | [-> | ->]]]; cbn [convert_cond]; apply wrap_eval; cbn [mop_eval match_cond]; f_equal.
    - apply (ord_num _ _ (fun x y => qlt y x) is_gt); auto. intros x y. unfold qlt. rewrite <- (Qcompare_antisym x y). destruct (Qcompare x y); reflexivity.
    - apply (ord_num _ _ (fun x y => qle y x) is_ge); auto. intros x y. unfold qle. rewrite <- (Qcompare_antisym x y). destruct (Qcompare x y); reflexivity.
    - apply (ord_num _ _ qlt is_lt); auto.
    - apply (ord_num _ _ qle is_le); auto.
  Qed.

  Lemma bounds_shape v a (f : Q -> Q -> Q -> bool) :
    (forall lo hi, a <> JList [lo; hi]) ->
    match a with
    | JList [lo; hi] =>
        match to_number lo with
        | None => false
        | Some l => match to_number hi with None => false | Some h => match to_number v with None => false | Some x => f x l h end end
        end
    | _ => false
    end = false.
  Proof. intros H. destruct a as [| | | |[|lo [|hi [|z r]]]|]; try reflexivity. exfalso. eapply H; reflexivity. Qed.

  Lemma cond_equiv k op a n : guard look (HCond k op a) = true ->
    meval mget (convert (HCond k op a) n) = Some (xorb n (match_cond (look k) op a)).
  Proof.
    intros G. destruct op; cbn [convert guard] in *.
    - apply wrap_eval. reflexivity.
    - apply wrap_eval. reflexivity.
    - apply andb_true_iff in G as [G1 G2]. apply cond_ord; auto.
    - apply andb_true_iff in G as [G1 G2]. apply cond_ord; auto.
    - apply andb_true_iff in G as [G1 G2]. apply cond_ord; auto.
    - apply andb_true_iff in G as [G1 G2]. apply cond_ord; auto.
    - (* inside *) apply andb_true_iff in G as [Gs G].
      destruct a as [| | | |[|lo [|hi [|z r]]]|]; try (rewrite const_filter_eval; destruct n; reflexivity).
      apply andb_true_iff in G as [G1 G2].
      pose proof (cond_ord k CGt lo n (or_introl eq_refl) G1 Gs) as E1.
      pose proof (cond_ord k CLt hi n (or_intror (or_intror (or_introl eq_refl))) G2 Gs) as E2.
      unfold ord_ok in G1, G2. apply andb_true_iff in G1 as [N1 _]. apply andb_true_iff in G2 as [N2 _].
      destruct lo; try discriminate. destruct hi; try discriminate.
      cbn [match_cond to_number] in *.
      destruct n; cbn [meval fold_right]; rewrite E1, E2; cbn [xorb];
      destruct (to_number (goval (look k))); cbn; try reflexivity;
      repeat match goal with |- context [qlt ?a ?b] => destruct (qlt a b) end; reflexivity.
    - (* outside *) apply andb_true_iff in G as [Gs G].
      destruct a as [| | | |[|lo [|hi [|z r]]]|]; try (rewrite const_filter_eval; destruct n; reflexivity).
      apply andb_true_iff in G as [G1 G2].
      pose proof (cond_ord k CLt lo n (or_intror (or_intror (or_introl eq_refl))) G1 Gs) as E1.
      pose proof (cond_ord k CGt hi n (or_introl eq_refl) G2 Gs) as E2.
      unfold ord_ok in G1, G2. apply andb_true_iff in G1 as [N1 _]. apply andb_true_iff in G2 as [N2 _].
      destruct lo; try discriminate. destruct hi; try discriminate.
      cbn [match_cond to_number] in *.
      destruct n; cbn [meval fold_right]; rewrite E1, E2; cbn [xorb];
      destruct (to_number (goval (look k))); cbn; try reflexivity;
      repeat match goal with |- context [qlt ?a ?b] => destruct (qlt a b) end; reflexivity.
    - (* between *) apply andb_true_iff in G as [Gs G].
      destruct a as [| | | |[|lo [|hi [|z r]]]|]; try (rewrite const_filter_eval; destruct n; reflexivity).
      apply andb_true_iff in G as [G1 G2].
      pose proof (cond_ord k CGte lo n (or_intror (or_introl eq_refl)) G1 Gs) as E1.
      pose proof (cond_ord k CLt hi n (or_intror (or_intror (or_introl eq_refl))) G2 Gs) as E2.
      unfold ord_ok in G1, G2. apply andb_true_iff in G1 as [N1 _]. apply andb_true_iff in G2 as [N2 _].
      destruct lo; try discriminate. destruct hi; try discriminate.
      cbn [match_cond to_number] in *.
      destruct n; cbn [meval fold_right]; rewrite E1, E2; cbn [xorb];
      destruct (to_number (goval (look k))); cbn; try reflexivity;
      repeat match goal with |- context [qlt ?a ?b] => destruct (qlt a b) | |- context [qle ?a ?b] => destruct (qle a b) end; reflexivity.
    - (* within *) cbn [convert_cond]. destruct a; try (rewrite const_filter_eval; destruct n; reflexivity). apply wrap_eval. reflexivity.
    - (* without *) cbn [convert_cond]. destruct a; try (rewrite const_filter_eval; destruct n; reflexivity). apply wrap_eval. reflexivity.
    - (* contains *) apply wrap_eval. reflexivity.
  Qed.

  Lemma and_fold (l : list hexpr) n :
    Forall (fun x => meval mget (convert x n) = Some (xorb n (ev x))) l ->
    fold_right (fun x acc => match meval mget x, acc with Some a, Some b => Some (a && b) | _, _ => None end) (Some true)
               (map (fun x => convert x n) l) = Some (forallb (fun x => xorb n (ev x)) l).
  Proof. induction 1 as [|x r Hx _ IH]; [reflexivity|]. cbn [map fold_right forallb]. rewrite Hx, IH. reflexivity. Qed.
  Lemma or_fold (l : list hexpr) n :
    Forall (fun x => meval mget (convert x n) = Some (xorb n (ev x))) l ->
    fold_right (fun x acc => match meval mget x, acc with Some a, Some b => Some (a || b) | _, _ => None end) (Some false)
               (map (fun x => convert x n) l) = Some (existsb (fun x => xorb n (ev x)) l).
  Proof. induction 1 as [|x r Hx _ IH]; [reflexivity|]. cbn [map fold_right existsb]. rewrite Hx, IH. reflexivity. Qed.

  Lemma forallb_neg {X} (f : X -> bool) l : forallb (fun x => xorb true (f x)) l = negb (existsb f l).
  Proof. induction l as [|x r IH]; [reflexivity|]. cbn [forallb existsb]. rewrite IH. destruct (f x); reflexivity. Qed.
  Lemma existsb_neg {X} (f : X -> bool) l : existsb (fun x => xorb true (f x)) l = negb (forallb f l).
  Proof. induction l as [|x r IH]; [reflexivity|]. cbn [forallb existsb]. rewrite IH. destruct (f x); reflexivity. Qed.
  Lemma forallb_id {X} (f : X -> bool) l : forallb (fun x => xorb false (f x)) l = forallb f l.
  Proof. induction l as [|x r IH]; [reflexivity|]. cbn [forallb existsb]. rewrite IH. destruct (f x); reflexivity. Qed.
  Lemma existsb_id {X} (f : X -> bool) l : existsb (fun x => xorb false (f x)) l = existsb f l.
  Proof. induction l as [|x r IH]; [reflexivity|]. cbn [forallb existsb]. rewrite IH. destruct (f x); reflexivity. Qed.

  (* the emitted filter, under the standard semantics, selects exactly what the core engine keeps;
     with n set, exactly what it drops *)
  Theorem convert_equiv : forall e n, guard look e = true -> meval mget (convert e n) = Some (xorb n (ev e)).
  Proof.
    fix IH 1. intros e n G. destruct e as [k op a|es|es|x|].
    - rewrite cond_equiv by exact G. reflexivity.
    - cbn [guard] in G. assert (HF : Forall (fun x => meval mget (convert x n) = Some (xorb n (ev x))) es).
      { revert G. induction es as [|x r IHr]; intros G; constructor.
        - cbn in G. apply andb_true_iff in G as [G _]. apply IH, G.
        - cbn in G. apply andb_true_iff in G as [_ G]. apply IHr, G. }
      destruct es as [|x r]; [cbn [convert]; rewrite const_filter_eval; destruct n; reflexivity|].
      cbn [convert match_expr]. set (l := x :: r) in *.
      destruct n.
      + change (meval mget (MOr (map (fun y => convert y true) l))) with
          (fold_right (fun x acc => match meval mget x, acc with Some a, Some b => Some (a || b) | _, _ => None end) (Some false) (map (fun y => convert y true) l)).
        rewrite or_fold by exact HF. rewrite existsb_neg. destruct (forallb ev l); reflexivity.
      + change (meval mget (MAnd (map (fun y => convert y false) l))) with
          (fold_right (fun x acc => match meval mget x, acc with Some a, Some b => Some (a && b) | _, _ => None end) (Some true) (map (fun y => convert y false) l)).
        rewrite and_fold by exact HF. rewrite forallb_id. destruct (forallb ev l); reflexivity.
    - cbn [guard] in G. assert (HF : Forall (fun x => meval mget (convert x n) = Some (xorb n (ev x))) es).
      { revert G. induction es as [|x r IHr]; intros G; constructor.
        - cbn in G. apply andb_true_iff in G as [G _]. apply IH, G.
        - cbn in G. apply andb_true_iff in G as [_ G]. apply IHr, G. }
      destruct es as [|x r]; [cbn [convert]; rewrite const_filter_eval; destruct n; reflexivity|].
      cbn [convert match_expr]. set (l := x :: r) in *.
      destruct n.
      + change (meval mget (MAnd (map (fun y => convert y true) l))) with
          (fold_right (fun x acc => match meval mget x, acc with Some a, Some b => Some (a && b) | _, _ => None end) (Some true) (map (fun y => convert y true) l)).
        rewrite and_fold by exact HF. rewrite forallb_neg. destruct (existsb ev l); reflexivity.
      + change (meval mget (MOr (map (fun y => convert y false) l))) with
          (fold_right (fun x acc => match meval mget x, acc with Some a, Some b => Some (a || b) | _, _ => None end) (Some false) (map (fun y => convert y false) l)).
        rewrite or_fold by exact HF. rewrite existsb_id. destruct (existsb ev l); reflexivity.
    - cbn [convert guard match_expr] in *. rewrite IH by exact G. destruct n, (ev x); reflexivity.
    - cbn [convert match_expr]. rewrite const_filter_eval. destruct n; reflexivity.
  Qed.
End Filters.
