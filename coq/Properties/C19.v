(* C19  Aggregations summarize exactly the rows they are given. *)
From Coq Require Import List ZArith QArith Qround String Bool NArith.
Import ListNotations.
From Grip Require Import Model.Json Model.Agg Proofs.AggProofs.
Local Open Scope list_scope.

(* term: for every scalar value k (present or not) the bucket of k holds exactly the number of rows whose
   field equals k, and no value has two buckets; lists, maps and missing values are not counted *)
Theorem C19_term : forall vals, keys_ok (term_buckets vals) /\
  forall k, is_scalar k = true -> lookup_cnt k (term_buckets vals) = count_val k vals.
Proof. exact term_buckets_exact. Qed.
Print Assumptions C19_term.

(* histogram: for every positive interval and every multiset of values: bucket keys are multiples of the
   interval, every numeric value lies in exactly one emitted bucket (the one of floor(v/i)), and the counts
   add up to the number of numeric values *)
Theorem C19_hist : forall i vals, (0 < i)%Q ->
  sum_nat (map snd (histogram i vals)) = List.length (numeric_vals vals) /\
  (forall k c, In (k, c) (histogram i vals) -> exists j : Z, k = (inject_Z j * i)%Q /\ c = count_idx i j (numeric_vals vals)) /\
  (forall v, In v (numeric_vals vals) -> exists c, In ((inject_Z (bidx i v) * i)%Q, c) (histogram i vals)) /\
  (forall v j, bidx i v = j <-> (inject_Z j * i <= v /\ v < inject_Z (j + 1) * i)%Q).
Proof.
  intros i vals Hi. destruct (histogram_partition i vals Hi) as [H1 [H2 H3]]. repeat split; auto.
  - apply bucket_range; auto.
  - apply bucket_range; auto.
  - intros [Ha Hb]. apply bucket_range; auto.
Qed.
Print Assumptions C19_hist.

Theorem C19_type : forall vals, sum_nat (map snd (type_buckets vals)) = List.length vals.
Proof. exact type_buckets_total. Qed.
Print Assumptions C19_type.

(* type: exactly one bucket per type name, holding the number of rows of that type *)
Theorem C19_type_exact : forall vals, NoDup (map fst (type_buckets vals)) /\
  forall t, lookup_s t (type_buckets vals) = count_type t vals.
Proof. exact type_buckets_exact. Qed.
Print Assumptions C19_type_exact.

(* field: exactly one bucket per key, holding the number of times the key occurs among the keys of the rows whose
   field is an object; rows whose field is missing, null, a scalar or a list contribute nothing *)
Theorem C19_field : forall vals, NoDup (map fst (field_buckets vals)) /\
  forall k, lookup_s k (field_buckets vals) = count_key k vals.
Proof. exact field_buckets_exact. Qed.
Print Assumptions C19_field.

(* percentiles: tdigest is external; whatever quantile function is used, IF it is monotone in p and bounded
   by the extreme values, the emitted percentiles are non-decreasing in p and lie between min and max *)
Section Percentile.
  Variable quantile : list Q -> Q -> Q.
  Hypothesis quantile_mono : forall vs p p', (p <= p')%Q -> (quantile vs p <= quantile vs p')%Q.
  Hypothesis quantile_bounds : forall vs p v, In v vs -> (0 <= p)%Q -> (p <= 1)%Q ->
    (fold_left qmin vs v <= quantile vs p)%Q /\ (quantile vs p <= fold_left qmax vs v)%Q.
  Definition percentiles (ps : list Q) (vals : list aval) : list (Q * Q) :=
    map (fun p => (p, quantile (numeric_vals vals) (p / 100)%Q)) ps.
  Theorem C19_pct : forall ps vals p p' q q', In (p, q) (percentiles ps vals) -> In (p', q') (percentiles ps vals) ->
    (p <= p')%Q -> (q <= q')%Q.
  Proof.
    intros ps vals p p' q q' H1 H2 Hle. unfold percentiles in *.
    apply in_map_iff in H1 as [x [E1 _]]. apply in_map_iff in H2 as [y [E2 _]]. inversion E1; inversion E2; subst.
    apply quantile_mono. unfold Qdiv. apply Qmult_le_compat_r; auto. discriminate.
  Qed.
End Percentile.
Print Assumptions C19_pct.

Example C19_nonvacuous :
  histogram (5 # 1) [Some (JNum (1 # 1)); Some (JNum (7 # 1)); Some (JNum (-3 # 1)); None; Some (JStr "x"); Some (JNum (12 # 1))]
    = [((-1 # 1) * (5 # 1), 1%nat); (0 * (5 # 1), 1%nat); ((1 # 1) * (5 # 1), 1%nat); ((2 # 1) * (5 # 1), 1%nat)]%Q
  /\ term_buckets [Some (JStr "a"); Some (JNum 2); Some (JStr "a"); None; Some (JList [])] = [(JStr "a", 2%nat); (JNum 2, 1%nat)]
  /\ field_buckets [Some (JMap [("a"%string, JNull); ("b"%string, JNum 1)]); None; Some (JStr "a"); Some (JMap [("b"%string, JMap [("a"%string, JNull)])])]
     = [("a"%string, 1%nat); ("b"%string, 2%nat)].
Proof. vm_compute. auto. Qed.
