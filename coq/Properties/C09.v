(* C09  Secondary-index answers equal a scan of the live documents.
   Proved here (all inputs):
     - C09_encoding_order: the 8-byte big-endian encoding of numeric terms orders keys exactly as the
       64-bit patterns are ordered, so a key-ordered scan of a field's numeric entries is a pattern-ordered scan;
     - C09_numbers_ascending: on ANY pattern-sorted entry list of finite numbers the two-phase scan of
       FieldNumbers (negatives backwards, then non-negatives forwards) outputs every entry exactly once in
       ascending NUMERIC order;
     - C09_min / C09_max: the sign-aware scans of FieldTermNumberMin / Max return the least / greatest value.
   History level (every operation sequence, by induction over the history with a refinement relation between
   the index state and the set of live documents):
     - C09_scan_guarded: on every history that never adds a live document id again, term matches and the term
       list of every field equal the brute-force answers over the live documents, after every prefix;
     - C09_counts_guarded: when additionally every document has at most one value per field (it is a map in the
       implementation), FieldTermCounts reports exactly the brute-force (term, count) pairs;
     - C09_numeric_guarded: under the same guards and for finite values, FieldNumbers is exactly the ascending
       list of the live values and Min / Max are its first / last element.
     - C09_range_guarded: under the same guards FieldTermNumberRange(lo, hi) with a non-negative lower bound
       returns exactly the brute-force buckets of the values in [lo, hi).
   The unguarded statement C09_scan_full is false on the pinned code (C09_scan_full_refuted: adding a live
   document id again leaves the old entries, known finding 5); numeric ranges with a negative lower bound
   are known finding 6 and are compared by the correspondence only. *)
From Coq Require Import List NArith Bool Arith Sorted Permutation.
Import ListNotations.
From Grip Require Import Model.Bytes Model.KVIndex Proofs.KVIndexProofs Proofs.KVIndexRefine Proofs.KVIndexNumeric.

Theorem C09_encoding_order : forall a b, (a < 2 ^ 64)%N -> (b < 2 ^ 64)%N ->
  bcmp (be 8 a) (be 8 b) = N.compare a b.
Proof. intros a b Ha Hb. apply be_order; simpl; assumption. Qed.
Print Assumptions C09_encoding_order.

Theorem C09_numbers_ascending : forall L, StronglySorted ple L -> Forall (fun x => finite (fst x) = true) L ->
  StronglySorted fle (numbers_of L) /\ Permutation (numbers_of L) (map fst L).
Proof. exact numbers_of_sorted. Qed.
Print Assumptions C09_numbers_ascending.

Theorem C09_min : forall L, L <> [] -> StronglySorted ple L -> Forall (fun x => finite (fst x) = true) L ->
  In (min_of L) (map fst L) /\ forall p, In p (map fst L) -> fle (min_of L) p.
Proof. exact min_of_least. Qed.
Print Assumptions C09_min.

Theorem C09_max : forall L, L <> [] -> StronglySorted ple L -> Forall (fun x => finite (fst x) = true) L ->
  In (max_of L) (map fst L) /\ forall p, In p (map fst L) -> fle p (max_of L).
Proof. exact max_of_greatest. Qed.
Print Assumptions C09_max.

(* the model's queries are these functions applied to the sorted numeric entries of the field *)
Theorem C09_model_uses_sorted_entries : forall s f,
  q_numbers s f = numbers_of (nums s f) /\ q_min s f = min_of (nums s f) /\ q_max s f = max_of (nums s f) /\
  StronglySorted ple (nums s f).
Proof. intros s f. repeat split. apply pd_sort_sorted. Qed.
Print Assumptions C09_model_uses_sorted_entries.

(* full statement (kept visible): every query of every history equals the brute-force answer *)
Definition C09_scan_full : Prop := forall ops f t,
  same_set (q_match (irun ops) f t) (b_match (sp_run ops) f t) /\
  same_set (q_terms (irun ops) f) (b_terms (sp_run ops) f).
(* refuted for the pinned code by replacing a live document (known finding 5) *)
Theorem C09_scan_full_refuted : ~ C09_scan_full.
Proof.
  intros H. destruct (H [IAddField 1; IAddDoc 2 [(1, TN 5)]; IAddDoc 2 [(1, TN 7)]]%N 1%N (TN 5%N)) as [H1 _].
  specialize (H1 2%N). vm_compute in H1. destruct H1 as [H1 _]. destruct (H1 (or_introl eq_refl)).
Qed.
Print Assumptions C09_scan_full_refuted.

(* ---------- history level ---------- *)
Theorem C09_scan_guarded : forall ops, fresh_adds ops = true -> forall f t,
  same_set (q_match (irun ops) f t) (b_match (sp_run ops) f t) /\
  same_set (q_terms (irun ops) f) (b_terms (sp_run ops) f).
Proof.
  intros ops H f t. pose proof (refinement ops H) as HR. split; [apply match_refines | apply terms_refines]; exact HR.
Qed.
Print Assumptions C09_scan_guarded.

Theorem C09_counts_guarded : forall ops, fresh_adds ops = true -> wf_ops ops = true -> forall f,
  same_set (q_counts (irun ops) f) (b_counts (sp_run ops) f).
Proof. intros ops H1 H2 f. destruct (refinement_wf ops H1 H2) as [HR HW]. apply counts_exact; assumption. Qed.
Print Assumptions C09_counts_guarded.

Theorem C09_numeric_guarded : forall ops, fresh_adds ops = true -> wf_ops ops = true -> forall f,
  Forall (fun p => finite p = true) (b_nums (sp_run ops) f) ->
  q_numbers (irun ops) f = b_numbers (sp_run ops) f /\
  (forall m, b_min (sp_run ops) f = Some m -> q_min (irun ops) f = m) /\
  (forall m, b_max (sp_run ops) f = Some m -> q_max (irun ops) f = m).
Proof.
  intros ops H1 H2 f HF. destruct (refinement_wf ops H1 H2) as [HR HW].
  refine (conj _ (conj _ _)); [apply numbers_exact | intros m; apply min_exact | intros m; apply max_exact]; assumption.
Qed.
Print Assumptions C09_numeric_guarded.

(* numeric ranges [lo, hi) whose lower bound is not negative (a negative lower bound is known finding 6) *)
Theorem C09_range_guarded : forall ops, fresh_adds ops = true -> wf_ops ops = true -> forall f lo hi,
  Forall (fun p => finite p = true) (b_nums (sp_run ops) f) -> finite lo = true -> finite hi = true -> f_neg lo = false ->
  q_range (irun ops) f lo hi = b_range (sp_run ops) f lo hi.
Proof. intros ops H1 H2 f lo hi HF Flo Fhi Hn. destruct (refinement_wf ops H1 H2) as [HR HW]. apply range_exact; assumption. Qed.
Print Assumptions C09_range_guarded.

(* the guards are met by a history with two fields, removal and re-insertion of a document, removal of a
   field, negative and positive values; and its answers are not empty *)
Example C09_guard_nonvacuous :
  let ops := [IAddField 1; IAddField 2; IAddDoc 7 [(1, TN 4617315517961601024); (2, TS 3)];
              IAddDoc 8 [(1, TN 13837309855095848960); (2, TS 3)]; IRemoveDoc 7; ICounts 2;
              IAddDoc 7 [(1, TN 0); (2, TS 4)]; IAddDoc 9 [(1, TN 4617315517961601024)]; IRemoveField 2; IAddField 2;
              IAddDoc 10 [(2, TS 3)]]%N in
  fresh_adds ops = true /\ wf_ops ops = true /\ forallb finite (b_nums (sp_run ops) 1%N) = true /\
  q_numbers (irun ops) 1%N = [13837309855095848960; 0; 4617315517961601024]%N /\
  q_match (irun ops) 2%N (TS 3%N) = [10%N] /\
  finite 4607182418800017408%N = true /\ f_neg 0%N = false /\
  q_range (irun ops) 1%N 0%N 4607182418800017408%N = [(0%N, 1%nat)] /\
  q_range (irun ops) 1%N 0%N 4617315517961601025%N = [(0%N, 1%nat); (4617315517961601024%N, 1%nat)].
Proof. vm_compute. auto 10. Qed.

(* the 0 / -5 witness of the Max defect repaired by the fix: commit: the fixed scan returns 0 *)
Example C09_max_zero_negative :
  max_of [(0, 1); (13837309855095848960, 2)]%N = 0%N /\ min_of [(0, 1); (13837309855095848960, 2)]%N = 13837309855095848960%N.
Proof. vm_compute. auto. Qed.
