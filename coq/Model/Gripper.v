(* Gripper (property C15): the read-only graph gripper/graph.go exposes over external tables.
   A mapping sends vertex tables to (id prefix, label) and link tables to (from prefix, to prefix, label,
   from field, to field). *)
From Coq Require Import List String Bool.
Import ListNotations.
From Grip Require Import Model.Json Model.Has Model.Traversal.
Local Open Scope string_scope.

Definition row := (string * list (string * jv))%type.            (* row id, fields *)
Record vmap := { vm_prefix : string; vm_label : string; vm_table : string }.
Record emap := { em_from : string; em_to : string; em_label : string; em_table : string;
                 em_from_field : string; em_to_field : string }.
Record mapping := { m_tables : list (string * list row); m_vertices : list vmap; m_edges : list emap }.

Definition table_rows (m : mapping) (t : string) : list row :=
  match find (fun p => String.eqb (fst p) t) (m_tables m) with Some p => snd p | None => [] end.
(* getFieldString: the field is present and holds a string *)
Definition field_string (r : row) (f : string) : option string :=
  match map_get (snd r) f with Some (JStr s) => Some s | _ => None end.

Definition vertex_of (vm : vmap) (r : row) : vrec :=
  {| v_id := vm_prefix vm ++ fst r; v_label := vm_label vm; v_data := snd r |}.
Definition edge_of (em : emap) (r : row) : list erec :=
  match field_string r (em_from_field em), field_string r (em_to_field em) with
  | Some f, Some t =>
      if String.eqb f "" || String.eqb t "" then []
      else [{| ed_id := em_from em ++ f ++ "-" ++ em_label em ++ "-" ++ em_to em ++ t; ed_label := em_label em;
               ed_from := em_from em ++ f; ed_to := em_to em ++ t; ed_data := snd r |}]
  | _, _ => []
  end.

(* the graph the mapping describes *)
Definition materialise (m : mapping) : graph :=
  {| gv := flat_map (fun vm => map (vertex_of vm) (table_rows m (vm_table vm))) (m_vertices m);
     ge := flat_map (fun em => flat_map (edge_of em) (table_rows m (em_table em))) (m_edges m) |}.

(* the driver's own plan for V().hasLabel(ls): read only the tables mapped to one of the labels *)
Definition label_scan (m : mapping) (ls : list string) : list vrec :=
  flat_map (fun vm => if mem_str (vm_label vm) ls then map (vertex_of vm) (table_rows m (vm_table vm)) else []) (m_vertices m).
Definition edge_label_scan (m : mapping) (ls : list string) : list erec :=
  flat_map (fun em => if mem_str (em_label em) ls then flat_map (edge_of em) (table_rows m (em_table em)) else []) (m_edges m).

Definition valid_link (em : emap) (r : row) : bool :=
  match field_string r (em_from_field em), field_string r (em_to_field em) with
  | Some f, Some t => negb (String.eqb f "") && negb (String.eqb t "")
  | _, _ => false
  end.
