(* Byte-level key encoding of kvgraph/keys.go and kvindex/keys.go (property C16):
   a key is its components joined with 0x00, a parser splits at every 0x00. *)
From Coq Require Import List NArith Bool.
Import ListNotations.
From Grip Require Import Model.Bytes.

Fixpoint join (ps : list bytes) : bytes :=          (* bytes.Join(parts, []byte{0}) *)
  match ps with
  | [] => []
  | [p] => p
  | p :: rest => p ++ 0%N :: join rest
  end.

Fixpoint split0 (b : bytes) : list bytes :=          (* bytes.Split(key, []byte{0}) *)
  match b with
  | [] => [[]]
  | x :: r => if N.eqb x 0 then [] :: split0 r
              else match split0 r with h :: t => (x :: h) :: t | [] => [[x]] end
  end.

Definition nonul (p : bytes) : bool := forallb (fun x => negb (N.eqb x 0)) p.

(* key constructors: the family tag is the first component *)
Definition tag_g : bytes := [103]%N.  (* "g" *)
Definition tag_v : bytes := [118]%N.  (* "v" *)
Definition tag_e : bytes := [101]%N.  (* "e" *)
Definition tag_s : bytes := [115]%N.  (* "s" *)
Definition tag_d : bytes := [100]%N.  (* "d" *)
Definition etype1 : bytes := [1]%N.   (* edgeSingle *)

Definition graph_key (g : bytes) := join [tag_g; g].
Definition vertex_key (g v : bytes) := join [tag_v; g; v].
Definition edge_key (g e s d l : bytes) := join [tag_e; g; e; s; d; l; etype1].
Definition src_key (g s d e l : bytes) := join [tag_s; g; s; d; e; l; etype1].
Definition dst_key (g s d e l : bytes) := join [tag_d; g; d; s; e; l; etype1].
(* the prefixes used to address one element / one graph: trailing empty component = trailing 0x00 *)
Definition vertex_list_prefix (g : bytes) := join [tag_v; g; []].
Definition edge_list_prefix (g : bytes) := join [tag_e; g; []].
Definition edge_key_prefix (g e : bytes) := join [tag_e; g; e; []].
Definition src_edge_prefix (g v : bytes) := join [tag_s; g; v; []].
Definition dst_edge_prefix (g v : bytes) := join [tag_d; g; v; []].

(* ---------- consistency of a set of keys (the crash clause of C04, evaluated on the keys of a real store) ----------
   every by-source and by-destination entry names an edge record that exists, and every edge record has both entries *)
Definition has_key (ks : list bytes) (k : bytes) : bool := existsb (beqb k) ks.
Definition key_consistent (ks : list bytes) (k : bytes) : bool :=
  match split0 k with
  | [t; g; a; b; c; l; _] =>
      if beqb t tag_e then has_key ks (src_key g b c a l) && has_key ks (dst_key g b c a l)      (* e|g|id|src|dst|label *)
      else if beqb t tag_s then has_key ks (edge_key g c a b l)                                  (* s|g|src|dst|id|label *)
      else if beqb t tag_d then has_key ks (edge_key g c b a l)                                  (* d|g|dst|src|id|label *)
      else true
  | _ => true
  end.
Definition keys_consistent (ks : list bytes) : bool := forallb (key_consistent ks) ks.

(* validation (gripql/util.go, after the NUL fix and the control-character / backtick fix) *)
Definition forbidden : bytes :=   (* the punctuation list of gripql/util.go:validate, as byte values *)
  [33;64;35;36;37;94;38;42;40;41;43;61;123;125;91;93;32;58;59;34;39;44;46;60;62;63;47;92;124;126;96]%N.
Definition valid_name_b (k : bytes) : bool :=
  nonul k && forallb (fun x => negb (existsb (N.eqb x) forbidden) && negb (N.ltb x 32) && negb (N.eqb x 127)) k &&
  match k with x :: _ => negb (N.eqb x 95) && negb (N.eqb x 45) | [] => true end.
Definition valid_id_b (k : bytes) : bool := negb (match k with [] => true | _ => false end) && nonul k.

(* ---------- kvindex/keys.go: the label index (string terms) ---------- *)
Definition tag_i : bytes := [105]%N.   (* "i": entries *)
Definition tag_t : bytes := [116]%N.   (* "t": terms *)
Definition ttype_string : bytes := [1]%N.
(* i | field | type | term | docid *)
Definition entry_key (field term doc : bytes) := join [tag_i; field; ttype_string; term; doc].
(* t | field | type | term *)
Definition term_key (field term : bytes) := join [tag_t; field; ttype_string; term].
(* the scan of one term's entries: i | field | type | term | (empty) *)
Definition entry_value_prefix (field term : bytes) := join [tag_i; field; ttype_string; term; []].
(* all entries / all terms of one field *)
Definition entry_prefix (field : bytes) := join [tag_i; field; []].
Definition term_prefix (field : bytes) := join [tag_t; field; []].
