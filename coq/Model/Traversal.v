(* GripQL traversals over an abstract graph (properties C01, C02, C06, C11, C15).
   The graph is the abstract graph a store denotes (C03_observe): vertices and edges as records, adjacency by
   comparison of endpoints -- dangling endpoints, self loops and parallel edges are just data.

   Anchors: engine/core/compile.go (StatementProcessor = type_step, Validate), engine/core/processors.go
   (one function per Process), gdbi/traveler.go (AddCurrent / AddMark), jsonpath/jsonpath.go (look, fields,
   render), engine/pipeline/pipes.go (Convert = row_of). *)
From Coq Require Import List ZArith QArith String Ascii Bool NArith.
Import ListNotations.
From Grip Require Import Model.Bytes Model.Keys Model.Json Model.Has.
Local Close Scope Q_scope.
Local Open Scope string_scope.
Local Open Scope list_scope.

(* ---------- graph ---------- *)
Record vrec := { v_id : string; v_label : string; v_data : list (string * jv) }.
Record erec := { ed_id : string; ed_label : string; ed_from : string; ed_to : string; ed_data : list (string * jv) }.
Record graph := { gv : list vrec; ge : list erec }.

Definition velem (v : vrec) : element := {| e_gid := v_id v; e_label := v_label v; e_from := ""; e_to := ""; e_data := v_data v |}.
Definition eelem (e : erec) : element := {| e_gid := ed_id e; e_label := ed_label e; e_from := ed_from e; e_to := ed_to e; e_data := ed_data e |}.
Definition mem_str (x : string) (l : list string) : bool := existsb (String.eqb x) l.
Definition lbl_ok (ls : list string) (l : string) : bool := match ls with [] => true | _ => mem_str l ls end.
Definition find_vertex (g : graph) (id : string) : option vrec := find (fun v => String.eqb id (v_id v)) (gv g).
Definition find_edge (g : graph) (id : string) : option erec := find (fun e => String.eqb id (ed_id e)) (ge g).

(* ---------- travelers ---------- *)
Inductive pstep := PVertex (id : string) | PEdge (id : string) | PEmpty.
Record trav := {
  t_cur : option element;                 (* None: no current element (null traveler, or a count/render/selection row) *)
  t_marks : list (string * element);
  t_path : list pstep;
  t_count : N;
  t_render : option jv;
  t_sel : option (list (string * option element))
}.
Definition t0 : trav := {| t_cur := None; t_marks := []; t_path := []; t_count := 0; t_render := None; t_sel := None |}.

Definition path_entry (r : option element) : pstep :=
  match r with
  | None => PEmpty
  | Some e => if String.eqb (e_to e) "" then PVertex (e_gid e) else PEdge (e_gid e)
  end.
(* AddCurrent *)
Definition add_current (t : trav) (r : option element) : trav :=
  {| t_cur := r; t_marks := t_marks t; t_path := t_path t ++ [path_entry r]; t_count := 0; t_render := None; t_sel := None |}.
Definition set_assoc {V} (k : string) (v : V) (l : list (string * V)) : list (string * V) :=
  (k, v) :: filter (fun x => negb (String.eqb k (fst x))) l.
Definition del_assoc {V} (k : string) (l : list (string * V)) : list (string * V) :=
  filter (fun x => negb (String.eqb k (fst x))) l.
Definition get_assoc {V} (k : string) (l : list (string * V)) : option V :=
  option_map snd (find (fun x => String.eqb k (fst x)) l).

Definition empty_elem : element := {| e_gid := ""; e_label := ""; e_from := ""; e_to := ""; e_data := [] |}.
(* TravelerPathLookup: the document of the namespace (a missing mark or current reads as an empty element) *)
Definition doc_of (t : trav) (path : string) : element :=
  match namespace path with
  | None => match t_cur t with Some e => e | None => empty_elem end
  | Some m => match get_assoc m (t_marks t) with Some e => e | None => empty_elem end
  end.
Definition dict_of (e : element) : jv :=
  JMap [("gid", JStr (e_gid e)); ("label", JStr (e_label e)); ("to", JStr (e_to e)); ("from", JStr (e_from e));
        ("data", JMap (e_data e))].
Definition lookup_raw (t : trav) (path : string) : option jv :=
  match json_path path with
  | [] => Some (dict_of (doc_of t path))
  | p => dig (dict_of (doc_of t path)) p
  end.
Definition look (t : trav) (path : string) : option jv :=
  match lookup_raw t path with Some JNull => None | x => x end.
Definition path_exists (t : trav) (path : string) : bool :=
  match json_path path with [] => false | p => match dig (dict_of (doc_of t path)) p with Some _ => true | None => false end end.

(* ---------- statements ---------- *)
Inductive stmt :=
| SV (ids : list string) | SE (ids : list string)
| SIn (ls : list string) | SOut (ls : list string) | SBoth (ls : list string)
| SInE (ls : list string) | SOutE (ls : list string) | SBothE (ls : list string)
| SInNull (ls : list string) | SOutNull (ls : list string) | SInENull (ls : list string) | SOutENull (ls : list string)
| SHas (e : hexpr) | SHasLabel (ls : list string) | SHasId (ids : list string) | SHasKey (ks : list string)
| SAs (name : string) | SSelect (names : list string)
| SFields (ks : list string) | SRender (template : jv) | SPath | SUnwind (f : string)
| SDistinct (fs : list string) | SCount | SLimit (n : N) | SSkip (n : N) | SRange (a b : Z).

Definition is_null_move (s : stmt) : bool :=
  match s with SInNull _ | SOutNull _ | SInENull _ | SOutENull _ => true | _ => false end.

(* ---------- static typing (compile.go) ---------- *)
Inductive dtype := DNone | DVertex | DEdge | DCount | DAgg | DSel | DRender | DPath.
Definition dtype_eqb (a b : dtype) : bool :=
  match a, b with DNone, DNone | DVertex, DVertex | DEdge, DEdge | DCount, DCount | DAgg, DAgg | DSel, DSel
  | DRender, DRender | DPath, DPath => true | _, _ => false end.
Definition is_elem (d : dtype) : bool := match d with DVertex | DEdge => true | _ => false end.
Definition tstate := (dtype * list (string * dtype))%type.

Definition reserved_names : list string := ["_gid"; "_label"; "_to"; "_from"; "_data"].
Definition valid_mark (n : string) : bool :=
  negb (String.eqb n "") && negb (mem_str n reserved_names) && valid_name_b (bytes_of_string n)
  && negb (String.eqb n "__current__").

Definition type_step (ts : tstate) (s : stmt) : option tstate :=
  let '(d, mt) := ts in
  match s with
  | SV _ => if dtype_eqb d DNone then Some (DVertex, mt) else None
  | SE _ => if dtype_eqb d DNone then Some (DEdge, mt) else None
  | SIn _ | SOut _ | SBoth _ | SInNull _ | SOutNull _ => if is_elem d then Some (DVertex, mt) else None
  | SInE _ | SOutE _ | SBothE _ | SInENull _ | SOutENull _ => if dtype_eqb d DVertex then Some (DEdge, mt) else None
  | SHas _ => if is_elem d then Some ts else None
  | SHasLabel l | SHasId l | SHasKey l => if is_elem d && negb (match l with [] => true | _ => false end) then Some ts else None
  | SAs n => if negb (dtype_eqb d DNone) && valid_mark n then Some (d, set_assoc n d mt) else None
  | SSelect ns =>
      if is_elem d then
        match ns with
        | [] => None
        | [m] => Some (match get_assoc m mt with Some x => x | None => DNone end, mt)
        | _ => Some (DSel, mt)
        end
      else None
  | SFields _ => if is_elem d then Some ts else None
  | SRender _ => if is_elem d then Some (DRender, mt) else None
  | SPath => if is_elem d then Some (DPath, mt) else None
  | SUnwind _ => if is_elem d then Some ts else None
  | SDistinct _ => if is_elem d then Some ts else None
  | SCount => Some (DCount, mt)
  | SLimit _ | SSkip _ | SRange _ _ => Some ts
  end.

Fixpoint type_from (ts : tstate) (p : list stmt) : option tstate :=
  match p with [] => Some ts | s :: r => match type_step ts s with Some ts' => type_from ts' r | None => None end end.
(* Validate: the first statement must be V or E; an empty program compiles to an empty pipeline *)
Definition type_of (p : list stmt) : option tstate :=
  match p with
  | [] => Some (DNone, [])
  | SV _ :: _ | SE _ :: _ => type_from (DNone, []) p
  | _ => None
  end.

(* ---------- dynamic semantics: one function per processor, lists of travelers in, lists out ---------- *)
Definition cur_id (t : trav) : string := match t_cur t with Some e => e_gid e | None => "" end.

Definition out_of (g : graph) (ls : list string) (t : trav) : list trav :=
  match t_cur t with
  | None => []
  | Some c =>
      flat_map (fun e => if String.eqb (ed_from e) (e_gid c) && lbl_ok ls (ed_label e)
                         then match find_vertex g (ed_to e) with Some v => [add_current t (Some (velem v))] | None => [] end
                         else []) (ge g)
  end.
Definition in_of (g : graph) (ls : list string) (t : trav) : list trav :=
  match t_cur t with
  | None => []
  | Some c =>
      flat_map (fun e => if String.eqb (ed_to e) (e_gid c) && lbl_ok ls (ed_label e)
                         then match find_vertex g (ed_from e) with Some v => [add_current t (Some (velem v))] | None => [] end
                         else []) (ge g)
  end.
(* from an edge: its endpoint vertex, whatever the labels *)
Definition edge_to (g : graph) (t : trav) : list trav :=
  match t_cur t with
  | Some c => match find_vertex g (e_to c) with Some v => [add_current t (Some (velem v))] | None => [] end
  | None => []
  end.
Definition edge_from (g : graph) (t : trav) : list trav :=
  match t_cur t with
  | Some c => match find_vertex g (e_from c) with Some v => [add_current t (Some (velem v))] | None => [] end
  | None => []
  end.
Definition oute_of (g : graph) (ls : list string) (t : trav) : list trav :=
  match t_cur t with
  | None => []
  | Some c => flat_map (fun e => if String.eqb (ed_from e) (e_gid c) && lbl_ok ls (ed_label e)
                                 then [add_current t (Some (eelem e))] else []) (ge g)
  end.
Definition ine_of (g : graph) (ls : list string) (t : trav) : list trav :=
  match t_cur t with
  | None => []
  | Some c => flat_map (fun e => if String.eqb (ed_to e) (e_gid c) && lbl_ok ls (ed_label e)
                                 then [add_current t (Some (eelem e))] else []) (ge g)
  end.

(* the null-producing moves (inNull, outNull, inENull, outENull): a traveler the move leads nowhere from is kept, with no
   current element (emitNull in the drivers' Get*Channel) *)
Definition or_null (t : trav) (l : list trav) : list trav :=
  match l with [] => [add_current t None] | _ => l end.

Definition is_edge_elem (t : trav) : bool := match t_cur t with Some c => negb (String.eqb (e_to c) "") | None => false end.

(* fields(): top-level property names, "-name" excludes, _gid/_label address the element fields *)
Definition strip_dash (k : string) : bool * string :=
  match k with String c r => if Ascii.eqb c "-" then (true, r) else (false, k) | _ => (false, k) end.
Definition field_path (k : string) : list string := json_path k.
Definition apply_fields (ks : list string) (c : element) : element :=
  let ex := flat_map (fun k => let '(neg, k') := strip_dash k in if neg then [field_path k'] else []) ks in
  let inc := flat_map (fun k => let '(neg, k') := strip_dash k in if neg then [] else [field_path k']) ks in
  let excluded (p : list string) := existsb (fun q => match q, p with [a], [b] => String.eqb a b | [a; b], [a'; b'] => String.eqb a a' && String.eqb b b' | _, _ => false end) ex in
  let c1 : element :=
    match ex with
    | [] => c
    | _ => {| e_gid := if excluded ["gid"] then "" else e_gid c; e_label := if excluded ["label"] then "" else e_label c;
              e_from := if excluded ["from"] then "" else e_from c; e_to := if excluded ["to"] then "" else e_to c;
              e_data := if excluded ["data"] then [] else filter (fun kv => negb (excluded ["data"; fst kv])) (e_data c) |}
    end in
  let data1 := match ex with [] => [] | _ => e_data c1 end in
  let data2 :=
    match inc with
    | [] => data1
    | _ => flat_map (fun kv => if existsb (fun q => match q with ["data"] => true | ["data"; k] => String.eqb k (fst kv) | _ => false end) inc
                               then [kv] else []) (e_data c1)
    end in
  {| e_gid := e_gid c1; e_label := e_label c1; e_from := e_from c1; e_to := e_to c1; e_data := data2 |}.

Fixpoint render (t : trav) (fuel : nat) (tpl : jv) : jv :=
  match fuel with
  | 0 => JNull
  | S f =>
    match tpl with
    | JStr s => match look t s with Some v => v | None => JNull end
    | JMap m => JMap (map (fun kv => (fst kv, render t f (snd kv))) m)
    | JList l => JList (map (render t f) l)
    | _ => JNull
    end
  end.
Fixpoint jdepth (v : jv) : nat :=
  match v with
  | JList l => S (fold_right (fun x a => Nat.max (jdepth x) a) 0 l)
  | JMap m => S (fold_right (fun x a => Nat.max (jdepth (snd x)) a) 0 m)
  | _ => 1
  end.

(* unwind on a top-level property of the current element *)
(* maps are kept sorted by key (the harness prints them that way) *)
Fixpoint ins_key (k : string) (v : jv) (m : list (string * jv)) : list (string * jv) :=
  match m with
  | [] => [(k, v)]
  | (k', v') :: r => if String.eqb k k' then (k, v) :: r
                     else if String.ltb k k' then (k, v) :: (k', v') :: r else (k', v') :: ins_key k v r
  end.
(* safeSet below "data": the last component is set in the map the components before it lead to; where they do not lead to
   a map nothing is set *)
Fixpoint set_in (path : list string) (v : jv) (m : list (string * jv)) : list (string * jv) :=
  match path with
  | [] => m
  | [k] => ins_key k v m
  | k :: r => match map_get m k with
              | Some (JMap m') => ins_key k (JMap (set_in r v m')) m
              | _ => m
              end
  end.
Definition set_data (c : element) (ks : list string) (v : jv) : element :=
  {| e_gid := e_gid c; e_label := e_label c; e_from := e_from c; e_to := e_to c; e_data := set_in ks v (e_data c) |}.
Definition unwind_key (f : string) : option (list string) := match json_path f with "data" :: k :: r => Some (k :: r) | _ => None end.
Definition unwind_set (t : trav) (c : element) (key : option (list string)) (v : jv) : trav :=
  add_current t (Some (match key with Some k => set_data c k v | None => c end)).
Definition unwind_of (f : string) (t : trav) : list trav :=
  match t_cur t with
  | None => [t]                       (* a null traveler has nothing to unwind: passed on as it is *)
  | Some c =>
      match look t f with
      | Some (JList (x :: r)) => map (unwind_set t c (unwind_key f)) (x :: r)
      | _ => [unwind_set t c (unwind_key f) JNull]
      end
  end.

Definition dkey (fs : list string) (t : trav) : option (list jv) :=
  if forallb (path_exists t) fs then Some (map (fun f => match look t f with Some v => v | None => JNull end) fs) else None.
Fixpoint jlist_eqb (a b : list jv) : bool :=
  match a, b with [], [] => true | x :: r, y :: r' => jeq x y && jlist_eqb r r' | _, _ => false end.
Fixpoint distinct_go (fs : list string) (seen : list (list jv)) (l : list trav) : list trav :=
  match l with
  | [] => []
  | t :: r => match dkey fs t with
              | None => distinct_go fs seen r
              | Some k => if existsb (jlist_eqb k) seen then distinct_go fs seen r else t :: distinct_go fs (k :: seen) r
              end
  end.

Fixpoint range_go (a b : Z) (i : Z) (l : list trav) : list trav :=
  match l with
  | [] => []
  | t :: r => if ((a <=? i) && ((i <? b) || (b =? -1)))%Z then t :: range_go a b (i + 1)%Z r else range_go a b (i + 1)%Z r
  end.

Fixpoint dedup_str (l : list string) : list string :=
  match l with [] => [] | x :: r => if mem_str x r then dedup_str r else x :: dedup_str r end.

(* d = the static type of the incoming travelers: in/out/both dispatch on it exactly as StatementProcessor does *)
Definition step (g : graph) (d : dtype) (s : stmt) (ts : list trav) : list trav :=
  match s with
  | SV [] => flat_map (fun t => map (fun v => add_current t (Some (velem v))) (gv g)) ts
  | SV ids => flat_map (fun t => flat_map (fun i => match find_vertex g i with Some v => [add_current t (Some (velem v))] | None => [] end) ids) ts
  | SE [] => flat_map (fun t => map (fun e => add_current t (Some (eelem e))) (ge g)) ts
  | SE ids => flat_map (fun t => flat_map (fun i => match find_edge g i with Some e => [add_current t (Some (eelem e))] | None => [] end) ids) ts
  | SOut ls => match d with DEdge => flat_map (edge_to g) ts | _ => flat_map (out_of g ls) ts end
  | SIn ls => match d with DEdge => flat_map (edge_from g) ts | _ => flat_map (in_of g ls) ts end
  | SBoth ls => match d with
                | DEdge => flat_map (fun t => edge_from g t ++ edge_to g t) ts
                | _ => flat_map (fun t => in_of g ls t ++ out_of g ls t) ts
                end
  | SOutE ls => flat_map (oute_of g ls) ts
  | SInE ls => flat_map (ine_of g ls) ts
  | SBothE ls => flat_map (fun t => ine_of g ls t ++ oute_of g ls t) ts
  | SOutNull ls => match d with DEdge => flat_map (edge_to g) ts | _ => flat_map (fun t => or_null t (out_of g ls t)) ts end
  | SInNull ls => match d with DEdge => flat_map (edge_from g) ts | _ => flat_map (fun t => or_null t (in_of g ls t)) ts end
  | SOutENull ls => flat_map (fun t => or_null t (oute_of g ls t)) ts
  | SInENull ls => flat_map (fun t => or_null t (ine_of g ls t)) ts
  | SHas e => filter (fun t => match_expr (look t) e) ts
  | SHasLabel ls => filter (fun t => match t_cur t with Some c => mem_str (e_label c) ls | None => false end) ts
  | SHasId ids => filter (fun t => match t_cur t with Some c => mem_str (e_gid c) ids | None => false end) ts
  | SHasKey ks => filter (fun t => forallb (path_exists t) ks) ts
  | SAs n => map (fun t => {| t_cur := t_cur t;
                              (* AddMark(name, current): on a traveler without a current element the name is bound to nothing,
                                 also when it was bound before *)
                              t_marks := match t_cur t with Some c => set_assoc n c (t_marks t) | None => del_assoc n (t_marks t) end;
                              t_path := t_path t; t_count := 0; t_render := None; t_sel := None |}) ts
  | SSelect [m] => map (fun t => add_current t (get_assoc m (t_marks t))) ts
  | SSelect ms => map (fun t => {| t_cur := None; t_marks := []; t_path := []; t_count := 0; t_render := None;
                                   t_sel := Some (map (fun m => (m, get_assoc m (t_marks t))) ms) |}) ts
  | SFields ks => map (fun t => match t_cur t with
                                | Some c => {| t_cur := Some (apply_fields ks c); t_marks := t_marks t; t_path := [PVertex ""];
                                               t_count := 0; t_render := None; t_sel := None |}
                                | None => t end) ts
  | SRender tpl => map (fun t => {| t_cur := None; t_marks := []; t_path := []; t_count := 0;
                                    t_render := Some (render t (jdepth tpl) tpl); t_sel := None |}) ts
  | SPath => ts
  | SUnwind f => flat_map (unwind_of f) ts
  | SDistinct fs => distinct_go (match fs with [] => ["_gid"] | _ => fs end) [] ts
  | SCount => [{| t_cur := None; t_marks := []; t_path := []; t_count := N.of_nat (List.length ts); t_render := None; t_sel := None |}]
  | SLimit n => firstn (N.to_nat n) ts
  | SSkip n => skipn (N.to_nat n) ts
  | SRange a b => range_go a b 0%Z ts
  end.

(* typed execution: the type checker runs ahead of every step, as Compile does before any row is produced *)
Fixpoint run_from (g : graph) (ts : tstate) (p : list stmt) (travs : list trav) : option (tstate * list trav) :=
  match p with
  | [] => Some (ts, travs)
  | s :: r => match type_step ts s with
              | Some ts' => run_from g ts' r (step g (fst ts) s travs)
              | None => None
              end
  end.
Definition run_steps (g : graph) (p : list stmt) (travs : list trav) : list trav :=
  match run_from g (DNone, []) p travs with Some (_, out) => out | None => [] end.

(* ---------- result rows (Convert) ---------- *)
Definition elem_row (kind : string) (e : option element) : jv :=
  match e with
  | None => JMap [("type", JStr kind)]
  | Some c => if String.eqb kind "vertex"
              then JMap [("data", JMap (e_data c)); ("gid", JStr (e_gid c)); ("label", JStr (e_label c)); ("type", JStr "vertex")]
              else JMap [("data", JMap (e_data c)); ("from", JStr (e_from c)); ("gid", JStr (e_gid c)); ("label", JStr (e_label c));
                         ("to", JStr (e_to c)); ("type", JStr "edge")]
  end.
Definition prow (p : pstep) : jv :=
  match p with PVertex i => if String.eqb i "" then JMap [] else JMap [("vertex", JStr i)]
             | PEdge i => if String.eqb i "" then JMap [] else JMap [("edge", JStr i)] | PEmpty => JMap [] end.
Definition row_of (ty : tstate) (t : trav) : jv :=
  match fst ty with
  | DVertex => elem_row "vertex" (t_cur t)
  | DEdge => elem_row "edge" (t_cur t)
  | DCount => JMap [("count", JNum (Z.of_N (t_count t) # 1))]
  | DSel => JMap [("selections",
              JMap (fold_right (fun kv acc => ins_key (fst kv) (snd kv) acc) [] (flat_map (fun kv => match get_assoc (fst kv) (snd ty), snd kv with
                                        | Some DVertex, Some e => [(fst kv, elem_row "vertex" (Some e))]
                                        | Some DEdge, Some e => [(fst kv, elem_row "edge" (Some e))]
                                        | Some DVertex, None => [(fst kv, elem_row "vertex" (Some empty_elem))]
                                        | Some DEdge, None => [(fst kv, elem_row "edge" (Some empty_elem))]
                                        | _, _ => [] end)
                             (match t_sel t with Some l => l | None => [] end))))]
  | DRender => JMap [("render", match t_render t with Some v => v | None => JNull end)]
  | DPath => JMap [("path", JList (map prow (t_path t)))]
  | _ => JNull
  end.

Inductive outcome := Rejected | Rows (rows : list jv).
Definition run (g : graph) (p : list stmt) : outcome :=
  match type_of p with
  | None => Rejected
  | Some ty => match p with
               | [] => Rows []
               | _ => Rows (map (row_of ty) (run_steps g p [t0]))
               end
  end.
