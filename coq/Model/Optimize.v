(* Model of the production planner's start rewrite (property C02): engine/core/optimize.go IndexStartOptimize.

   A program that starts with V() followed by a run of filters (hasId / hasLabel / has) has
     1. every and() in that run flattened into one has() per conjunct (recursively, in place);
     2. the FIRST id filter of the run (hasId, or a has() condition on the current element's _gid) turned into
        the start V(ids) when string values can be read off it (eq with a string, within with a list of
        strings), the ids de-duplicated keeping first occurrences; that filter is dropped;
     3. otherwise the FIRST label filter likewise turned into an index lookup (LookupVertsIndex);
     4. everything else kept in place.
   The output is a list of ordinary statements plus, possibly, the index-lookup start. *)
From Coq Require Import List ZArith String Bool NArith.
Import ListNotations.
From Grip Require Import Model.Json Model.Has Model.Traversal.
Local Open Scope string_scope.
Local Open Scope list_scope.

Inductive ostmt := OS (s : stmt) | OLookup (labels : list string).

(* the field of the current element a has() key addresses: namespace "current" and a one-component path *)
Definition key_field (k : string) : option string :=
  match namespace k with
  | None => match json_path k with [f] => Some f | _ => None end
  | Some _ => None
  end.

Inductive fkind := FK_Id | FK_Label | FK_Other.
Definition fkind_eqb (a b : fkind) : bool :=
  match a, b with FK_Id, FK_Id | FK_Label, FK_Label | FK_Other, FK_Other => true | _, _ => false end.

(* None: not a filter, the scan of the leading run stops here *)
Definition kind_of (s : stmt) : option fkind :=
  match s with
  | SHasId _ => Some FK_Id
  | SHasLabel _ => Some FK_Label
  | SHas (HCond k _ _) =>
      Some (match key_field k with
            | Some f => if String.eqb f "gid" then FK_Id else if String.eqb f "label" then FK_Label else FK_Other
            | None => FK_Other
            end)
  | SHas _ => Some FK_Other
  | _ => None
  end.
Definition is_filter (s : stmt) : bool := match kind_of s with Some _ => true | None => false end.

(* and() flattening, as the repeated restart of the Go function leaves it *)
Fixpoint flat (e : hexpr) : list hexpr :=
  match e with
  | HAnd es => (fix go (l : list hexpr) : list hexpr := match l with [] => [] | x :: r => flat x ++ go r end) es
  | _ => [e]
  end.
Definition flat_stmt (s : stmt) : list stmt := match s with SHas e => map SHas (flat e) | _ => [s] end.

(* extractHasVals *)
Fixpoint all_strs (l : list jv) : option (list string) :=
  match l with
  | [] => Some []
  | JStr s :: r => match all_strs r with Some x => Some (s :: x) | None => None end
  | _ => None
  end.
Definition cond_vals (op : cop) (a : jv) : list string :=
  match op, a with
  | CEq, JStr l => [l]
  | CWithin, JList xs => match all_strs xs with Some l => l | None => [] end
  | _, _ => []
  end.
Definition stmt_vals (s : stmt) : list string :=
  match s with
  | SHasId l | SHasLabel l => l
  | SHas (HCond _ op a) => cond_vals op a
  | _ => []
  end.

(* dedupStringSlice: first occurrences, in order *)
Fixpoint dedup_first (seen : list string) (l : list string) : list string :=
  match l with
  | [] => []
  | x :: r => if mem_str x seen then dedup_first seen r else x :: dedup_first (x :: seen) r
  end.

Fixpoint span_filters (p : list stmt) : list stmt * list stmt :=
  match p with
  | s :: r => if is_filter s then let '(a, b) := span_filters r in (s :: a, b) else ([], p)
  | [] => ([], [])
  end.

(* the first statement of a kind in the run, with what precedes and follows it *)
Fixpoint split_first (k : fkind) (fs : list stmt) : option (list stmt * stmt * list stmt) :=
  match fs with
  | [] => None
  | s :: r =>
      match kind_of s with
      | Some k' => if fkind_eqb k k' then Some ([], s, r)
                   else match split_first k r with Some (a, x, b) => Some (s :: a, x, b) | None => None end
      | None => match split_first k r with Some (a, x, b) => Some (s :: a, x, b) | None => None end
      end
  end.

Definition opt_label (fs : list stmt) : list ostmt :=
  match split_first FK_Label fs with
  | Some (a, s, b) =>
      match stmt_vals s with
      | [] => map OS (SV [] :: fs)
      | ls => OLookup (dedup_first [] ls) :: map OS (a ++ b)
      end
  | None => map OS (SV [] :: fs)
  end.
Definition opt_start (fs : list stmt) : list ostmt :=
  match split_first FK_Id fs with
  | Some (a, s, b) =>
      match stmt_vals s with
      | [] => opt_label fs
      | ids => OS (SV (dedup_first [] ids)) :: map OS (a ++ b)
      end
  | None => opt_label fs
  end.

Definition optimize (p : list stmt) : list ostmt :=
  match p with
  | SV [] :: rest => let '(pre, post) := span_filters rest in opt_start (flat_map flat_stmt pre) ++ map OS post
  | _ => map OS p
  end.

(* ---------- meaning of a plan ---------- *)
Fixpoint strip (p : list ostmt) : option (list stmt) :=
  match p with
  | [] => Some []
  | OS s :: r => match strip r with Some x => Some (s :: x) | None => None end
  | OLookup _ :: _ => None
  end.
(* LookupVertsIndex: for every label, the vertices carrying it *)
Definition lookup_rows (g : graph) (ls : list string) : list trav :=
  flat_map (fun l => map (fun v => add_current t0 (Some (velem v))) (filter (fun v => String.eqb (v_label v) l) (gv g))) ls.
Definition run_plan (g : graph) (p : list ostmt) : option (tstate * list trav) :=
  match p with
  | OLookup ls :: r => match strip r with Some r' => run_from g (DVertex, []) r' (lookup_rows g ls) | None => None end
  | _ => match strip p with Some p' => run_from g (DNone, []) p' [t0] | None => None end
  end.
