(* Correspondence evaluator for C10: (driver, script, observed results). The model is the spec. *)
From Coq Require Import List NArith Bool.
Import ListNotations.
From Grip Require Export Model.Bytes Model.KV.

(* n pairs under one prefix, for scripts too long to be written out: keys p ++ [i / 256; i mod 256] for i < n, highest
   first (so that the model inserts each at the head), values one digit *)
Fixpoint gen_kvs (p : bytes) (n : nat) : list (bytes * bytes) :=
  match n with
  | 0 => []
  | S m => let i := N.of_nat m in (p ++ [N.div i 256; N.modulo i 256], [48 + N.modulo i 3])%N :: gen_kvs p m
  end.

Record c10_case := { cdrv : nat; cops : list kvop; cobs : list res }.

Definition obytes_eqb (a b : option bytes) : bool :=
  match a, b with Some x, Some y => beqb x y | None, None => true | _, _ => false end.
Definition opos_eqb (a b : option (bytes * bytes)) : bool :=
  match a, b with
  | Some (k, v), Some (k', v') => beqb k k' && beqb v v'
  | None, None => true | _, _ => false end.

Fixpoint res_eqb (a b : res) : bool :=
  match a, b with
  | RVal x, RVal y => obytes_eqb x y
  | RBool x, RBool y => Bool.eqb x y
  | RUnit, RUnit => true
  | RErr, RErr => true
  | RPos x, RPos y => opos_eqb x y
  | RList l, RList l' =>
      (fix go (l l' : list res) : bool :=
         match l, l' with
         | [], [] => true
         | x :: r, y :: r' => res_eqb x y && go r r'
         | _, _ => false
         end) l l'
  | _, _ => false
  end.

Definition c10_agrees (c : c10_case) : bool :=
  res_eqb (RList (snd (kv_run [] (cops c)))) (RList (cobs c)).

Fixpoint bad_idx {X} (ok : X -> bool) (i : nat) (l : list X) : list nat :=
  match l with [] => [] | x :: r => if ok x then bad_idx ok (S i) r else i :: bad_idx ok (S i) r end.

Definition is_pebble (c : c10_case) : bool := Nat.eqb (cdrv c) 3.
(* known finding 1: only on Pebble, only explained by "a failing Update keeps its writes" *)
Definition c10_known (c : c10_case) : bool :=
  negb (c10_agrees c) && is_pebble c && res_eqb (RList (snd (kv_run_leaky [] (cops c)))) (RList (cobs c)).

Definition mismatches (cs : list c10_case) := bad_idx (fun c => c10_agrees c || c10_known c) 0 cs.
(* the sorted-map model is the specification itself *)
Definition spec_violations (cs : list c10_case) := bad_idx (fun c => c10_agrees c || c10_known c) 0 cs.
Definition known_classes (cs : list c10_case) : list nat := if existsb c10_known cs then [1] else [].

Definition explain (c : c10_case) := (snd (kv_run [] (cops c)), snd (kv_run_leaky [] (cops c))).
