(* Proofs for Model/KVGraph.v (C03, C04). *)
From Coq Require Import List NArith Bool Arith Lia.
Import ListNotations.
From Grip Require Import Model.KVGraph.

(* ---------- equality tests ---------- *)
Lemma etup_eqb_eq a b : etup_eqb a b = true <-> a = b.
Proof.
  destruct a as [[[[g e] s] d] l], b as [[[[g' e'] s'] d'] l']. unfold etup_eqb; simpl.
  rewrite !andb_true_iff, !N.eqb_eq. split.
  - intros [[[[-> ->] ->] ->] ->]. reflexivity.
  - intros H; inversion H; auto.
Qed.
Lemma etup_eqb_refl a : etup_eqb a a = true.
Proof. now apply etup_eqb_eq. Qed.
Lemma pair_eqb_eq a b : pair_eqb a b = true <-> a = b.
Proof. destruct a, b. unfold pair_eqb; simpl. rewrite andb_true_iff, !N.eqb_eq. split; [intros [-> ->]; auto | intros H; inversion H; auto]. Qed.
Lemma fld_eqb_eq a b : fld_eqb a b = true <-> a = b.
Proof. destruct a, b. unfold fld_eqb; simpl. rewrite andb_true_iff, N.eqb_eq, Bool.eqb_true_iff.
  split; [intros [-> ->]; auto | intros H; inversion H; auto]. Qed.

(* ---------- list lemmas ---------- *)
Lemma map_fst_rmk {K V} (eqb : K -> K -> bool) k (l : list (K * V)) :
  map fst (rmk eqb k l) = rm eqb k (map fst l).
Proof. unfold rmk, rm. induction l as [|[a b] r IH]; simpl; auto. destruct (eqb k a); simpl; now rewrite IH. Qed.

Lemma map_fst_filter {K V} (p : K -> bool) (l : list (K * V)) :
  map fst (filter (fun x => p (fst x)) l) = filter p (map fst l).
Proof. induction l as [|[a b] r IH]; simpl; auto. destruct (p a); simpl; now rewrite IH. Qed.

Lemma NoDup_filter {X} (p : X -> bool) l : NoDup l -> NoDup (filter p l).
Proof. induction 1 as [|x l Hx Hl IH]; simpl; [constructor|]. destruct (p x); auto. constructor; auto.
  intros Hin. apply filter_In in Hin. tauto. Qed.

Lemma rm_not_in {X} (eqb : X -> X -> bool) (Heq : forall a b, eqb a b = true <-> a = b) x l : ~ In x (rm eqb x l).
Proof. unfold rm. intros H. apply filter_In in H as [_ H]. rewrite (proj2 (Heq x x) eq_refl) in H. discriminate. Qed.

Lemma NoDup_set {X} (eqb : X -> X -> bool) (Heq : forall a b, eqb a b = true <-> a = b) x l :
  NoDup l -> NoDup (x :: rm eqb x l).
Proof. intros H. constructor. now apply rm_not_in. now apply NoDup_filter. Qed.

(* ---------- the structural invariant: the three edge key families move together ---------- *)
Record Cons (s : gstore) : Prop := {
  C_src : srcs s = map fst (edges s);
  C_dst : dsts s = map fst (edges s);
  C_nd_e : NoDup (map fst (edges s));
  C_nd_v : NoDup (map fst (verts s))
}.

Lemma Cons_empty : Cons gempty.
Proof. constructor; simpl; auto; constructor. Qed.

(* a group of writes that treats the three families alike *)
Definition edge_group (t : etup) (d : dat) := [WSetEdge t d; WSetSrc t; WSetDst t].

Lemma Cons_set_edge s t d rest : Cons s ->
  (forall s', Cons s' -> Cons (fold_left apply_wr rest s')) ->
  Cons (fold_left apply_wr (WSetEdge t d :: WSetSrc t :: WSetDst t :: rest) s).
Proof.
  intros [H1 H2 H3 H4] Hrest. simpl. apply Hrest. constructor; simpl; auto.
  - rewrite map_fst_rmk, H1. reflexivity.
  - rewrite map_fst_rmk, H2. reflexivity.
  - rewrite map_fst_rmk. apply NoDup_set; auto. apply etup_eqb_eq.
Qed.

Lemma Cons_del_tuple s t rest : Cons s ->
  (forall s', Cons s' -> Cons (fold_left apply_wr rest s')) ->
  Cons (fold_left apply_wr (del_tuple t ++ rest) s).
Proof.
  intros [H1 H2 H3 H4] Hrest. simpl. apply Hrest. constructor; simpl; auto.
  - rewrite map_fst_rmk, H1. reflexivity.
  - rewrite map_fst_rmk, H2. reflexivity.
  - rewrite map_fst_rmk. now apply NoDup_filter.
Qed.

Lemma Cons_del_tuples ts : forall s, Cons s -> Cons (fold_left apply_wr (flat_map del_tuple ts) s).
Proof. induction ts as [|t ts IH]; intros s H; simpl flat_map; [exact H|].
  apply Cons_del_tuple; auto. Qed.

(* writes that do not touch the edge families or the vertex keys' uniqueness *)
Definition neutral (w : wr) : bool :=
  match w with
  | WSetGraph _ | WDelGraph _ | WSetField _ | WDelField _ | WDelTermsOf _ | WDelEntriesOf _
  | WSetTerm _ _ | WSetEntry _ _ _ => true
  | _ => false
  end.
Lemma Cons_neutral s w : neutral w = true -> Cons s -> Cons (apply_wr s w).
Proof. intros Hn [H1 H2 H3 H4]. destruct w; simpl in Hn; try discriminate; constructor; simpl; auto. Qed.
Lemma Cons_neutrals ws : forallb neutral ws = true -> forall s, Cons s -> Cons (fold_left apply_wr ws s).
Proof. induction ws as [|w ws IH]; simpl; intros Hn s H; auto.
  apply andb_true_iff in Hn as [Hw Hws]. apply IH; auto. now apply Cons_neutral. Qed.

Lemma Cons_set_vert s g v l d : Cons s -> Cons (apply_wr s (WSetVert g v l d)).
Proof. intros [H1 H2 H3 H4]. constructor; simpl; auto.
  rewrite map_fst_rmk. apply NoDup_set; auto. apply pair_eqb_eq. Qed.
Lemma Cons_del_vert s g v : Cons s -> Cons (apply_wr s (WDelVert g v)).
Proof. intros [H1 H2 H3 H4]. constructor; simpl; auto. rewrite map_fst_rmk. now apply NoDup_filter. Qed.

Lemma Cons_elem_writes r g x rest : forall s, Cons s ->
  (forall s', Cons s' -> Cons (fold_left apply_wr rest s')) ->
  Cons (fold_left apply_wr (elem_writes r g x ++ rest) s).
Proof.
  intros s H Hrest. destruct x as [v l d | e a b l d]; unfold elem_writes, vertex_writes, edge_writes.
  - simpl app. simpl fold_left. rewrite fold_left_app. apply Hrest.
    apply Cons_neutrals; [destruct (in_reg r (g, true)); reflexivity|]. now apply Cons_set_vert.
  - change ((WSetEdge (g, e, a, b, l) d :: WSetSrc (g, e, a, b, l) :: WSetDst (g, e, a, b, l) ::
             (if in_reg r (g, false) then [WSetEntry (g, false) l e; WSetTerm (g, false) l] else [])) ++ rest)
      with (WSetEdge (g, e, a, b, l) d :: WSetSrc (g, e, a, b, l) :: WSetDst (g, e, a, b, l) ::
             ((if in_reg r (g, false) then [WSetEntry (g, false) l e; WSetTerm (g, false) l] else []) ++ rest)).
    apply Cons_set_edge; auto. intros s' Hs'. rewrite fold_left_app. apply Hrest.
    apply Cons_neutrals; auto. destruct (in_reg r (g, false)); reflexivity.
Qed.

Lemma Cons_elem_writes0 r g x s : Cons s -> Cons (fold_left apply_wr (elem_writes r g x) s).
Proof. intros H. rewrite <- (app_nil_r (elem_writes r g x)). apply Cons_elem_writes; auto. Qed.

Lemma Cons_elems_writes r g els : forall s, Cons s -> Cons (fold_left apply_wr (flat_map (elem_writes r g) els) s).
Proof. induction els as [|x els IH]; intros s H; simpl flat_map; [exact H|].
  apply Cons_elem_writes; auto. Qed.

(* DeleteGraph issues the four prefix deletes as SEPARATE calls; Cons only holds again after all of them *)
Lemma Cons_delete_graph_calls s g : Cons s ->
  Cons (apply_calls s [[WDelEdgesOf g]; [WDelVertsOf g]; [WDelSrcsOf g]; [WDelDstsOf g]; [WDelGraph g]]).
Proof.
  intros [H1 H2 H3 H4]. unfold apply_calls, apply_call; simpl. constructor; simpl.
  - rewrite H1. rewrite (map_fst_filter (fun t => negb (N.eqb g (et_g t)))). reflexivity.
  - rewrite H2. rewrite (map_fst_filter (fun t => negb (N.eqb g (et_g t)))). reflexivity.
  - rewrite (map_fst_filter (fun t => negb (N.eqb g (et_g t)))). now apply NoDup_filter.
  - rewrite (map_fst_filter (fun t : id * id => negb (N.eqb g (fst t)))). now apply NoDup_filter.
Qed.

Lemma Cons_index_cleanup g fs : forall s, Cons s ->
  Cons (apply_calls s (flat_map (fun f : id * bool => if N.eqb (fst f) g then [[WDelTermsOf f]; [WDelEntriesOf f]; [WDelField f]] else []) fs)).
Proof. induction fs as [|f fs IH]; intros s H; simpl; auto.
  destruct (N.eqb (fst f) g); simpl; auto.
  unfold apply_calls in *. simpl. apply IH. unfold apply_call; simpl.
  destruct H as [H1 H2 H3 H4]. constructor; simpl; auto. Qed.

Theorem step_Cons m o : Cons (kv m) -> Cons (kv (fst (step m o))).
Proof.
  intros H. unfold step. destruct (op_calls m o) as [cs|] eqn:E; simpl; auto.
  destruct o; simpl in E.
  - destruct (valid_name g); inversion E; subst. unfold apply_calls, apply_call; simpl.
    destruct H as [H1 H2 H3 H4]. constructor; simpl; auto.
  - destruct (has_graph (kv m) g); inversion E; subst.
    change (Cons (apply_calls (apply_calls (kv m) [[WDelEdgesOf g]; [WDelVertsOf g]; [WDelSrcsOf g]; [WDelDstsOf g]; [WDelGraph g]])
       (flat_map (fun f : id * bool => if N.eqb (fst f) g then [[WDelTermsOf f]; [WDelEntriesOf f]; [WDelField f]] else []) (ixfields (kv m))))).
    apply Cons_index_cleanup. now apply Cons_delete_graph_calls.
  - destruct (has_graph (kv m) g && valid_vertex v l d); inversion E; subst.
    exact (Cons_elem_writes0 (reg m) g (EV v l d) (kv m) H).
  - destruct (has_graph (kv m) g && valid_edge e s t l d); inversion E; subst.
    exact (Cons_elem_writes0 (reg m) g (EE e s t l d) (kv m) H).
  - destruct (has_graph (kv m) g); inversion E; subst.
    exact (Cons_elems_writes (reg m) g (filter valid_elem els) (kv m) H).
  - destruct (has_graph (kv m) g && existsb _ _); inversion E; subst.
    exact (Cons_del_tuples (del_vertex_keys (kv m) g v) _ (Cons_del_vert (kv m) g v H)).
  - destruct (has_graph (kv m) g); [|discriminate]. destruct (del_edge_keys (kv m) g e) eqn:Ek; inversion E; subst.
    exact (Cons_del_tuples (e0 :: l) (kv m) H).
Qed.

Theorem run_Cons ops : Cons (kv (run ops)).
Proof.
  unfold run. assert (forall m, Cons (kv m) -> Cons (kv (fold_left (fun m o => fst (step m o)) ops m))) as H.
  { induction ops as [|o ops IH]; simpl; intros m Hm; auto. apply IH. now apply step_Cons. }
  apply H. apply Cons_empty.
Qed.

(* ---------- under Cons, what adjacency scans observe is a function of the edge records ---------- *)
Lemma find_in_nodup {K V} (eqb : K -> K -> bool) (Heq : forall a b, eqb a b = true <-> a = b) (l : list (K * V)) k v :
  NoDup (map fst l) -> In (k, v) l -> find (fun x => eqb k (fst x)) l = Some (k, v).
Proof. induction l as [|[a b] r IH]; simpl; intros Hnd Hin; [tauto|].
  inversion Hnd; subst. destruct Hin as [Hin|Hin].
  - inversion Hin; subst. now rewrite (proj2 (Heq k k) eq_refl).
  - destruct (eqb k a) eqn:E.
    + apply Heq in E; subst a. exfalso. apply H1. apply in_map_iff. exists (k, v). auto.
    + now apply IH.
Qed.

Theorem out_edges_from_records s g v ls : Cons s ->
  out_edges s g v ls =
  map (fun x => (fst x, Some (snd x)))
      (filter (fun x => N.eqb g (et_g (fst x)) && N.eqb v (et_s (fst x)) && lbl_ok ls (et_l (fst x))) (edges s)).
Proof.
  intros [H1 H2 H3 H4]. unfold out_edges, out_keys. rewrite H1.
  rewrite <- (map_fst_filter (fun t => N.eqb g (et_g t) && N.eqb v (et_s t) && lbl_ok ls (et_l t))).
  rewrite map_map. apply map_ext_in. intros [t d] Hin. simpl. apply filter_In in Hin as [Hin _].
  unfold edge_data. rewrite (find_in_nodup etup_eqb etup_eqb_eq (edges s) t d); auto.
Qed.

Theorem in_edges_from_records s g v ls : Cons s ->
  in_edges s g v ls =
  map (fun x => (fst x, Some (snd x)))
      (filter (fun x => N.eqb g (et_g (fst x)) && N.eqb v (et_d (fst x)) && lbl_ok ls (et_l (fst x))) (edges s)).
Proof.
  intros [H1 H2 H3 H4]. unfold in_edges, in_keys. rewrite H2.
  rewrite <- (map_fst_filter (fun t => N.eqb g (et_g t) && N.eqb v (et_d t) && lbl_ok ls (et_l t))).
  rewrite map_map. apply map_ext_in. intros [t d] Hin. simpl. apply filter_In in Hin as [Hin _].
  unfold edge_data. rewrite (find_in_nodup etup_eqb etup_eqb_eq (edges s) t d); auto.
Qed.

(* the adjacency observations of a consistent store are those of the abstract graph it denotes *)
Lemma filter_map_comm {X Y} (f : X -> Y) (p : Y -> bool) l : filter p (map f l) = map f (filter (fun x => p (f x)) l).
Proof. induction l as [|a r IH]; simpl; auto. destruct (p (f a)); simpl; now rewrite IH. Qed.

Theorem out_edges_abs s g v ls : Cons s ->
  map (fun p => abs_edge (fst p, match snd p with Some d => d | None => 0%N end)) (out_edges s g v ls)
  = a_out_edges (abs s) g v ls.
Proof.
  intros H. rewrite (out_edges_from_records s g v ls H). unfold a_out_edges, abs; simpl.
  rewrite filter_map_comm, map_map. simpl.
  assert (forall x : etup * dat, abs_edge (fst x, snd x) = abs_edge x) as Hx by (intros [a b]; reflexivity).
  erewrite map_ext by (intros; apply Hx). f_equal.
Qed.

Theorem in_edges_abs s g v ls : Cons s ->
  map (fun p => abs_edge (fst p, match snd p with Some d => d | None => 0%N end)) (in_edges s g v ls)
  = a_in_edges (abs s) g v ls.
Proof.
  intros H. rewrite (in_edges_from_records s g v ls H). unfold a_in_edges, abs; simpl.
  rewrite filter_map_comm, map_map. simpl.
  assert (forall x : etup * dat, abs_edge (fst x, snd x) = abs_edge x) as Hx by (intros [a b]; reflexivity).
  erewrite map_ext by (intros; apply Hx). f_equal.
Qed.

Theorem out_verts_abs s g v ls : Cons s -> out_verts s g v ls = a_out_verts (abs s) g v ls.
Proof.
  intros H. unfold out_verts, a_out_verts. rewrite <- (out_edges_abs s g v ls H).
  rewrite (out_edges_from_records s g v ls H). unfold out_keys. destruct H as [H1 H2 H3 H4]. rewrite H1.
  rewrite <- (map_fst_filter (fun t => N.eqb g (et_g t) && N.eqb v (et_s t) && lbl_ok ls (et_l t))).
  rewrite !map_map. f_equal.
Qed.

Theorem in_verts_abs s g v ls : Cons s -> in_verts s g v ls = a_in_verts (abs s) g v ls.
Proof.
  intros H. unfold in_verts, a_in_verts. rewrite <- (in_edges_abs s g v ls H).
  rewrite (in_edges_from_records s g v ls H). unfold in_keys. destruct H as [H1 H2 H3 H4]. rewrite H2.
  rewrite <- (map_fst_filter (fun t => N.eqb g (et_g t) && N.eqb v (et_d t) && lbl_ok ls (et_l t))).
  rewrite !map_map. f_equal.
Qed.

Theorem lists_abs s g : vertex_list s g = a_vertex_list (abs s) g /\
  map abs_edge (edge_list s g) = a_edge_list (abs s) g /\
  (forall v, get_vertex s g v = a_get_vertex (abs s) g v).
Proof. split; [reflexivity|split; [|reflexivity]].
  unfold edge_list, a_edge_list, abs; simpl. rewrite filter_map_comm. reflexivity. Qed.

(* ---------- crash consistency (C04): after any prefix of the top-level calls of a mutation,
   every adjacency key refers to an edge record and vice versa, EXCEPT inside DeleteGraph ---------- *)
Definition single_call (o : op) : bool :=
  match o with OAddGraph _ | ODeleteGraph _ => false | _ => true end.

Theorem crash_Cons m o n : Cons (kv m) -> single_call o = true -> Cons (kv (crash m o n)).
Proof.
  intros H Hs. unfold crash.
  assert (forall k, Cons k -> Cons (kv (reopen k))) as Hre.
  { intros k Hk. unfold reopen.
    assert (forall gs m0, kv m0 = k -> kv (fold_left (fun m g => touch m g k (reg m)) gs m0) = k) as Hf.
    { induction gs as [|g gs IH]; simpl; intros m0 Hm0; auto. }
    rewrite Hf; auto. }
  destruct (op_calls m o) as [cs|] eqn:E; [|now apply Hre].
  apply Hre.
  assert (exists c, cs = [c]) as [c ->].
  { destruct o; simpl in Hs; try discriminate; simpl in E;
    repeat match type of E with
    | (if ?b then _ else _) = _ => destruct b
    | match ?l with [] => _ | _ => _ end = _ => destruct l
    end; inversion E; eauto. }
  pose proof (step_Cons m o H) as Hstep. unfold step in Hstep. rewrite E in Hstep. simpl in Hstep.
  destruct n as [|n]; simpl; auto. rewrite firstn_nil. exact Hstep.
Qed.

(* acknowledged-before-crash operations are fully present: crash with n >= number of calls = no crash *)
Theorem crash_after_all m o cs : op_calls m o = Some cs ->
  kv (crash m o (length cs)) = kv (fst (step m o)).
Proof.
  intros E. unfold crash, step. rewrite E, firstn_all. simpl.
  unfold reopen.
  assert (forall k gs m0, kv m0 = k -> kv (fold_left (fun m g => touch m g k (reg m)) gs m0) = k) as Hf.
  { intros k. induction gs as [|g gs IH]; simpl; intros m0 Hm0; auto. }
  now rewrite Hf.
Qed.

(* reopening a cleanly closed database restores the registry the index needs (C04, first sentence):
   persisted field keys = in-memory registry, as sets, at every reachable state *)
Definition reg_matches (m : mstate) : Prop := forall f, in_reg (reg m) f = in_reg (ixfields (kv m)) f.

(* ---------- rejected calls change nothing; timestamps change exactly on successful mutations ---------- *)
Theorem step_reject m o : snd (step m o) = false -> fst (step m o) = m.
Proof. unfold step. destruct (op_calls m o); simpl; [discriminate|reflexivity]. Qed.

Definition TsInv (m : mstate) : Prop := forall g n, ts_of m g = Some n -> n <= clock m.

Lemma find_rmk_neq {V} g g' (l : list (id * V)) : g <> g' ->
  find (fun x => N.eqb g (fst x)) (rmk N.eqb g' l) = find (fun x => N.eqb g (fst x)) l.
Proof. intros Hne. unfold rmk. induction l as [|[a b] r IH]; simpl; auto.
  destruct (N.eqb g' a) eqn:E1; simpl.
  - apply N.eqb_eq in E1; subst a. assert (N.eqb g g' = false) as -> by now apply N.eqb_neq. exact IH.
  - destruct (N.eqb g a); auto. Qed.

Lemma ts_touch m g k r g' : ts_of (touch m g k r) g' = if N.eqb g' g then Some (S (clock m)) else ts_of m g'.
Proof. unfold ts_of, touch; simpl. destruct (N.eqb g' g) eqn:E; simpl; auto.
  apply N.eqb_neq in E. now rewrite find_rmk_neq. Qed.

Theorem step_timestamp m o g : TsInv m ->
  TsInv (fst (step m o)) /\
  (ts_of (fst (step m o)) g <> ts_of m g <-> (snd (step m o) = true /\ g = op_graph o)).
Proof.
  intros Hinv. unfold step. destruct (op_calls m o) as [cs|]; simpl.
  - split.
    + intros g' n. rewrite ts_touch. destruct (N.eqb g' (op_graph o)).
      * intros H; inversion H; subst. simpl. lia.
      * intros H. apply Hinv in H. simpl. lia.
    + rewrite ts_touch. destruct (N.eqb g (op_graph o)) eqn:E.
      * apply N.eqb_eq in E. split; auto. intros _ Heq. symmetry in Heq. apply Hinv in Heq. lia.
      * apply N.eqb_neq in E. split; [congruence|intros [_ H]; congruence].
  - split; auto. split; [congruence|intros [H _]; discriminate].
Qed.

Lemma TsInv_init : TsInv minit.
Proof. intros g n H. discriminate. Qed.

Theorem run_TsInv ops : TsInv (run ops).
Proof. unfold run.
  assert (forall m, TsInv m -> TsInv (fold_left (fun m o => fst (step m o)) ops m)) as H.
  { induction ops as [|o ops IH]; simpl; intros m Hm; auto. apply IH. apply (step_timestamp m o 0%N Hm). }
  apply H, TsInv_init. Qed.

(* ---------- reopen: a reopened database behaves as one that never stopped ---------- *)
Definition Sim (m1 m2 : mstate) : Prop := kv m1 = kv m2 /\ forall f, in_reg (reg m1) f = in_reg (reg m2) f.

Lemma in_reg_cons r f x : in_reg (f :: r) x = fld_eqb x f || in_reg r x.
Proof. reflexivity. Qed.
Lemma fld_eqb_sym a b : fld_eqb a b = fld_eqb b a.
Proof. destruct (fld_eqb a b) eqn:E1, (fld_eqb b a) eqn:E2; auto.
  - apply fld_eqb_eq in E1; subst. rewrite (proj2 (fld_eqb_eq b b) eq_refl) in E2. discriminate.
  - apply fld_eqb_eq in E2; subst. rewrite (proj2 (fld_eqb_eq a a) eq_refl) in E1. discriminate. Qed.
Lemma in_reg_filter p r x : in_reg (filter p r) x = in_reg r x && p x.
Proof. unfold in_reg. induction r as [|a r IH]; simpl; auto.
  destruct (p a) eqn:Ep; simpl; rewrite IH.
  - destruct (fld_eqb x a) eqn:E; simpl; auto. apply fld_eqb_eq in E; subst. now rewrite Ep.
  - destruct (fld_eqb x a) eqn:E; simpl; auto. apply fld_eqb_eq in E; subst. rewrite Ep. now rewrite andb_false_r. Qed.
Lemma in_reg_rm f r x : in_reg (rm fld_eqb f r) x = in_reg r x && negb (fld_eqb f x).
Proof. unfold rm. apply in_reg_filter. Qed.

Lemma elem_writes_ext r1 r2 g x : (forall f, in_reg r1 f = in_reg r2 f) -> elem_writes r1 g x = elem_writes r2 g x.
Proof. intros H. destruct x; simpl; unfold vertex_writes, edge_writes; now rewrite H. Qed.

Lemma op_calls_sim m1 m2 o : Sim m1 m2 -> op_calls m1 o = op_calls m2 o.
Proof. intros [Hk Hr]. destruct o; simpl; rewrite ?Hk; auto.
  - unfold vertex_writes. now rewrite Hr.
  - unfold edge_writes. now rewrite Hr.
  - destruct (has_graph (kv m2) g); auto. do 2 f_equal. apply flat_map_ext. intros x. now apply elem_writes_ext. Qed.

Theorem step_sim m1 m2 o : Sim m1 m2 -> Sim (fst (step m1 o)) (fst (step m2 o)) /\ snd (step m1 o) = snd (step m2 o).
Proof.
  intros HS. pose proof (op_calls_sim m1 m2 o HS) as Hc. unfold step. rewrite Hc.
  destruct (op_calls m2 o) as [cs|]; cbn [fst snd]; auto. destruct HS as [Hk Hr]. split; auto. split; cbn [kv reg touch].
  - now rewrite Hk.
  - intros f. destruct o; cbn [reg_after]; auto.
    + rewrite !in_reg_cons, !in_reg_rm, !in_reg_cons, !in_reg_rm, Hr. reflexivity.
    + rewrite !in_reg_filter, Hr, Hk. reflexivity.
Qed.

Definition RegEq (m : mstate) : Prop := forall f, in_reg (reg m) f = in_reg (ixfields (kv m)) f.

Lemma ixfields_neutral ws : forallb (fun w => match w with WSetField _ | WDelField _ => false | _ => true end) ws = true ->
  forall s, ixfields (fold_left apply_wr ws s) = ixfields s.
Proof. induction ws as [|w ws IH]; simpl; intros H s; auto. apply andb_true_iff in H as [Hw Hws].
  rewrite IH; auto. destruct w; simpl in *; auto; discriminate. Qed.

Lemma no_field_writes_elems r g els :
  forallb (fun w => match w with WSetField _ | WDelField _ => false | _ => true end) (flat_map (elem_writes r g) els) = true.
Proof. induction els as [|x els IH]; simpl; auto. rewrite forallb_app, IH, andb_true_r.
  destruct x; simpl; unfold vertex_writes, edge_writes; simpl;
  match goal with |- context [in_reg ?a ?b] => destruct (in_reg a b) end; reflexivity. Qed.

Lemma no_field_writes_del ts :
  forallb (fun w => match w with WSetField _ | WDelField _ => false | _ => true end) (flat_map del_tuple ts) = true.
Proof. induction ts; simpl; auto. Qed.

Lemma ixfields_cleanup g fs : forall s,
  (forall x, in_reg (ixfields (apply_calls s (flat_map (fun f : id * bool => if N.eqb (fst f) g then [[WDelTermsOf f]; [WDelEntriesOf f]; [WDelField f]] else []) fs))) x
             = in_reg (ixfields s) x && negb (N.eqb (fst x) g && in_reg fs x)).
Proof.
  induction fs as [|f fs IH]; intros s x; simpl.
  - now rewrite andb_false_r, andb_true_r.
  - destruct (N.eqb (fst f) g) eqn:E; simpl.
    + unfold apply_calls in *. simpl. rewrite IH. unfold apply_call; simpl. rewrite in_reg_rm.
      rewrite (fld_eqb_sym f x). destruct (fld_eqb x f) eqn:Ex.
      * apply fld_eqb_eq in Ex; subst x. rewrite E. simpl. now rewrite !andb_false_r.
      * simpl. now rewrite andb_true_r.
    + rewrite IH. destruct (fld_eqb x f) eqn:Ex; auto.
      apply fld_eqb_eq in Ex; subst x. rewrite E. simpl. reflexivity.
Qed.

Definition nofield (ws : list wr) := forallb (fun w => match w with WSetField _ | WDelField _ => false | _ => true end) ws.
Lemma ixfields_single s ws : nofield ws = true -> ixfields (apply_calls s [ws]) = ixfields s.
Proof. intros H. exact (ixfields_neutral ws H s). Qed.
Lemma no_field_elem r g x : nofield (elem_writes r g x) = true.
Proof. destruct x; simpl; unfold vertex_writes, edge_writes, nofield; simpl;
  match goal with |- context [in_reg ?a ?b] => destruct (in_reg a b) end; reflexivity. Qed.

Theorem step_RegEq m o : RegEq m -> RegEq (fst (step m o)).
Proof.
  intros H. unfold step. destruct (op_calls m o) as [cs|] eqn:E; cbn [fst]; auto.
  intros f. destruct o; simpl in E.
  - destruct (valid_name g); inversion E; subst. cbn [fst kv reg touch reg_after].
    unfold apply_calls, apply_call. cbn [fold_left apply_wr ixfields].
    rewrite !in_reg_cons, !in_reg_rm, !in_reg_cons, !in_reg_rm, H. reflexivity.
  - destruct (has_graph (kv m) g); inversion E; subst. cbn [fst kv reg touch reg_after].
    change (in_reg (filter (fun f0 : id * bool => negb (N.eqb (fst f0) g && existsb (fld_eqb f0) (ixfields (kv m)))) (reg m)) f =
      in_reg (ixfields (apply_calls (apply_calls (kv m) [[WDelEdgesOf g]; [WDelVertsOf g]; [WDelSrcsOf g]; [WDelDstsOf g]; [WDelGraph g]])
       (flat_map (fun f : id * bool => if N.eqb (fst f) g then [[WDelTermsOf f]; [WDelEntriesOf f]; [WDelField f]] else []) (ixfields (kv m))))) f).
    rewrite ixfields_cleanup. rewrite in_reg_filter, H. reflexivity.
  - destruct (has_graph (kv m) g && valid_vertex v l d); inversion E; subst. cbn [fst kv reg touch reg_after].
    rewrite ixfields_single; [apply H|]. apply (no_field_elem (reg m) g (EV v l d)).
  - destruct (has_graph (kv m) g && valid_edge e s t l d); inversion E; subst. cbn [fst kv reg touch reg_after].
    rewrite ixfields_single; [apply H|]. apply (no_field_elem (reg m) g (EE e s t l d)).
  - destruct (has_graph (kv m) g); inversion E; subst. cbn [fst kv reg touch reg_after].
    rewrite ixfields_single; [apply H|]. apply no_field_writes_elems.
  - destruct (has_graph (kv m) g && existsb _ _); inversion E; subst. cbn [fst kv reg touch reg_after].
    rewrite ixfields_single; [apply H|]. unfold nofield. simpl. apply no_field_writes_del.
  - destruct (has_graph (kv m) g); [|discriminate]. destruct (del_edge_keys (kv m) g e) eqn:Ek; inversion E; subst.
    cbn [fst kv reg touch reg_after].
    rewrite ixfields_single; [apply H|]. apply no_field_writes_del.
Qed.

Lemma reopen_kv k : kv (reopen k) = k /\ reg (reopen k) = ixfields k.
Proof. unfold reopen.
  assert (forall gs m0, kv m0 = k -> reg m0 = ixfields k ->
    kv (fold_left (fun m g => touch m g k (reg m)) gs m0) = k /\ reg (fold_left (fun m g => touch m g k (reg m)) gs m0) = ixfields k) as Hf.
  { induction gs as [|g gs IH]; simpl; intros m0 H1 H2; auto. }
  apply Hf; reflexivity. Qed.

Definition run_from (m : mstate) (ops : list op) : mstate := fold_left (fun m o => fst (step m o)) ops m.

Lemma run_from_sim ops : forall m1 m2, Sim m1 m2 -> kv (run_from m1 ops) = kv (run_from m2 ops).
Proof. induction ops as [|o ops IH]; simpl; intros m1 m2 HS; [apply HS|]. apply IH. now apply step_sim. Qed.

Theorem reopen_transparent ops1 ops2 :
  kv (run_from (reopen (kv (run ops1))) ops2) = kv (run (ops1 ++ ops2)).
Proof.
  assert (RegEq (run ops1)) as HR.
  { unfold run. assert (forall m, RegEq m -> RegEq (fold_left (fun m o => fst (step m o)) ops1 m)) as H.
    { induction ops1 as [|o ops IH]; simpl; intros m Hm; auto. apply IH. now apply step_RegEq. }
    apply H. intros f. reflexivity. }
  unfold run. rewrite fold_left_app. fold (run ops1). fold (run_from (run ops1) ops2).
  assert (Sim (reopen (kv (run ops1))) (run ops1)) as HS.
  { destruct (reopen_kv (kv (run ops1))) as [H1 H2]. split; auto. intros f. rewrite H2. symmetry. apply HR. }
  now apply run_from_sim.
Qed.
