From Coq Require Import List Arith Bool Lia.
Import ListNotations.
From Grip Require Import Model.Conc.

Section LockProofs.
  Variable g : nat -> nat.
  Notation disciplined := (disciplined g).

  Lemma nth_set_same (l : list thread) i v : i < length l -> nth_error (set_nth l i v) i = Some v.
  Proof. revert i. induction l as [|x r IH]; intros i H; [cbn in H; lia|]. destruct i; cbn; [reflexivity|]. apply IH. cbn in H. lia. Qed.
  Lemma nth_set_other (l : list thread) i j v : i <> j -> nth_error (set_nth l i v) j = nth_error l j.
  Proof. revert i j. induction l as [|x r IH]; intros i j H; [destruct i; reflexivity|]. destruct i, j; cbn; try reflexivity; try congruence. apply IH. congruence. Qed.
  Lemma nth_some_lt {X} (l : list X) i v : nth_error l i = Some v -> i < length l.
  Proof. intros H. apply nth_error_Some. congruence. Qed.

  Lemma holds_cons_same h m e : holds ((m, e) :: h) m = Some e.
  Proof. unfold holds. cbn. rewrite Nat.eqb_refl. reflexivity. Qed.
  Lemma holds_cons_other h m m' e : m' <> m -> holds ((m, e) :: h) m' = holds h m'.
  Proof. intros H. unfold holds. cbn. destruct (Nat.eqb_spec m m'); [congruence|reflexivity]. Qed.
  Lemma holds_drop_same h m : holds (drop h m) m = None.
  Proof. unfold holds, drop. induction h as [|[a b] r IH]; [reflexivity|]. cbn. destruct (Nat.eqb_spec a m); cbn; [exact IH|].
    destruct (Nat.eqb_spec a m); [congruence|exact IH]. Qed.
  Lemma holds_drop_other h m m' : m' <> m -> holds (drop h m) m' = holds h m'.
  Proof. intros H. unfold holds, drop. induction h as [|[a b] r IH]; [reflexivity|]. cbn. destruct (Nat.eqb_spec a m); cbn.
    - subst a. destruct (Nat.eqb_spec m m'); [congruence|exact IH].
    - destruct (Nat.eqb_spec a m'); [reflexivity|exact IH]. Qed.

  (* what the lock table knows about every thread, and that every remaining program is disciplined *)
  Definition hold_of (ts : list thread) (i m : nat) : option bool :=
    match nth_error ts i with Some t => holds (t_held t) m | None => None end.
  Definition Inv (s : sys) : Prop :=
    (forall i t, nth_error (fst s) i = Some t -> disciplined (t_held t) (t_prog t) = true) /\
    (forall i m, hold_of (fst s) i m = Some true -> writer (snd s m) = Some i /\ readers (snd s m) = []) /\
    (forall i m, hold_of (fst s) i m = Some false -> writer (snd s m) = None /\ In i (readers (snd s m))) /\
    (forall m i, writer (snd s m) = Some i -> hold_of (fst s) i m = Some true) /\
    (forall m i, In i (readers (snd s m)) -> writer (snd s m) = None).
  Ltac split5 := refine (conj _ (conj _ (conj _ (conj _ _)))).

  Lemma hold_of_set ts i t' j m : i < length ts ->
    hold_of (set_nth ts i t') j m = if Nat.eq_dec i j then holds (t_held t') m else hold_of ts j m.
  Proof.
    intros Hlt. unfold hold_of. destruct (Nat.eq_dec i j) as [<-|Hne]; [rewrite nth_set_same by exact Hlt; reflexivity|].
    rewrite nth_set_other by exact Hne. reflexivity.
  Qed.
  Lemma hold_of_nth ts i t m : nth_error ts i = Some t -> hold_of ts i m = holds (t_held t) m.
  Proof. intros H. unfold hold_of. rewrite H. reflexivity. Qed.

  Lemma inv_init progs : forallb (disciplined []) progs = true -> Inv (init progs).
  Proof.
    intros H. unfold Inv, init; cbn [fst snd]. split5.
    - intros i t Hn. apply nth_error_In in Hn. apply in_map_iff in Hn as [p [<- Hp]]. cbn. rewrite forallb_forall in H. apply H, Hp.
    - intros i m Hh. unfold hold_of in Hh. destruct (nth_error _ i) as [t|] eqn:Hn; [|discriminate].
      apply nth_error_In in Hn. apply in_map_iff in Hn as [p [<- _]]. cbn in Hh. discriminate.
    - intros i m Hh. unfold hold_of in Hh. destruct (nth_error _ i) as [t|] eqn:Hn; [|discriminate].
      apply nth_error_In in Hn. apply in_map_iff in Hn as [p [<- _]]. cbn in Hh. discriminate.
    - intros m i Hw. cbn in Hw. discriminate.
    - intros m i Hr. cbn in Hr. destruct Hr.
  Qed.

  Lemma in_remove1 t i l : In i (remove1 t l) -> In i l.
  Proof. induction l as [|x r IH]; cbn; [tauto|]. destruct (x =? t); cbn; tauto. Qed.
  Lemma in_remove1_other t i l : i <> t -> In i l -> In i (remove1 t l).
  Proof.
    intros Hne. induction l as [|x r IH]; [tauto|]. cbn. destruct (Nat.eqb_spec x t).
    - subst x. intros [E|E]; [congruence|exact E].
    - intros [E|E]; [left; exact E|right; apply IH, E].
  Qed.

  Lemma inv_step s s' : Inv s -> sstep s s' -> Inv s'.
  Proof.
    intros (I1 & I2 & I3 & I4 & I5) St.
    destruct St as [ts L i p h m Hn Hw Hr | ts L i p h m Hn Hw | ts L i p h m e Hn Hh | ts L i p h x w Hn]; cbn [fst snd] in *;
      pose proof (nth_some_lt _ _ _ Hn) as Hlt; pose proof (I1 _ _ Hn) as D; cbn [t_prog t_held Conc.disciplined] in D;
      pose proof (fun m0 => hold_of_nth _ _ _ m0 Hn) as Hme; cbn [t_held] in Hme.
    - (* exclusive acquire *)
      destruct (holds h m) eqn:Hm; [discriminate|].
      unfold Inv; cbn [fst snd]. split5.
      + intros j t Hj. destruct (Nat.eq_dec i j) as [<-|Hne]; [rewrite nth_set_same in Hj by exact Hlt; inversion Hj; subst; exact D|].
        rewrite nth_set_other in Hj by exact Hne. eapply I1; eauto.
      + intros j m0 Hj. rewrite hold_of_set in Hj by exact Hlt. cbn [t_held] in Hj. unfold upd.
        destruct (Nat.eq_dec i j) as [<-|Hne]; destruct (Nat.eqb_spec m0 m) as [->|Hm0]; cbn.
        * auto.
        * rewrite holds_cons_other in Hj by exact Hm0. apply I2. rewrite Hme. exact Hj.
        * destruct (I2 _ _ Hj) as [E _]. congruence.
        * apply I2, Hj.
      + intros j m0 Hj. rewrite hold_of_set in Hj by exact Hlt. cbn [t_held] in Hj. unfold upd.
        destruct (Nat.eq_dec i j) as [<-|Hne]; destruct (Nat.eqb_spec m0 m) as [->|Hm0]; cbn.
        * rewrite holds_cons_same in Hj. discriminate.
        * rewrite holds_cons_other in Hj by exact Hm0. apply I3. rewrite Hme. exact Hj.
        * destruct (I3 _ _ Hj) as [_ E]. rewrite Hr in E. destruct E.
        * apply I3, Hj.
      + intros m0 j Hwj. unfold upd in Hwj. rewrite hold_of_set by exact Hlt. cbn [t_held].
        destruct (Nat.eqb_spec m0 m) as [->|Hm0].
        * cbn in Hwj. inversion Hwj; subst j. destruct (Nat.eq_dec i i); [apply holds_cons_same|congruence].
        * pose proof (I4 _ _ Hwj) as Hh0. destruct (Nat.eq_dec i j) as [<-|Hne]; [|exact Hh0].
          rewrite holds_cons_other by exact Hm0. rewrite <- Hme. exact Hh0.
      + intros m0 j Hj. unfold upd in *. destruct (Nat.eqb_spec m0 m); [cbn in Hj; destruct Hj|eapply I5; eauto].
    - (* shared acquire *)
      destruct (holds h m) eqn:Hm; [discriminate|].
      unfold Inv; cbn [fst snd]. split5.
      + intros j t Hj. destruct (Nat.eq_dec i j) as [<-|Hne]; [rewrite nth_set_same in Hj by exact Hlt; inversion Hj; subst; exact D|].
        rewrite nth_set_other in Hj by exact Hne. eapply I1; eauto.
      + intros j m0 Hj. rewrite hold_of_set in Hj by exact Hlt. cbn [t_held] in Hj. unfold upd.
        destruct (Nat.eq_dec i j) as [<-|Hne]; destruct (Nat.eqb_spec m0 m) as [->|Hm0]; cbn.
        * rewrite holds_cons_same in Hj. discriminate.
        * rewrite holds_cons_other in Hj by exact Hm0. apply I2. rewrite Hme. exact Hj.
        * destruct (I2 _ _ Hj) as [E _]. congruence.
        * apply I2, Hj.
      + intros j m0 Hj. rewrite hold_of_set in Hj by exact Hlt. cbn [t_held] in Hj. unfold upd.
        destruct (Nat.eq_dec i j) as [<-|Hne]; destruct (Nat.eqb_spec m0 m) as [->|Hm0]; cbn.
        * split; [reflexivity|left; reflexivity].
        * rewrite holds_cons_other in Hj by exact Hm0. apply I3. rewrite Hme. exact Hj.
        * destruct (I3 _ _ Hj) as [_ E]. split; [reflexivity|right; exact E].
        * apply I3, Hj.
      + intros m0 j Hwj. unfold upd in Hwj. rewrite hold_of_set by exact Hlt. cbn [t_held].
        destruct (Nat.eqb_spec m0 m) as [->|Hm0]; [cbn in Hwj; discriminate|].
        pose proof (I4 _ _ Hwj) as Hh0. destruct (Nat.eq_dec i j) as [<-|Hne]; [|exact Hh0].
        rewrite holds_cons_other by exact Hm0. rewrite <- Hme. exact Hh0.
      + intros m0 j Hj. unfold upd in *. destruct (Nat.eqb_spec m0 m); [reflexivity|eapply I5; eauto].
    - (* release *)
      rewrite Hh in D.
      assert (Hmine : hold_of ts i m = Some e) by (rewrite Hme; exact Hh).
      unfold Inv; cbn [fst snd]. split5.
      + intros j t Hj. destruct (Nat.eq_dec i j) as [<-|Hne]; [rewrite nth_set_same in Hj by exact Hlt; inversion Hj; subst; exact D|].
        rewrite nth_set_other in Hj by exact Hne. eapply I1; eauto.
      + intros j m0 Hj. rewrite hold_of_set in Hj by exact Hlt. cbn [t_held] in Hj. unfold upd.
        destruct (Nat.eq_dec i j) as [<-|Hne]; destruct (Nat.eqb_spec m0 m) as [->|Hm0].
        * rewrite holds_drop_same in Hj. discriminate.
        * rewrite holds_drop_other in Hj by exact Hm0. apply I2. rewrite Hme. exact Hj.
        * destruct (I2 _ _ Hj) as [E1 E2]. destruct e.
          -- destruct (I2 _ _ Hmine) as [E3 _]. congruence.
          -- destruct (I3 _ _ Hmine) as [_ E3]. rewrite E2 in E3. destruct E3.
        * apply I2, Hj.
      + intros j m0 Hj. rewrite hold_of_set in Hj by exact Hlt. cbn [t_held] in Hj. unfold upd.
        destruct (Nat.eq_dec i j) as [<-|Hne]; destruct (Nat.eqb_spec m0 m) as [->|Hm0].
        * rewrite holds_drop_same in Hj. discriminate.
        * rewrite holds_drop_other in Hj by exact Hm0. apply I3. rewrite Hme. exact Hj.
        * destruct (I3 _ _ Hj) as [E1 E2]. destruct e; cbn.
          -- destruct (I2 _ _ Hmine) as [_ E3]. rewrite E3 in E2. destruct E2.
          -- split; [exact E1|apply in_remove1_other; [congruence|exact E2]].
        * apply I3, Hj.
      + intros m0 j Hwj. unfold upd in Hwj. rewrite hold_of_set by exact Hlt. cbn [t_held].
        destruct (Nat.eqb_spec m0 m) as [->|Hm0].
        * destruct e; cbn in Hwj; [discriminate|]. destruct (I3 _ _ Hmine) as [E _]. congruence.
        * pose proof (I4 _ _ Hwj) as Hh0. destruct (Nat.eq_dec i j) as [<-|Hne]; [|exact Hh0].
          rewrite holds_drop_other by exact Hm0. rewrite <- Hme. exact Hh0.
      + intros m0 j Hj. unfold upd in *. destruct (Nat.eqb_spec m0 m) as [->|Hm0]; [|eapply I5; eauto].
        destruct e; cbn in *; [reflexivity|]. apply in_remove1 in Hj. eapply I5; eauto.
    - (* access *)
      destruct (holds h (g x)) as [e|] eqn:Hg; [|discriminate]. apply andb_true_iff in D as [_ D].
      assert (Same : forall j m0, hold_of (set_nth ts i {| t_prog := p; t_held := h |}) j m0 = hold_of ts j m0).
      { intros j m0. rewrite hold_of_set by exact Hlt. cbn [t_held]. destruct (Nat.eq_dec i j) as [<-|Hne]; [rewrite Hme; reflexivity|reflexivity]. }
      unfold Inv; cbn [fst snd]. split5.
      + intros j t Hj. destruct (Nat.eq_dec i j) as [<-|Hne]; [rewrite nth_set_same in Hj by exact Hlt; inversion Hj; subst; exact D|].
        rewrite nth_set_other in Hj by exact Hne. eapply I1; eauto.
      + intros j m0 Hj. rewrite Same in Hj. apply I2, Hj.
      + intros j m0 Hj. rewrite Same in Hj. apply I3, Hj.
      + intros m0 j Hwj. rewrite Same. apply I4, Hwj.
      + exact I5.
  Qed.

  Lemma inv_reach s0 s : Inv s0 -> sreach s0 s -> Inv s.
  Proof. intros H R. induction R; [exact H|eapply inv_step; eauto]. Qed.

  (* lock discipline => no data race, in every reachable state of every interleaving *)
  Theorem discipline_no_race progs s :
    forallb (disciplined []) progs = true -> sreach (init progs) s -> ~ race s.
  Proof.
    intros HD R (i & j & x & w1 & w2 & p1 & h1 & p2 & h2 & Hne & Hi & Hj & Hw).
    destruct (inv_reach _ _ (inv_init _ HD) R) as (I1 & I2 & I3 & I4 & I5).
    pose proof (I1 _ _ Hi) as D1. pose proof (I1 _ _ Hj) as D2. cbn [t_prog t_held Conc.disciplined] in D1, D2.
    destruct (holds h1 (g x)) as [e1|] eqn:G1; [|discriminate]. destruct (holds h2 (g x)) as [e2|] eqn:G2; [|discriminate].
    apply andb_true_iff in D1 as [D1 _]. apply andb_true_iff in D2 as [D2 _].
    assert (H1 : hold_of (fst s) i (g x) = Some e1) by (rewrite (hold_of_nth _ _ _ _ Hi); exact G1).
    assert (H2 : hold_of (fst s) j (g x) = Some e2) by (rewrite (hold_of_nth _ _ _ _ Hj); exact G2).
    destruct e1, e2.
    - destruct (I2 _ _ H1) as [E1 _]. destruct (I2 _ _ H2) as [E2 _]. congruence.
    - destruct (I2 _ _ H1) as [E1 _]. destruct (I3 _ _ H2) as [E2 _]. congruence.
    - destruct (I3 _ _ H1) as [E1 _]. destruct (I2 _ _ H2) as [E2 _]. congruence.
    - destruct Hw; subst; cbn in *; discriminate.
  Qed.
End LockProofs.

(* ================= acknowledged edits ================= *)
Section EditProofs.
  Variable K V : Type.
  Variable keq : K -> K -> bool.
  Hypothesis keq_spec : forall a b, keq a b = true <-> a = b.
  Notation apply := (@Conc.apply K V keq). Notation apply1 := (@Conc.apply1 K V keq). Notation last_write := (@Conc.last_write K V keq).
  Notation interleaving := (@Conc.interleaving K V).

  Lemma apply_last (l : list (K * option V)) : forall s k,
    apply s l k = match last_write k l with Some v => v | None => s k end.
  Proof.
    induction l as [|o r IH]; intros s k; [reflexivity|]. cbn [Conc.apply fold_left Conc.last_write].
    change (fold_left apply1 r (apply1 s o) k) with (apply (apply1 s o) r k). rewrite IH.
    destruct (last_write k r); [reflexivity|]. unfold Conc.apply1. destruct (keq k (fst o)); reflexivity.
  Qed.

  Lemma il_none ss l k : interleaving ss l -> last_write k l = None -> forall s, In s ss -> last_write k s = None.
  Proof.
    induction 1 as [ss Hall|ss1 o s ss2 l Hil IH]; intros Hl s0 Hin.
    - rewrite Forall_forall in Hall. rewrite (Hall _ Hin). reflexivity.
    - cbn [Conc.last_write] in Hl. destruct (last_write k l) eqn:E; [discriminate|].
      destruct (keq k (fst o)) eqn:Ek; [discriminate|].
      apply in_app_or in Hin as [Hin|[<-|Hin]].
      + apply IH; [reflexivity|apply in_or_app; left; exact Hin].
      + cbn [Conc.last_write]. rewrite (IH eq_refl s) by (apply in_or_app; right; left; reflexivity). rewrite Ek. reflexivity.
      + apply IH; [reflexivity|apply in_or_app; right; right; exact Hin].
  Qed.

  Lemma interleaving_last ss l : interleaving ss l -> forall k v,
    last_write k l = Some v -> exists s, In s ss /\ last_write k s = Some v.
  Proof.
    induction 1 as [ss Hall|ss1 o s ss2 l Hil IH]; intros k v Hl; [discriminate|].
    cbn [Conc.last_write] in Hl. destruct (last_write k l) as [v'|] eqn:E.
    - inversion Hl; subst v'. destruct (IH k v E) as [s' [Hin Hs']].
      apply in_app_or in Hin as [Hin|[<-|Hin]].
      + exists s'. split; [apply in_or_app; left; exact Hin|exact Hs'].
      + exists (o :: s). split; [apply in_or_app; right; left; reflexivity|]. cbn. rewrite Hs'. reflexivity.
      + exists s'. split; [apply in_or_app; right; right; exact Hin|exact Hs'].
    - destruct (keq k (fst o)) eqn:Ek; [|discriminate]. inversion Hl; subst v.
      assert (Hs : last_write k s = None) by (apply (il_none _ _ k Hil E); apply in_or_app; right; left; reflexivity).
      exists (o :: s). split; [apply in_or_app; right; left; reflexivity|]. cbn. rewrite Hs, Ek. reflexivity.
  Qed.

  (* after any interleaving of the sessions, each key holds the last write some session made to it,
     or its initial value if no session wrote it *)
  Theorem interleaving_final ss l s0 : interleaving ss l -> forall k,
    (exists s v, In s ss /\ last_write k s = Some v /\ apply s0 l k = v) \/
    ((forall s, In s ss -> last_write k s = None) /\ apply s0 l k = s0 k).
  Proof.
    intros Hil k. rewrite apply_last. destruct (last_write k l) as [v|] eqn:E.
    - left. destruct (interleaving_last _ _ Hil k v E) as [s [Hin Hs]]. exists s, v. auto.
    - right. split; [|reflexivity]. intros s Hin. apply (il_none _ _ k Hil E s Hin).
  Qed.
End EditProofs.
