(* C02: the production plan must return what the literal semantics (Model/Traversal.v) returns.
   Two kinds of cases:
     CRows: a program run through the production compiler on a store; its rows against the literal semantics;
     CPlan: the statement list core.IndexStartOptimize returned for a program; it must be the list
            Model/Optimize.v computes (correspondence of the planner model), and -- searched on the case's
            graph when it is not -- it must mean the same as the program (the plan evaluated in the model);
     CLoad: what inspect.PipelineSteps and inspect.PipelineStepOutputs returned for a program; they must be
            what Model/LoadPlan.v computes, and the observed outputs must cover every read (reads_covered). *)
From Grip Require Export Run.Eval_C01 Model.Optimize Model.LoadPlan.
From Coq Require Import List ZArith QArith String Bool NArith. Import ListNotations.
Local Close Scope Q_scope.

Inductive c02_case :=
| CRows (c : c01_case)
| CPlan (g : graph) (p : list stmt) (o : list ostmt)
| CLoad (p : list stmt) (steps : list nat) (outs : outmap)    (* inspect.PipelineSteps / PipelineStepOutputs as observed *)
| CLoadPlan (p : list stmt) (steps : list nat) (outs : outmap)  (* the same tables for IndexStartOptimize(p), as the compiler computes them *)
| CLoadX (p : list xstmt) (steps : list nat) (outs : outmap).    (* programs with aggregate / set / increment / jump / mark / null moves *)

(* ---------- structural equality of statements ---------- *)
Fixpoint list_eqb {X} (e : X -> X -> bool) (a b : list X) : bool :=
  match a, b with [], [] => true | x :: r, y :: r' => e x y && list_eqb e r r' | _, _ => false end.
Definition strs_eqb := list_eqb String.eqb.
Definition cop_idx (c : cop) : nat :=
  match c with CEq => 0 | CNeq => 1 | CGt => 2 | CGte => 3 | CLt => 4 | CLte => 5 | CInside => 6 | COutside => 7
             | CBetween => 8 | CWithin => 9 | CWithout => 10 | CContains => 11 end.
Fixpoint hexpr_eqb (a b : hexpr) : bool :=
  match a, b with
  | HCond k o v, HCond k' o' v' => String.eqb k k' && Nat.eqb (cop_idx o) (cop_idx o') && jeq v v'
  | HAnd x, HAnd y | HOr x, HOr y =>
      (fix go (x y : list hexpr) : bool :=
         match x, y with [], [] => true | a :: x', b :: y' => hexpr_eqb a b && go x' y' | _, _ => false end) x y
  | HNot x, HNot y => hexpr_eqb x y
  | HUnset, HUnset => true
  | _, _ => false
  end.
Definition stmt_eqb (a b : stmt) : bool :=
  match a, b with
  | SV x, SV y | SE x, SE y | SIn x, SIn y | SOut x, SOut y | SBoth x, SBoth y | SInE x, SInE y | SOutE x, SOutE y
  | SBothE x, SBothE y | SInNull x, SInNull y | SOutNull x, SOutNull y | SInENull x, SInENull y | SOutENull x, SOutENull y
  | SHasLabel x, SHasLabel y | SHasId x, SHasId y | SHasKey x, SHasKey y | SSelect x, SSelect y
  | SFields x, SFields y | SDistinct x, SDistinct y => strs_eqb x y
  | SHas x, SHas y => hexpr_eqb x y
  | SAs x, SAs y | SUnwind x, SUnwind y => String.eqb x y
  | SRender x, SRender y => jeq x y
  | SPath, SPath | SCount, SCount => true
  | SLimit x, SLimit y | SSkip x, SSkip y => N.eqb x y
  | SRange a1 b1, SRange a2 b2 => Z.eqb a1 a2 && Z.eqb b1 b2
  | _, _ => false
  end.
Definition ostmt_eqb (a b : ostmt) : bool :=
  match a, b with
  | OS x, OS y => stmt_eqb x y
  | OLookup x, OLookup y => strs_eqb x y
  | _, _ => false
  end.

Definition plan_matches (p : list stmt) (o : list ostmt) : bool := list_eqb ostmt_eqb (optimize p) o.

(* what the observed plan returns on the graph, in the model; Validate's rule on the first statement applies *)
Definition plan_outcome (g : graph) (o : list ostmt) : outcome :=
  match o with
  | [] => Rows []
  | OS (SV _) :: _ | OS (SE _) :: _ | OLookup _ :: _ =>
      match run_plan g o with Some (ty, out) => Rows (map (row_of ty) out) | None => Rejected end
  | _ => Rejected
  end.
(* the plan may deliver the start rows in another order (by label, by listed id) than a scan does: behind a window in
   the middle of a program the rows -- and how many of them later filters keep -- legitimately depend on that order,
   as they do for any two scans; there only acceptance is compared. A window at the end (or followed by count only)
   is compared as in C01: the count, and the rows as a sub-multiset of the unwindowed result. *)
Definition plan_sound (g : graph) (p : list stmt) (o : list ostmt) : bool :=
  match mode_of p with
  | Unordered => match run g p, plan_outcome g o with Rejected, Rejected | Rows _, Rows _ => true | _, _ => false end
  | _ => agrees {| cgraph := g; cprog := p; cobs := plan_outcome g o |}
  end.

Definition opt_strs_eqb (a b : option (list string)) : bool :=
  match a, b with Some x, Some y => strs_eqb x y | None, None => true | _, _ => false end.
Definition load_matches (p : list stmt) (steps : list nat) (outs : outmap) : bool :=
  list_eqb Nat.eqb (step_ids p) steps &&
  forallb (fun k => opt_strs_eqb (get_out k (outputs p)) (get_out k outs)) (seq 0 (S (S (List.length p)))) &&
  forallb (fun x => Nat.leb (fst x) (S (List.length p))) outs.
Definition load_x_matches (p : list xstmt) (steps : list nat) (outs : outmap) : bool :=
  list_eqb Nat.eqb (x_step_ids p) steps &&
  forallb (fun k => opt_strs_eqb (get_out k (x_outputs p)) (get_out k outs)) (seq 0 (S (S (List.length p)))) &&
  forallb (fun x => Nat.leb (fst x) (S (List.length p))) outs.
Definition load_plan_matches (p : list stmt) (steps : list nat) (outs : outmap) : bool :=
  let o := optimize p in
  list_eqb Nat.eqb (plan_step_ids o) steps &&
  forallb (fun k => opt_strs_eqb (get_out k (plan_outputs o)) (get_out k outs)) (seq 0 (S (S (List.length o)))) &&
  forallb (fun x => Nat.leb (fst x) (S (List.length o))) outs.

Definition case_mismatch (c : c02_case) : bool :=
  match c with
  | CRows r => negb (agrees r)
  | CPlan g p o => negb (plan_matches p o)
  | CLoad p st o => negb (load_matches p st o)
  | CLoadPlan p st o => negb (load_plan_matches p st o)
  | CLoadX p st o => negb (load_x_matches p st o)
  end.
Definition case_violation (c : c02_case) : bool :=
  match c with
  | CRows r => negb (agrees r)
  | CPlan g p o => negb (plan_sound g p o)
  | CLoad p st o => negb (reads_covered p o)
  | CLoadPlan p st o => negb (plan_reads_covered (optimize p) o)
  | CLoadX p st o => negb (x_reads_covered p o)
  end.

Definition mismatches (cs : list c02_case) := idx_where case_mismatch 0 cs.
Definition spec_violations (cs : list c02_case) := idx_where case_violation 0 cs.
Definition known_classes (cs : list c02_case) : list nat := [].
Definition explain (c : c02_case) :=
  match c with
  | CRows r => (Eval_C01.explain r, [], Rejected)
  | CPlan g p o => ((run g p, mode_of p), optimize p, plan_outcome g o)
  | CLoad p st o => ((Rejected, Exact), map (fun x => OLookup (snd x)) (outputs p), Rows (map (fun k => JNum (Z.of_nat k # 1)) (step_ids p)))
  | CLoadPlan p st o => ((Rejected, Exact), optimize p ++ map (fun x => OLookup (snd x)) (plan_outputs (optimize p)),
                         Rows (map (fun k => JNum (Z.of_nat k # 1)) (plan_step_ids (optimize p))))
  | CLoadX p st o => ((Rejected, Exact), map (fun x => OLookup (snd x)) (x_outputs p), Rows (map (fun k => JNum (Z.of_nat k # 1)) (x_step_ids p)))
  end.
