From Coq Require Import List String Ascii Bool Arith Lia.
Import ListNotations.
Require Import Grip.Model.Sql.
Local Open Scope list_scope.
Local Open Scope nat_scope.

Definition starts_quote (l : list ascii) : bool := match l with c :: _ => Ascii.eqb c quote | [] => false end.

(* every string, once its quotes are doubled and a closing quote appended, scans as exactly one literal body *)
Lemma scan_lit_escape : forall s rest, starts_quote rest = false -> scan_lit (escape s ++ quote :: rest) = Some rest.
Proof.
  induction s as [|c s IH]; intros rest Hr.
  - cbn [escape app scan_lit]. rewrite Ascii.eqb_refl. destruct rest as [|c2 r2]; [reflexivity|]. cbn [starts_quote] in Hr. rewrite Hr. reflexivity.
  - cbn [escape]. destruct (Ascii.eqb c quote) eqn:E.
    + cbn [app scan_lit]. rewrite !Ascii.eqb_refl. apply IH, Hr.
    + cbn [app scan_lit]. rewrite E. apply IH, Hr.
Qed.

Lemma bslash_not_quote : Ascii.eqb bslash quote = false. Proof. reflexivity. Qed.
Lemma quote_not_bslash : Ascii.eqb quote bslash = false. Proof. reflexivity. Qed.

Lemma escape_bs_quote l : escape_bs (quote :: l) = quote :: escape_bs l. Proof. reflexivity. Qed.
Lemma scan_elit_qq l : scan_elit (quote :: quote :: l) = scan_elit l. Proof. reflexivity. Qed.
Lemma scan_elit_bb l : scan_elit (bslash :: bslash :: l) = scan_elit l. Proof. reflexivity. Qed.
Lemma scan_elit_q_end rest : starts_quote rest = false -> scan_elit (quote :: rest) = Some rest.
Proof. intros Hr. destruct rest as [|c2 r2]; [reflexivity|]. cbn [starts_quote] in Hr. cbn [scan_elit]. rewrite quote_not_bslash, Ascii.eqb_refl, Hr. reflexivity. Qed.
Lemma scan_elit_escape : forall s rest, starts_quote rest = false ->
  scan_elit (escape_bs (escape s) ++ quote :: rest) = Some rest.
Proof.
  induction s as [|c s IH]; intros rest Hr.
  - cbn [escape escape_bs app]. apply scan_elit_q_end, Hr.
  - cbn [escape]. destruct (Ascii.eqb c quote) eqn:E.
    + rewrite !escape_bs_quote. cbn [app]. rewrite scan_elit_qq. apply IH, Hr.
    + cbn [escape_bs]. destruct (Ascii.eqb c bslash) eqn:B.
      * cbn [app]. rewrite scan_elit_bb. apply IH, Hr.
      * cbn [app scan_elit]. rewrite B, E. apply IH, Hr.
Qed.

(* ---- fuel independence of the lexer ---- *)
Lemma scan_lit_len : forall l r, scan_lit l = Some r -> List.length r < List.length l.
Proof.
  fix IH 1. intros [|c l] r H; [discriminate|]. cbn [scan_lit] in H.
  destruct (Ascii.eqb c quote).
  - destruct l as [|c2 r2]; [inversion H; cbn; lia|]. destruct (Ascii.eqb c2 quote).
    + apply IH in H. cbn in *. lia.
    + inversion H. cbn. lia.
  - apply IH in H. cbn. lia.
Qed.
Lemma scan_elit_len : forall l r, scan_elit l = Some r -> List.length r < List.length l.
Proof.
  fix IH 1. intros [|c l] r H; [discriminate|]. cbn [scan_elit] in H.
  destruct (Ascii.eqb c bslash).
  - destruct l as [|c2 r2]; [discriminate|]. apply IH in H. cbn in *. lia.
  - destruct (Ascii.eqb c quote).
    + destruct l as [|c2 r2]; [inversion H; cbn; lia|]. destruct (Ascii.eqb c2 quote).
      * apply IH in H. cbn in *. lia.
      * inversion H. cbn. lia.
    + apply IH in H. cbn. lia.
Qed.
Lemma scan_qident_len : forall l acc w r, scan_qident l acc = Some (w, r) -> List.length r < List.length l.
Proof.
  induction l as [|c l IH]; intros acc w r H; [discriminate|]. cbn [scan_qident] in H.
  destruct (Ascii.eqb c dquote); [inversion H; cbn; lia|]. apply IH in H. cbn. lia.
Qed.
Lemma take_while_len : forall f l a b, take_while f l = (a, b) -> List.length b <= List.length l.
Proof.
  induction l as [|c l IH]; intros a b H; cbn in H; [inversion H; cbn; lia|].
  destruct (f c); [|inversion H; cbn; lia]. destruct (take_while f l) as [a' b'] eqn:E. inversion H; subst.
  specialize (IH _ _ eq_refl). cbn. lia.
Qed.
Lemma take_while_first : forall f c l a b, f c = true -> take_while f (c :: l) = (a, b) -> List.length b <= List.length l.
Proof.
  intros f c l a b Hc H. cbn in H. rewrite Hc in H. destruct (take_while f l) as [a' b'] eqn:E. inversion H; subst.
  eapply take_while_len; eauto.
Qed.
Lemma skip_line_len : forall l, List.length (skip_line l) <= List.length l.
Proof. induction l as [|c l IH]; cbn; [lia|]. destruct (n c =? 10); lia. Qed.
Lemma skip_block_eq c c2 r2 : skip_block (c :: c2 :: r2) = if (n c =? 42) && (n c2 =? 47) then Some r2 else skip_block (c2 :: r2).
Proof. reflexivity. Qed.
Lemma skip_block_len : forall l r, skip_block l = Some r -> List.length r < List.length l.
Proof.
  induction l as [|c l IH]; intros r H; [discriminate|]. destruct l as [|c2 r2]; [discriminate|].
  rewrite skip_block_eq in H. destruct ((n c =? 42) && (n c2 =? 47)); [inversion H; cbn; lia|].
  apply IH in H. cbn [List.length] in *. lia.
Qed.

Lemma lex_fuel : forall f1 f2 l, List.length l <= f1 -> List.length l <= f2 -> lex f1 l = lex f2 l.
Proof.
  induction f1 as [|f1 IH]; intros f2 l H1 H2.
  - destruct l; [|cbn in H1; lia]. destruct f2; reflexivity.
  - destruct f2 as [|f2]; [destruct l; [reflexivity|cbn in H2; lia]|].
    destruct l as [|c r]; [reflexivity|]. cbn [List.length] in H1, H2. cbn [lex].
    destruct (is_space c); [apply IH; lia|].
    destruct (Ascii.eqb c quote).
    { destruct (scan_lit r) as [rest|] eqn:E; [|reflexivity]. apply scan_lit_len in E. f_equal. apply IH; lia. }
    destruct (Ascii.eqb c dquote).
    { destruct (scan_qident r []) as [[w rest]|] eqn:E; [|reflexivity]. apply scan_qident_len in E. f_equal. apply IH; lia. }
    match goal with |- (if ?b then _ else _) = _ => destruct b end.
    { pose proof (skip_line_len r). apply IH; lia. }
    match goal with |- (if ?b then _ else _) = _ => destruct b end.
    { destruct (skip_block (tl r)) as [rest|] eqn:E; [|reflexivity]. apply skip_block_len in E.
      assert (List.length (tl r) <= List.length r) by (destruct r; cbn; lia). apply IH; lia. }
    match goal with |- (if ?b then _ else _) = _ => destruct b end.
    { destruct (scan_elit (tl r)) as [rest|] eqn:E; [|reflexivity]. apply scan_elit_len in E.
      assert (List.length (tl r) <= List.length r) by (destruct r; cbn; lia). f_equal. apply IH; lia. }
    destruct (is_digit c) eqn:D.
    { destruct (take_while is_wordc (c :: r)) as [a rest] eqn:E. apply take_while_first in E; [|unfold is_wordc; rewrite D; destruct (is_alpha c); reflexivity].
      f_equal. apply IH; lia. }
    destruct (is_alpha c) eqn:A.
    { destruct (take_while is_wordc (c :: r)) as [a rest] eqn:E. apply take_while_first in E; [|unfold is_wordc; rewrite A; reflexivity].
      f_equal. apply IH; lia. }
    f_equal. apply IH; lia.
Qed.

Lemma lexs_fuel : forall f l, List.length l < f -> lex f l = lexs l.
Proof. intros. unfold lexs. apply lex_fuel; lia. Qed.

Lemma lex_plain_lit f body : lex (S f) (quote :: body) = match scan_lit body with Some rest => TLit :: lex f rest | None => [TBad] end.
Proof. reflexivity. Qed.
Lemma lex_E_lit f body : lex (S (S f)) (" "%char :: "E"%char :: quote :: body)
  = match scan_elit body with Some rest => TLit :: lex f rest | None => [TBad] end.
Proof. reflexivity. Qed.

(* a quoted client string followed by anything that does not start with a quote is ONE literal token,
   whatever the string contains *)
Theorem pq_quote_one_token : forall s rest, starts_quote rest = false ->
  lexs (pq_quote s ++ rest) = TLit :: lexs rest.
Proof.
  intros s rest Hr. unfold pq_quote. destruct (existsb (Ascii.eqb bslash) s).
  - unfold lexs at 1. cbn [app List.length]. rewrite <- app_assoc. cbn [app].
    rewrite lex_E_lit, scan_elit_escape by exact Hr. f_equal.
    apply lexs_fuel. rewrite !app_length. cbn [List.length]. lia.
  - unfold lexs at 1. cbn [app List.length]. rewrite <- app_assoc. cbn [app].
    rewrite lex_plain_lit, scan_lit_escape by exact Hr. f_equal.
    apply lexs_fuel. rewrite !app_length. cbn [List.length]. lia.
Qed.

(* hence two statements that differ only in the quoted client string have the same structure from the hole on *)
Corollary quoted_hole_independent : forall s1 s2 rest, starts_quote rest = false ->
  lexs (pq_quote s1 ++ rest) = lexs (pq_quote s2 ++ rest).
Proof. intros. rewrite !pq_quote_one_token by assumption. reflexivity. Qed.
