(* C02: the load-elision analysis (Model/LoadPlan.v) marks, for every program, every step whose element some
   statement reads -- directly or through any mark of that name -- and the step of the element the traversal
   returns. *)
From Coq Require Import List String Bool Arith Lia.
Import ListNotations.
From Grip Require Import Model.Json Model.Has Model.Traversal Model.Optimize Model.LoadPlan.
Local Open Scope string_scope.
Local Open Scope list_scope.

(* ---------- the outputs map ---------- *)
Lemma get_set_same k v o : get_out k (set_out k v o) = Some v.
Proof. unfold get_out, set_out. cbn [find fst]. rewrite Nat.eqb_refl. reflexivity. Qed.
Lemma find_filter_neq k j (o : outmap) : j <> k ->
  find (fun x => Nat.eqb j (fst x)) (filter (fun x => negb (Nat.eqb k (fst x))) o) = find (fun x => Nat.eqb j (fst x)) o.
Proof.
  intros H. induction o as [|x o IH]; [reflexivity |]. cbn [filter find].
  destruct (Nat.eqb k (fst x)) eqn:E; cbn [negb].
  - apply Nat.eqb_eq in E. assert (Nat.eqb j (fst x) = false) as -> by (apply Nat.eqb_neq; lia). exact IH.
  - cbn [find]. destruct (Nat.eqb j (fst x)); [reflexivity | exact IH].
Qed.
Lemma get_set_other k j v o : j <> k -> get_out j (set_out k v o) = get_out j o.
Proof.
  intros H. unfold get_out, set_out. cbn [find fst]. assert (Nat.eqb j k = false) as -> by (apply Nat.eqb_neq; exact H).
  rewrite find_filter_neq by exact H. reflexivity.
Qed.

Lemma has_star_star k o : has_star (star k o) k = true.
Proof. unfold has_star, star. rewrite get_set_same. reflexivity. Qed.
Lemma has_star_star_mono k j o : has_star o j = true -> has_star (star k o) j = true.
Proof.
  intros H. destruct (Nat.eq_dec j k) as [-> | Hn]; [apply has_star_star |].
  unfold has_star, star. rewrite get_set_other by exact Hn. exact H.
Qed.
Lemma has_star_star_all_mono ks : forall o j, has_star o j = true -> has_star (star_all ks o) j = true.
Proof. unfold star_all. induction ks as [|k ks IH]; intros o j H; cbn [fold_left]; [exact H |]. apply IH. apply has_star_star_mono. exact H. Qed.
Lemma has_star_star_all_in ks : forall o j, In j ks -> has_star (star_all ks o) j = true.
Proof.
  unfold star_all. induction ks as [|k ks IH]; intros o j H; [destruct H |]. cbn [fold_left]. destruct H as [-> | H].
  - apply (has_star_star_all_mono ks). apply has_star_star.
  - apply IH. exact H.
Qed.
Lemma has_star_label_mono k j o :
  has_star o j = true ->
  has_star (match get_out k o with Some x => set_out k (x ++ ["_label"]) o | None => set_out k ["_label"] o end) j = true.
Proof.
  intros H. destruct (Nat.eq_dec j k) as [-> | Hn].
  - unfold has_star in *. destruct (get_out k o) as [x|] eqn:E; [| discriminate H].
    rewrite get_set_same. rewrite existsb_app, H. reflexivity.
  - unfold has_star in *. destruct (get_out k o); rewrite get_set_other by exact Hn; exact H.
Qed.

(* ---------- reading fields ---------- *)
Lemma read_field_mono am k f o j : has_star o j = true -> has_star (read_field am k o f) j = true.
Proof. intros H. unfold read_field. destruct (namespace f); [apply has_star_star_all_mono | apply has_star_star_mono]; exact H. Qed.
Lemma read_fields_mono am k fs : forall o j, has_star o j = true -> has_star (fold_left (read_field am k) fs o) j = true.
Proof. induction fs as [|f fs IH]; intros o j H; cbn [fold_left]; [exact H |]. apply IH. apply read_field_mono. exact H. Qed.
Lemma read_distinct_mono am k f o j : has_star o j = true -> has_star (read_distinct am k o f) j = true.
Proof.
  intros H. unfold read_distinct. destruct (namespace f); apply has_star_star_all_mono; [exact H |]. apply has_star_star_mono. exact H.
Qed.
Lemma read_distincts_mono am k fs : forall o j, has_star o j = true -> has_star (fold_left (read_distinct am k) fs o) j = true.
Proof. induction fs as [|f fs IH]; intros o j H; cbn [fold_left]; [exact H |]. apply IH. apply read_distinct_mono. exact H. Qed.
Lemma select_marks_mono am ms : forall o j, has_star o j = true ->
  has_star (fold_left (fun o m => star_all (steps_of am m) o) ms o) j = true.
Proof. induction ms as [|m ms IH]; intros o j H; cbn [fold_left]; [exact H |]. apply IH. apply has_star_star_all_mono. exact H. Qed.
Lemma select_marks_cover am ms : forall o m, In m ms ->
  forallb (has_star (fold_left (fun o m => star_all (steps_of am m) o) ms o)) (steps_of am m) = true.
Proof.
  induction ms as [|x ms IH]; intros o m H; [destruct H |]. cbn [fold_left]. destruct H as [-> | H]; [| apply IH; exact H].
  apply forallb_forall. intros j Hj. apply select_marks_mono. apply has_star_star_all_in. exact Hj.
Qed.

Lemma field_covered_mono am o o' k f : (forall j, has_star o j = true -> has_star o' j = true) ->
  field_covered am o k f = true -> field_covered am o' k f = true.
Proof.
  intros M. unfold field_covered. destruct (namespace f); [| apply M].
  rewrite !forallb_forall. intros H j Hj. apply M. apply H. exact Hj.
Qed.
Lemma read_field_covers am k o f : field_covered am (read_field am k o f) k f = true.
Proof.
  unfold field_covered, read_field. destruct (namespace f) as [m|]; [| apply has_star_star].
  apply forallb_forall. intros j Hj. apply has_star_star_all_in. exact Hj.
Qed.
Lemma read_fields_cover am k fs : forall o, forallb (field_covered am (fold_left (read_field am k) fs o) k) fs = true.
Proof.
  induction fs as [|f fs IH]; intros o; [reflexivity |]. cbn [fold_left forallb]. rewrite IH, andb_true_r.
  apply (field_covered_mono am (read_field am k o f)); [intros j; apply read_fields_mono | apply read_field_covers].
Qed.

(* ---------- one statement of the backward walk ---------- *)
Lemma effect_mono am k s o onl j : has_star o j = true -> has_star (fst (effect am k s (o, onl))) j = true.
Proof.
  intros H. pose proof (read_fields_mono am k (stmt_fields s) o j H) as H1. unfold effect.
  destruct s; cbn [scans fst]; try exact H1; try (destruct onl; cbn [fst]; [apply has_star_star_mono |]; exact H1).
  - apply has_star_star_mono. exact H1.
  - apply has_star_label_mono. exact H1.
  - apply select_marks_mono. exact H1.
  - apply read_distincts_mono. exact H1.
Qed.

Definition blocker (x : nat * stmt) : bool := match snd x with SCount | SSelect _ => true | s => scans s end.

Lemma effect_onlast am k s o onl : snd (effect am k s (o, onl)) = onl && negb (blocker (k, s)).
Proof. unfold effect, blocker. destruct s; cbn [scans snd negb]; rewrite ?andb_false_r, ?andb_true_r; reflexivity. Qed.

Lemma analyse_onlast am l : snd (analyse am l) = negb (existsb blocker l).
Proof.
  induction l as [|[k s] r IH]; [reflexivity |]. cbn [analyse existsb]. destruct (analyse am r) as [o onl]. cbn [snd] in IH.
  rewrite effect_onlast, IH. destruct (blocker (k, s)), (existsb blocker r); reflexivity.
Qed.

Lemma effect_covers_self am k s o onl : stmt_covered am (fst (effect am k s (o, onl))) (k, s) = true.
Proof.
  unfold stmt_covered. cbn [fst snd]. apply andb_true_iff. split.
  - pose proof (read_fields_cover am k (stmt_fields s) o) as H. rewrite forallb_forall in *. intros f Hf.
    apply (field_covered_mono am (fold_left (read_field am k) (stmt_fields s) o)); [| apply H; exact Hf].
    intros j Hj. clear - Hj. unfold effect.
    destruct s; cbn [scans fst]; try exact Hj; try (destruct onl; cbn [fst]; [apply has_star_star_mono |]; exact Hj).
    + apply has_star_star_mono. exact Hj.
    + apply has_star_label_mono. exact Hj.
    + apply select_marks_mono. exact Hj.
    + apply read_distincts_mono. exact Hj.
  - unfold effect. destruct s; try reflexivity; cbn [fst].
    + apply has_star_star.
    + apply forallb_forall. intros m Hm. apply select_marks_cover. exact Hm.
Qed.

Lemma stmt_covered_mono am o o' x : (forall j, has_star o j = true -> has_star o' j = true) ->
  stmt_covered am o x = true -> stmt_covered am o' x = true.
Proof.
  intros M. unfold stmt_covered. rewrite !andb_true_iff. intros [H1 H2]. split.
  - rewrite forallb_forall in *. intros f Hf. apply (field_covered_mono am o); [exact M | apply H1; exact Hf].
  - destruct (snd x); try exact H2.
    + apply M. exact H2.
    + rewrite forallb_forall in *. intros m Hm. specialize (H2 m Hm). rewrite forallb_forall in *. intros j Hj. apply M. apply H2. exact Hj.
Qed.

Lemma last_scan_mono o o' l : (forall j, has_star o j = true -> has_star o' j = true) ->
  last_scan_covered o l = true -> last_scan_covered o' l = true.
Proof.
  intros M. induction l as [|[k s] r IH]; [reflexivity |]. cbn [last_scan_covered]. rewrite !andb_true_iff. intros [H1 H2].
  split; [apply IH; exact H1 |]. destruct (scans s && negb (existsb _ r)); [apply M; exact H2 | reflexivity].
Qed.

Lemma blocker_same r : existsb (fun x : nat * stmt => match snd x with SCount | SSelect _ => true | _ => scans (snd x) end) r = existsb blocker r.
Proof. induction r as [|[k s] r IH]; [reflexivity |]. cbn [existsb]. rewrite IH. f_equal. destruct s; reflexivity. Qed.

Theorem analyse_covers am l :
  forallb (stmt_covered am (fst (analyse am l))) l = true /\ last_scan_covered (fst (analyse am l)) l = true.
Proof.
  induction l as [|[k s] r [IH1 IH2]]; [split; reflexivity |]. cbn [analyse].
  pose proof (analyse_onlast am r) as HL. destruct (analyse am r) as [o onl]. cbn [fst snd] in *.
  assert (forall j, has_star o j = true -> has_star (fst (effect am k s (o, onl))) j = true) as M by (intros j; apply effect_mono).
  split.
  - cbn [forallb]. rewrite effect_covers_self. cbn [andb]. rewrite forallb_forall in *. intros x Hx.
    apply (stmt_covered_mono am o); [exact M | apply IH1; exact Hx].
  - cbn [last_scan_covered]. rewrite (last_scan_mono o _ r M IH2). cbn [andb]. rewrite blocker_same, <- HL.
    destruct (scans s) eqn:Sc; [| reflexivity]. destruct onl; [| reflexivity]. cbn [andb].
    unfold effect. destruct s; try discriminate Sc; cbn [scans fst]; apply has_star_star.
Qed.

Theorem analysis_covers p : reads_covered p (outputs p) = true.
Proof.
  unfold reads_covered, outputs. destruct (analyse_covers (as_steps (indexed p)) (indexed p)) as [H1 H2].
  rewrite H1, H2. reflexivity.
Qed.

(* a covered step is loaded *)
Lemma star_loads o k : has_star o k = true -> loads o k = true.
Proof.
  unfold has_star, loads. destruct (get_out k o) as [x|]; [| discriminate]. intros H.
  destruct x as [|a [|b r]]; [discriminate H | | reflexivity].
  cbn [existsb] in H. rewrite orb_false_r in H. apply String.eqb_eq in H. subst a. reflexivity.
Qed.

Lemma steps_of_In am m j : In (m, j) am -> In j (steps_of am m).
Proof.
  intros H. unfold steps_of. apply in_map_iff. exists (m, j). split; [reflexivity |]. apply filter_In. split; [exact H |]. apply String.eqb_refl.
Qed.

(* readable form: every field a statement reads lives on a step that loads its element *)
Theorem reads_loaded p i k s f : nth_error (indexed p) i = Some (k, s) -> In f (stmt_fields s) ->
  match namespace f with
  | None => loads (outputs p) k = true
  | Some m => forall j, In (m, j) (as_steps (indexed p)) -> loads (outputs p) j = true
  end.
Proof.
  intros Hn Hf. pose proof (analysis_covers p) as H. unfold reads_covered in H. apply andb_true_iff in H as [H _].
  rewrite forallb_forall in H. specialize (H (k, s) (nth_error_In _ _ Hn)). unfold stmt_covered in H. apply andb_true_iff in H as [H _].
  rewrite forallb_forall in H. specialize (H f Hf). unfold field_covered in H. cbn [fst] in H.
  destruct (namespace f) as [m|]; [| apply star_loads; exact H].
  intros j Hj. apply star_loads. rewrite forallb_forall in H. apply H. apply steps_of_In. exact Hj.
Qed.

(* select(m...) makes marks current (or part of the row): their steps load too *)
Theorem selected_loaded p i k ms m j : nth_error (indexed p) i = Some (k, SSelect ms) -> In m ms ->
  In (m, j) (as_steps (indexed p)) -> loads (outputs p) j = true.
Proof.
  intros Hn Hm Hj. pose proof (analysis_covers p) as H. unfold reads_covered in H. apply andb_true_iff in H as [H _].
  rewrite forallb_forall in H. specialize (H (k, SSelect ms) (nth_error_In _ _ Hn)). unfold stmt_covered in H. apply andb_true_iff in H as [_ H].
  cbn [snd] in H. rewrite forallb_forall in H. specialize (H m Hm). rewrite forallb_forall in H. apply star_loads. apply H. apply steps_of_In. exact Hj.
Qed.

(* the same for the statement list the planner hands to the compiler, whatever it is *)
Theorem plan_analysis_covers (o : list ostmt) : plan_reads_covered o (plan_outputs o) = true.
Proof.
  unfold plan_reads_covered, plan_outputs. destruct (analyse_covers (as_steps (indexed_plan o)) (indexed_plan o)) as [H1 H2].
  rewrite H1, H2. reflexivity.
Qed.

(* and for programs with aggregate / set / increment / jump / mark / null-producing moves *)
Theorem x_analysis_covers (p : list xstmt) : x_reads_covered p (x_outputs p) = true.
Proof.
  unfold x_reads_covered, x_outputs. destruct (analyse_covers (as_steps (x_indexed p)) (x_indexed p)) as [H1 H2].
  rewrite H1, H2. reflexivity.
Qed.
