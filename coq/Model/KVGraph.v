(* Structured-key model of kvgraph (+ the part of kvindex it uses) and the abstract graph it must
   refine (properties C03, C04; substrate of C01/C02/C16/C18).

   Two-level keys (DESIGN.md section 3): here a key is a tuple of identifiers; Model/Keys.v relates tuples
   to the 0x00-joined byte keys of kvgraph/keys.go.  Identifiers are numbers: 0 is the empty string,
   1..99 are valid names, >= 100 are names that validation rejects.

   Anchors: kvgraph/graph.go (insertVertex, insertEdge, AddVertex, AddEdge, BulkAdd, DelEdge, DelVertex,
   the Get.. readers), kvgraph/graphdb.go (AddGraph, DeleteGraph, ListGraphs), kvgraph/index.go, kvindex/kvindex.go
   (AddField, RemoveField, AddDocTx, GetTermMatch, FieldTerms), kvgraph/new.go, timestamp/timestamp.go,
   server/api.go (validation and graph-existence guards in front of the graph calls). *)
From Coq Require Import List NArith Bool Arith.
Import ListNotations.

Definition id := N.
Definition dat := N.
Definition etup := (id * id * id * id * id)%type.    (* graph, edge id, from, to, label *)
Definition et_g (t : etup) := let '(g, _, _, _, _) := t in g.
Definition et_e (t : etup) := let '(_, e, _, _, _) := t in e.
Definition et_s (t : etup) := let '(_, _, s, _, _) := t in s.
Definition et_d (t : etup) := let '(_, _, _, d, _) := t in d.
Definition et_l (t : etup) := let '(_, _, _, _, l) := t in l.

Definition etup_eqb (a b : etup) : bool :=
  N.eqb (et_g a) (et_g b) && N.eqb (et_e a) (et_e b) && N.eqb (et_s a) (et_s b)
  && N.eqb (et_d a) (et_d b) && N.eqb (et_l a) (et_l b).
Definition pair_eqb (a b : id * id) : bool := N.eqb (fst a) (fst b) && N.eqb (snd a) (snd b).
Definition fld_eqb (a b : id * bool) : bool := N.eqb (fst a) (fst b) && Bool.eqb (snd a) (snd b).

(* ---------- the persisted key families ---------- *)
Record gstore := {
  graphs : list id;                              (* g|graph *)
  verts : list ((id * id) * (id * dat));         (* v|graph|id  -> (label, data) *)
  edges : list (etup * dat);                     (* e|graph|eid|src|dst|label -> data *)
  srcs : list etup;                              (* s|graph|src|dst|eid|label *)
  dsts : list etup;                              (* d|graph|dst|src|eid|label *)
  ixfields : list (id * bool);                   (* f|graph.v.label (true) / f|graph.e.label (false) *)
  ixterms : list ((id * bool) * id);             (* t|field|string|label *)
  ixentries : list ((id * bool) * id * id)       (* i|field|string|label|docid *)
}.
Definition gempty : gstore :=
  {| graphs := []; verts := []; edges := []; srcs := []; dsts := []; ixfields := []; ixterms := []; ixentries := [] |}.

(* in-memory part of a running database *)
Record mstate := {
  kv : gstore;
  reg : list (id * bool);       (* kvindex.KVIndex.Fields *)
  tsmap : list (id * nat);      (* timestamp.Timestamp: graph -> logical time of last Touch *)
  clock : nat
}.
Definition minit : mstate := {| kv := gempty; reg := []; tsmap := []; clock := 0 |}.

(* ---------- atomic key-value writes ---------- *)
Inductive wr :=
| WSetGraph (g : id) | WDelGraph (g : id)
| WSetVert (g v l : id) (d : dat) | WDelVert (g v : id)
| WSetEdge (t : etup) (d : dat) | WDelEdge (t : etup)
| WSetSrc (t : etup) | WDelSrc (t : etup) | WSetDst (t : etup) | WDelDst (t : etup)
| WDelEdgesOf (g : id) | WDelVertsOf (g : id) | WDelSrcsOf (g : id) | WDelDstsOf (g : id)
| WSetField (f : id * bool) | WDelField (f : id * bool)
| WDelTermsOf (f : id * bool) | WDelEntriesOf (f : id * bool)
| WSetTerm (f : id * bool) (l : id) | WSetEntry (f : id * bool) (l doc : id).

Definition rm {X} (eqb : X -> X -> bool) (x : X) (l : list X) : list X := filter (fun y => negb (eqb x y)) l.
Definition rmk {K V} (eqb : K -> K -> bool) (k : K) (l : list (K * V)) : list (K * V) :=
  filter (fun kv => negb (eqb k (fst kv))) l.
Definition term_eqb (a b : (id * bool) * id) := fld_eqb (fst a) (fst b) && N.eqb (snd a) (snd b).
Definition entry_eqb (a b : (id * bool) * id * id) :=
  fld_eqb (fst (fst a)) (fst (fst b)) && N.eqb (snd (fst a)) (snd (fst b)) && N.eqb (snd a) (snd b).

Definition apply_wr (s : gstore) (w : wr) : gstore :=
  match w with
  | WSetGraph g => {| graphs := g :: rm N.eqb g (graphs s); verts := verts s; edges := edges s; srcs := srcs s; dsts := dsts s;
                      ixfields := ixfields s; ixterms := ixterms s; ixentries := ixentries s |}
  | WDelGraph g => {| graphs := rm N.eqb g (graphs s); verts := verts s; edges := edges s; srcs := srcs s; dsts := dsts s;
                      ixfields := ixfields s; ixterms := ixterms s; ixentries := ixentries s |}
  | WSetVert g v l d => {| graphs := graphs s; verts := ((g, v), (l, d)) :: rmk pair_eqb (g, v) (verts s); edges := edges s;
                           srcs := srcs s; dsts := dsts s; ixfields := ixfields s; ixterms := ixterms s; ixentries := ixentries s |}
  | WDelVert g v => {| graphs := graphs s; verts := rmk pair_eqb (g, v) (verts s); edges := edges s;
                       srcs := srcs s; dsts := dsts s; ixfields := ixfields s; ixterms := ixterms s; ixentries := ixentries s |}
  | WSetEdge t d => {| graphs := graphs s; verts := verts s; edges := (t, d) :: rmk etup_eqb t (edges s);
                       srcs := srcs s; dsts := dsts s; ixfields := ixfields s; ixterms := ixterms s; ixentries := ixentries s |}
  | WDelEdge t => {| graphs := graphs s; verts := verts s; edges := rmk etup_eqb t (edges s);
                     srcs := srcs s; dsts := dsts s; ixfields := ixfields s; ixterms := ixterms s; ixentries := ixentries s |}
  | WSetSrc t => {| graphs := graphs s; verts := verts s; edges := edges s; srcs := t :: rm etup_eqb t (srcs s); dsts := dsts s;
                    ixfields := ixfields s; ixterms := ixterms s; ixentries := ixentries s |}
  | WDelSrc t => {| graphs := graphs s; verts := verts s; edges := edges s; srcs := rm etup_eqb t (srcs s); dsts := dsts s;
                    ixfields := ixfields s; ixterms := ixterms s; ixentries := ixentries s |}
  | WSetDst t => {| graphs := graphs s; verts := verts s; edges := edges s; srcs := srcs s; dsts := t :: rm etup_eqb t (dsts s);
                    ixfields := ixfields s; ixterms := ixterms s; ixentries := ixentries s |}
  | WDelDst t => {| graphs := graphs s; verts := verts s; edges := edges s; srcs := srcs s; dsts := rm etup_eqb t (dsts s);
                    ixfields := ixfields s; ixterms := ixterms s; ixentries := ixentries s |}
  | WDelEdgesOf g => {| graphs := graphs s; verts := verts s; edges := filter (fun e => negb (N.eqb g (et_g (fst e)))) (edges s);
                        srcs := srcs s; dsts := dsts s; ixfields := ixfields s; ixterms := ixterms s; ixentries := ixentries s |}
  | WDelVertsOf g => {| graphs := graphs s; verts := filter (fun v => negb (N.eqb g (fst (fst v)))) (verts s); edges := edges s;
                        srcs := srcs s; dsts := dsts s; ixfields := ixfields s; ixterms := ixterms s; ixentries := ixentries s |}
  | WDelSrcsOf g => {| graphs := graphs s; verts := verts s; edges := edges s; srcs := filter (fun t => negb (N.eqb g (et_g t))) (srcs s);
                       dsts := dsts s; ixfields := ixfields s; ixterms := ixterms s; ixentries := ixentries s |}
  | WDelDstsOf g => {| graphs := graphs s; verts := verts s; edges := edges s; srcs := srcs s;
                       dsts := filter (fun t => negb (N.eqb g (et_g t))) (dsts s);
                       ixfields := ixfields s; ixterms := ixterms s; ixentries := ixentries s |}
  | WSetField f => {| graphs := graphs s; verts := verts s; edges := edges s; srcs := srcs s; dsts := dsts s;
                      ixfields := f :: rm fld_eqb f (ixfields s); ixterms := ixterms s; ixentries := ixentries s |}
  | WDelField f => {| graphs := graphs s; verts := verts s; edges := edges s; srcs := srcs s; dsts := dsts s;
                      ixfields := rm fld_eqb f (ixfields s); ixterms := ixterms s; ixentries := ixentries s |}
  | WDelTermsOf f => {| graphs := graphs s; verts := verts s; edges := edges s; srcs := srcs s; dsts := dsts s;
                        ixfields := ixfields s; ixterms := filter (fun t => negb (fld_eqb f (fst t))) (ixterms s); ixentries := ixentries s |}
  | WDelEntriesOf f => {| graphs := graphs s; verts := verts s; edges := edges s; srcs := srcs s; dsts := dsts s;
                          ixfields := ixfields s; ixterms := ixterms s;
                          ixentries := filter (fun t => negb (fld_eqb f (fst (fst t)))) (ixentries s) |}
  | WSetTerm f l => {| graphs := graphs s; verts := verts s; edges := edges s; srcs := srcs s; dsts := dsts s;
                       ixfields := ixfields s; ixterms := (f, l) :: rm term_eqb (f, l) (ixterms s); ixentries := ixentries s |}
  | WSetEntry f l doc => {| graphs := graphs s; verts := verts s; edges := edges s; srcs := srcs s; dsts := dsts s;
                            ixfields := ixfields s; ixterms := ixterms s;
                            ixentries := (f, l, doc) :: rm entry_eqb (f, l, doc) (ixentries s) |}
  end.

(* one top-level call on kvi.KVInterface = one atomic group of writes
   (BulkWrite / Update / Set / Delete / DeletePrefix) *)
Definition call := list wr.
Definition apply_call (s : gstore) (c : call) : gstore := fold_left apply_wr c s.
Definition apply_calls (s : gstore) (cs : list call) : gstore := fold_left apply_call cs s.

(* ---------- the mutating API ---------- *)
Inductive elem :=
| EV (v l : id) (d : dat)
| EE (e s t l : id) (d : dat).

Inductive op :=
| OAddGraph (g : id)
| ODeleteGraph (g : id)
| OAddVertex (g v l : id) (d : dat)
| OAddEdge (g e s t l : id) (d : dat)
| OBulkAdd (g : id) (els : list elem)
| ODelVertex (g v : id)
| ODelEdge (g e : id).

Definition valid_name (x : id) : bool := (0 <? x)%N && (x <? 100)%N.
Definition nonblank (x : id) : bool := negb (N.eqb x 0).
Definition valid_data (d : dat) : bool := (d <? 100)%N.       (* data >= 100: a property name validation rejects *)
Definition valid_vertex (v l : id) (d : dat) : bool := nonblank v && nonblank l && valid_data d.
Definition valid_edge (e s t l : id) (d : dat) : bool :=
  nonblank e && nonblank l && nonblank s && nonblank t && valid_data d.
Definition valid_elem (x : elem) : bool :=
  match x with EV v l d => valid_vertex v l d | EE e s t l d => valid_edge e s t l d end.

Definition has_graph (s : gstore) (g : id) : bool := existsb (N.eqb g) (graphs s).
Definition in_reg (r : list (id * bool)) (f : id * bool) : bool := existsb (fld_eqb f) r.

(* writes of insertVertex / insertEdge inside a bulk write (index entries only for registered fields) *)
Definition vertex_writes (r : list (id * bool)) (g v l : id) (d : dat) : list wr :=
  WSetVert g v l d :: (if in_reg r (g, true) then [WSetEntry (g, true) l v; WSetTerm (g, true) l] else []).
Definition edge_writes (r : list (id * bool)) (g e s t l : id) (d : dat) : list wr :=
  let tu := (g, e, s, t, l) in
  WSetEdge tu d :: WSetSrc tu :: WSetDst tu ::
  (if in_reg r (g, false) then [WSetEntry (g, false) l e; WSetTerm (g, false) l] else []).
Definition elem_writes (r : list (id * bool)) (g : id) (x : elem) : list wr :=
  match x with EV v l d => vertex_writes r g v l d | EE e s t l d => edge_writes r g e s t l d end.

Definition touch (m : mstate) (g : id) (k : gstore) (r : list (id * bool)) : mstate :=
  {| kv := k; reg := r; tsmap := (g, S (clock m)) :: rmk N.eqb g (tsmap m); clock := S (clock m) |}.
Definition untouched (m : mstate) (k : gstore) : mstate :=
  {| kv := k; reg := reg m; tsmap := tsmap m; clock := clock m |}.

(* the calls an operation issues, given the state it reads (None = rejected before any write) *)
Definition del_vertex_keys (s : gstore) (g v : id) : list etup :=
  filter (fun t => N.eqb g (et_g t) && N.eqb v (et_s t)) (srcs s) ++
  filter (fun t => N.eqb g (et_g t) && N.eqb v (et_d t)) (dsts s).
Definition del_edge_keys (s : gstore) (g e : id) : list etup :=
  map fst (filter (fun x => N.eqb g (et_g (fst x)) && N.eqb e (et_e (fst x))) (edges s)).
Definition del_tuple (t : etup) : list wr := [WDelEdge t; WDelSrc t; WDelDst t].

Definition op_calls (m : mstate) (o : op) : option (list call) :=
  let s := kv m in
  match o with
  | OAddGraph g =>
      if valid_name g then Some [[WSetField (g, true)]; [WSetField (g, false)]; [WSetGraph g]] else None
  | ODeleteGraph g =>
      if has_graph s g then
        Some ([[WDelEdgesOf g]; [WDelVertsOf g]; [WDelSrcsOf g]; [WDelDstsOf g]; [WDelGraph g]] ++
              flat_map (fun f => if N.eqb (fst f) g then [[WDelTermsOf f]; [WDelEntriesOf f]; [WDelField f]] else [])
                       (ixfields s))
      else None
  | OAddVertex g v l d =>
      if has_graph s g && valid_vertex v l d then Some [vertex_writes (reg m) g v l d] else None
  | OAddEdge g e a b l d =>
      if has_graph s g && valid_edge e a b l d then Some [edge_writes (reg m) g e a b l d] else None
  | OBulkAdd g els =>
      if has_graph s g then Some [flat_map (elem_writes (reg m) g) (filter valid_elem els)] else None
  | ODelVertex g v =>
      if has_graph s g && existsb (fun x => pair_eqb (g, v) (fst x)) (verts s)
      then Some [WDelVert g v :: flat_map del_tuple (del_vertex_keys s g v)] else None
  | ODelEdge g e =>
      if has_graph s g then
        match del_edge_keys s g e with
        | [] => None
        | ts => Some [flat_map del_tuple ts]
        end
      else None
  end.

Definition op_graph (o : op) : id :=
  match o with
  | OAddGraph g | ODeleteGraph g | OAddVertex g _ _ _ | OAddEdge g _ _ _ _ _ | OBulkAdd g _ | ODelVertex g _ | ODelEdge g _ => g
  end.

Definition reg_after (m : mstate) (o : op) : list (id * bool) :=
  match o with
  | OAddGraph g => (g, false) :: rm fld_eqb (g, false) ((g, true) :: rm fld_eqb (g, true) (reg m))
  | ODeleteGraph g => filter (fun f => negb (N.eqb (fst f) g && existsb (fld_eqb f) (ixfields (kv m)))) (reg m)
  | _ => reg m
  end.

Definition step (m : mstate) (o : op) : mstate * bool :=
  match op_calls m o with
  | None => (m, false)
  | Some cs => (touch m (op_graph o) (apply_calls (kv m) cs) (reg_after m o), true)
  end.
Definition run (ops : list op) : mstate := fold_left (fun m o => fst (step m o)) ops minit.

(* reopen: NewKVGraph over the persisted store (kvindex.NewIndex reloads the field registry) *)
Definition reopen (k : gstore) : mstate :=
  fold_left (fun m g => touch m g k (reg m)) (graphs k) {| kv := k; reg := ixfields k; tsmap := []; clock := 0 |}.

(* crash after the first n top-level calls of operation o, then reopen *)
Definition crash (m : mstate) (o : op) (n : nat) : mstate :=
  match op_calls m o with
  | None => reopen (kv m)
  | Some cs => reopen (apply_calls (kv m) (firstn n cs))
  end.

(* ---------- the read API, as the code computes it ---------- *)
Definition lbl_ok (ls : list id) (l : id) : bool := match ls with [] => true | _ => existsb (N.eqb l) ls end.
Definition get_vertex (s : gstore) (g v : id) : option (id * dat) :=
  option_map snd (find (fun x => pair_eqb (g, v) (fst x)) (verts s)).
(* GetEdge: scans e|g|eid| and keeps the last record found *)
Definition get_edges_by_id (s : gstore) (g e : id) : list (etup * dat) :=
  filter (fun x => N.eqb g (et_g (fst x)) && N.eqb e (et_e (fst x))) (edges s).
Definition vertex_list (s : gstore) (g : id) : list (id * (id * dat)) :=
  map (fun x => (snd (fst x), snd x)) (filter (fun x => N.eqb g (fst (fst x))) (verts s)).
Definition edge_list (s : gstore) (g : id) : list (etup * dat) :=
  filter (fun x => N.eqb g (et_g (fst x))) (edges s).
(* out(): for each s|g|v|... key with an accepted label, the destination vertex if it exists *)
Definition out_keys (s : gstore) (g v : id) (ls : list id) : list etup :=
  filter (fun t => N.eqb g (et_g t) && N.eqb v (et_s t) && lbl_ok ls (et_l t)) (srcs s).
Definition in_keys (s : gstore) (g v : id) (ls : list id) : list etup :=
  filter (fun t => N.eqb g (et_g t) && N.eqb v (et_d t) && lbl_ok ls (et_l t)) (dsts s).
Fixpoint keep_some {X} (l : list (option X)) : list X :=
  match l with [] => [] | Some x :: r => x :: keep_some r | None :: r => keep_some r end.
Definition out_verts (s : gstore) (g v : id) (ls : list id) : list (id * (id * dat)) :=
  keep_some (map (fun t => option_map (fun x => (et_d t, x)) (get_vertex s g (et_d t))) (out_keys s g v ls)).
Definition in_verts (s : gstore) (g v : id) (ls : list id) : list (id * (id * dat)) :=
  keep_some (map (fun t => option_map (fun x => (et_s t, x)) (get_vertex s g (et_s t))) (in_keys s g v ls)).
(* outE()/inE() with load: the edge record of each adjacency key (None = ghost: key without record) *)
Definition edge_data (s : gstore) (t : etup) : option dat :=
  option_map snd (find (fun x => etup_eqb t (fst x)) (edges s)).
Definition out_edges (s : gstore) (g v : id) (ls : list id) : list (etup * option dat) :=
  map (fun t => (t, edge_data s t)) (out_keys s g v ls).
Definition in_edges (s : gstore) (g v : id) (ls : list id) : list (etup * option dat) :=
  map (fun t => (t, edge_data s t)) (in_keys s g v ls).
(* label index *)
Definition label_terms (s : gstore) (f : id * bool) : list id :=
  map snd (filter (fun t => fld_eqb f (fst t)) (ixterms s)).
Definition label_scan (s : gstore) (g l : id) : list id :=      (* VertexLabelScan *)
  map snd (filter (fun t => fld_eqb (g, true) (fst (fst t)) && N.eqb l (snd (fst t))) (ixentries s)).
(* V().hasLabel(l) through the index: scan, then keep the ids whose vertex record exists *)
Definition label_lookup (s : gstore) (g l : id) : list (id * (id * dat)) :=
  keep_some (map (fun v => option_map (fun x => (v, x)) (get_vertex s g v)) (label_scan s g l)).
Definition ts_of (m : mstate) (g : id) : option nat := option_map snd (find (fun x => N.eqb g (fst x)) (tsmap m)).

(* ---------- the abstract graph database (specification) ---------- *)
Record aspec := {
  a_graphs : list id;
  a_verts : list ((id * id) * (id * dat));                    (* (graph, id) -> (label, data) *)
  a_edges : list ((id * id) * (id * id * id * dat))            (* (graph, eid) -> (from, to, label, data) *)
}.
Definition aempty : aspec := {| a_graphs := []; a_verts := []; a_edges := [] |}.
Definition a_has_graph (a : aspec) g := existsb (N.eqb g) (a_graphs a).

Definition a_add_elem (g : id) (a : aspec) (x : elem) : aspec :=
  match x with
  | EV v l d => {| a_graphs := a_graphs a; a_verts := ((g, v), (l, d)) :: rmk pair_eqb (g, v) (a_verts a); a_edges := a_edges a |}
  | EE e s t l d => {| a_graphs := a_graphs a; a_verts := a_verts a;
                       a_edges := ((g, e), (s, t, l, d)) :: rmk pair_eqb (g, e) (a_edges a) |}
  end.

Definition ae_from (x : (id * id) * (id * id * id * dat)) := let '(_, (s, _, _, _)) := x in s.
Definition ae_to (x : (id * id) * (id * id * id * dat)) := let '(_, (_, t, _, _)) := x in t.
Definition ae_label (x : (id * id) * (id * id * id * dat)) := let '(_, (_, _, l, _)) := x in l.
Definition ae_data (x : (id * id) * (id * id * id * dat)) := let '(_, (_, _, _, d)) := x in d.

(* returns the new abstract state and whether the call is a successful mutation *)
Definition a_step (a : aspec) (o : op) : aspec * bool :=
  match o with
  | OAddGraph g => if valid_name g then
      ({| a_graphs := g :: rm N.eqb g (a_graphs a); a_verts := a_verts a; a_edges := a_edges a |}, true) else (a, false)
  | ODeleteGraph g => if a_has_graph a g then
      ({| a_graphs := rm N.eqb g (a_graphs a);
          a_verts := filter (fun x => negb (N.eqb g (fst (fst x)))) (a_verts a);
          a_edges := filter (fun x => negb (N.eqb g (fst (fst x)))) (a_edges a) |}, true) else (a, false)
  | OAddVertex g v l d => if a_has_graph a g && valid_vertex v l d then (a_add_elem g a (EV v l d), true) else (a, false)
  | OAddEdge g e s t l d => if a_has_graph a g && valid_edge e s t l d then (a_add_elem g a (EE e s t l d), true) else (a, false)
  | OBulkAdd g els => if a_has_graph a g then (fold_left (a_add_elem g) (filter valid_elem els) a, true) else (a, false)
  | ODelVertex g v =>
      if a_has_graph a g && existsb (fun x => pair_eqb (g, v) (fst x)) (a_verts a) then
        ({| a_graphs := a_graphs a; a_verts := rmk pair_eqb (g, v) (a_verts a);
            a_edges := filter (fun x => negb (N.eqb g (fst (fst x)) && (N.eqb v (ae_from x) || N.eqb v (ae_to x)))) (a_edges a) |}, true)
      else (a, false)
  | ODelEdge g e =>
      if a_has_graph a g && existsb (fun x => pair_eqb (g, e) (fst x)) (a_edges a) then
        ({| a_graphs := a_graphs a; a_verts := a_verts a; a_edges := rmk pair_eqb (g, e) (a_edges a) |}, true)
      else (a, false)
  end.
Definition a_run (ops : list op) : aspec := fold_left (fun a o => fst (a_step a o)) ops aempty.

(* abstraction function: the abstract graph database a store denotes *)
Definition abs_edge (x : etup * dat) : (id * id) * (id * id * id * dat) :=
  ((et_g (fst x), et_e (fst x)), (et_s (fst x), et_d (fst x), et_l (fst x), snd x)).
Definition abs (s : gstore) : aspec :=
  {| a_graphs := graphs s; a_verts := verts s; a_edges := map abs_edge (edges s) |}.

(* abstract observations *)
Definition a_get_vertex (a : aspec) (g v : id) : option (id * dat) :=
  option_map snd (find (fun x => pair_eqb (g, v) (fst x)) (a_verts a)).
Definition a_out_edges (a : aspec) (g v : id) (ls : list id) :=
  filter (fun x => N.eqb g (fst (fst x)) && N.eqb v (ae_from x) && lbl_ok ls (ae_label x)) (a_edges a).
Definition a_in_edges (a : aspec) (g v : id) (ls : list id) :=
  filter (fun x => N.eqb g (fst (fst x)) && N.eqb v (ae_to x) && lbl_ok ls (ae_label x)) (a_edges a).
Definition a_out_verts (a : aspec) (g v : id) (ls : list id) : list (id * (id * dat)) :=
  keep_some (map (fun x => option_map (fun y => (ae_to x, y)) (a_get_vertex a g (ae_to x))) (a_out_edges a g v ls)).
Definition a_in_verts (a : aspec) (g v : id) (ls : list id) : list (id * (id * dat)) :=
  keep_some (map (fun x => option_map (fun y => (ae_from x, y)) (a_get_vertex a g (ae_from x))) (a_in_edges a g v ls)).
Definition a_vertex_list (a : aspec) (g : id) : list (id * (id * dat)) :=
  map (fun x => (snd (fst x), snd x)) (filter (fun x => N.eqb g (fst (fst x))) (a_verts a)).
Definition a_edge_list (a : aspec) (g : id) := filter (fun x => N.eqb g (fst (fst x))) (a_edges a).
Definition a_label_lookup (a : aspec) (g l : id) : list (id * (id * dat)) :=
  filter (fun x => N.eqb l (fst (snd x))) (a_vertex_list a g).

(* ---------- guards (the region where the pinned code is claimed correct) ---------- *)
(* an element id is never re-added with a different label / different endpoints-or-label:
   ghost record of what each (graph,id) has ever been written as, reset by DeleteGraph *)
Record ghost := { gh_v : list ((id * id) * id); gh_e : list ((id * id) * (id * id * id)) }.
Definition gh_empty := {| gh_v := []; gh_e := [] |}.
Definition triple_eqb (a b : id * id * id) : bool :=
  N.eqb (fst (fst a)) (fst (fst b)) && N.eqb (snd (fst a)) (snd (fst b)) && N.eqb (snd a) (snd b).
Definition gh_elem_ok (g : id) (h : ghost) (x : elem) : bool :=
  match x with
  | EV v l _ => match find (fun y => pair_eqb (g, v) (fst y)) (gh_v h) with Some (_, l') => N.eqb l l' | None => true end
  | EE e s t l _ => match find (fun y => pair_eqb (g, e) (fst y)) (gh_e h) with
                    | Some (_, k) => triple_eqb (s, t, l) k | None => true end
  end.
Definition gh_add (g : id) (h : ghost) (x : elem) : ghost :=
  match x with
  | EV v l _ => {| gh_v := ((g, v), l) :: gh_v h; gh_e := gh_e h |}
  | EE e s t l _ => {| gh_v := gh_v h; gh_e := ((g, e), (s, t, l)) :: gh_e h |}
  end.
Fixpoint gh_elems (g : id) (h : ghost) (els : list elem) : option ghost :=
  match els with
  | [] => Some h
  | x :: r => if gh_elem_ok g h x then gh_elems g (gh_add g h x) r else None
  end.
Definition gh_step (h : ghost) (o : op) : option ghost :=
  match o with
  | OAddVertex g v l d => if valid_vertex v l d then gh_elems g h [EV v l d] else Some h
  | OAddEdge g e s t l d => if valid_edge e s t l d then gh_elems g h [EE e s t l d] else Some h
  | OBulkAdd g els => gh_elems g h (filter valid_elem els)
  | ODeleteGraph g => Some {| gh_v := filter (fun y => negb (N.eqb g (fst (fst y)))) (gh_v h);
                              gh_e := filter (fun y => negb (N.eqb g (fst (fst y)))) (gh_e h) |}
  | _ => Some h
  end.
Fixpoint guard_from (h : ghost) (ops : list op) : bool :=
  match ops with
  | [] => true
  | o :: r => match gh_step h o with Some h' => guard_from h' r | None => false end
  end.
Definition guard (ops : list op) : bool := guard_from gh_empty ops.
