package main

import (
	"context"
	"encoding/json"
	"fmt"
	"math/rand"
	"net"
	"os"
	"regexp"
	"sort"
	"strings"
	"sync"
	"time"

	"github.com/bmeg/grip/gdbi"
	"github.com/bmeg/grip/gripql"
	"github.com/bmeg/grip/util"
	"google.golang.org/grpc"
	"google.golang.org/grpc/test/bufconn"
	"google.golang.org/protobuf/types/known/structpb"

	"gripverif/internal/coq"
)

func init() {
	props["C18"] = runC18
	workers["bulk"] = func(args []string) { workerLoop(bulkWorker) }
}

type c18Elem struct {
	Graph    string   `json:"graph"`
	IsVertex bool     `json:"is_vertex"`
	IsEdge   bool     `json:"is_edge"`
	Gid      string   `json:"gid"`
	Label    string   `json:"label"`
	From     string   `json:"from,omitempty"`
	To       string   `json:"to,omitempty"`
	Keys     []string `json:"keys,omitempty"`
	Val      int      `json:"val"`
}
type c18Input struct {
	Stream []c18Elem `json:"stream"`
	Driver string    `json:"driver"`
	BatchK int       `json:"batch_k"`
}
type c18Graph struct {
	Vertices []c17Elem `json:"vertices"`
	Edges    []c17Elem `json:"edges"`
}
type c18Obs struct {
	Ins, Err           int32
	Bulk, Seq          map[string]c18Graph
	BulkAnon, SeqAnon  map[string]int // edges stored under a generated id, per graph
	SeqOK, SeqFailed   int
	BatchK             int
	VBatches, EBatches [][]int // util.StreamBatch: payloads of the batches given to vertexAdd / edgeAdd
	Error              string `json:"error,omitempty"`
}

var c18KnownID = regexp.MustCompile(`^(v|e|b)[0-9]+$|^x$|^y$`)

var c18Graphs = []string{"g1", "g2"}

func (e c18Elem) proto() *gripql.GraphElement {
	data := map[string]interface{}{"val": float64(e.Val)}
	for _, k := range e.Keys {
		data[k] = 1.0
	}
	s := &structpb.Struct{Fields: map[string]*structpb.Value{}}
	for k, v := range data {
		x, _ := structpb.NewValue(v)
		s.Fields[k] = x
	}
	ge := &gripql.GraphElement{Graph: e.Graph}
	if e.IsVertex {
		ge.Vertex = &gripql.Vertex{Gid: e.Gid, Label: e.Label, Data: s}
	}
	if e.IsEdge {
		ge.Edge = &gripql.Edge{Gid: e.Gid, Label: e.Label, From: e.From, To: e.To, Data: s}
	}
	return ge
}

func dumpGraphs(env *srvEnv) (map[string]c18Graph, map[string]int) {
	out := map[string]c18Graph{}
	anon := map[string]int{}
	ctx := context.Background()
	for _, g := range c18Graphs {
		gi, err := env.db.Graph(g)
		if err != nil {
			continue
		}
		gr := c18Graph{Vertices: []c17Elem{}, Edges: []c17Elem{}}
		for v := range gi.GetVertexList(ctx, true) {
			val := -1
			if x, ok := v.Data["val"].(float64); ok {
				val = int(x)
			}
			gr.Vertices = append(gr.Vertices, c17Elem{ID: v.ID, Label: v.Label, Val: val})
		}
		for e := range gi.GetEdgeList(ctx, true) {
			val := -1
			if x, ok := e.Data["val"].(float64); ok {
				val = int(x)
			}
			if !c18KnownID.MatchString(e.ID) {
				anon[g]++
				continue
			}
			gr.Edges = append(gr.Edges, c17Elem{ID: e.ID, Label: e.Label, Val: val, From: e.From, To: e.To})
		}
		sort.Slice(gr.Vertices, func(a, b int) bool { return gr.Vertices[a].ID < gr.Vertices[b].ID })
		sort.Slice(gr.Edges, func(a, b int) bool { return gr.Edges[a].ID < gr.Edges[b].ID })
		out[g] = gr
		if _, ok := anon[g]; !ok {
			anon[g] = 0
		}
	}
	return out, anon
}

func bulkWorker(req json.RawMessage) interface{} {
	var in c18Input
	if err := json.Unmarshal(req, &in); err != nil {
		return c18Obs{Error: err.Error()}
	}
	ctx := context.Background()
	ob := c18Obs{}
	// bulk
	viaClient := strings.HasSuffix(in.Driver, "+client")
	in.Driver = strings.TrimSuffix(in.Driver, "+client")
	env, err := newSrvEnv(in.Driver)
	if err != nil {
		return c18Obs{Error: err.Error()}
	}
	for _, g := range c18Graphs {
		env.srv.AddGraph(ctx, &gripql.GraphID{Graph: g})
	}
	if viaClient {
		// the same server behind a real gRPC connection, loaded by the repository's own client: when Client.BulkAdd
		// returns, the graphs are read at once
		res, err := clientBulk(env, in.Stream)
		if err != nil {
			ob.Error = "client BulkAdd: " + err.Error()
		}
		if res != nil {
			ob.Ins, ob.Err = res.InsertCount, res.ErrorCount
		} else if err == nil {
			ob.Error = "client BulkAdd returned before the server had answered"
		}
	} else {
		bs := &bulkStream{fakeStream: fakeStream{ctx}}
		for _, e := range in.Stream {
			bs.elems = append(bs.elems, e.proto())
		}
		if err := env.srv.BulkAdd(bs); err != nil {
			ob.Error = "BulkAdd: " + err.Error()
		}
		if bs.res != nil {
			ob.Ins, ob.Err = bs.res.InsertCount, bs.res.ErrorCount
		}
	}
	ob.Bulk, ob.BulkAnon = dumpGraphs(env)
	env.close()
	// one at a time
	env2, err := newSrvEnv(in.Driver)
	if err != nil {
		return c18Obs{Error: err.Error()}
	}
	for _, g := range c18Graphs {
		env2.srv.AddGraph(ctx, &gripql.GraphID{Graph: g})
	}
	for _, e := range in.Stream {
		ge := e.proto()
		failed := 0
		if ge.Vertex != nil {
			if _, err := env2.srv.AddVertex(ctx, &gripql.GraphElement{Graph: ge.Graph, Vertex: ge.Vertex}); err != nil {
				failed++
			} else {
				ob.SeqOK++
			}
		}
		if ge.Edge != nil {
			if _, err := env2.srv.AddEdge(ctx, &gripql.GraphElement{Graph: ge.Graph, Edge: ge.Edge}); err != nil {
				failed++
			} else {
				ob.SeqOK++
			}
		}
		if ge.Graph != "g1" && ge.Graph != "g2" {
			failed = 1 // one element refused because of its graph, whatever it carries (even nothing)
		}
		ob.SeqFailed += failed
	}
	ob.Seq, ob.SeqAnon = dumpGraphs(env2)
	env2.close()
	// util.StreamBatch (the batching used by the drivers that batch) on the g1 elements of the same stream
	ob.BatchK = in.BatchK
	ob.VBatches, ob.EBatches = [][]int{}, [][]int{}
	ch := make(chan *gdbi.GraphElement, len(in.Stream)+1)
	for _, e := range in.Stream {
		if e.Graph == "g1" {
			ch <- gdbi.NewGraphElement(e.proto())
		}
	}
	close(ch)
	payload := func(d map[string]interface{}) int {
		if x, ok := d["val"].(float64); ok {
			return int(x)
		}
		return -1
	}
	var mu sync.Mutex
	util.StreamBatch(ch, in.BatchK, "g1",
		func(vs []*gdbi.Vertex) error {
			b := []int{}
			for _, v := range vs {
				b = append(b, payload(v.Data))
			}
			mu.Lock()
			ob.VBatches = append(ob.VBatches, b)
			mu.Unlock()
			return nil
		},
		func(es []*gdbi.Edge) error {
			b := []int{}
			for _, e := range es {
				b = append(b, payload(e.Data))
			}
			mu.Lock()
			ob.EBatches = append(ob.EBatches, b)
			mu.Unlock()
			return nil
		})
	return ob
}

// editTap serves the Edit API of a server and keeps the answer of BulkAdd
type editTap struct {
	gripql.EditServer
	mu  sync.Mutex
	res *gripql.BulkEditResult
}
type tapStream struct {
	gripql.Edit_BulkAddServer
	t *editTap
}

func (t *editTap) BulkAdd(s gripql.Edit_BulkAddServer) error {
	return t.EditServer.BulkAdd(&tapStream{s, t})
}
func (s *tapStream) SendAndClose(r *gripql.BulkEditResult) error {
	s.t.mu.Lock()
	s.t.res = r
	s.t.mu.Unlock()
	return s.Edit_BulkAddServer.SendAndClose(r)
}

func clientBulk(env *srvEnv, stream []c18Elem) (*gripql.BulkEditResult, error) {
	lis := bufconn.Listen(1 << 20)
	gs := grpc.NewServer()
	tap := &editTap{EditServer: env.srv}
	gripql.RegisterEditServer(gs, tap)
	go gs.Serve(lis)
	defer gs.Stop()
	conn, err := grpc.Dial("bufnet", grpc.WithContextDialer(func(context.Context, string) (net.Conn, error) { return lis.Dial() }), grpc.WithInsecure())
	if err != nil {
		return nil, err
	}
	defer conn.Close()
	cl := gripql.WrapClient(nil, gripql.NewEditClient(conn), nil, nil)
	ch := make(chan *gripql.GraphElement, 10)
	go func() {
		for _, e := range stream {
			ch <- e.proto()
		}
		close(ch)
	}()
	err = cl.BulkAdd(ch)
	tap.mu.Lock()
	defer tap.mu.Unlock()
	return tap.res, err
}

func c18Stream(rng *rand.Rand, n int) []c18Elem {
	out := []c18Elem{}
	graphs := []string{"g1", "g1", "g1", "g2", "g2", "nope", "g1__schema__", ""}
	g := graphs[rng.Intn(len(graphs))]
	for i := 0; i < n; i++ {
		if rng.Intn(4) == 0 { // runs of one graph, then a switch
			g = graphs[rng.Intn(len(graphs))]
		}
		e := c18Elem{Graph: g, Val: i + 1}
		switch r := rng.Intn(20); {
		case r < 10:
			e.IsVertex = true
			e.Gid, e.Label = fmt.Sprintf("v%d", rng.Intn(12)), fmt.Sprintf("L%d", rng.Intn(2))
		case r < 15:
			k := rng.Intn(6)
			e.IsEdge = true
			e.Gid, e.Label, e.From, e.To = fmt.Sprintf("e%d", k), "E", fmt.Sprintf("v%d", k), fmt.Sprintf("v%d", k+1)
		case r < 16: // invalid vertex
			e.IsVertex = true
			e.Gid, e.Label = []string{"", "x", "y"}[rng.Intn(3)], []string{"", "L"}[rng.Intn(2)]
			if e.Gid != "" && e.Label != "" {
				e.Keys = []string{[]string{"_gid", "a.b", "_label", "bad key"}[rng.Intn(4)]}
			}
		case r < 17: // invalid edge
			e.IsEdge = true
			k := rng.Intn(6)
			e.Gid, e.Label, e.From, e.To = fmt.Sprintf("e%d", k), "E", fmt.Sprintf("v%d", k), fmt.Sprintf("v%d", k+1)
			switch rng.Intn(4) {
			case 0:
				e.Label = ""
			case 1:
				e.From = ""
			case 2:
				e.To = ""
			default:
				e.Keys = []string{"_from"}
			}
		case r < 18 && rng.Intn(2) == 0: // an edge without id: it gets a generated one
			k := rng.Intn(6)
			e.IsEdge = true
			e.Gid, e.Label, e.From, e.To = "", "E", fmt.Sprintf("v%d", k), fmt.Sprintf("v%d", k+1)
		case r < 18: // valid with extra fields
			e.IsVertex = true
			e.Gid, e.Label, e.Keys = fmt.Sprintf("v%d", rng.Intn(12)), "L0", []string{"name", "w"}
		case r < 19: // neither vertex nor edge
		default: // both
			k := rng.Intn(6)
			e.IsVertex, e.IsEdge = true, true
			e.Gid, e.Label, e.From, e.To = fmt.Sprintf("b%d", k), "B", fmt.Sprintf("v%d", k), fmt.Sprintf("v%d", k+1)
		}
		out = append(out, e)
	}
	return out
}

func runC18(ctx *Ctx) error {
	ctx.EvalMod = "Eval_C18"
	ctx.CaseTy = "c18_case"
	ctx.Shard = 25
	ctx.Scope = "N_scope"
	ctx.Rule = "element streams through the server's BulkAdd (fake client stream, in-process server, badger and pebble; one stream in five through gripql.Client.BulkAdd over an in-memory gRPC connection to that server, the graphs read the moment the client call returns) and the same elements through AddVertex/AddEdge one at a time on a second fresh server: lengths 0,1,2,49,50,51,99,100,101,150,260 and random lengths, exact multiples of the batch size, runs of elements for g1/g2 interleaved with a missing graph and a schema graph, 12 vertex ids and 6 edge ids reused throughout (later writes overwrite earlier ones), invalid vertices (empty gid/label, reserved or malformed field names), invalid edges (empty label/from/to, reserved field), elements with neither or both of vertex and edge, edges without id; the g1 elements of every stream also go through util.StreamBatch with batch sizes 1..50 and recording callbacks; observed: the batches it hands out, InsertCount/ErrorCount, the vertices and edges of both graphs after each way of loading, acknowledged and refused single adds; non-trivial = a stream that switches graph at least twice and contains an invalid element; distinct by input"
	var inputs []c18Input
	if ctx.Replay != nil {
		var in c18Input
		if err := json.Unmarshal(ctx.Replay, &in); err != nil {
			return err
		}
		inputs = []c18Input{in}
	} else {
		for i, n := range []int{0, 1, 2, 49, 50, 51, 99, 100, 101, 150, 260} {
			drv := "badger"
			if i%2 == 1 {
				drv = "pebble"
			}
			inputs = append(inputs, c18Input{Stream: c18Stream(ctx.Rng, n), Driver: drv, BatchK: []int{50, 1, 7, 25}[i%4]})
			if i%3 == 1 {
				// through the repository's own client (gripql.Client.BulkAdd) over a gRPC connection to the same server
				inputs = append(inputs, c18Input{Stream: c18Stream(ctx.Rng, n), Driver: "badger+client", BatchK: 50})
			}
			if i%3 == 0 {
				// the same through a driver whose bulk load is util.StreamBatch (it checks the graph named in every element)
				inputs = append(inputs, c18Input{Stream: c18Stream(ctx.Rng, n), Driver: "badger+batch", BatchK: 50})
			}
		}
		// exact multiples of the batch size for util.StreamBatch: k valid vertices / edges of g1 in a row
		for _, k := range []int{1, 2, 5, 50} {
			for _, mult := range []int{1, 2, 3} {
				st := []c18Elem{}
				for j := 0; j < k*mult; j++ {
					st = append(st, c18Elem{Graph: "g1", IsVertex: true, Gid: fmt.Sprintf("v%d", j%12), Label: "L0", Val: j + 1})
				}
				for j := 0; j < k*mult; j++ {
					st = append(st, c18Elem{Graph: "g1", IsEdge: true, Gid: fmt.Sprintf("e%d", j%6), Label: "E", From: fmt.Sprintf("v%d", j%6), To: fmt.Sprintf("v%d", j%6+1), Val: 1000 + j})
				}
				inputs = append(inputs, c18Input{Stream: st, Driver: "badger", BatchK: k})
			}
		}
		m := ctx.Pick(40, 400)
		for i := 0; i < m; i++ {
			drv := "badger"
			if i%3 == 2 {
				drv = "pebble"
			}
			if i%5 == 4 {
				drv = "badger+batch"
			}
			if i%5 == 1 {
				drv = "badger+client"
			}
			inputs = append(inputs, c18Input{Stream: c18Stream(ctx.Rng, ctx.Rng.Intn(70)), Driver: drv, BatchK: 1 + ctx.Rng.Intn(9)})
		}
	}
	reqs := make([]json.RawMessage, len(inputs))
	for i, in := range inputs {
		reqs[i], _ = json.Marshal(in)
	}
	root, _ := os.MkdirTemp("", "c18root")
	os.Setenv("TMPDIR", root)
	defer os.RemoveAll(root)
	res := runIsolated("bulk", reqs, 8, 120*time.Second)
	rerunFailed("bulk", reqs, res, 120*time.Second)
	os.Unsetenv("TMPDIR")
	for i, in := range inputs {
		var ob c18Obs
		r := res[i]
		switch {
		case r.Crashed:
			ob = c18Obs{Error: "crash: " + tailStr(r.Stderr, 1500)}
		case r.Timeout:
			ob = c18Obs{Error: "worker timeout"}
		default:
			json.Unmarshal(r.Out, &ob)
		}
		elems := make([]string, len(in.Stream))
		switches, invalid := 0, false
		for k, e := range in.Stream {
			if k > 0 && in.Stream[k-1].Graph != e.Graph {
				switches++
			}
			if (e.IsVertex && (e.Gid == "" || e.Label == "" || len(e.Keys) == 1)) || (e.IsEdge && (e.Label == "" || e.From == "" || e.To == "")) {
				invalid = true
			}
			elems[k] = coq.Record("b_graph", coq.Str(e.Graph), "b_is_vertex", coq.Bool(e.IsVertex), "b_is_edge", coq.Bool(e.IsEdge),
				"b_gid", coq.Str(e.Gid), "b_label", coq.Str(e.Label), "b_from", coq.Str(e.From), "b_to", coq.Str(e.To),
				"b_keys", coq.StrList(append([]string{"val"}, e.Keys...)), "b_val", fmt.Sprint(e.Val))
		}
		tab := func(m map[string]c18Graph) string {
			items := []string{}
			for _, g := range c18Graphs {
				gr, ok := m[g]
				if !ok {
					continue
				}
				vs := make([]string, len(gr.Vertices))
				for k, v := range gr.Vertices {
					vs[k] = fmt.Sprintf("(%s, (%s, %d))", coq.Str(v.ID), coq.Str(v.Label), maxInt(v.Val, 0))
				}
				es := make([]string, len(gr.Edges))
				for k, v := range gr.Edges {
					es[k] = fmt.Sprintf("(%s, (%s, %d))", coq.Str(v.ID), coq.Str(v.Label), maxInt(v.Val, 0))
				}
				items = append(items, fmt.Sprintf("(%s, (%s, %s))", coq.Str(g), coq.List(vs), coq.List(es)))
			}
			return coq.List(items)
		}
		ins, errc := ob.Ins, ob.Err
		if ob.Error != "" {
			ins, errc = 999999, 999999
		}
		cc := coq.Record("c_exists", coq.StrList(c18Graphs), "c_stream", coq.List(elems), "o_ins", fmt.Sprint(ins), "o_err", fmt.Sprint(errc),
			"o_bulk", tab(ob.Bulk), "o_seq", tab(ob.Seq), "o_seq_ok", fmt.Sprint(ob.SeqOK), "o_seq_failed", fmt.Sprint(ob.SeqFailed),
			"o_bulk_anon", anonCoq(ob.BulkAnon), "o_seq_anon", anonCoq(ob.SeqAnon), "c_batch", fmt.Sprintf("%d%%nat", in.BatchK),
			"o_vbatches", batchesCoq(ob.VBatches), "o_ebatches", batchesCoq(ob.EBatches))
		key, _ := json.Marshal(in)
		ctx.Add(Case{Input: in, Observed: ob, Coq: cc, Nontrivial: switches >= 2 && invalid, Key: string(key),
			Tags: []string{"driver=" + in.Driver, fmt.Sprintf("len=%d", len(in.Stream))}})
	}
	return nil
}

func anonCoq(m map[string]int) string {
	items := []string{}
	for _, g := range c18Graphs {
		if n, ok := m[g]; ok {
			items = append(items, fmt.Sprintf("(%s, %d%%nat)", coq.Str(g), n))
		}
	}
	return coq.List(items)
}
func batchesCoq(bs [][]int) string {
	items := make([]string, len(bs))
	for i, b := range bs {
		xs := make([]string, len(b))
		for j, x := range b {
			xs[j] = fmt.Sprint(maxInt(x, 0))
		}
		items[i] = coq.List(xs)
	}
	return coq.List(items)
}

func maxInt(a, b int) int {
	if a > b {
		return a
	}
	return b
}
