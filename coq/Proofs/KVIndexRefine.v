(* C09, history level: on every history that never adds a live document id again (the region outside known
   finding 5) the index state of Model/KVIndex.v refines the brute-force specification: the entry keys are
   exactly the (field, term, doc) triples of the live documents, the term keys are exactly the terms that
   have an entry, and every stored count is either invalidated (0) or the true count. *)
From Coq Require Import List NArith Bool Arith Lia Permutation.
Import ListNotations.
From Grip Require Import Model.KVIndex.

(* ---------- boolean equalities ---------- *)
Lemma term_eqb_eq a b : term_eqb a b = true <-> a = b.
Proof.
  destruct a, b; simpl; try (split; intros H; discriminate H).
  - rewrite N.eqb_eq. split; [intros ->; reflexivity | intros H; injection H as H; exact H].
  - rewrite N.eqb_eq. split; [intros ->; reflexivity | intros H; injection H as H; exact H].
Qed.
Lemma ft_eqb_eq a b : ft_eqb a b = true <-> a = b.
Proof.
  destruct a as [f t], b as [f' t']. unfold ft_eqb. simpl. rewrite andb_true_iff, N.eqb_eq, term_eqb_eq.
  split; [intros [-> ->]; reflexivity | intros H; injection H as H1 H2; auto].
Qed.
Lemma en_eqb_eq a b : en_eqb a b = true <-> a = b.
Proof.
  destruct a as [k d], b as [k' d']. unfold en_eqb. simpl. rewrite andb_true_iff, N.eqb_eq, ft_eqb_eq.
  split; [intros [-> ->]; reflexivity | intros H; injection H as H1 H2; auto].
Qed.
Lemma ft_eqb_refl a : ft_eqb a a = true.  Proof. apply ft_eqb_eq. reflexivity. Qed.
Lemma en_eqb_refl a : en_eqb a a = true.  Proof. apply en_eqb_eq. reflexivity. Qed.
Lemma ft_eqb_neq a b : ft_eqb a b = false <-> a <> b.
Proof. rewrite <- ft_eqb_eq. destruct (ft_eqb a b); split; intros H; try reflexivity; try discriminate; auto. exfalso; apply H; reflexivity. Qed.
Lemma en_eqb_neq a b : en_eqb a b = false <-> a <> b.
Proof. rewrite <- en_eqb_eq. destruct (en_eqb a b); split; intros H; try reflexivity; try discriminate; auto. exfalso; apply H; reflexivity. Qed.
Lemma ft_dec (a b : fterm) : a = b \/ a <> b.
Proof. destruct (ft_eqb a b) eqn:E; [left; apply ft_eqb_eq; exact E | right; apply ft_eqb_neq; exact E]. Qed.
Lemma en_dec (a b : entry) : a = b \/ a <> b.
Proof. destruct (en_eqb a b) eqn:E; [left; apply en_eqb_eq; exact E | right; apply en_eqb_neq; exact E]. Qed.

(* ---------- entries ---------- *)
Lemma In_set_entry e x l : In x (set_entry e l) <-> x = e \/ In x l.
Proof.
  unfold set_entry. simpl. rewrite filter_In. split.
  - intros [H | [H _]]; [left; symmetry; exact H | right; exact H].
  - intros [H | H]; [left; symmetry; exact H |]. destruct (en_dec e x) as [E | E]; [left; exact E |].
    right. split; [exact H |]. apply en_eqb_neq in E. rewrite E. reflexivity.
Qed.
Lemma In_del_entry e x l : In x (del_entry e l) <-> In x l /\ x <> e.
Proof.
  unfold del_entry. rewrite filter_In. split; intros [H1 H2]; split; try exact H1.
  - intros ->. rewrite en_eqb_refl in H2. discriminate H2.
  - assert (e <> x) as H3 by (intros E; apply H2; symmetry; exact E). apply en_eqb_neq in H3. rewrite H3. reflexivity.
Qed.
Lemma NoDup_set_entry e l : NoDup l -> NoDup (set_entry e l).
Proof.
  intros H. unfold set_entry. constructor; [| apply NoDup_filter; exact H].
  rewrite filter_In. intros [_ H2]. rewrite en_eqb_refl in H2. discriminate H2.
Qed.
Lemma NoDup_del_entry e l : NoDup l -> NoDup (del_entry e l).
Proof. intros H. apply NoDup_filter. exact H. Qed.
Lemma has_entry_In e l : has_entry e l = true <-> In e l.
Proof.
  unfold has_entry. rewrite existsb_exists. split.
  - intros [x [H1 H2]]. apply en_eqb_eq in H2. subst. exact H1.
  - intros H. exists e. split; [exact H | apply en_eqb_refl].
Qed.

(* ---------- counting ---------- *)
Lemma count_cons k e l : count_entries k (e :: l) = (if ft_eqb k (fst e) then 1 else 0) + count_entries k l.
Proof.
  unfold count_entries. cbn [filter].
  change (@fst fterm N e) with (@fst (N * term) N e). destruct (ft_eqb k (fst e)); reflexivity.
Qed.
Lemma count_nil k : count_entries k [] = 0.  Proof. reflexivity. Qed.
Lemma count_filter_other k (p : entry -> bool) l :
  (forall x, In x l -> fst x = k -> p x = true) -> count_entries k (filter p l) = count_entries k l.
Proof.
  induction l as [|x l IH]; intros H; [reflexivity |]. simpl.
  assert (count_entries k (filter p l) = count_entries k l) as IH' by (apply IH; intros y Hy; apply H; right; exact Hy).
  destruct (p x) eqn:Px.
  - rewrite !count_cons, IH'. reflexivity.
  - rewrite count_cons, IH'. destruct (ft_eqb k (fst x)) eqn:E; [| reflexivity].
    apply ft_eqb_eq in E. rewrite (H x (or_introl eq_refl) (eq_sym E)) in Px. discriminate Px.
Qed.
Lemma count_filter_none k (p : entry -> bool) l :
  (forall x, In x l -> fst x = k -> p x = false) -> count_entries k (filter p l) = 0.
Proof.
  induction l as [|x l IH]; intros H; [reflexivity |]. simpl.
  assert (count_entries k (filter p l) = 0) as IH' by (apply IH; intros y Hy; apply H; right; exact Hy).
  destruct (p x) eqn:Px; [| exact IH'].
  rewrite count_cons, IH'. destruct (ft_eqb k (fst x)) eqn:E; [| reflexivity].
  apply ft_eqb_eq in E. rewrite (H x (or_introl eq_refl) (eq_sym E)) in Px. discriminate Px.
Qed.
Lemma count_pos_iff k l : count_entries k l <> 0 <-> exists d, In (k, d) l.
Proof.
  induction l as [|x l IH].
  - simpl. split; [intros H; exfalso; apply H; reflexivity | intros [d []]].
  - rewrite count_cons. destruct (ft_eqb k (fst x)) eqn:E.
    + split; [| intros _; simpl; discriminate]. intros _. apply ft_eqb_eq in E. exists (snd x). left. rewrite E. destruct x; reflexivity.
    + simpl. rewrite IH. split; intros [d H]; exists d; [right; exact H |].
      destruct H as [H | H]; [| exact H]. subst x. simpl in E. rewrite ft_eqb_refl in E. discriminate E.
Qed.
Lemma count_set_other k e l : fst e <> k -> count_entries k (set_entry e l) = count_entries k l.
Proof.
  intros H. unfold set_entry. rewrite count_cons.
  match goal with |- context [if ?c then 1 else 0] => assert (c = false) as -> by (apply ft_eqb_neq; intros E; apply H; symmetry; exact E) end.
  simpl. apply count_filter_other. intros x _ Hx. apply negb_true_iff. apply en_eqb_neq. intros E. subst x. exact (H Hx).
Qed.
Lemma count_set_same k d l : count_entries k (set_entry (k, d) l) <> 0.
Proof. unfold set_entry. rewrite count_cons. simpl. rewrite ft_eqb_refl. simpl. discriminate. Qed.
Lemma count_del_other k e l : fst e <> k -> count_entries k (del_entry e l) = count_entries k l.
Proof.
  intros H. unfold del_entry. apply count_filter_other. intros x _ Hx. apply negb_true_iff. apply en_eqb_neq. intros E. subst x. exact (H Hx).
Qed.
Lemma count_del_same k d l : NoDup l -> In (k, d) l -> S (count_entries k (del_entry (k, d) l)) = count_entries k l.
Proof.
  induction l as [|x l IH]; intros HN HI; [destruct HI |].
  inversion HN as [|x' l' Hx HN']; subst. unfold del_entry in *. simpl. destruct HI as [HI | HI].
  - subst x. rewrite en_eqb_refl. simpl. rewrite count_cons. simpl. rewrite ft_eqb_refl. simpl. f_equal.
    apply count_filter_other. intros y Hy _. apply negb_true_iff. apply en_eqb_neq. intros E. subst y. exact (Hx Hy).
  - assert (en_eqb (k, d) x = false) as E.
    { apply en_eqb_neq. intros E. subst x. exact (Hx HI). }
    rewrite E. simpl. rewrite !count_cons, <- (IH HN' HI). match goal with |- context [if ?c then 1 else 0] => destruct c end; simpl; reflexivity.
Qed.
Lemma del_entry_absent e l : ~ In e l -> del_entry e l = l.
Proof.
  intros H. unfold del_entry. induction l as [|x l IH]; [reflexivity |]. simpl.
  assert (en_eqb e x = false) as E by (apply en_eqb_neq; intros E; subst; apply H; left; reflexivity).
  rewrite E. simpl. f_equal. apply IH. intros H'. apply H. right. exact H'.
Qed.

(* ---------- term keys ---------- *)
Definition keys (t : list (fterm * nat)) : list fterm := map fst t.
Lemma keys_filter_In (p : fterm -> bool) k (l : list (fterm * nat)) :
  In k (keys (filter (fun y => p (fst y)) l)) <-> In k (keys l) /\ p k = true.
Proof.
  unfold keys. rewrite !in_map_iff. split.
  - intros [y [H1 H2]]. apply filter_In in H2 as [H2 H3]. subst k. split; [exists y; auto | exact H3].
  - intros [[y [H1 H2]] H3]. subst k. exists y. split; [reflexivity |]. apply filter_In. auto.
Qed.
Lemma keys_filter_NoDup (p : fterm * nat -> bool) l : NoDup (keys l) -> NoDup (keys (filter p l)).
Proof.
  unfold keys. induction l as [|x l IH]; intros H; [constructor |]. simpl in *. inversion H as [|a b Hx HN]; subst.
  destruct (p x); [| exact (IH HN)]. simpl. constructor; [| exact (IH HN)].
  intros H'. apply Hx. apply in_map_iff in H' as [y [H1 H2]]. apply filter_In in H2 as [H2 _]. apply in_map_iff. exists y. auto.
Qed.
Lemma In_keys_set_term k n k' l : In k' (keys (set_term k n l)) <-> k' = k \/ In k' (keys l).
Proof.
  unfold set_term. change (keys ((k, n) :: ?x)) with (k :: keys x). simpl.
  rewrite (keys_filter_In (fun y => negb (ft_eqb k y))). split.
  - intros [H | [H _]]; [left; symmetry; exact H | right; exact H].
  - intros [H | H]; [left; symmetry; exact H |]. destruct (ft_dec k k') as [E | E]; [left; exact E |].
    right. split; [exact H |]. apply ft_eqb_neq in E. rewrite E. reflexivity.
Qed.
Lemma NoDup_keys_set_term k n l : NoDup (keys l) -> NoDup (keys (set_term k n l)).
Proof.
  intros H. unfold set_term. change (keys ((k, n) :: ?x)) with (k :: keys x). constructor.
  - rewrite (keys_filter_In (fun y => negb (ft_eqb k y))). intros [_ H2]. rewrite ft_eqb_refl in H2. discriminate H2.
  - apply keys_filter_NoDup. exact H.
Qed.
Lemma In_set_term k n k' n' l : In (k', n') (set_term k n l) -> (k' = k /\ n' = n) \/ (In (k', n') l /\ k' <> k).
Proof.
  unfold set_term. simpl. rewrite filter_In. intros [H | [H1 H2]].
  - injection H as H1 H2. left. auto.
  - right. split; [exact H1 |]. simpl in H2. intros ->. rewrite ft_eqb_refl in H2. discriminate H2.
Qed.
Lemma In_keys_del_term k k' l : In k' (keys (del_term k l)) <-> In k' (keys l) /\ k' <> k.
Proof.
  unfold del_term. rewrite (keys_filter_In (fun y => negb (ft_eqb k y))). split; intros [H1 H2]; split; try exact H1.
  - intros ->. rewrite ft_eqb_refl in H2. discriminate H2.
  - assert (k <> k') as H3 by (intros E; apply H2; symmetry; exact E). apply ft_eqb_neq in H3. rewrite H3. reflexivity.
Qed.
Lemma In_del_term k k' n' l : In (k', n') (del_term k l) -> In (k', n') l /\ k' <> k.
Proof.
  unfold del_term. rewrite filter_In. intros [H1 H2]. split; [exact H1 |]. simpl in H2. intros ->. rewrite ft_eqb_refl in H2. discriminate H2.
Qed.
Lemma get_term_some k l : In k (keys l) -> exists n, get_term k l = Some n /\ In (k, n) l.
Proof.
  intros H. unfold get_term. destruct (find (fun y => ft_eqb k (fst y)) l) as [[k' n]|] eqn:F.
  - apply find_some in F as [F1 F2]. simpl in F2. apply ft_eqb_eq in F2. subst k'. exists n. split; [reflexivity | exact F1].
  - exfalso. unfold keys in H. apply in_map_iff in H as [y [H1 H2]]. pose proof (find_none _ _ F y H2) as H3. simpl in H3.
    rewrite H1, ft_eqb_refl in H3. discriminate H3.
Qed.

(* ---------- the invariant of the (entries, terms) pair ---------- *)
Definition TI (ents : list entry) (terms : list (fterm * nat)) : Prop :=
  NoDup ents /\ NoDup (keys terms) /\
  (forall k, In k (keys terms) <-> count_entries k ents <> 0) /\
  (forall k n, In (k, n) terms -> n = 0 \/ n = count_entries k ents).

Lemma TI_init : TI [] [].
Proof.
  refine (conj _ (conj _ (conj _ _))).
  - constructor.
  - constructor.
  - intros k. simpl. split; [intros [] | intros H; apply H; reflexivity].
  - intros k n [].
Qed.

Lemma TI_add v d ents terms : TI ents terms -> TI (set_entry (v, d) ents) (set_term v 0 terms).
Proof.
  intros [H1 [H2 [H3 H4]]]. refine (conj _ (conj _ (conj _ _))).
  - apply NoDup_set_entry. exact H1.
  - apply NoDup_keys_set_term. exact H2.
  - intros k. rewrite In_keys_set_term. destruct (ft_dec k v) as [E | E].
    + subst k. split; [intros _; apply count_set_same | intros _; left; reflexivity].
    + rewrite count_set_other by (simpl; intros E'; apply E; symmetry; exact E'). rewrite <- H3.
      split; [intros [H | H]; [contradiction | exact H] | intros H; right; exact H].
  - intros k n H. apply In_set_term in H as [[_ H] | [H Hk]]; [left; exact H |].
    rewrite count_set_other by (simpl; intros E'; apply Hk; symmetry; exact E'). apply (H4 k n H).
Qed.

Lemma TI_set_count k ents terms : TI ents terms -> In k (keys terms) -> TI ents (set_term k (count_entries k ents) terms).
Proof.
  intros [H1 [H2 [H3 H4]]] Hk. refine (conj H1 (conj _ (conj _ _))).
  - apply NoDup_keys_set_term. exact H2.
  - intros k'. rewrite In_keys_set_term, <- H3. split; [intros [-> | H]; auto | intros H; right; exact H].
  - intros k' n H. apply In_set_term in H as [[-> ->] | [H _]]; [right; reflexivity | apply (H4 k' n H)].
Qed.

Lemma TI_remove_entry d k ents terms : TI ents terms ->
  exists terms', remove_doc_entry d (ents, terms) k = (del_entry (k, d) ents, terms') /\ TI (del_entry (k, d) ents) terms'.
Proof.
  intros HT. unfold remove_doc_entry. destruct (has_entry (k, d) ents) eqn:HE.
  - apply has_entry_In in HE.
    assert (exists terms1, term_count ents terms k = Some (count_entries k ents, terms1) /\ TI ents terms1 /\ In k (keys terms1)) as [terms1 [-> [HT1 Hk1]]].
    { destruct HT as [H1 [H2 [H3 H4]]].
      assert (In k (keys terms)) as Hk by (apply H3; apply count_pos_iff; exists d; exact HE).
      destruct (get_term_some k terms Hk) as [n [Hg Hn]]. unfold term_count. rewrite Hg.
      destruct n as [|n].
      - eexists. split; [reflexivity |]. split; [apply TI_set_count; [refine (conj H1 (conj H2 (conj H3 H4))) | exact Hk] |].
        apply In_keys_set_term. left. reflexivity.
      - destruct (H4 k (S n) Hn) as [E | E]; [discriminate E |]. rewrite E. eexists. split; [reflexivity |].
        split; [refine (conj H1 (conj H2 (conj H3 H4))) | exact Hk]. }
    destruct HT1 as [H1 [H2 [H3 H4]]].
    pose proof (count_del_same k d ents H1 HE) as HC. rewrite <- HC. simpl pred.
    set (c' := count_entries k (del_entry (k, d) ents)) in *.
    destruct (Nat.eqb c' 0) eqn:Ec.
    + apply Nat.eqb_eq in Ec. eexists. split; [reflexivity |]. refine (conj _ (conj _ (conj _ _))).
      * apply NoDup_del_entry. exact H1.
      * apply keys_filter_NoDup. exact H2.
      * intros k'. rewrite In_keys_del_term. destruct (ft_dec k' k) as [E | E].
        -- subst k'. fold c'. split; [intros [_ H]; exfalso; apply H; reflexivity | intros H; contradiction].
        -- rewrite count_del_other by (simpl; intros E'; apply E; symmetry; exact E'). rewrite <- H3. split; [intros [H _]; exact H | intros H; split; [exact H | exact E]].
      * intros k' n H. apply In_del_term in H as [H Hk]. rewrite count_del_other by (simpl; intros E'; apply Hk; symmetry; exact E'). apply (H4 k' n H).
    + apply Nat.eqb_neq in Ec. eexists. split; [reflexivity |]. refine (conj _ (conj _ (conj _ _))).
      * apply NoDup_del_entry. exact H1.
      * apply NoDup_keys_set_term. exact H2.
      * intros k'. rewrite In_keys_set_term. destruct (ft_dec k' k) as [E | E].
        -- subst k'. fold c'. split; [intros _; exact Ec | intros _; left; reflexivity].
        -- rewrite count_del_other by (simpl; intros E'; apply E; symmetry; exact E'). rewrite <- H3. split; [intros [H | H]; [contradiction | exact H] | intros H; right; exact H].
      * intros k' n H. apply In_set_term in H as [[-> ->] | [H Hk]]; [right; reflexivity |].
        rewrite count_del_other by (simpl; intros E'; apply Hk; symmetry; exact E'). apply (H4 k' n H).
  - assert (~ In (k, d) ents) as HN by (intros H; apply has_entry_In in H; rewrite H in HE; discriminate HE).
    exists terms. rewrite (del_entry_absent _ _ HN). split; [reflexivity | exact HT].
Qed.

Lemma TI_remove_fold d es : forall ents terms, TI ents terms ->
  exists terms', fold_left (remove_doc_entry d) es (ents, terms) = (fold_left (fun l k => del_entry (k, d) l) es ents, terms') /\
                 TI (fold_left (fun l k => del_entry (k, d) l) es ents) terms'.
Proof.
  induction es as [|k es IH]; intros ents terms HT; cbn [fold_left].
  - exists terms. split; [reflexivity | exact HT].
  - destruct (TI_remove_entry d k ents terms HT) as [t1 [-> HT1]]. apply IH. exact HT1.
Qed.
Lemma In_del_fold d es : forall ents e, In e (fold_left (fun l k => del_entry (k, d) l) es ents) <-> In e ents /\ ~ (exists k, In k es /\ e = (k, d)).
Proof.
  induction es as [|k es IH]; intros ents e; simpl.
  - split; [intros H; split; [exact H | intros [k [[] _]]] | intros [H _]; exact H].
  - rewrite IH, In_del_entry. split.
    + intros [[H1 H2] H3]. split; [exact H1 |]. intros [k' [[-> | Hk] ->]]; [apply H2; reflexivity | apply H3; exists k'; auto].
    + intros [H1 H2]. split; [split; [exact H1 |] |].
      * intros ->. apply H2. exists k. auto.
      * intros [k' [Hk ->]]. apply H2. exists k'. auto.
Qed.

Lemma TI_add_fold d es : forall ents terms, TI ents terms ->
  TI (fold_left (fun l v => set_entry (v, d) l) es ents) (fold_left (fun l v => set_term v 0 l) es terms).
Proof. induction es as [|v es IH]; intros ents terms HT; simpl; [exact HT |]. apply IH. apply TI_add. exact HT. Qed.
Lemma In_add_fold d es : forall ents e, In e (fold_left (fun l v => set_entry (v, d) l) es ents) <-> (exists v, In v es /\ e = (v, d)) \/ In e ents.
Proof.
  induction es as [|v es IH]; intros ents e; simpl.
  - split; [intros H; right; exact H | intros [[v [[] _]] | H]; exact H].
  - rewrite IH, In_set_entry. split.
    + intros [[v' [H1 H2]] | [H | H]]; [left; exists v'; auto | left; exists v; auto | right; exact H].
    + intros [[v' [[-> | H1] H2]] | H]; [right; left; exact H2 | left; exists v'; auto | right; right; exact H].
Qed.

Lemma TI_remove_field f ents terms : TI ents terms ->
  TI (filter (fun e => negb (N.eqb f (fst (fst e)))) ents) (filter (fun t => negb (N.eqb f (fst (fst t)))) terms).
Proof.
  intros [H1 [H2 [H3 H4]]]. refine (conj _ (conj _ (conj _ _))).
  - apply NoDup_filter. exact H1.
  - apply keys_filter_NoDup. exact H2.
  - intros k. rewrite (keys_filter_In (fun y => negb (N.eqb f (fst y)))). destruct (N.eqb f (fst k)) eqn:E.
    + rewrite count_filter_none.
      * split; [intros [_ H]; discriminate H | intros H; exfalso; apply H; reflexivity].
      * intros x _ Hx. rewrite Hx, E. reflexivity.
    + rewrite count_filter_other.
      * rewrite <- H3. split; [intros [H _]; exact H | intros H; split; [exact H | reflexivity]].
      * intros x _ Hx. rewrite Hx, E. reflexivity.
  - intros k n H. apply filter_In in H as [H Hf]. simpl in Hf. rewrite count_filter_other.
    + apply (H4 k n H).
    + intros x _ Hx. rewrite Hx. exact Hf.
Qed.

Lemma TI_fix_counts f ents terms : TI ents terms ->
  TI ents (map (fun y : fterm * nat => if N.eqb f (fst (fst y)) && Nat.eqb (snd y) 0 then (fst y, count_entries (fst y) ents) else y) terms).
Proof.
  intros [H1 [H2 [H3 H4]]].
  assert (forall l : list (fterm * nat), keys (map (fun y : fterm * nat => if N.eqb f (fst (fst y)) && Nat.eqb (snd y) 0 then (fst y, count_entries (fst y) ents) else y) l) = keys l) as HK.
  { induction l as [|y l IH]; [reflexivity |]. unfold keys in *. simpl. rewrite IH. destruct (N.eqb f (fst (fst y)) && Nat.eqb (snd y) 0); reflexivity. }
  refine (conj H1 (conj _ (conj _ _))).
  - rewrite HK. exact H2.
  - intros k. rewrite HK. apply H3.
  - intros k n H. apply in_map_iff in H as [[k0 n0] [E H]]. simpl in E.
    destruct (N.eqb f (fst k0) && Nat.eqb n0 0); injection E as E1 E2; subst k n; [right; reflexivity | apply (H4 k0 n0 H)].
Qed.

(* ---------- the refinement relation ---------- *)
Definition live_ids (sp : sspec) : list N := map fst (sp_live sp).
Definition docs_cover (s : ixst) (sp : sspec) : Prop :=
  forall d vs, In (d, vs) (sp_live sp) ->
    exists es, find (fun y => N.eqb d (fst y)) (x_docs s) = Some (d, es) /\ forall k, In k vs -> In k es.

Definition R (s : ixst) (sp : sspec) : Prop :=
  x_reg s = sp_reg sp /\
  (forall e, In e (x_entries s) <-> In e (b_all sp)) /\
  docs_cover s sp /\
  TI (x_entries s) (x_terms s).

Lemma In_b_all sp e : In e (b_all sp) <-> exists vs, In (snd e, vs) (sp_live sp) /\ In (fst e) vs.
Proof.
  unfold b_all. rewrite in_flat_map. split.
  - intros [[d vs] [H1 H2]]. simpl in H2. apply in_map_iff in H2 as [v [E Hv]]. subst e. simpl. exists vs. auto.
  - intros [vs [H1 H2]]. exists (snd e, vs). split; [exact H1 |]. simpl. apply in_map_iff. exists (fst e). split; [destruct e; reflexivity | exact H2].
Qed.

Lemma find_filter_same {X} (p q : X -> bool) l : (forall x, p x = true -> q x = true) -> find p (filter q l) = find p l.
Proof.
  intros H. induction l as [|x l IH]; [reflexivity |]. simpl. destruct (q x) eqn:Q; simpl.
  - destruct (p x); [reflexivity | exact IH].
  - destruct (p x) eqn:P; [rewrite (H x P) in Q; discriminate Q | exact IH].
Qed.
Lemma filter_all {X} (p : X -> bool) l : forallb p l = true -> filter p l = l.
Proof. induction l as [|x l IH]; simpl; [reflexivity |]. intros H. apply andb_true_iff in H as [H1 H2]. rewrite H1. f_equal. exact (IH H2). Qed.

Lemma R_init : R xinit spinit.
Proof.
  refine (conj eq_refl (conj _ (conj _ TI_init))).
  - intros e. simpl. reflexivity.
  - intros d vs [].
Qed.

Lemma docs_find_other (d d' : N) (docs : list (N * list fterm)) : d' <> d ->
  find (fun y => N.eqb d' (fst y)) (filter (fun y => negb (N.eqb d (fst y))) docs) = find (fun y => N.eqb d' (fst y)) docs.
Proof.
  intros H. apply find_filter_same. intros x Hx. apply N.eqb_eq in Hx. rewrite <- Hx.
  apply negb_true_iff. apply N.eqb_neq. intros E. apply H. symmetry. exact E.
Qed.

Lemma R_step s sp o : R s sp -> fresh sp o = true -> R (istep s o) (sp_step sp o).
Proof.
  intros [HR [HE [HD HT]]] HF. destruct o as [f | f | d vals | d | f]; simpl.
  - (* AddField *)
    refine (conj _ (conj HE (conj HD HT))). simpl. rewrite HR. reflexivity.
  - (* RemoveField *)
    refine (conj _ (conj _ (conj _ _))); simpl.
    + rewrite HR. reflexivity.
    + intros e. rewrite filter_In, HE, !In_b_all. simpl. split.
      * intros [[vs [H1 H2]] H3]. exists (filter (fun v => negb (N.eqb f (fst v))) vs). split.
        -- apply in_map_iff. exists (snd e, vs). split; [reflexivity | exact H1].
        -- apply filter_In. split; [exact H2 | exact H3].
      * intros [vs' [H1 H2]]. apply in_map_iff in H1 as [[d0 vs] [E H1]]. simpl in E. injection E as E1 E2. subst d0 vs'.
        apply filter_In in H2 as [H2 H3]. split; [exists vs; auto | exact H3].
    + intros d vs' H. simpl in H. apply in_map_iff in H as [[d0 vs] [E H1]]. simpl in E. injection E as E1 E2. subst d0 vs'.
      destruct (HD d vs H1) as [es [F1 F2]]. exists es. split; [exact F1 |]. intros k Hk. apply filter_In in Hk as [Hk _]. exact (F2 k Hk).
    + apply TI_remove_field. exact HT.
  - (* AddDoc, fresh *)
    unfold add_doc. simpl in HF. apply negb_true_iff in HF.
    assert (filter (fun y => negb (N.eqb d (fst y))) (sp_live sp) = sp_live sp) as HL.
    { apply filter_all. apply forallb_forall. intros y Hy. apply negb_true_iff.
      destruct (N.eqb d (fst y)) eqn:E; [| reflexivity]. exfalso.
      assert (existsb (fun y => N.eqb d (fst y)) (sp_live sp) = true) as HX by (apply existsb_exists; exists y; auto).
      rewrite HX in HF. discriminate HF. }
    rewrite HR. set (es := filter (fun v => memN (fst v) (sp_reg sp)) vals).
    refine (conj _ (conj _ (conj _ _))); simpl.
    + reflexivity.
    + intros e. rewrite In_add_fold, HE, HL. unfold b_all at 2. simpl. rewrite in_app_iff, in_map_iff. fold (b_all sp).
      split; (intros [[v [H1 H2]] | H]; [left; exists v; auto | right; exact H]).
    + intros d' vs [H | H]; cbn [x_docs find fst].
      * injection H as H1 H2. subst d' vs. exists es. rewrite N.eqb_refl. split; [reflexivity | auto].
      * rewrite HL in H. assert (d' <> d) as Hd.
        { intros ->. assert (existsb (fun y => N.eqb d (fst y)) (sp_live sp) = true) as HX.
          { apply existsb_exists. exists (d, vs). split; [exact H | apply N.eqb_refl]. }
          rewrite HX in HF. discriminate HF. }
        destruct (HD d' vs H) as [es' [F1 F2]]. exists es'. split; [| exact F2].
        assert (N.eqb d' d = false) as -> by (apply N.eqb_neq; exact Hd). rewrite docs_find_other by exact Hd. exact F1.
    + apply TI_add_fold. exact HT.
  - (* RemoveDoc *)
    unfold remove_doc. destruct (find (fun y => N.eqb d (fst y)) (x_docs s)) as [[d0 es]|] eqn:F.
    + destruct (TI_remove_fold d es _ _ HT) as [terms' [-> HT']].
      refine (conj HR (conj _ (conj _ HT'))); simpl.
      * intros e. rewrite In_del_fold, HE, !In_b_all. simpl. split.
        -- intros [[vs [H1 H2]] H3]. exists vs. split; [| exact H2]. apply filter_In. split; [exact H1 |]. simpl.
           apply negb_true_iff. apply N.eqb_neq. intros E. apply H3.
           rewrite <- E in H1. destruct (HD d vs H1) as [es' [F1 F2]]. rewrite F in F1. injection F1 as _ F1. subst es'.
           exists (fst e). split; [apply F2; exact H2 | destruct e; simpl in *; subst; reflexivity].
        -- intros [vs [H1 H2]]. apply filter_In in H1 as [H1 H3]. simpl in H3. split; [exists vs; auto |].
           intros [k [_ ->]]. simpl in H3. rewrite N.eqb_refl in H3. discriminate H3.
      * intros d' vs H. simpl in H. apply filter_In in H as [H H3]. simpl in H3. apply negb_true_iff, N.eqb_neq in H3.
        destruct (HD d' vs H) as [es' [F1 F2]]. exists es'. split; [| exact F2]. cbn [x_docs].
        rewrite docs_find_other by (intros E; apply H3; symmetry; exact E). exact F1.
    + refine (conj HR (conj _ (conj _ HT))); simpl.
      * intros e. rewrite HE, !In_b_all. simpl. split.
        -- intros [vs [H1 H2]]. exists vs. split; [| exact H2]. apply filter_In. split; [exact H1 |]. simpl.
           apply negb_true_iff. apply N.eqb_neq. intros E. rewrite <- E in H1. destruct (HD d vs H1) as [es' [F1 _]]. rewrite F in F1. discriminate F1.
        -- intros [vs [H1 H2]]. apply filter_In in H1 as [H1 _]. exists vs. auto.
      * intros d' vs H. simpl in H. apply filter_In in H as [H _]. exact (HD d' vs H).
  - (* Counts *)
    refine (conj HR (conj HE (conj HD _))). simpl. apply TI_fix_counts. exact HT.
Qed.

Lemma R_run ops : forall s sp, R s sp -> fresh_from sp ops = true -> R (fold_left istep ops s) (fold_left sp_step ops sp).
Proof.
  induction ops as [|o ops IH]; intros s sp HR HF; simpl; [exact HR |].
  simpl in HF. apply andb_true_iff in HF as [H1 H2]. apply IH; [apply R_step; assumption | exact H2].
Qed.

Theorem refinement ops : fresh_adds ops = true -> R (irun ops) (sp_run ops).
Proof. intros H. apply R_run; [exact R_init | exact H]. Qed.

(* ---------- the queries ---------- *)
Definition same_set {X} (a b : list X) : Prop := forall x, In x a <-> In x b.

Lemma In_dedup_t x l : In x (dedup_t l) <-> In x l.
Proof.
  induction l as [|y l IH]; simpl; [reflexivity |]. destruct (existsb (term_eqb y) l) eqn:E.
  - rewrite IH. split; [intros H; right; exact H | intros [-> | H]; [| exact H]].
    apply existsb_exists in E as [z [H1 H2]]. apply term_eqb_eq in H2. subst z. exact H1.
  - simpl. rewrite IH. reflexivity.
Qed.

Lemma match_refines s sp f t : R s sp -> same_set (q_match s f t) (b_match sp f t).
Proof.
  intros [_ [HE _]] d. unfold q_match, b_match. rewrite !in_map_iff. split; intros [e [H1 H2]]; exists e; (split; [exact H1 |]);
  apply filter_In in H2 as [H2 H3]; apply filter_In; (split; [apply HE; exact H2 | exact H3]).
Qed.

Lemma terms_refines s sp f : R s sp -> same_set (q_terms s f) (b_terms sp f).
Proof.
  intros [_ [HE [_ [_ [_ [H3 _]]]]]] t. unfold q_terms, b_terms. rewrite In_dedup_t, !in_map_iff. split.
  - intros [[k n] [H1 H2]]. simpl in H1. apply filter_In in H2 as [H2 Hf]. simpl in Hf. apply N.eqb_eq in Hf.
    assert (In k (keys (x_terms s))) as Hk by (apply in_map_iff; exists (k, n); auto).
    apply H3, count_pos_iff in Hk as [d Hd]. exists (k, d). split; [exact H1 |]. apply filter_In. split; [apply HE; exact Hd |].
    simpl. apply N.eqb_eq. exact Hf.
  - intros [[k d] [H1 H2]]. simpl in H1. apply filter_In in H2 as [H2 Hf]. simpl in Hf.
    assert (In k (keys (x_terms s))) as Hk by (apply H3, count_pos_iff; exists d; apply HE; exact H2).
    apply in_map_iff in Hk as [[k' n] [E Hk]]. simpl in E. subst k'. exists (k, n). split; [exact H1 |]. apply filter_In. auto.
Qed.

(* the reported counts: every term of the field with the number of its entries *)
Lemma counts_refines s sp f : R s sp ->
  forall t n, In (t, n) (q_counts s f) -> n = count_entries (f, t) (x_entries s) /\ In t (b_terms sp f).
Proof.
  intros HR t n H. pose proof (terms_refines s sp f HR t) as HTm. destruct HR as [_ [_ [_ [_ [_ [_ H4]]]]]].
  unfold q_counts in H. apply in_map_iff in H as [[k c] [E H]]. simpl in E. injection E as E1 E2.
  assert (In t (q_terms s f)) as Hq.
  { unfold q_terms. apply in_map_iff. exists (k, c). auto. }
  apply filter_In in H as [H Hf]. simpl in Hf. apply N.eqb_eq in Hf.
  assert (k = (f, t)) as Ek by (destruct k; simpl in *; subst; reflexivity).
  split; [| apply HTm; exact Hq]. rewrite <- Ek. destruct (H4 k c H) as [E | E].
  - subst c. simpl in E2. symmetry. exact E2.
  - destruct (Nat.eqb c 0) eqn:Ec; [symmetry; exact E2 |]. rewrite <- E2. exact E.
Qed.
