(* Correspondence evaluator for C16. *)
From Coq Require Import List NArith Bool Arith.
Import ListNotations.
From Grip Require Export Model.Bytes Model.Keys.

Inductive c16_kind := KGraphName | KVertex | KEdge | KFieldName | KValue.
Record c16_case := {
  ck : c16_kind; cg : bytes; cid : bytes; clabel : bytes; cfrom : bytes; cto : bytes;
  cacc : bool;      (* the write call returned no error *)
  cread : bool;     (* read back identical through lookup, listing and traversal, exactly once *)
  cothers : bool    (* every other element / graph observed unchanged *)
}.

Definition lit_label : bytes := [108; 97; 98; 101; 108]%N.   (* "label": refused by the index layer *)
Definition reserved : list bytes :=
  [[95;103;105;100]; [95;108;97;98;101;108]; [95;116;111]; [95;102;114;111;109]; [95;100;97;116;97]]%N.

Definition model_accepts (c : c16_case) : bool :=
  match ck c with
  | KGraphName => valid_name_b (cg c)
  | KVertex => valid_id_b (cid c) && valid_id_b (clabel c) && negb (beqb (clabel c) lit_label)
  | KEdge => valid_id_b (cid c) && valid_id_b (clabel c) && valid_id_b (cfrom c) && valid_id_b (cto c)
             && negb (beqb (clabel c) lit_label)
  | KFieldName => valid_name_b (cid c) && negb (existsb (beqb (cid c)) reserved)
  | KValue => true
  end.

Definition agrees (c : c16_case) : bool := Bool.eqb (model_accepts c) (cacc c).
(* the property itself: accepted => read back verbatim and nothing else changed; refused => nothing changed *)
Definition spec_ok (c : c16_case) : bool := if cacc c then cread c && cothers c else cothers c.

Fixpoint idx_where {X} (p : X -> bool) (i : nat) (l : list X) : list nat :=
  match l with [] => [] | x :: r => if p x then i :: idx_where p (S i) r else idx_where p (S i) r end.
Definition mismatches (cs : list c16_case) := idx_where (fun c => negb (agrees c)) 0 cs.
Definition spec_violations (cs : list c16_case) := idx_where (fun c => negb (spec_ok c)) 0 cs.
Definition explain (c : c16_case) := (model_accepts c, spec_ok c).
