package main

import (
	"encoding/json"
	"fmt"
	"math/rand"
	"os"
	"strings"

	"github.com/bmeg/grip/kvi"
	_ "github.com/bmeg/grip/kvi/badgerdb"
	_ "github.com/bmeg/grip/kvi/boltdb"
	_ "github.com/bmeg/grip/kvi/leveldb"
	_ "github.com/bmeg/grip/kvi/pebbledb"

	"gripverif/internal/coq"
)

func init() { props["C10"] = runC10 }

var kvDrivers = []string{"badger", "bolt", "level", "pebble"}

// script representation (JSON friendly): op = [name, args...]; bytes as latin-1 strings
// bstr is a byte string whose JSON form maps every byte to the code point of the same value
// (latin-1), so that 0x00 and 0xff survive a round trip through replay files.
type bstr string

func (b bstr) MarshalJSON() ([]byte, error) {
	r := make([]rune, len(b))
	for i := 0; i < len(b); i++ {
		r[i] = rune(b[i])
	}
	return json.Marshal(string(r))
}
func (b *bstr) UnmarshalJSON(d []byte) error {
	var s string
	if err := json.Unmarshal(d, &s); err != nil {
		return err
	}
	out := []byte{}
	for _, r := range s {
		out = append(out, byte(r))
	}
	*b = bstr(out)
	return nil
}

type kvOp struct {
	Op   string    `json:"op"`
	K    bstr      `json:"k,omitempty"`
	V    bstr      `json:"v,omitempty"`
	It   []kvOp    `json:"it,omitempty"`
	Tx   []kvOp    `json:"tx,omitempty"`
	KVs  [][2]bstr `json:"kvs,omitempty"`
	Fail bool      `json:"fail,omitempty"` // update / bulk: the callback does its work and then returns an error
	Gen  int       `json:"gen,omitempty"`  // bulk: Gen generated pairs under prefix K (Eval_C10.gen_kvs) instead of KVs
}

// the pairs of Eval_C10.gen_kvs, in the same order
func genKVs(p bstr, n int) [][2]bstr {
	out := make([][2]bstr, 0, n)
	for i := n - 1; i >= 0; i-- {
		out = append(out, [2]bstr{p + bstr([]byte{byte(i / 256), byte(i % 256)}), bstr([]byte{byte(48 + i%3)})})
	}
	return out
}

type c10Input struct {
	Driver string `json:"driver"`
	Ops    []kvOp `json:"ops"`
}

func bcoq(s bstr) string {
	parts := make([]string, len(s))
	for i := 0; i < len(s); i++ {
		parts[i] = fmt.Sprintf("%d", s[i])
	}
	return "[" + strings.Join(parts, ";") + "]%N"
}

func itCoq(o kvOp) string {
	switch o.Op {
	case "seek":
		return "(ISeek " + bcoq(o.K) + ")"
	case "seekrev":
		return "(ISeekRev " + bcoq(o.K) + ")"
	case "next":
		return "INext"
	case "iget":
		return "(IGet " + bcoq(o.K) + ")"
	}
	panic(o.Op)
}
func itsCoq(l []kvOp) string {
	out := make([]string, len(l))
	for i, o := range l {
		out[i] = itCoq(o)
	}
	return coq.List(out)
}
func txCoq(o kvOp) string {
	switch o.Op {
	case "get":
		return "(TGet " + bcoq(o.K) + ")"
	case "has":
		return "(THas " + bcoq(o.K) + ")"
	case "set":
		return "(TSet " + bcoq(o.K) + " " + bcoq(o.V) + ")"
	case "del":
		return "(TDel " + bcoq(o.K) + ")"
	case "view":
		return "(TView " + itsCoq(o.It) + ")"
	}
	panic(o.Op)
}
func opCoq(o kvOp) string {
	switch o.Op {
	case "get":
		return "(OGet " + bcoq(o.K) + ")"
	case "has":
		return "(OHas " + bcoq(o.K) + ")"
	case "set":
		return "(OSet " + bcoq(o.K) + " " + bcoq(o.V) + ")"
	case "del":
		return "(ODel " + bcoq(o.K) + ")"
	case "delprefix":
		return "(ODelPrefix " + bcoq(o.K) + ")"
	case "view":
		return "(OView " + itsCoq(o.It) + ")"
	case "update":
		out := make([]string, len(o.Tx))
		for i, t := range o.Tx {
			out[i] = txCoq(t)
		}
		if o.Fail {
			return "(OUpdateFail " + coq.List(out) + ")"
		}
		return "(OUpdate " + coq.List(out) + ")"
	case "bulk":
		if o.Gen > 0 {
			return fmt.Sprintf("(OBulk (gen_kvs %s (N.to_nat %d%%N)))", bcoq(o.K), o.Gen)
		}
		out := make([]string, len(o.KVs))
		for i, kv := range o.KVs {
			out[i] = coq.Pair(bcoq(kv[0]), bcoq(kv[1]))
		}
		if o.Fail {
			return "(OBulkFail " + coq.List(out) + ")"
		}
		return "(OBulk " + coq.List(out) + ")"
	}
	panic(o.Op)
}

// observed results: mirror of Coq's res
type kvRes struct {
	T    string  `json:"t"` // val, bool, unit, pos, list, panic
	Some bool    `json:"some,omitempty"`
	K    bstr    `json:"k,omitempty"`
	V    bstr    `json:"v,omitempty"`
	B    bool    `json:"b,omitempty"`
	L    []kvRes `json:"l,omitempty"`
	Msg  string  `json:"msg,omitempty"`
}

func resCoq(r kvRes) string {
	switch r.T {
	case "val":
		if r.Some {
			return "(RVal (Some " + bcoq(r.V) + "))"
		}
		return "(RVal None)"
	case "bool":
		return "(RBool " + coq.Bool(r.B) + ")"
	case "unit":
		return "RUnit"
	case "err":
		return "RErr"
	case "pos":
		if r.Some {
			return "(RPos (Some (" + bcoq(r.K) + ", " + bcoq(r.V) + ")))"
		}
		return "(RPos None)"
	case "list":
		out := make([]string, len(r.L))
		for i, x := range r.L {
			out[i] = resCoq(x)
		}
		return "(RList " + coq.List(out) + ")"
	}
	// panic / error: something no model result equals
	return "(RList [RUnit; RUnit; RUnit])"
}

func guard(f func() kvRes) (r kvRes) {
	defer func() {
		if e := recover(); e != nil {
			r = kvRes{T: "panic", Msg: fmt.Sprint(e)}
		}
	}()
	return f()
}

func runIt(it kvi.KVIterator, ops []kvOp) kvRes {
	out := []kvRes{}
	// what Key() and Value() hand out is kept by callers across later cursor calls (kvgraph collects keys to delete
	// while it scans): the slices are retained as they are and compared with their contents at the time when the script ends
	type kept struct {
		raw  []byte
		copy string
	}
	retained := []kept{}
	pos := func() kvRes {
		if it.Valid() {
			v, _ := it.Value()
			k := it.Key()
			retained = append(retained, kept{k, string(k)}, kept{v, string(v)})
			return kvRes{T: "pos", Some: true, K: bstr(k), V: bstr(v)}
		}
		return kvRes{T: "pos"}
	}
	for _, o := range ops {
		o := o
		out = append(out, guard(func() kvRes {
			switch o.Op {
			case "seek":
				it.Seek([]byte(o.K))
				return pos()
			case "seekrev":
				it.SeekReverse([]byte(o.K))
				return pos()
			case "next":
				if it.Valid() {
					it.Next()
				}
				return pos()
			case "iget":
				v, err := it.Get([]byte(o.K))
				if err != nil || v == nil {
					return kvRes{T: "val"}
				}
				return kvRes{T: "val", Some: true, V: bstr(v)}
			}
			return kvRes{T: "panic", Msg: "bad op"}
		}))
	}
	// (the retained-slice check runs here, before the result is built)
	for _, r := range retained {
		if string(r.raw) != r.copy {
			out = append(out, kvRes{T: "panic", Msg: fmt.Sprintf("a slice handed out by the cursor changed afterwards: %q became %q", r.copy, string(r.raw))})
			break
		}
	}
	return kvRes{T: "list", L: out}
}

var errCallback = fmt.Errorf("the callback failed")

func runKV(kv kvi.KVInterface, ops []kvOp) []kvRes {
	out := []kvRes{}
	// a value handed out by Get is the caller's: it is kept as it is and compared with its contents when the script ends
	type keptVal struct {
		raw  []byte
		copy string
	}
	got := []keptVal{}
	unitOrErr := func(err error) kvRes {
		if err != nil {
			return kvRes{T: "panic", Msg: "error: " + err.Error()}
		}
		return kvRes{T: "unit"}
	}
	for _, o := range ops {
		o := o
		out = append(out, guard(func() kvRes {
			switch o.Op {
			case "get":
				v, err := kv.Get([]byte(o.K))
				if err != nil || v == nil {
					return kvRes{T: "val"}
				}
				got = append(got, keptVal{v, string(v)})
				return kvRes{T: "val", Some: true, V: bstr(v)}
			case "has":
				return kvRes{T: "bool", B: kv.HasKey([]byte(o.K))}
			case "set":
				return unitOrErr(kv.Set([]byte(o.K), []byte(o.V)))
			case "del":
				return unitOrErr(kv.Delete([]byte(o.K)))
			case "delprefix":
				return unitOrErr(kv.DeletePrefix([]byte(o.K)))
			case "view":
				var r kvRes
				kv.View(func(it kvi.KVIterator) error { r = runIt(it, o.It); return nil })
				return r
			case "update":
				rs := []kvRes{}
				err := kv.Update(func(tx kvi.KVTransaction) error {
					for _, t := range o.Tx {
						t := t
						rs = append(rs, guard(func() kvRes {
							switch t.Op {
							case "get":
								v, err := tx.Get([]byte(t.K))
								if err != nil || v == nil {
									return kvRes{T: "val"}
								}
								return kvRes{T: "val", Some: true, V: bstr(v)}
							case "has":
								return kvRes{T: "bool", B: tx.HasKey([]byte(t.K))}
							case "set":
								return unitOrErr(tx.Set([]byte(t.K), []byte(t.V)))
							case "del":
								return unitOrErr(tx.Delete([]byte(t.K)))
							case "view":
								var r kvRes
								tx.View(func(it kvi.KVIterator) error { r = runIt(it, t.It); return nil })
								return r
							}
							return kvRes{T: "panic", Msg: "bad op"}
						}))
					}
					if o.Fail {
						return errCallback
					}
					return nil
				})
				if o.Fail && err == errCallback {
					return kvRes{T: "err"}
				}
				if err != nil {
					return kvRes{T: "panic", Msg: "error: " + err.Error()}
				}
				return kvRes{T: "list", L: rs}
			case "bulk":
				kvs := o.KVs
				if o.Gen > 0 {
					kvs = genKVs(o.K, o.Gen)
				}
				err := kv.BulkWrite(func(bl kvi.KVBulkWrite) error {
					for _, p := range kvs {
						if err := bl.Set([]byte(p[0]), []byte(p[1])); err != nil {
							return err
						}
					}
					if o.Fail {
						return errCallback
					}
					return nil
				})
				if o.Fail && err == errCallback {
					return kvRes{T: "err"}
				}
				return unitOrErr(err)
			}
			return kvRes{T: "panic", Msg: "bad op"}
		}))
	}
	for _, r := range got {
		if string(r.raw) != r.copy {
			out = append(out, kvRes{T: "panic", Msg: fmt.Sprintf("a value returned by Get changed afterwards: %q became %q", r.copy, string(r.raw))})
			break
		}
	}
	return out
}

func execC10(in c10Input) []kvRes {
	dir, _ := os.MkdirTemp("", "c10kv")
	defer os.RemoveAll(dir)
	path := dir + "/db"
	kv, err := kvi.NewKVInterface(in.Driver, path, nil)
	if err != nil {
		return []kvRes{{T: "panic", Msg: "open: " + err.Error()}}
	}
	defer kv.Close()
	return runKV(kv, in.Ops)
}

var c10Alpha = []string{"a", "b", "\x00", "\xff"}

func c10Key(rng *rand.Rand) bstr {
	n := 1 + rng.Intn(3)
	s := ""
	for i := 0; i < n; i++ {
		s += c10Alpha[rng.Intn(len(c10Alpha))]
	}
	return bstr(s)
}
func c10Val(rng *rand.Rand) bstr { return []bstr{"", "1", "xy"}[rng.Intn(3)] }

func c10ItOps(rng *rand.Rand) []kvOp {
	n := 1 + rng.Intn(6)
	out := []kvOp{}
	for i := 0; i < n; i++ {
		switch rng.Intn(7) {
		case 0, 1:
			out = append(out, kvOp{Op: "seek", K: c10Key(rng)})
		case 2, 3:
			out = append(out, kvOp{Op: "seekrev", K: c10Key(rng)})
		case 4, 5:
			out = append(out, kvOp{Op: "next"})
		default:
			out = append(out, kvOp{Op: "iget", K: c10Key(rng)})
		}
	}
	return out
}

func c10Script(rng *rand.Rand, maxLen int) []kvOp {
	n := 1 + rng.Intn(maxLen)
	ops := []kvOp{}
	// start from a few keys so that reads are interesting
	for i := 0; i < rng.Intn(5); i++ {
		ops = append(ops, kvOp{Op: "set", K: c10Key(rng), V: c10Val(rng)})
	}
	for i := 0; i < n; i++ {
		switch rng.Intn(12) {
		case 0:
			ops = append(ops, kvOp{Op: "get", K: c10Key(rng)})
		case 1:
			ops = append(ops, kvOp{Op: "has", K: c10Key(rng)})
		case 2, 3:
			ops = append(ops, kvOp{Op: "set", K: c10Key(rng), V: c10Val(rng)})
		case 4:
			ops = append(ops, kvOp{Op: "del", K: c10Key(rng)})
		case 5:
			k := c10Key(rng)
			ops = append(ops, kvOp{Op: "delprefix", K: k[:1+rng.Intn(len(k))]})
		case 6, 7, 8:
			ops = append(ops, kvOp{Op: "view", It: c10ItOps(rng)})
		case 9, 10:
			tx := []kvOp{}
			for j := 0; j < 1+rng.Intn(5); j++ {
				switch rng.Intn(6) {
				case 0:
					tx = append(tx, kvOp{Op: "get", K: c10Key(rng)})
				case 1:
					tx = append(tx, kvOp{Op: "has", K: c10Key(rng)})
				case 2, 3:
					tx = append(tx, kvOp{Op: "set", K: c10Key(rng), V: c10Val(rng)})
				case 4:
					tx = append(tx, kvOp{Op: "del", K: c10Key(rng)})
				default:
					tx = append(tx, kvOp{Op: "view", It: c10ItOps(rng)})
				}
			}
			ops = append(ops, kvOp{Op: "update", Tx: tx, Fail: rng.Intn(4) == 0})
		default:
			kvs := [][2]bstr{}
			for j := 0; j < 1+rng.Intn(4); j++ {
				kvs = append(kvs, [2]bstr{c10Key(rng), c10Val(rng)})
			}
			ops = append(ops, kvOp{Op: "bulk", KVs: kvs, Fail: rng.Intn(4) == 0})
		}
	}
	return ops
}

// classify which interface features a script exercises on a driver: the classes known findings refer to
func c10Classes(in c10Input) []string {
	set := map[string]bool{}
	var walkIt func(pfx string, l []kvOp)
	walkIt = func(pfx string, l []kvOp) {
		for _, o := range l {
			set[pfx+"it."+o.Op] = true
		}
	}
	for _, o := range in.Ops {
		set["op."+o.Op] = true
		if o.Fail {
			set["op."+o.Op+".failing-callback"] = true
		}
		if o.Op == "view" {
			walkIt("", o.It)
		}
		for _, t := range o.Tx {
			set["tx."+t.Op] = true
			if t.Op == "view" {
				walkIt("tx.", t.It)
			}
		}
	}
	out := []string{"driver=" + in.Driver}
	for k := range set {
		out = append(out, k)
	}
	return out
}

func runC10(ctx *Ctx) error {
	ctx.EvalMod = "Eval_C10"
	ctx.CaseTy = "c10_case"
	ctx.HasKF = true
	ctx.Shard = 120
	ctx.Rule = "scripts over the kvi interface (Get/HasKey/Set/Delete/DeletePrefix/View with cursor scripts/Update/BulkWrite, a quarter of the latter two with a callback that fails after its writes), keys over {a,b,0x00,0xff} length 1-3, values {'', '1', 'xy'}, each script on a fresh store of each of the four drivers; values returned by Get and by cursors are kept and compared with their contents when the script ends (one script rewrites the store 120 times underneath them); 9999 / 10000 / 12050 generated keys under one prefix written in one bulk call and deleted by prefix; non-trivial = script with >= 3 operations including a read; distinct by (driver, script)"
	var inputs []c10Input
	if ctx.Replay != nil {
		var in c10Input
		if err := json.Unmarshal(ctx.Replay, &in); err != nil {
			return err
		}
		inputs = []c10Input{in}
	} else {
		n := ctx.Pick(60, 600)
		// cursor probes around every key of a fixed store (exhaustive over the probe set)
		base := []kvOp{{Op: "set", K: "a", V: ""}, {Op: "set", K: "ab", V: "1"}, {Op: "set", K: "b\x00", V: "xy"}, {Op: "set", K: "b\xff", V: ""}}
		probes := []bstr{"\x00", "a", "a\x00", "ab", "ab\x00", "b", "b\x00", "b\x00a", "b\xff", "b\xff\xff", "\xff"}
		for _, p := range probes {
			ops := append(append([]kvOp{}, base...),
				kvOp{Op: "view", It: []kvOp{{Op: "seek", K: p}, {Op: "next"}, {Op: "next"}}},
				kvOp{Op: "view", It: []kvOp{{Op: "seekrev", K: p}, {Op: "next"}, {Op: "next"}}},
				kvOp{Op: "has", K: p}, kvOp{Op: "get", K: p},
				kvOp{Op: "update", Tx: []kvOp{{Op: "has", K: p}, {Op: "get", K: p}}})
			for _, d := range kvDrivers {
				inputs = append(inputs, c10Input{Driver: d, Ops: ops})
			}
		}
		// a failing callback after writes and deletes, then reads of everything it touched
		for _, d := range kvDrivers {
			inputs = append(inputs,
				c10Input{Driver: d, Ops: append(append([]kvOp{}, base...),
					kvOp{Op: "bulk", KVs: [][2]bstr{{"a", "xy"}, {"c", "1"}}, Fail: true},
					kvOp{Op: "get", K: "a"}, kvOp{Op: "has", K: "c"}, kvOp{Op: "view", It: []kvOp{{Op: "seek", K: "a"}, {Op: "next"}, {Op: "next"}, {Op: "next"}, {Op: "next"}}})},
				c10Input{Driver: d, Ops: append(append([]kvOp{}, base...),
					kvOp{Op: "update", Tx: []kvOp{{Op: "set", K: "a", V: "xy"}, {Op: "del", K: "ab"}, {Op: "set", K: "c", V: "1"}, {Op: "get", K: "a"}}, Fail: true},
					kvOp{Op: "get", K: "a"}, kvOp{Op: "has", K: "ab"}, kvOp{Op: "has", K: "c"}, kvOp{Op: "view", It: []kvOp{{Op: "seek", K: "a"}, {Op: "next"}, {Op: "next"}, {Op: "next"}, {Op: "next"}}})})
		}
		// values read by Get and kept while the store is rewritten underneath them (overwrites, deletes, growth)
		for _, d := range kvDrivers {
			ops := append(append([]kvOp{}, base...), kvOp{Op: "get", K: "ab"}, kvOp{Op: "get", K: "b\x00"})
			for round := 0; round < 2; round++ {
				for k := 0; k < 60; k++ {
					ops = append(ops, kvOp{Op: "set", K: bstr(fmt.Sprintf("a%c%c", 'a'+k%2, 'a'+(k/2)%2)), V: bstr(strings.Repeat(string(rune('a'+k%26)), 40+k))})
				}
				ops = append(ops, kvOp{Op: "set", K: "ab", V: "zz"}, kvOp{Op: "del", K: "b\x00"}, kvOp{Op: "get", K: "aaa"})
			}
			inputs = append(inputs, c10Input{Driver: d, Ops: ops})
		}
		// more keys under one prefix than any driver handles in one internal block (Badger deletes in blocks of 9999 keys):
		// written in one bulk call, probed, deleted by prefix, probed again, next to keys that must stay
		for _, d := range kvDrivers {
			for _, n := range []int{9999, 10000, 12050} {
				probe := kvOp{Op: "view", It: []kvOp{{Op: "seek", K: "p"}, {Op: "next"}, {Op: "seekrev", K: "p\xff\xff\xff"}, {Op: "next"}}}
				inputs = append(inputs, c10Input{Driver: d, Ops: []kvOp{{Op: "set", K: "a", V: "1"}, {Op: "set", K: "q", V: "xy"}, {Op: "set", K: "p", V: "0"},
					{Op: "bulk", K: "p", Gen: n}, probe, {Op: "delprefix", K: "p"}, probe, {Op: "has", K: "p"},
					{Op: "get", K: bstr("p") + bstr([]byte{byte((n - 1) / 256), byte((n - 1) % 256)})}, {Op: "get", K: "a"}, {Op: "get", K: "q"}}})
			}
		}
		for i := 0; i < n; i++ {
			ops := c10Script(ctx.Rng, 10)
			for _, d := range kvDrivers {
				inputs = append(inputs, c10Input{Driver: d, Ops: ops})
			}
		}
	}
	for _, in := range inputs {
		obs := execC10(in)
		outs := make([]string, len(obs))
		for i, r := range obs {
			outs[i] = resCoq(r)
		}
		opsC := make([]string, len(in.Ops))
		reads := false
		for i, o := range in.Ops {
			opsC[i] = opCoq(o)
			if o.Op != "set" && o.Op != "del" && o.Op != "bulk" && o.Op != "delprefix" {
				reads = true
			}
		}
		di := 0
		for i, d := range kvDrivers {
			if d == in.Driver {
				di = i
			}
		}
		c := coq.Record("cdrv", coq.Nat(di), "cops", coq.List(opsC), "cobs", coq.List(outs))
		key, _ := json.Marshal(in)
		ctx.Add(Case{Input: in, Observed: obs, Coq: c, Nontrivial: len(in.Ops) >= 3 && reads, Key: string(key), Tags: c10Classes(in)})
	}
	return nil
}
