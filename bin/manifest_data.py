BASELINE_OFF = "for m in $(cat /w/out/gomods.txt); do MF=$(cd /repo/$m && . /w/out/goenv.sh && gomodflag); (cd /repo/$m && go test $MF -json -vet=off -count=1 -timeout 25m ./...); done"
HOOK_COMMITS = []
NOTES = "Every check: regenerate coq/Gen from /repo, make the property's Coq targets, build the harness against /repo with -tags verif, run the driver, evaluate cases in Coq. See DESIGN.md."
NOT_APPLICABLE = {}
CLAIMED = {
 "C13": {
  "text": "Theorems (Coq, closed under the global context) about transition-system models of the serializer/deserializer worker pools, the lookup batcher, the channel multiplexer and FIFO chains (DualProcessor, jump queue): for every worker count, capacity >= 1, input and every schedule of the model, deliveries are a prefix of the input image, closure happens only after exhaustion with everything delivered once in order, and no unclosed state is stuck; plus the functional identity merge_rr . distribute = id. The tie to the code is a correspondence check running the real combinators under seeded latencies and GOMAXPROCS 1/4/16.",
  "note": "Partial with respect to the Go runtime: 'every schedule' is every schedule of the modelled transition system; goroutine scheduling is sampled. Mux pipelines are assumed 1:1 FIFO.",
  "technique": "Coq invariant proofs over small-step models + differential correspondence (vm_compute)",
 },
 "C10": {
  "text": "Theorems: the reference store Model/KV.v is an ordered byte-string map for every store/key/prefix/script (sortedness preserved by every script; get/set/delete/prefix-delete laws; Seek returns the least key >= k; the Seek/Valid&&HasPrefix/Next loop returns exactly the keys carrying the prefix, in order; a sorted store is determined by its lookups, so any two backends related to the same map answer every script identically). The four real drivers are tied to that map by a correspondence check that replays generated interface scripts (point ops, prefix deletes, cursor scripts inside View, Update transactions with nested views, BulkWrite) on a fresh Badger, Bolt, LevelDB and Pebble store each and compares every returned value.",
  "note": "The adapters and storage libraries are not modelled, only compared (sampled). Eight genuine adapter defects found this way were repaired by fix: commits (known_findings.json).",
  "technique": "Coq proofs about the sorted-map reference + differential correspondence on all four drivers",
 },
}
