package main

import (
	"context"
	"encoding/json"
	"fmt"
	"math/rand"
	"os"
	"sort"
	"time"

	"github.com/bmeg/grip/gripql"
	"google.golang.org/protobuf/types/known/structpb"

	"gripverif/internal/coq"
)

func init() {
	props["C18"] = runC18
	workers["bulk"] = func(args []string) { workerLoop(bulkWorker) }
}

type c18Elem struct {
	Graph    string   `json:"graph"`
	IsVertex bool     `json:"is_vertex"`
	IsEdge   bool     `json:"is_edge"`
	Gid      string   `json:"gid"`
	Label    string   `json:"label"`
	From     string   `json:"from,omitempty"`
	To       string   `json:"to,omitempty"`
	Keys     []string `json:"keys,omitempty"`
	Val      int      `json:"val"`
}
type c18Input struct {
	Stream []c18Elem `json:"stream"`
	Driver string    `json:"driver"`
}
type c18Graph struct {
	Vertices []c17Elem `json:"vertices"`
	Edges    []c17Elem `json:"edges"`
}
type c18Obs struct {
	Ins, Err         int32
	Bulk, Seq        map[string]c18Graph
	SeqOK, SeqFailed int
	Error            string `json:"error,omitempty"`
}

var c18Graphs = []string{"g1", "g2"}

func (e c18Elem) proto() *gripql.GraphElement {
	data := map[string]interface{}{"val": float64(e.Val)}
	for _, k := range e.Keys {
		data[k] = 1.0
	}
	s := &structpb.Struct{Fields: map[string]*structpb.Value{}}
	for k, v := range data {
		x, _ := structpb.NewValue(v)
		s.Fields[k] = x
	}
	ge := &gripql.GraphElement{Graph: e.Graph}
	if e.IsVertex {
		ge.Vertex = &gripql.Vertex{Gid: e.Gid, Label: e.Label, Data: s}
	}
	if e.IsEdge {
		ge.Edge = &gripql.Edge{Gid: e.Gid, Label: e.Label, From: e.From, To: e.To, Data: s}
	}
	return ge
}

func dumpGraphs(env *srvEnv) map[string]c18Graph {
	out := map[string]c18Graph{}
	ctx := context.Background()
	for _, g := range c18Graphs {
		gi, err := env.db.Graph(g)
		if err != nil {
			continue
		}
		gr := c18Graph{Vertices: []c17Elem{}, Edges: []c17Elem{}}
		for v := range gi.GetVertexList(ctx, true) {
			val := -1
			if x, ok := v.Data["val"].(float64); ok {
				val = int(x)
			}
			gr.Vertices = append(gr.Vertices, c17Elem{ID: v.ID, Label: v.Label, Val: val})
		}
		for e := range gi.GetEdgeList(ctx, true) {
			val := -1
			if x, ok := e.Data["val"].(float64); ok {
				val = int(x)
			}
			gr.Edges = append(gr.Edges, c17Elem{ID: e.ID, Label: e.Label, Val: val, From: e.From, To: e.To})
		}
		sort.Slice(gr.Vertices, func(a, b int) bool { return gr.Vertices[a].ID < gr.Vertices[b].ID })
		sort.Slice(gr.Edges, func(a, b int) bool { return gr.Edges[a].ID < gr.Edges[b].ID })
		out[g] = gr
	}
	return out
}

func bulkWorker(req json.RawMessage) interface{} {
	var in c18Input
	if err := json.Unmarshal(req, &in); err != nil {
		return c18Obs{Error: err.Error()}
	}
	ctx := context.Background()
	ob := c18Obs{}
	// bulk
	env, err := newSrvEnv(in.Driver)
	if err != nil {
		return c18Obs{Error: err.Error()}
	}
	for _, g := range c18Graphs {
		env.srv.AddGraph(ctx, &gripql.GraphID{Graph: g})
	}
	bs := &bulkStream{fakeStream: fakeStream{ctx}}
	for _, e := range in.Stream {
		bs.elems = append(bs.elems, e.proto())
	}
	if err := env.srv.BulkAdd(bs); err != nil {
		ob.Error = "BulkAdd: " + err.Error()
	}
	if bs.res != nil {
		ob.Ins, ob.Err = bs.res.InsertCount, bs.res.ErrorCount
	}
	ob.Bulk = dumpGraphs(env)
	env.close()
	// one at a time
	env2, err := newSrvEnv(in.Driver)
	if err != nil {
		return c18Obs{Error: err.Error()}
	}
	for _, g := range c18Graphs {
		env2.srv.AddGraph(ctx, &gripql.GraphID{Graph: g})
	}
	for _, e := range in.Stream {
		ge := e.proto()
		failed := 0
		if ge.Vertex != nil {
			if _, err := env2.srv.AddVertex(ctx, &gripql.GraphElement{Graph: ge.Graph, Vertex: ge.Vertex}); err != nil {
				failed++
			} else {
				ob.SeqOK++
			}
		}
		if ge.Edge != nil {
			if _, err := env2.srv.AddEdge(ctx, &gripql.GraphElement{Graph: ge.Graph, Edge: ge.Edge}); err != nil {
				failed++
			} else {
				ob.SeqOK++
			}
		}
		if ge.Graph != "g1" && ge.Graph != "g2" {
			failed = 1 // one element refused because of its graph, whatever it carries (even nothing)
		}
		ob.SeqFailed += failed
	}
	ob.Seq = dumpGraphs(env2)
	env2.close()
	return ob
}

func c18Stream(rng *rand.Rand, n int) []c18Elem {
	out := []c18Elem{}
	graphs := []string{"g1", "g1", "g1", "g2", "g2", "nope", "g1__schema__"}
	g := graphs[rng.Intn(len(graphs))]
	for i := 0; i < n; i++ {
		if rng.Intn(4) == 0 { // runs of one graph, then a switch
			g = graphs[rng.Intn(len(graphs))]
		}
		e := c18Elem{Graph: g, Val: i + 1}
		switch r := rng.Intn(20); {
		case r < 10:
			e.IsVertex = true
			e.Gid, e.Label = fmt.Sprintf("v%d", rng.Intn(12)), fmt.Sprintf("L%d", rng.Intn(2))
		case r < 15:
			k := rng.Intn(6)
			e.IsEdge = true
			e.Gid, e.Label, e.From, e.To = fmt.Sprintf("e%d", k), "E", fmt.Sprintf("v%d", k), fmt.Sprintf("v%d", k+1)
		case r < 16: // invalid vertex
			e.IsVertex = true
			e.Gid, e.Label = []string{"", "x", "y"}[rng.Intn(3)], []string{"", "L"}[rng.Intn(2)]
			if e.Gid != "" && e.Label != "" {
				e.Keys = []string{[]string{"_gid", "a.b", "_label", "bad key"}[rng.Intn(4)]}
			}
		case r < 17: // invalid edge
			e.IsEdge = true
			k := rng.Intn(6)
			e.Gid, e.Label, e.From, e.To = fmt.Sprintf("e%d", k), "E", fmt.Sprintf("v%d", k), fmt.Sprintf("v%d", k+1)
			switch rng.Intn(4) {
			case 0:
				e.Label = ""
			case 1:
				e.From = ""
			case 2:
				e.To = ""
			default:
				e.Keys = []string{"_from"}
			}
		case r < 18: // valid with extra fields
			e.IsVertex = true
			e.Gid, e.Label, e.Keys = fmt.Sprintf("v%d", rng.Intn(12)), "L0", []string{"name", "w"}
		case r < 19: // neither vertex nor edge
		default: // both
			k := rng.Intn(6)
			e.IsVertex, e.IsEdge = true, true
			e.Gid, e.Label, e.From, e.To = fmt.Sprintf("b%d", k), "B", fmt.Sprintf("v%d", k), fmt.Sprintf("v%d", k+1)
		}
		out = append(out, e)
	}
	return out
}

func runC18(ctx *Ctx) error {
	ctx.EvalMod = "Eval_C18"
	ctx.CaseTy = "c18_case"
	ctx.Shard = 25
	ctx.Scope = "N_scope"
	ctx.Rule = "element streams through the server's BulkAdd (fake client stream, in-process server, badger and pebble) and the same elements through AddVertex/AddEdge one at a time on a second fresh server: lengths 0,1,2,49,50,51,99,100,101,150,260 and random lengths, runs of elements for g1/g2 interleaved with a missing graph and a schema graph, 12 vertex ids and 6 edge ids reused throughout (later writes overwrite earlier ones), invalid vertices (empty gid/label, reserved or malformed field names), invalid edges (empty label/from/to, reserved field), elements with neither or both of vertex and edge; observed: InsertCount/ErrorCount, the vertices and edges of both graphs after each way of loading, acknowledged and refused single adds; non-trivial = a stream that switches graph at least twice and contains an invalid element; distinct by input"
	var inputs []c18Input
	if ctx.Replay != nil {
		var in c18Input
		if err := json.Unmarshal(ctx.Replay, &in); err != nil {
			return err
		}
		inputs = []c18Input{in}
	} else {
		for i, n := range []int{0, 1, 2, 49, 50, 51, 99, 100, 101, 150, 260} {
			drv := "badger"
			if i%2 == 1 {
				drv = "pebble"
			}
			inputs = append(inputs, c18Input{Stream: c18Stream(ctx.Rng, n), Driver: drv})
		}
		m := ctx.Pick(40, 400)
		for i := 0; i < m; i++ {
			drv := "badger"
			if i%3 == 2 {
				drv = "pebble"
			}
			inputs = append(inputs, c18Input{Stream: c18Stream(ctx.Rng, ctx.Rng.Intn(70)), Driver: drv})
		}
	}
	reqs := make([]json.RawMessage, len(inputs))
	for i, in := range inputs {
		reqs[i], _ = json.Marshal(in)
	}
	root, _ := os.MkdirTemp("", "c18root")
	os.Setenv("TMPDIR", root)
	defer os.RemoveAll(root)
	res := runIsolated("bulk", reqs, 8, 120*time.Second)
	os.Unsetenv("TMPDIR")
	for i, in := range inputs {
		var ob c18Obs
		r := res[i]
		switch {
		case r.Crashed:
			ob = c18Obs{Error: "crash: " + tailStr(r.Stderr, 1500)}
		case r.Timeout:
			ob = c18Obs{Error: "worker timeout"}
		default:
			json.Unmarshal(r.Out, &ob)
		}
		elems := make([]string, len(in.Stream))
		switches, invalid := 0, false
		for k, e := range in.Stream {
			if k > 0 && in.Stream[k-1].Graph != e.Graph {
				switches++
			}
			if (e.IsVertex && (e.Gid == "" || e.Label == "" || len(e.Keys) == 1)) || (e.IsEdge && (e.Label == "" || e.From == "" || e.To == "")) {
				invalid = true
			}
			elems[k] = coq.Record("b_graph", coq.Str(e.Graph), "b_is_vertex", coq.Bool(e.IsVertex), "b_is_edge", coq.Bool(e.IsEdge),
				"b_gid", coq.Str(e.Gid), "b_label", coq.Str(e.Label), "b_from", coq.Str(e.From), "b_to", coq.Str(e.To),
				"b_keys", coq.StrList(append([]string{"val"}, e.Keys...)), "b_val", fmt.Sprint(e.Val))
		}
		tab := func(m map[string]c18Graph) string {
			items := []string{}
			for _, g := range c18Graphs {
				gr, ok := m[g]
				if !ok {
					continue
				}
				vs := make([]string, len(gr.Vertices))
				for k, v := range gr.Vertices {
					vs[k] = fmt.Sprintf("(%s, (%s, %d))", coq.Str(v.ID), coq.Str(v.Label), maxInt(v.Val, 0))
				}
				es := make([]string, len(gr.Edges))
				for k, v := range gr.Edges {
					es[k] = fmt.Sprintf("(%s, (%s, %d))", coq.Str(v.ID), coq.Str(v.Label), maxInt(v.Val, 0))
				}
				items = append(items, fmt.Sprintf("(%s, (%s, %s))", coq.Str(g), coq.List(vs), coq.List(es)))
			}
			return coq.List(items)
		}
		ins, errc := ob.Ins, ob.Err
		if ob.Error != "" {
			ins, errc = 999999, 999999
		}
		cc := coq.Record("c_exists", coq.StrList(c18Graphs), "c_stream", coq.List(elems), "o_ins", fmt.Sprint(ins), "o_err", fmt.Sprint(errc),
			"o_bulk", tab(ob.Bulk), "o_seq", tab(ob.Seq), "o_seq_ok", fmt.Sprint(ob.SeqOK), "o_seq_failed", fmt.Sprint(ob.SeqFailed))
		key, _ := json.Marshal(in)
		ctx.Add(Case{Input: in, Observed: ob, Coq: cc, Nontrivial: switches >= 2 && invalid, Key: string(key),
			Tags: []string{"driver=" + in.Driver, fmt.Sprintf("len=%d", len(in.Stream))}})
	}
	return nil
}

func maxInt(a, b int) int {
	if a > b {
		return a
	}
	return b
}
