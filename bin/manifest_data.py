BASELINE_OFF = "for m in $(cat /w/out/gomods.txt); do MF=$(cd /repo/$m && . /w/out/goenv.sh && gomodflag); (cd /repo/$m && go test $MF -json -vet=off -count=1 -timeout 25m ./...); done"
HOOK_COMMITS = []
NOTES = "Every check: regenerate coq/Gen from /repo, make the property's Coq targets, build the harness against /repo with -tags verif, run the driver, evaluate cases in Coq. See DESIGN.md."
NOT_APPLICABLE = {}
CLAIMED = {
 "C13": {
  "text": "Theorems (Coq, closed under the global context) about transition-system models of the serializer/deserializer worker pools, the lookup batcher, the channel multiplexer and FIFO chains (DualProcessor, jump queue): for every worker count, capacity >= 1, input and every schedule of the model, deliveries are a prefix of the input image, closure happens only after exhaustion with everything delivered once in order, and no unclosed state is stuck; plus the functional identity merge_rr . distribute = id. The tie to the code is a correspondence check running the real combinators under seeded latencies and GOMAXPROCS 1/4/16.",
  "note": "Partial with respect to the Go runtime: 'every schedule' is every schedule of the modelled transition system; goroutine scheduling is sampled. Mux pipelines are assumed 1:1 FIFO.",
  "technique": "Coq invariant proofs over small-step models + differential correspondence (vm_compute)",
 },
}
