(* C08  has() conditions mean what the documentation says, for every value. *)
From Coq Require Import List ZArith QArith String Bool Permutation.
Import ListNotations.
From Grip Require Import Model.Json Model.Has Proofs.HasProofs.

(* every operator, every element value (missing, null, boolean, number, string, list, map), every argument:
   the code's decision equals the documented comparison; total function, so it never raises *)
Theorem C08_cond : forall (v : option jv) (op : cop) (a : jv), match_cond v op a = doc_cond v op a.
Proof. exact match_cond_doc. Qed.
Print Assumptions C08_cond.

(* a non-number (not numeric text) never matches an ordering test *)
Theorem C08_non_numeric_never_orders : forall v op a,
  In op [CGt; CGte; CLt; CLte; CInside; COutside; CBetween] ->
  numeric (goval v) = None -> match_cond v op a = false.
Proof.
  intros v op a Hop Hn. rewrite match_cond_doc. unfold doc_cond. rewrite Hn.
  simpl in Hop. repeat destruct Hop as [<-|Hop]; try reflexivity; try contradiction.
Qed.
Print Assumptions C08_non_numeric_never_orders.

(* Boolean algebra at any nesting depth: De Morgan duals, double negation and operand reordering, applied
   to any sub-expression any number of times (equiv is their congruence closure), never change the result *)
Theorem C08_bool : forall (look : string -> option jv) (a b : hexpr), equiv a b -> match_expr look a = match_expr look b.
Proof. exact equiv_sound. Qed.
Print Assumptions C08_bool.

Example C08_nonvacuous :
  match_cond (Some (JStr "7")) CGt (JNum (5 # 1)) = true /\
  match_cond (Some (JBool true)) CGt (JNum 0) = false /\
  match_cond None CLt (JNum 1) = false /\
  match_cond (Some (JNum (30 # 1))) CBetween (JList [JNum (30 # 1); JNum (45 # 1)]) = true /\
  match_cond (Some (JNum (45 # 1))) CBetween (JList [JNum (30 # 1); JNum (45 # 1)]) = false /\
  match_cond (Some (JNum (30 # 1))) CInside (JList [JNum (30 # 1); JNum (45 # 1)]) = false /\
  parse_float "2.5e1" = Some (25 # 1)%Q /\ parse_float "7a" = None.
Proof. vm_compute. repeat split; reflexivity. Qed.
