package main

import (
	"bytes"
	stdlog "log"
	"runtime"
	"context"
	"encoding/json"
	"fmt"
	"math/rand"
	"os"
	"path/filepath"
	"regexp"
	"sort"
	"strings"
	"sync"
	"sync/atomic"
	"time"

	"github.com/bmeg/grip/gdbi"
	"github.com/bmeg/grip/gripql"
	"github.com/bmeg/grip/util"
	"google.golang.org/protobuf/types/known/structpb"

	"gripverif/internal/coq"
)

func init() {
	props["C17"] = runC17
	workers["conc"] = func(args []string) { workerLoop(concWorker) }
}

type c17Op struct {
	Op    string `json:"op"`
	Graph string `json:"graph,omitempty"`
	ID    string `json:"id,omitempty"`
	Label string `json:"label,omitempty"`
	Val   int    `json:"val,omitempty"`
	From  string `json:"from,omitempty"`
	To    string `json:"to,omitempty"`
}
type c17Input struct {
	Sessions [][]c17Op `json:"sessions"`
	Driver   string    `json:"driver"`
	// graph-creation race: for this many fresh graph names one session creates the graph while another writes to it as soon
	// as it is visible; every acknowledged element must afterwards be found through the label index as well
	CreateRace int `json:"create_race,omitempty"`
	// the batching writer behind driver bulk loads (util.StreamBatch): this many vertices and edges streamed through it with
	// writers slower than the producer; every element must be handed to a writer exactly once
	StreamRace int `json:"stream_race,omitempty"`
	// four schema uploaders against four schema readers, this many uploads each: all must return (no reader/writer deadlock)
	SchemaRace int `json:"schema_race,omitempty"`
	// this many times: submit a job over 25 vertices, poll its status, read its rows the moment it is COMPLETE
	JobRace int `json:"job_race,omitempty"`
}
type c17Elem struct {
	ID    string `json:"id"`
	Label string `json:"label"`
	Val   int    `json:"val"`
	From  string `json:"from,omitempty"`
	To    string `json:"to,omitempty"`
}
type c17Obs struct {
	Acks     [][]bool  `json:"acks"` // per session, per op: returned without error
	Vertices []c17Elem `json:"vertices"`
	Edges    []c17Elem `json:"edges"`
	Graphs   []string  `json:"graphs"`
	Races    []string  `json:"races"` // deduplicated "write-fn <-> other-fn" pairs
	IndexMissing int   `json:"acknowledged_but_not_in_label_index"`
	Crashed  bool      `json:"crashed"`
	Err      string    `json:"err,omitempty"`
	Stderr   string    `json:"stderr,omitempty"`
}

type jobListStream struct {
	fakeStream
	jobs []*gripql.QueryJob
}

func (j *jobListStream) Send(q *gripql.QueryJob) error { j.jobs = append(j.jobs, q); return nil }

func valData(v int) *structpb.Struct {
	s, _ := structpb.NewStruct(map[string]interface{}{"val": float64(v)})
	return s
}

type slowLog struct{}

func (slowLog) Write(p []byte) (int, error) {
	if bytes.Contains(p, []byte("Job Done")) {
		time.Sleep(2 * time.Millisecond)
	}
	return len(p), nil
}

var raceFrame = regexp.MustCompile(`^\s+([A-Za-z0-9_./()*\-]+)\(`)

// parseRaces reduces the race detector's reports to pairs of the innermost bmeg/grip functions involved
func parseRaces(text string) []string {
	seen := map[string]bool{}
	for _, rep := range strings.Split(text, "WARNING: DATA RACE") {
		var fns []string
		var cur string
		inStack := false
		for _, line := range strings.Split(rep, "\n") {
			if strings.HasPrefix(line, "Write at") || strings.HasPrefix(line, "Read at") || strings.HasPrefix(line, "Previous write at") || strings.HasPrefix(line, "Previous read at") {
				inStack, cur = true, ""
				continue
			}
			if strings.HasPrefix(line, "Goroutine ") {
				inStack = false
				continue
			}
			if inStack && cur == "" {
				if m := raceFrame.FindStringSubmatch(line); m != nil && strings.Contains(m[1], "bmeg/grip") {
					cur = strings.TrimPrefix(m[1], "github.com/bmeg/grip/")
					fns = append(fns, cur)
				}
			}
			if strings.TrimSpace(line) == "" {
				inStack = false
			}
		}
		if len(fns) >= 2 {
			pair := []string{fns[0], fns[1]}
			sort.Strings(pair)
			seen[pair[0]+" <-> "+pair[1]] = true
		} else if len(fns) == 1 {
			seen[fns[0]+" <-> (runtime)"] = true
		}
	}
	out := []string{}
	for k := range seen {
		out = append(out, k)
	}
	sort.Strings(out)
	return out
}

func concWorker(req json.RawMessage) interface{} {
	var in c17Input
	if err := json.Unmarshal(req, &in); err != nil {
		return c17Obs{Err: err.Error()}
	}
	env, err := newSrvEnv(in.Driver)
	if err != nil {
		return c17Obs{Err: err.Error()}
	}
	srv := env.srv
	ctx := context.Background()
	for _, g := range []string{"g1", "g2"} {
		if _, err := srv.AddGraph(ctx, &gripql.GraphID{Graph: g}); err != nil {
			return c17Obs{Err: "setup: " + err.Error()}
		}
	}
	ob := c17Obs{Acks: make([][]bool, len(in.Sessions))}
	var wg sync.WaitGroup
	start := make(chan struct{})
	for i, sess := range in.Sessions {
		ob.Acks[i] = make([]bool, len(sess))
		wg.Add(1)
		go func(i int, sess []c17Op) {
			defer wg.Done()
			<-start
			var lastJob *gripql.QueryJob
			for k, op := range sess {
				var err error
				switch op.Op {
				case "addVertex":
					_, err = srv.AddVertex(ctx, &gripql.GraphElement{Graph: op.Graph, Vertex: &gripql.Vertex{Gid: op.ID, Label: op.Label, Data: valData(op.Val)}})
				case "addEdge":
					_, err = srv.AddEdge(ctx, &gripql.GraphElement{Graph: op.Graph, Edge: &gripql.Edge{Gid: op.ID, Label: op.Label, From: op.From, To: op.To, Data: valData(op.Val)}})
				case "delVertex":
					_, err = srv.DeleteVertex(ctx, &gripql.ElementID{Graph: op.Graph, Id: op.ID})
				case "delEdge":
					_, err = srv.DeleteEdge(ctx, &gripql.ElementID{Graph: op.Graph, Id: op.ID})
				case "getVertex":
					_, err = srv.GetVertex(ctx, &gripql.ElementID{Graph: op.Graph, Id: op.ID})
					err = nil
				case "count":
					err = srv.Traversal(&gripql.GraphQuery{Graph: op.Graph, Query: gripql.NewQuery().V().Count().Statements}, &travStream{fakeStream: fakeStream{ctx}})
				case "scan":
					err = srv.Traversal(&gripql.GraphQuery{Graph: op.Graph, Query: gripql.NewQuery().V().Both().Statements}, &travStream{fakeStream: fakeStream{ctx}})
				case "listGraphs":
					_, err = srv.ListGraphs(ctx, &gripql.Empty{})
				case "listLabels":
					_, err = srv.ListLabels(ctx, &gripql.GraphID{Graph: op.Graph})
				case "addGraph":
					_, err = srv.AddGraph(ctx, &gripql.GraphID{Graph: op.Graph})
				case "deleteGraph":
					_, err = srv.DeleteGraph(ctx, &gripql.GraphID{Graph: op.Graph})
				case "addSchema":
					_, err = srv.AddSchema(ctx, &gripql.Graph{Graph: op.Graph, Vertices: []*gripql.Vertex{{Gid: op.Label, Label: op.Label, Data: valData(op.Val)}}})
				case "getSchema":
					_, err = srv.GetSchema(ctx, &gripql.GraphID{Graph: op.Graph})
					err = nil
				case "submit":
					lastJob, err = srv.Submit(ctx, &gripql.GraphQuery{Graph: op.Graph, Query: gripql.NewQuery().V().Statements})
				case "listJobs":
					err = srv.ListJobs(&gripql.GraphID{Graph: op.Graph}, &jobListStream{fakeStream: fakeStream{ctx}})
				case "getJob":
					if lastJob != nil {
						_, err = srv.GetJob(ctx, lastJob)
						err = nil
					}
				case "viewJob":
					if lastJob != nil {
						srv.ViewJob(lastJob, &travStream{fakeStream: fakeStream{ctx}})
					}
				case "refresh":
					srv.VerifRefresh()
				}
				ob.Acks[i][k] = err == nil
			}
		}(i, sess)
	}
	for k := 0; k < in.CreateRace; k++ {
		name := fmt.Sprintf("r%03d", k)
		var okE, okV bool
		var w2 sync.WaitGroup
		w2.Add(2)
		go func() { defer w2.Done(); srv.AddGraph(ctx, &gripql.GraphID{Graph: name}) }()
		go func() {
			defer w2.Done()
			for t := 0; t < 200000; t++ {
				if _, err := env.db.Graph(name); err == nil {
					break
				}
				runtime.Gosched()
			}
			_, e1 := srv.AddEdge(ctx, &gripql.GraphElement{Graph: name, Edge: &gripql.Edge{Gid: "e", Label: "knows", From: "a", To: "b"}})
			_, e2 := srv.AddVertex(ctx, &gripql.GraphElement{Graph: name, Vertex: &gripql.Vertex{Gid: "a", Label: "Person"}})
			okE, okV = e1 == nil, e2 == nil
		}()
		w2.Wait()
		if l, err := srv.ListLabels(ctx, &gripql.GraphID{Graph: name}); err == nil {
			has := func(xs []string, x string) bool {
				for _, y := range xs {
					if y == x {
						return true
					}
				}
				return false
			}
			if okE && !has(l.EdgeLabels, "knows") {
				ob.IndexMissing++
			}
			if okV && !has(l.VertexLabels, "Person") {
				ob.IndexMissing++
			}
		}
	}
	if in.SchemaRace > 0 {
		var w3 sync.WaitGroup
		stop := make(chan struct{})
		for u := 0; u < 4; u++ {
			w3.Add(1)
			go func(u int) {
				defer w3.Done()
				for k := 0; k < in.SchemaRace; k++ {
					srv.AddSchema(ctx, &gripql.Graph{Graph: "g1", Vertices: []*gripql.Vertex{{Gid: fmt.Sprintf("S%d", u), Label: fmt.Sprintf("S%d", u), Data: valData(k)}}})
				}
			}(u)
		}
		for r := 0; r < 4; r++ {
			go func() {
				for {
					select {
					case <-stop:
						return
					default:
						srv.GetSchema(ctx, &gripql.GraphID{Graph: "g1"})
					}
				}
			}()
		}
		fin := make(chan struct{})
		go func() { w3.Wait(); close(fin) }()
		select {
		case <-fin:
			close(stop)
		case <-time.After(time.Duration(45+in.SchemaRace/2) * time.Second): // 4 x SchemaRace uploads under the race detector; a deadlock never returns
			return c17Obs{Err: fmt.Sprintf("schema uploads and reads did not return within %d s (reader/writer deadlock)", 45+in.SchemaRace/2), Acks: ob.Acks}
		}
		// the server must still answer
		okc := make(chan struct{})
		go func() { srv.ListGraphs(ctx, &gripql.Empty{}); close(okc) }()
		select {
		case <-okc:
		case <-time.After(15 * time.Second):
			return c17Obs{Err: "ListGraphs does not return after the schema race", Acks: ob.Acks}
		}
	}
	if in.JobRace > 0 {
		// a slow log sink: whatever the spooling goroutine still does after it has published COMPLETE happens late
		stdlog.SetOutput(slowLog{})
		defer stdlog.SetOutput(os.Stderr)
		srv.AddGraph(ctx, &gripql.GraphID{Graph: "jr"})
		for k := 0; k < 25; k++ {
			srv.AddVertex(ctx, &gripql.GraphElement{Graph: "jr", Vertex: &gripql.Vertex{Gid: fmt.Sprintf("j%02d", k), Label: "J", Data: valData(k)}})
		}
		for k := 0; k < in.JobRace; k++ {
			job, err := srv.Submit(ctx, &gripql.GraphQuery{Graph: "jr", Query: gripql.NewQuery().V().HasLabel("J").Statements})
			if err != nil {
				continue
			}
			// three clients poll the job and read its rows the moment it is reported COMPLETE: what the status says
			// (COMPLETE, count 25) and what a reader gets at that moment must agree
			var pw sync.WaitGroup
			var short int32
			for c := 0; c < 3; c++ {
				pw.Add(1)
				go func() {
					defer pw.Done()
					for t := 0; t < 400000; t++ {
						st, err := srv.GetJob(ctx, job)
						if err == nil && (st.State == gripql.JobState_COMPLETE || st.State == gripql.JobState_ERROR) {
							break
						}
						runtime.Gosched()
					}
					vs := &travStream{fakeStream: fakeStream{ctx}}
					srv.ViewJob(job, vs)
					if len(vs.rows) != 25 {
						atomic.AddInt32(&short, 1)
					}
				}()
			}
			pw.Wait()
			if short > 0 {
				ob.IndexMissing++
			}
			srv.DeleteJob(ctx, job)
		}
	}
	if in.StreamRace > 0 {
		stream := make(chan *gdbi.GraphElement, 10)
		go func() {
			for i := 0; i < in.StreamRace; i++ {
				stream <- &gdbi.GraphElement{Graph: "g1", Vertex: &gdbi.Vertex{ID: fmt.Sprintf("sv%d", i), Label: "S"}}
				stream <- &gdbi.GraphElement{Graph: "g1", Edge: &gdbi.Edge{ID: fmt.Sprintf("se%d", i), Label: "S", From: "a", To: "b"}}
				if i%7 == 3 {
					// refused elements: the reading goroutine reports into the same error accumulator as the two writers
					stream <- &gdbi.GraphElement{Graph: "g1", Vertex: &gdbi.Vertex{ID: "", Label: "S"}}
					stream <- &gdbi.GraphElement{Graph: "other", Vertex: &gdbi.Vertex{ID: "x", Label: "S"}}
				}
			}
			close(stream)
		}()
		var mu sync.Mutex
		seen := map[string]int{}
		util.StreamBatch(stream, 50, "g1",
			func(vs []*gdbi.Vertex) error {
				time.Sleep(200 * time.Microsecond)
				mu.Lock()
				for _, v := range vs {
					seen[v.ID]++
				}
				nb := len(seen)
				mu.Unlock()
				if nb%3 == 0 {
					return fmt.Errorf("vertex store error")
				}
				return nil
			},
			func(es []*gdbi.Edge) error {
				time.Sleep(200 * time.Microsecond)
				mu.Lock()
				for _, e := range es {
					seen[e.ID]++
				}
				nb := len(seen)
				mu.Unlock()
				if nb%2 == 0 {
					return fmt.Errorf("edge store error")
				}
				return nil
			})
		for i := 0; i < in.StreamRace; i++ {
			if seen[fmt.Sprintf("sv%d", i)] != 1 {
				ob.IndexMissing++
			}
			if seen[fmt.Sprintf("se%d", i)] != 1 {
				ob.IndexMissing++
			}
		}
	}
	close(start)
	done := make(chan struct{})
	go func() { wg.Wait(); close(done) }()
	select {
	case <-done:
	case <-time.After(60 * time.Second):
		return c17Obs{Err: "sessions did not return within 60 s", Acks: ob.Acks}
	}
	time.Sleep(300 * time.Millisecond) // let job goroutines finish
	// final state, read through the store
	for _, g := range []string{"g1", "g2"} {
		gi, err := env.db.Graph(g)
		if err != nil {
			continue
		}
		for v := range gi.GetVertexList(ctx, true) {
			val := -1
			if x, ok := v.Data["val"].(float64); ok {
				val = int(x)
			}
			ob.Vertices = append(ob.Vertices, c17Elem{ID: g + "/" + v.ID, Label: v.Label, Val: val})
		}
		for e := range gi.GetEdgeList(ctx, true) {
			val := -1
			if x, ok := e.Data["val"].(float64); ok {
				val = int(x)
			}
			ob.Edges = append(ob.Edges, c17Elem{ID: g + "/" + e.ID, Label: e.Label, Val: val, From: e.From, To: e.To})
		}
	}
	sort.Slice(ob.Vertices, func(a, b int) bool { return ob.Vertices[a].ID < ob.Vertices[b].ID })
	sort.Slice(ob.Edges, func(a, b int) bool { return ob.Edges[a].ID < ob.Edges[b].ID })
	if r, err := srv.ListGraphs(ctx, &gripql.Empty{}); err == nil {
		ob.Graphs = r.Graphs
		sort.Strings(ob.Graphs)
	}
	// race reports written so far by the detector (GORACE log_path)
	if lp := os.Getenv("C17_RACELOG"); lp != "" {
		files, _ := filepath.Glob(lp + ".*")
		text := ""
		for _, f := range files {
			b, _ := os.ReadFile(f)
			text += string(b)
			os.Truncate(f, 0)
		}
		ob.Races = parseRaces(text)
	}
	return ob
}

func c17Sessions(rng *rand.Rand, nclients, nops int) [][]c17Op {
	out := make([][]c17Op, nclients)
	for i := 0; i < nclients; i++ {
		sess := []c17Op{}
		private := []string{}
		val := i*1000 + 1
		for k := 0; k < nops; k++ {
			g := []string{"g1", "g1", "g2"}[rng.Intn(3)]
			val++
			switch r := rng.Intn(20); {
			case r < 4:
				id := fmt.Sprintf("p%d_%d", i, rng.Intn(6))
				private = append(private, g+"|"+id)
				sess = append(sess, c17Op{Op: "addVertex", Graph: g, ID: id, Label: fmt.Sprintf("L%d", rng.Intn(2)), Val: val})
			case r < 7:
				sess = append(sess, c17Op{Op: "addVertex", Graph: g, ID: fmt.Sprintf("s%d", rng.Intn(3)), Label: fmt.Sprintf("C%d", i), Val: val})
			case r < 9:
				// an edge id always joins the same two vertices: re-adding an id with other endpoints is C03's known finding
				k := rng.Intn(4)
				a, b := fmt.Sprintf("p%d_%d", i, k), fmt.Sprintf("p%d_%d", i, (k+1)%6)
				sess = append(sess, c17Op{Op: "addEdge", Graph: g, ID: fmt.Sprintf("e%d_%d", i, k), Label: "E", From: a, To: b, Val: val})
			case r < 10:
				sess = append(sess, c17Op{Op: "delEdge", Graph: g, ID: fmt.Sprintf("e%d_%d", i, rng.Intn(4))})
			case r < 11:
				sess = append(sess, c17Op{Op: "getVertex", Graph: g, ID: fmt.Sprintf("s%d", rng.Intn(3))})
			case r < 12:
				sess = append(sess, c17Op{Op: "count", Graph: g})
			case r < 13:
				sess = append(sess, c17Op{Op: "listGraphs"}, c17Op{Op: "listLabels", Graph: g})
			case r < 15:
				t := fmt.Sprintf("t%d", i)
				sess = append(sess, c17Op{Op: "addGraph", Graph: t}, c17Op{Op: "addVertex", Graph: t, ID: "x", Label: "T", Val: val}, c17Op{Op: "deleteGraph", Graph: t})
			case r < 17:
				sess = append(sess, c17Op{Op: "addSchema", Graph: g, Label: fmt.Sprintf("S%d", i), Val: val}, c17Op{Op: "getSchema", Graph: g})
			case r < 18:
				sess = append(sess, c17Op{Op: "getSchema", Graph: g})
			case r < 19:
				sess = append(sess, c17Op{Op: "submit", Graph: g}, c17Op{Op: "listJobs", Graph: g}, c17Op{Op: "getJob"}, c17Op{Op: "viewJob"})
			default:
				sess = append(sess, c17Op{Op: "scan", Graph: g})
			}
		}
		out[i] = sess
	}
	return out
}

func runC17(ctx *Ctx) error {
	ctx.EvalMod = "Eval_C17"
	ctx.CaseTy = "c17_case"
	ctx.Shard = 40
	ctx.Scope = "Z_scope"
	ctx.Rule = "concurrent sessions against one in-process server (verif hook, handlers called directly, badger and pebble): 2..8 client goroutines released together, each running 6..25 random operations: vertex writes on private ids and on three ids shared by all clients, private edges and edge deletes, reads, traversals, ListGraphs/ListLabels, creation+use+deletion of a private graph (which rebuilds the shared graph map), AddSchema/GetSchema on the shared graphs, job submit/list/get/view; plus, on its own, the creation of 150 (thorough 600) graphs by one goroutine each while another writes an edge and a vertex to the graph the moment it is visible (every acknowledged element must be listed by the label index), and 1000 vertices + 1000 edges through util.StreamBatch with writers slower than the producer (each handed over exactly once); four schema uploaders against four schema readers (all must return, the server must still answer); 150 jobs whose rows are read the moment their status says COMPLETE (all 25 rows must be there); the worker binary is built with the Go race detector; observed: which calls were acknowledged, the final vertices/edges of both graphs read through the store, the graph list, deduplicated race reports, process death; non-trivial = at least two sessions write a shared id or rebuild the graph map; distinct by input"
	var inputs []c17Input
	if ctx.Replay != nil {
		var in c17Input
		if err := json.Unmarshal(ctx.Replay, &in); err != nil {
			return err
		}
		inputs = []c17Input{in}
	} else {
		n := ctx.Pick(24, 160)
		for i := 0; i < n; i++ {
			nc := 2 + ctx.Rng.Intn(7)
			no := 6 + ctx.Rng.Intn(20)
			drv := "badger"
			if i%3 == 2 {
				drv = "pebble"
			}
			inputs = append(inputs, c17Input{Sessions: c17Sessions(ctx.Rng, nc, no), Driver: drv})
		}
		// the graph-creation race on its own (no other sessions), on both stores
		for _, drv := range []string{"badger", "pebble"} {
			inputs = append(inputs, c17Input{Sessions: [][]c17Op{}, Driver: drv, CreateRace: ctx.Pick(150, 600)})
		}
		inputs = append(inputs, c17Input{Sessions: [][]c17Op{}, Driver: "badger", StreamRace: 1000},
			c17Input{Sessions: [][]c17Op{}, Driver: "badger", SchemaRace: ctx.Pick(150, 600)},
			c17Input{Sessions: [][]c17Op{}, Driver: "badger", JobRace: ctx.Pick(150, 900)})
	}
	reqs := make([]json.RawMessage, len(inputs))
	for i, in := range inputs {
		reqs[i], _ = json.Marshal(in)
	}
	root, _ := os.MkdirTemp("", "c17root")
	defer os.RemoveAll(root)
	racebin := filepath.Join(filepath.Dir(os.Args[0]), "drive-race")
	raceOn := false
	if _, err := os.Stat(racebin); err == nil {
		os.Setenv("DRIVE_WORKER_BIN_conc", racebin)
		os.Setenv("C17_RACELOG", filepath.Join(root, "race"))
		os.Setenv("GORACE", "halt_on_error=0 log_path="+filepath.Join(root, "race"))
		raceOn = true
	}
	os.Setenv("TMPDIR", root)
	if ctx.Notes == nil {
		ctx.Notes = map[string]interface{}{}
	}
	ctx.Notes["race_detector"] = raceOn
	res := runIsolated("conc", reqs, 4, 150*time.Second)
	os.Unsetenv("TMPDIR")
	for i, in := range inputs {
		var ob c17Obs
		r := res[i]
		switch {
		case r.Crashed:
			ob = c17Obs{Crashed: true, Stderr: tailStr(r.Stderr, 3000)}
		case r.Timeout:
			ob = c17Obs{Crashed: true, Stderr: "worker timeout"}
		default:
			json.Unmarshal(r.Out, &ob)
		}
		if ob.Err != "" {
			ob.Crashed = true
			ob.Stderr = ob.Err
		}
		// Coq case: the write operations per session with their acknowledgement, the final store
		sess := make([]string, len(in.Sessions))
		shared := 0
		for si, s := range in.Sessions {
			ops := []string{}
			for k, op := range s {
				ack := !ob.Crashed && si < len(ob.Acks) && k < len(ob.Acks[si]) && ob.Acks[si][k]
				key := coq.Str(op.Graph + "/" + op.ID)
				switch op.Op {
				case "addVertex":
					if op.Graph == "g1" || op.Graph == "g2" {
						ops = append(ops, fmt.Sprintf("(WPut KV %s %s %d %s)", key, coq.Str(op.Label), op.Val, coq.Bool(ack)))
						if strings.HasPrefix(op.ID, "s") {
							shared++
						}
					}
				case "addEdge":
					ops = append(ops, fmt.Sprintf("(WPut KE %s %s %d %s)", key, coq.Str(op.Label), op.Val, coq.Bool(ack)))
				case "delEdge":
					ops = append(ops, fmt.Sprintf("(WDel KE %s %s)", key, coq.Bool(ack)))
				case "deleteGraph", "addGraph":
					shared++
				}
			}
			sess[si] = coq.List(ops)
		}
		vs := make([]string, len(ob.Vertices))
		for k, v := range ob.Vertices {
			vs[k] = fmt.Sprintf("(%s, (%s, %d))", coq.Str(v.ID), coq.Str(v.Label), v.Val)
		}
		es := make([]string, len(ob.Edges))
		for k, v := range ob.Edges {
			es[k] = fmt.Sprintf("(%s, (%s, %d))", coq.Str(v.ID), coq.Str(v.Label), v.Val)
		}
		cc := coq.Record("c_sessions", coq.List(sess), "o_vertices", coq.List(vs), "o_edges", coq.List(es),
			"o_races", fmt.Sprintf("%d%%nat", len(ob.Races)), "o_crashed", coq.Bool(ob.Crashed), "o_index_missing", fmt.Sprintf("%d%%nat", ob.IndexMissing))
		key, _ := json.Marshal(in)
		tags := []string{"driver=" + in.Driver, fmt.Sprintf("clients=%d", len(in.Sessions)), fmt.Sprintf("races=%d", len(ob.Races)), fmt.Sprintf("crashed=%v", ob.Crashed)}
		ctx.Add(Case{Input: in, Observed: ob, Coq: cc, Nontrivial: shared >= 2, Key: string(key), Tags: tags})
	}
	return nil
}

func tailStr(s string, n int) string {
	if len(s) > n {
		return s[len(s)-n:]
	}
	return s
}
