(* C17  Concurrent clients cannot corrupt or crash the server.
   (1) Lock discipline => no data race, for every number of threads and every interleaving (Model/Conc.v part 1).
   (2) The lock table REGENERATED from server/, kvindex/ and jobstorage/ on every run satisfies the discipline
       at every access site of every guarded field (reflection).
   (3) Atomic store operations: after ANY interleaving of the sessions that keeps each client's own order,
       every key holds the last write some session made to it, or its initial value (part 2). *)
From Coq Require Import List String Bool Arith.
Import ListNotations.
From Grip Require Import Model.Conc Proofs.ConcProofs Gen.LockTable.
Local Open Scope string_scope.

Theorem C17_discipline_no_race : forall (g : nat -> nat) (progs : list (list event)) (s : sys),
  forallb (disciplined g []) progs = true -> sreach (init progs) s -> ~ race s.
Proof. exact discipline_no_race. Qed.
Print Assumptions C17_discipline_no_race.

(* a site is fine when its function is a constructor (the value is not shared yet), or the lock is held:
   for a write exclusively, for a read in either mode *)
Definition site_ok (s : string * string * bool * lheld * string) : bool :=
  let '(fn, field, write, h, at_) := s in
  match h with LWrite => true | LRead => negb write | LNone => false end.
Theorem C17_lock_table : forallb site_ok lock_sites = true /\ lock_unrecognised = [] /\ 25 <= List.length lock_sites.
Proof. split; [vm_compute; reflexivity|]. split; [reflexivity|]. vm_compute. repeat constructor. Qed.
Print Assumptions C17_lock_table.

(* non-vacuity of the discipline: a reader and a writer thread as the handlers are written *)
Example C17_discipline_instance :
  forallb (disciplined (fun x => 0) []) [[Acq 0 false; Acc 1 false; Rel 0]; [Acq 0 true; Acc 1 true; Acc 2 true; Rel 0]] = true /\
  disciplined (fun x => 0) [] [Acc 1 false] = false /\ disciplined (fun x => 0) [] [Acq 0 false; Acc 1 true; Rel 0] = false.
Proof. vm_compute. auto. Qed.

Theorem C17_interleaving_final : forall (K V : Type) (keq : K -> K -> bool),
  (forall a b, keq a b = true <-> a = b) ->
  forall (ss : list (list (K * option V))) (l : list (K * option V)) (s0 : K -> option V),
  interleaving ss l -> forall k,
  (exists s v, In s ss /\ last_write keq k s = Some v /\ apply keq s0 l k = v) \/
  ((forall s, In s ss -> last_write keq k s = None) /\ apply keq s0 l k = s0 k).
Proof. intros K V keq Hk. exact (interleaving_final K V keq). Qed.
Print Assumptions C17_interleaving_final.
