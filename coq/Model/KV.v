(* The ordered byte-string map that every kvi driver must behave as (property C10), and the
   substrate of the kvindex / kvgraph models (C03, C04, C09, C16).
   A store is an association list kept strictly sorted by key. *)
From Coq Require Import List NArith Bool.
Import ListNotations.
From Grip Require Import Model.Bytes.

Definition store := list (bytes * bytes).

Fixpoint kv_get (s : store) (k : bytes) : option bytes :=
  match s with
  | [] => None
  | (k', v) :: r => match bcmp k k' with Eq => Some v | Lt => None | Gt => kv_get r k end
  end.
Definition kv_has (s : store) (k : bytes) : bool := match kv_get s k with Some _ => true | None => false end.

Fixpoint kv_set (s : store) (k v : bytes) : store :=
  match s with
  | [] => [(k, v)]
  | (k', v') :: r => match bcmp k k' with
                     | Eq => (k, v) :: r
                     | Lt => (k, v) :: (k', v') :: r
                     | Gt => (k', v') :: kv_set r k v
                     end
  end.

Fixpoint kv_del (s : store) (k : bytes) : store :=
  match s with
  | [] => []
  | (k', v') :: r => match bcmp k k' with
                     | Eq => r
                     | Lt => s
                     | Gt => (k', v') :: kv_del r k
                     end
  end.

Definition kv_del_prefix (s : store) (p : bytes) : store :=
  filter (fun kv => negb (is_prefix p (fst kv))) s.

(* cursor positions *)
Fixpoint seek (s : store) (k : bytes) : option (bytes * bytes) :=       (* first key >= k *)
  match s with
  | [] => None
  | (k', v) :: r => if bleb k k' then Some (k', v) else seek r k
  end.
Fixpoint seek_rev_aux (s : store) (k : bytes) (best : option (bytes * bytes)) : option (bytes * bytes) :=
  match s with
  | [] => best
  | (k', v) :: r => if bleb k' k then seek_rev_aux r k (Some (k', v)) else best
  end.
Definition seek_rev (s : store) (k : bytes) := seek_rev_aux s k None.      (* last key <= k *)
Fixpoint next_fwd (s : store) (cur : bytes) : option (bytes * bytes) :=    (* first key > cur *)
  match s with
  | [] => None
  | (k', v) :: r => if bltb cur k' then Some (k', v) else next_fwd r cur
  end.
Fixpoint next_rev_aux (s : store) (cur : bytes) (best : option (bytes * bytes)) :=
  match s with
  | [] => best
  | (k', v) :: r => if bltb k' cur then next_rev_aux r cur (Some (k', v)) else best
  end.
Definition next_rev (s : store) (cur : bytes) := next_rev_aux s cur None.  (* last key < cur *)

(* the scan loop used all over kvgraph / kvindex:
     for it.Seek(p); it.Valid() && bytes.HasPrefix(it.Key(), p); it.Next() { collect } *)
Fixpoint scan_loop (fuel : nat) (s : store) (p : bytes) (cur : option (bytes * bytes)) : list (bytes * bytes) :=
  match fuel with
  | 0 => []
  | S f => match cur with
           | None => []
           | Some (k, v) => if is_prefix p k then (k, v) :: scan_loop f s p (next_fwd s k) else []
           end
  end.
Definition prefix_scan (s : store) (p : bytes) : list (bytes * bytes) :=
  scan_loop (S (length s)) s p (seek s p).

(* ---------- scripts over the kvi interface ---------- *)
Inductive itop := ISeek (k : bytes) | ISeekRev (k : bytes) | INext | IGet (k : bytes).
Inductive txop := TGet (k : bytes) | THas (k : bytes) | TSet (k v : bytes) | TDel (k : bytes) | TView (ops : list itop).
Inductive kvop :=
| OGet (k : bytes) | OHas (k : bytes) | OSet (k v : bytes) | ODel (k : bytes) | ODelPrefix (p : bytes)
| OView (ops : list itop) | OUpdate (ops : list txop) | OBulk (kvs : list (bytes * bytes))
(* the same two calls with a callback that does its work and then returns an error: as one ordered map with
   transactional updates, the store is left as it was *)
| OUpdateFail (ops : list txop) | OBulkFail (kvs : list (bytes * bytes)).

Inductive res :=
| RVal (v : option bytes)     (* Get: Some value / not found *)
| RBool (b : bool)
| RUnit
| RPos (p : option (bytes * bytes))   (* iterator observation after a cursor call: Valid, Key, Value *)
| RList (l : list res)
| RErr.                      (* the call returned the callback's error *)

Record cursor := { c_cur : option (bytes * bytes); c_fwd : bool }.

Definition it_step (s : store) (c : cursor) (o : itop) : cursor * res :=
  match o with
  | ISeek k => let p := seek s k in ({| c_cur := p; c_fwd := true |}, RPos p)
  | ISeekRev k => let p := seek_rev s k in ({| c_cur := p; c_fwd := false |}, RPos p)
  | INext => match c_cur c with
             | None => (c, RPos None)
             | Some (k, _) => let p := if c_fwd c then next_fwd s k else next_rev s k in
                              ({| c_cur := p; c_fwd := c_fwd c |}, RPos p)
             end
  | IGet k => (c, RVal (kv_get s k))
  end.

Fixpoint it_run (s : store) (c : cursor) (ops : list itop) : list res :=
  match ops with [] => [] | o :: r => let (c', x) := it_step s c o in x :: it_run s c' r end.

Definition view (s : store) (ops : list itop) : res := RList (it_run s {| c_cur := None; c_fwd := true |} ops).

Definition tx_step (s : store) (o : txop) : store * res :=
  match o with
  | TGet k => (s, RVal (kv_get s k))
  | THas k => (s, RBool (kv_has s k))
  | TSet k v => (kv_set s k v, RUnit)
  | TDel k => (kv_del s k, RUnit)
  | TView ops => (s, view s ops)
  end.
Fixpoint tx_run (s : store) (ops : list txop) : store * list res :=
  match ops with
  | [] => (s, [])
  | o :: r => let (s1, x) := tx_step s o in let (s2, xs) := tx_run s1 r in (s2, x :: xs)
  end.

Definition kv_step (s : store) (o : kvop) : store * res :=
  match o with
  | OGet k => (s, RVal (kv_get s k))
  | OHas k => (s, RBool (kv_has s k))
  | OSet k v => (kv_set s k v, RUnit)
  | ODel k => (kv_del s k, RUnit)
  | ODelPrefix p => (kv_del_prefix s p, RUnit)
  | OView ops => (s, view s ops)
  | OUpdate ops => let (s', xs) := tx_run s ops in (s', RList xs)
  | OBulk kvs => (fold_left (fun st kv => kv_set st (fst kv) (snd kv)) kvs s, RUnit)
  | OUpdateFail _ | OBulkFail _ => (s, RErr)
  end.
Fixpoint kv_run (s : store) (ops : list kvop) : store * list res :=
  match ops with
  | [] => (s, [])
  | o :: r => let (s1, x) := kv_step s o in let (s2, xs) := kv_run s1 r in (s2, x :: xs)
  end.

(* known finding (C10): the Pebble adapter's Update is not a transaction ("Pebble doesn't actually provide
   transactions, so this is just filling in as a wrapper function"): what a failing callback wrote stays *)
Definition kv_step_leaky (s : store) (o : kvop) : store * res :=
  match o with
  | OUpdateFail ops => (fst (tx_run s ops), RErr)
  | _ => kv_step s o
  end.
Fixpoint kv_run_leaky (s : store) (ops : list kvop) : store * list res :=
  match ops with
  | [] => (s, [])
  | o :: r => let (s1, x) := kv_step_leaky s o in let (s2, xs) := kv_run_leaky s1 r in (s2, x :: xs)
  end.
