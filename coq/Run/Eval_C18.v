(* Correspondence evaluator for C18: the server's BulkAdd on a stream vs the same elements added one at a time
   on a second server, both against Model/Bulk.v. *)
From Coq Require Import List NArith Arith Bool String.
Import ListNotations.
From Grip Require Export Model.Bytes Model.Bulk.
Local Open Scope string_scope.

Record c18_case := {
  c_exists : list string;                         (* graphs that exist *)
  c_stream : list belem;
  o_ins : N; o_err : N;                           (* BulkEditResult *)
  o_bulk : list (string * (list (string * (string * N)) * list (string * (string * N))));  (* graph -> (vertices, edges) after the bulk load *)
  o_seq : list (string * (list (string * (string * N)) * list (string * (string * N))));   (* ... after adding one at a time *)
  o_seq_ok : N; o_seq_failed : N;                 (* acknowledged / refused single adds *)
  o_bulk_anon : list (string * nat); o_seq_anon : list (string * nat);   (* per graph: edges stored under a generated id *)
  c_batch : nat;                                  (* util.StreamBatch on the g1 elements of the stream with this batch size *)
  o_vbatches : list (list N); o_ebatches : list (list N) }.   (* the batches handed to vertexAdd / edgeAdd (payloads) *)

Definition ex (c : c18_case) (g : string) : bool := existsb (String.eqb g) (c_exists c).
Definition model (c : c18_case) : bres := bulk_run (ex c) (c_stream c).

Fixpoint insert_kv (x : string * (string * N)) (l : list (string * (string * N))) : list (string * (string * N)) :=
  match l with
  | [] => [x]
  | y :: r => match String.compare (fst x) (fst y) with Lt | Eq => x :: l | Gt => y :: insert_kv x r end
  end.
Definition sort_kv (l : list (string * (string * N))) := fold_right insert_kv [] l.
Fixpoint tab_eqb (a b : list (string * (string * N))) : bool :=
  match a, b with
  | [], [] => true
  | (k, (l, v)) :: r, (k', (l', v')) :: r' => String.eqb k k' && String.eqb l l' && N.eqb v v' && tab_eqb r r'
  | _, _ => false
  end.
Definition graph_ok (c : c18_case) (obs : list (string * (list (string * (string * N)) * list (string * (string * N))))) (g : string) : bool :=
  let ws := log_of (r_logs (model c)) g in
  match find (fun p => String.eqb (fst p) g) obs with
  | Some (_, (vs, es)) => tab_eqb (sort_kv vs) (sort_kv (table_of WVertex ws)) && tab_eqb (sort_kv es) (sort_kv (table_of WEdge ws))
  | None => match ws with [] => true | _ => false end
  end.

Definition anon_ok (c : c18_case) (obs : list (string * nat)) (g : string) : bool :=
  let n := match find (fun p => String.eqb (fst p) g) obs with Some p => snd p | None => 0%nat end in
  Nat.eqb n (anon_edges (log_of (r_logs (model c)) g)).
(* StreamBatch: what its two callbacks receive, against Model/Bulk.v's chunks *)
Definition g1_elems (c : c18_case) : list belem := filter (fun e => String.eqb (b_graph e) "g1") (c_stream c).
(* StreamBatch re-validates with gdbi's DataElement.Validate: id and label not blank, field names valid; it does
   not look at an edge's endpoints (the server's BulkAdd has validated those before) *)
Definition sb_valid (e : belem) (need_id : bool) : bool :=
  (negb need_id || negb (String.eqb (b_gid e) "")) && negb (String.eqb (b_label e) "") && forallb field_ok (b_keys e).
Definition batch_items_v (c : c18_case) : list N := map b_val (filter (fun e => b_is_vertex e && sb_valid e true) (g1_elems c)).
Definition batch_items_e (c : c18_case) : list N :=
  map b_val (filter (fun e => negb (b_is_vertex e) && b_is_edge e && sb_valid e false) (g1_elems c)).
Fixpoint nlist_eqb (a b : list N) : bool :=
  match a, b with [], [] => true | x :: r, y :: r' => N.eqb x y && nlist_eqb r r' | _, _ => false end.
Fixpoint nll_eqb (a b : list (list N)) : bool :=
  match a, b with [], [] => true | x :: r, y :: r' => nlist_eqb x y && nll_eqb r r' | _, _ => false end.
Definition nonempty_chunks (k : nat) (l : list N) : list (list N) :=
  filter (fun b => match b with [] => false | _ => true end) (chunks (List.length l) k l).
Definition batches_agree (c : c18_case) : bool :=
  nll_eqb (o_vbatches c) (nonempty_chunks (c_batch c) (batch_items_v c)) && nll_eqb (o_ebatches c) (nonempty_chunks (c_batch c) (batch_items_e c)).
Definition batches_spec (c : c18_case) : bool :=
  nlist_eqb (List.concat (o_vbatches c)) (batch_items_v c) && nlist_eqb (List.concat (o_ebatches c)) (batch_items_e c)
  && forallb (fun b => Nat.leb (List.length b) (c_batch c)) (o_vbatches c ++ o_ebatches c).

Definition agrees (c : c18_case) : bool :=
  (o_ins c =? r_ins (model c))%N && (o_err c =? r_err (model c))%N
  && forallb (graph_ok c (o_bulk c)) (c_exists c)
  && forallb (graph_ok c (o_seq c)) (c_exists c)
  && (o_seq_ok c =? r_ins (model c))%N
  && forallb (anon_ok c (o_bulk_anon c)) (c_exists c) && forallb (anon_ok c (o_seq_anon c)) (c_exists c)
  && batches_agree c.
(* the property on the observations alone: bulk state = sequential state, counts = acknowledged singles *)
Definition obs_eq (c : c18_case) (g : string) : bool :=
  match find (fun p => String.eqb (fst p) g) (o_bulk c), find (fun p => String.eqb (fst p) g) (o_seq c) with
  | Some (_, (v1, e1)), Some (_, (v2, e2)) => tab_eqb (sort_kv v1) (sort_kv v2) && tab_eqb (sort_kv e1) (sort_kv e2)
  | None, None => true
  | _, _ => false
  end.
Definition spec_ok (c : c18_case) : bool :=
  forallb (obs_eq c) (c_exists c) && (o_ins c =? o_seq_ok c)%N && (o_err c =? o_seq_failed c)%N
  && forallb (fun g => match find (fun p => String.eqb (fst p) g) (o_bulk_anon c), find (fun p => String.eqb (fst p) g) (o_seq_anon c) with
                       | Some a, Some b => Nat.eqb (snd a) (snd b) | None, None => true | _, _ => false end) (c_exists c)
  && batches_spec c.

Fixpoint idx_filter {A} (f : A -> bool) (l : list A) (i : nat) : list nat :=
  match l with [] => [] | x :: r => if f x then i :: idx_filter f r (S i) else idx_filter f r (S i) end.
Definition mismatches (cs : list c18_case) : list nat := idx_filter (fun c => negb (agrees c)) cs 0%nat.
Definition spec_violations (cs : list c18_case) : list nat := idx_filter (fun c => negb (spec_ok c)) cs 0%nat.
Definition explain (c : c18_case) :=
  (r_ins (model c), r_err (model c), o_ins c, o_err c, o_seq_ok c, o_seq_failed c,
   map (fun g => (g, graph_ok c (o_bulk c) g, graph_ok c (o_seq c) g, obs_eq c g)) (c_exists c)).
