(* C06  No request can crash the server.
   What proof can carry here: the crashes of the pinned tree were nil dereferences of a traveler's current
   element or mark, unchecked type assertions, and channel misuse. For the modelled step alphabet (C01) the
   theorem C06_no_nil_current shows that, for EVERY graph and EVERY program that the type checker accepts and
   that contains no null-producing move, no step is ever handed a traveler that lacks the current element it dereferences, and every single-mark
   select of an element-typed mark finds its mark -- so the per-step functions are total on everything a
   well-typed program can feed them; and C06_outcome shows the model's verdict is always "rejected" or "rows".
   After a null-producing move (outNull/inNull/outENull/inENull, in the model since C01_null_moves) travelers
   without a current element are legitimate: the model gives every step a meaning on them (C06_outcome: still
   "rejected" or "rows", never stuck) and the correspondence check compares that meaning with the processors.
   Everything outside that alphabet (set/increment, aggregations, mark/jump, the edit
   handlers and BulkAdd stream switching) is NOT modelled: it is exercised by the hostile-request
   correspondence in worker sub-processes, where a crash or a hang of the real handlers is a violation. *)
From Coq Require Import List String Bool.
Import ListNotations.
From Grip Require Import Model.Json Model.Has Model.Traversal Proofs.TraversalProofs.

Theorem C06_outcome : forall g p, run g p = Rejected \/ exists rows, run g p = Rows rows.
Proof. intros g p. unfold run. destruct (type_of p); [right|left; reflexivity]. destruct p; eauto. Qed.
Print Assumptions C06_outcome.

Theorem C06_no_nil_current : forall g p ty out, null_free p = true -> run_from g (DNone, []) p [t0] = Some (ty, out) ->
  Forall (fun t => (is_elem (fst ty) = true -> t_cur t <> None) /\
                   (revivable (fst ty) = true -> forall m d, get_assoc m (snd ty) = Some d -> is_elem d = true ->
                                                  get_assoc m (t_marks t) <> None)) out.
Proof.
  intros g p ty out Hnf H. apply (run_sound g p (DNone, []) [t0] ty out Hnf H). constructor; [apply wk_t0|constructor].
Qed.
Print Assumptions C06_no_nil_current.

(* ... and at every intermediate point of the program, not only at its end *)
Theorem C06_no_nil_current_prefix : forall g p1 p2 ty out ty1 mid, null_free p1 = true ->
  run_from g (DNone, []) (p1 ++ p2) [t0] = Some (ty, out) ->
  run_from g (DNone, []) p1 [t0] = Some (ty1, mid) ->
  Forall (fun t => is_elem (fst ty1) = true -> t_cur t <> None) mid.
Proof.
  intros g p1 p2 ty out ty1 mid Hnf _ H1.
  pose proof (run_sound g p1 (DNone, []) [t0] ty1 mid Hnf H1 (Forall_cons _ wk_t0 (Forall_nil _))) as H.
  rewrite Forall_forall in *. intros t Ht. destruct (H t Ht) as [Hc _]. exact Hc.
Qed.
Print Assumptions C06_no_nil_current_prefix.
