package main

import "fmt"

func typingTables(repo string) { fmt.Println("(* not generated yet *)") }
func consts(repo string)       { fmt.Println("(* not generated yet *)") }
