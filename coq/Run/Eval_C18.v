(* Correspondence evaluator for C18: the server's BulkAdd on a stream vs the same elements added one at a time
   on a second server, both against Model/Bulk.v. *)
From Coq Require Import List NArith Arith Bool String.
Import ListNotations.
From Grip Require Export Model.Bytes Model.Bulk.
Local Open Scope string_scope.

Record c18_case := {
  c_exists : list string;                         (* graphs that exist *)
  c_stream : list belem;
  o_ins : N; o_err : N;                           (* BulkEditResult *)
  o_bulk : list (string * (list (string * (string * N)) * list (string * (string * N))));  (* graph -> (vertices, edges) after the bulk load *)
  o_seq : list (string * (list (string * (string * N)) * list (string * (string * N))));   (* ... after adding one at a time *)
  o_seq_ok : N; o_seq_failed : N }.               (* acknowledged / refused single adds *)

Definition ex (c : c18_case) (g : string) : bool := existsb (String.eqb g) (c_exists c).
Definition model (c : c18_case) : bres := bulk_run (ex c) (c_stream c).

Fixpoint insert_kv (x : string * (string * N)) (l : list (string * (string * N))) : list (string * (string * N)) :=
  match l with
  | [] => [x]
  | y :: r => match String.compare (fst x) (fst y) with Lt | Eq => x :: l | Gt => y :: insert_kv x r end
  end.
Definition sort_kv (l : list (string * (string * N))) := fold_right insert_kv [] l.
Fixpoint tab_eqb (a b : list (string * (string * N))) : bool :=
  match a, b with
  | [], [] => true
  | (k, (l, v)) :: r, (k', (l', v')) :: r' => String.eqb k k' && String.eqb l l' && N.eqb v v' && tab_eqb r r'
  | _, _ => false
  end.
Definition graph_ok (c : c18_case) (obs : list (string * (list (string * (string * N)) * list (string * (string * N))))) (g : string) : bool :=
  let ws := log_of (r_logs (model c)) g in
  match find (fun p => String.eqb (fst p) g) obs with
  | Some (_, (vs, es)) => tab_eqb (sort_kv vs) (sort_kv (table_of WVertex ws)) && tab_eqb (sort_kv es) (sort_kv (table_of WEdge ws))
  | None => match ws with [] => true | _ => false end
  end.

Definition agrees (c : c18_case) : bool :=
  (o_ins c =? r_ins (model c))%N && (o_err c =? r_err (model c))%N
  && forallb (graph_ok c (o_bulk c)) (c_exists c)
  && forallb (graph_ok c (o_seq c)) (c_exists c)
  && (o_seq_ok c =? r_ins (model c))%N.
(* the property on the observations alone: bulk state = sequential state, counts = acknowledged singles *)
Definition obs_eq (c : c18_case) (g : string) : bool :=
  match find (fun p => String.eqb (fst p) g) (o_bulk c), find (fun p => String.eqb (fst p) g) (o_seq c) with
  | Some (_, (v1, e1)), Some (_, (v2, e2)) => tab_eqb (sort_kv v1) (sort_kv v2) && tab_eqb (sort_kv e1) (sort_kv e2)
  | None, None => true
  | _, _ => false
  end.
Definition spec_ok (c : c18_case) : bool :=
  forallb (obs_eq c) (c_exists c) && (o_ins c =? o_seq_ok c)%N && (o_err c =? o_seq_failed c)%N.

Fixpoint idx_filter {A} (f : A -> bool) (l : list A) (i : nat) : list nat :=
  match l with [] => [] | x :: r => if f x then i :: idx_filter f r (S i) else idx_filter f r (S i) end.
Definition mismatches (cs : list c18_case) : list nat := idx_filter (fun c => negb (agrees c)) cs 0%nat.
Definition spec_violations (cs : list c18_case) : list nat := idx_filter (fun c => negb (spec_ok c)) cs 0%nat.
Definition explain (c : c18_case) :=
  (r_ins (model c), r_err (model c), o_ins c, o_err c, o_seq_ok c, o_seq_failed c,
   map (fun g => (g, graph_ok c (o_bulk c) g, graph_ok c (o_seq c) g, obs_eq c g)) (c_exists c)).
