(* C09  Secondary-index answers equal a scan of the live documents.
   Proved here (all inputs):
     - C09_encoding_order: the 8-byte big-endian encoding of numeric terms orders keys exactly as the
       64-bit patterns are ordered, so a key-ordered scan of a field's numeric entries is a pattern-ordered scan;
     - C09_numbers_ascending: on ANY pattern-sorted entry list of finite numbers the two-phase scan of
       FieldNumbers (negatives backwards, then non-negatives forwards) outputs every entry exactly once in
       ascending NUMERIC order;
     - C09_min / C09_max: the sign-aware scans of FieldTermNumberMin / Max return the least / greatest value.
   Stated and not yet proved (sampled by the correspondence, which compares every query of every generated
   history with a brute-force scan of the live documents): C09_scan_full below.  On the pinned code it is
   false for histories that add a live document id again (known finding 5) and for ranges with a negative
   lower bound (known finding 6). *)
From Coq Require Import List NArith Bool Arith Sorted Permutation.
Import ListNotations.
From Grip Require Import Model.Bytes Model.KVIndex Proofs.KVIndexProofs.

Theorem C09_encoding_order : forall a b, (a < 2 ^ 64)%N -> (b < 2 ^ 64)%N ->
  bcmp (be 8 a) (be 8 b) = N.compare a b.
Proof. intros a b Ha Hb. apply be_order; simpl; assumption. Qed.
Print Assumptions C09_encoding_order.

Theorem C09_numbers_ascending : forall L, StronglySorted ple L -> Forall (fun x => finite (fst x) = true) L ->
  StronglySorted fle (numbers_of L) /\ Permutation (numbers_of L) (map fst L).
Proof. exact numbers_of_sorted. Qed.
Print Assumptions C09_numbers_ascending.

Theorem C09_min : forall L, L <> [] -> StronglySorted ple L -> Forall (fun x => finite (fst x) = true) L ->
  In (min_of L) (map fst L) /\ forall p, In p (map fst L) -> fle (min_of L) p.
Proof. exact min_of_least. Qed.
Print Assumptions C09_min.

Theorem C09_max : forall L, L <> [] -> StronglySorted ple L -> Forall (fun x => finite (fst x) = true) L ->
  In (max_of L) (map fst L) /\ forall p, In p (map fst L) -> fle p (max_of L).
Proof. exact max_of_greatest. Qed.
Print Assumptions C09_max.

(* the model's queries are these functions applied to the sorted numeric entries of the field *)
Theorem C09_model_uses_sorted_entries : forall s f,
  q_numbers s f = numbers_of (nums s f) /\ q_min s f = min_of (nums s f) /\ q_max s f = max_of (nums s f) /\
  StronglySorted ple (nums s f).
Proof. intros s f. repeat split. apply pd_sort_sorted. Qed.
Print Assumptions C09_model_uses_sorted_entries.

Definition same_set {X} (a b : list X) : Prop := forall x, In x a <-> In x b.
(* full statement (kept visible): every query of every history equals the brute-force answer *)
Definition C09_scan_full : Prop := forall ops f t,
  same_set (q_match (irun ops) f t) (b_match (sp_run ops) f t) /\
  same_set (q_terms (irun ops) f) (b_terms (sp_run ops) f).
(* refuted for the pinned code by replacing a live document (known finding 5) *)
Theorem C09_scan_full_refuted : ~ C09_scan_full.
Proof.
  intros H. destruct (H [IAddField 1; IAddDoc 2 [(1, TN 5)]; IAddDoc 2 [(1, TN 7)]]%N 1%N (TN 5%N)) as [H1 _].
  specialize (H1 2%N). vm_compute in H1. destruct H1 as [H1 _]. destruct (H1 (or_introl eq_refl)).
Qed.
Print Assumptions C09_scan_full_refuted.

(* the 0 / -5 witness of the Max defect repaired by the fix: commit: the fixed scan returns 0 *)
Example C09_max_zero_negative :
  max_of [(0, 1); (13837309855095848960, 2)]%N = 0%N /\ min_of [(0, 1); (13837309855095848960, 2)]%N = 13837309855095848960%N.
Proof. vm_compute. auto. Qed.
