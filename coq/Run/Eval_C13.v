(* Correspondence evaluator for C13: cases are (kind, n, input, observed output, closed). *)
From Coq Require Import List Arith Bool NArith.
Import ListNotations.
From Grip Require Import Model.Streams.

Inductive c13_kind := KMarshal | KUnmarshal | KQueue | KDual | KMux | KBatch.

Record c13_case := {
  ck : c13_kind;
  cn : nat;                    (* workers / batch size / pipelines *)
  cin : list (nat * N);        (* (pipeline or fan-out, item) *)
  cout : list (list N);        (* observed output (batches; singleton lists for item streams) *)
  cclosed : bool               (* output channel observed closed after the last item *)
}.

Definition N_list_eqb (a b : list N) : bool :=
  (length a =? length b) && forallb (fun p => N.eqb (fst p) (snd p)) (combine a b).
Definition NN_list_eqb (a b : list (list N)) : bool :=
  (length a =? length b) && forallb (fun p => N_list_eqb (fst p) (snd p)) (combine a b).

(* the load stage of DualProcessor: an item fans out into its retrieved data; a signal (encoded as fan-out 99) has
   nothing to load and travels through both stages in its place *)
Definition dual_fan (p : nat * N) : list N :=
  if Nat.eqb (fst p) 99 then [(snd p * 10 + 98)%N] else map (fun j => (snd p * 10 + N.of_nat j)%N) (seq 0 (fst p)).

(* what the model says the output is *)
Definition c13_model (c : c13_case) : list (list N) :=
  let xs := map snd (cin c) in
  match ck c with
  | KMarshal | KUnmarshal => map (fun x => [x]) (rr_pool (fun x => x) (cn c) xs)
  | KQueue => map (fun x => [x]) (chain_fun (fun x => [x]) (fun x => x) xs)
  | KDual => map (fun x => [x])
               (chain_fun dual_fan (fun y => (y + 1)%N) (cin c))
  | KMux => map (fun p : nat * N => [(snd p * 10 + N.of_nat (fst p))%N]) (cin c)
  | KBatch => batches (cn c) xs
  end.

(* what the property itself demands of the observed output (independent of the model) *)
Definition c13_spec (c : c13_case) : bool :=
  let xs := map snd (cin c) in
  cclosed c &&
  match ck c with
  | KMarshal | KUnmarshal | KQueue => NN_list_eqb (cout c) (map (fun x => [x]) xs)
  | KDual => NN_list_eqb (cout c)
      (map (fun x => [x]) (flat_map (fun p : nat * N => map (fun y => (y + 1)%N) (dual_fan p)) (cin c)))
  | KMux => NN_list_eqb (cout c) (map (fun p : nat * N => [(snd p * 10 + N.of_nat (fst p))%N]) (cin c))
  | KBatch => N_list_eqb (concat (cout c)) xs
              && forallb (fun b => negb (length b =? 0) && (length b <=? cn c)) (cout c)
  end.

(* the batcher's batch boundaries depend on timeouts; the model is compared on content only *)
Definition c13_agrees (c : c13_case) : bool :=
  match ck c with
  | KBatch => N_list_eqb (concat (cout c)) (concat (c13_model c))
  | _ => NN_list_eqb (cout c) (c13_model c)
  end && cclosed c.

Fixpoint bad_idx {X} (ok : X -> bool) (i : nat) (l : list X) : list nat :=
  match l with [] => [] | x :: r => if ok x then bad_idx ok (S i) r else i :: bad_idx ok (S i) r end.

Definition mismatches (cs : list c13_case) := bad_idx c13_agrees 0 cs.
Definition spec_violations (cs : list c13_case) := bad_idx c13_spec 0 cs.
