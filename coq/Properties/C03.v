(* C03  Any mutation history leaves exactly the abstract graph observable.
   Model: Model/KVGraph.v (structured keys; every mutating call = the key-value writes kvgraph issues).
   What is proved here, for every history / state / call:
     - C03_consistent: the three key families of an edge always move together and no key is duplicated;
     - C03_observe: under that invariant every adjacency read (out/in/outE/inE with any label filter),
       listing and lookup equals the same read on the abstract graph the store denotes;
     - C03_reject: a rejected call changes nothing at all;
     - C03_timestamp: a graph's timestamp changes exactly when a call on that graph succeeds.
     - C03_refines / C03_verdicts: for EVERY history inside the guard (an edge id is never re-added with other
       endpoints or label, a vertex id never with another label) the abstract graph the store denotes IS the
       last-write-wins graph of the history (a_run), and every call succeeds exactly when the specification
       says so. Together with C03_observe: every read after every such history equals the read on a_run.
   Outside the guard the full statement (C03_full) is false for the pinned code (known findings 1-3) and is
   refuted below by a machine-checked witness. *)
From Coq Require Import List NArith Bool Arith.
Import ListNotations.
From Grip Require Import Model.KVGraph Proofs.KVGraphProofs Proofs.KVGraphRefine.

Theorem C03_consistent : forall ops, Cons (kv (run ops)).
Proof. exact run_Cons. Qed.
Print Assumptions C03_consistent.

Theorem C03_observe : forall s g v ls, Cons s ->
  out_verts s g v ls = a_out_verts (abs s) g v ls /\
  in_verts s g v ls = a_in_verts (abs s) g v ls /\
  map (fun p => abs_edge (fst p, match snd p with Some d => d | None => 0%N end)) (out_edges s g v ls) = a_out_edges (abs s) g v ls /\
  map (fun p => abs_edge (fst p, match snd p with Some d => d | None => 0%N end)) (in_edges s g v ls) = a_in_edges (abs s) g v ls /\
  vertex_list s g = a_vertex_list (abs s) g /\
  map abs_edge (edge_list s g) = a_edge_list (abs s) g /\
  get_vertex s g v = a_get_vertex (abs s) g v.
Proof.
  intros s g v ls H. destruct (lists_abs s g) as [H1 [H2 H3]].
  repeat split; auto using out_verts_abs, in_verts_abs, out_edges_abs, in_edges_abs.
Qed.
Print Assumptions C03_observe.

Theorem C03_reject : forall m o, snd (step m o) = false -> fst (step m o) = m.
Proof. exact step_reject. Qed.
Print Assumptions C03_reject.

Theorem C03_timestamp : forall ops o g,
  let m := run ops in
  ts_of (fst (step m o)) g <> ts_of m g <-> (snd (step m o) = true /\ g = op_graph o).
Proof. intros ops o g m. exact (proj2 (step_timestamp m o g (run_TsInv ops))). Qed.
Print Assumptions C03_timestamp.

Theorem C03_refines : forall ops, guard ops = true -> abs (kv (run ops)) = a_run ops.
Proof. exact refinement. Qed.
Print Assumptions C03_refines.

Theorem C03_verdicts : forall ops o, guard (ops ++ [o]) = true ->
  snd (step (run ops) o) = snd (a_step (a_run ops) o).
Proof. exact verdicts. Qed.
Print Assumptions C03_verdicts.

(* the guard is satisfiable by a history that re-adds ids (with the same endpoints / label), deletes, bulk-loads,
   drops and re-creates a graph *)
Example C03_guard_nonvacuous :
  let h := [OAddGraph 1; OAddVertex 1 1 1 0; OAddVertex 1 2 2 1; OAddEdge 1 1 1 2 1 0; OAddEdge 1 1 1 2 1 5; OAddVertex 1 1 1 7;
            OBulkAdd 1 [EV 3 1 0; EE 2 3 1 1 1; EE 2 3 1 1 2]; ODelEdge 1 1; OAddEdge 1 1 1 2 1 9; ODelVertex 1 3;
            ODeleteGraph 1; OAddGraph 1; OAddEdge 1 1 2 1 3 0]%N in
  guard h = true /\ a_edges (a_run h) = [((1, 1), (2, 1, 3, 0))]%N /\ a_verts (a_run h) = [].
Proof. vm_compute. auto. Qed.

(* the full statement of the property, kept visible *)
Definition C03_full : Prop := forall ops, abs (kv (run ops)) = a_run ops.

(* ... which the faithful model of the pinned code refutes: re-adding an edge id with other endpoints
   leaves two records for one id (known finding, class 2) *)
Theorem C03_full_refuted : ~ C03_full.
Proof.
  intros H. specialize (H [OAddGraph 1; OAddEdge 1 1 1 2 1 0; OAddEdge 1 1 3 2 2 0]%N).
  vm_compute in H. discriminate.
Qed.
Print Assumptions C03_full_refuted.

(* non-vacuity: a history that exercises every call keeps Cons with non-trivial content *)
Example C03_nonvacuous :
  let s := kv (run [OAddGraph 1; OAddVertex 1 1 1 0; OAddVertex 1 2 2 1; OAddEdge 1 1 1 2 1 0; OAddEdge 1 2 2 2 2 2;
                    OBulkAdd 1 [EV 3 1 0; EE 3 3 1 1 1]; ODelEdge 1 2; ODelVertex 1 3])%N in
  srcs s = [(1, 1, 1, 2, 1)]%N /\ length (verts s) = 2 /\ out_verts s 1%N 1%N [] = [(2, (2, 1))]%N.
Proof. vm_compute. auto. Qed.
