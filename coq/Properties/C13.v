(* C13  Internal stream combinators preserve order and multiplicity.
   Statements only; each closed by [exact] of a lemma of Proofs/StreamsProofs.v. *)
From Coq Require Import List Arith Bool.
Import ListNotations.
From Grip Require Import Model.Streams Proofs.StreamsProofs.

(* round-robin merge of a round-robin distribution is the identity (MarshalStream/UnmarshalStream
   as functions), for every worker count n >= 1 and every input *)
Theorem C13_rr : forall (A B : Type) (f : A -> B) (n : nat) (xs : list A),
  0 < n -> rr_pool f n xs = map f xs.
Proof. exact @rr_pool_id. Qed.
Print Assumptions C13_rr.

(* every schedule of feeder / n workers / merger with channel capacity cap >= 1:
   deliveries are always a prefix of map f xs; the output closes only with everything delivered
   and the input exhausted; and an unclosed state always has an enabled step (no deadlock). *)
Theorem C13_sched_pool : forall (A B : Type) (f : A -> B) (n cap : nat) (xs : list A) (s : pst),
  0 < n -> 0 < cap -> preach f n cap xs s ->
  (exists rest, p_out s ++ rest = map f xs) /\
  (p_closed s = true -> p_out s = map f xs /\ p_inp s = []) /\
  (p_closed s = false -> exists s', pstep f n cap s s').
Proof.
  intros A B f n cap xs s Hn Hc HR. split; [|split].
  - exact (pool_prefix f n cap Hn Hc xs s HR).
  - exact (pool_closed_exact f n cap Hn Hc xs s HR).
  - exact (pool_progress f n cap Hn Hc xs s HR).
Qed.
Print Assumptions C13_sched_pool.

(* LookupBatcher: the batches concatenate to the input, are non-empty and at most batchSize long,
   functionally and under every pattern of timeouts *)
Theorem C13_batch : forall (A : Type) (k : nat) (xs : list A), 0 < k ->
  concat (batches k xs) = xs /\ Forall (fun b => b <> [] /\ length b <= k) (batches k xs).
Proof. intros A k xs Hk. split; [exact (batches_concat k xs) | exact (batches_bounds k xs Hk)]. Qed.
Print Assumptions C13_batch.

Theorem C13_sched_batcher : forall (A : Type) (k : nat) (xs : list A) (s : bst), 0 < k ->
  breach k xs s ->
  (b_closed s = true -> concat (b_out s) = xs /\ Forall (fun b : list A => b <> [] /\ length b <= k) (b_out s)) /\
  (b_closed s = false -> exists s', bstep k s s').
Proof.
  intros A k xs s Hk HR. split.
  - exact (batcher_closed_exact k Hk xs s HR).
  - exact (batcher_progress k xs s HR).
Qed.
Print Assumptions C13_sched_batcher.

(* ChannelMux: results come out in Put order whatever the relative speed of the pipelines *)
Theorem C13_mux : forall (A B : Type) (g : nat -> A -> B) (np : nat) (puts : list (nat * A)) (s : mst),
  mreach g np puts s ->
  (exists rest, m_res s ++ rest = map (fun '(i, x) => g i x) puts) /\
  (m_closed s = true -> m_res s = map (fun '(i, x) => g i x) puts).
Proof.
  intros A B g np puts s HR. split.
  - exact (mux_prefix g np puts s HR).
  - exact (mux_closed_exact g np puts s HR).
Qed.
Print Assumptions C13_mux.

(* DualProcessor (load with fan-out, then deserialize) and, with load x = [x] and deser = id,
   the jump queue: output = map deser (flat_map load xs), closed only after that, no deadlock *)
Theorem C13_chain : forall (A B C : Type) (load : A -> list B) (deser : B -> C) (xs : list A) (s : cst),
  creach load deser xs s ->
  (c_closed s = true -> c_res s = chain_fun load deser xs) /\
  (c_closed s = false -> exists s', cstep load deser s s').
Proof.
  intros A B C load deser xs s HR. split.
  - exact (chain_closed_exact load deser xs s HR).
  - exact (chain_progress load deser xs s HR).
Qed.
Print Assumptions C13_chain.

(* non-vacuity: a reachable closed state of the pool exists for a concrete input *)
Example C13_pool_nonvacuous : rr_pool (fun x => x + 1) 3 [1;2;3;4;5;6;7] = [2;3;4;5;6;7;8]
  /\ distribute 3 [1;2;3;4;5;6;7] = [[1;4;7];[2;5];[3;6]].
Proof. split; vm_compute; reflexivity. Qed.
