(* C06: outcome classes of hostile requests. *)
From Coq Require Import List String Bool.
Import ListNotations.
From Grip Require Export Model.Json Model.Has Model.Traversal.

Inductive oclass := ORows | OError | OCrash | OHang.
Inductive mclass := MAny | MTyped (p : list stmt).
Record c06_case := { cmodel : mclass; cobs : oclass }.

(* the property: rows or an error, never a crash or a hang *)
Definition spec_ok (c : c06_case) : bool := match cobs c with ORows | OError => true | _ => false end.
(* inside the modelled alphabet the type checker decides accept/reject: rejected <-> error *)
Definition agrees (c : c06_case) : bool :=
  match cmodel c, cobs c with
  | MTyped p, ORows => match type_of p with Some _ => true | None => false end
  | MTyped p, OError => match type_of p with Some (DNone, _) => true   (* a nil row cannot be sent: error after execution *)
                                            | Some _ => false | None => true end
  | MAny, (ORows | OError) => true
  | _, _ => false
  end.

Fixpoint idx_where {X} (p : X -> bool) (i : nat) (l : list X) : list nat :=
  match l with [] => [] | x :: r => if p x then i :: idx_where p (S i) r else idx_where p (S i) r end.
Definition mismatches (cs : list c06_case) := idx_where (fun c => negb (agrees c)) 0 cs.
Definition spec_violations (cs : list c06_case) := idx_where (fun c => negb (spec_ok c)) 0 cs.
Definition explain (c : c06_case) := (agrees c, spec_ok c, match cmodel c with MTyped p => type_of p | MAny => None end).
