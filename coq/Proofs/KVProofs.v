(* Proofs for Model/Bytes.v and Model/KV.v (property C10; substrate of C03/C04/C09/C16). *)
From Coq Require Import List NArith Bool Lia Sorted.
Import ListNotations.
From Grip Require Import Model.Bytes Model.KV.

(* ---------- order on byte strings ---------- *)
Lemma bcmp_refl a : bcmp a a = Eq.
Proof. induction a as [|x a IH]; simpl; auto. now rewrite N.compare_refl. Qed.

Lemma bcmp_eq a : forall b, bcmp a b = Eq -> a = b.
Proof. induction a as [|x a IH]; intros [|y b]; simpl; intros H; try discriminate; auto.
  destruct (N.compare x y) eqn:E; try discriminate. apply N.compare_eq in E. subst. f_equal. now apply IH. Qed.

Lemma bcmp_antisym a : forall b, bcmp b a = CompOpp (bcmp a b).
Proof. induction a as [|x a IH]; intros [|y b]; simpl; auto.
  rewrite (N.compare_antisym x y). destruct (N.compare x y); simpl; auto. Qed.

Lemma bcmp_lt_trans a : forall b c, bcmp a b = Lt -> bcmp b c = Lt -> bcmp a c = Lt.
Proof. induction a as [|x a IH]; intros [|y b] [|z c]; simpl; intros H1 H2; try discriminate; auto.
  destruct (N.compare x y) eqn:E1; try discriminate.
  - apply N.compare_eq in E1; subst y. destruct (N.compare x z) eqn:E2; try discriminate; auto. eapply IH; eauto.
  - destruct (N.compare y z) eqn:E2; try discriminate.
    + apply N.compare_eq in E2; subst z. now rewrite E1.
    + rewrite N.compare_lt_iff in *. assert (x < z)%N as H by lia. apply N.compare_lt_iff in H. now rewrite H.
Qed.

Lemma bcmp_gt_lt a b : bcmp a b = Gt <-> bcmp b a = Lt.
Proof. rewrite (bcmp_antisym a b). destruct (bcmp a b); simpl; split; intros; congruence. Qed.

Lemma bltb_irrefl a : bltb a a = false.
Proof. unfold bltb. now rewrite bcmp_refl. Qed.

Lemma is_prefix_refl p : is_prefix p p = true.
Proof. induction p; simpl; auto. now rewrite N.eqb_refl. Qed.

Lemma is_prefix_app p q : is_prefix p (p ++ q) = true.
Proof. induction p; simpl; auto. now rewrite N.eqb_refl. Qed.

Lemma is_prefix_exists p : forall k, is_prefix p k = true -> exists q, k = p ++ q.
Proof. induction p as [|x p IH]; intros k H; simpl in *. now exists k.
  destruct k as [|y k]; [discriminate|]. apply andb_true_iff in H as [H1 H2]. apply N.eqb_eq in H1; subst y.
  destruct (IH _ H2) as [q ->]. now exists q. Qed.

(* a key carrying prefix p is >= p *)
Lemma prefix_ge p : forall k, is_prefix p k = true -> bcmp p k <> Gt.
Proof. induction p as [|x p IH]; intros [|y k] H; simpl in *; try discriminate.
  apply andb_true_iff in H as [H1 H2]. apply N.eqb_eq in H1; subst y. rewrite N.compare_refl. now apply IH. Qed.

(* once a key >= p does not carry the prefix, no larger key does *)
Lemma prefix_range_end p : forall k k', bcmp p k <> Gt -> is_prefix p k = false -> bcmp k k' = Lt ->
  is_prefix p k' = false.
Proof. induction p as [|x p IH]; intros [|y k] [|z k'] Hle Hnp Hlt; simpl in *; try discriminate; auto; try congruence.
  destruct (N.compare x y) eqn:E1; try congruence.
  - apply N.compare_eq in E1; subst y. rewrite N.eqb_refl in Hnp. simpl in Hnp.
    destruct (N.compare x z) eqn:E2; try discriminate.
    + apply N.compare_eq in E2; subst z. rewrite N.eqb_refl; simpl. eapply IH; eauto.
    + rewrite N.compare_lt_iff in E2. assert ((x =? z)%N = false) as -> by (apply N.eqb_neq; lia). reflexivity.
  - destruct (N.compare y z) eqn:E2; try discriminate.
    + apply N.compare_eq in E2; subst z. rewrite N.compare_lt_iff in E1.
      assert ((x =? y)%N = false) as -> by (apply N.eqb_neq; lia). reflexivity.
    + rewrite N.compare_lt_iff in E1. rewrite N.compare_lt_iff in E2.
      assert ((x =? z)%N = false) as -> by (apply N.eqb_neq; lia). reflexivity.
Qed.

(* ---------- sorted stores ---------- *)
Definition klt (a b : bytes * bytes) : Prop := bcmp (fst a) (fst b) = Lt.
Definition ksorted (s : store) : Prop := StronglySorted klt s.

Lemma ksorted_nil : ksorted []. Proof. constructor. Qed.

Lemma ksorted_inv k v r : ksorted ((k, v) :: r) -> ksorted r /\ Forall (fun kv => bcmp k (fst kv) = Lt) r.
Proof. intros H. inversion H; subst. split; auto. Qed.

Lemma kv_set_forall (P : bytes -> Prop) s k v :
  Forall (fun kv => P (fst kv)) s -> P k -> Forall (fun kv => P (fst kv)) (kv_set s k v).
Proof. induction s as [|[k' v'] r IH]; simpl; intros H Hk. repeat constructor; auto.
  inversion H; subst. destruct (bcmp k k'); repeat constructor; auto. Qed.

Lemma kv_set_sorted s k v : ksorted s -> ksorted (kv_set s k v).
Proof. induction s as [|[k' v'] r IH]; simpl; intros H.
  - repeat constructor.
  - apply ksorted_inv in H as [Hr Hall]. destruct (bcmp k k') eqn:E.
    + apply bcmp_eq in E; subst k'. constructor; auto.
    + constructor. constructor; auto. constructor; auto.
      eapply Forall_impl; [|exact Hall]. intros [a b] Ha; simpl in *. unfold klt; simpl. eapply bcmp_lt_trans; eauto.
    + constructor; [now apply IH|]. apply (kv_set_forall (fun x => bcmp k' x = Lt)); auto. now apply bcmp_gt_lt.
Qed.

Lemma kv_del_forall (P : bytes * bytes -> Prop) s k : Forall P s -> Forall P (kv_del s k).
Proof. induction s as [|[k' v'] r IH]; simpl; intros H; auto. inversion H; subst.
  destruct (bcmp k k'); auto. Qed.

Lemma kv_del_sorted s k : ksorted s -> ksorted (kv_del s k).
Proof. induction s as [|[k' v'] r IH]; simpl; intros H; auto.
  pose proof H as H0. apply ksorted_inv in H as [Hr Hall]. destruct (bcmp k k'); auto.
  constructor; [now apply IH|]. now apply kv_del_forall. Qed.

Lemma filter_sorted (f : bytes * bytes -> bool) s : ksorted s -> ksorted (filter f s).
Proof. induction s as [|[k' v'] r IH]; simpl; intros H; auto.
  apply ksorted_inv in H as [Hr Hall]. destruct (f (k', v')); auto.
  constructor; [now apply IH|]. clear -Hall. induction r as [|a r IHr]; simpl; auto. inversion Hall; subst. destruct (f a); auto. Qed.

Lemma kv_del_prefix_sorted s p : ksorted s -> ksorted (kv_del_prefix s p).
Proof. apply filter_sorted. Qed.

(* ---------- map laws ---------- *)
Lemma kv_get_lt_all s k : Forall (fun kv => bcmp k (fst kv) = Lt) s -> kv_get s k = None.
Proof. destruct s as [|[k' v'] r]; simpl; auto. intros H. inversion H; subst. simpl in *. now rewrite H2. Qed.

Lemma kv_get_set s k v k' : ksorted s ->
  kv_get (kv_set s k v) k' = if beqb k' k then Some v else kv_get s k'.
Proof. unfold beqb. induction s as [|[k0 v0] r IH]; simpl; intros H.
  - destruct (bcmp k' k); auto.
  - apply ksorted_inv in H as [Hr Hall]. destruct (bcmp k k0) eqn:E; simpl.
    + apply bcmp_eq in E; subst k0. destruct (bcmp k' k); auto.
    + destruct (bcmp k' k) eqn:E2; auto.
      rewrite (bcmp_lt_trans _ _ _ E2 E). reflexivity.
    + destruct (bcmp k' k0) eqn:E2.
      * apply bcmp_eq in E2; subst k0. rewrite (proj1 (bcmp_gt_lt k k') E). reflexivity.
      * assert (bcmp k' k = Lt) as ->; auto. eapply bcmp_lt_trans; eauto. now apply bcmp_gt_lt.
      * now apply IH.
Qed.

Lemma kv_get_del s k k' : ksorted s ->
  kv_get (kv_del s k) k' = if beqb k' k then None else kv_get s k'.
Proof. unfold beqb. induction s as [|[k0 v0] r IH]; simpl; intros H.
  - destruct (bcmp k' k); auto.
  - apply ksorted_inv in H as [Hr Hall]. destruct (bcmp k k0) eqn:E; simpl.
    + apply bcmp_eq in E; subst k0. destruct (bcmp k' k) eqn:E2; auto.
      * apply bcmp_eq in E2; subst k'. now apply kv_get_lt_all.
      * apply kv_get_lt_all. eapply Forall_impl; [|exact Hall]. intros [a b] Ha; simpl in *. eapply bcmp_lt_trans; eauto.
    + destruct (bcmp k' k) eqn:E2; auto.
      * apply bcmp_eq in E2; subst k'. now rewrite E.
    + destruct (bcmp k' k0) eqn:E2; auto.
      * apply bcmp_eq in E2; subst k0. rewrite (proj1 (bcmp_gt_lt k k') E). reflexivity.
      * assert (bcmp k' k = Lt) as ->; auto. eapply bcmp_lt_trans; eauto. now apply bcmp_gt_lt.
Qed.

Lemma kv_get_filter (f : bytes -> bool) s k : ksorted s ->
  kv_get (filter (fun kv => f (fst kv)) s) k = if f k then kv_get s k else None.
Proof. induction s as [|[k0 v0] r IH]; simpl; intros H.
  - now destruct (f k).
  - apply ksorted_inv in H as [Hr Hall]. destruct (f k0) eqn:Ef; simpl.
    + destruct (bcmp k k0) eqn:E; auto.
      * apply bcmp_eq in E; subst. now rewrite Ef.
      * now destruct (f k).
    + rewrite IH; auto. destruct (bcmp k k0) eqn:E; auto.
      * apply bcmp_eq in E; subst. now rewrite Ef.
      * destruct (f k); auto. apply kv_get_lt_all. eapply Forall_impl; [|exact Hall].
        intros [a b] Ha; simpl in *. eapply bcmp_lt_trans; eauto.
Qed.

Lemma kv_get_del_prefix s p k : ksorted s ->
  kv_get (kv_del_prefix s p) k = if is_prefix p k then None else kv_get s k.
Proof. intros H. unfold kv_del_prefix. rewrite (kv_get_filter (fun x => negb (is_prefix p x))); auto.
  now destruct (is_prefix p k). Qed.

Lemma kv_get_in s k v : ksorted s -> (kv_get s k = Some v <-> In (k, v) s).
Proof. induction s as [|[k0 v0] r IH]; simpl; intros H.
  - split; [discriminate|tauto].
  - apply ksorted_inv in H as [Hr Hall]. destruct (bcmp k k0) eqn:E.
    + apply bcmp_eq in E; subst k0. split.
      * intros H1; inversion H1; auto.
      * intros [H1|H1]; [now inversion H1|]. rewrite Forall_forall in Hall. specialize (Hall _ H1). simpl in Hall.
        rewrite bcmp_refl in Hall. discriminate.
    + split; [discriminate|]. intros [H1|H1].
      * inversion H1; subst. rewrite bcmp_refl in E. discriminate.
      * rewrite Forall_forall in Hall. specialize (Hall _ H1). simpl in Hall.
        pose proof (bcmp_lt_trans _ _ _ E Hall) as Hx. rewrite bcmp_refl in Hx. discriminate.
    + rewrite IH; auto. split; auto. intros [H1|H1]; auto. inversion H1; subst. rewrite bcmp_refl in E; discriminate.
Qed.

(* ---------- cursor positions ---------- *)
Lemma seek_spec s k : ksorted s ->
  match seek s k with
  | Some (k', v) => In (k', v) s /\ bleb k k' = true /\ forall k2 v2, In (k2, v2) s -> bleb k k2 = true -> bleb k' k2 = true
  | None => forall k2 v2, In (k2, v2) s -> bleb k k2 = false
  end.
Proof. induction s as [|[k0 v0] r IH]; simpl; intros H.
  - tauto.
  - apply ksorted_inv in H as [Hr Hall]. destruct (bleb k k0) eqn:E.
    + split; auto. split; auto. intros k2 v2 [H1|H1] _.
      * inversion H1; subst. unfold bleb. now rewrite bcmp_refl.
      * rewrite Forall_forall in Hall. specialize (Hall _ H1). simpl in Hall. unfold bleb. now rewrite Hall.
    + specialize (IH Hr). destruct (seek r k) as [[k' v]|].
      * destruct IH as [H1 [H2 H3]]. split; auto. split; auto. intros k2 v2 [H4|H4] H5.
        -- inversion H4; subst. congruence.
        -- eapply H3; eauto.
      * intros k2 v2 [H4|H4]; [inversion H4; subst; auto | eapply IH; eauto].
Qed.

(* next_fwd on a sorted store positioned at an element returns its successor *)
Lemma next_fwd_split s1 k v r : ksorted (s1 ++ (k, v) :: r) -> next_fwd (s1 ++ (k, v) :: r) k = hd_error r.
Proof. induction s1 as [|[k0 v0] s1 IH]; simpl; intros H.
  - rewrite bltb_irrefl. apply ksorted_inv in H as [Hr Hall]. destruct r as [|[k1 v1] r']; simpl; auto.
    inversion Hall; subst. simpl in *. unfold bltb. now rewrite H1.
  - apply ksorted_inv in H as [Hr Hall]. rewrite Forall_forall in Hall.
    assert (bcmp k0 k = Lt) as E by (apply (Hall (k, v)); apply in_or_app; right; left; reflexivity).
    unfold bltb at 1. rewrite (bcmp_antisym k0 k), E. simpl. now apply IH.
Qed.

Fixpoint take_while {X} (f : X -> bool) (l : list X) : list X :=
  match l with [] => [] | x :: r => if f x then x :: take_while f r else [] end.

Lemma scan_loop_suffix p s1 r : forall fuel, ksorted (s1 ++ r) -> length r < fuel ->
  scan_loop fuel (s1 ++ r) p (hd_error r) = take_while (fun kv => is_prefix p (fst kv)) r.
Proof. revert s1. induction r as [|[k v] r IH]; intros s1 fuel H Hf; destruct fuel as [|fuel]; simpl in *; try lia; auto.
  destruct (is_prefix p k); auto. f_equal. rewrite next_fwd_split; auto.
  replace (s1 ++ (k, v) :: r) with ((s1 ++ [(k, v)]) ++ r) in * by (rewrite <- app_assoc; reflexivity).
  apply IH; auto. lia. Qed.

Lemma seek_split s p : ksorted s -> exists s1 r, s = s1 ++ r /\ seek s p = hd_error r
  /\ Forall (fun kv => bcmp (fst kv) p = Lt) s1 /\ Forall (fun kv => bcmp p (fst kv) <> Gt) r.
Proof. induction s as [|[k v] s IH]; simpl; intros H.
  - exists [], []. repeat split; constructor.
  - apply ksorted_inv in H as [Hr Hall]. destruct (bleb p k) eqn:E.
    + exists [], ((k, v) :: s). repeat split; auto. constructor.
      * simpl. unfold bleb in E. destruct (bcmp p k); congruence.
      * eapply Forall_impl; [|exact Hall]. intros [a b] Ha; simpl in *. unfold bleb in E.
        destruct (bcmp p k) eqn:E2; try discriminate.
        -- apply bcmp_eq in E2; subst. congruence.
        -- rewrite (bcmp_lt_trans _ _ _ E2 Ha). congruence.
    + destruct (IH Hr) as [s1 [r [-> [H2 [H3 H4]]]]]. exists ((k, v) :: s1), r. repeat split; auto.
      constructor; auto. simpl. unfold bleb in E. destruct (bcmp p k) eqn:E2; try discriminate. now apply bcmp_gt_lt.
Qed.

Lemma filter_none_lt p s1 : Forall (fun kv : bytes * bytes => bcmp (fst kv) p = Lt) s1 ->
  filter (fun kv => is_prefix p (fst kv)) s1 = [].
Proof. induction s1 as [|[k v] s1 IH]; simpl; intros H; auto. inversion H; subst. simpl in *.
  destruct (is_prefix p k) eqn:E; auto. apply prefix_ge in E. apply bcmp_gt_lt in H2. congruence. Qed.

Lemma filter_none_after p k r : bcmp p k <> Gt -> is_prefix p k = false ->
  Forall (fun kv : bytes * bytes => bcmp k (fst kv) = Lt) r ->
  filter (fun kv => is_prefix p (fst kv)) r = [].
Proof. intros H1 H2. induction r as [|[k2 v2] r IH]; simpl; intros Hall; auto.
  inversion Hall; subst. simpl in *. rewrite (prefix_range_end p k k2); auto. Qed.

Lemma take_while_filter p r : ksorted r -> Forall (fun kv => bcmp p (fst kv) <> Gt) r ->
  take_while (fun kv => is_prefix p (fst kv)) r = filter (fun kv => is_prefix p (fst kv)) r.
Proof. induction r as [|[k v] r IH]; simpl; intros H Hge; auto.
  apply ksorted_inv in H as [Hr Hall]. inversion Hge; subst. simpl in *.
  destruct (is_prefix p k) eqn:E.
  - f_equal. now apply IH.
  - symmetry. eapply filter_none_after; eauto.
Qed.

Theorem prefix_scan_filter s p : ksorted s ->
  prefix_scan s p = filter (fun kv => is_prefix p (fst kv)) s.
Proof. intros H. unfold prefix_scan. destruct (seek_split s p H) as [s1 [r [-> [H2 [H3 H4]]]]].
  rewrite H2. rewrite scan_loop_suffix; auto.
  - rewrite filter_app, filter_none_lt; auto. simpl. apply take_while_filter; auto.
    clear - H. induction s1; simpl in *; auto. inversion H; subst; auto.
  - rewrite app_length. lia.
Qed.

(* ---------- scripts preserve sortedness; results depend only on the abstract map ---------- *)
Lemma tx_run_sorted ops : forall s, ksorted s -> ksorted (fst (tx_run s ops)).
Proof. induction ops as [|o ops IH]; intros s H; simpl; auto.
  destruct o; simpl; try (specialize (IH s H); destruct (tx_run s ops); exact IH).
  - specialize (IH _ (kv_set_sorted s k v H)). destruct (tx_run (kv_set s k v) ops). exact IH.
  - specialize (IH _ (kv_del_sorted s k H)). destruct (tx_run (kv_del s k) ops). exact IH.
Qed.

Lemma kv_step_sorted s o : ksorted s -> ksorted (fst (kv_step s o)).
Proof. intros H. destruct o; simpl; auto.
  - now apply kv_set_sorted.
  - now apply kv_del_sorted.
  - now apply kv_del_prefix_sorted.
  - pose proof (tx_run_sorted ops s H). destruct (tx_run s ops). exact H0.
  - revert s H. induction kvs as [|[a b] kvs IH]; simpl; intros s H; auto. apply IH. now apply kv_set_sorted.
Qed.

(* a failing update or bulk write leaves the map as it was *)
Lemma kv_step_fail_unchanged s o : (match o with OUpdateFail _ | OBulkFail _ => True | _ => False end) -> kv_step s o = (s, RErr).
Proof. destruct o; intros H; try contradiction; reflexivity. Qed.

Theorem kv_run_sorted ops : forall s, ksorted s -> ksorted (fst (kv_run s ops)).
Proof. induction ops as [|o ops IH]; intros s H; simpl; auto.
  pose proof (kv_step_sorted s o H). destruct (kv_step s o) as [s1 x]. simpl in *.
  specialize (IH s1 H0). destruct (kv_run s1 ops). exact IH. Qed.

(* two sorted stores with the same lookups are equal: the store IS the abstract map *)
Theorem ksorted_ext s1 : forall s2, ksorted s1 -> ksorted s2 -> (forall k, kv_get s1 k = kv_get s2 k) -> s1 = s2.
Proof. induction s1 as [|[k1 v1] r1 IH]; intros [|[k2 v2] r2] H1 H2 He; auto.
  - specialize (He k2). simpl in He. rewrite bcmp_refl in He. discriminate.
  - specialize (He k1). simpl in He. rewrite bcmp_refl in He. discriminate.
  - pose proof (He k1) as Ha. pose proof (He k2) as Hb. simpl in Ha, Hb. rewrite bcmp_refl in Ha, Hb.
    apply ksorted_inv in H1 as [Hr1 Hall1]. apply ksorted_inv in H2 as [Hr2 Hall2].
    destruct (bcmp k1 k2) eqn:E.
    + apply bcmp_eq in E; subst k2. inversion Ha; subst v2. f_equal. apply IH; auto.
      intros k. specialize (He k). simpl in He. destruct (bcmp k k1) eqn:E2; auto.
      * apply bcmp_eq in E2; subst k. rewrite !kv_get_lt_all; auto.
      * rewrite !kv_get_lt_all; auto; eapply Forall_impl; try eassumption; intros [a b] Hx; simpl in *; eapply bcmp_lt_trans; eauto.
    + discriminate.
    + rewrite (proj1 (bcmp_gt_lt k1 k2) E) in Hb. discriminate.
Qed.
