(* C14  The MongoDB compiler preserves typing and filter meaning.
   Typing: core_kstep / mongo_kstep mirror engine/core/compile.go:StatementProcessor and mongo/compile.go:Compile
   (both preceded by core.Validate); both are compared with the real compilers on every run.
   Filters: convert mirrors mongo/has_evaluator.go; meval is the standard semantics of the emitted fragment. *)
From Coq Require Import List String Bool ZArith QArith.
Local Close Scope Q_scope.
Import ListNotations.
From Grip Require Import Model.Json Model.Has Model.Traversal Model.Mongo Proofs.MongoProofs.
Local Open Scope string_scope.

(* every statement sequence (any length) over the supported steps whose one-mark selects name marks defined
   earlier: the Mongo compiler accepts it iff the core compiler does, with the same result type and mark types *)
Theorem C14_typing : forall ks, defined_use ks = true -> mongo_ktype ks = core_ktype ks.
Proof. exact typing_agree. Qed.
Print Assumptions C14_typing.

(* the kind-level core typing IS the typing of Model/Traversal.v (the one C01's soundness theorem is about) *)
Theorem C14_core_typing_is_C01s : forall p, type_of p = core_ktype (map kind_of p).
Proof. exact type_of_kinds. Qed.
Print Assumptions C14_core_typing_is_C01s.

(* every has-expression (any nesting of and/or/not, empty lists, unset branches, every operator and argument)
   and every document: under the guard (ordering tests compare a number against a field that is not numeric text;
   fields scalar) the emitted filter is accepted by the server and selects the document iff the core engine keeps
   the element; with the negation flag, iff it drops it. Hdoc is the correspondence between the stored document
   and the element (checked per case by the evaluator, instance below). *)
Theorem C14_filter : forall (look mget : string -> option jv),
  (forall k, mget (convert_path k) = look k) ->
  forall e n, guard look e = true -> meval mget (convert e n) = Some (xorb n (match_expr look e)).
Proof. exact convert_equiv. Qed.
Print Assumptions C14_filter.

(* non-vacuity: a concrete element, its stored document, a nested expression inside the guard *)
Example C14_filter_instance :
  let el := {| e_gid := "v1"; e_label := "L"; e_from := ""; e_to := ""; e_data := [("x", JNum (QArith_base.Qmake 5 1)); ("s", JStr "abc")] |} in
  let e := HNot (HAnd [HCond "x" CInside (JList [JNum (QArith_base.Qmake 1 1); JNum (QArith_base.Qmake 9 1)]); HOr [HCond "s" CEq (JStr "abc"); HCond "_gid" CWithin (JList [JStr "v2"])]]) in
  let look k := dig (to_dict el) (json_path k) in
  guard look e = true /\
  forallb (fun k => match mget_doc el (convert_path k), look k with Some a, Some b => jeq a b | None, None => true | _, _ => false end)
          ["x"; "s"; "_gid"; "_label"; "missing"; "n.k"] = true /\
  meval (mget_doc el) (convert e false) = Some false /\ match_expr look e = false.
Proof. vm_compute. repeat split. Qed.

(* outside the guard the full statement is false: numeric text is a number for the core engine, a string for
   the server's type-bracketed comparison *)
Theorem C14_filter_full_refuted : exists (look : string -> option jv) e,
  meval look (convert e false) <> Some (match_expr look e).
Proof.
  exists (fun k => if String.eqb k "data.x" then Some (JStr "5") else if String.eqb k "x" then Some (JStr "5") else None),
         (HCond "x" CGt (JNum (QArith_base.Qmake 3 1))).
  vm_compute. discriminate.
Qed.
Print Assumptions C14_filter_full_refuted.
