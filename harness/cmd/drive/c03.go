package main

import (
	"context"
	"encoding/json"
	"fmt"
	"math/rand"
	"os"
	"sort"
	"strings"
	"sync/atomic"

	"github.com/bmeg/grip/gdbi"
	"github.com/bmeg/grip/gripql"
	"github.com/bmeg/grip/kvgraph"
	"github.com/bmeg/grip/kvi"
	"google.golang.org/protobuf/types/known/structpb"

	"gripverif/internal/coq"
)

func init() { props["C03"] = runC03; props["C04"] = runC03 }

// ---------- universe: numbers <-> strings ----------
func gName(g int) string {
	if g >= 100 {
		return "bad$name"
	}
	if g == 0 {
		return ""
	}
	return fmt.Sprintf("g%d", g)
}
func vName(v int) string {
	if v == 0 {
		return ""
	}
	return string(rune('a' + v - 1))
}
func eName(e int) string {
	if e == 0 {
		return ""
	}
	return fmt.Sprintf("e%d", e)
}
func lName(l int) string {
	if l == 0 {
		return ""
	}
	return fmt.Sprintf("L%d", l)
}
func dataOf(d int) map[string]interface{} {
	switch {
	case d == 0:
		return map[string]interface{}{}
	case d >= 100:
		return map[string]interface{}{"_gid": float64(1)}
	}
	return map[string]interface{}{"k": float64(d)}
}
func dataNum(m map[string]interface{}) uint64 {
	if len(m) == 0 {
		return 0
	}
	if v, ok := m["k"]; ok {
		if f, ok := v.(float64); ok {
			return uint64(f)
		}
	}
	return 998
}
func num(s string, pfx string) uint64 {
	if s == "" {
		return 0
	}
	var n uint64
	if pfx == "" {
		return uint64(s[0]-'a') + 1
	}
	fmt.Sscanf(strings.TrimPrefix(s, pfx), "%d", &n)
	return n
}

// ---------- history ----------
type gElem struct {
	Kind string `json:"kind"` // v | e
	ID   int    `json:"id"`
	L    int    `json:"l"`
	D    int    `json:"d"`
	S    int    `json:"s,omitempty"`
	T    int    `json:"t,omitempty"`
}
type gOp struct {
	Op    string  `json:"op"` // addgraph delgraph addv adde bulk delv dele restart crash
	G     int     `json:"g,omitempty"`
	El    *gElem  `json:"el,omitempty"`
	Els   []gElem `json:"els,omitempty"`
	ID    int     `json:"id,omitempty"`
	Crash *gOp    `json:"crash,omitempty"`
	N     int     `json:"n,omitempty"`
}

func elemCoq(x gElem) string {
	if x.Kind == "v" {
		return fmt.Sprintf("(EV %d %d %d)", x.ID, x.L, x.D)
	}
	return fmt.Sprintf("(EE %d %d %d %d %d)", x.ID, x.S, x.T, x.L, x.D)
}
func opCoqG(o gOp) string {
	switch o.Op {
	case "addgraph":
		return fmt.Sprintf("(OAddGraph %d)", o.G)
	case "delgraph":
		return fmt.Sprintf("(ODeleteGraph %d)", o.G)
	case "addv":
		return fmt.Sprintf("(OAddVertex %d %d %d %d)", o.G, o.El.ID, o.El.L, o.El.D)
	case "adde":
		return fmt.Sprintf("(OAddEdge %d %d %d %d %d %d)", o.G, o.El.ID, o.El.S, o.El.T, o.El.L, o.El.D)
	case "bulk":
		xs := make([]string, len(o.Els))
		for i, x := range o.Els {
			xs[i] = elemCoq(x)
		}
		return fmt.Sprintf("(OBulkAdd %d %s)", o.G, coq.List(xs))
	case "delv":
		return fmt.Sprintf("(ODelVertex %d %d)", o.G, o.ID)
	case "dele":
		return fmt.Sprintf("(ODelEdge %d %d)", o.G, o.ID)
	}
	panic(o.Op)
}
func hopCoq(o gOp) string {
	switch o.Op {
	case "restart":
		return "HRestart"
	case "crash":
		return fmt.Sprintf("(HCrash %s %d%%nat)", opCoqG(*o.Crash), o.N)
	}
	return "(HOp " + opCoqG(o) + ")"
}

// ---------- fault-injecting kvi wrapper: counts top-level writes, refuses them after the budget ----------
type crashKV struct {
	kvi.KVInterface
	budget int64 // -1 = unlimited
	used   int64
}

var errCrashed = fmt.Errorf("crashed")

func (c *crashKV) allow() bool {
	if c.budget < 0 {
		return true
	}
	return atomic.AddInt64(&c.used, 1) <= c.budget
}
func (c *crashKV) Set(k, v []byte) error {
	if !c.allow() {
		return errCrashed
	}
	return c.KVInterface.Set(k, v)
}
func (c *crashKV) Delete(k []byte) error {
	if !c.allow() {
		return errCrashed
	}
	return c.KVInterface.Delete(k)
}
func (c *crashKV) DeletePrefix(k []byte) error {
	if !c.allow() {
		return errCrashed
	}
	return c.KVInterface.DeletePrefix(k)
}
func (c *crashKV) Update(f func(tx kvi.KVTransaction) error) error {
	if !c.allow() {
		return errCrashed
	}
	return c.KVInterface.Update(f)
}
func (c *crashKV) BulkWrite(f func(tx kvi.KVBulkWrite) error) error {
	if !c.allow() {
		// the stream must still be drained by the caller; nothing is written
		return c.KVInterface.BulkWrite(func(tx kvi.KVBulkWrite) error { f(nullBulk{}); return errCrashed })
	}
	return c.KVInterface.BulkWrite(f)
}

type nullBulk struct{}

func (nullBulk) Set(k, v []byte) error { return nil }

// ---------- running one history on the implementation ----------
type stepObs struct {
	OK bool       `json:"ok"`
	TS []bool     `json:"ts"`
	Stale bool    `json:"stale_stamp"` // a graph reported a timestamp it had reported earlier in this history with other content
	Q  [][][]uint64 `json:"q"`
}

type graphRunner struct {
	driver string
	dir    string
	kv     *crashKV
	db     gdbi.GraphDB
}

func (r *graphRunner) open() error {
	base, err := kvi.NewKVInterface(r.driver, r.dir+"/db", nil)
	if err != nil {
		return err
	}
	r.kv = &crashKV{KVInterface: base, budget: -1}
	r.db = kvgraph.NewKVGraph(r.kv)
	return nil
}
func (r *graphRunner) close() { r.db.Close() }

func hasGraph(db gdbi.GraphDB, g string) bool {
	for _, x := range db.ListGraphs() {
		if x == g {
			return true
		}
	}
	return false
}

func mkVertex(x gElem) *gripql.Vertex {
	s, _ := structpb.NewStruct(dataOf(x.D))
	return &gripql.Vertex{Gid: vName(x.ID), Label: lName(x.L), Data: s}
}
func mkEdge(x gElem) *gripql.Edge {
	s, _ := structpb.NewStruct(dataOf(x.D))
	return &gripql.Edge{Gid: eName(x.ID), Label: lName(x.L), From: vName(x.S), To: vName(x.T), Data: s}
}

// apply mirrors server/api.go: validation and graph-existence guards, then the graph call
func (r *graphRunner) apply(o gOp) bool {
	db := r.db
	g := gName(o.G)
	switch o.Op {
	case "addgraph":
		if gripql.ValidateGraphName(g) != nil {
			return false
		}
		return db.AddGraph(g) == nil
	case "delgraph":
		if !hasGraph(db, g) {
			return false
		}
		return db.DeleteGraph(g) == nil
	}
	gi, err := db.Graph(g)
	if err != nil {
		return false
	}
	switch o.Op {
	case "addv":
		v := mkVertex(*o.El)
		if v.Validate() != nil {
			return false
		}
		return gi.AddVertex([]*gdbi.Vertex{gdbi.NewElementFromVertex(v)}) == nil
	case "adde":
		e := mkEdge(*o.El)
		if e.Validate() != nil {
			return false
		}
		return gi.AddEdge([]*gdbi.Edge{gdbi.NewElementFromEdge(e)}) == nil
	case "bulk":
		ch := make(chan *gdbi.GraphElement, 10)
		go func() {
			for _, x := range o.Els {
				if x.Kind == "v" {
					v := mkVertex(x)
					if v.Validate() == nil {
						ch <- gdbi.NewGraphElement(&gripql.GraphElement{Graph: g, Vertex: v})
					}
				} else {
					e := mkEdge(x)
					if e.Validate() == nil {
						ch <- gdbi.NewGraphElement(&gripql.GraphElement{Graph: g, Edge: e})
					}
				}
			}
			close(ch)
		}()
		return gi.BulkAdd(ch) == nil
	case "delv":
		return gi.DelVertex(vName(o.ID)) == nil
	case "dele":
		return gi.DelEdge(eName(o.ID)) == nil
	}
	return false
}

func sortItems(l [][]uint64) [][]uint64 {
	sort.Slice(l, func(i, j int) bool {
		a, b := l[i], l[j]
		for k := 0; k < len(a) && k < len(b); k++ {
			if a[k] != b[k] {
				return a[k] < b[k]
			}
		}
		return len(a) < len(b)
	})
	if l == nil {
		return [][]uint64{}
	}
	return l
}

func vItem(v *gdbi.Vertex) []uint64 {
	return []uint64{num(v.ID, ""), num(v.Label, "L"), dataNum(v.Data)}
}
func eItem(e *gdbi.Edge) []uint64 {
	if e.ID == "" && !e.Loaded {
		return []uint64{0, 0, 0, 0, 999}
	}
	return []uint64{num(e.ID, "e"), num(e.From, ""), num(e.To, ""), num(e.Label, "L"), dataNum(e.Data)}
}

func lookup1(id string) chan gdbi.ElementLookup {
	ch := make(chan gdbi.ElementLookup, 1)
	ch <- gdbi.ElementLookup{ID: id}
	close(ch)
	return ch
}

var filters = [][]string{{}, {"L1"}, {"L2"}, {"L2", "L1"}} // the last one is not in sorted order

func observeGraphs(db gdbi.GraphDB) [][][]uint64 {
	out := [][][]uint64{}
	for g := 1; g <= 2; g++ {
		out = append(out, observeGraph(db, g)...)
	}
	return out
}

func observeGraph(db gdbi.GraphDB, g int) [][][]uint64 {
	ctx := context.Background()
	out := [][][]uint64{}
	for ; g > 0; g = -1 {
		gi, err := db.Graph(gName(g))
		if err != nil {
			out = append(out, [][]uint64{{0}})
			continue
		}
		out = append(out, [][]uint64{{1}})
		vl := [][]uint64{}
		for v := range gi.GetVertexList(ctx, true) {
			vl = append(vl, vItem(v))
		}
		out = append(out, sortItems(vl))
		el := [][]uint64{}
		for e := range gi.GetEdgeList(ctx, true) {
			el = append(el, eItem(e))
		}
		out = append(out, sortItems(el))
		for v := 1; v <= 3; v++ {
			x := gi.GetVertex(vName(v), true)
			if x == nil {
				out = append(out, [][]uint64{})
			} else {
				out = append(out, [][]uint64{{num(x.Label, "L"), dataNum(x.Data)}})
			}
		}
		for e := 1; e <= 3; e++ {
			x := gi.GetEdge(eName(e), true)
			if x == nil {
				out = append(out, [][]uint64{})
			} else {
				out = append(out, [][]uint64{eItem(x)})
			}
		}
		for v := 1; v <= 3; v++ {
			for _, ls := range filters {
				q := [][]uint64{}
				for r := range gi.GetOutChannel(ctx, lookup1(vName(v)), true, false, ls) {
					q = append(q, vItem(r.Vertex))
				}
				out = append(out, sortItems(q))
				q = [][]uint64{}
				for r := range gi.GetInChannel(ctx, lookup1(vName(v)), true, false, ls) {
					q = append(q, vItem(r.Vertex))
				}
				out = append(out, sortItems(q))
				q = [][]uint64{}
				for r := range gi.GetOutEdgeChannel(ctx, lookup1(vName(v)), true, false, ls) {
					q = append(q, eItem(r.Edge))
				}
				out = append(out, sortItems(q))
				q = [][]uint64{}
				for r := range gi.GetInEdgeChannel(ctx, lookup1(vName(v)), true, false, ls) {
					q = append(q, eItem(r.Edge))
				}
				out = append(out, sortItems(q))
			}
		}
		vls, _ := gi.ListVertexLabels()
		q := [][]uint64{}
		for _, l := range vls {
			q = append(q, []uint64{num(l, "L")})
		}
		out = append(out, sortItems(q))
		els, _ := gi.ListEdgeLabels()
		q = [][]uint64{}
		for _, l := range els {
			q = append(q, []uint64{num(l, "L")})
		}
		out = append(out, sortItems(q))
		for l := 1; l <= 2; l++ {
			q = [][]uint64{}
			for id := range gi.VertexLabelScan(ctx, lName(l)) {
				if x := gi.GetVertex(id, true); x != nil {
					q = append(q, vItem(x))
				}
			}
			out = append(out, sortItems(q))
		}
	}
	return out
}

func tsOf(db gdbi.GraphDB) []string {
	out := []string{}
	for g := 1; g <= 2; g++ {
		gi, err := db.Graph(gName(g))
		if err != nil {
			out = append(out, "")
		} else {
			out = append(out, gi.GetTimestamp())
		}
	}
	return out
}

func execHistory(driver string, hist []gOp) []stepObs {
	dir, _ := os.MkdirTemp("", "c03g")
	defer os.RemoveAll(dir)
	r := &graphRunner{driver: driver, dir: dir}
	if err := r.open(); err != nil {
		panic(err)
	}
	obs := []stepObs{}
	// what a client that revalidates by timestamp relies on, restarts included: one stamp of a graph, one content
	seen := map[string]string{}
	stale := func() bool {
		bad := false
		for g := 1; g <= 2; g++ {
			gi, err := r.db.Graph(gName(g))
			if err != nil {
				continue
			}
			b, _ := json.Marshal(observeGraph(r.db, g))
			k := gName(g) + "@" + gi.GetTimestamp()
			if old, ok := seen[k]; ok && old != string(b) {
				bad = true
			}
			seen[k] = string(b)
		}
		return bad
	}
	stale()
	for _, o := range hist {
		switch o.Op {
		case "restart":
			r.close()
			r.open()
			obs = append(obs, stepObs{OK: true, TS: []bool{}, Q: observeGraphs(r.db), Stale: stale()})
		case "crash":
			r.kv.budget = int64(o.N)
			r.kv.used = 0
			r.apply(*o.Crash)
			r.kv.budget = -1
			r.close()
			r.open()
			obs = append(obs, stepObs{OK: true, TS: []bool{}, Q: observeGraphs(r.db), Stale: stale()})
		default:
			before := tsOf(r.db)
			ok := r.apply(o)
			after := tsOf(r.db)
			ch := make([]bool, len(before))
			for i := range before {
				ch[i] = before[i] != after[i]
			}
			obs = append(obs, stepObs{OK: ok, TS: ch, Q: observeGraphs(r.db), Stale: stale()})
		}
	}
	r.close()
	return obs
}

func obsCoq(o stepObs) string {
	ts := make([]string, len(o.TS))
	for i, b := range o.TS {
		ts[i] = coq.Bool(b)
	}
	qs := make([]string, len(o.Q))
	for i, q := range o.Q {
		items := make([]string, len(q))
		for j, it := range q {
			items[j] = coq.NList(it)
		}
		qs[i] = coq.List(items)
	}
	return coq.Record("so_ok", coq.Bool(o.OK), "so_ts", coq.List(ts), "so_stale", coq.Bool(o.Stale), "so_q", coq.List(qs))
}

// ---------- generators ----------
func randElem(rng *rand.Rand, bias bool) gElem {
	pickL := func() int {
		if rng.Intn(12) == 0 {
			return 0
		}
		return 1 + rng.Intn(2)
	}
	pickD := func() int {
		if rng.Intn(15) == 0 {
			return 100
		}
		return rng.Intn(3)
	}
	if rng.Intn(2) == 0 {
		id := 1 + rng.Intn(3)
		if rng.Intn(15) == 0 {
			id = 0
		}
		return gElem{Kind: "v", ID: id, L: pickL(), D: pickD()}
	}
	id := 1 + rng.Intn(3)
	if rng.Intn(20) == 0 {
		id = 0
	}
	s, t := 1+rng.Intn(3), 1+rng.Intn(3)
	if rng.Intn(20) == 0 {
		s = 0
	}
	return gElem{Kind: "e", ID: id, L: pickL(), D: pickD(), S: s, T: t}
}

func randOp(rng *rand.Rand) gOp {
	g := 1 + rng.Intn(2)
	switch rng.Intn(20) {
	case 0:
		if rng.Intn(4) == 0 {
			return gOp{Op: "addgraph", G: 100}
		}
		return gOp{Op: "addgraph", G: g}
	case 1:
		return gOp{Op: "delgraph", G: g}
	case 2, 3, 4, 5, 6, 7:
		x := randElem(rng, true)
		if x.Kind == "v" {
			return gOp{Op: "addv", G: g, El: &x}
		}
		return gOp{Op: "adde", G: g, El: &x}
	case 8, 9, 10:
		x := randElem(rng, true)
		x.Kind = "e"
		if x.S == 0 && x.T == 0 {
			x.S, x.T = 1, 2
		}
		if x.T == 0 {
			x.T = 1 + rng.Intn(3)
		}
		return gOp{Op: "adde", G: g, El: &x}
	case 11, 12:
		n := 1 + rng.Intn(4)
		els := make([]gElem, n)
		for i := range els {
			els[i] = randElem(rng, true)
			if els[i].Kind == "e" && els[i].T == 0 {
				els[i].T = 1
			}
		}
		return gOp{Op: "bulk", G: g, Els: els}
	case 13, 14, 15:
		return gOp{Op: "delv", G: g, ID: 1 + rng.Intn(3)}
	default:
		return gOp{Op: "dele", G: g, ID: 1 + rng.Intn(3)}
	}
}

func fixElem(x *gElem) {
	if x.Kind == "e" && x.T == 0 && x.S != 0 {
		x.T = 1
	}
}

// number of top-level writes an op issues at most (for crash points)
func maxCalls(o gOp) int {
	switch o.Op {
	case "addgraph":
		return 3
	case "delgraph":
		return 11
	}
	return 1
}

func classifyHistory(hist []gOp) []string {
	tags := map[string]bool{}
	for _, o := range hist {
		tags["op="+o.Op] = true
		if o.Op == "crash" {
			tags["crash="+o.Crash.Op] = true
		}
	}
	out := []string{}
	for k := range tags {
		out = append(out, k)
	}
	sort.Strings(out)
	return out
}

type c03Input struct {
	Driver string `json:"driver"`
	Hist   []gOp  `json:"hist"`
	// C04, > 0: a hub vertex with that many edges (half of them incoming) is deleted and the process dies before the k-th
	// top-level write of the call, k = 1..4, each on a fresh store; observed: every key of each reopened store
	Hub int `json:"hub,omitempty"`
}

// execHub: the raw keys of the store after each crash point (the evaluator checks them with keys_consistent)
func execHub(driver string, n int) [][]string {
	dumps := [][]string{}
	for budget := 0; budget < 4; budget++ {
		dir, _ := os.MkdirTemp("", "c04hub")
		r := &graphRunner{driver: driver, dir: dir}
		if err := r.open(); err != nil {
			panic(err)
		}
		r.db.AddGraph("g1")
		gi, _ := r.db.Graph("g1")
		vs := []*gdbi.Vertex{gdbi.NewElementFromVertex(&gripql.Vertex{Gid: "hub", Label: "L1"})}
		es := []*gdbi.Edge{}
		for i := 0; i < n; i++ {
			leaf := fmt.Sprintf("n%04d", i)
			vs = append(vs, gdbi.NewElementFromVertex(&gripql.Vertex{Gid: leaf, Label: "L2"}))
			e := &gripql.Edge{Gid: fmt.Sprintf("en%04d", i), Label: "L1", From: "hub", To: leaf}
			if i%2 == 1 {
				e.From, e.To = leaf, "hub"
			}
			es = append(es, gdbi.NewElementFromEdge(e))
		}
		// a few edges that do not touch the hub
		es = append(es, gdbi.NewElementFromEdge(&gripql.Edge{Gid: "x1", Label: "L2", From: "n0000", To: "n0001"}))
		gi.AddVertex(vs)
		gi.AddEdge(es)
		r.kv.budget, r.kv.used = int64(budget), 0
		gi.DelVertex("hub")
		r.kv.budget = -1
		r.close()
		r.open()
		dumps = append(dumps, rawKeys(r.kv))
		r.close()
		os.RemoveAll(dir)
	}
	return dumps
}

func runC03(ctx *Ctx) error {
	ctx.EvalMod = "Eval_" + ctx.Prop
	ctx.WideFactor = 3 // every history is replayed with reopen / crash injection: keep the widened search within minutes
	ctx.CaseTy = "c03_case"
	ctx.Shard = 40
	ctx.HasKF = true
	ctx.Scope = "N_scope"
	isC04 := ctx.Prop == "C04"
	ctx.Rule = "histories of AddGraph/DeleteGraph/AddVertex/AddEdge/BulkAdd/DelVertex/DelEdge over 2 graphs, 3 vertex ids, 3 edge ids, 2 labels, 3 data values + invalid variants (blank id/label/endpoint, reserved property name, invalid graph name), all read APIs observed after every step; C04 adds close/reopen at random positions and a crash before each top-level write of the last call, and, beyond the three-id universe, the deletion of a hub vertex with 400 (and 40) edges in both directions with the process dying before its k-th top-level write (k = 1..4): every key of the reopened store is handed to the evaluator, which checks that every by-source / by-destination entry has its edge record and every edge record both entries; non-trivial = history of >= 3 steps with at least one successful edge write; distinct by history"
	var inputs []c03Input
	if ctx.Replay != nil {
		var in c03Input
		if err := json.Unmarshal(ctx.Replay, &in); err != nil {
			return err
		}
		inputs = []c03Input{in}
	} else {
		rng := ctx.Rng
		drivers := []string{"badger"}
		if ctx.Thorough() {
			drivers = kvDrivers
		}
		n := ctx.Pick(120, 900)
		// corpus of minimised past failures first
		corpus := [][]gOp{
			{{Op: "addgraph", G: 1}, {Op: "adde", G: 1, El: &gElem{Kind: "e", ID: 1, L: 1, S: 1, T: 2}}, {Op: "dele", G: 1, ID: 1}},
			{{Op: "addgraph", G: 1}, {Op: "addv", G: 1, El: &gElem{Kind: "v", ID: 1, L: 1}}, {Op: "adde", G: 1, El: &gElem{Kind: "e", ID: 1, L: 1, S: 1, T: 1}}, {Op: "delv", G: 1, ID: 1}},
			{{Op: "addgraph", G: 1}, {Op: "addgraph", G: 2}, {Op: "addv", G: 1, El: &gElem{Kind: "v", ID: 1, L: 1}}, {Op: "addv", G: 2, El: &gElem{Kind: "v", ID: 1, L: 2}}, {Op: "delgraph", G: 1}, {Op: "addgraph", G: 1}},
			{{Op: "addgraph", G: 1}, {Op: "delv", G: 1, ID: 2}, {Op: "dele", G: 1, ID: 2}},
			{{Op: "addgraph", G: 1}, {Op: "bulk", G: 1, Els: []gElem{{Kind: "v", ID: 1, L: 1, D: 1}, {Kind: "e", ID: 1, L: 2, S: 1, T: 3, D: 2}, {Kind: "v", ID: 0, L: 1}}}},
		}
		if isC04 {
			corpus = append(corpus,
				[]gOp{{Op: "addgraph", G: 1}, {Op: "restart"}, {Op: "addv", G: 1, El: &gElem{Kind: "v", ID: 1, L: 2}}},
				[]gOp{{Op: "addgraph", G: 1}, {Op: "addv", G: 1, El: &gElem{Kind: "v", ID: 1, L: 1}}, {Op: "adde", G: 1, El: &gElem{Kind: "e", ID: 1, L: 1, S: 1, T: 2}}, {Op: "restart"}, {Op: "dele", G: 1, ID: 1}, {Op: "restart"}})
		}
		// every placement of an edge between two of the three vertices, then the deletion of either endpoint
		// (incoming and outgoing cascades), of the edge, and of an unrelated vertex
		for s := 1; s <= 3; s++ {
			for t := 1; t <= 3; t++ {
				base := []gOp{{Op: "addgraph", G: 1}, {Op: "addv", G: 1, El: &gElem{Kind: "v", ID: s, L: 1}}, {Op: "addv", G: 1, El: &gElem{Kind: "v", ID: t, L: 2}},
					{Op: "adde", G: 1, El: &gElem{Kind: "e", ID: 1, L: 1, S: s, T: t}}, {Op: "adde", G: 1, El: &gElem{Kind: "e", ID: 2, L: 2, S: t, T: s, D: 1}}}
				for _, last := range []gOp{{Op: "delv", G: 1, ID: s}, {Op: "delv", G: 1, ID: t}, {Op: "dele", G: 1, ID: 1}, {Op: "delv", G: 1, ID: 1 + (s+t)%3}} {
					corpus = append(corpus, append(append([]gOp{}, base...), last, gOp{Op: "addv", G: 1, El: &gElem{Kind: "v", ID: t, L: 1, D: 2}}))
				}
			}
		}
		// a vertex with several edges in each direction, deleted and created again: every adjacency entry of the old one must be
		// gone (DelVertex collects the keys to delete while it scans)
		{
			h := []gOp{{Op: "addgraph", G: 1}}
			for v := 1; v <= 3; v++ {
				h = append(h, gOp{Op: "addv", G: 1, El: &gElem{Kind: "v", ID: v, L: 1}})
			}
			h = append(h, gOp{Op: "adde", G: 1, El: &gElem{Kind: "e", ID: 1, L: 1, S: 1, T: 2}}, gOp{Op: "adde", G: 1, El: &gElem{Kind: "e", ID: 2, L: 1, S: 1, T: 3}},
				gOp{Op: "adde", G: 1, El: &gElem{Kind: "e", ID: 3, L: 2, S: 1, T: 2, D: 1}}, gOp{Op: "adde", G: 1, El: &gElem{Kind: "e", ID: 0, L: 2, S: 2, T: 1}},
				gOp{Op: "bulk", G: 1, Els: []gElem{{Kind: "e", ID: 4, L: 1, S: 3, T: 1}, {Kind: "e", ID: 5, L: 1, S: 2, T: 1, D: 2}}},
				gOp{Op: "delv", G: 1, ID: 1}, gOp{Op: "addv", G: 1, El: &gElem{Kind: "v", ID: 1, L: 2}}, gOp{Op: "dele", G: 1, ID: 2})
			corpus = append(corpus, h)
		}
		// a graph with vertices, edges in both directions and a self loop, deleted and created again under the same name,
		// with a sibling graph of the same content next to it: nothing of the deleted graph may show in the new one
		// (every index -- by source, by destination, labels -- is observed after re-adding the old ids one by one)
		for _, sib := range []bool{false, true} {
			h := []gOp{{Op: "addgraph", G: 1}}
			if sib {
				h = append(h, gOp{Op: "addgraph", G: 2})
			}
			fill := func(g int) []gOp {
				return []gOp{{Op: "addv", G: g, El: &gElem{Kind: "v", ID: 1, L: 1}}, {Op: "addv", G: g, El: &gElem{Kind: "v", ID: 2, L: 2, D: 1}},
					{Op: "adde", G: g, El: &gElem{Kind: "e", ID: 1, L: 1, S: 1, T: 2}}, {Op: "adde", G: g, El: &gElem{Kind: "e", ID: 2, L: 2, S: 2, T: 1, D: 2}},
					{Op: "adde", G: g, El: &gElem{Kind: "e", ID: 3, L: 1, S: 2, T: 2}}}
			}
			h = append(h, fill(1)...)
			if sib {
				h = append(h, fill(2)...)
			}
			h = append(h, gOp{Op: "delgraph", G: 1}, gOp{Op: "addgraph", G: 1},
				gOp{Op: "addv", G: 1, El: &gElem{Kind: "v", ID: 2, L: 1}}, gOp{Op: "addv", G: 1, El: &gElem{Kind: "v", ID: 1, L: 2}},
				gOp{Op: "adde", G: 1, El: &gElem{Kind: "e", ID: 3, L: 2, S: 1, T: 1}})
			if sib {
				h = append(h, gOp{Op: "delgraph", G: 2}, gOp{Op: "addgraph", G: 2}, gOp{Op: "addv", G: 2, El: &gElem{Kind: "v", ID: 1, L: 1}})
			}
			corpus = append(corpus, h)
		}
		for _, h := range corpus {
			for _, d := range drivers {
				inputs = append(inputs, c03Input{Driver: d, Hist: h})
			}
		}
		for i := 0; i < n; i++ {
			hist := []gOp{{Op: "addgraph", G: 1}}
			if rng.Intn(2) == 0 {
				hist = append(hist, gOp{Op: "addgraph", G: 2})
			}
			ln := 2 + rng.Intn(ctx.Pick(10, 22))
			for j := 0; j < ln; j++ {
				o := randOp(rng)
				if o.El != nil {
					fixElem(o.El)
				}
				hist = append(hist, o)
				if isC04 && rng.Intn(5) == 0 {
					hist = append(hist, gOp{Op: "restart"})
				}
			}
			if isC04 {
				// crash point inside a last call
				o := randOp(rng)
				if o.El != nil {
					fixElem(o.El)
				}
				k := rng.Intn(maxCalls(o) + 1)
				hist = append(hist, gOp{Op: "crash", Crash: &o, N: k})
			}
			d := drivers[i%len(drivers)]
			inputs = append(inputs, c03Input{Driver: d, Hist: hist})
		}
		if isC04 {
			// every crash point of DeleteGraph and AddGraph on a populated graph
			base := []gOp{{Op: "addgraph", G: 1}, {Op: "addv", G: 1, El: &gElem{Kind: "v", ID: 1, L: 1}}, {Op: "addv", G: 1, El: &gElem{Kind: "v", ID: 2, L: 2}},
				{Op: "adde", G: 1, El: &gElem{Kind: "e", ID: 1, L: 1, S: 1, T: 2}}}
			for k := 0; k <= 11; k++ {
				o := gOp{Op: "delgraph", G: 1}
				inputs = append(inputs, c03Input{Driver: "badger", Hist: append(append([]gOp{}, base...), gOp{Op: "crash", Crash: &o, N: k})})
			}
			for k := 0; k <= 3; k++ {
				o := gOp{Op: "addgraph", G: 2}
				inputs = append(inputs, c03Input{Driver: "badger", Hist: append(append([]gOp{}, base...), gOp{Op: "crash", Crash: &o, N: k})})
			}
			for _, last := range []gOp{{Op: "delv", G: 1, ID: 1}, {Op: "dele", G: 1, ID: 1}, {Op: "adde", G: 1, El: &gElem{Kind: "e", ID: 2, L: 2, S: 2, T: 1}}} {
				for k := 0; k <= 1; k++ {
					o := last
					inputs = append(inputs, c03Input{Driver: "badger", Hist: append(append([]gOp{}, base...), gOp{Op: "crash", Crash: &o, N: k})})
				}
			}
		}
	}
	if isC04 && ctx.Replay == nil {
		inputs = append(inputs, c03Input{Driver: "badger", Hub: 400}, c03Input{Driver: "badger", Hub: 40})
	}
	for _, in := range inputs {
		if in.Hub > 0 {
			dumps := execHub(in.Driver, in.Hub)
			ds := make([]string, len(dumps))
			sizes := []int{}
			for i, d := range dumps {
				ks := make([]string, len(d))
				for j, k := range d {
					ks[j] = bcoq(bstr(k))
				}
				ds[i] = coq.List(ks)
				sizes = append(sizes, len(d))
			}
			key, _ := json.Marshal(in)
			ctx.Add(Case{Input: in, Observed: map[string]interface{}{"keys_after_each_crash_point": sizes}, Coq: coq.Record("chist", "[]", "cobs", "[]", "ckeys", coq.List(ds)),
				Nontrivial: true, Key: string(key), Tags: []string{"kind=hub-delete-crash", "driver=" + in.Driver}})
			continue
		}
		obs := execHistory(in.Driver, in.Hist)
		hs := make([]string, len(in.Hist))
		edgeWrites := 0
		for i, o := range in.Hist {
			hs[i] = hopCoq(o)
			if (o.Op == "adde" || o.Op == "bulk") && obs[i].OK {
				edgeWrites++
			}
		}
		os := make([]string, len(obs))
		for i, o := range obs {
			os[i] = obsCoq(o)
		}
		key, _ := json.Marshal(in.Hist)
		ctx.Add(Case{Input: in, Observed: summarizeObs(obs), Coq: coq.Record("chist", coq.List(hs), "cobs", coq.List(os), "ckeys", "[]"),
			Nontrivial: len(in.Hist) >= 3 && edgeWrites > 0, Key: string(key),
			Tags: append(classifyHistory(in.Hist), "driver="+in.Driver, "len="+bucket(len(in.Hist)))})
	}
	return nil
}

// keep cases.json small: per step only ok/ts and the non-empty queries
func summarizeObs(obs []stepObs) interface{} {
	out := []interface{}{}
	for _, o := range obs {
		ne := map[string][][]uint64{}
		for i, q := range o.Q {
			if len(q) > 0 {
				ne[fmt.Sprintf("q%d", i)] = q
			}
		}
		out = append(out, map[string]interface{}{"ok": o.OK, "ts": o.TS, "stale_stamp": o.Stale, "nonempty": ne})
	}
	return out
}
