(* The MongoDB compiler (property C14): statement typing of mongo/compile.go next to the core typing, and the
   has-expression -> $match translation of mongo/has_evaluator.go with an interpreter of the emitted filter
   under the standard semantics of $and $or $not $eq $ne $gt $gte $lt $lte $in $elemMatch. *)
From Coq Require Import List ZArith QArith String Ascii Bool.
Import ListNotations.
From Grip Require Import Model.Json Model.Has Model.Traversal.
Local Close Scope Q_scope.
Local Open Scope string_scope.
Local Open Scope list_scope.

(* ================= typing ================= *)
(* what typing depends on, per statement *)
Inductive skind :=
| KV | KE | KToVertex | KToEdge | KHas
| KHasList (empty : bool)                (* hasLabel / hasId / hasKey: is the list empty *)
| KAs (name : string) | KSelect (names : list string)
| KFields | KRender | KPath | KUnwind | KDistinct | KCount | KWindow
| KAggregate (dup : bool).               (* duplicate aggregation names *)

Definition kind_of (s : stmt) : skind :=
  match s with
  | SV _ => KV | SE _ => KE
  | SIn _ | SOut _ | SBoth _ | SInNull _ | SOutNull _ => KToVertex
  | SInE _ | SOutE _ | SBothE _ | SInENull _ | SOutENull _ => KToEdge
  | SHas _ => KHas
  | SHasLabel l | SHasId l | SHasKey l => KHasList (match l with [] => true | _ => false end)
  | SAs n => KAs n | SSelect ns => KSelect ns
  | SFields _ => KFields | SRender _ => KRender | SPath => KPath | SUnwind _ => KUnwind
  | SDistinct _ => KDistinct | SCount => KCount
  | SLimit _ | SSkip _ | SRange _ _ => KWindow
  end.

(* engine/core/compile.go StatementProcessor, on kinds *)
Definition core_kstep (ts : tstate) (k : skind) : option tstate :=
  let '(d, mt) := ts in
  match k with
  | KV => if dtype_eqb d DNone then Some (DVertex, mt) else None
  | KE => if dtype_eqb d DNone then Some (DEdge, mt) else None
  | KToVertex => if is_elem d then Some (DVertex, mt) else None
  | KToEdge => if dtype_eqb d DVertex then Some (DEdge, mt) else None
  | KHas => if is_elem d then Some ts else None
  | KHasList e => if is_elem d && negb e then Some ts else None
  | KAs n => if negb (dtype_eqb d DNone) && valid_mark n then Some (d, set_assoc n d mt) else None
  | KSelect ns =>
      if is_elem d then
        match ns with
        | [] => None
        | [m] => Some (match get_assoc m mt with Some x => x | None => DNone end, mt)
        | _ => Some (DSel, mt)
        end
      else None
  | KFields | KUnwind | KDistinct => if is_elem d then Some ts else None
  | KRender => if is_elem d then Some (DRender, mt) else None
  | KPath => if is_elem d then Some (DPath, mt) else None
  | KCount => Some (DCount, mt)
  | KWindow => Some ts
  | KAggregate dup => if is_elem d && negb dup then Some (DAgg, mt) else None
  end.

(* mongo/compile.go Compiler.Compile, statement by statement (lastType, markTypes) *)
Definition mongo_kstep (ts : tstate) (k : skind) : option tstate :=
  let '(d, mt) := ts in
  match k with
  | KV => if dtype_eqb d DNone then Some (DVertex, mt) else None
  | KE => if dtype_eqb d DNone then Some (DEdge, mt) else None
  | KToVertex => if is_elem d then Some (DVertex, mt) else None
  | KToEdge => if dtype_eqb d DVertex then Some (DEdge, mt) else None
  | KHas => if is_elem d then Some ts else None
  | KHasList e => if is_elem d then (if e then None else Some ts) else None
  | KAs n => if dtype_eqb d DNone then None else if valid_mark n then Some (d, set_assoc n d mt) else None
  | KSelect ns =>
      if is_elem d then
        match ns with
        | [] => None
        | [m] => match get_assoc m mt with
                 | Some DVertex => Some (DVertex, mt)
                 | Some DEdge => Some (DEdge, mt)
                 | _ => Some ts            (* no case of the switch applies: the type stays *)
                 end
        | _ => Some (DSel, mt)
        end
      else None
  | KFields | KUnwind | KDistinct => if is_elem d then Some ts else None
  | KRender => if is_elem d then Some (DRender, mt) else None
  | KPath => if is_elem d then Some (DPath, mt) else None
  | KCount => Some (DCount, mt)
  | KWindow => Some ts
  | KAggregate dup => if is_elem d then (if dup then None else Some (DAgg, mt)) else None
  end.

Definition krun (step : tstate -> skind -> option tstate) :=
  fix go (ts : tstate) (ks : list skind) : option tstate :=
    match ks with [] => Some ts | k :: r => match step ts k with Some ts' => go ts' r | None => None end end.
(* core.Validate in front of both: an empty program is an empty pipeline, otherwise V or E first *)
Definition ktype (step : tstate -> skind -> option tstate) (ks : list skind) : option tstate :=
  match ks with
  | [] => Some (DNone, [])
  | KV :: _ | KE :: _ => krun step (DNone, []) ks
  | _ => None
  end.
Definition core_ktype := ktype core_kstep.
Definition mongo_ktype := ktype mongo_kstep.

(* marks defined before use: a one-mark select names a mark the typing run has recorded *)
Definition use_ok (ts : tstate) (k : skind) : bool :=
  match k with KSelect [m] => match get_assoc m (snd ts) with Some _ => true | None => false end | _ => true end.
Fixpoint defined_use_from (ts : tstate) (ks : list skind) : bool :=
  match ks with
  | [] => true
  | k :: r => use_ok ts k && match core_kstep ts k with Some ts' => defined_use_from ts' r | None => true end
  end.
Definition defined_use (ks : list skind) : bool := defined_use_from (DNone, []) ks.

(* ================= filters ================= *)
Inductive mop :=
| MEq (v : jv) | MNe (v : jv) | MGt (v : jv) | MGte (v : jv) | MLt (v : jv) | MLte (v : jv)
| MIn (v : jv)                          (* the operand as emitted; must be an array *)
| MElemEq (v : jv)                      (* {$elemMatch: {$eq: v}} *)
| MNot (o : mop)
| MOpUnknown.                           (* an operator document the harness could not read back *)
Inductive mfilter :=
| MAll                                   (* the empty document {} *)
| MField (key : string) (o : mop)
| MAnd (l : list mfilter) | MOr (l : list mfilter)
| MUnknown.

(* convertPath: jsonpath without "$.", "gid" -> "_id" *)
Fixpoint join_dot (l : list string) : string :=
  match l with [] => "" | [x] => x | x :: r => x ++ "." ++ join_dot r end.
Definition convert_path (k : string) : string :=
  let p := join_dot (json_path k) in if String.eqb p "gid" then "_id" else p.

Definition const_filter (b : bool) : mfilter := if b then MAll else MField "_id" (MIn (JList [])).
Definition wrap (k : string) (n : bool) (o : mop) : mfilter := MField (convert_path k) (if n then MNot o else o).

(* convertCondition *)
Definition convert_cond (k : string) (op : cop) (a : jv) (n : bool) : mfilter :=
  match op with
  | CEq => wrap k n (MEq a) | CNeq => wrap k n (MNe a)
  | CGt => wrap k n (MGt a) | CGte => wrap k n (MGte a) | CLt => wrap k n (MLt a) | CLte => wrap k n (MLte a)
  | CWithin => match a with JList _ => wrap k n (MIn a) | _ => const_filter n end
  | CWithout => match a with JList _ => wrap k n (MNot (MIn a)) | _ => const_filter (negb n) end
  | CContains => wrap k n (MElemEq a)
  | CInside | COutside | CBetween => const_filter n       (* not reached: rewritten by the caller *)
  end.

(* convertHasExpression; n = translate the negation *)
Fixpoint convert (e : hexpr) (n : bool) : mfilter :=
  match e with
  | HCond k CInside a =>
      match a with
      | JList [lo; hi] => (if n then MOr else MAnd) [convert_cond k CGt lo n; convert_cond k CLt hi n]
      | _ => const_filter n
      end
  | HCond k COutside a =>
      match a with
      | JList [lo; hi] => (if n then MAnd else MOr) [convert_cond k CLt lo n; convert_cond k CGt hi n]
      | _ => const_filter n
      end
  | HCond k CBetween a =>
      match a with
      | JList [lo; hi] => (if n then MOr else MAnd) [convert_cond k CGte lo n; convert_cond k CLt hi n]
      | _ => const_filter n
      end
  | HCond k op a => convert_cond k op a n
  | HAnd [] => const_filter (negb n)
  | HAnd es => (if n then MOr else MAnd) (map (fun x => convert x n) es)
  | HOr [] => const_filter n
  | HOr es => (if n then MAnd else MOr) (map (fun x => convert x n) es)
  | HNot x => convert x (negb n)
  | HUnset => const_filter n
  end.

(* ---- standard semantics of the emitted fragment on a document with scalar (or absent) fields ---- *)
Definition lexlt (a b : string) : comparison := String.compare a b.
(* comparison operators apply within one BSON type bracket only *)
Definition mcmp (v a : jv) : option comparison :=
  match v, a with
  | JNum x, JNum y => Some (Qcompare x y)
  | JStr x, JStr y => Some (String.compare x y)
  | JBool x, JBool y => Some (match x, y with false, true => Lt | true, false => Gt | _, _ => Eq end)
  | JNull, JNull => Some Eq
  | _, _ => None
  end.
Definition is_gt (c : option comparison) := match c with Some Gt => true | _ => false end.
Definition is_lt (c : option comparison) := match c with Some Lt => true | _ => false end.
Definition is_ge (c : option comparison) := match c with Some Gt | Some Eq => true | _ => false end.
Definition is_le (c : option comparison) := match c with Some Lt | Some Eq => true | _ => false end.

(* None = the server rejects the query *)
Fixpoint mop_eval (v0 : option jv) (o : mop) : option bool :=
  let v := goval v0 in                       (* an absent field compares as null *)
  match o with
  | MEq a => Some (jeq v a)
  | MNe a => Some (negb (jeq v a))
  | MGt a => Some (is_gt (mcmp v a))
  | MGte a => Some (is_ge (mcmp v a))
  | MLt a => Some (is_lt (mcmp v a))
  | MLte a => Some (is_le (mcmp v a))
  | MIn (JList l) => Some (existsb (jeq v) l)
  | MIn _ => None                            (* $in needs an array *)
  | MElemEq a => Some (match v with JList l => existsb (fun x => jeq x a) l | _ => false end)
  | MNot o' => match mop_eval v0 o' with Some b => Some (negb b) | None => None end
  | MOpUnknown => None
  end.

Section MEval.
  Variable mget : string -> option jv.       (* dotted-path lookup in the stored document *)
  Fixpoint meval (f : mfilter) : option bool :=
    match f with
    | MAll => Some true
    | MField k o => mop_eval (mget k) o
    | MAnd [] | MOr [] => None               (* $and/$or/$nor must be a nonempty array *)
    | MAnd l => fold_right (fun x acc => match meval x, acc with Some a, Some b => Some (a && b) | _, _ => None end) (Some true) l
    | MOr l => fold_right (fun x acc => match meval x, acc with Some a, Some b => Some (a || b) | _, _ => None end) (Some false) l
    | MUnknown => None
    end.
End MEval.

(* the stored document of an element: {_id, label, from, to, data} *)
Definition mdoc (e : element) : jv :=
  JMap [("_id", JStr (e_gid e)); ("label", JStr (e_label e)); ("to", JStr (e_to e)); ("from", JStr (e_from e));
        ("data", JMap (e_data e))].
Definition mget_doc (e : element) (path : string) : option jv := dig_map (mdoc e) (split_dot path).

(* ---- where the two sides are comparable ---- *)
Definition is_num (v : jv) : bool := match v with JNum _ => true | _ => false end.
Definition numeric_text (v : option jv) : bool :=
  match v with Some (JStr s) => match parse_float s with Some _ => true | None => false end | _ => false end.
Definition scalar (v : option jv) : bool := match v with Some (JList _) | Some (JMap _) => false | _ => true end.
Section Guard.
  Variable look : string -> option jv.
  (* ordering tests: the core engine reads numeric text as a number and refuses booleans and null; the server
     compares within a type bracket. They agree when the operand is a number and the field is not numeric text *)
  Definition ord_ok (k : string) (a : jv) : bool := is_num a && negb (numeric_text (look k)).
  Fixpoint guard (e : hexpr) : bool :=
    match e with
    | HCond k (CGt | CGte | CLt | CLte) a => ord_ok k a && scalar (look k)
    | HCond k (CInside | COutside | CBetween) a =>
        scalar (look k) && match a with JList [lo; hi] => ord_ok k lo && ord_ok k hi | _ => true end
    | HCond k _ a => scalar (look k)
    | HAnd es | HOr es => forallb guard es
    | HNot x => guard x
    | HUnset => true
    end.
End Guard.
