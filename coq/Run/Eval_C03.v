(* Correspondence evaluator for C03 / C04: a history of mutating calls (plus restart / crash markers),
   observed after every step through the read API over a fixed small universe. *)
From Coq Require Import List NArith Bool Arith.
Import ListNotations.
From Grip Require Export Model.Bytes Model.KVGraph.
From Grip Require Import Model.Keys.

Inductive hop :=
| HOp (o : op)
| HRestart                       (* close and reopen the store *)
| HCrash (o : op) (n : nat).     (* issue only the first n top-level writes of o, then reopen *)

Definition item := list N.
Definition query := list item.

Fixpoint ins (x : item) (l : list item) : list item :=
  match l with [] => [x] | y :: r => if bleb x y then x :: y :: r else y :: ins x r end.
Definition sort_items (l : list item) : list item := fold_right ins [] l.

Definition U_graphs : list id := [1; 2]%N.
Definition U_ids : list id := [1; 2; 3]%N.
Definition U_filters : list (list id) := [[]; [1]; [2]; [2; 1]]%N.
Definition U_labels : list id := [1; 2]%N.

Definition vitem (x : id * (id * dat)) : item := [fst x; fst (snd x); snd (snd x)].
(* an adjacency key without its edge record is read back as an empty, unloaded edge *)
Definition eitem (x : etup * option dat) : item :=
  match snd x with
  | Some d => [et_e (fst x); et_s (fst x); et_d (fst x); et_l (fst x); d]
  | None => [0; 0; 0; 0; 999]%N
  end.

(* which query kinds a query belongs to (for known-finding masks) *)
Inductive qkind := QExists | QVList | QEList | QGetV | QGetE | QAdjV | QAdjE | QVLabels | QELabels | QLookup.

Definition observe_graph (s : gstore) (g : id) : list (qkind * query) :=
  if has_graph s g then
    [(QExists, [[1%N]]);
     (QVList, sort_items (map vitem (vertex_list s g)));
     (QEList, sort_items (map (fun x => eitem (fst x, Some (snd x))) (edge_list s g)))]
    ++ map (fun v => (QGetV, match get_vertex s g v with Some (l, d) => [[l; d]] | None => [] end)) U_ids
    ++ map (fun e => (QGetE, sort_items (map (fun x => eitem (fst x, Some (snd x))) (get_edges_by_id s g e)))) U_ids
    ++ flat_map (fun v => flat_map (fun ls =>
         [(QAdjV, sort_items (map vitem (out_verts s g v ls)));
          (QAdjV, sort_items (map vitem (in_verts s g v ls)));
          (QAdjE, sort_items (map eitem (out_edges s g v ls)));
          (QAdjE, sort_items (map eitem (in_edges s g v ls)))]) U_filters) U_ids
    ++ [(QVLabels, sort_items (map (fun l => [l]) (label_terms s (g, true))));
        (QELabels, sort_items (map (fun l => [l]) (label_terms s (g, false))))]
    ++ map (fun l => (QLookup, sort_items (map vitem (label_lookup s g l)))) U_labels
  else [(QExists, [[0%N]])].

Definition observe_model (s : gstore) : list (qkind * query) := flat_map (observe_graph s) U_graphs.

(* the same observations on the abstract graph database *)
Definition a_eitem (x : (id * id) * (id * id * id * dat)) : item :=
  [snd (fst x); ae_from x; ae_to x; ae_label x; ae_data x].
Fixpoint dedup (l : list item) : list item :=
  match l with [] => [] | x :: r => if existsb (beqb x) r then dedup r else x :: dedup r end.
Definition a_observe_graph (a : aspec) (g : id) : list (qkind * query) :=
  if a_has_graph a g then
    [(QExists, [[1%N]]);
     (QVList, sort_items (map vitem (a_vertex_list a g)));
     (QEList, sort_items (map a_eitem (a_edge_list a g)))]
    ++ map (fun v => (QGetV, match a_get_vertex a g v with Some (l, d) => [[l; d]] | None => [] end)) U_ids
    ++ map (fun e => (QGetE, sort_items (map a_eitem (filter (fun x => N.eqb e (snd (fst x))) (a_edge_list a g))))) U_ids
    ++ flat_map (fun v => flat_map (fun ls =>
         [(QAdjV, sort_items (map vitem (a_out_verts a g v ls)));
          (QAdjV, sort_items (map vitem (a_in_verts a g v ls)));
          (QAdjE, sort_items (map a_eitem (a_out_edges a g v ls)));
          (QAdjE, sort_items (map a_eitem (a_in_edges a g v ls)))]) U_filters) U_ids
    ++ [(QVLabels, sort_items (dedup (map (fun x => [fst (snd x)]) (a_vertex_list a g))));
        (QELabels, sort_items (dedup (map (fun x => [ae_label x]) (a_edge_list a g))))]
    ++ map (fun l => (QLookup, sort_items (map vitem (a_label_lookup a g l)))) U_labels
  else [(QExists, [[0%N]])].
Definition observe_spec (a : aspec) : list (qkind * query) := flat_map (a_observe_graph a) U_graphs.

(* ---------- running a history ---------- *)
Record hstate := {
  h_m : mstate;        (* model of the implementation *)
  h_a : aspec;         (* abstract specification *)
  h_gh : option ghost; (* None once an element id was re-added differently (known-finding region) *)
  h_relabel : bool;    (* a vertex id was re-added with a different label *)
  h_reedge : bool;     (* an edge id was re-added with different endpoints / label *)
  h_deleted : bool     (* some vertex / edge deletion happened (label listings may be stale) *)
}.
Definition hinit := {| h_m := minit; h_a := aempty; h_gh := Some gh_empty; h_relabel := false; h_reedge := false; h_deleted := false |}.

Definition is_delete (o : op) := match o with ODelVertex _ _ | ODelEdge _ _ => true | _ => false end.

Definition elems_of (o : op) : list (id * elem) :=
  match o with
  | OAddVertex g v l d => if valid_vertex v l d then [(g, EV v l d)] else []
  | OAddEdge g e s t l d => if valid_edge e s t l d then [(g, EE e s t l d)] else []
  | OBulkAdd g els => map (fun x => (g, x)) (filter valid_elem els)
  | _ => []
  end.
Fixpoint scan_elems (h : ghost) (xs : list (id * elem)) (rv re : bool) : ghost * bool * bool :=
  match xs with
  | [] => (h, rv, re)
  | (g, x) :: r =>
      let ok := gh_elem_ok g h x in
      let rv' := match x with EV _ _ _ => rv || negb ok | _ => rv end in
      let re' := match x with EE _ _ _ _ _ => re || negb ok | _ => re end in
      scan_elems (gh_add g h x) r rv' re'
  end.

(* per step: (op succeeded?, which graphs' timestamps changed, observations) *)
(* so_stale: a graph reported a timestamp it had reported earlier in the history while its content was different (never, in the
   model and in the specification: a client that revalidates by timestamp must not be served stale results, restarts included) *)
Record stepobs := { so_ok : bool; so_ts : list bool; so_stale : bool; so_q : list query }.

(* the timestamp of a graph is only observable while the graph exists *)
Definition ts_obs (m : mstate) (g : id) : option nat := if has_graph (kv m) g then ts_of m g else None.
Definition ts_changed (m m' : mstate) : list bool :=
  map (fun g => negb (match ts_obs m g, ts_obs m' g with
                      | Some a, Some b => Nat.eqb a b | None, None => true | _, _ => false end)) U_graphs.

Definition hstep (h : hstate) (x : hop) : hstate * (stepobs * stepobs * stepobs * list qkind) :=
  match x with
  | HOp o =>
      let '(m', ok) := step (h_m h) o in
      let '(a', aok) := a_step (h_a h) o in
      let gh0 := match h_gh h with Some g => g | None => gh_empty end in
      let '(gh1, rv, re) := scan_elems gh0 (if ok then elems_of o else []) (h_relabel h) (h_reedge h) in
      let gh2 := match o with
                 | ODeleteGraph g => if ok then {| gh_v := filter (fun y => negb (N.eqb g (fst (fst y)))) (gh_v gh1);
                                                  gh_e := filter (fun y => negb (N.eqb g (fst (fst y)))) (gh_e gh1) |} else gh1
                 | _ => gh1 end in
      let h' := {| h_m := m'; h_a := a'; h_gh := Some gh2; h_relabel := rv; h_reedge := re;
                   h_deleted := h_deleted h || (ok && is_delete o) |} in
      let qs := observe_model (kv m') in
      (h', ({| so_ok := ok; so_ts := ts_changed (h_m h) m'; so_stale := false; so_q := map snd qs |},
            {| so_ok := aok; so_ts := map (fun g => aok && N.eqb g (op_graph o)) U_graphs; so_stale := false; so_q := map snd (observe_spec a') |},
            {| so_ok := aok; so_ts := map (fun g => aok && N.eqb g (op_graph o)) U_graphs; so_stale := false; so_q := map snd (observe_spec a') |},
            map fst qs))
  | HRestart =>
      let m' := reopen (kv (h_m h)) in
      let qs := observe_model (kv m') in
      ({| h_m := m'; h_a := h_a h; h_gh := h_gh h; h_relabel := h_relabel h; h_reedge := h_reedge h; h_deleted := h_deleted h |},
       ({| so_ok := true; so_ts := []; so_stale := false; so_q := map snd qs |},
        {| so_ok := true; so_ts := []; so_stale := false; so_q := map snd (observe_spec (h_a h)) |},
        {| so_ok := true; so_ts := []; so_stale := false; so_q := map snd (observe_spec (h_a h)) |}, map fst qs))
  | HCrash o n =>
      let m' := crash (h_m h) o n in
      let qs := observe_model (kv m') in
      (* specification after a crash: the abstract state before the call (sp) or after it (sp2);
         the model continues from whichever the model's own crash state denotes *)
      let a_after := fst (a_step (h_a h) o) in
      let done := match op_calls (h_m h) o with Some cs => length cs <=? n | None => false end in
      (* a call whose writes all happened before the crash has re-added what it re-adds: the regions of the known
         findings advance exactly as for the completed call *)
      let ok := snd (step (h_m h) o) in
      let gh0 := match h_gh h with Some g => g | None => gh_empty end in
      let '(gh1, rv, re) := scan_elems gh0 (if done && ok then elems_of o else []) (h_relabel h) (h_reedge h) in
      let gh2 := match o with
                 | ODeleteGraph g => if done && ok then {| gh_v := filter (fun y => negb (N.eqb g (fst (fst y)))) (gh_v gh1);
                                                          gh_e := filter (fun y => negb (N.eqb g (fst (fst y)))) (gh_e gh1) |} else gh1
                 | _ => gh1 end in
      ({| h_m := m'; h_a := if done then a_after else h_a h; h_gh := if done then Some gh2 else h_gh h; h_relabel := rv; h_reedge := re;
          h_deleted := h_deleted h || (done && is_delete o) |},
       ({| so_ok := true; so_ts := []; so_stale := false; so_q := map snd qs |},
        {| so_ok := true; so_ts := []; so_stale := false; so_q := map snd (observe_spec (h_a h)) |},
        {| so_ok := true; so_ts := []; so_stale := false; so_q := map snd (observe_spec a_after) |}, map fst qs))
  end.

Fixpoint hrun (h : hstate) (xs : list hop) : list (hstate * (stepobs * stepobs * stepobs * list qkind)) :=
  match xs with
  | [] => []
  | x :: r => let (h', o) := hstep h x in (h', o) :: hrun h' r
  end.

(* ---------- comparison ---------- *)
Definition item_eqb (a b : item) := beqb a b.
Fixpoint list_eqb {X} (e : X -> X -> bool) (a b : list X) : bool :=
  match a, b with [], [] => true | x :: r, y :: r' => e x y && list_eqb e r r' | _, _ => false end.
Definition query_eqb := list_eqb item_eqb.

(* known-finding masks: which query kinds are exempt from the SPEC comparison in which region *)
Definition masked (h : hstate) (k : qkind) : option nat :=
  match k with
  | QLookup => if h_relabel h then Some 1 else None
  | QVLabels => if h_relabel h || h_deleted h then Some 3 else None
  | QELabels => if h_reedge h || h_deleted h then Some 3 else None
  | QEList | QGetE | QAdjV | QAdjE => if h_reedge h then Some 2 else None
  | _ => None
  end.
(* GetEdge with duplicate records returns whichever key sorts last: not compared with the model there *)
Definition model_skip (h : hstate) (k : qkind) : bool := match k with QGetE => h_reedge h | _ => false end.

(* ---------- the crash clause of C04 on the real keys, for graphs beyond the three-id universe of the histories ----------
   Every by-source and by-destination entry names an edge record that exists, and every edge record has both entries
   (keys of kvgraph/keys.go, parsed at their separator bytes and rebuilt with the constructors of Model/Keys.v:
   keys_consistent there; what the check means for NUL-free components is C04_key_check_edge / _entry). *)
Example keys_consistent_sane :
  let g := [103; 49]%N in let e := [101; 49]%N in let a := [97]%N in let b := [98]%N in let l := [76]%N in
  keys_consistent [vertex_key g a; edge_key g e a b l; src_key g a b e l; dst_key g a b e l] = true /\
  keys_consistent [edge_key g e a b l; dst_key g a b e l] = false /\          (* an edge record without its by-source entry *)
  keys_consistent [vertex_key g a; src_key g a b e l] = false /\              (* an entry whose edge record is gone *)
  keys_consistent [dst_key g a b e l; edge_key g e b a l; src_key g b a e l] = false.  (* entries of another edge *)
Proof. vm_compute. auto. Qed.

(* ckeys: raw key dumps of a store reopened after a crash inside a call (each must be consistent); [] for plain histories *)
Record c03_case := { chist : list hop; cobs : list stepobs; ckeys : list (list bytes) }.

Fixpoint zip3 {A B C} (a : list A) (b : list B) (c : list C) : list (A * B * C) :=
  match a, b, c with x :: a', y :: b', z :: c' => (x, y, z) :: zip3 a' b' c' | _, _, _ => [] end.

Definition obs_flags_eqb (a b : stepobs) : bool :=
  Bool.eqb (so_ok a) (so_ok b) && list_eqb Bool.eqb (so_ts a) (so_ts b) && Bool.eqb (so_stale a) (so_stale b).

(* GetEdge observed = at most one record; with duplicates the model lists all: compare as membership *)
Definition q_agree (k : qkind) (model observed : query) : bool :=
  match k with
  | QGetE => match observed with
             | [] => match model with [] => true | _ => false end
             | [x] => existsb (item_eqb x) model
             | _ => false end
  | _ => query_eqb model observed
  end.

Definition step_mismatch (h : hstate) (mo : stepobs) (ks : list qkind) (ob : stepobs) : bool :=
  negb (obs_flags_eqb mo ob && (length (so_q mo) =? length (so_q ob)) &&
        forallb (fun t => let '(k, m, o) := t in model_skip h k || q_agree k m o) (zip3 ks (so_q mo) (so_q ob))).

(* the success flag of DelEdge in the region of known finding 2: a second, stale record of the edge id may still be
   in the store when the abstract graph has lost the edge (e.g. through the cascade of a vertex deletion) *)
Definition flags_masked (h : hstate) (x : hop) : bool :=
  match x with HOp (ODelEdge _ _) => h_reedge h | _ => false end.

(* spec: flags must agree (except after restart / crash where only observations count) *)
Definition step_specviol (h : hstate) (x : hop) (sp : stepobs) (ks : list qkind) (ob : stepobs) : bool :=
  negb ((match x with HOp _ => flags_masked h x || obs_flags_eqb sp ob | _ => true end) && (length (so_q sp) =? length (so_q ob)) &&
        forallb (fun t => let '(k, s, o) := t in match masked h k with Some _ => true | None => q_agree k s o end)
                (zip3 ks (so_q sp) (so_q ob))).

Definition step_known (h : hstate) (x : hop) (sp : stepobs) (ks : list qkind) (ob : stepobs) : list nat :=
  (if flags_masked h x && negb (obs_flags_eqb sp ob) then [2] else []) ++
  flat_map (fun t => let '(k, s, o) := t in
                     match masked h k with Some c => if q_agree k s o then [] else [c] | None => [] end)
           (zip3 ks (so_q sp) (so_q ob)).

(* after a crash the observable state must be the abstract state before the call or after it;
   DeleteGraph / AddGraph issue several top-level writes: an in-between state there is known finding 4 *)
Definition multi_call (o : op) := match o with ODeleteGraph _ | OAddGraph _ => true | _ => false end.

Fixpoint walk (rs : list (hstate * (stepobs * stepobs * stepobs * list qkind))) (xs : list hop) (obs : list stepobs)
  : bool * bool * list nat :=
  match rs, xs, obs with
  | (h, (mo, sp, sp2, ks)) :: rs', x :: xs', ob :: obs' =>
      let '(mm, sv, kf) := walk rs' xs' obs' in
      match x with
      | HCrash o _ =>
          let bad := step_specviol h x sp ks ob && step_specviol h x sp2 ks ob in
          (mm || step_mismatch h mo ks ob,
           sv || (bad && negb (multi_call o)),
           (if bad && multi_call o then [4] else []) ++
           (match step_known h x sp ks ob, step_known h x sp2 ks ob with
            | _ :: _, (_ :: _) as k2 => k2       (* neither candidate state agrees without a mask: the finding shows *)
            | _, _ => [] end) ++ kf)
      | _ =>
          (mm || step_mismatch h mo ks ob, sv || step_specviol h x sp ks ob, step_known h x sp ks ob ++ kf)
      end
  | [], [], [] => (false, false, [])
  | _, _, _ => (true, true, [])
  end.

Definition eval_case (c : c03_case) : bool * bool * list nat :=
  let '(mm, sv, kf) := walk (hrun hinit (chist c)) (chist c) (cobs c) in
  let bad := negb (forallb keys_consistent (ckeys c)) in
  (mm || bad, sv || bad, kf).

Fixpoint idx_where {X} (p : X -> bool) (i : nat) (l : list X) : list nat :=
  match l with [] => [] | x :: r => if p x then i :: idx_where p (S i) r else idx_where p (S i) r end.
Fixpoint nodup_nat (l : list nat) : list nat :=
  match l with [] => [] | x :: r => if existsb (Nat.eqb x) r then nodup_nat r else x :: nodup_nat r end.

Definition mismatches (cs : list c03_case) := idx_where (fun c => fst (fst (eval_case c))) 0 cs.
Definition spec_violations (cs : list c03_case) := idx_where (fun c => snd (fst (eval_case c))) 0 cs.
Definition known_classes (cs : list c03_case) : list nat := nodup_nat (flat_map (fun c => snd (eval_case c)) cs).

Definition explain (c : c03_case) :=
  map (fun r => let '(h, (mo, sp, sp2, ks)) := r in (so_ok mo, so_ts mo, so_q mo, so_ok sp, so_ts sp, so_q sp)) (hrun hinit (chist c)).
