From Coq Require Import List String Bool Lia.
Import ListNotations.
From Grip Require Import Model.Json Model.Has Model.Traversal Model.Gripper.
Local Open Scope string_scope.

Lemma flat_map_length_sum {A B} (f : A -> list B) l : List.length (flat_map f l) = fold_right (fun x acc => List.length (f x) + acc) 0 l.
Proof. induction l as [|x r IH]; [reflexivity|]. cbn. rewrite app_length, IH. reflexivity. Qed.

(* exactly one vertex per row of every mapped vertex table, carrying prefix + row id, the mapped label, the row *)
Theorem vertices_exact m :
  gv (materialise m) = flat_map (fun vm => map (vertex_of vm) (table_rows m (vm_table vm))) (m_vertices m) /\
  List.length (gv (materialise m)) = fold_right (fun vm acc => List.length (table_rows m (vm_table vm)) + acc) 0 (m_vertices m) /\
  (forall v, In v (gv (materialise m)) -> exists vm r, In vm (m_vertices m) /\ In r (table_rows m (vm_table vm)) /\
      v_id v = vm_prefix vm ++ fst r /\ v_label v = vm_label vm /\ v_data v = snd r).
Proof.
  split; [reflexivity|]. split.
  - cbn [materialise gv]. rewrite flat_map_length_sum. induction (m_vertices m) as [|vm r IH]; [reflexivity|]. cbn. rewrite map_length, IH. reflexivity.
  - intros v Hin. cbn [materialise gv] in Hin. apply in_flat_map in Hin as [vm [Hvm Hin]]. apply in_map_iff in Hin as [r [<- Hr]].
    exists vm, r. cbn. auto.
Qed.

Lemma edge_of_valid em r : List.length (edge_of em r) = if valid_link em r then 1 else 0.
Proof.
  unfold edge_of, valid_link. destruct (field_string r (em_from_field em)) as [f|]; [|reflexivity].
  destruct (field_string r (em_to_field em)) as [t|]; [|reflexivity].
  destruct (String.eqb f ""), (String.eqb t ""); reflexivity.
Qed.

(* exactly one edge per link row whose two endpoint fields are non-empty strings *)
Theorem edges_exact m :
  List.length (ge (materialise m)) =
  fold_right (fun em acc => List.length (filter (valid_link em) (table_rows m (em_table em))) + acc) 0 (m_edges m) /\
  (forall e, In e (ge (materialise m)) -> exists em r f t, In em (m_edges m) /\ In r (table_rows m (em_table em)) /\
      field_string r (em_from_field em) = Some f /\ field_string r (em_to_field em) = Some t /\ f <> "" /\ t <> "" /\
      ed_from e = em_from em ++ f /\ ed_to e = em_to em ++ t /\ ed_label e = em_label em /\ ed_data e = snd r).
Proof.
  split.
  - cbn [materialise ge]. rewrite flat_map_length_sum. induction (m_edges m) as [|em r IH]; [reflexivity|]. cbn [fold_right]. rewrite <- IH. f_equal.
    rewrite flat_map_length_sum. induction (table_rows m (em_table em)) as [|x xs IHx]; [reflexivity|]. cbn [fold_right filter].
    rewrite edge_of_valid, IHx. destruct (valid_link em x); reflexivity.
  - intros e Hin. cbn [materialise ge] in Hin. apply in_flat_map in Hin as [em [Hem Hin]]. apply in_flat_map in Hin as [r [Hr Hin]].
    unfold edge_of in Hin. destruct (field_string r (em_from_field em)) as [f|] eqn:Ef; [|destruct Hin].
    destruct (field_string r (em_to_field em)) as [t|] eqn:Et; [|destruct Hin].
    destruct (String.eqb_spec f ""); [destruct Hin|]. destruct (String.eqb_spec t ""); [destruct Hin|].
    destruct Hin as [<-|[]]. exists em, r, f, t. cbn. repeat split; auto.
Qed.

(* the driver's label-scan plan reads exactly the vertices a full scan followed by hasLabel keeps *)
Theorem label_scan_is_filter m ls :
  label_scan m ls = filter (fun v => mem_str (v_label v) ls) (gv (materialise m)).
Proof.
  unfold label_scan. cbn [materialise gv]. induction (m_vertices m) as [|vm r IH]; [reflexivity|].
  cbn [flat_map]. rewrite filter_app, <- IH. f_equal.
  induction (table_rows m (vm_table vm)) as [|x xs IHx]; [destruct (mem_str (vm_label vm) ls); reflexivity|].
  cbn [map filter vertex_of v_label]. destruct (mem_str (vm_label vm) ls) eqn:E; cbn [map] in *; [f_equal; exact IHx|exact IHx].
Qed.

Lemma edge_of_label em r e : In e (edge_of em r) -> ed_label e = em_label em.
Proof.
  unfold edge_of. destruct (field_string r (em_from_field em)); [|intros []]. destruct (field_string r (em_to_field em)); [|intros []].
  destruct (_ || _); [intros []|]. intros [<-|[]]. reflexivity.
Qed.
Lemma filter_all {X} (f : X -> bool) l : (forall x, In x l -> f x = true) -> filter f l = l.
Proof. induction l as [|x r IH]; intros H; [reflexivity|]. cbn. rewrite (H x (or_introl eq_refl)), IH; [reflexivity|]. intros y Hy; apply H; right; exact Hy. Qed.
Lemma filter_none {X} (f : X -> bool) l : (forall x, In x l -> f x = false) -> filter f l = [].
Proof. induction l as [|x r IH]; intros H; [reflexivity|]. cbn. rewrite (H x (or_introl eq_refl)). apply IH. intros y Hy; apply H; right; exact Hy. Qed.

Theorem edge_label_scan_is_filter m ls :
  edge_label_scan m ls = filter (fun e => mem_str (ed_label e) ls) (ge (materialise m)).
Proof.
  unfold edge_label_scan. cbn [materialise ge]. induction (m_edges m) as [|em r IH]; [reflexivity|].
  cbn [flat_map]. rewrite filter_app, <- IH. f_equal.
  destruct (mem_str (em_label em) ls) eqn:E.
  - symmetry. apply filter_all. intros e He. apply in_flat_map in He as [x [_ He]]. rewrite (edge_of_label _ _ _ He). exact E.
  - symmetry. apply filter_none. intros e He. apply in_flat_map in He as [x [_ He]]. rewrite (edge_of_label _ _ _ He). exact E.
Qed.
