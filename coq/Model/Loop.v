(* mark/jump loops (property C12): engine/logic/jump.go JumpMark.Process / Jump.Process with the unbounded
   queue of engine/queue/queue.go between them, for one jump per mark.
   The loop body (order-preserving steps, signals passed through in FIFO order) and the jump are one FIFO
   segment [chA]: a traveler popped at its far end has gone through the body (body t) and the jump's test.
   [Q] is the jump -> mark queue. The mark "sees nothing" on its jump input at any time, whatever Q holds:
   its polls race with the queue's goroutines, so every decision it takes on silence is always enabled. *)
From Coq Require Import List Arith Bool Permutation Lia.
Import ListNotations.

Section Loop.
  Variable T : Type.
  Variable body : T -> list T.      (* the travelers one pass of the loop body makes of a traveler *)
  Variable cond : T -> bool.        (* the jump condition *)
  Variable emit : bool.
  Variable rank : T -> nat.         (* counters bound the depth: a traveler that jumps again has a smaller rank *)

  Inductive msg := MT (t : T) | MSig.
  Inductive phase := P1 | P2 | PClosed.   (* main input open / closing phase / output closed *)

  Record lst := {
    l_inp : list T;                 (* main input still to come *)
    l_phase : phase;
    l_chA : list msg;               (* mark -> body -> jump, oldest first *)
    l_Q : list msg;                 (* jump -> mark, oldest first *)
    l_active : bool; l_outdated : bool; l_rc : bool;   (* signalActive, signalOutdated, returnCount = 1 *)
    l_out : list T }.               (* what the jump has emitted downstream *)

  Definition emitted (ys : list T) : list T := if emit then ys else [].
  Definition requeue (ys : list T) : list msg := map MT (filter cond ys).

  Inductive lstep : lst -> lst -> Prop :=
  | M_in t r ph chA Q a o rc out : ph = P1 ->
      lstep (Build_lst (t :: r) ph chA Q a o rc out) (Build_lst r ph (chA ++ [MT t]) Q a o rc out)
  | M_inclose chA Q a o rc out :
      lstep (Build_lst [] P1 chA Q a o rc out) (Build_lst [] P2 chA Q a o rc out)
  | M_recvT inp ph t q chA a o rc out : ph <> PClosed ->
      lstep (Build_lst inp ph chA (MT t :: q) a o rc out)
            (Build_lst inp ph (chA ++ [MT t]) q a (match ph with P2 => o || a | _ => o end) rc out)
  | M_recvS inp q chA a o rc out :
      lstep (Build_lst inp P2 chA (MSig :: q) a o rc out) (Build_lst inp P2 chA q a o true out)
  | M_send inp chA Q a o rc out : (a = false /\ o = false) \/ (o = true /\ rc = true) ->
      lstep (Build_lst inp P2 chA Q a o rc out) (Build_lst inp P2 (chA ++ [MSig]) Q true false false out)
  | M_close inp chA Q out :
      lstep (Build_lst inp P2 chA Q true false true out) (Build_lst inp PClosed chA Q true false true out)
  | J_T inp ph t r Q a o rc out :
      lstep (Build_lst inp ph (MT t :: r) Q a o rc out)
            (Build_lst inp ph r (Q ++ requeue (body t)) a o rc (out ++ emitted (body t)))
  | J_S inp ph r Q a o rc out :
      lstep (Build_lst inp ph (MSig :: r) Q a o rc out) (Build_lst inp ph r (Q ++ [MSig]) a o rc out).

  Definition lstart (inp : list T) : lst := Build_lst inp P1 [] [] false false false [].

  Inductive lreach (inp : list T) : lst -> Prop :=
  | lr_start : lreach inp (lstart inp)
  | lr_step s s' : lreach inp s -> lstep s s' -> lreach inp s'.

  (* ---- the iterative definition: what a traveler entering at the mark eventually emits ---- *)
  Fixpoint fut (n : nat) (t : T) : list T :=
    match n with
    | 0 => []
    | S n' => emitted (body t) ++ flat_map (fut n') (filter cond (body t))
    end.
  Definition F (t : T) : list T := fut (S (rank t)) t.
  Definition loop_spec (inp : list T) : list T := flat_map F inp.

  (* steps a traveler entering at the mark still causes *)
  Fixpoint hops (n : nat) (t : T) : nat :=
    match n with
    | 0 => 0
    | S n' => 2 + fold_right (fun y acc => hops n' y + acc) 0 (filter cond (body t))
    end.
  Definition H (t : T) : nat := hops (S (rank t)) t.

  Definition travs (l : list msg) : list T := flat_map (fun m => match m with MT t => [t] | MSig => [] end) l.
  Definition nsig (l : list msg) : nat := length (filter (fun m => match m with MSig => true | _ => false end) l).
  Definition has_sig (l : list msg) : bool := existsb (fun m => match m with MSig => true | _ => false end) l.
End Loop.

Arguments MT {T}. Arguments MSig {T}. Arguments lstep {T}. Arguments lreach {T}. Arguments lstart {T}.
Arguments loop_spec {T}. Arguments F {T}. Arguments fut {T}. Arguments H {T}. Arguments hops {T}.
Arguments travs {T}. Arguments nsig {T}. Arguments has_sig {T}. Arguments emitted {T}. Arguments requeue {T}.
Arguments Build_lst {T}. Arguments l_inp {T}. Arguments l_phase {T}. Arguments l_chA {T}. Arguments l_Q {T}.
Arguments l_active {T}. Arguments l_outdated {T}. Arguments l_rc {T}. Arguments l_out {T}.

(* ---------- an executable run of the same system under a parameterised scheduler ---------- *)
Section LoopRun.
  Variable T : Type.
  Variable body : T -> list T.
  Variable cond : T -> bool.
  Variable emit : bool.
  (* the k-th decision: which of the enabled actions to prefer (0 mark-input, 1 mark-receive, 2 jump, 3 mark-silence) *)
  Variable pick : nat -> nat.
  Definition act (k : nat) (s : lst T) : option (lst T) :=
    let '(Build_lst inp ph chA Q a o rc out) := s in
    let m_in := match inp, ph with t :: r, P1 => Some (Build_lst r ph (chA ++ [MT t]) Q a o rc out)
                              | [], P1 => Some (Build_lst [] P2 chA Q a o rc out) | _, _ => None end in
    let m_recv := match Q, ph with
                  | MT t :: q, (P1 | P2) => Some (Build_lst inp ph (chA ++ [MT t]) q a (match ph with P2 => o || a | _ => o end) rc out)
                  | MSig :: q, P2 => Some (Build_lst inp P2 chA q a o true out)
                  | _, _ => None end in
    let jump := match chA with
                | MT t :: r => Some (Build_lst inp ph r (Q ++ requeue cond (body t)) a o rc (out ++ emitted emit (body t)))
                | MSig :: r => Some (Build_lst inp ph r (Q ++ [MSig]) a o rc out)
                | [] => None end in
    let silence := match ph with
                   | P2 => if (negb a && negb o) || (o && rc) then Some (Build_lst inp P2 (chA ++ [MSig]) Q true false false out)
                           else if a && negb o && rc then Some (Build_lst inp PClosed chA Q true false true out) else None
                   | _ => None end in
    let order := match k with 0 => [m_in; m_recv; jump; silence] | 1 => [m_recv; jump; silence; m_in]
                            | 2 => [jump; silence; m_in; m_recv] | _ => [silence; m_in; m_recv; jump] end in
    match filter (fun x => match x with Some _ => true | None => false end) order with
    | Some s' :: _ => Some s'
    | _ => None
    end.
  Fixpoint lrun (fuel : nat) (i : nat) (s : lst T) : lst T :=
    match fuel with
    | 0 => s
    | S f => match act (pick i) s with Some s' => lrun f (S i) s' | None => s end
    end.
End LoopRun.
Arguments lrun {T}. Arguments act {T}.
