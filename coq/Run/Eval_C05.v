(* Correspondence evaluator for C05: the real interceptors vs Model/Auth.v over the regenerated tables. *)
From Coq Require Import List String Bool.
Import ListNotations.
From Grip Require Export Model.AuthTypes Gen.AuthTables Model.Auth.
Local Open Scope string_scope.

Record c05_case := {
  cmethod : string; ckind : mkind;
  ccred : option string;                          (* the user the credentials validate as, if any *)
  cgraph : string;
  cgrants : list (string * string * op);          (* the policy: granted (user, graph, op) triples *)
  celems : list string;                           (* BulkAdd: graphs of the streamed elements *)
  cverdict : verdict;
  cenforce : list (string * string * op);         (* Enforce calls observed before the verdict *)
  creceived : option (list string)                (* BulkAdd: graphs of the elements the handler received *)
}.

Definition triple_eqb (a b : string * string * op) : bool :=
  String.eqb (fst (fst a)) (fst (fst b)) && String.eqb (snd (fst a)) (snd (fst b)) && op_eqb (snd a) (snd b).
Definition grants_of (c : c05_case) (u g : string) (o : op) : bool := existsb (triple_eqb (u, g, o)) (cgrants c).

Definition verdict_eqb (a b : verdict) : bool :=
  match a, b with Unauthenticated, Unauthenticated | Denied, Denied | Refused, Refused | RunsHandler, RunsHandler
  | RunsHandlerFiltered, RunsHandlerFiltered => true | _, _ => false end.

Fixpoint str_list_eqb (a b : list string) : bool :=
  match a, b with [] , [] => true | x :: r, y :: r' => String.eqb x y && str_list_eqb r r' | _, _ => false end.

Definition model_verdict (c : c05_case) : verdict :=
  serve string (option string) (fun md => md) (grants_of c) (cmethod c) (ckind c) (ccred c) (cgraph c).

Definition agrees (c : c05_case) : bool :=
  match model_verdict c, cverdict c with
  | RunsHandlerFiltered, RunsHandler =>
      (* the filtered handler ran: what it received must be the model's filter of the stream *)
      match ccred c, creceived c with
      | Some u, Some got =>
          str_list_eqb got (map fst (bulk_filter string (grants_of c) u (map (fun g => (g, tt)) (celems c))))
      | _, _ => false
      end
  | m, o => verdict_eqb m o
  end.

(* the property on the observation alone: the handler is reached only after validated credentials and an
   Enforce call for (user, graph of the request or "*", some op) that the policy grants; bulk elements received
   are all writable by the user *)
Definition spec_ok (c : c05_case) : bool :=
  match cverdict c with
  | RunsHandler =>
      match ccred c with
      | None => false
      | Some u =>
          match creceived c with
          | Some got => forallb (fun g => grants_of c u g OpWrite) got
                        && str_list_eqb got (filter (fun g => grants_of c u g OpWrite) (celems c))
          | None => existsb (fun e => String.eqb (fst (fst e)) u
                                      && (String.eqb (snd (fst e)) (cgraph c) || String.eqb (snd (fst e)) "*")
                                      && grants_of c u (snd (fst e)) (snd e)) (cenforce c)
          end
      end
  | _ => true
  end
  (* and an exposed method is callable when everything is granted *)
  && (if Nat.leb 30 (List.length (cgrants c))
      then match ccred c, lookup (cmethod c) (map (fun mk => (fst mk, snd mk)) exposed) with
           | Some _, Some _ => match cverdict c with RunsHandler => true | _ => false end
           | _, _ => true end
      else true).

(* the credential check itself: BasicAuth.Validate on a list of accounts and an authorization header *)
Inductive c05_any :=
| CServe (c : c05_case)
| CBasic (accounts : list (string * string)) (hdr : option (string * string)) (got : option string)
(* one CasbinAccess value, a policy file, a sequence of Enforce calls and the verdict of each *)
| CCasbin (policy : list (string * string * string)) (calls : list (string * string * string)) (got : list bool).

Definition ostr_eqb (a b : option string) : bool :=
  match a, b with Some x, Some y => String.eqb x y | None, None => true | _, _ => false end.
Definition basic_agrees (accounts : list (string * string)) (hdr : option (string * string)) (got : option string) : bool :=
  ostr_eqb (basic_validate accounts hdr) got.
(* on the observation alone: a user validates only if it is a configured account and its password was presented *)
Definition basic_spec_ok (accounts : list (string * string)) (hdr : option (string * string)) (got : option string) : bool :=
  match got with
  | None => true
  | Some u => match hdr with
              | Some (hu, hp) => String.eqb hu u && existsb (fun c => String.eqb (fst c) u && String.eqb (snd c) hp) accounts
              | None => false
              end
  end.

Fixpoint bools_eqb (a b : list bool) : bool :=
  match a, b with [], [] => true | x :: r, y :: r' => Bool.eqb x y && bools_eqb r r' | _, _ => false end.
Definition casbin_agrees (policy : list (string * string * string)) (calls : list (string * string * string)) (got : list bool) : bool :=
  bools_eqb (map (casbin_allows policy) calls) got.

Fixpoint idx_where {X} (p : X -> bool) (i : nat) (l : list X) : list nat :=
  match l with [] => [] | x :: r => if p x then i :: idx_where p (S i) r else idx_where p (S i) r end.
Definition mismatches (cs : list c05_any) :=
  idx_where (fun c => match c with CServe c => negb (agrees c) | CBasic a h g => negb (basic_agrees a h g)
                      | CCasbin p c g => negb (casbin_agrees p c g) end) 0 cs.
Definition spec_violations (cs : list c05_any) :=
  idx_where (fun c => match c with CServe c => negb (spec_ok c) | CBasic a h g => negb (basic_spec_ok a h g)
                      | CCasbin p c g => negb (casbin_agrees p c g) end) 0 cs.
Definition explain (c : c05_any) :=
  match c with
  | CServe c => (model_verdict c, agrees c, spec_ok c)
  | CBasic a h g => (match basic_validate a h with Some _ => RunsHandler | None => Unauthenticated end, basic_agrees a h g, basic_spec_ok a h g)
  | CCasbin p c g => (RunsHandler, casbin_agrees p c g, casbin_agrees p c g)
  end.
