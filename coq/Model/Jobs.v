(* Jobs (property C11): server/job_manager.go over jobstorage/storage.go.
   A job stores the travelers a traversal produced, with the result type and mark types of its pipeline;
   resuming compiles the extra statements from that type (CompileOptions.PipelineExtension) and feeds the
   stored travelers in; searching compares per-statement checksums. *)
From Coq Require Import List Arith Bool String.
Import ListNotations.
From Grip Require Import Model.Json Model.Has Model.Traversal.

(* ---------- resume ---------- *)
(* what Resume computes: the extension typed from the stored type, run on the stored travelers *)
Definition resume (g : graph) (stored_ty : tstate) (stored : list trav) (ext : list stmt) : option (tstate * list trav) :=
  run_from g stored_ty ext stored.

(* ---------- search ---------- *)
Section Match.
  Variable H : Type.                       (* per-statement checksum *)
  Variable heq : H -> H -> bool.
  (* jobstorage.JobMatch *)
  Fixpoint all_match (query job : list H) : bool :=
    match job, query with
    | [], _ => true
    | j :: jr, q :: qr => heq q j && all_match qr jr
    | _ :: _, [] => false
    end.
  Definition job_match (query job : list H) : bool :=
    (List.length job <=? List.length query) && (1 <? List.length job) && all_match query job.
End Match.
Arguments job_match {H}. Arguments all_match {H}.

Fixpoint is_prefix {X} (eqb : X -> X -> bool) (p l : list X) : bool :=
  match p, l with
  | [], _ => true
  | a :: p', b :: l' => eqb a b && is_prefix eqb p' l'
  | _ :: _, [] => false
  end.

(* ---------- the job table over a history ---------- *)
Inductive jact := ASubmit (id : nat) (prog : list stmt) | ADelete (id : nat) | ARestart.
Definition jtable := list (nat * list stmt).
Definition jstep (t : jtable) (a : jact) : jtable :=
  match a with
  | ASubmit id p => t ++ [(id, p)]
  | ADelete id => filter (fun j => negb (fst j =? id)) t
  | ARestart => t                       (* completed jobs are reloaded from their status files *)
  end.
Definition jrun (l : list jact) : jtable := fold_left jstep l [].
