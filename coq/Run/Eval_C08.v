From Coq Require Import List ZArith QArith String Bool.
Import ListNotations.
From Grip Require Export Model.Json Model.Has.

Record c08_case := { cdata : list (string * jv); cexpr : hexpr; cobs : bool }.

Definition elem_of (c : c08_case) : element := {| e_gid := "v1"; e_label := "L"; e_from := ""; e_to := ""; e_data := cdata c |}.
Definition look_in (e : element) (k : string) : option jv :=
  match dig (to_dict e) (json_path k) with
  | Some JNull => None          (* a JSON null reads back as Go nil, like a missing field *)
  | x => x
  end.

(* the documented meaning, evaluated independently of match_cond *)
Fixpoint doc_expr (look : string -> option jv) (e : hexpr) : bool :=
  match e with
  | HCond k op a => doc_cond (look k) op a
  | HAnd es => forallb (doc_expr look) es
  | HOr es => existsb (doc_expr look) es
  | HNot x => negb (doc_expr look x)
  | HUnset => false
  end.

Fixpoint idx_where {X} (p : X -> bool) (i : nat) (l : list X) : list nat :=
  match l with [] => [] | x :: r => if p x then i :: idx_where p (S i) r else idx_where p (S i) r end.
Definition mismatches (cs : list c08_case) :=
  idx_where (fun c => negb (Bool.eqb (match_expr (look_in (elem_of c)) (cexpr c)) (cobs c))) 0 cs.
Definition spec_violations (cs : list c08_case) :=
  idx_where (fun c => negb (Bool.eqb (doc_expr (look_in (elem_of c)) (cexpr c)) (cobs c))) 0 cs.
Definition explain (c : c08_case) := (match_expr (look_in (elem_of c)) (cexpr c), doc_expr (look_in (elem_of c)) (cexpr c)).
