From Coq Require Import List ZArith QArith Qround String Bool NArith Lia Arith.
Import ListNotations.
From Grip Require Import Model.Json Model.Agg.
Local Open Scope list_scope.

(* ---------- histogram: a value lies in bucket j*i exactly when j = floor(v/i) ---------- *)
Lemma bucket_range (i v : Q) (j : Z) : 0 < i ->
  (bidx i v = j <-> (inject_Z j * i <= v /\ v < inject_Z (j + 1) * i)).
Proof.
  intros Hi. unfold bidx.
  assert (~ i == 0) as Hne by (intros H; rewrite H in Hi; now apply Qlt_irrefl in Hi).
  assert (i * (v / i) == v) as E by (apply Qmult_div_r; auto).
  split.
  - intros <-. split.
    + rewrite <- E at 2. rewrite (Qmult_comm i). apply Qmult_le_compat_r; [apply Qfloor_le | now apply Qlt_le_weak].
    + rewrite <- E at 1. rewrite (Qmult_comm i). apply Qmult_lt_compat_r; auto. apply Qlt_floor.
  - intros [H1 H2].
    assert (inject_Z j <= v / i) as L1 by (apply Qle_shift_div_l; auto).
    assert (v / i < inject_Z (j + 1)) as L2 by (apply Qlt_shift_div_r; auto).
    apply Z.le_antisymm.
    + assert (Qfloor (v / i) < j + 1)%Z; [|lia].
      pose proof (Qfloor_le (v / i)) as Hf.
      assert (inject_Z (Qfloor (v / i)) < inject_Z (j + 1)) as Hlt by (eapply Qle_lt_trans; eauto).
      rewrite <- Zlt_Qlt in Hlt. exact Hlt.
    + rewrite <- (Qfloor_Z j). apply Qfloor_resp_le. exact L1.
Qed.

Lemma qmin_le a b : qmin a b <= a /\ qmin a b <= b.
Proof. unfold qmin. destruct (Qle_bool a b) eqn:E.
  - apply Qle_bool_iff in E. split; [apply Qle_refl|auto].
  - split; [|apply Qle_refl]. destruct (Qlt_le_dec b a) as [H|H]; [now apply Qlt_le_weak|].
    apply Qle_bool_iff in H. congruence. Qed.
Lemma qmax_ge a b : a <= qmax a b /\ b <= qmax a b.
Proof. unfold qmax. destruct (Qle_bool a b) eqn:E.
  - apply Qle_bool_iff in E. split; [auto|apply Qle_refl].
  - split; [apply Qle_refl|]. destruct (Qlt_le_dec b a) as [H|H]; [now apply Qlt_le_weak|].
    apply Qle_bool_iff in H. congruence. Qed.

Lemma fold_qmin_le r : forall v x, (x == v \/ In x r) -> fold_left qmin r v <= x.
Proof. induction r as [|y r IH]; simpl; intros v x H.
  - destruct H as [H|[]]. rewrite H. apply Qle_refl.
  - destruct H as [H|[H|H]].
    + eapply Qle_trans; [apply IH; left; reflexivity|]. rewrite H. apply qmin_le.
    + subst y. eapply Qle_trans; [apply IH; left; reflexivity|]. apply qmin_le.
    + apply IH. now right.
Qed.
Lemma fold_qmax_ge r : forall v x, (x == v \/ In x r) -> x <= fold_left qmax r v.
Proof. induction r as [|y r IH]; simpl; intros v x H.
  - destruct H as [H|[]]. rewrite H. apply Qle_refl.
  - destruct H as [H|[H|H]].
    + eapply Qle_trans; [|apply IH; left; reflexivity]. rewrite H. apply qmax_ge.
    + subst y. eapply Qle_trans; [|apply IH; left; reflexivity]. apply qmax_ge.
    + apply IH. now right.
Qed.

Lemma bidx_mono i a b : 0 < i -> a <= b -> (bidx i a <= bidx i b)%Z.
Proof. intros Hi H. unfold bidx. apply Qfloor_resp_le. unfold Qdiv. apply Qmult_le_compat_r; auto.
  apply Qlt_le_weak. now apply Qinv_lt_0_compat. Qed.

Local Close Scope Q_scope.
Local Open Scope nat_scope.

(* the buckets partition the values: each value is counted in exactly one bucket, the counts add up *)
Fixpoint sum_nat (l : list nat) : nat := match l with [] => 0 | x :: r => x + sum_nat r end.

Lemma indicator_sum (a : Z) (n : nat) (x : Z) : (a <= x < a + Z.of_nat n)%Z ->
  sum_nat (map (fun k => if Z.eqb x (a + Z.of_nat k)%Z then 1 else 0) (seq 0 n)) = 1.
Proof.
  revert a. induction n as [|n IH]; intros a H; [lia|].
  rewrite <- cons_seq. cbn [map sum_nat]. rewrite <- seq_shift, map_map.
  destruct (Z.eqb_spec x (a + Z.of_nat 0)%Z) as [E|E].
  - assert (sum_nat (map (fun k => if Z.eqb x (a + Z.of_nat (S k))%Z then 1 else 0) (seq 0 n)) = 0) as ->; auto.
    clear IH. assert (forall k, (x =? a + Z.of_nat (S k))%Z = false) as Hk by (intros; apply Z.eqb_neq; lia).
    induction (seq 0 n) as [|k l IHl]; cbn [map sum_nat]; auto. now rewrite Hk, IHl.
  - cbn [Nat.add]. specialize (IH (a + 1)%Z ltac:(lia)).
    erewrite map_ext; [exact IH|]. intros k. cbn beta. replace (a + 1 + Z.of_nat k)%Z with (a + Z.of_nat (S k))%Z by lia. reflexivity.
Qed.

Lemma sum_nat_add (f g : nat -> nat) l : sum_nat (map (fun k => f k + g k) l) = sum_nat (map f l) + sum_nat (map g l).
Proof. induction l; simpl; auto. rewrite IHl. lia. Qed.

Lemma count_sum i a n (vs : list Q) :
  Forall (fun v => (a <= bidx i v < a + Z.of_nat n)%Z) vs ->
  sum_nat (map (fun k => count_idx i (a + Z.of_nat k)%Z vs) (seq 0 n)) = List.length vs.
Proof.
  induction 1 as [|v vs Hv Hall IH]; unfold count_idx in *; cbn [filter List.length].
  - induction (seq 0 n); simpl; auto.
  - rewrite <- IH.
    transitivity (sum_nat (map (fun k => (if Z.eqb (bidx i v) (a + Z.of_nat k)%Z then 1 else 0)
                                         + List.length (filter (fun v0 => Z.eqb (bidx i v0) (a + Z.of_nat k)%Z) vs)) (seq 0 n))).
    + f_equal. apply map_ext. intros k. destruct (Z.eqb (bidx i v) (a + Z.of_nat k)); reflexivity.
    + rewrite sum_nat_add, indicator_sum; auto.
Qed.

(* histogram: every numeric value falls in exactly one emitted bucket; the counts add up to the number of
   numeric values; every key is a multiple of the interval *)
Theorem histogram_partition i vals : (0 < i)%Q ->
  sum_nat (map snd (histogram i vals)) = List.length (numeric_vals vals) /\
  (forall k c, In (k, c) (histogram i vals) -> exists j : Z, k = (inject_Z j * i)%Q /\ c = count_idx i j (numeric_vals vals)) /\
  (forall v, In v (numeric_vals vals) -> exists c, In ((inject_Z (bidx i v) * i)%Q, c) (histogram i vals)).
Proof.
  intros Hi. unfold histogram. destruct (numeric_vals vals) as [|v r] eqn:En.
  - simpl. repeat split; auto; intros; contradiction.
  - set (lo := fold_left qmin r v). set (hi := fold_left qmax r v).
    assert (forall x, In x (v :: r) -> (bidx i lo <= bidx i x <= bidx i hi)%Z) as Hb.
    { intros x Hx. split; apply bidx_mono; auto.
      - apply fold_qmin_le. destruct Hx as [<-|Hx]; [left; reflexivity|now right].
      - apply fold_qmax_ge. destruct Hx as [<-|Hx]; [left; reflexivity|now right]. }
    assert (bidx i lo <= bidx i hi)%Z as Hle by (destruct (Hb v (or_introl eq_refl)); lia).
    repeat split.
    + unfold zrange. rewrite !map_map. cbn [snd].
      apply count_sum. rewrite Forall_forall. intros x Hx. specialize (Hb x Hx). lia.
    + intros k c Hin. apply in_map_iff in Hin as [j [Hj _]]. inversion Hj; subst. eauto.
    + intros x Hx. exists (count_idx i (bidx i x) (v :: r)). apply in_map_iff. exists (bidx i x). split; auto.
      unfold zrange. apply in_map_iff. specialize (Hb x Hx).
      exists (Z.to_nat (bidx i x - bidx i lo)). split; [lia|]. apply in_seq. lia.
Qed.

(* term: one bucket per distinct scalar value, with its exact frequency *)
Definition count_val (k : jv) (vals : list aval) : nat :=
  List.length (filter (fun v => match v with Some x => is_scalar x && jeq x k | None => false end) vals).

Lemma jeq_refl_s k : is_scalar k = true -> jeq k k = true.
Proof. destruct k; simpl; try discriminate; intros _.
  - apply eqb_reflx.
  - apply Qeq_bool_iff. reflexivity.
  - apply String.eqb_refl. Qed.
Lemma jeq_sym_s a b : is_scalar a = true -> jeq a b = jeq b a.
Proof. destruct a, b; simpl; try discriminate; intros _; auto.
  - destruct b, b0; reflexivity.
  - destruct (Qeq_bool q q0) eqn:E1, (Qeq_bool q0 q) eqn:E2; auto.
    + apply Qeq_bool_iff in E1. symmetry in E1. apply Qeq_bool_iff in E1. congruence.
    + apply Qeq_bool_iff in E2. symmetry in E2. apply Qeq_bool_iff in E2. congruence.
  - apply String.eqb_sym. Qed.
Lemma jeq_trans_s a b c : is_scalar a = true -> jeq a b = true -> jeq b c = jeq a c.
Proof. destruct a, b; simpl; try discriminate; intros _ H; destruct c; simpl; auto.
  - apply eqb_prop in H. now subst.
  - apply Qeq_bool_iff in H. destruct (Qeq_bool q0 q1) eqn:E1, (Qeq_bool q q1) eqn:E2; auto.
    + apply Qeq_bool_iff in E1. assert (q == q1)%Q by (rewrite H; exact E1). apply Qeq_bool_iff in H0. congruence.
    + apply Qeq_bool_iff in E2. assert (q0 == q1)%Q by (rewrite <- H; exact E2). apply Qeq_bool_iff in H0. congruence.
  - apply String.eqb_eq in H. now subst. Qed.

Fixpoint lookup_cnt (k : jv) (acc : list (jv * nat)) : nat :=
  match acc with [] => 0 | (k', c) :: r => if jeq k k' then c else lookup_cnt k r end.
(* keys are scalars, pairwise different *)
Fixpoint keys_ok (acc : list (jv * nat)) : Prop :=
  match acc with
  | [] => True
  | (k, _) :: r => is_scalar k = true /\ Forall (fun e => jeq k (fst e) = false) r /\ keys_ok r
  end.

Lemma bump_keys x acc : is_scalar x = true -> keys_ok acc -> keys_ok (bump x acc) /\
  forall k, is_scalar k = true -> lookup_cnt k (bump x acc) = lookup_cnt k acc + (if jeq k x then 1 else 0).
Proof.
  intros Hx. induction acc as [|[k' c] r IH]; intros Hk.
  - simpl. split; [repeat split; auto|]. intros k _. destruct (jeq k x); reflexivity.
  - destruct Hk as [Hs [Hd Hr]]. cbn [bump]. destruct (jeq x k') eqn:E.
    + split; [cbn [keys_ok]; auto|]. intros k Hks. cbn [lookup_cnt].
      destruct (jeq k k') eqn:E2.
      * rewrite (jeq_sym_s k x Hks). rewrite <- (jeq_trans_s x k' k Hx E). rewrite (jeq_sym_s k' k Hs), E2. lia.
      * rewrite (jeq_sym_s k x Hks). rewrite <- (jeq_trans_s x k' k Hx E). rewrite (jeq_sym_s k' k Hs), E2. lia.
    + destruct (IH Hr) as [IH1 IH2]. split.
      * cbn [keys_ok]. repeat split; auto.
        clear - Hd E Hs Hx. induction r as [|[k2 c2] r IHr]; simpl.
        -- repeat constructor. simpl. rewrite (jeq_sym_s k' x Hs). exact E.
        -- inversion Hd; subst. simpl in H1. destruct (jeq x k2); constructor; simpl; auto.
      * intros k Hks. cbn [lookup_cnt]. destruct (jeq k k') eqn:E2.
        -- assert (jeq k x = false) as ->; [|lia].
           rewrite <- (jeq_trans_s k k' x Hks E2). rewrite (jeq_sym_s k' x Hs). exact E.
        -- now apply IH2.
Qed.

(* every scalar value is counted exactly: the bucket of k holds the number of rows whose value equals k
   (0 = no bucket), and no value has two buckets *)
Theorem term_buckets_exact vals : keys_ok (term_buckets vals) /\
  forall k, is_scalar k = true -> lookup_cnt k (term_buckets vals) = count_val k vals.
Proof.
  unfold term_buckets, count_val.
  assert (forall acc, keys_ok acc ->
    keys_ok (fold_left (fun acc v => match v with Some x => if is_scalar x then bump x acc else acc | None => acc end) vals acc) /\
    forall k, is_scalar k = true ->
      lookup_cnt k (fold_left (fun acc v => match v with Some x => if is_scalar x then bump x acc else acc | None => acc end) vals acc)
      = lookup_cnt k acc + List.length (filter (fun v => match v with Some x => is_scalar x && jeq x k | None => false end) vals)) as H.
  { induction vals as [|v vals IH]; intros acc Hk; cbn [fold_left filter List.length].
    - split; auto; intros; lia.
    - destruct v as [x|]; [destruct (is_scalar x) eqn:Es|]; cbn [andb].
      + destruct (bump_keys x acc Es Hk) as [B1 B2]. destruct (IH _ B1) as [I1 I2]. split; auto.
        intros k Hks. rewrite I2, B2 by auto. rewrite (jeq_sym_s k x Hks). destruct (jeq x k); cbn [List.length]; lia.
      + exact (IH _ Hk).
      + exact (IH _ Hk). }
  destruct (H [] I) as [H1 H2]. split; [exact H1|]. intros k Hk. rewrite H2 by auto. reflexivity.
Qed.

Lemma bump_s_sum k acc : sum_nat (map snd (bump_s k acc)) = S (sum_nat (map snd acc)).
Proof. induction acc as [|[k' c] r IH]; simpl; auto. destruct (String.eqb k k'); simpl; auto. rewrite IH. lia. Qed.

Theorem type_buckets_total vals : sum_nat (map snd (type_buckets vals)) = List.length vals.
Proof. unfold type_buckets.
  assert (forall acc, sum_nat (map snd (fold_left (fun acc v => bump_s (type_name v) acc) vals acc)) = sum_nat (map snd acc) + List.length vals) as H.
  { induction vals as [|v r IH]; intros acc; simpl; [lia|]. rewrite IH, bump_s_sum. lia. }
  rewrite H. reflexivity. Qed.

(* ---------- field and type buckets are exact ---------- *)
Fixpoint lookup_s (k : string) (acc : list (string * nat)) : nat :=
  match acc with [] => 0%nat | (k', c) :: r => if String.eqb k k' then c else lookup_s k r end.

Lemma lookup_bump_s k x acc : lookup_s k (bump_s x acc) = ((if String.eqb k x then 1 else 0) + lookup_s k acc)%nat.
Proof.
  induction acc as [|[k' c] r IH]; cbn [bump_s lookup_s].
  - destruct (String.eqb k x); reflexivity.
  - destruct (String.eqb x k') eqn:Ex; cbn [lookup_s].
    + apply String.eqb_eq in Ex. subst k'. destruct (String.eqb k x); lia.
    + destruct (String.eqb k k') eqn:Ek; [| exact IH].
      apply String.eqb_eq in Ek. subst k'. rewrite String.eqb_sym, Ex. reflexivity.
Qed.
Lemma bump_s_keys x acc : NoDup (map fst acc) -> NoDup (map fst (bump_s x acc)) /\ forall k, In k (map fst (bump_s x acc)) <-> k = x \/ In k (map fst acc).
Proof.
  induction acc as [|[k' c] r IH]; intros HN; cbn [bump_s map fst].
  - split; [constructor; [intros [] | constructor] |]. intros k. cbn [In]. split; [intros [H | []]; left; symmetry; exact H | intros [H | []]; left; symmetry; exact H].
  - cbn [map fst] in HN. inversion HN as [|a b Hk HN']; subst. destruct (String.eqb x k') eqn:Ex; cbn [map fst].
    + apply String.eqb_eq in Ex. subst k'. split; [constructor; assumption |]. intros k. cbn [In]. split; [intros [H | H]; [left; symmetry; exact H | right; right; exact H] | intros [H | [H | H]]; [left; symmetry; exact H | left; exact H | right; exact H]].
    + destruct (IH HN') as [I1 I2]. split.
      * constructor; [| exact I1]. rewrite I2. intros [H | H]; [| exact (Hk H)]. subst k'. rewrite String.eqb_refl in Ex. discriminate Ex.
      * intros k. cbn [In]. rewrite I2. split; [intros [H | [H | H]]; auto | intros [H | [H | H]]; auto].
Qed.

Definition keys_of (v : aval) : list string := match v with Some (JMap m) => map fst m | _ => [] end.
Definition count_str (k : string) (l : list string) : nat := List.length (filter (String.eqb k) l).
(* how often the key k occurs among the keys of the map-valued rows *)
Definition count_key (k : string) (vals : list aval) : nat := sum_nat (map (fun v => count_str k (keys_of v)) vals).

Lemma field_fold_keys k m : forall acc,
  lookup_s k (fold_left (fun a (kv : string * jv) => bump_s (fst kv) a) m acc) = (lookup_s k acc + count_str k (map fst m))%nat.
Proof.
  induction m as [|[k' v] m IH]; intros acc; cbn [fold_left map fst]; [unfold count_str; cbn; lia |].
  rewrite IH, lookup_bump_s. unfold count_str. cbn [filter]. destruct (String.eqb k k'); cbn [List.length]; lia.
Qed.
Lemma field_fold_nodup m : forall acc, NoDup (map fst acc) -> NoDup (map fst (fold_left (fun a (kv : string * jv) => bump_s (fst kv) a) m acc)).
Proof. induction m as [|kv m IH]; intros acc H; cbn [fold_left]; [exact H |]. apply IH. apply (bump_s_keys (fst kv) acc H). Qed.

Theorem field_buckets_exact vals : NoDup (map fst (field_buckets vals)) /\ forall k, lookup_s k (field_buckets vals) = count_key k vals.
Proof.
  unfold field_buckets.
  assert (forall acc, NoDup (map fst acc) ->
            NoDup (map fst (fold_left (fun acc v => match v with Some (JMap m) => fold_left (fun a (kv : string * jv) => bump_s (fst kv) a) m acc | _ => acc end) vals acc)) /\
            forall k, lookup_s k (fold_left (fun acc v => match v with Some (JMap m) => fold_left (fun a (kv : string * jv) => bump_s (fst kv) a) m acc | _ => acc end) vals acc)
                      = (lookup_s k acc + count_key k vals)%nat) as H.
  { induction vals as [|v r IH]; intros acc HN; cbn [fold_left].
    - split; [exact HN |]. intros k. unfold count_key. cbn. lia.
    - assert (forall k, count_key k (v :: r) = (count_str k (keys_of v) + count_key k r)%nat) as Hc by (intros k; reflexivity).
      destruct v as [[| | | | |m]|]; try (destruct (IH acc HN) as [I1 I2]; split; [exact I1 |]; intros k; rewrite I2, Hc; cbn [keys_of count_str filter List.length]; lia).
      destruct (IH _ (field_fold_nodup m acc HN)) as [I1 I2]. split; [exact I1 |]. intros k. rewrite I2, field_fold_keys, Hc. cbn [keys_of]. lia. }
  destruct (H [] (NoDup_nil _)) as [H1 H2]. split; [exact H1 |]. intros k. rewrite H2. reflexivity.
Qed.

Definition count_type (t : string) (vals : list aval) : nat := List.length (filter (fun v => String.eqb t (type_name v)) vals).
Theorem type_buckets_exact vals : NoDup (map fst (type_buckets vals)) /\ forall t, lookup_s t (type_buckets vals) = count_type t vals.
Proof.
  unfold type_buckets.
  assert (forall acc, NoDup (map fst acc) ->
            NoDup (map fst (fold_left (fun acc v => bump_s (type_name v) acc) vals acc)) /\
            forall t, lookup_s t (fold_left (fun acc v => bump_s (type_name v) acc) vals acc) = (lookup_s t acc + count_type t vals)%nat) as H.
  { induction vals as [|v r IH]; intros acc HN; cbn [fold_left].
    - split; [exact HN |]. intros t. unfold count_type. cbn. lia.
    - destruct (IH _ (proj1 (bump_s_keys (type_name v) acc HN))) as [I1 I2]. split; [exact I1 |]. intros t.
      rewrite I2, lookup_bump_s. unfold count_type. cbn [filter]. destruct (String.eqb t (type_name v)); cbn [List.length]; lia. }
  destruct (H [] (NoDup_nil _)) as [H1 H2]. split; [exact H1 |]. intros t. rewrite H2. reflexivity.
Qed.
