package main

import "github.com/bmeg/grip/gripql"

type tAgg struct {
	Name     string    `json:"name"`
	Kind     string    `json:"kind"` // term histogram percentile field type count unknown
	Field    string    `json:"field,omitempty"`
	Size     uint32    `json:"size,omitempty"`
	Interval uint32    `json:"interval,omitempty"`
	Percents []float64 `json:"percents,omitempty"`
}

func aggsProto(as []tAgg) []*gripql.Aggregate {
	out := []*gripql.Aggregate{}
	for _, a := range as {
		g := &gripql.Aggregate{Name: a.Name}
		switch a.Kind {
		case "term":
			g.Aggregation = &gripql.Aggregate_Term{Term: &gripql.TermAggregation{Field: a.Field, Size: a.Size}}
		case "histogram":
			g.Aggregation = &gripql.Aggregate_Histogram{Histogram: &gripql.HistogramAggregation{Field: a.Field, Interval: a.Interval}}
		case "percentile":
			g.Aggregation = &gripql.Aggregate_Percentile{Percentile: &gripql.PercentileAggregation{Field: a.Field, Percents: a.Percents}}
		case "field":
			g.Aggregation = &gripql.Aggregate_Field{Field: &gripql.FieldAggregation{Field: a.Field}}
		case "type":
			g.Aggregation = &gripql.Aggregate_Type{Type: &gripql.TypeAggregation{Field: a.Field}}
		case "count":
			g.Aggregation = &gripql.Aggregate_Count{Count: &gripql.CountAggregation{}}
		}
		out = append(out, g)
	}
	return out
}
