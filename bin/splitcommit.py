#!/usr/bin/env python3
"""splitcommit.py <diff> <msg> <file:hunkidx,...> ... : stage selected hunks (0-based per file) and commit.
Used to turn one working-tree change of /repo into several small `fix:` commits."""
import sys, re, subprocess
diff = open(sys.argv[1]).read()
msg = sys.argv[2]
sel = {}
for a in sys.argv[3:]:
    f, idx = a.rsplit(":", 1)
    sel[f] = [int(x) for x in idx.split(",")]
files = re.split(r"(?m)^(?=diff --git )", diff)
out = ""
for fd in files:
    if not fd.strip(): continue
    m = re.match(r"diff --git a/(\S+)", fd)
    name = m.group(1)
    if name not in sel: continue
    parts = re.split(r"(?m)^(?=@@ )", fd)
    head, hunks = parts[0], parts[1:]
    out += head + "".join(hunks[i] for i in sel[name])
p = subprocess.run(["git", "-C", "/repo", "apply", "--cached", "--recount", "-"], input=out, text=True)
if p.returncode: sys.exit(p.returncode)
subprocess.run(["git", "-C", "/repo", "commit", "-q", "-m", msg], check=True)
print(subprocess.run(["git", "-C", "/repo", "log", "--oneline", "-1"], capture_output=True, text=True).stdout.strip())
