(* C20  The SQL backends treat client-supplied identifiers as data.
   - The lexer model (Model/Sql.v) gives the STRUCTURE of a statement: its tokens with the contents of string
     literals and numbers erased.
   - C20_quoted_hole: for EVERY client string s, lib/pq's QuoteLiteral image of s (model pq_quote, tied to the
     library by the correspondence) followed by any continuation that does not begin with a quote is exactly one
     literal token: the structure after the hole does not depend on s. Unbounded in s and in the continuation.
   - C20_sites_accounted: over the Sprintf table REGENERATED from psql/ and existing-sql/ on every run, the sites
     (and joined-slice elements) that put a string into statement text which is neither schema/configuration
     derived, nor validated by gripql.ValidateGraphName in that function, nor passed through pq.QuoteLiteral,
     are exactly the committed list Model/SqlKnown.v (the known findings). A new raw splice breaks this theorem.
   - C20_full_refuted: the full property is false of the faithful model: the existing-sql GetVertex template
     rendered with a hostile key has a different structure than with a benign key. *)
From Coq Require Import List String Ascii Bool.
Import ListNotations.
Require Import Grip.Model.Sql Grip.Model.SqlKnown Grip.Gen.SqlTemplates Grip.Proofs.SqlProofs.
Local Open Scope string_scope.
Local Open Scope list_scope.

Theorem C20_quoted_hole : forall (s1 s2 rest : list ascii), starts_quote rest = false ->
  lexs (pq_quote s1 ++ rest) = TLit :: lexs rest /\ lexs (pq_quote s1 ++ rest) = lexs (pq_quote s2 ++ rest).
Proof. intros; split; [apply pq_quote_one_token | apply quoted_hole_independent]; assumption. Qed.
Print Assumptions C20_quoted_hole.

Theorem C20_literal_body : forall (s rest : list ascii), starts_quote rest = false ->
  scan_lit (escape s ++ quote :: rest) = Some rest /\ scan_elit (escape_bs (escape s) ++ quote :: rest) = Some rest.
Proof. intros; split; [apply scan_lit_escape | apply scan_elit_escape]; assumption. Qed.
Print Assumptions C20_literal_body.

Theorem C20_lexer_fuel : forall f l, List.length l < f -> lex f l = lexs l.
Proof. exact lexs_fuel. Qed.
Print Assumptions C20_lexer_fuel.

Theorem C20_sites_accounted :
  unsafe_sites validated_args sprintf_sites ++ unsafe_joins join_sources = known_unsafe /\ sql_unrecognised = [].
Proof. split; vm_compute; reflexivity. Qed.
Print Assumptions C20_sites_accounted.

(* non-vacuity: the table is not empty, the psql point lookups are in it and are classified safe because quoted *)
Example C20_table_nonvacuous :
  60 <= List.length sprintf_sites /\
  existsb (fun t => String.eqb (fst (fst t)) "psql/graph.go:GetVertex#0"
                    && existsb (has_prefix "pq.QuoteLiteral(") (snd t)) sprintf_sites = true.
Proof. split; vm_compute; [repeat constructor | reflexivity]. Qed.

Definition s2l := chars.
Theorem C20_full_refuted : exists fmt table field benign hostile,
  In fmt (map (fun t => snd (fst t)) sprintf_sites) /\
  toks_eqb (lexs (render (s2l fmt) [table; field; benign])) (lexs (render (s2l fmt) [table; field; hostile])) = false.
Proof.
  exists "SELECT * FROM %s WHERE %s=%s", (s2l "users"), (s2l "id"), (s2l "17"), (s2l "17 OR 1=1").
  split; vm_compute; [|reflexivity]. tauto.
Qed.
Print Assumptions C20_full_refuted.
