(* Bulk loading (property C18): server/api.go:BulkAdd (per-graph stream switching, validation, counting),
   util/insert.go:StreamBatch (batching), kvgraph/graph.go:BulkAdd (one bulk write applying elements in order). *)
From Coq Require Import List NArith Arith Bool String.
Import ListNotations.
From Grip Require Import Model.Bytes Model.Keys Model.Traversal.
Local Open Scope string_scope.
Local Open Scope list_scope.

(* ---------- elements and their validation (gripql/util.go Vertex.Validate / Edge.Validate) ---------- *)
Record belem := {
  b_graph : string;
  b_is_vertex : bool; b_is_edge : bool;          (* GraphElement.Vertex / .Edge set (both or neither possible) *)
  b_gid : string; b_label : string; b_from : string; b_to : string;
  b_keys : list string;                           (* data field names *)
  b_val : N }.                                    (* a payload to tell writes apart *)

Definition nonempty_nonul (s : string) : bool := valid_id_b (bytes_of_string s).
Definition field_ok (k : string) : bool := negb (mem_str k reserved_names) && valid_name_b (bytes_of_string k).
Definition vertex_valid (e : belem) : bool :=
  nonempty_nonul (b_gid e) && nonempty_nonul (b_label e) && forallb field_ok (b_keys e).
(* an edge without id gets a generated one before validation *)
Definition edge_valid (e : belem) : bool :=
  (String.eqb (b_gid e) "" || nonempty_nonul (b_gid e)) && nonempty_nonul (b_label e)
  && nonempty_nonul (b_from e) && nonempty_nonul (b_to e) && forallb field_ok (b_keys e).

Definition is_schema_graph (g : string) : bool :=
  let suffix := "__schema__" in
  let lg := String.length g in let ls := String.length suffix in
  Nat.leb ls lg && String.eqb (substring (lg - ls) ls g) suffix.

(* ---------- the store: per graph, the valid writes applied in order ---------- *)
Inductive wkind := WVertex | WEdge.
Definition write := (wkind * belem)%type.
Definition logs := list (string * list write).
Fixpoint log_add (l : logs) (g : string) (w : write) : logs :=
  match l with
  | [] => [(g, [w])]
  | (g', ws) :: r => if String.eqb g g' then (g', ws ++ [w]) :: r else (g', ws) :: log_add r g w
  end.
Definition log_of (l : logs) (g : string) : list write :=
  match find (fun p => String.eqb (fst p) g) l with Some p => snd p | None => [] end.

Record bres := { r_logs : logs; r_ins : N; r_err : N }.

Section Bulk.
  Variable exists_graph : string -> bool.        (* getGraphDB / gdb.Graph succeed *)

  (* what the writes of one element are, and how they count *)
  Definition writes_of (e : belem) : list write * N * N :=
    let v := if b_is_vertex e then (if vertex_valid e then ([(WVertex, e)], 1%N, 0%N) else ([], 0%N, 1%N)) else ([], 0%N, 0%N) in
    let ed := if b_is_edge e then (if edge_valid e then ([(WEdge, e)], 1%N, 0%N) else ([], 0%N, 1%N)) else ([], 0%N, 0%N) in
    (fst (fst v) ++ fst (fst ed), (snd (fst v) + snd (fst ed))%N, (snd v + snd ed)%N).

  (* ---- adding the elements one at a time ---- *)
  Definition seq_step (r : bres) (e : belem) : bres :=
    if is_schema_graph (b_graph e) then {| r_logs := r_logs r; r_ins := r_ins r; r_err := (r_err r + 1)%N |}
    else if negb (exists_graph (b_graph e)) then {| r_logs := r_logs r; r_ins := r_ins r; r_err := (r_err r + 1)%N |}
    else let '(ws, i, x) := writes_of e in
         {| r_logs := fold_left (fun l w => log_add l (b_graph e) w) ws (r_logs r); r_ins := (r_ins r + i)%N; r_err := (r_err r + x)%N |}.
  Definition seq_run (es : list belem) : bres := fold_left seq_step es {| r_logs := []; r_ins := 0; r_err := 0 |}.

  (* ---- server BulkAdd: one open per-graph stream at a time; a stream's elements reach the store when it is
     closed (switch to another graph, or end of input) ---- *)
  Record bstate := {
    s_cur : option string;            (* graphName with streamOpen *)
    s_pending : list write;           (* sent on the open stream, not yet applied *)
    s_res : bres }.
  Definition flush (s : bstate) : bres :=
    match s_cur s with
    | Some g => {| r_logs := fold_left (fun l w => log_add l g w) (s_pending s) (r_logs (s_res s)); r_ins := r_ins (s_res s); r_err := r_err (s_res s) |}
    | None => s_res s
    end.
  Definition bump_err (r : bres) : bres := {| r_logs := r_logs r; r_ins := r_ins r; r_err := (r_err r + 1)%N |}.
  Definition bulk_step (s : bstate) (e : belem) : bstate :=
    if is_schema_graph (b_graph e) then {| s_cur := s_cur s; s_pending := s_pending s; s_res := bump_err (s_res s) |}
    else
      let same := match s_cur s with Some g => String.eqb (b_graph e) g | None => false end in
      let s1 := if same then Some s
                else let r := flush s in
                     if exists_graph (b_graph e) then Some {| s_cur := Some (b_graph e); s_pending := []; s_res := r |}
                     else None in
      match s1 with
      | None => {| s_cur := None; s_pending := []; s_res := bump_err (flush s) |}
      | Some s2 =>
          let '(ws, i, x) := writes_of e in
          {| s_cur := s_cur s2; s_pending := s_pending s2 ++ ws;
             s_res := {| r_logs := r_logs (s_res s2); r_ins := (r_ins (s_res s2) + i)%N; r_err := (r_err (s_res s2) + x)%N |} |}
      end.
  Definition bulk_run (es : list belem) : bres :=
    flush (fold_left bulk_step es {| s_cur := None; s_pending := []; s_res := {| r_logs := []; r_ins := 0; r_err := 0 |} |}).
End Bulk.

(* ---------- StreamBatch: batches of at most k, flushed in order ---------- *)
Section Batch.
  Variable X St : Type.
  Variable add1 : St -> X -> St.
  Fixpoint chunks (fuel k : nat) (l : list X) : list (list X) :=
    match fuel with
    | 0 => [l]
    | S f => match l with [] => [] | _ => firstn k l :: chunks f k (skipn k l) end
    end.
  Definition add_batch (s : St) (b : list X) : St := fold_left add1 b s.
  Definition batched (k : nat) (l : list X) (s : St) : St := fold_left add_batch (chunks (List.length l) k l) s.
End Batch.
Arguments chunks {X}. Arguments batched {X St}. Arguments add_batch {X St}.

(* ---------- the observable graph of a log: last write per id wins ---------- *)
Definition table_of (k : wkind) (ws : list write) : list (string * (string * N)) :=
  fold_left (fun t w =>
    if match fst w, k with WVertex, WVertex | WEdge, WEdge => true | _, _ => false end
       && negb (String.eqb (b_gid (snd w)) "")        (* edges without id get a generated one: counted by anon_edges *)
    then let e := snd w in (b_gid e, (b_label e, b_val e)) :: filter (fun p => negb (String.eqb (fst p) (b_gid e))) t
    else t) ws [].
Definition anon_edges (ws : list write) : nat :=
  List.length (filter (fun w => match fst w with WEdge => String.eqb (b_gid (snd w)) "" | WVertex => false end) ws).
