From Coq Require Import List ZArith QArith Qround String Bool NArith Arith.
Import ListNotations.
From Grip Require Export Model.Json Model.Agg.
Local Close Scope Q_scope.
Local Open Scope nat_scope.
Local Open Scope string_scope.
Local Open Scope list_scope.

Inductive aggk :=
| ATerm (field : string) (size : nat) | AHist (field : string) (interval : Q) | APct (field : string) (ps : list Q)
| AField (field : string) | AType (field : string) | ACount.
Record aggspec := { a_name : string; a_kind : aggk }.

Record c19_case := {
  crows : list (list (string * jv));             (* data maps of the rows fed to aggregate() *)
  caggs : list aggspec;
  cobs : list (string * jv * Q)                  (* observed (aggregation name, key, value) *)
}.

Definition field_of (k : aggk) : string :=
  match k with ATerm f _ | AHist f _ | APct f _ | AField f | AType f => f | ACount => "" end.
Definition val_of (f : string) (d : list (string * jv)) : aval :=
  match dig (JMap [("data", JMap d)]) (json_path f) with Some JNull => None | x => x end.
Definition vals_of (c : c19_case) (k : aggk) : list aval := map (val_of (field_of k)) (crows c).

Definition obs_of (c : c19_case) (n : string) : list (jv * Q) :=
  map (fun x => (snd (fst x), snd x)) (filter (fun x => String.eqb n (fst (fst x))) (cobs c)).

Definition qnat (n : nat) : Q := (Z.of_nat n # 1)%Q.
Fixpoint remove_kv (x : jv * Q) (l : list (jv * Q)) : option (list (jv * Q)) :=
  match l with
  | [] => None
  | y :: r => if jeq (fst x) (fst y) && Qeq_bool (snd x) (snd y) then Some r else option_map (cons y) (remove_kv x r)
  end.
Fixpoint sub_ms (a b : list (jv * Q)) : bool :=
  match a with [] => true | x :: r => match remove_kv x b with Some b' => sub_ms r b' | None => false end end.
Definition ms_eq (a b : list (jv * Q)) : bool := Nat.eqb (List.length a) (List.length b) && sub_ms a b.

Fixpoint nodup_keys (l : list (jv * Q)) : bool :=
  match l with [] => true | x :: r => negb (existsb (fun y => jeq (fst x) (fst y)) r) && nodup_keys r end.

Definition check_agg (c : c19_case) (a : aggspec) : bool :=
  let ob := obs_of c (a_name a) in
  let vals := vals_of c (a_kind a) in
  match a_kind a with
  | ACount => ms_eq ob [(JStr "count", qnat (List.length (crows c)))]
  | ATerm _ size =>
      let full := map (fun kc => (fst kc, qnat (snd kc))) (term_buckets vals) in
      sub_ms ob full && nodup_keys ob &&
      (if Nat.eqb size 0 then Nat.eqb (List.length ob) (List.length full) else Nat.eqb (List.length ob) (Nat.min size (List.length full))) &&
      (* no omitted bucket is more frequent than an included one *)
      forallb (fun f => existsb (fun o => jeq (fst o) (fst f)) ob ||
                        forallb (fun o => Qle_bool (snd f) (snd o)) ob) full
  | AHist _ i =>
      (* an interval that is not positive is refused: no bucket at all (C19_hist is stated for 0 < i) *)
      if Qle_bool i 0 then match ob with [] => true | _ => false end
      else ms_eq ob (map (fun kc => (JNum (fst kc), qnat (snd kc))) (histogram i vals))
  | AField _ => ms_eq ob (map (fun kc => (JStr (fst kc), qnat (snd kc))) (field_buckets vals))
  | AType _ => ms_eq ob (map (fun kc => (JStr (fst kc), qnat (snd kc))) (type_buckets vals))
  | APct _ ps =>
      Nat.eqb (List.length ob) (List.length ps) &&
      match numeric_vals vals with
      | [] => true                       (* quantile of an empty distribution: unspecified *)
      | v :: r =>
          let lo := fold_left qmin r v in let hi := fold_left qmax r v in
          forallb (fun o => Qle_bool lo (snd o) && Qle_bool (snd o) hi) ob &&
          forallb (fun o => forallb (fun o' =>
            match fst o, fst o' with
            | JNum p, JNum p' => negb (Qle_bool p p') || Qle_bool (snd o) (snd o')
            | _, _ => false end) ob) ob
      end
  end.

Definition known_names (c : c19_case) : bool :=
  forallb (fun x => existsb (fun a => String.eqb (fst (fst x)) (a_name a)) (caggs c)) (cobs c).
Definition agrees (c : c19_case) : bool := known_names c && forallb (check_agg c) (caggs c).

Fixpoint idx_where {X} (p : X -> bool) (i : nat) (l : list X) : list nat :=
  match l with [] => [] | x :: r => if p x then i :: idx_where p (S i) r else idx_where p (S i) r end.
Definition mismatches (cs : list c19_case) := idx_where (fun c => negb (agrees c)) 0 cs.
Definition spec_violations (cs : list c19_case) := idx_where (fun c => negb (agrees c)) 0 cs.
Definition explain (c : c19_case) := map (fun a => (a_name a, check_agg c a, vals_of c (a_kind a))) (caggs c).
