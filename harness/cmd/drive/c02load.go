package main

import (
	"encoding/json"
	"fmt"
	"math/rand"
	"sort"
	"strconv"

	"github.com/bmeg/grip/engine/core"
	"github.com/bmeg/grip/engine/inspect"
	"github.com/bmeg/grip/gripql"
	"gripverif/internal/coq"
)

// ---------- the load-elision analysis, observed directly: inspect.PipelineSteps / PipelineStepOutputs ----------

type loadTables struct {
	steps    []string
	outs     map[string][]string
	stepsCoq string
	outsCoq  string
	elided   int
	bad      bool
}

func tablesOf(stmts []*gripql.GraphStatement) loadTables {
	t := loadTables{steps: inspect.PipelineSteps(stmts), outs: inspect.PipelineStepOutputs(stmts)}
	stepItems := make([]string, len(t.steps))
	for i, s := range t.steps {
		stepItems[i] = s + "%nat"
	}
	keys := []int{}
	for k := range t.outs {
		n, err := strconv.Atoi(k)
		if err != nil {
			t.bad = true
			n = 1 << 20
		}
		keys = append(keys, n)
	}
	sort.Ints(keys)
	outItems := []string{}
	for _, k := range keys {
		outItems = append(outItems, fmt.Sprintf("(%d%%nat, %s)", k, coq.StrList(t.outs[strconv.Itoa(k)])))
	}
	seen := map[string]bool{}
	for _, s := range t.steps {
		if seen[s] {
			continue
		}
		seen[s] = true
		if v, ok := t.outs[s]; !ok || (len(v) == 1 && v[0] == "_label") {
			t.elided++
		}
	}
	t.stepsCoq = coq.List(stepItems)
	t.outsCoq = coq.List(outItems)
	return t
}

func addLoadCases(ctx *Ctx, progs [][]tStmt) {
	for _, p := range progs {
		stmts := progProto(p)
		t := tablesOf(stmts)
		c := "(CLoad " + progCoq(p) + " " + t.stepsCoq + " " + t.outsCoq + ")"
		tags := []string{"load", "len=" + bucket(len(p))}
		if t.elided > 0 {
			tags = append(tags, "load=some step elided")
		} else {
			tags = append(tags, "load=every step loads")
		}
		marks := map[string]int{}
		for _, s := range p {
			if s.Op == "as" {
				marks[s.Str]++
			}
		}
		for _, n := range marks {
			if n > 1 {
				tags = append(tags, "load=mark name re-used")
				break
			}
		}
		if t.bad {
			tags = append(tags, "load=non-numeric step id")
		}
		ctx.Add(Case{Input: c01Input{Driver: "load", Prog: p}, Observed: map[string]interface{}{"steps": t.steps, "outputs": t.outs}, Coq: c,
			Nontrivial: t.elided > 0 && len(p) >= 3, Key: "load:" + progCoq(p), Tags: tags})
		// the same tables for the statement list the planner hands to the compiler
		t2 := tablesOf(core.IndexStartOptimize(progProto(p)))
		c2 := "(CLoadPlan " + progCoq(p) + " " + t2.stepsCoq + " " + t2.outsCoq + ")"
		tags2 := []string{"load-of-plan", "len=" + bucket(len(p))}
		if len(t2.steps) > 0 && t2.steps[0] == "0" {
			tags2 = append(tags2, "load-of-plan=index lookup start (step 0)")
		}
		ctx.Add(Case{Input: c01Input{Driver: "load", Prog: p}, Observed: map[string]interface{}{"plan_steps": t2.steps, "plan_outputs": t2.outs}, Coq: c2,
			Nontrivial: t2.elided > 0 && len(p) >= 3, Key: "loadplan:" + progCoq(p), Tags: tags2})
	}
}

// programs that read properties through marks taken at several places (also twice under one name), behind moves,
// counts, selects and windows
func c02LoadPrograms(ctx *Ctx) [][]tStmt {
	rng := rand.New(rand.NewSource(ctx.Rng.Int63()))
	cond := func(k string) *hExpr { return &hExpr{Kind: "cond", Key: k, Op: "eq", Arg: "x"} }
	keys := []string{"name", "_label", "_gid", "$m.name", "$m._gid", "$n.w", "$__current__.name", "$.name", "$zz.name", "n.k", "$m"}
	pieces := []tStmt{
		{Op: "out"}, {Op: "in"}, {Op: "outE"}, {Op: "inE"}, {Op: "both"}, {Op: "bothE"},
		{Op: "as", Str: "m"}, {Op: "as", Str: "n"}, {Op: "as", Str: "m"},
		{Op: "hasLabel", Strs: []string{"P"}}, {Op: "hasId", Strs: []string{"a"}}, {Op: "hasKey", Strs: []string{"$m.name", "w"}},
		{Op: "select", Strs: []string{"m"}}, {Op: "select", Strs: []string{"m", "n"}}, {Op: "select", Strs: []string{"zz"}},
		{Op: "count"}, {Op: "limit", N: 2}, {Op: "skip", N: 1}, {Op: "range", N: 0, M: 2}, {Op: "path"},
		{Op: "fields", Strs: []string{"name"}}, {Op: "fields", Strs: []string{"-name"}}, {Op: "unwind", Str: "$m.tags"}, {Op: "unwind", Str: "tags"},
		{Op: "render", Tpl: map[string]interface{}{"a": "$m.name", "b": []interface{}{"$n.w", 5.0, map[string]interface{}{"c": "name"}}}}, {Op: "render", Tpl: "$m._gid"},
		{Op: "distinct"}, {Op: "distinct", Strs: []string{"$m.name"}}, {Op: "distinct", Strs: []string{"$__current__.w", "$n.w"}}, {Op: "distinct", Strs: []string{"_gid"}},
	}
	for _, k := range keys {
		pieces = append(pieces, tStmt{Op: "has", Has: cond(k)}, tStmt{Op: "has", Has: &hExpr{Kind: "not", Es: []hExpr{{Kind: "or", Es: []hExpr{*cond(k), {Kind: "and", Es: []hExpr{*cond("w")}}}}}}})
	}
	out := [][]tStmt{
		{}, {{Op: "V"}}, {{Op: "E"}}, {{Op: "V"}, {Op: "out"}}, {{Op: "V"}, {Op: "out"}, {Op: "count"}}, {{Op: "V"}, {Op: "hasLabel", Strs: []string{"P"}}, {Op: "hasLabel", Strs: []string{"Q"}}, {Op: "out"}},
		{{Op: "V"}, {Op: "as", Str: "m"}, {Op: "out"}, {Op: "has", Has: cond("$m.name")}, {Op: "out"}, {Op: "as", Str: "m"}, {Op: "count"}},
		{{Op: "V"}, {Op: "as", Str: "m"}, {Op: "out"}, {Op: "as", Str: "m"}, {Op: "out"}, {Op: "select", Strs: []string{"m"}}},
		{{Op: "V"}, {Op: "as", Str: "m"}, {Op: "out"}, {Op: "render", Tpl: "$m.name"}, {Op: "as", Str: "m"}},
		{{Op: "V"}, {Op: "as", Str: "__current__"}, {Op: "out"}, {Op: "distinct", Strs: []string{"name"}}, {Op: "count"}},
	}
	// every kind of reader, reading ONLY through a mark taken one step earlier (under every nesting of a has-expression)
	wrap := []func(h hExpr) hExpr{
		func(h hExpr) hExpr { return h },
		func(h hExpr) hExpr { return hExpr{Kind: "not", Es: []hExpr{h}} },
		func(h hExpr) hExpr { return hExpr{Kind: "and", Es: []hExpr{*cond("w"), h}} },
		func(h hExpr) hExpr { return hExpr{Kind: "or", Es: []hExpr{h, *cond("w")}} },
		func(h hExpr) hExpr {
			return hExpr{Kind: "not", Es: []hExpr{{Kind: "and", Es: []hExpr{{Kind: "or", Es: []hExpr{{Kind: "not", Es: []hExpr{h}}}}}}}}
		},
	}
	readers := []tStmt{{Op: "hasKey", Strs: []string{"$m.name"}}, {Op: "distinct", Strs: []string{"$m.name"}}, {Op: "unwind", Str: "$m.tags"},
		{Op: "render", Tpl: map[string]interface{}{"a": []interface{}{map[string]interface{}{"b": "$m.name"}}}}, {Op: "render", Tpl: "$m.name"}}
	for _, w := range wrap {
		h := w(*cond("$m.name"))
		readers = append(readers, tStmt{Op: "has", Has: &h})
	}
	// the reserved fields of a mark (and what lies below _data) are reads of the mark's element like any other
	for _, k := range []string{"$m._gid", "$m._label", "$m._data", "$m._data.w", "$m._from", "$m._to", "$m"} {
		readers = append(readers, tStmt{Op: "has", Has: cond(k)}, tStmt{Op: "render", Tpl: k}, tStmt{Op: "hasKey", Strs: []string{k}}, tStmt{Op: "distinct", Strs: []string{k}})
	}
	for _, r := range readers {
		for _, mv := range []string{"out", "outE", "both"} {
			out = append(out, []tStmt{{Op: "V"}, {Op: "as", Str: "m"}, {Op: mv}, r},
				[]tStmt{{Op: "V"}, {Op: "as", Str: "m"}, {Op: mv}, r, {Op: "count"}},
				[]tStmt{{Op: "V"}, {Op: "as", Str: "m"}, {Op: mv}, {Op: "as", Str: "n"}, {Op: "out"}, r, {Op: "select", Strs: []string{"n"}}})
		}
	}
	n := ctx.Pick(500, 5000)
	for i := 0; i < n; i++ {
		p := []tStmt{{Op: []string{"V", "V", "E"}[rng.Intn(3)]}}
		for k := 1 + rng.Intn(7); k > 0; k-- {
			p = append(p, pieces[rng.Intn(len(pieces))])
		}
		out = append(out, p)
	}
	return out
}

// ---------- programs with statements outside the model's traversal alphabet ----------
func xstmtCoq(s tStmt) string {
	switch s.Op {
	case "aggregate":
		fs := []string{}
		for _, a := range s.Aggs {
			if a.Kind != "count" {
				fs = append(fs, a.Field)
			}
		}
		return "(XAggregate " + coq.StrList(fs) + ")"
	case "set":
		return "(XSet " + coq.Str(s.Str) + ")"
	case "increment":
		return "(XIncrement " + coq.Str(s.Str) + ")"
	case "jump":
		if s.Has == nil {
			return "(XJump None)"
		}
		return "(XJump (Some " + s.Has.coq() + "))"
	case "mark":
		return "XMark"
	case "outNull", "inNull", "outENull", "inENull":
		return "XNullMove"
	}
	return "(XS " + s.coq() + ")"
}

func addLoadXCases(ctx *Ctx, progs [][]tStmt) {
	for _, p := range progs {
		t := tablesOf(progProto(p))
		items := make([]string, len(p))
		for i, s := range p {
			items[i] = xstmtCoq(s)
		}
		c := "(CLoadX " + coq.List(items) + " " + t.stepsCoq + " " + t.outsCoq + ")"
		tags := []string{"load-x", "len=" + bucket(len(p))}
		seen := map[string]bool{}
		for _, s := range p {
			switch s.Op {
			case "aggregate", "set", "increment", "jump", "mark", "outNull", "inNull", "outENull", "inENull":
				if !seen[s.Op] {
					seen[s.Op] = true
					tags = append(tags, "load-x="+s.Op)
				}
			}
		}
		key, _ := json.Marshal(p)
		ctx.Add(Case{Input: c01Input{Driver: "loadx", Prog: p}, Observed: map[string]interface{}{"steps": t.steps, "outputs": t.outs}, Coq: c,
			Nontrivial: t.elided > 0 && len(p) >= 3, Key: "loadx:" + string(key), Tags: tags})
	}
}

func c02LoadXPrograms(ctx *Ctx) [][]tStmt {
	rng := rand.New(rand.NewSource(ctx.Rng.Int63()))
	cond := func(k string) *hExpr { return &hExpr{Kind: "cond", Key: k, Op: "lt", Arg: 3.0} }
	agg := func(fields ...string) tStmt {
		as := []tAgg{{Name: "c", Kind: "count"}}
		kinds := []string{"term", "histogram", "percentile", "field", "type"}
		for i, f := range fields {
			a := tAgg{Name: fmt.Sprintf("a%d", i), Kind: kinds[i%len(kinds)], Field: f}
			if a.Kind == "histogram" {
				a.Interval = 5
			}
			if a.Kind == "percentile" {
				a.Percents = []float64{50}
			}
			as = append(as, a)
		}
		return tStmt{Op: "aggregate", Aggs: as}
	}
	pieces := []tStmt{
		{Op: "out"}, {Op: "outE"}, {Op: "both"}, {Op: "in"}, {Op: "as", Str: "m"}, {Op: "as", Str: "n"}, {Op: "as", Str: "m"},
		{Op: "outNull"}, {Op: "inNull", Strs: []string{"l"}}, {Op: "outENull"}, {Op: "inENull"},
		agg("name"), agg("$m.w", "$n.w"), agg("$m.name", "w", "$zz.x", "name", "$.tags"), agg(),
		{Op: "set", Str: "c", Tpl: 0.0}, {Op: "set", Str: "$m.c", Tpl: 1.0}, {Op: "increment", Str: "$m.c", N: 1}, {Op: "increment", Str: "c", N: 1}, {Op: "increment", Str: "$zz.c", N: 1},
		{Op: "mark", Str: "s"}, {Op: "jump", Str: "s"}, {Op: "jump", Str: "s", Has: cond("$m.c"), N: 1}, {Op: "jump", Str: "s", Has: &hExpr{Kind: "not", Es: []hExpr{*cond("$n.c")}}},
		{Op: "has", Has: cond("$m.c")}, {Op: "hasLabel", Strs: []string{"P"}}, {Op: "count"}, {Op: "select", Strs: []string{"m"}}, {Op: "limit", N: 2}, {Op: "distinct", Strs: []string{"$n.w"}},
	}
	out := [][]tStmt{
		{{Op: "V"}, {Op: "outNull"}}, {{Op: "V"}, {Op: "outENull"}, {Op: "count"}}, {{Op: "V"}, {Op: "as", Str: "m"}, {Op: "out"}, agg("$m.w")},
		{{Op: "V"}, {Op: "as", Str: "m"}, {Op: "set", Str: "$m.c", Tpl: 0.0}, {Op: "mark", Str: "s"}, {Op: "out"}, {Op: "increment", Str: "$m.c", N: 1}, {Op: "jump", Str: "s", Has: cond("$m.c"), N: 1}},
		{{Op: "V"}, {Op: "as", Str: "m"}, {Op: "out"}, {Op: "jump", Str: "s", Has: cond("$m.c")}, {Op: "out"}, {Op: "mark", Str: "s"}, {Op: "count"}},
	}
	n := ctx.Pick(400, 4000)
	for i := 0; i < n; i++ {
		p := []tStmt{{Op: []string{"V", "V", "E"}[rng.Intn(3)]}}
		for k := 1 + rng.Intn(7); k > 0; k-- {
			p = append(p, pieces[rng.Intn(len(pieces))])
		}
		out = append(out, p)
	}
	return out
}
