package main

import (
	"encoding/json"
	"fmt"
	"math"
	"math/big"
	"math/rand"
	"time"

	"gripverif/internal/coq"
)

func init() {
	props["C19"] = runC19
	workers["agg"] = func(args []string) { workerLoop(aggWorker) }
}

type c19Input struct {
	Rows []map[string]interface{} `json:"rows"`
	Aggs []tAgg                   `json:"aggs"`
	// the rows reach the aggregation as null travelers (V().outNull(<label no edge has>)): as many rows, every field missing
	Null bool `json:"null,omitempty"`
}

func aggWorker(raw json.RawMessage) interface{} {
	var in c19Input
	if err := json.Unmarshal(raw, &in); err != nil {
		return map[string]string{"error": err.Error()}
	}
	g := tGraph{}
	for i, r := range in.Rows {
		g.V = append(g.V, tVertex{ID: fmt.Sprintf("v%03d", i), Label: "L", Data: r})
	}
	env, err := openGraph("badger", g)
	if err != nil {
		return map[string]string{"error": err.Error()}
	}
	defer env.close()
	if in.Null {
		return runProduction(env.gi, []tStmt{{Op: "V"}, {Op: "outNull", Strs: []string{"nolabel"}}, {Op: "aggregate", Aggs: in.Aggs}}, 15*time.Second)
	}
	return runProduction(env.gi, []tStmt{{Op: "V"}, {Op: "aggregate", Aggs: in.Aggs}}, 15*time.Second)
}

func qCoq(f float64) string {
	r := new(big.Rat)
	r.SetFloat64(f)
	return fmt.Sprintf("(Qmake (%s)%%Z %s%%positive)", r.Num().String(), r.Denom().String())
}

func aggCoq(a tAgg) string {
	var k string
	switch a.Kind {
	case "term":
		k = fmt.Sprintf("(ATerm %s %d)", coq.Str(a.Field), a.Size)
	case "histogram":
		k = fmt.Sprintf("(AHist %s %s)", coq.Str(a.Field), qCoq(float64(a.Interval)))
	case "percentile":
		ps := make([]string, len(a.Percents))
		for i, p := range a.Percents {
			ps[i] = qCoq(p)
		}
		k = fmt.Sprintf("(APct %s %s)", coq.Str(a.Field), coq.List(ps))
	case "field":
		k = "(AField " + coq.Str(a.Field) + ")"
	case "type":
		k = "(AType " + coq.Str(a.Field) + ")"
	default:
		k = "ACount"
	}
	return coq.Record("a_name", coq.Str(a.Name), "a_kind", k)
}

func randAggRows(rng *rand.Rand) []map[string]interface{} {
	n := rng.Intn(25)
	if rng.Intn(8) == 0 {
		n = 0
	}
	vals := []interface{}{1.0, 2.0, 2.0, 7.0, -3.0, 12.0, 2.5, 0.0, "x", "y", "x", "7", true, false, nil, []interface{}{1.0}, map[string]interface{}{"a": 1.0, "b": "z"}, map[string]interface{}{"a": 2.0}}
	rows := []map[string]interface{}{}
	for i := 0; i < n; i++ {
		d := map[string]interface{}{}
		for _, k := range []string{"f", "g"} {
			if rng.Intn(5) != 0 {
				d[k] = vals[rng.Intn(len(vals))]
			}
		}
		if rng.Intn(3) == 0 {
			d["n"] = map[string]interface{}{"k": vals[rng.Intn(8)]}
		}
		rows = append(rows, d)
	}
	return rows
}

func randAggs(rng *rand.Rand) []tAgg {
	n := 1 + rng.Intn(4)
	out := []tAgg{}
	fields := []string{"f", "g", "n.k", "missing"}
	for i := 0; i < n; i++ {
		f := fields[rng.Intn(len(fields))]
		name := fmt.Sprintf("a%d", i)
		switch rng.Intn(6) {
		case 0:
			out = append(out, tAgg{Name: name, Kind: "term", Field: f, Size: uint32([]int{0, 1, 2, 5}[rng.Intn(4)])})
		case 1:
			out = append(out, tAgg{Name: name, Kind: "histogram", Field: f, Interval: uint32([]int{1, 2, 5, 10}[rng.Intn(4)])})
		case 2:
			ps := [][]float64{{50}, {0, 25, 50, 75, 100}, {10, 90}, {}, {0.5, 1, 2, 50, 99}, {1, 99.5}}[rng.Intn(6)]
			out = append(out, tAgg{Name: name, Kind: "percentile", Field: f, Percents: ps})
		case 3:
			out = append(out, tAgg{Name: name, Kind: "field", Field: f})
		case 4:
			out = append(out, tAgg{Name: name, Kind: "type", Field: f})
		default:
			out = append(out, tAgg{Name: name, Kind: "count"})
		}
	}
	return out
}

func runC19(ctx *Ctx) error {
	ctx.EvalMod = "Eval_C19"
	ctx.CaseTy = "c19_case"
	ctx.Shard = 60
	ctx.Rule = "multisets of 0-24 rows whose fields f, g, n.k hold missing / null / booleans / numbers (negative, zero, fractions, duplicates) / numeric and other text / lists / maps; 1-4 aggregations per step drawn from term(size 0,1,2,5) / histogram(interval 1,2,5,10) / percentile / field / type / count, run through V().aggregate() on kvgraph (one run in 15 through V().outNull(l).aggregate(): the same number of rows as null travelers, every field missing); percents below and above 1; non-trivial = at least 3 rows and an aggregation over a field that some row has; distinct by (rows, aggregations)"
	var inputs []c19Input
	if ctx.Replay != nil {
		var in c19Input
		if err := json.Unmarshal(ctx.Replay, &in); err != nil {
			return err
		}
		inputs = []c19Input{in}
	} else {
		// corpus: the defects repaired by fix: commits
		inputs = append(inputs,
			c19Input{Rows: []map[string]interface{}{}, Aggs: []tAgg{{Name: "h", Kind: "histogram", Field: "f", Interval: 5}}},
			c19Input{Rows: []map[string]interface{}{{"f": "x"}, {"f": "x"}, {"f": "y"}, {"f": "z"}, {"f": "z"}, {"f": "z"}}, Aggs: []tAgg{{Name: "t", Kind: "term", Field: "f", Size: 1}}},
			c19Input{Rows: []map[string]interface{}{{"f": 1.0}, {"g": 2.0}, {"f": "abc"}, {"f": 5.0}}, Aggs: []tAgg{{Name: "p", Kind: "percentile", Field: "f", Percents: []float64{0, 50, 100}}, {Name: "h", Kind: "histogram", Field: "f", Interval: 2}}},
		)
		// percents below and above 1 on many values; rows that arrive as null travelers
		many := []map[string]interface{}{}
		for k := 1; k <= 200; k++ {
			many = append(many, map[string]interface{}{"f": float64(k)})
		}
		inputs = append(inputs,
			c19Input{Rows: many, Aggs: []tAgg{{Name: "p", Kind: "percentile", Field: "f", Percents: []float64{0.5, 1, 2, 10, 50, 99, 100}}}},
			c19Input{Rows: many[:4], Null: true, Aggs: []tAgg{{Name: "c", Kind: "count"}, {Name: "y", Kind: "type", Field: "f"}, {Name: "t", Kind: "term", Field: "f"}}},
			c19Input{Rows: many[:1], Null: true, Aggs: []tAgg{{Name: "c", Kind: "count"}}},
			// an aggregation that is refused (interval 0) next to others in the same step: the others still summarise every row
			c19Input{Rows: many, Aggs: []tAgg{{Name: "h", Kind: "histogram", Field: "f", Interval: 0}, {Name: "c", Kind: "count"}, {Name: "t", Kind: "term", Field: "f", Size: 3}, {Name: "y", Kind: "type", Field: "f"}}},
			c19Input{Rows: many[:30], Aggs: []tAgg{{Name: "c", Kind: "count"}, {Name: "h", Kind: "histogram", Field: "f", Interval: 0}, {Name: "h2", Kind: "histogram", Field: "f", Interval: 10}}})
		for i := 0; i < ctx.Pick(150, 1500); i++ {
			in := c19Input{Rows: randAggRows(ctx.Rng), Aggs: randAggs(ctx.Rng)}
			in.Null = i%15 == 7
			inputs = append(inputs, in)
		}
	}
	reqs := make([]json.RawMessage, len(inputs))
	for i, in := range inputs {
		reqs[i], _ = json.Marshal(in)
	}
	res := runIsolated("agg", reqs, 12, 60*time.Second)
	for i, in := range inputs {
		var o tOutcome
		r := res[i]
		if r.Crashed || r.Timeout || json.Unmarshal(r.Out, &o) != nil {
			o = tOutcome{Err: "crash/timeout: " + lastLines(r.Stderr, 10), Rows: []interface{}{map[string]interface{}{"agg": "WORKER-CRASH", "key": "x", "value": 0.0}}}
		}
		rows := make([]string, len(in.Rows))
		for k, r := range in.Rows {
			if in.Null {
				r = map[string]interface{}{}
			}
			rows[k] = jmapCoq(normArg(r).(map[string]interface{}))
		}
		aggs := make([]string, len(in.Aggs))
		for k, a := range in.Aggs {
			aggs[k] = aggCoq(a)
		}
		obs := []string{}
		for _, r := range o.Rows {
			m, ok := r.(map[string]interface{})
			if !ok || m["agg"] == nil {
				obs = append(obs, fmt.Sprintf("(%s, JNull, %s)", coq.Str("NOT-AN-AGGREGATION-ROW"), qCoq(0)))
				continue
			}
			v, _ := m["value"].(float64)
			key := m["key"]
			if nan, _ := m["nan"].(bool); nan || math.IsNaN(v) {
				v = 0
				key = "NaN-VALUE" // only acceptable for a percentile over no numeric value at all
			}
			obs = append(obs, fmt.Sprintf("(%s, %s, %s)", coq.Str(m["agg"].(string)), jvCoq(normArg(key)), qCoq(v)))
		}
		if !o.Closed && o.Err == "" {
			obs = append(obs, fmt.Sprintf("(%s, JNull, %s)", coq.Str("STREAM-NOT-CLOSED"), qCoq(0)))
		}
		nt := len(in.Rows) >= 3
		key, _ := json.Marshal(in)
		tags := []string{"rows=" + bucket(len(in.Rows))}
		for _, a := range in.Aggs {
			tags = append(tags, "agg="+a.Kind)
		}
		ctx.Add(Case{Input: in, Observed: o, Coq: coq.Record("crows", coq.List(rows), "caggs", coq.List(aggs), "cobs", coq.List(obs)),
			Nontrivial: nt, Key: string(key), Tags: tags})
	}
	return nil
}
