package main

import (
	"context"

	"github.com/bmeg/grip/engine/core"
	"github.com/bmeg/grip/gdbi"
)

// honourLoad wraps a GraphInterface so that vertex reads really drop the properties when the planner
// says load=false (kvgraph ignores the hint for vertices, which hides elision mistakes)
type honourLoad struct {
	gdbi.GraphInterface
}

func (h honourLoad) Compiler() gdbi.Compiler { return core.NewCompiler(h, core.IndexStartOptimize) }

func blank(v *gdbi.Vertex, load bool) *gdbi.Vertex {
	if v == nil || load {
		return v
	}
	return &gdbi.Vertex{ID: v.ID, Label: v.Label, Data: map[string]interface{}{}, Loaded: false}
}

func (h honourLoad) GetVertex(key string, load bool) *gdbi.Vertex {
	return blank(h.GraphInterface.GetVertex(key, load), load)
}
func (h honourLoad) GetVertexList(ctx context.Context, load bool) <-chan *gdbi.Vertex {
	out := make(chan *gdbi.Vertex, 100)
	go func() {
		defer close(out)
		for v := range h.GraphInterface.GetVertexList(ctx, load) {
			out <- blank(v, load)
		}
	}()
	return out
}
func (h honourLoad) wrapCh(in chan gdbi.ElementLookup, load bool) chan gdbi.ElementLookup {
	out := make(chan gdbi.ElementLookup, 100)
	go func() {
		defer close(out)
		for r := range in {
			if r.Vertex != nil {
				r.Vertex = blank(r.Vertex, load)
			}
			out <- r
		}
	}()
	return out
}
func (h honourLoad) GetVertexChannel(ctx context.Context, req chan gdbi.ElementLookup, load bool) chan gdbi.ElementLookup {
	return h.wrapCh(h.GraphInterface.GetVertexChannel(ctx, req, load), load)
}
func (h honourLoad) GetOutChannel(ctx context.Context, req chan gdbi.ElementLookup, load bool, emitNull bool, labels []string) chan gdbi.ElementLookup {
	return h.wrapCh(h.GraphInterface.GetOutChannel(ctx, req, load, emitNull, labels), load)
}
func (h honourLoad) GetInChannel(ctx context.Context, req chan gdbi.ElementLookup, load bool, emitNull bool, labels []string) chan gdbi.ElementLookup {
	return h.wrapCh(h.GraphInterface.GetInChannel(ctx, req, load, emitNull, labels), load)
}
