(* Correspondence evaluator for C16. *)
From Coq Require Import List NArith Bool Arith.
Import ListNotations.
From Grip Require Export Model.Bytes Model.Keys.

Inductive c16_kind := KGraphName | KVertex | KEdge | KFieldName | KValue
| KKeys.   (* the key constructors of kvgraph/keys.go and kvindex/keys.go, byte for byte *)
Record c16_case := {
  ck : c16_kind; cg : bytes; cid : bytes; clabel : bytes; cfrom : bytes; cto : bytes;
  cacc : bool;      (* the write call returned no error *)
  cread : bool;     (* read back identical through lookup, listing and traversal, exactly once *)
  cothers : bool;   (* every other element / graph observed unchanged *)
  cfield : bytes;   (* KKeys: the index field name *)
  ckeys : list bytes  (* KKeys: the keys and prefixes the real constructors returned (order of model_keys) *)
}.

(* KKeys: cg = graph, cid = vertex / edge / document id, clabel = label / term, cfrom, cto = endpoints *)
Definition model_keys (c : c16_case) : list bytes :=
  let g := cg c in let v := cid c in let l := clabel c in let s := cfrom c in let d := cto c in let f := cfield c in
  [graph_key g; vertex_key g v; vertex_list_prefix g; edge_key g v s d l; edge_key_prefix g v; edge_list_prefix g;
   src_key g s d v l; src_edge_prefix g s; dst_key g s d v l; dst_edge_prefix g d;
   entry_key f l v; entry_value_prefix f l; entry_prefix f; term_key f l; term_prefix f].
Fixpoint keys_eqb (a b : list bytes) : bool :=
  match a, b with [], [] => true | x :: r, y :: r' => beqb x y && keys_eqb r r' | _, _ => false end.

Definition lit_label : bytes := [108; 97; 98; 101; 108]%N.   (* "label": refused by the index layer *)
Definition reserved : list bytes :=
  [[95;103;105;100]; [95;108;97;98;101;108]; [95;116;111]; [95;102;114;111;109]; [95;100;97;116;97]]%N.

Definition model_accepts (c : c16_case) : bool :=
  match ck c with
  | KGraphName => valid_name_b (cg c)
  | KVertex => valid_id_b (cid c) && valid_id_b (clabel c) && negb (beqb (clabel c) lit_label)
  | KEdge => valid_id_b (cid c) && valid_id_b (clabel c) && valid_id_b (cfrom c) && valid_id_b (cto c)
             && negb (beqb (clabel c) lit_label)
  | KFieldName => valid_name_b (cid c) && negb (existsb (beqb (cid c)) reserved)
  | KValue => true
  | KKeys => true
  end.

Definition agrees (c : c16_case) : bool :=
  match ck c with
  | KKeys => keys_eqb (model_keys c) (ckeys c)
  | _ => Bool.eqb (model_accepts c) (cacc c)
  end.
(* the property itself: accepted => read back verbatim and nothing else changed; refused => nothing changed *)
Definition spec_ok (c : c16_case) : bool :=
  match ck c with
  | KKeys => keys_eqb (model_keys c) (ckeys c)     (* the theorems of Properties/C16.v are about exactly these byte strings *)
  | _ => if cacc c then cread c && cothers c else cothers c
  end.

Fixpoint idx_where {X} (p : X -> bool) (i : nat) (l : list X) : list nat :=
  match l with [] => [] | x :: r => if p x then i :: idx_where p (S i) r else idx_where p (S i) r end.
Definition mismatches (cs : list c16_case) := idx_where (fun c => negb (agrees c)) 0 cs.
Definition spec_violations (cs : list c16_case) := idx_where (fun c => negb (spec_ok c)) 0 cs.
Definition explain (c : c16_case) := (model_accepts c, spec_ok c).
