(* C02  Query planning (index rewrite, load elision) never changes answers.
   Proved here, for every graph with unique vertex ids and every program:
     - C02_plan_same_rows: the start rewrite of the planner (Model/Optimize.v, the model of
       core.IndexStartOptimize: and()-flattening of the leading filter run, the first id filter turned into
       V(ids), else the first label filter turned into an index lookup) hands the rest of the program the same
       MULTISET of rows under the same static type as the literal program does, or both are rejected;
     - C02_plan_equiv: hence for programs without windows/distinct the plan returns the same multiset of rows
       (with windows the rows kept may differ, as they may for any two scans; C01_window covers their count);
     - C02_spellings, C02_count, C02_order_free: the model-level facts these rest on.
   The model of the rewrite is tied to the Go function on every run: the statement list it returns for ~1,000
   programs must be the list Model/Optimize.v computes (Run/Eval_C02.v, CPlan cases).
     - C02_loads_cover / C02_reads_loaded / C02_selected_loaded: the load-elision analysis (Model/LoadPlan.v,
       the model of inspect.PipelineSteps, PipelineStepOutputs and State.StepLoadData) marks for loading, in
       EVERY program, the step of every element some statement reads -- directly, or through ANY mark of the
       name it uses (a name may be marked more than once) --, every selected mark, and the element returned.
   Both models are tied to the Go functions on every run (Run/Eval_C02.v, CPlan / CLoad cases).
   Not proved: that a step which is marked behaves, in every backend, as a loaded one, and that an unmarked
   element's data is never looked at by a processor (the processors are not modelled at the level of loads);
   the check runs every generated program through the production compiler on kvgraph AND on a backend that
   honours the "do not load" hint, and compares the rows with Model/Traversal.v. *)
From Coq Require Import List ZArith String Bool NArith Permutation.
Import ListNotations.
From Grip Require Import Model.Json Model.Has Model.Traversal Model.Optimize Model.LoadPlan Proofs.TraversalProofs Proofs.OptimizeProofs Proofs.PlannerProofs Proofs.LoadPlanProofs.
Local Open Scope string_scope.
Local Open Scope list_scope.

Theorem C02_spellings : forall g d ts x xs, Forall (fun t => t_cur t <> None) ts ->
  step g d (SHas (HCond "_label" CEq (JStr x))) ts = step g d (SHasLabel [x]) ts /\
  step g d (SHas (HCond "_label" CWithin (JList (map JStr xs)))) ts = step g d (SHasLabel xs) ts /\
  step g d (SHas (HAnd [HCond "_label" CEq (JStr x)])) ts = step g d (SHasLabel [x]) ts /\
  step g d (SHas (HCond "_gid" CEq (JStr x))) ts = step g d (SHasId [x]) ts /\
  step g d (SHas (HCond "_gid" CWithin (JList (map JStr xs)))) ts = step g d (SHasId xs) ts.
Proof. exact step_label_spellings. Qed.
Print Assumptions C02_spellings.

Theorem C02_count : forall g p ty out, run_from g (DNone, []) p [t0] = Some (ty, out) ->
  exists ty' c, run_from g (DNone, []) (p ++ [SCount]) [t0] = Some (ty', [c]) /\ fst ty' = DCount /\
                t_count c = N.of_nat (List.length out).
Proof. exact count_is_length. Qed.
Print Assumptions C02_count.

Theorem C02_order_free : forall g p ts a b, forallb order_free p = true -> Permutation a b ->
  match run_from g ts p a, run_from g ts p b with
  | Some (t1, o1), Some (t2, o2) => t1 = t2 /\ Permutation o1 o2
  | None, None => True
  | _, _ => False
  end.
Proof. intros g p ts a b Hp Hab. now apply run_perm. Qed.
Print Assumptions C02_order_free.

(* ---------- the planner's start rewrite ---------- *)
Theorem C02_plan_same_rows : forall g p, NoDup (map v_id (gv g)) ->
  exists pre post ok ty rows1 rows2,
    p = pre ++ post /\ Permutation rows1 rows2 /\
    run_from g (DNone, []) p [t0] = feeds ok ty post rows1 g /\
    run_plan g (optimize p) = feeds ok ty post rows2 g.
Proof. exact optimize_feeds_same_rows. Qed.
Print Assumptions C02_plan_same_rows.

Theorem C02_plan_equiv : forall g p, NoDup (map v_id (gv g)) -> forallb order_free p = true ->
  match run_from g (DNone, []) p [t0], run_plan g (optimize p) with
  | Some (t1, o1), Some (t2, o2) => t1 = t2 /\ Permutation o1 o2
  | None, None => True
  | _, _ => False
  end.
Proof. exact optimize_equiv. Qed.
Print Assumptions C02_plan_equiv.

(* the rewrite fires (ids and labels), flattens nested and(), and the premises are met *)
Example C02_plan_nonvacuous :
  let g := {| gv := [{| v_id := "a"; v_label := "P"; v_data := [] |}; {| v_id := "b"; v_label := "Q"; v_data := [] |};
                     {| v_id := "c"; v_label := "P"; v_data := [] |}]; ge := [] |} in
  let p1 := [SV []; SHas (HAnd [HCond "name" CEq (JStr "x"); HAnd [HCond "_label" CWithin (JList [JStr "P"; JStr "P"])]]); SOut []] in
  let p2 := [SV []; SHasLabel ["P"]; SHas (HCond "$._gid" CEq (JStr "c")); SCount] in
  optimize p1 = [OLookup ["P"]; OS (SHas (HCond "name" CEq (JStr "x"))); OS (SOut [])] /\
  optimize p2 = [OS (SV ["c"]); OS (SHasLabel ["P"]); OS SCount] /\
  NoDup (map v_id (gv g)) /\ forallb order_free p2 = true /\
  option_map (fun r => List.length (snd r)) (run_plan g (optimize [SV []; SHasLabel ["P"]])) = Some 2%nat.
Proof. cbv. repeat split; try reflexivity. repeat constructor; simpl; intuition discriminate. Qed.

(* ---------- load elision ---------- *)
Theorem C02_loads_cover : forall p, reads_covered p (outputs p) = true.
Proof. exact analysis_covers. Qed.
Print Assumptions C02_loads_cover.

Theorem C02_reads_loaded : forall p i k s f, nth_error (indexed p) i = Some (k, s) -> In f (stmt_fields s) ->
  match namespace f with
  | None => loads (outputs p) k = true
  | Some m => forall j, In (m, j) (as_steps (indexed p)) -> loads (outputs p) j = true
  end.
Proof. exact reads_loaded. Qed.
Print Assumptions C02_reads_loaded.

Theorem C02_selected_loaded : forall p i k ms m j, nth_error (indexed p) i = Some (k, SSelect ms) -> In m ms ->
  In (m, j) (as_steps (indexed p)) -> loads (outputs p) j = true.
Proof. exact selected_loaded. Qed.
Print Assumptions C02_selected_loaded.

(* the analysis as the compiler runs it, on whatever statement list the planner returns *)
Theorem C02_plan_loads_cover : forall p, plan_reads_covered (optimize p) (plan_outputs (optimize p)) = true.
Proof. intros p. apply plan_analysis_covers. Qed.
Print Assumptions C02_plan_loads_cover.

(* programs with statements outside the C01 alphabet (aggregate, set, increment, jump, mark, null-producing moves) *)
Theorem C02_x_loads_cover : forall p, x_reads_covered p (x_outputs p) = true.
Proof. exact x_analysis_covers. Qed.
Print Assumptions C02_x_loads_cover.

(* a name marked twice: the read between the two marks keeps the first step loaded; an unread step is elided *)
Example C02_loads_nonvacuous :
  let p := [SV []; SAs "m"; SOut []; SHas (HCond "$m.name" CEq (JStr "x")); SOut []; SAs "m"; SOut []; SCount] in
  step_ids p = [1; 1; 2; 2; 3; 3; 4; 4]%nat /\
  map (loads (outputs p)) [1; 2; 3; 4]%nat = [true; true; true; false].
Proof. vm_compute. split; reflexivity. Qed.
