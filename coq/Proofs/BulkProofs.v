From Coq Require Import List NArith Arith Bool String Lia.
Import ListNotations.
From Grip Require Import Model.Bytes Model.Keys Model.Traversal Model.Bulk.

Section BP.
  Variable exists_graph : string -> bool.
  Notation seq_step := (seq_step exists_graph). Notation bulk_step := (bulk_step exists_graph).

  Lemma fold_log_add_app l g a b :
    fold_left (fun l w => log_add l g w) (a ++ b) l = fold_left (fun l w => log_add l g w) b (fold_left (fun l w => log_add l g w) a l).
  Proof. apply fold_left_app. Qed.

  Definition ok (s : bstate) : Prop :=
    match s_cur s with Some g => exists_graph g = true | None => s_pending s = [] end.

  (* one element: the bulk loop's state, once its open stream is flushed, moves as the sequential result does *)
  Lemma bulk_step_flush s e : ok s -> flush (bulk_step s e) = seq_step (flush s) e /\ ok (bulk_step s e).
  Proof.
    destruct s as [cur pend res]. unfold ok, Bulk.bulk_step, Bulk.seq_step; cbn [s_cur s_pending s_res].
    intros Hc. destruct (is_schema_graph (b_graph e)) eqn:Esch.
    - split; [|exact Hc]. unfold flush; cbn [s_cur s_pending s_res]. destruct cur; reflexivity.
    - destruct cur as [g|].
      + destruct (String.eqb (b_graph e) g) eqn:Eeq.
        * apply String.eqb_eq in Eeq. rewrite Eeq, Hc. cbn [negb].
          destruct (writes_of e) as [[ws i] x]. split; [|exact Hc].
          unfold flush; cbn [s_cur s_pending s_res r_logs r_ins r_err]. rewrite fold_log_add_app. reflexivity.
        * destruct (exists_graph (b_graph e)) eqn:Eex; cbn [negb].
          -- destruct (writes_of e) as [[ws i] x]. split; [|exact Eex].
             unfold flush; cbn [s_cur s_pending s_res r_logs r_ins r_err app]. reflexivity.
          -- split; [|reflexivity]. unfold flush; cbn [s_cur s_pending s_res]. reflexivity.
      + destruct (exists_graph (b_graph e)) eqn:Eex; cbn [negb].
        * destruct (writes_of e) as [[ws i] x]. split; [|exact Eex].
          unfold flush; cbn [s_cur s_pending s_res r_logs r_ins r_err app]. reflexivity.
        * split; [|reflexivity]. unfold flush; cbn [s_cur s_pending s_res]. reflexivity.
  Qed.

  Lemma bulk_seq_inv es : forall s, ok s -> flush (fold_left bulk_step es s) = fold_left seq_step es (flush s).
  Proof.
    induction es as [|e es IH]; intros s Hc; [reflexivity|]. cbn [fold_left].
    destruct (bulk_step_flush s e Hc) as [Hf Hc']. rewrite IH by exact Hc'. rewrite Hf. reflexivity.
  Qed.

  (* for EVERY stream: same per-graph write logs, same insert count, same error count *)
  Theorem bulk_is_sequential es : bulk_run exists_graph es = seq_run exists_graph es.
  Proof. unfold bulk_run, seq_run. rewrite bulk_seq_inv by reflexivity. reflexivity. Qed.
End BP.

(* batching does not change the result, for every batch size >= 1 and every stream length *)
Section BatchProofs.
  Variable X St : Type.
  Variable add1 : St -> X -> St.
  Lemma chunks_concat k : 0 < k -> forall fuel (l : list X), List.length l <= fuel -> List.concat (chunks fuel k l) = l.
  Proof.
    intros Hk. induction fuel as [|f IH]; intros l Hl.
    - destruct l; [reflexivity|cbn in Hl; lia].
    - destruct l as [|x r]; [reflexivity|]. cbn [chunks List.concat]. rewrite IH.
      + apply firstn_skipn.
      + rewrite skipn_length. cbn [List.length] in *. lia.
  Qed.
  Lemma fold_concat (bs : list (list X)) : forall s, fold_left (add_batch add1) bs s = fold_left add1 (List.concat bs) s.
  Proof. induction bs as [|b r IH]; intros s; [reflexivity|]. cbn [fold_left List.concat]. rewrite fold_left_app. apply IH. Qed.
  Theorem batched_is_sequential k (l : list X) s : 0 < k -> batched add1 k l s = fold_left add1 l s.
  Proof. intros Hk. unfold batched. rewrite fold_concat, chunks_concat by (auto; lia). reflexivity. Qed.
  Lemma chunks_bound k : 0 < k -> forall fuel (l : list X), Forall (fun b => List.length b <= k) (chunks fuel k l) \/ fuel < List.length l.
  Proof.
    intros Hk. induction fuel as [|f IH]; intros l.
    - destruct l; [left; repeat constructor; cbn; lia|right; cbn; lia].
    - destruct l as [|x r]; [left; constructor|]. cbn [chunks]. destruct (IH (skipn k (x :: r))) as [H|H].
      + left. constructor; [rewrite firstn_length; lia|exact H].
      + right. rewrite skipn_length in H. cbn [List.length] in *. lia.
  Qed.
End BatchProofs.
