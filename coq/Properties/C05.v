(* C05  Every exposed RPC is mediated by authentication and per-graph authorization.
   The tables (exposed methods, method->operation map, graph extraction cases, stream cases with
   "Enforce dominates handler", gateway wiring) are REGENERATED from /repo's source by the translator on every
   run (Gen/AuthTables.v); the interceptor logic over them is Model/Auth.v. The theorems quantify over every
   credential validator, every policy, every exposed method, every request graph and every metadata. *)
From Coq Require Import List String Bool.
Import ListNotations.
From Grip Require Import Model.AuthTypes Gen.AuthTables Model.Auth.
Local Open Scope string_scope.

(* the finite part: decided by computation over the regenerated tables *)
Lemma tables_check : tables_ok = true.
Proof. vm_compute. reflexivity. Qed.
Lemma all_methods_check : forallb method_ok exposed = true.
Proof. vm_compute. reflexivity. Qed.

Lemma exposed_ok : forall m k, In (m, k) exposed -> method_ok (m, k) = true.
Proof. intros m k Hin. exact (proj1 (forallb_forall method_ok exposed) all_methods_check (m, k) Hin). Qed.

Section AnyPolicy.
  Variable user metadata : Type.
  Variable validate : metadata -> option user.
  Variable grants : user -> string -> op -> bool.

  (* a handler runs only for validated credentials and a policy that grants (user, graph named in the request
     or "*", the method's operation class) *)
  Theorem C05_mediation : forall m k md g, In (m, k) exposed ->
    serve user metadata validate grants m k md g = RunsHandler ->
    exists u o, validate md = Some u /\ lookup m method_map = Some o /\
                (grants u g o = true \/ grants u "*" o = true).
  Proof.
    intros m k md g Hin Hs. pose proof (exposed_ok m k Hin) as Hok. unfold method_ok in Hok.
    destruct (lookup m method_map) as [o|] eqn:Eo; [|discriminate].
    unfold serve in Hs. destruct k.
    - unfold unary_intercept in Hs. destruct (validate md) as [u|] eqn:Ev; [|discriminate]. rewrite Eo in Hs.
      destruct (lookup m unary_graph) as [[| |]|] eqn:Eg; try discriminate; simpl in Hs.
      + destruct (grants u g o) eqn:Egr; [|discriminate]. exists u, o. auto.
      + destruct (grants u "*" o) eqn:Egr; [|discriminate]. exists u, o. auto.
    - unfold stream_intercept in Hs. destruct (validate md) as [u|] eqn:Ev; [|discriminate].
      destruct (lookup m stream_cases) as [c|] eqn:Ec; [|discriminate].
      repeat (apply andb_true_iff in Hok as [Hok ?]). rewrite Hok in Hs.
      assert (op_of (sc_op c) m = Some o) as Hop.
      { destruct (sc_op c) as [|x|]; simpl; auto; try discriminate.
        destruct x, o; simpl in *; try discriminate; reflexivity. }
      rewrite Hop in Hs. destruct (sc_graph c); simpl in Hs; try discriminate.
      + destruct (grants u g o) eqn:Egr; [|discriminate]. exists u, o. auto.
      + destruct (grants u "*" o) eqn:Egr; [|discriminate]. exists u, o. auto.
    - (* client stream: BulkAdd goes through the filter, never the bare handler *)
      unfold stream_intercept in Hs. destruct (validate md); [|discriminate].
      repeat (apply andb_true_iff in Hok as [Hok ?]). rewrite Hok in Hs.
      match goal with H : bulk_add_filtered = true |- _ => rewrite H in Hs end. discriminate.
    - discriminate.
  Qed.

  (* streamed bulk writes: the handler only ever sees elements of graphs the user may write, in stream order *)
  Theorem C05_bulk : forall (E : Type) m md g u (stream : list (string * E)), In (m, ClientStream) exposed ->
    serve user metadata validate grants m ClientStream md g = RunsHandlerFiltered ->
    validate md = Some u ->
    bulk_filter user grants u stream = filter (fun x => grants u (fst x) OpWrite) stream /\
    forall x, In x (bulk_filter user grants u stream) -> grants u (fst x) OpWrite = true.
  Proof.
    intros E m md g u stream Hin _ _. pose proof (exposed_ok m ClientStream Hin) as Hok. unfold method_ok in Hok.
    destruct (lookup m method_map); [|discriminate]. repeat (apply andb_true_iff in Hok as [Hok ?]).
    unfold bulk_filter. match goal with H : bulk_filter_enforces = true |- _ => rewrite H end.
    split; auto. intros x Hx. apply filter_In in Hx. tauto.
  Qed.

  (* refusals: bad credentials never reach a handler, whatever the method *)
  Theorem C05_unauthenticated : forall m k md g, validate md = None ->
    serve user metadata validate grants m k md g = Unauthenticated \/
    serve user metadata validate grants m k md g = Refused.
  Proof.
    intros m k md g H. unfold serve, unary_intercept, stream_intercept. rewrite H. destruct k; auto.
  Qed.
End AnyPolicy.

(* with no accounts configured (every credential validates, every request is granted) every exposed method
   remains callable *)
Theorem C05_open : forall (user metadata : Type) (u0 : user) m k (md : metadata) g, In (m, k) exposed ->
  let v := serve user metadata (fun _ => Some u0) (fun _ _ _ => true) m k md g in
  v = RunsHandler \/ v = RunsHandlerFiltered.
Proof.
  intros user metadata u0 m k md g Hin. pose proof (exposed_ok m k Hin) as Hok. unfold method_ok in Hok.
  destruct (lookup m method_map) as [o|] eqn:Eo; [|discriminate].
  unfold serve. destruct k; simpl.
  - unfold unary_intercept. rewrite Eo. destruct (lookup m unary_graph) as [[| |]|]; try discriminate; simpl; auto.
  - unfold stream_intercept. destruct (lookup m stream_cases) as [c|]; [|discriminate].
    destruct (sc_enforced c); auto. destruct (graph_of (sc_graph c) g), (op_of (sc_op c) m); auto.
  - unfold stream_intercept. repeat (apply andb_true_iff in Hok as [Hok ?]). rewrite Hok.
    match goal with H : bulk_add_filtered = true |- _ => rewrite H end. auto.
  - discriminate.
Qed.

(* every transport is wired through the interceptors *)
(* the operation class a method is enforced with fits what the method does: whatever adds to or deletes from stored data
   needs the write class, whatever only reads the read class (decided over the regenerated method table) *)
Lemma classes_check : classes_ok = true.
Proof. vm_compute. reflexivity. Qed.
Theorem C05_mutators_need_write : forall m o, In (m, o) method_map ->
  prefix "/gripql.Configure/" m = false ->
  (prefix "Add" (verb_of m) || prefix "Delete" (verb_of m) || prefix "Bulk" (verb_of m) = true -> o = OpWrite) /\
  (prefix "Add" (verb_of m) || prefix "Delete" (verb_of m) || prefix "Bulk" (verb_of m) = false ->
   prefix "Get" (verb_of m) || prefix "List" (verb_of m) || prefix "Search" (verb_of m) || prefix "View" (verb_of m) = true -> o = OpRead).
Proof.
  intros m o Hin Hc. pose proof (proj1 (forallb_forall class_rule method_map) classes_check (m, o) Hin) as H.
  unfold class_rule in H. cbn [fst snd] in H. rewrite Hc in H. split.
  - intros Hw. rewrite Hw in H. destruct o; try discriminate H; reflexivity.
  - intros Hw Hr. rewrite Hw, Hr in H. destruct o; try discriminate H; reflexivity.
Qed.
Print Assumptions C05_mutators_need_write.

(* the credential check (accounts/basic.go): a name validates only as a configured account presented with that
   account's password -- in particular never for a name that is not an account, whatever the password *)
Theorem C05_basic_credentials : forall accounts hdr u, basic_validate accounts hdr = Some u ->
  exists p, hdr = Some (u, p) /\ In (u, p) accounts.
Proof.
  intros accounts [[hu hp]|] u H; cbn in H; [| discriminate H].
  destruct (existsb _ accounts) eqn:E; [| discriminate H]. injection H as <-.
  apply existsb_exists in E as [[cu cp] [Hin Hc]]. cbn in Hc. apply andb_true_iff in Hc as [H1 H2].
  apply String.eqb_eq in H1, H2. subst. exists hp. split; [reflexivity | exact Hin].
Qed.
Print Assumptions C05_basic_credentials.

(* the policy check (accounts/casbin.go with the repository's matcher): a request is granted only to root or on the
   strength of a line of the policy that names the user and covers the graph and the operation class -- a grant for one
   class or graph never carries over to another, and the verdict does not depend on earlier requests *)
Theorem C05_casbin_needs_rule : forall policy u g o, casbin_allows policy (u, g, o) = true ->
  u = "root"%string \/ exists pg po, In (u, pg, po) policy /\ (pg = g \/ pg = "*"%string) /\ (po = o \/ po = "*"%string).
Proof.
  intros policy u g o H. unfold casbin_allows in H. apply orb_true_iff in H as [H|H].
  - right. apply existsb_exists in H as [[[pu pg] po] [Hin Hl]]. cbn in Hl.
    apply andb_true_iff in Hl as [Hl Ho]. apply andb_true_iff in Hl as [Hu Hg].
    apply String.eqb_eq in Hu. subst pu. exists pg, po. split; [exact Hin|]. split.
    + apply orb_true_iff in Hg as [Hg|Hg]; apply String.eqb_eq in Hg; [left | right]; congruence.
    + apply orb_true_iff in Ho as [Ho|Ho]; apply String.eqb_eq in Ho; [left | right]; congruence.
  - left. cbn in H. now apply String.eqb_eq in H.
Qed.
Print Assumptions C05_casbin_needs_rule.

Theorem C05_wiring : forallb snd gateway_clients = true /\ grpc_server_chained = true /\ unrecognised = []
  /\ unary_shape_ok = true /\ stream_validates_first = true
  /\ server_stream_default = DRefuses /\ client_stream_default = DRefuses.
Proof. vm_compute. repeat split; reflexivity. Qed.

Print Assumptions C05_mediation.
Print Assumptions C05_bulk.
Print Assumptions C05_unauthenticated.
Print Assumptions C05_open.
Print Assumptions C05_wiring.
