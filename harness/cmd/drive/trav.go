package main

// Shared by C01, C02, C06, C11, C15: graphs, statements, running pipelines, canonical rows.

import (
	"context"
	"encoding/json"
	"fmt"
	"math/rand"
	"os"
	"sort"
	"time"

	"github.com/bmeg/grip/engine/core"
	"github.com/bmeg/grip/engine/inspect"
	"github.com/bmeg/grip/engine/pipeline"
	"github.com/bmeg/grip/gdbi"
	"github.com/bmeg/grip/gripql"
	"github.com/bmeg/grip/kvgraph"
	"github.com/bmeg/grip/kvi"
	"github.com/bmeg/grip/util/protoutil"
	"google.golang.org/protobuf/types/known/structpb"

	"gripverif/internal/coq"
)

type tVertex struct {
	ID    string                 `json:"id"`
	Label string                 `json:"label"`
	Data  map[string]interface{} `json:"data"`
}
type tEdge struct {
	ID    string                 `json:"id"`
	Label string                 `json:"label"`
	From  string                 `json:"from"`
	To    string                 `json:"to"`
	Data  map[string]interface{} `json:"data"`
}
type tGraph struct {
	V []tVertex `json:"v"`
	E []tEdge   `json:"e"`
}

type tStmt struct {
	Op   string      `json:"op"`
	Strs []string    `json:"strs,omitempty"`
	Str  string      `json:"str,omitempty"`
	Has  *hExpr      `json:"has,omitempty"`
	N    int64       `json:"n,omitempty"`
	M    int64       `json:"m,omitempty"`
	Tpl  interface{} `json:"tpl,omitempty"`
	Aggs []tAgg      `json:"aggs,omitempty"`
}

func (g tGraph) coq() string {
	// the embedded stores scan in key order (graph, then id): the model graph lists elements in that order, so
	// that a window directly after a scan cuts the same rows in the model as in the store. Later duplicates of
	// an id overwrite earlier ones in the store: they are kept here in insertion order behind each other.
	g = g.sortedByID()
	vs := make([]string, len(g.V))
	for i, v := range g.V {
		vs[i] = coq.Record("v_id", coq.Str(v.ID), "v_label", coq.Str(v.Label), "v_data", jmapCoq(normArg(v.Data).(map[string]interface{})))
	}
	es := make([]string, len(g.E))
	for i, e := range g.E {
		es[i] = coq.Record("ed_id", coq.Str(e.ID), "ed_label", coq.Str(e.Label), "ed_from", coq.Str(e.From), "ed_to", coq.Str(e.To),
			"ed_data", jmapCoq(normArg(e.Data).(map[string]interface{})))
	}
	return coq.Record("gv", coq.List(vs), "ge", coq.List(es))
}

func (g tGraph) sortedByID() tGraph {
	out := tGraph{V: append([]tVertex{}, g.V...), E: append([]tEdge{}, g.E...)}
	sort.SliceStable(out.V, func(i, j int) bool { return out.V[i].ID < out.V[j].ID })
	sort.SliceStable(out.E, func(i, j int) bool { return out.E[i].ID < out.E[j].ID })
	return out
}

func (s tStmt) coq() string {
	switch s.Op {
	case "V":
		return "(SV " + coq.StrList(s.Strs) + ")"
	case "E":
		return "(SE " + coq.StrList(s.Strs) + ")"
	case "in":
		return "(SIn " + coq.StrList(s.Strs) + ")"
	case "out":
		return "(SOut " + coq.StrList(s.Strs) + ")"
	case "both":
		return "(SBoth " + coq.StrList(s.Strs) + ")"
	case "inE":
		return "(SInE " + coq.StrList(s.Strs) + ")"
	case "outE":
		return "(SOutE " + coq.StrList(s.Strs) + ")"
	case "bothE":
		return "(SBothE " + coq.StrList(s.Strs) + ")"
	case "inNull":
		return "(SInNull " + coq.StrList(s.Strs) + ")"
	case "outNull":
		return "(SOutNull " + coq.StrList(s.Strs) + ")"
	case "inENull":
		return "(SInENull " + coq.StrList(s.Strs) + ")"
	case "outENull":
		return "(SOutENull " + coq.StrList(s.Strs) + ")"
	case "has":
		return "(SHas " + s.Has.coq() + ")"
	case "hasLabel":
		return "(SHasLabel " + coq.StrList(s.Strs) + ")"
	case "hasId":
		return "(SHasId " + coq.StrList(s.Strs) + ")"
	case "hasKey":
		return "(SHasKey " + coq.StrList(s.Strs) + ")"
	case "as":
		return "(SAs " + coq.Str(s.Str) + ")"
	case "select":
		return "(SSelect " + coq.StrList(s.Strs) + ")"
	case "fields":
		return "(SFields " + coq.StrList(s.Strs) + ")"
	case "render":
		return "(SRender " + jvCoq(normArg(s.Tpl)) + ")"
	case "path":
		return "SPath"
	case "unwind":
		return "(SUnwind " + coq.Str(s.Str) + ")"
	case "distinct":
		return "(SDistinct " + coq.StrList(s.Strs) + ")"
	case "count":
		return "SCount"
	case "limit":
		return fmt.Sprintf("(SLimit %d%%N)", s.N)
	case "skip":
		return fmt.Sprintf("(SSkip %d%%N)", s.N)
	case "range":
		return fmt.Sprintf("(SRange (%d)%%Z (%d)%%Z)", s.N, s.M)
	}
	panic("stmt coq: " + s.Op)
}

func progCoq(p []tStmt) string {
	out := make([]string, len(p))
	for i, s := range p {
		out[i] = s.coq()
	}
	return coq.List(out)
}

func (s tStmt) proto() *gripql.GraphStatement {
	l := protoutil.NewListFromStrings(s.Strs)
	switch s.Op {
	case "V":
		return &gripql.GraphStatement{Statement: &gripql.GraphStatement_V{V: l}}
	case "E":
		return &gripql.GraphStatement{Statement: &gripql.GraphStatement_E{E: l}}
	case "in":
		return &gripql.GraphStatement{Statement: &gripql.GraphStatement_In{In: l}}
	case "out":
		return &gripql.GraphStatement{Statement: &gripql.GraphStatement_Out{Out: l}}
	case "both":
		return &gripql.GraphStatement{Statement: &gripql.GraphStatement_Both{Both: l}}
	case "inE":
		return &gripql.GraphStatement{Statement: &gripql.GraphStatement_InE{InE: l}}
	case "outE":
		return &gripql.GraphStatement{Statement: &gripql.GraphStatement_OutE{OutE: l}}
	case "bothE":
		return &gripql.GraphStatement{Statement: &gripql.GraphStatement_BothE{BothE: l}}
	case "inNull":
		return &gripql.GraphStatement{Statement: &gripql.GraphStatement_InNull{InNull: l}}
	case "outNull":
		return &gripql.GraphStatement{Statement: &gripql.GraphStatement_OutNull{OutNull: l}}
	case "inENull":
		return &gripql.GraphStatement{Statement: &gripql.GraphStatement_InENull{InENull: l}}
	case "outENull":
		return &gripql.GraphStatement{Statement: &gripql.GraphStatement_OutENull{OutENull: l}}
	case "has":
		return &gripql.GraphStatement{Statement: &gripql.GraphStatement_Has{Has: s.Has.proto()}}
	case "hasLabel":
		return &gripql.GraphStatement{Statement: &gripql.GraphStatement_HasLabel{HasLabel: l}}
	case "hasId":
		return &gripql.GraphStatement{Statement: &gripql.GraphStatement_HasId{HasId: l}}
	case "hasKey":
		return &gripql.GraphStatement{Statement: &gripql.GraphStatement_HasKey{HasKey: l}}
	case "as":
		return &gripql.GraphStatement{Statement: &gripql.GraphStatement_As{As: s.Str}}
	case "select":
		return &gripql.GraphStatement{Statement: &gripql.GraphStatement_Select{Select: &gripql.SelectStatement{Marks: s.Strs}}}
	case "fields":
		return &gripql.GraphStatement{Statement: &gripql.GraphStatement_Fields{Fields: l}}
	case "render":
		v, err := structpb.NewValue(normArg(s.Tpl))
		if err != nil {
			panic(err)
		}
		return &gripql.GraphStatement{Statement: &gripql.GraphStatement_Render{Render: v}}
	case "path":
		return &gripql.GraphStatement{Statement: &gripql.GraphStatement_Path{Path: protoutil.NewListFromStrings(nil)}}
	case "unwind":
		return &gripql.GraphStatement{Statement: &gripql.GraphStatement_Unwind{Unwind: s.Str}}
	case "distinct":
		return &gripql.GraphStatement{Statement: &gripql.GraphStatement_Distinct{Distinct: l}}
	case "count":
		return &gripql.GraphStatement{Statement: &gripql.GraphStatement_Count{}}
	case "limit":
		return &gripql.GraphStatement{Statement: &gripql.GraphStatement_Limit{Limit: uint32(s.N)}}
	case "skip":
		return &gripql.GraphStatement{Statement: &gripql.GraphStatement_Skip{Skip: uint32(s.N)}}
	case "range":
		return &gripql.GraphStatement{Statement: &gripql.GraphStatement_Range{Range: &gripql.Range{Start: int32(s.N), Stop: int32(s.M)}}}
	case "set":
		v, _ := structpb.NewValue(normArg(s.Tpl))
		return &gripql.GraphStatement{Statement: &gripql.GraphStatement_Set{Set: &gripql.Set{Key: s.Str, Value: v}}}
	case "increment":
		return &gripql.GraphStatement{Statement: &gripql.GraphStatement_Increment{Increment: &gripql.Increment{Key: s.Str, Value: int32(s.N)}}}
	case "mark":
		return &gripql.GraphStatement{Statement: &gripql.GraphStatement_Mark{Mark: s.Str}}
	case "jump":
		var e *gripql.HasExpression
		if s.Has != nil {
			e = s.Has.proto()
		}
		return &gripql.GraphStatement{Statement: &gripql.GraphStatement_Jump{Jump: &gripql.Jump{Mark: s.Str, Expression: e, Emit: s.N != 0}}}
	case "empty":
		return &gripql.GraphStatement{}
	case "aggregate":
		return &gripql.GraphStatement{Statement: &gripql.GraphStatement_Aggregate{Aggregate: &gripql.Aggregations{Aggregations: aggsProto(s.Aggs)}}}
	}
	panic("stmt proto: " + s.Op)
}

func progProto(p []tStmt) []*gripql.GraphStatement {
	out := make([]*gripql.GraphStatement, len(p))
	for i, s := range p {
		out[i] = s.proto()
	}
	return out
}

// ---------- store ----------
type graphEnv struct {
	dir string
	db  gdbi.GraphDB
	gi  gdbi.GraphInterface
}

func openGraph(driver string, g tGraph) (*graphEnv, error) {
	dir, _ := os.MkdirTemp("", "trg")
	kv, err := kvi.NewKVInterface(driver, dir+"/db", nil)
	if err != nil {
		return nil, err
	}
	db := kvgraph.NewKVGraph(kv)
	db.AddGraph("g")
	gi, err := db.Graph("g")
	if err != nil {
		return nil, err
	}
	for _, v := range g.V {
		s, _ := structpb.NewStruct(normArg(v.Data).(map[string]interface{}))
		if err := gi.AddVertex([]*gdbi.Vertex{gdbi.NewElementFromVertex(&gripql.Vertex{Gid: v.ID, Label: v.Label, Data: s})}); err != nil {
			return nil, err
		}
	}
	for _, e := range g.E {
		s, _ := structpb.NewStruct(normArg(e.Data).(map[string]interface{}))
		if err := gi.AddEdge([]*gdbi.Edge{gdbi.NewElementFromEdge(&gripql.Edge{Gid: e.ID, Label: e.Label, From: e.From, To: e.To, Data: s})}); err != nil {
			return nil, err
		}
	}
	return &graphEnv{dir: dir, db: db, gi: gi}, nil
}
func (e *graphEnv) close() {
	e.db.Close()
	os.RemoveAll(e.dir)
}

// ---------- running ----------
type tOutcome struct {
	Rejected bool          `json:"rejected,omitempty"`
	Err      string        `json:"err,omitempty"`
	Rows     []interface{} `json:"rows"`
	Closed   bool          `json:"closed"`
	Nil      int           `json:"nil_rows,omitempty"`
}

// literal pipeline: every statement through core.StatementProcessor, every step told to load its data, no optimiser
func compileLiteral(gi gdbi.GraphInterface, stmts []*gripql.GraphStatement) (gdbi.Pipeline, error) {
	if err := core.Validate(stmts, nil); err != nil {
		return nil, err
	}
	steps := inspect.PipelineSteps(stmts)
	outs := map[string][]string{}
	for _, s := range steps {
		outs[s] = []string{"*"}
	}
	ps := &pipeline.State{LastType: gdbi.NoData, MarkTypes: map[string]gdbi.DataType{}, Steps: steps, StepOutputs: outs}
	procs := []gdbi.Processor{}
	for i, gs := range stmts {
		ps.SetCurStatment(i)
		p, err := core.StatementProcessor(gs, gi, ps)
		if err != nil {
			return nil, err
		}
		procs = append(procs, p)
	}
	return core.NewPipeline(gi, procs, ps), nil
}

func runPipe(pipe gdbi.Pipeline, deadline time.Duration) tOutcome {
	wd, _ := os.MkdirTemp("", "trwd")
	defer os.RemoveAll(wd)
	ctx, cancel := context.WithCancel(context.Background())
	defer cancel()
	res := pipeline.Run(ctx, pipe, wd)
	out := tOutcome{Rows: []interface{}{}}
	timer := time.After(deadline)
	for {
		select {
		case r, ok := <-res:
			if !ok {
				out.Closed = true
				return out
			}
			if r == nil {
				out.Nil++
				out.Rows = append(out.Rows, nil)
			} else {
				out.Rows = append(out.Rows, canonRow(r))
			}
		case <-timer:
			return out
		}
	}
}

func runLiteral(gi gdbi.GraphInterface, p []tStmt, deadline time.Duration) tOutcome {
	pipe, err := compileLiteral(gi, progProto(p))
	if err != nil {
		return tOutcome{Rejected: true, Err: err.Error(), Rows: []interface{}{}}
	}
	return runPipe(pipe, deadline)
}
func runProduction(gi gdbi.GraphInterface, p []tStmt, deadline time.Duration) tOutcome {
	pipe, err := gi.Compiler().Compile(progProto(p), nil)
	if err != nil {
		return tOutcome{Rejected: true, Err: err.Error(), Rows: []interface{}{}}
	}
	return runPipe(pipe, deadline)
}

func dataMap(s *structpb.Struct) map[string]interface{} {
	if s == nil {
		return map[string]interface{}{}
	}
	return s.AsMap()
}

// canonRow renders a QueryResult as the JSON value the Coq model's row_of produces
func canonRow(r *gripql.QueryResult) interface{} {
	switch x := r.Result.(type) {
	case *gripql.QueryResult_Vertex:
		if x.Vertex == nil {
			return map[string]interface{}{"type": "vertex"}
		}
		return map[string]interface{}{"type": "vertex", "gid": x.Vertex.Gid, "label": x.Vertex.Label, "data": dataMap(x.Vertex.Data)}
	case *gripql.QueryResult_Edge:
		if x.Edge == nil {
			return map[string]interface{}{"type": "edge"}
		}
		return map[string]interface{}{"type": "edge", "gid": x.Edge.Gid, "label": x.Edge.Label, "from": x.Edge.From, "to": x.Edge.To, "data": dataMap(x.Edge.Data)}
	case *gripql.QueryResult_Count:
		return map[string]interface{}{"count": float64(x.Count)}
	case *gripql.QueryResult_Render:
		return map[string]interface{}{"render": x.Render.AsInterface()}
	case *gripql.QueryResult_Path:
		return map[string]interface{}{"path": x.Path.AsSlice()}
	case *gripql.QueryResult_Selections:
		m := map[string]interface{}{}
		for k, s := range x.Selections.Selections {
			switch y := s.Result.(type) {
			case *gripql.Selection_Vertex:
				m[k] = map[string]interface{}{"type": "vertex", "gid": y.Vertex.Gid, "label": y.Vertex.Label, "data": dataMap(y.Vertex.Data)}
			case *gripql.Selection_Edge:
				m[k] = map[string]interface{}{"type": "edge", "gid": y.Edge.Gid, "label": y.Edge.Label, "from": y.Edge.From, "to": y.Edge.To, "data": dataMap(y.Edge.Data)}
			}
		}
		return map[string]interface{}{"selections": m}
	case *gripql.QueryResult_Aggregations:
		v := x.Aggregations.Value
		if v != v || v > 1.7e308 || v < -1.7e308 { // NaN / Inf are not JSON
			return map[string]interface{}{"agg": x.Aggregations.Name, "key": x.Aggregations.Key.AsInterface(), "value": 0.0, "nan": true}
		}
		return map[string]interface{}{"agg": x.Aggregations.Name, "key": x.Aggregations.Key.AsInterface(), "value": v}
	}
	return nil
}

func outcomeCoq(o tOutcome) string {
	if o.Rejected {
		return "Rejected"
	}
	rows := make([]string, len(o.Rows))
	for i, r := range o.Rows {
		rows[i] = jvCoq(r)
	}
	return "(Rows " + coq.List(rows) + ")"
}

// ---------- generators ----------
var tLabels = []string{"P", "Q", "R"}
var tVals = []interface{}{1.0, 2.0, "x", "y", true, nil, []interface{}{1.0, "x"}, []interface{}{}, map[string]interface{}{"k": 1.0}, map[string]interface{}{"k": "x", "j": []interface{}{2.0}}}

func randData(rng *rand.Rand) map[string]interface{} {
	d := map[string]interface{}{}
	for _, k := range []string{"name", "w", "tags", "n"} {
		if rng.Intn(3) != 0 {
			switch k {
			case "name":
				d[k] = []interface{}{"x", "y", "z"}[rng.Intn(3)]
			case "w":
				d[k] = []interface{}{1.0, 2.0, 2.5, "2"}[rng.Intn(4)]
			case "tags":
				d[k] = []interface{}{[]interface{}{}, []interface{}{"a"}, []interface{}{"a", "b", "a"}, "notalist"}[rng.Intn(4)]
			case "n":
				d[k] = tVals[rng.Intn(len(tVals))]
			}
		}
	}
	return d
}

func randGraph(rng *rand.Rand) tGraph {
	nv := rng.Intn(6)
	if rng.Intn(10) == 0 {
		nv = 0
	}
	g := tGraph{V: []tVertex{}, E: []tEdge{}}
	ids := []string{"a", "b", "c", "d", "e", "f"}
	for i := 0; i < nv; i++ {
		g.V = append(g.V, tVertex{ID: ids[i], Label: tLabels[rng.Intn(3)], Data: randData(rng)})
	}
	ne := rng.Intn(9)
	if nv == 0 {
		ne = rng.Intn(2)
	}
	for i := 0; i < ne; i++ {
		pick := func() string {
			if nv == 0 || rng.Intn(8) == 0 {
				return "zz" // dangling endpoint
			}
			return ids[rng.Intn(nv)]
		}
		from, to := pick(), pick()
		if rng.Intn(6) == 0 {
			to = from // self loop
		}
		e := tEdge{ID: fmt.Sprintf("e%d", i), Label: []string{"knows", "likes", "P"}[rng.Intn(3)], From: from, To: to, Data: randData(rng)}
		g.E = append(g.E, e)
		if rng.Intn(6) == 0 && i+1 < ne { // parallel edge
			i++
			g.E = append(g.E, tEdge{ID: fmt.Sprintf("e%d", i), Label: e.Label, From: from, To: to, Data: randData(rng)})
		}
	}
	return g
}

func randHas(rng *rand.Rand, marks []string, depth int) hExpr {
	keys := []string{"name", "w", "tags", "n", "n.k", "_label", "_gid", "missing"}
	for _, m := range marks {
		keys = append(keys, "$"+m+".name", "$"+m+".w", "$"+m+"._gid")
	}
	if depth > 0 && rng.Intn(3) == 0 {
		switch rng.Intn(3) {
		case 0:
			return hExpr{Kind: "not", Es: []hExpr{randHas(rng, marks, depth-1)}}
		case 1:
			return hExpr{Kind: "and", Es: []hExpr{randHas(rng, marks, depth-1), randHas(rng, marks, depth-1)}}
		default:
			return hExpr{Kind: "or", Es: []hExpr{randHas(rng, marks, depth-1), randHas(rng, marks, depth-1)}}
		}
	}
	k := keys[rng.Intn(len(keys))]
	args := []interface{}{"x", "y", 1.0, 2.0, "P", "Q", "a", "b", []interface{}{"x", "P", "a"}, []interface{}{1.0, 2.5}, []interface{}{}, nil, true}
	return hExpr{Kind: "cond", Key: k, Op: copList[rng.Intn(len(copList))], Arg: args[rng.Intn(len(args))]}
}

// tracks the static type so that most generated programs are well typed
func randProgram(rng *rand.Rand, maxLen int, opts progOpts) []tStmt {
	p := []tStmt{}
	ty := "none"
	marks := []string{}
	labels := func() []string {
		switch rng.Intn(4) {
		case 0:
			return []string{"knows"}
		case 1:
			return []string{"likes", "P"}
		}
		return nil
	}
	idsOf := func(pool []string) []string {
		n := rng.Intn(3)
		out := []string{}
		for i := 0; i < n; i++ {
			out = append(out, pool[rng.Intn(len(pool))])
		}
		return out
	}
	vids := []string{"a", "b", "c", "d", "zz", "a"}
	eids := []string{"e0", "e1", "e2", "e9"}
	if rng.Intn(4) == 0 {
		p = append(p, tStmt{Op: "E", Strs: idsOf(eids)})
		ty = "edge"
	} else {
		p = append(p, tStmt{Op: "V", Strs: idsOf(vids)})
		ty = "vertex"
	}
	n := 1 + rng.Intn(maxLen)
	windowUsed := false
	for i := 0; i < n; i++ {
		illTyped := opts.illTyped && rng.Intn(25) == 0
		elem := ty == "vertex" || ty == "edge"
		if !elem && !illTyped {
			break
		}
		last := i == n-1
		c := rng.Intn(30)
		switch {
		case c < 6:
			ops := []string{"in", "out", "both", "in", "out", "both", "inNull", "outNull"}
			p = append(p, tStmt{Op: ops[rng.Intn(len(ops))], Strs: labels()})
			ty = "vertex"
		case c < 10:
			if ty != "vertex" && !illTyped {
				continue
			}
			ops := []string{"inE", "outE", "bothE", "inE", "outE", "bothE", "inENull", "outENull"}
			p = append(p, tStmt{Op: ops[rng.Intn(len(ops))], Strs: labels()})
			ty = "edge"
		case c < 14:
			h := randHas(rng, marks, 2)
			p = append(p, tStmt{Op: "has", Has: &h})
		case c < 16:
			ls := []string{tLabels[rng.Intn(3)]}
			if rng.Intn(3) == 0 {
				ls = append(ls, "knows", ls[0])
			}
			p = append(p, tStmt{Op: "hasLabel", Strs: ls})
		case c < 17:
			p = append(p, tStmt{Op: "hasId", Strs: append(idsOf(vids), "a", "e0")})
		case c < 18:
			ks := [][]string{{"name"}, {"name", "w"}, {"missing"}, {"_gid"}, {"n.k"}}
			p = append(p, tStmt{Op: "hasKey", Strs: ks[rng.Intn(len(ks))]})
		case c < 21:
			m := []string{"m1", "m2", "m3"}[rng.Intn(3)]
			p = append(p, tStmt{Op: "as", Str: m})
			has := false
			for _, x := range marks {
				if x == m {
					has = true
				}
			}
			if !has {
				marks = append(marks, m)
			}
		case c < 23:
			if len(marks) == 0 {
				continue
			}
			if rng.Intn(2) == 0 || len(marks) == 1 {
				p = append(p, tStmt{Op: "select", Strs: []string{marks[rng.Intn(len(marks))]}})
				ty = "elem-unknown" // a mark may hold a vertex or an edge: the type checker decides
				ty = opts.markType(p)
			} else {
				p = append(p, tStmt{Op: "select", Strs: append([]string{}, marks...)})
				ty = "sel"
			}
		case c < 24:
			fs := [][]string{{}, {"name"}, {"-name"}, {"name", "w"}, {"-w", "-tags"}, {"_gid", "name"}, {"-_label"}, {"missing"}}
			p = append(p, tStmt{Op: "fields", Strs: fs[rng.Intn(len(fs))]})
		case c < 25:
			if !last {
				continue
			}
			tpls := []interface{}{"name", map[string]interface{}{"id": "_gid", "n": "name", "deep": map[string]interface{}{"w": "w"}}, []interface{}{"_label", "missing"}, 5.0}
			if len(marks) > 0 {
				tpls = append(tpls, map[string]interface{}{"m": "$" + marks[0] + "._gid", "mn": "$" + marks[0] + ".name", "c": "_gid"})
			}
			p = append(p, tStmt{Op: "render", Tpl: tpls[rng.Intn(len(tpls))]})
			ty = "render"
		case c < 26:
			if !last {
				continue
			}
			p = append(p, tStmt{Op: "path"})
			ty = "path"
		case c < 27:
			p = append(p, tStmt{Op: "unwind", Str: []string{"tags", "name", "missing", "n.j", "n.k", "n"}[rng.Intn(6)]})
		case c < 28:
			if !last && !(i == n-2) || windowUsed {
				continue
			}
			fs := [][]string{{}, {"_label"}, {"name"}, {"name", "w"}, {"missing"}, {"w"}, {"n"}}
			if len(marks) > 0 {
				fs = append(fs, []string{"$" + marks[0] + "._gid"})
			}
			p = append(p, tStmt{Op: "distinct", Strs: fs[rng.Intn(len(fs))]})
			windowUsed = true
		case c < 29:
			p = append(p, tStmt{Op: "count"})
			ty = "count"
		default:
			if !last && !(i == n-2) || windowUsed {
				continue
			}
			switch rng.Intn(3) {
			case 0:
				p = append(p, tStmt{Op: "limit", N: int64(rng.Intn(4))})
			case 1:
				p = append(p, tStmt{Op: "skip", N: int64(rng.Intn(4))})
			default:
				p = append(p, tStmt{Op: "range", N: int64(rng.Intn(4) - 1), M: int64(rng.Intn(6) - 2)})
			}
			windowUsed = true
		}
		if windowUsed && len(p) > 0 && isWindow(p[len(p)-1].Op) && !last {
			// a window may only be followed by count
			p = append(p, tStmt{Op: "count"})
			break
		}
	}
	return p
}

func isWindow(op string) bool {
	return op == "limit" || op == "skip" || op == "range" || op == "distinct"
}

type progOpts struct {
	illTyped bool
	markType func(p []tStmt) string
}

// static type of the last statement for the generator (mirrors compile.go closely enough to keep programs mostly well typed)
func genType(p []tStmt) string {
	ty := "none"
	mt := map[string]string{}
	for _, s := range p {
		switch s.Op {
		case "V":
			ty = "vertex"
		case "E":
			ty = "edge"
		case "in", "out", "both", "inNull", "outNull":
			ty = "vertex"
		case "inE", "outE", "bothE", "inENull", "outENull":
			ty = "edge"
		case "as":
			mt[s.Str] = ty
		case "select":
			if len(s.Strs) == 1 {
				ty = mt[s.Strs[0]]
			} else {
				ty = "sel"
			}
		case "render":
			ty = "render"
		case "path":
			ty = "path"
		case "count":
			ty = "count"
		case "aggregate":
			ty = "agg"
		}
	}
	return ty
}

func rowsSorted(rows []interface{}) []string {
	out := make([]string, len(rows))
	for i, r := range rows {
		b, _ := json.Marshal(r)
		out[i] = string(b)
	}
	sort.Strings(out)
	return out
}
