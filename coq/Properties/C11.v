(* C11  Jobs faithfully store, resume and find traversals. *)
From Coq Require Import List Arith Bool.
Import ListNotations.
From Grip Require Import Model.Json Model.Has Model.Traversal Model.Jobs Proofs.JobsProofs Proofs.RoundRobin.

(* for EVERY graph, job traversal p1, extension p2: resuming from what p1 stored (travelers, result type, mark
   types) is running the concatenated traversal; in particular an ill-typed extension is rejected in both *)
Theorem C11_resume : forall g p1 p2 ty stored,
  run_from g (DNone, []) p1 [t0] = Some (ty, stored) ->
  resume g ty stored p2 = run_from g (DNone, []) (p1 ++ p2) [t0].
Proof. exact resume_is_concatenation. Qed.
Print Assumptions C11_resume.

(* for every checksum type whose equality is exact: a stored job is found by a search iff it has at least two
   statements and they are a prefix of the searched traversal *)
Theorem C11_search : forall (H : Type) (heq : H -> H -> bool), (forall a b, heq a b = true <-> a = b) ->
  forall query job, job_match heq query job = true <-> 2 <= List.length job /\ exists rest, query = job ++ rest.
Proof. exact job_match_spec. Qed.
Print Assumptions C11_search.

(* histories: a job is in the table iff submitted and not deleted since; a restart anywhere changes nothing *)
Theorem C11_table : forall t a id p, In (id, p) (jstep t a) <->
  match a with
  | ASubmit i q => In (id, p) t \/ (i = id /\ q = p)
  | ADelete i => In (id, p) t /\ i <> id
  | ARestart => In (id, p) t
  end.
Proof. exact jstep_in. Qed.
Theorem C11_restart : forall l1 l2, jrun (l1 ++ ARestart :: l2) = jrun (l1 ++ l2).
Proof. exact restart_transparent. Qed.
Print Assumptions C11_table.
Print Assumptions C11_restart.

(* the spool: for every number of workers >= 1 and every sequence of rows, handing the rows to the workers in turn
   and merging their outputs turn by turn returns the rows in the order they were produced, none lost, none twice
   (jobstorage/serializer.go MarshalStream and UnmarshalStream, on the way to the job file and back) *)
Theorem C11_spool_order : forall (X : Type) (n : nat) (rows : list X), 0 < n ->
  merge (List.length rows + 2) (deal n rows) = rows.
Proof. intros X n rows Hn. apply merge_deal. exact Hn. Qed.
Print Assumptions C11_spool_order.

Example C11_spool_instance :
  deal 3 [1; 2; 3; 4; 5; 6; 7] = [[1; 4; 7]; [2; 5]; [3; 6]] /\ merge 9 (deal 3 [1; 2; 3; 4; 5; 6; 7]) = [1; 2; 3; 4; 5; 6; 7].
Proof. vm_compute. auto. Qed.

Example C11_search_instance :
  job_match Nat.eqb [1; 2; 3] [1; 2] = true /\ job_match Nat.eqb [1; 2; 3] [1] = false /\
  job_match Nat.eqb [1; 2] [1; 2; 3] = false /\ job_match Nat.eqb [1; 2; 3] [1; 3] = false.
Proof. vm_compute. auto. Qed.
