(* Proofs for Model/Keys.v (C16): NUL-free components make the 0x00-joined encoding injective,
   parseable and prefix-exact. *)
From Coq Require Import List NArith Bool Lia.
Import ListNotations.
From Grip Require Import Model.Bytes Model.Keys.

Lemma split0_nonul p : nonul p = true -> split0 p = [p].
Proof. induction p as [|x p IH]; simpl; auto. intros H. apply andb_true_iff in H as [H1 H2].
  destruct (N.eqb x 0); [discriminate|]. now rewrite IH. Qed.

Lemma split0_app p r : nonul p = true -> split0 (p ++ 0%N :: r) = p :: split0 r.
Proof. induction p as [|x p IH]; simpl; auto. intros H. apply andb_true_iff in H as [H1 H2].
  destruct (N.eqb x 0); [discriminate|]. now rewrite IH. Qed.

Theorem split_join ps : ps <> [] -> forallb nonul ps = true -> split0 (join ps) = ps.
Proof. induction ps as [|p ps IH]; [congruence|]. intros _ H. simpl in H. apply andb_true_iff in H as [Hp Hps].
  destruct ps as [|q ps]; simpl.
  - now apply split0_nonul.
  - rewrite split0_app; auto. f_equal. apply IH; auto. discriminate. Qed.

Theorem join_inj ps qs : ps <> [] -> qs <> [] -> forallb nonul ps = true -> forallb nonul qs = true ->
  join ps = join qs -> ps = qs.
Proof. intros H1 H2 H3 H4 H. rewrite <- (split_join ps H1 H3), <- (split_join qs H2 H4). now rewrite H. Qed.

(* prefix-exactness: a key is matched by the prefix "components ++ 0x00" iff its leading components
   are exactly those and at least one more component follows *)
Lemma is_prefix_app_iff p : forall k, is_prefix p k = true <-> exists r, k = p ++ r.
Proof. induction p as [|x p IH]; intros k; simpl.
  - split; eauto.
  - destruct k as [|y k]; [split; [discriminate|intros [r H]; discriminate]|].
    rewrite andb_true_iff, N.eqb_eq, IH. split.
    + intros [-> [r ->]]. now exists r.
    + intros [r H]. inversion H; subst. split; eauto. Qed.

Lemma nonul_app_split p q r r' : nonul p = true -> nonul q = true ->
  p ++ 0%N :: r = q ++ 0%N :: r' -> p = q /\ r = r'.
Proof. revert q. induction p as [|x p IH]; intros [|y q] Hp Hq H; simpl in *.
  - inversion H; auto.
  - inversion H; subst. rewrite N.eqb_refl in Hq. discriminate.
  - inversion H; subst. rewrite N.eqb_refl in Hp. discriminate.
  - inversion H; subst. apply andb_true_iff in Hp as [_ Hp]. apply andb_true_iff in Hq as [_ Hq].
    destruct (IH q Hp Hq H2) as [-> ->]. auto. Qed.

Lemma nonul_no_zero p a b : nonul p = true -> p <> a ++ 0%N :: b.
Proof. revert a. induction p as [|x p IH]; intros [|y a] Hp H; simpl in *; try discriminate.
  - inversion H; subst. discriminate.
  - inversion H; subst. apply andb_true_iff in Hp as [_ Hp]. now apply (IH a). Qed.

Theorem prefix_components ps : ps <> [] -> forallb nonul ps = true -> forall qs, qs <> [] -> forallb nonul qs = true ->
  (is_prefix (join (ps ++ [[]])) (join qs) = true <-> exists rest, rest <> [] /\ qs = ps ++ rest).
Proof.
  induction ps as [|p ps IH]; [congruence|]. intros _ Hps qs Hq Hqs.
  simpl in Hps. apply andb_true_iff in Hps as [Hp Hps].
  destruct qs as [|q qs]; [congruence|]. simpl in Hqs. apply andb_true_iff in Hqs as [Hq1 Hqs].
  destruct ps as [|p2 ps].
  - (* single component p: prefix is p ++ [0] *)
    simpl app. change (join [p; []]) with (p ++ [0%N]). rewrite is_prefix_app_iff. split.
    + intros [r H]. rewrite <- app_assoc in H. simpl in H.
      destruct qs as [|q2 qs].
      * simpl in H. exfalso. eapply nonul_no_zero; eauto.
      * change (join (q :: q2 :: qs)) with (q ++ 0%N :: join (q2 :: qs)) in H.
        destruct (nonul_app_split _ _ _ _ Hq1 Hp H) as [-> _]. exists (q2 :: qs). split; [discriminate|reflexivity].
    + intros [rest [Hr H]]. simpl in H. inversion H; subst. destruct rest as [|r1 rest]; [congruence|].
      exists (join (r1 :: rest)). rewrite <- app_assoc. reflexivity.
  - change (join ((p :: p2 :: ps) ++ [[]])) with (p ++ 0%N :: join ((p2 :: ps) ++ [[]])).
    destruct qs as [|q2 qs].
    + simpl join at 2. split.
      * intros H. apply is_prefix_app_iff in H as [r H]. rewrite <- app_assoc in H. simpl in H.
        exfalso. eapply nonul_no_zero; eauto.
      * intros [rest [_ H]]. inversion H.
    + change (join (q :: q2 :: qs)) with (q ++ 0%N :: join (q2 :: qs)). split.
      * intros H. apply is_prefix_app_iff in H as [r H]. rewrite <- app_assoc in H. simpl in H.
        destruct (nonul_app_split _ _ _ _ Hq1 Hp H) as [-> H2].
        assert (is_prefix (join ((p2 :: ps) ++ [[]])) (join (q2 :: qs)) = true) as Hpre.
        { apply is_prefix_app_iff. exists r. exact H2. }
        apply IH in Hpre; auto; try discriminate. destruct Hpre as [rest [Hr Heq]]. exists rest. split; auto.
        simpl. now rewrite Heq.
      * intros [rest [Hr H]]. simpl in H. injection H as Hqp Hq2. subst q.
        assert (is_prefix (join ((p2 :: ps) ++ [[]])) (join (q2 :: qs)) = true) as Hpre.
        { apply IH; auto; try discriminate. exists rest. split; auto. simpl. now subst. }
        apply is_prefix_app_iff in Hpre as [r Hr2]. apply is_prefix_app_iff. exists r.
        rewrite Hr2. rewrite <- app_assoc. reflexivity.
Qed.

(* validated names and ids are NUL-free *)
Lemma valid_name_nonul k : valid_name_b k = true -> nonul k = true.
Proof. unfold valid_name_b. intros H. apply andb_true_iff in H as [H _]. apply andb_true_iff in H as [H _]. exact H. Qed.
Lemma valid_id_nonul k : valid_id_b k = true -> nonul k = true.
Proof. unfold valid_id_b. intros H. apply andb_true_iff in H as [_ H]. exact H. Qed.

(* ---------- the key-set consistency check means what it says (C04) ---------- *)
Lemma bcmp_eq' a : forall b, bcmp a b = Eq -> a = b.
Proof. induction a as [|x a IH]; intros [|y b]; simpl; try discriminate; auto.
  destruct (N.compare x y) eqn:E; try discriminate. intros H. apply N.compare_eq in E. subst. f_equal. auto. Qed.
Lemma beqb_true a b : beqb a b = true -> a = b.
Proof. unfold beqb. destruct (bcmp a b) eqn:E; try discriminate. intros _. now apply bcmp_eq'. Qed.
Lemma has_key_In ks k : has_key ks k = true -> In k ks.
Proof. unfold has_key. intros H. apply existsb_exists in H as [x [Hin Hx]]. apply beqb_true in Hx. now subst. Qed.

Definition nonul5 (g a b c l : bytes) : bool := nonul g && nonul a && nonul b && nonul c && nonul l.
Lemma split_key7 t g a b c l : nonul t = true -> nonul5 g a b c l = true ->
  split0 (join [t; g; a; b; c; l; etype1]) = [t; g; a; b; c; l; etype1].
Proof. intros Ht H. unfold nonul5 in H. repeat (apply andb_true_iff in H as [H ?]).
  apply split_join; [discriminate|]. cbn [forallb]. rewrite Ht, H, H0, H1, H2, H3. reflexivity. Qed.

(* an edge record in a consistent key set has its by-source and its by-destination entry ... *)
Theorem key_check_edge ks g e s d l : nonul5 g e s d l = true -> keys_consistent ks = true ->
  In (edge_key g e s d l) ks -> In (src_key g s d e l) ks /\ In (dst_key g s d e l) ks.
Proof.
  intros Hn Hc Hin. unfold keys_consistent in Hc. rewrite forallb_forall in Hc. specialize (Hc _ Hin).
  unfold key_consistent, edge_key in Hc. rewrite (split_key7 tag_e g e s d l eq_refl Hn) in Hc. cbn in Hc.
  apply andb_true_iff in Hc as [H1 H2]. split; now apply has_key_In.
Qed.
(* ... and an entry of either index names an edge record that is there *)
Theorem key_check_entry ks g e s d l : nonul5 g s d e l = true -> keys_consistent ks = true ->
  (In (src_key g s d e l) ks -> In (edge_key g e s d l) ks) /\ (In (dst_key g s d e l) ks -> In (edge_key g e s d l) ks).
Proof.
  intros Hn Hc. unfold keys_consistent in Hc. rewrite forallb_forall in Hc. split; intros Hin; specialize (Hc _ Hin).
  - unfold key_consistent, src_key in Hc. rewrite (split_key7 tag_s g s d e l eq_refl Hn) in Hc. cbn in Hc. now apply has_key_In.
  - unfold key_consistent, dst_key in Hc.
    assert (nonul5 g d s e l = true) as Hn'.
    { unfold nonul5 in *. repeat (apply andb_true_iff in Hn as [Hn ?]). rewrite Hn, H, H0, H1, H2. reflexivity. }
    rewrite (split_key7 tag_d g d s e l eq_refl Hn') in Hc. cbn in Hc. now apply has_key_In.
Qed.
