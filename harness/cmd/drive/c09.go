package main

import (
	"context"
	"encoding/json"
	"fmt"
	"math"
	"math/rand"
	"os"
	"sort"
	"time"

	"github.com/bmeg/grip/kvi"
	"github.com/bmeg/grip/kvindex"

	"gripverif/internal/coq"
)

func init() { props["C09"] = runC09 }

// universe: fields 1,2 ("f1","f2"); docs 1..3 ("d1".."d3"); string terms "", "a", "ab" (ids 0,1,2 in byte order)
var c09Strings = []string{"", "a", "ab"}
var c09Nums = []float64{-2.5, -1, 0, 0.5, 1, 3, math.Pow(2, 53), -math.Pow(2, 53), math.MaxFloat64, -math.MaxFloat64}
var c09Ranges = [][2]float64{{0, 1}, {0.5, 3}, {1, 1}, {3, 0.5}, {0, math.MaxFloat64}, {-1, 1}, {-2.5, -1}, {-2.5, 0}, {-1, 0.5}, {-math.MaxFloat64, math.MaxFloat64}}

type ixTerm struct {
	S *int     `json:"s,omitempty"` // index into c09Strings
	N *float64 `json:"n,omitempty"`
}
type ixOp struct {
	Op   string          `json:"op"` // addfield rmfield adddoc rmdoc counts
	F    int             `json:"f,omitempty"`
	D    int             `json:"d,omitempty"`
	Vals map[int]ixTerm  `json:"vals,omitempty"`
}

func termCoq(t ixTerm) string {
	if t.S != nil {
		return fmt.Sprintf("(TS %d)", *t.S)
	}
	return fmt.Sprintf("(TN %d)", math.Float64bits(*t.N))
}
func ixOpCoq(o ixOp) string {
	switch o.Op {
	case "addfield":
		return fmt.Sprintf("(IAddField %d)", o.F)
	case "rmfield":
		return fmt.Sprintf("(IRemoveField %d)", o.F)
	case "adddoc":
		fs := []int{}
		for f := range o.Vals {
			fs = append(fs, f)
		}
		sort.Ints(fs)
		vs := []string{}
		for _, f := range fs {
			vs = append(vs, fmt.Sprintf("(%d, %s)", f, termCoq(o.Vals[f])))
		}
		return fmt.Sprintf("(IAddDoc %d %s)", o.D, coq.List(vs))
	case "rmdoc":
		return fmt.Sprintf("(IRemoveDoc %d)", o.D)
	case "counts":
		return fmt.Sprintf("(ICounts %d)", o.F)
	}
	panic(o.Op)
}

func fName(f int) string { return fmt.Sprintf("f%d", f) }
func dName(d int) string { return fmt.Sprintf("d%d", d) }

func termItem(v interface{}) []uint64 {
	switch x := v.(type) {
	case string:
		for i, s := range c09Strings {
			if s == x {
				return []uint64{1, uint64(i)}
			}
		}
		return []uint64{1, 99}
	case float64:
		return []uint64{2, math.Float64bits(x)}
	}
	return []uint64{9}
}

// drain reads a channel with a deadline (a blocked producer is reported as a marker item)
func battery09(idx *kvindex.KVIndex) [][][]uint64 {
	out := [][][]uint64{}
	ctx := context.Background()
	for f := 1; f <= 2; f++ {
		field := fName(f)
		terms := []interface{}{}
		for _, s := range c09Strings {
			terms = append(terms, s)
		}
		for _, n := range c09Nums {
			terms = append(terms, n)
		}
		for _, t := range terms {
			q := [][]uint64{}
			for d := range idx.GetTermMatch(ctx, field, t, 0) {
				var n uint64
				if _, err := fmt.Sscanf(d, "d%d", &n); err != nil {
					n = 999
				}
				q = append(q, []uint64{n})
			}
			out = append(out, sortItems(q))
		}
		q := [][]uint64{}
		for t := range idx.FieldTerms(field) {
			q = append(q, termItem(t))
		}
		out = append(out, sortItems(q))
		out = append(out, [][]uint64{{math.Float64bits(idx.FieldTermNumberMin(field))}})
		out = append(out, [][]uint64{{math.Float64bits(idx.FieldTermNumberMax(field))}})
		q = [][]uint64{}
		for n := range idx.FieldNumbers(field) {
			q = append(q, []uint64{math.Float64bits(n)})
		}
		if q == nil {
			q = [][]uint64{}
		}
		out = append(out, q)
		for _, r := range c09Ranges {
			q = [][]uint64{}
			done := make(chan bool, 1)
			var res chan kvindex.KVTermCount
			go func() { res = idx.FieldTermNumberRange(field, r[0], r[1]); done <- true }()
			select {
			case <-done:
				for tc := range res {
					q = append(q, []uint64{math.Float64bits(tc.Number), tc.Count})
				}
			case <-time.After(5 * time.Second):
				q = append(q, []uint64{777, 777}) // blocked forever (more than 100 terms)
			}
			out = append(out, sortItems(q))
		}
	}
	return out
}

func execC09(ops []ixOp) [][][][]uint64 {
	dir, _ := os.MkdirTemp("", "c09ix")
	defer os.RemoveAll(dir)
	kv, err := kvi.NewKVInterface("badger", dir+"/db", nil)
	if err != nil {
		panic(err)
	}
	defer kv.Close()
	idx := kvindex.NewIndex(kv)
	obs := [][][][]uint64{}
	for _, o := range ops {
		var extra [][]uint64
		switch o.Op {
		case "addfield":
			idx.AddField(fName(o.F))
		case "rmfield":
			idx.RemoveField(fName(o.F))
		case "adddoc":
			doc := map[string]interface{}{}
			for f, t := range o.Vals {
				if t.S != nil {
					doc[fName(f)] = c09Strings[*t.S]
				} else {
					doc[fName(f)] = *t.N
				}
			}
			idx.AddDoc(dName(o.D), doc)
		case "rmdoc":
			idx.RemoveDoc(dName(o.D))
		case "counts":
			extra = [][]uint64{}
			for tc := range idx.FieldTermCounts(fName(o.F)) {
				var it []uint64
				// a KVTermCount does not say which kind it is: String=="" && Number==0 is ambiguous ("" vs 0.0);
				// resolved through the term listing below
				it = []uint64{0, 0, tc.Count}
				if tc.String != "" {
					it = append(termItem(tc.String), tc.Count)
				} else if tc.Number != 0 {
					it = append(termItem(tc.Number), tc.Count)
				}
				extra = append(extra, it)
			}
			// disambiguate the zero-valued entries using FieldTerms
			hasEmpty, hasZero := false, false
			for t := range idx.FieldTerms(fName(o.F)) {
				if s, ok := t.(string); ok && s == "" {
					hasEmpty = true
				}
				if n, ok := t.(float64); ok && n == 0 {
					hasZero = true
				}
			}
			for i := range extra {
				if extra[i][0] == 0 {
					if hasEmpty && !hasZero {
						extra[i] = []uint64{1, 0, extra[i][2]}
					} else if hasZero && !hasEmpty {
						extra[i] = []uint64{2, 0, extra[i][2]}
					} else if hasEmpty && hasZero {
						// both present: the string type sorts first in key order
						if i == 0 || extra[i-1][0] != 1 || extra[i-1][1] != 0 {
							extra[i] = []uint64{1, 0, extra[i][2]}
							hasEmpty = false
						}
					}
				}
			}
			extra = sortItems(extra)
		}
		b := battery09(idx)
		if extra != nil {
			b = append(b, extra)
		}
		obs = append(obs, b)
	}
	return obs
}

func randTerm(rng *rand.Rand) ixTerm {
	if rng.Intn(3) == 0 {
		i := rng.Intn(len(c09Strings))
		return ixTerm{S: &i}
	}
	n := c09Nums[rng.Intn(len(c09Nums))]
	return ixTerm{N: &n}
}

func randIxOp(rng *rand.Rand, allowReplace bool, live map[int]bool) ixOp {
	switch rng.Intn(12) {
	case 0:
		return ixOp{Op: "addfield", F: 1 + rng.Intn(2)}
	case 1:
		return ixOp{Op: "rmfield", F: 1 + rng.Intn(2)}
	case 2, 3, 4, 5, 6:
		d := 1 + rng.Intn(3)
		if !allowReplace && live[d] {
			for k := 1; k <= 3; k++ {
				if !live[k] {
					d = k
				}
			}
			if live[d] {
				return ixOp{Op: "rmdoc", D: d}
			}
		}
		vals := map[int]ixTerm{}
		for f := 1; f <= 2; f++ {
			if rng.Intn(4) != 0 {
				vals[f] = randTerm(rng)
			}
		}
		return ixOp{Op: "adddoc", D: d, Vals: vals}
	case 7, 8, 9:
		return ixOp{Op: "rmdoc", D: 1 + rng.Intn(3)}
	default:
		return ixOp{Op: "counts", F: 1 + rng.Intn(2)}
	}
}

func runC09(ctx *Ctx) error {
	ctx.EvalMod = "Eval_C09"
	ctx.CaseTy = "c09_case"
	ctx.Shard = 30
	ctx.HasKF = true
	ctx.Scope = "N_scope"
	ctx.Rule = "histories of AddField/RemoveField/AddDoc/RemoveDoc/FieldTermCounts over 2 fields, 3 documents, string terms {'', 'a', 'ab'} and numeric terms {-2.5,-1,0,0.5,1,3,2^53,-2^53,max,-max}; after every step: ids per term, term set, min, max, ascending listing, 10 ranges (per field); non-trivial = >= 4 steps with a document removed or a field removed after documents were indexed; distinct by history"
	var cases [][]ixOp
	if ctx.Replay != nil {
		var in []ixOp
		if err := json.Unmarshal(ctx.Replay, &in); err != nil {
			return err
		}
		cases = [][]ixOp{in}
	} else {
		rng := ctx.Rng
		fz, fm5, f7, fa := 0.0, -2.5, 3.0, 1
		corpus := [][]ixOp{
			{{Op: "addfield", F: 1}, {Op: "adddoc", D: 1, Vals: map[int]ixTerm{1: {N: &fz}}}, {Op: "adddoc", D: 2, Vals: map[int]ixTerm{1: {N: &fm5}}}},
			{{Op: "addfield", F: 1}, {Op: "adddoc", D: 1, Vals: map[int]ixTerm{1: {S: &fa}}}, {Op: "adddoc", D: 2, Vals: map[int]ixTerm{1: {S: &fa}}}, {Op: "rmdoc", D: 1}, {Op: "counts", F: 1}},
			{{Op: "addfield", F: 1}, {Op: "adddoc", D: 1, Vals: map[int]ixTerm{1: {N: &f7}}}, {Op: "rmfield", F: 1}, {Op: "rmdoc", D: 1}, {Op: "addfield", F: 1}, {Op: "adddoc", D: 2, Vals: map[int]ixTerm{1: {N: &f7}}}},
			{{Op: "addfield", F: 1}, {Op: "adddoc", D: 2, Vals: map[int]ixTerm{1: {N: &fm5}}}, {Op: "adddoc", D: 2, Vals: map[int]ixTerm{1: {N: &f7}}}},
		}
		// a field removed and registered again while documents indexed under the old registration are still there; they are
		// removed afterwards, next to a later document that uses the same term (two fields, so that the document stays
		// indexed under the other one)
		fb := 2
		corpus = append(corpus,
			[]ixOp{{Op: "addfield", F: 1}, {Op: "addfield", F: 2}, {Op: "adddoc", D: 1, Vals: map[int]ixTerm{1: {S: &fa}, 2: {S: &fb}}}, {Op: "rmfield", F: 1}, {Op: "addfield", F: 1},
				{Op: "adddoc", D: 2, Vals: map[int]ixTerm{1: {S: &fa}, 2: {S: &fb}}}, {Op: "counts", F: 1}, {Op: "rmdoc", D: 1}, {Op: "counts", F: 1}, {Op: "counts", F: 2}, {Op: "rmdoc", D: 2}},
			[]ixOp{{Op: "addfield", F: 1}, {Op: "adddoc", D: 1, Vals: map[int]ixTerm{1: {N: &f7}}}, {Op: "rmfield", F: 1}, {Op: "addfield", F: 1}, {Op: "rmdoc", D: 1},
				{Op: "adddoc", D: 3, Vals: map[int]ixTerm{1: {N: &f7}}}, {Op: "counts", F: 1}},
			// a count query between two additions of the same term, then a removal
			[]ixOp{{Op: "addfield", F: 1}, {Op: "adddoc", D: 1, Vals: map[int]ixTerm{1: {S: &fa}}}, {Op: "counts", F: 1}, {Op: "adddoc", D: 2, Vals: map[int]ixTerm{1: {S: &fa}}},
				{Op: "counts", F: 1}, {Op: "rmdoc", D: 1}, {Op: "counts", F: 1}, {Op: "adddoc", D: 3, Vals: map[int]ixTerm{1: {S: &fa}}}, {Op: "counts", F: 1}})
		cases = append(cases, corpus...)
		n := ctx.Pick(80, 800)
		for i := 0; i < n; i++ {
			ops := []ixOp{{Op: "addfield", F: 1}}
			if rng.Intn(2) == 0 {
				ops = append(ops, ixOp{Op: "addfield", F: 2})
			}
			allowReplace := rng.Intn(5) == 0
			live := map[int]bool{}
			ln := 3 + rng.Intn(ctx.Pick(10, 25))
			for j := 0; j < ln; j++ {
				o := randIxOp(rng, allowReplace, live)
				if o.Op == "adddoc" {
					live[o.D] = true
				}
				if o.Op == "rmdoc" {
					delete(live, o.D)
				}
				ops = append(ops, o)
			}
			cases = append(cases, ops)
		}
	}
	// universe term
	ts := []string{}
	for i := range c09Strings {
		ts = append(ts, fmt.Sprintf("TS %d", i))
	}
	for _, n := range c09Nums {
		ts = append(ts, fmt.Sprintf("TN %d", math.Float64bits(n)))
	}
	rs := []string{}
	for _, r := range c09Ranges {
		rs = append(rs, fmt.Sprintf("(%d, %d)", math.Float64bits(r[0]), math.Float64bits(r[1])))
	}
	uni := coq.Record("u_fields", "[1; 2]", "u_terms", coq.List(ts), "u_ranges", coq.List(rs))
	for _, ops := range cases {
		obs := execC09(ops)
		oc := make([]string, len(ops))
		rm := false
		for i, o := range ops {
			oc[i] = ixOpCoq(o)
			if o.Op == "rmdoc" || o.Op == "rmfield" {
				rm = true
			}
		}
		sc := make([]string, len(obs))
		for i, st := range obs {
			qs := make([]string, len(st))
			for j, q := range st {
				items := make([]string, len(q))
				for k, it := range q {
					items[k] = coq.NList(it)
				}
				qs[j] = coq.List(items)
			}
			sc[i] = coq.List(qs)
		}
		key, _ := json.Marshal(ops)
		tags := map[string]bool{}
		for _, o := range ops {
			tags["op="+o.Op] = true
		}
		tl := []string{"len=" + bucket(len(ops))}
		for k := range tags {
			tl = append(tl, k)
		}
		sort.Strings(tl)
		ctx.Add(Case{Input: ops, Observed: fmt.Sprintf("%d steps x %d queries", len(obs), len(obs[0])),
			Coq: coq.Record("cu", uni, "cops", coq.List(oc), "cobs", coq.List(sc)), Nontrivial: len(ops) >= 4 && rm, Key: string(key), Tags: tl})
	}
	return nil
}
