(* SQL statement structure (property C20): a lexer for the fragment of SQL the drivers emit, the token
   structure with the CONTENTS of literals and numbers erased, and the classification of Sprintf sites. *)
From Coq Require Import List String Ascii Bool Arith.
Import ListNotations.
Local Open Scope string_scope.
Local Open Scope list_scope.
Local Open Scope nat_scope.

Fixpoint chars (s : string) : list ascii := match s with EmptyString => [] | String c r => c :: chars r end.
Fixpoint str_of (l : list ascii) : string := match l with [] => EmptyString | c :: r => String c (str_of r) end.

Inductive tok :=
| TWord (w : string)        (* keyword / identifier / dotted name: content matters *)
| TQIdent (w : string)      (* "quoted identifier": content matters *)
| TLit                      (* 'string literal' : content erased *)
| TNum                      (* number: content erased *)
| TSym (c : ascii)          (* punctuation / operator *)
| TBad.                     (* unterminated literal / identifier / comment *)

Definition n (c : ascii) := nat_of_ascii c.
Definition is_space (c : ascii) := (n c =? 32) || (n c =? 9) || (n c =? 10) || (n c =? 13).
Definition is_digit (c : ascii) := (48 <=? n c) && (n c <=? 57).
Definition is_alpha (c : ascii) := ((65 <=? n c) && (n c <=? 90)) || ((97 <=? n c) && (n c <=? 122)) || (n c =? 95) || (128 <=? n c).
Definition is_wordc (c : ascii) := is_alpha c || is_digit c || (n c =? 46) || (n c =? 36) || (n c =? 42 (* t.* *)).
Definition quote : ascii := "'"%char.
Definition dquote : ascii := """"%char.

(* scan a string literal body (after the opening quote): '' is an escaped quote *)
Fixpoint scan_lit (l : list ascii) : option (list ascii) :=
  match l with
  | [] => None
  | c :: r => if Ascii.eqb c quote
              then match r with
                   | c2 :: r2 => if Ascii.eqb c2 quote then scan_lit r2 else Some r
                   | [] => Some []
                   end
              else scan_lit r
  end.
(* E'...' literal body: a backslash escapes the next character *)
Definition bslash : ascii := "\"%char.
Fixpoint scan_elit (l : list ascii) : option (list ascii) :=
  match l with
  | [] => None
  | c :: r => if Ascii.eqb c bslash then match r with _ :: r2 => scan_elit r2 | [] => None end
              else if Ascii.eqb c quote
              then match r with
                   | c2 :: r2 => if Ascii.eqb c2 quote then scan_elit r2 else Some r
                   | [] => Some []
                   end
              else scan_elit r
  end.
Fixpoint scan_qident (l : list ascii) (acc : list ascii) : option (string * list ascii) :=
  match l with
  | [] => None
  | c :: r => if Ascii.eqb c dquote then Some (str_of (rev acc), r) else scan_qident r (c :: acc)
  end.
Fixpoint take_while (f : ascii -> bool) (l : list ascii) : list ascii * list ascii :=
  match l with
  | c :: r => if f c then let (a, b) := take_while f r in (c :: a, b) else ([], l)
  | [] => ([], [])
  end.
Fixpoint skip_line (l : list ascii) : list ascii :=
  match l with [] => [] | c :: r => if n c =? 10 then r else skip_line r end.
Fixpoint skip_block (l : list ascii) : option (list ascii) :=
  match l with
  | c :: ((c2 :: r2) as r) => if (n c =? 42) && (n c2 =? 47) then Some r2 else skip_block r
  | _ => None
  end.

Fixpoint lex (fuel : nat) (l : list ascii) : list tok :=
  match fuel with
  | 0 => []
  | S f =>
    match l with
    | [] => []
    | c :: r =>
        if is_space c then lex f r
        else if Ascii.eqb c quote then match scan_lit r with Some rest => TLit :: lex f rest | None => [TBad] end
        else if Ascii.eqb c dquote then match scan_qident r [] with Some (w, rest) => TQIdent w :: lex f rest | None => [TBad] end
        else if (n c =? 45) && match r with c2 :: _ => n c2 =? 45 | [] => false end then lex f (skip_line r)
        else if (n c =? 47) && match r with c2 :: _ => n c2 =? 42 | [] => false end
             then match skip_block (tl r) with Some rest => lex f rest | None => [TBad] end
        else if ((n c =? 69) || (n c =? 101)) && match r with c2 :: _ => Ascii.eqb c2 quote | [] => false end
             then match scan_elit (tl r) with Some rest => TLit :: lex f rest | None => [TBad] end
        else if is_digit c then let (w, rest) := take_while is_wordc l in
             (if forallb (fun x => is_digit x || (n x =? 46)) w then TNum else TWord (str_of w)) :: lex f rest
        else if is_alpha c then let (w, rest) := take_while is_wordc l in TWord (str_of w) :: lex f rest
        else TSym c :: lex f r
    end
  end.
Definition lexs (l : list ascii) : list tok := lex (S (List.length l)) l.
Definition structure (s : string) : list tok := lexs (chars s).

Definition tok_eqb (a b : tok) : bool :=
  match a, b with
  | TWord x, TWord y | TQIdent x, TQIdent y => String.eqb x y
  | TLit, TLit | TNum, TNum | TBad, TBad => true
  | TSym x, TSym y => Ascii.eqb x y
  | _, _ => false
  end.
Fixpoint toks_eqb (a b : list tok) : bool :=
  match a, b with [], [] => true | x :: r, y :: r' => tok_eqb x y && toks_eqb r r' | _, _ => false end.

(* what a correct quoting function must do: double every quote *)
Fixpoint escape (l : list ascii) : list ascii :=
  match l with [] => [] | c :: r => if Ascii.eqb c quote then quote :: quote :: escape r else c :: escape r end.

Fixpoint escape_bs (l : list ascii) : list ascii :=
  match l with [] => [] | c :: r => if Ascii.eqb c bslash then bslash :: bslash :: escape_bs r else c :: escape_bs r end.
(* lib/pq QuoteLiteral (conn.go): double the quotes; if a backslash occurs, double the backslashes and use  E'...' *)
Definition pq_quote (l : list ascii) : list ascii :=
  if existsb (Ascii.eqb bslash) l
  then " "%char :: "E"%char :: quote :: escape_bs (escape l) ++ [quote]
  else quote :: escape l ++ [quote].

(* ---------- classification of Sprintf sites (Gen/SqlTemplates.v) ---------- *)
Fixpoint has_prefix (p s : string) : bool :=
  match p, s with
  | EmptyString, _ => true
  | String a p', String b s' => Ascii.eqb a b && has_prefix p' s'
  | _, _ => false
  end.
Definition mem_s (x : string) (l : list string) : bool := existsb (String.eqb x) l.

(* argument expressions that come from the driver's configuration / schema, never from a request *)
Definition schema_args : list string :=
  ["g.v"; "g.e"; "graph.v"; "graph.e"; "v.Table"; "info.EdgeTable"; "info.VertexTable"; "sampleN"; """*"""; "q";
   "edgeSchema.Table"; "edgeSchema.From.DestField"; "edgeSchema.From.DestTable"; "edgeSchema.From.SourceField";
   "edgeSchema.To.DestField"; "edgeSchema.To.DestTable"; "edgeSchema.To.SourceField";
   "schema.Table"; "schema.From.DestTable"; "schema.To.DestTable";
   "g.schema.GetVertexGid(edgeSchema.From.DestTable)"; "g.schema.GetVertexGid(edgeSchema.To.DestTable)"].
(* ... and per function *)
Definition schema_args_at : list (string * string) :=
  [("psql/graphdb.go:createIndex#", "table"); ("psql/graphdb.go:createIndex#", "field")].
(* strings derived (by Replace / suffixing) from an argument that the function validates *)
Definition derived_at : list (string * string * string) :=
  [("psql/graphdb.go:AddGraph#", "sanitizedName", "graph"); ("psql/graphdb.go:AddGraph#", "vertexTable", "graph");
   ("psql/graphdb.go:AddGraph#", "edgeTable", "graph")].
(* fragments assembled by the same function from pieces that are classified on their own (join_sources, earlier sites) *)
Definition carried_args : list string := ["q"; "ids"; "strings.Join(labels, "", "")"].
(* formats that build identifiers / messages, not SQL text *)
Definition not_sql_formats : list string := ["%v:%v"; "%v_%v"; "%s"; "%s:%s:%s:%s:%s"; "(%s)--%s->(%s)"].

Section Classify.
Variable validated : list (string * string).
Definition at_site (site : string) (p : string * string) (arg : string) := has_prefix (fst p) site && String.eqb (snd p) arg.
Definition is_validated (site arg : string) : bool := existsb (fun p => at_site site p arg) validated.
Definition is_safe_arg (site arg : string) : bool :=
  mem_s arg schema_args || mem_s arg carried_args
  || existsb (fun p => at_site site p arg) schema_args_at
  || has_prefix "pq.QuoteLiteral(" arg
  || is_validated site arg
  || existsb (fun d => let '(f, a, src) := d in has_prefix f site && String.eqb a arg && is_validated site src) derived_at.

Definition client_args (t : string * string * list string) : list string :=
  let '(site, fmt, args) := t in
  if mem_s fmt not_sql_formats then [] else filter (fun a => negb (is_safe_arg site a)) args.

(* the sites that splice a request-supplied string into statement text *)
Definition unsafe_sites (ts : list (string * string * list string)) : list (string * list string) :=
  flat_map (fun t => match client_args t with [] => [] | l => [(fst (fst t), l)] end) ts.
(* pieces stored into a joined slice must be quoted (Sprintf pieces are sites of their own) *)
Definition unsafe_joins (js : list (string * string * string)) : list (string * list string) :=
  flat_map (fun j => let '(f, sl, e) := j in
     if has_prefix "pq.QuoteLiteral(" e || has_prefix "fmt.Sprintf(" e then [] else [((f ++ "join:" ++ sl)%string, [e])]) js.
End Classify.

(* fmt.Sprintf restricted to the verbs the drivers use (%s %v %d): each verb is replaced by the next argument *)
Fixpoint render (fmt : list ascii) (args : list (list ascii)) : list ascii :=
  match fmt with
  | [] => []
  | c :: r =>
      if n c =? 37 then
        match r with
        | v :: r2 => if (n v =? 115) || (n v =? 118) || (n v =? 100)
                     then match args with a :: rest => a ++ render r2 rest | [] => render r2 [] end
                     else c :: render r args
        | [] => [c]
        end
      else c :: render r args
  end.
